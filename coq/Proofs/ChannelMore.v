(* More proofs about Model/Channel.v and the additions of Model/ChannelThreads.v:
   A. Close / Done / permanence of closedness under every later schedule (C12, C13);
   B. no-op ("stutter") lemmas for every failed result (C13);
   C. the clauses of C13 stated on the implementation-level model (source order, replay after Rollback, what Commit
      drops, what Buffer returns, no invented values);
   D. the split cancellation machine (context cancelled / watcher closes) against the atomic OCancel;
   E. threads: every history of the thread-level wrapper is linearizable, real-time order respected. *)
From Coq Require Import List ZArith Bool Arith Lia.
From BB.Model Require Import Channel ChannelThreads.
From BB.Proofs Require Import Channel.
Import ListNotations.

Arguments Nat.sub : simpl never.
Arguments Nat.eqb : simpl never.
Arguments Nat.ltb : simpl never.

Ltac fields := cbn [fst snd src src_closed buf rb closed once committed taken sent base wdone].

(* Case analysis of one `step`: every test the step makes is split; nothing else is. *)
Ltac step_cases s :=
  unfold step;
  repeat match goal with
         | |- context [if closed s then _ else _] => destruct (closed s) eqn:?
         | |- context [if once s then _ else _] => destruct (once s) eqn:?
         | |- context [if src_closed s then _ else _] => destruct (src_closed s) eqn:?
         | |- context [if negb (rb s =? 0) then _ else _] => destruct (rb s =? 0) eqn:?; cbn [negb]
         | |- context [if pending s =? 0 then _ else _] => destruct (pending s =? 0) eqn:?
         | |- context [match src s with _ => _ end] => destruct (src s) eqn:?
         end;
  unfold upd_get_take, upd_get_replay; fields.

Lemma run_app s ops1 ops2 :
  run s (ops1 ++ ops2) =
  (fst (run (fst (run s ops1)) ops2), snd (run s ops1) ++ snd (run (fst (run s ops1)) ops2)).
Proof.
  revert s. induction ops1 as [|o rest IH]; intros s.
  - cbn [app run fst snd]. destruct (run s ops2); reflexivity.
  - cbn [app]. rewrite !run_cons. cbn [fst snd]. rewrite IH. reflexivity.
Qed.

Lemma run_length s ops : length (snd (run s ops)) = length ops.
Proof.
  revert s. induction ops as [|o rest IH]; intros s; [reflexivity|].
  rewrite run_cons. cbn [snd length]. rewrite IH. reflexivity.
Qed.

(* ============================================================================================================= *)
(* A. Close, Done, permanence                                                                                     *)
(* ============================================================================================================= *)

(* The first Close succeeds, cancels the context, closes Done, touches nothing else; the next Close fails and changes
   nothing. *)
Theorem close_first_ok s :
  once s = false ->
  let s1 := fst (step s OClose) in
  snd (step s OClose) = ROk /\ closed s1 = true /\ done_closed s1 = true /\
  (src s1 = src s /\ src_closed s1 = src_closed s /\ buf s1 = buf s /\ rb s1 = rb s /\
   committed s1 = committed s /\ taken s1 = taken s /\ sent s1 = sent s) /\
  step s1 OClose = (s1, RErr).
Proof. intros H. cbv zeta. unfold done_closed, step. rewrite H. cbn. repeat split. Qed.

Theorem close_again_fails s : done_closed s = true -> step s OClose = (s, RErr).
Proof. unfold done_closed, step. intros ->. reflexivity. Qed.

(* Cancelling the context the Channel was built on (atomic view: the watcher has run): Done closed, context
   cancelled, data untouched, and an explicit Close afterwards fails. *)
Theorem cancel_closes s :
  let s1 := fst (step s OCancel) in
  snd (step s OCancel) = ROk /\ closed s1 = true /\ done_closed s1 = true /\
  (src s1 = src s /\ src_closed s1 = src_closed s /\ buf s1 = buf s /\ rb s1 = rb s /\
   committed s1 = committed s /\ taken s1 = taken s /\ sent s1 = sent s) /\
  step s1 OClose = (s1, RErr).
Proof. cbv zeta. unfold done_closed, step. cbn. repeat split. Qed.

(* One step from a closed state. *)
Lemma step_frozen s o :
  closed s = true ->
  let s1 := fst (step s o) in
  closed s1 = true /\ taken s1 = taken s /\ buf s1 = buf s /\ committed s1 = committed s /\
  (exists extra, src s1 = src s ++ extra /\ sent s1 = sent s ++ extra) /\
  (o = OGet \/ o = OCommit -> snd (step s o) = RErr) /\
  (once s = true -> once s1 = true /\ (o = OClose -> snd (step s o) = RErr)).
Proof.
  intros Hc. cbv zeta.
  assert (Hnil : exists extra : list Z, src s = src s ++ extra /\ sent s = sent s ++ extra)
    by (exists []; rewrite !app_nil_r; auto).
  destruct o; step_cases s; try discriminate Hc;
    (split; [auto|]; split; [auto|]; split; [auto|]; split; [auto|]; split;
     [try exact Hnil|split; [intros [E|E]; try discriminate E; auto|intros Ho; split; [auto|intros E; try discriminate E; auto]]]).
  all: try congruence.
  exists [v]. auto.
Qed.

Lemma step_closed_mono s o : closed s = true -> closed (fst (step s o)) = true.
Proof. intros Hc. apply (step_frozen s o Hc). Qed.

Lemma step_once_mono s o : once s = true -> once (fst (step s o)) = true.
Proof. intros Ho. destruct o; step_cases s; auto; congruence. Qed.

(* Closedness is permanent: no later operation sequence reopens the Channel or its Done channel. *)
Theorem closed_permanent ops : forall s, closed s = true -> closed (fst (run s ops)) = true.
Proof.
  induction ops as [|o rest IH]; intros s Hc; [exact Hc|].
  rewrite run_cons. cbn [fst]. apply IH, step_closed_mono, Hc.
Qed.

Theorem done_permanent ops : forall s, done_closed s = true -> done_closed (fst (run s ops)) = true.
Proof.
  unfold done_closed. induction ops as [|o rest IH]; intros s Hc; [exact Hc|].
  rewrite run_cons. cbn [fst]. apply IH, step_once_mono, Hc.
Qed.

(* Nothing is taken after close, for EVERY later schedule: whatever is done afterwards (Gets, Commits, Rollbacks,
   Closes, cancellations, source sends) the values taken, the buffer and the committed values stay what they were,
   the source only grows by what its owner sends, and every Get and every Commit returns an error. *)
Theorem frozen_after_closed ops : forall s,
  closed s = true ->
  let s' := fst (run s ops) in
  closed s' = true /\ taken s' = taken s /\ buf s' = buf s /\ committed s' = committed s /\
  (exists extra, src s' = src s ++ extra /\ sent s' = sent s ++ extra) /\
  Forall2 (fun o r => o = OGet \/ o = OCommit -> r = RErr) ops (snd (run s ops)).
Proof.
  induction ops as [|o rest IH]; intros s Hc; cbv zeta.
  - cbn [run fst snd]. repeat split; auto. exists []; rewrite !app_nil_r; auto.
  - rewrite run_cons. cbn [fst snd].
    destruct (step_frozen s o Hc) as (Hc1 & Ht1 & Hb1 & Hm1 & (e1 & Hs1 & Hn1) & Hr1 & _).
    destruct (IH _ Hc1) as (Hc2 & Ht2 & Hb2 & Hm2 & (e2 & Hs2 & Hn2) & Hr2).
    repeat split; try congruence.
    + exists (e1 ++ e2). rewrite Hs2, Hn2, Hs1, Hn1, !app_assoc. auto.
    + constructor; assumption.
Qed.

(* ... and once Done is closed every later Close returns an error too. *)
Theorem closes_fail_after_done ops : forall s,
  done_closed s = true ->
  Forall2 (fun o r => o = OClose -> r = RErr) ops (snd (run s ops)).
Proof.
  unfold done_closed. induction ops as [|o rest IH]; intros s Ho.
  - constructor.
  - rewrite run_cons. cbn [snd]. constructor.
    + intros ->. unfold step. rewrite Ho. reflexivity.
    + apply IH, step_once_mono, Ho.
Qed.

(* In the atomic model Done is closed exactly when the context is cancelled (Close cancels and closes Done in one
   critical section; OCancel is the quiescent view of a cancellation). *)
Lemma step_once_eq_closed s o : once s = closed s -> once (fst (step s o)) = closed (fst (step s o)).
Proof. intros H. destruct o; step_cases s; auto; congruence. Qed.

Theorem done_iff_closed ops : done_closed (fst (run init ops)) = closed (fst (run init ops)).
Proof.
  unfold done_closed.
  assert (G : forall s, once s = closed s -> once (fst (run s ops)) = closed (fst (run s ops))).
  { induction ops as [|o rest IH]; intros s H; [exact H|].
    rewrite run_cons. cbn [fst]. apply IH, step_once_eq_closed, H. }
  apply G. reflexivity.
Qed.

(* The same from the initial state, split at the moment the Channel is found closed: once a prefix of ANY history has
   left Done closed, no continuation takes anything more from the source. *)
Theorem nothing_taken_after_done pre post :
  done_closed (fst (run init pre)) = true ->
  let s := fst (run init pre) in
  let s' := fst (run init (pre ++ post)) in
  done_closed s' = true /\ closed s' = true /\ taken s' = taken s /\ buf s' = buf s /\ committed s' = committed s /\
  (exists extra, src s' = src s ++ extra /\ sent s' = sent s ++ extra) /\
  Forall2 (fun o r => o = OGet \/ o = OCommit \/ o = OClose -> r = RErr) post (snd (run s post)).
Proof.
  intros Hd. cbv zeta. rewrite run_app. cbn [fst].
  assert (Hc : closed (fst (run init pre)) = true) by (rewrite <- done_iff_closed; exact Hd).
  destruct (frozen_after_closed post _ Hc) as (H1 & H2 & H3 & H4 & H5 & H6).
  pose proof (closes_fail_after_done post _ Hd) as H7.
  split; [apply done_permanent, Hd|]. repeat split; auto.
  revert H6 H7. generalize (snd (run (fst (run init pre)) post)). generalize post.
  induction post0 as [|o rest IH]; intros rs H6 H7; inversion H6; subst; inversion H7; subst; constructor.
  - intros [E|[E|E]]; auto.
  - apply IH; assumption.
Qed.

Example close_example :
  snd (run init [OSrcSend 1; OSrcSend 2; OGet; OClose; OGet; OCommit; OClose; OCancel; OSrcSend 3; OGet; ORollback; OBuffer; OSrcPeek]%Z)
  = [ROk; ROk; RVal 1; ROk; RErr; RErr; RErr; ROk; ROk; RErr; ROk; RBuf [1]; RBuf [2; 3]]%Z.
Proof. vm_compute. reflexivity. Qed.

(* ============================================================================================================= *)
(* B. Failed results change nothing                                                                               *)
(* ============================================================================================================= *)

(* A Get attempt that finds nothing leaves the state exactly as it was: a polling Get may be linearised at ANY of its
   failed attempts, in particular the last one. *)
Theorem get_empty_stutters s : snd (step s OGet) = REmpty -> fst (step s OGet) = s.
Proof. step_cases s; intros E; try discriminate E; reflexivity. Qed.

(* Every operation that returns an error changes nothing (Get/Commit on a closed Channel, Get with a cancelled
   caller context, Commit/Rollback with nothing pending, second Close, send on a closed source); the observers
   (Buffer, the final drain of the source) change nothing either. *)
Theorem failed_result_is_noop s o :
  match snd (step s o) with
  | REmpty | RErr | RBuf _ => fst (step s o) = s
  | RVal _ | ROk => True
  end.
Proof. destruct o; step_cases s; auto. Qed.

Corollary err_is_noop s o : snd (step s o) = RErr -> fst (step s o) = s.
Proof. intros E. pose proof (failed_result_is_noop s o) as H. rewrite E in H. exact H. Qed.

Corollary chan_retry_stutters s o : chan_retry o (snd (step s o)) = true -> fst (step s o) = s.
Proof.
  intros E. pose proof (failed_result_is_noop s o) as H.
  destruct o; cbn [chan_retry] in E; try discriminate E.
  destruct (snd (step s OGet)); try discriminate E. exact H.
Qed.

(* the same on the cursor specification *)
Theorem spec_failed_result_is_noop a o :
  match snd (spec_step a o) with
  | REmpty | RErr | RBuf _ => fst (spec_step a o) = a
  | RVal _ | ROk => True
  end.
Proof.
  destruct o; unfold spec_step;
    repeat match goal with |- context [if ?b then _ else _] => destruct b eqn:? end; cbn [fst snd]; auto.
Qed.

Example empty_get_example :
  step (fst (run init [OSrcSend 5; OGet]%Z)) OGet = (fst (run init [OSrcSend 5; OGet]%Z), REmpty).
Proof. vm_compute. reflexivity. Qed.

(* ============================================================================================================= *)
(* C. The clauses of C13 on the implementation-level model                                                        *)
(* ============================================================================================================= *)

(* "Every value a Channel takes from its source is returned by Get": the only step that takes from the source is a Get
   attempt that returns that very value; it takes the OLDEST queued value and appends it to the pending buffer. *)
Theorem taken_only_by_get s o :
  let s1 := fst (step s o) in
  (taken s1 = taken s /\ (forall v, o <> OSrcSend v) -> src s1 = src s) /\
  (taken s1 = taken s \/
   (o = OGet /\ exists v, snd (step s o) = RVal v /\ taken s1 = taken s ++ [v] /\ src s = v :: src s1 /\
                          buf s1 = buf s ++ [v] /\ rb s = 0 /\ closed s = false)).
Proof.
  cbv zeta. destruct o; step_cases s.
  all: try (split; [intros [_ Hn]; try reflexivity; exfalso; eapply Hn; reflexivity | left; reflexivity]).
  all: try (split; [intros _; assumption | left; reflexivity]).
  split.
  - intros [Ht _]. exfalso. apply (f_equal (@length Z)) in Ht. rewrite app_length in Ht. cbn [length] in Ht. lia.
  - right. split; [reflexivity|]. exists z. apply Nat.eqb_eq in Heqb0. repeat split; auto.
Qed.

(* "dropped from its pending buffer only by Commit", "Commit drops exactly those [delivered]": the buffer changes in
   two ways only: a Get that takes a new value appends it; a successful Commit removes exactly the delivered prefix
   (the `pending` leading entries), which moves to `committed`; entries awaiting replay are kept. *)
Theorem buffer_changes s o :
  let s1 := fst (step s o) in
  (buf s1 = buf s /\ committed s1 = committed s) \/
  (o = OGet /\ exists v, snd (step s o) = RVal v /\ buf s1 = buf s ++ [v] /\ committed s1 = committed s) \/
  (o = OCommit /\ snd (step s o) = ROk /\ closed s = false /\ pending s <> 0 /\
   buf s1 = skipn (pending s) (buf s) /\ committed s1 = committed s ++ firstn (pending s) (buf s) /\ rb s1 = rb s).
Proof.
  cbv zeta. destruct o; step_cases s; auto.
  - right. left. split; [reflexivity|]. exists z. auto.
  - right. right. apply Nat.eqb_neq in Heqb0. repeat split; auto.
Qed.

(* "Buffer() = the uncommitted taken values": at any point of any run Buffer returns everything taken from the source
   minus what has been committed, in order, and changes nothing. *)
Theorem buffer_is_uncommitted_taken ops :
  let s := fst (run init ops) in
  step s OBuffer = (s, RBuf (skipn (length (committed s)) (taken s))) /\
  taken s = committed s ++ buf s.
Proof.
  cbv zeta. destruct (run_inv ops) as (_ & Hcb & _). split; [|symmetry; exact Hcb].
  unfold step. rewrite <- Hcb, skipn_app, skipn_all, Nat.sub_diag. reflexivity.
Qed.

(* Values delivered by a block of Get attempts, from ANY open state: first the entries awaiting replay, oldest first,
   then the values queued in the source, oldest first; never anything else. *)
Lemma skipn_nth_cons (l : list Z) : forall n, n < length l -> skipn n l = nth n l 0%Z :: skipn (S n) l.
Proof.
  induction l as [|x l IH]; intros n Hn; cbn [length] in Hn; [lia|].
  destruct n as [|n]; [reflexivity|]. cbn [skipn nth]. apply IH. lia.
Qed.

Theorem gets_deliver n : forall s,
  closed s = false -> rb s <= length (buf s) ->
  got (snd (run s (repeat OGet n))) = firstn n (skipn (pending s) (buf s) ++ src s).
Proof.
  induction n as [|n IH]; intros s Hc Hrb; [reflexivity|].
  cbn [repeat]. rewrite run_cons. cbn [snd].
  unfold step. rewrite Hc.
  destruct (rb s =? 0) eqn:Hr; cbn [negb].
  - apply Nat.eqb_eq in Hr.
    assert (Hp : pending s = length (buf s)) by (unfold pending; lia).
    rewrite Hp, skipn_all. cbn [app].
    destruct (src s) as [|v rest] eqn:Hsrc; cbn [fst snd got].
    + specialize (IH s Hc Hrb). rewrite Hp, skipn_all, Hsrc in IH. cbn [app] in IH.
      rewrite IH. destruct n; reflexivity.
    + cbn [firstn]. f_equal.
      rewrite IH; unfold upd_get_take, pending; fields; try assumption; [|rewrite app_length; lia].
      rewrite Hr, Nat.sub_0_r, skipn_all. reflexivity.
  - apply Nat.eqb_neq in Hr.
    assert (Hp : pending s < length (buf s)) by (unfold pending; lia).
    cbn [fst snd got]. rewrite (skipn_nth_cons _ _ Hp). cbn [app firstn]. f_equal.
    rewrite IH; unfold upd_get_replay, pending; fields; try assumption; [|lia].
    replace (length (buf s) - (rb s - 1)) with (S (length (buf s) - rb s)) by (unfold pending in Hp; lia).
    reflexivity.
Qed.

(* "replayed in the same order after Rollback" / "a Rollback re-delivers exactly the uncommitted ones in the same
   order": after a successful Rollback the next Gets return the WHOLE uncommitted buffer, in order, and only then new
   values from the source; the buffer itself is not changed by the Rollback. *)
Theorem rollback_redelivers s n :
  closed s = false -> rb s <= length (buf s) -> snd (step s ORollback) = ROk ->
  let s1 := fst (step s ORollback) in
  buf s1 = buf s /\ src s1 = src s /\ pending s1 = 0 /\
  got (snd (run s1 (repeat OGet n))) = firstn n (buf s ++ src s).
Proof.
  intros Hc Hrb Hok. cbv zeta. revert Hok. unfold step at 1.
  destruct (pending s =? 0) eqn:Hp; [intros E; discriminate E|intros _].
  assert (Hs1 : fst (step s ORollback) =
                {| src := src s; src_closed := src_closed s; buf := buf s; rb := rb s + pending s;
                   closed := closed s; once := once s; committed := committed s; taken := taken s; sent := sent s |})
    by (unfold step; rewrite Hp; reflexivity).
  rewrite Hs1. fields.
  assert (Hp0 : length (buf s) - (rb s + pending s) = 0) by (unfold pending; lia).
  repeat split; [exact Hp0|].
  rewrite gets_deliver; fields; [|assumption|unfold pending; lia].
  unfold pending at 1. fields. rewrite Hp0. reflexivity.
Qed.

(* in particular exactly the uncommitted ones come back, in the same order *)
Corollary rollback_redelivers_buffer s :
  closed s = false -> rb s <= length (buf s) -> snd (step s ORollback) = ROk ->
  got (snd (run (fst (step s ORollback)) (repeat OGet (length (buf s))))) = buf s.
Proof.
  intros Hc Hrb Hok. destruct (rollback_redelivers s (length (buf s)) Hc Hrb Hok) as (_ & _ & _ & H).
  rewrite H, firstn_app, Nat.sub_diag, firstn_all. cbn [firstn]. apply app_nil_r.
Qed.

Example rollback_redelivers_example :
  let s := fst (run init [OSrcSend 1; OSrcSend 2; OSrcSend 3; OSrcSend 4; OGet; OCommit; OGet; OGet; ORollback; OGet]%Z) in
  buf s = [2; 3]%Z /\ snd (step s ORollback) = ROk /\
  got (snd (run (fst (step s ORollback)) (repeat OGet 5))) = [2; 3; 4]%Z.
Proof. vm_compute. auto. Qed.

(* "source order" for whole runs: the values ever taken are a prefix of the values ever sent (so the k-th value taken
   is the k-th value sent), and a fresh Get (nothing awaiting replay) returns the next one. *)
Theorem taken_is_prefix_of_sent ops :
  let s := fst (run init ops) in sent s = taken s ++ src s.
Proof. cbv zeta. destruct (run_inv ops) as (_ & _ & H). symmetry. exact H. Qed.

(* "A closed source never produces zero values": no value is ever invented.  Every value returned by any Get of any
   run was sent to the source; with nothing queued and nothing to replay a Get attempt returns REmpty and changes
   nothing, whether or not the source has been closed. *)
Lemma step_val_sent s o v :
  Inv s -> snd (step s o) = RVal v -> In v (sent s).
Proof.
  intros (Hrb & Hcb & Hts). destruct o; step_cases s; intros E; try discriminate E; inversion E; subst.
  - rewrite <- Hts. apply in_or_app. right. left. reflexivity.
  - apply Nat.eqb_neq in Heqb0. rewrite <- Hts, <- Hcb. apply in_or_app. left. apply in_or_app. right.
    apply nth_In. unfold pending. lia.
Qed.

Lemma step_sent_mono s o v : In v (sent s) -> In v (sent (fst (step s o))).
Proof. intros H. destruct o; step_cases s; auto. apply in_or_app. left. exact H. Qed.

Lemma run_sent_mono ops : forall s v, In v (sent s) -> In v (sent (fst (run s ops))).
Proof.
  induction ops as [|o rest IH]; intros s v H; [exact H|].
  rewrite run_cons. cbn [fst]. apply IH, step_sent_mono, H.
Qed.

Theorem values_are_never_invented ops v :
  In (RVal v) (snd (run init ops)) -> In v (sent (fst (run init ops))).
Proof.
  assert (G : forall s, Inv s -> In (RVal v) (snd (run s ops)) -> In v (sent (fst (run s ops)))).
  { induction ops as [|o rest IH]; intros s HI H; [destruct H|].
    rewrite run_cons in H |- *. cbn [fst snd] in H |- *. destruct H as [H|H].
    - apply run_sent_mono, step_sent_mono. eapply step_val_sent; eassumption.
    - apply IH; [apply step_refines, HI|exact H]. }
  apply G, Inv_init.
Qed.

Theorem drained_source_gives_empty s :
  closed s = false -> rb s = 0 -> src s = [] -> step s OGet = (s, REmpty).
Proof. intros Hc Hr Hs. unfold step. rewrite Hc, Hr, Hs. reflexivity. Qed.

Example closed_source_example :
  snd (run init [OSrcSend 7; OSrcClose; OGet; OGet; OSrcSend 8; OGet]%Z) = [ROk; ROk; RVal 7; REmpty; RErr; REmpty]%Z.
Proof. vm_compute. reflexivity. Qed.

(* ============================================================================================================= *)
(* D. The split cancellation machine                                                                              *)
(* ============================================================================================================= *)

Lemma xrun_cons x o rest :
  xrun x (o :: rest) = (fst (xrun (fst (xstep x o)) rest), snd (xstep x o) :: snd (xrun (fst (xstep x o)) rest)).
Proof.
  cbn [xrun]. destruct (xstep x o) as [x1 r]. cbn [fst snd]. destruct (xrun x1 rest) as [x2 rs]. reflexivity.
Qed.

(* The invariant of the split machine: the representation invariant of the Channel; Done is closed only after the
   context is cancelled; the watcher has made its Close call only if Done is closed. *)
Definition XInv (x : xst) : Prop :=
  Inv (base x) /\ (once (base x) = true -> closed (base x) = true) /\ (wdone x = true -> once (base x) = true).

Lemma XInv_init : XInv xinit.
Proof. unfold XInv, xinit; fields. split; [exact Inv_init|]. split; intros E; discriminate E. Qed.

Lemma step_done_implies_closed s o :
  (once s = true -> closed s = true) -> once (fst (step s o)) = true -> closed (fst (step s o)) = true.
Proof. intros H. destruct o; step_cases s; auto; intros E; specialize (H E); congruence. Qed.

Lemma Inv_set_closed s : Inv s -> Inv (set_closed s).
Proof. intros H. exact H. Qed.

Lemma xstep_inv x xo : XInv x -> XInv (fst (xstep x xo)).
Proof.
  intros (HI & Hoc & Hwo). destruct xo as [o| |]; unfold xstep.
  - fields. split; [apply step_refines, HI|]. split.
    + apply step_done_implies_closed, Hoc.
    + intros Hw. apply step_once_mono, Hwo, Hw.
  - fields. split; [exact HI|]. split; [reflexivity|exact Hwo].
  - destruct (watcher_enabled x) eqn:He; fields; [|split; [exact HI|split; assumption]].
    split; [apply step_refines, HI|]. split.
    + apply step_done_implies_closed, Hoc.
    + intros _. unfold step. destruct (once (base x)) eqn:Ho; fields; auto.
Qed.

(* For EVERY interleaving of context cancellation, the watcher's Close and the other operations: the representation
   invariant (nothing lost, duplicated or reordered), Done closed only after the context is cancelled. *)
Theorem xrun_inv xops : forall x, XInv x -> XInv (fst (xrun x xops)).
Proof.
  induction xops as [|o rest IH]; intros x H; [exact H|].
  rewrite xrun_cons. cbn [fst]. apply IH, xstep_inv, H.
Qed.

Corollary xrun_inv_init xops : XInv (fst (xrun xinit xops)).
Proof. apply xrun_inv, XInv_init. Qed.

(* ---- comparison with the atomic model ---- *)

(* The atomic model's state is a function of the split machine's: the same, with Done closed as soon as the context
   is cancelled. *)
Definition atomic_view (s : st) : st :=
  {| src := src s; src_closed := src_closed s; buf := buf s; rb := rb s; closed := closed s; once := closed s;
     committed := committed s; taken := taken s; sent := sent s |}.

(* results agree position by position, except that an explicit Close may succeed where the atomic model says
   "already closed" *)
Fixpoint agree (os : list op) (rs rs' : list out) : Prop :=
  match os, rs, rs' with
  | [], [], [] => True
  | o :: os', r :: rs0, r' :: rs0' => (r = r' \/ (o = OClose /\ r = ROk /\ r' = RErr)) /\ agree os' rs0 rs0'
  | _, _, _ => False
  end.

(* One operation of Model/Channel.v in the split machine against the same operation of the atomic model: same next
   state (up to the view), same result, EXCEPT an explicit Close inside the window (context cancelled, watcher not yet
   run), which returns nil in the split machine (and in the code) but "already closed" in the atomic model. *)
Lemma step_vs_atomic s o :
  (once s = true -> closed s = true) ->
  fst (step (atomic_view s) o) = atomic_view (fst (step s o)) /\
  (snd (step s o) = snd (step (atomic_view s) o) \/
   (o = OClose /\ in_window s = true /\ snd (step s o) = ROk /\ snd (step (atomic_view s) o) = RErr)).
Proof.
  intros Hoc. unfold in_window.
  destruct o; unfold step, atomic_view, pending; fields;
    repeat match goal with
           | |- context [if closed s then _ else _] => destruct (closed s) eqn:?
           | |- context [if once s then _ else _] => destruct (once s) eqn:?
           | |- context [if src_closed s then _ else _] => destruct (src_closed s) eqn:?
           | |- context [if negb (rb s =? 0) then _ else _] => destruct (rb s =? 0) eqn:?; cbn [negb]
           | |- context [if length (buf s) - rb s =? 0 then _ else _] => destruct (length (buf s) - rb s =? 0) eqn:?
           | |- context [match src s with _ => _ end] => destruct (src s) eqn:?
           end; unfold upd_get_take, upd_get_replay, pending; fields; rewrite ?Heqb; auto.
  all: rewrite <- ?Heql; auto.
  - (* Close inside the window *)
    split; [reflexivity|]. right. auto.
  - (* Close when the Once has fired: then the context is cancelled *)
    exfalso. specialize (Hoc eq_refl). discriminate Hoc.
Qed.

Lemma xstep_vs_atomic x xo :
  (once (base x) = true -> closed (base x) = true) ->
  match collapse1 xo with
  | [o] => fst (step (atomic_view (base x)) o) = atomic_view (base (fst (xstep x xo))) /\
           (snd (xstep x xo) = snd (step (atomic_view (base x)) o) \/
            (xo = XOp OClose /\ in_window (base x) = true /\
             snd (xstep x xo) = ROk /\ snd (step (atomic_view (base x)) o) = RErr))
  | _ => atomic_view (base (fst (xstep x xo))) = atomic_view (base x)
  end.
Proof.
  intros Hoc. destruct xo as [o| |]; cbn [collapse1 xstep]; fields.
  - destruct (step_vs_atomic (base x) o Hoc) as [H1 [H2|(H2 & H3 & H4 & H5)]]; split; auto.
    right. subst o. auto.
  - split; [reflexivity|left; reflexivity].
  - destruct (watcher_enabled x) eqn:He; fields; [|reflexivity].
    unfold watcher_enabled in He. apply andb_true_iff in He. destruct He as [Hc _].
    unfold step, atomic_view. destruct (once (base x)); fields; rewrite ?Hc; reflexivity.
Qed.

(* Every schedule of the split machine against its atomic reading (cancellation = OCancel, the watcher's Close
   invisible): the final states are the same up to the view, and the visible results are the same except for explicit
   Closes that fall in a window. *)
Theorem split_vs_atomic xops : forall x,
  (once (base x) = true -> closed (base x) = true) ->
  fst (run (atomic_view (base x)) (collapse xops)) = atomic_view (base (fst (xrun x xops))) /\
  agree (collapse xops) (visible xops (snd (xrun x xops))) (snd (run (atomic_view (base x)) (collapse xops))).
Proof.
  induction xops as [|xo rest IH]; intros x Hoc.
  - cbn. auto.
  - rewrite xrun_cons. cbn [fst snd].
    assert (Hoc1 : once (base (fst (xstep x xo))) = true -> closed (base (fst (xstep x xo))) = true).
    { destruct xo as [o| |]; cbn [xstep]; fields.
      - apply step_done_implies_closed, Hoc.
      - reflexivity.
      - destruct (watcher_enabled x); fields; [apply step_done_implies_closed, Hoc|exact Hoc]. }
    specialize (IH _ Hoc1). destruct IH as [IH1 IH2].
    pose proof (xstep_vs_atomic x xo Hoc) as Hst.
    unfold collapse in *. cbn [flat_map].
    destruct xo as [o| |]; cbn [collapse1 app visible] in *.
    + destruct Hst as [Hs Hr]. rewrite run_cons. cbn [fst snd]. rewrite Hs. split; [exact IH1|].
      split; [|exact IH2].
      destruct Hr as [Hr|(Hx & _ & Hr1 & Hr2)]; [left; exact Hr|right].
      inversion Hx; subst o. auto.
    + destruct Hst as [Hs Hr]. rewrite run_cons. cbn [fst snd]. rewrite Hs. split; [exact IH1|].
      split; [|exact IH2]. destruct Hr as [Hr|(Hx & _)]; [left; exact Hr|discriminate Hx].
    + rewrite <- Hst. split; assumption.
Qed.

Corollary split_vs_atomic_init xops :
  fst (run init (collapse xops)) = atomic_view (base (fst (xrun xinit xops))) /\
  agree (collapse xops) (visible xops (snd (xrun xinit xops))) (snd (run init (collapse xops))).
Proof. apply (split_vs_atomic xops xinit). intros E; discriminate E. Qed.

(* What happens in the window, step by step: Get and Commit already fail and nothing is taken (as in the atomic
   model), Done is still open, an explicit Close succeeds (the atomic model says it fails) and closes Done; after it
   the watcher's own Close finds the Once fired and changes nothing. *)
Theorem window_behaviour s :
  in_window s = true ->
  done_closed s = false /\
  step s OGet = (s, RErr) /\ step s OCommit = (s, RErr) /\
  snd (step s OClose) = ROk /\ done_closed (fst (step s OClose)) = true /\
  snd (step (atomic_view s) OClose) = RErr /\
  fst (step (fst (step s OClose)) OClose) = fst (step s OClose).
Proof.
  unfold in_window, done_closed. intros H. apply andb_true_iff in H. destruct H as [Hc Ho].
  apply negb_true_iff in Ho. unfold step, atomic_view; fields. rewrite Hc, Ho; fields. repeat split.
Qed.

(* the window is reachable, and the two models answer differently there (and only for Close) *)
Example window_example :
  snd (xrun xinit [XOp (OSrcSend 1%Z); XCtxCancel; XOp OGet; XOp OClose; XWatcherClose; XOp OClose])
    = [ROk; ROk; RErr; ROk; ROk; RErr] /\
  snd (run init (collapse [XOp (OSrcSend 1%Z); XCtxCancel; XOp OGet; XOp OClose; XWatcherClose; XOp OClose]))
    = [ROk; ROk; RErr; RErr; RErr].
Proof. vm_compute. auto. Qed.

(* Cancelling and then letting the watcher run is exactly the atomic OCancel. *)
Theorem cancel_then_watcher_is_OCancel x :
  wdone x = false ->
  base (fst (xrun x [XCtxCancel; XWatcherClose])) = fst (step (base x) OCancel) /\
  wdone (fst (xrun x [XCtxCancel; XWatcherClose])) = true.
Proof.
  intros Hw. rewrite !xrun_cons. cbn [xrun fst xstep]. unfold watcher_enabled, set_closed, step; fields.
  rewrite Hw. cbn [andb negb]; fields.
  destruct (once (base x)) eqn:Ho; fields; rewrite ?Ho; auto.
Qed.

(* ---- C12 for the split machine, every interleaving ---- *)

Lemma xstep_closed_mono x xo : closed (base x) = true -> closed (base (fst (xstep x xo))) = true.
Proof.
  intros Hc. destruct xo as [o| |]; cbn [xstep]; fields.
  - apply step_closed_mono, Hc.
  - reflexivity.
  - destruct (watcher_enabled x); fields; [apply step_closed_mono, Hc|exact Hc].
Qed.

Lemma xstep_once_mono x xo : once (base x) = true -> once (base (fst (xstep x xo))) = true.
Proof.
  intros Hc. destruct xo as [o| |]; cbn [xstep]; fields.
  - apply step_once_mono, Hc.
  - exact Hc.
  - destruct (watcher_enabled x); fields; [apply step_once_mono, Hc|exact Hc].
Qed.

Theorem x_closed_permanent xops : forall x, closed (base x) = true -> closed (base (fst (xrun x xops))) = true.
Proof.
  induction xops as [|o rest IH]; intros x H; [exact H|].
  rewrite xrun_cons. cbn [fst]. apply IH, xstep_closed_mono, H.
Qed.

Theorem x_done_permanent xops : forall x,
  done_closed (base x) = true -> done_closed (base (fst (xrun x xops))) = true.
Proof.
  unfold done_closed. induction xops as [|o rest IH]; intros x H; [exact H|].
  rewrite xrun_cons. cbn [fst]. apply IH, xstep_once_mono, H.
Qed.

(* From the moment the context is cancelled (Done possibly still open), under every later interleaving: nothing more is
   taken, buffer and committed values frozen, every Get and Commit fails. *)
Theorem x_frozen_after_cancel xops : forall x,
  closed (base x) = true ->
  let s := base x in
  let s' := base (fst (xrun x xops)) in
  closed s' = true /\ taken s' = taken s /\ buf s' = buf s /\ committed s' = committed s /\
  (exists extra, src s' = src s ++ extra /\ sent s' = sent s ++ extra) /\
  Forall2 (fun xo r => xo = XOp OGet \/ xo = XOp OCommit -> r = RErr) xops (snd (xrun x xops)).
Proof.
  induction xops as [|xo rest IH]; intros x Hc; cbv zeta.
  - cbn [xrun fst snd]. repeat split; auto. exists []; rewrite !app_nil_r; auto.
  - rewrite xrun_cons. cbn [fst snd].
    assert (H1 : let s1 := base (fst (xstep x xo)) in
                 closed s1 = true /\ taken s1 = taken (base x) /\ buf s1 = buf (base x) /\
                 committed s1 = committed (base x) /\
                 (exists extra, src s1 = src (base x) ++ extra /\ sent s1 = sent (base x) ++ extra) /\
                 (xo = XOp OGet \/ xo = XOp OCommit -> snd (xstep x xo) = RErr)).
    { assert (Hnil : exists extra : list Z, src (base x) = src (base x) ++ extra /\ sent (base x) = sent (base x) ++ extra)
        by (exists []; rewrite !app_nil_r; auto).
      cbv zeta. destruct xo as [o| |]; cbn [xstep]; fields.
      - destruct (step_frozen (base x) o Hc) as (A1 & A2 & A3 & A4 & A5 & A6 & _).
        repeat split; auto. intros [E|E]; inversion E; subst o; apply A6; auto.
      - repeat split; auto. intros [E|E]; discriminate E.
      - destruct (watcher_enabled x); fields.
        + destruct (step_frozen (base x) OClose Hc) as (A1 & A2 & A3 & A4 & A5 & _).
          repeat split; auto. intros [E|E]; discriminate E.
        + repeat split; auto. intros [E|E]; discriminate E. }
    cbv zeta in H1. destruct H1 as (Hc1 & Ht1 & Hb1 & Hm1 & (e1 & Hs1 & Hn1) & Hr1).
    destruct (IH _ Hc1) as (Hc2 & Ht2 & Hb2 & Hm2 & (e2 & Hs2 & Hn2) & Hr2).
    repeat split; try congruence.
    + exists (e1 ++ e2). rewrite Hs2, Hn2, Hs1, Hn1, !app_assoc. auto.
    + constructor; assumption.
Qed.

(* how many explicit Closes returned nil *)
Fixpoint close_oks (xops : list xop) (rs : list out) : nat :=
  match xops, rs with
  | XOp OClose :: xops', ROk :: rs' => S (close_oks xops' rs')
  | _ :: xops', _ :: rs' => close_oks xops' rs'
  | _, _ => 0
  end.

(* "a second Close returns an error": in every interleaving at most ONE explicit Close returns nil, and none does once
   Done is closed (by an earlier Close or by the watcher). *)
Lemma le_mono_flag (n : nat) (b b1 : bool) :
  (b = true -> b1 = true) -> n <= (if b1 then 0 else 1) -> n <= (if b then 0 else 1).
Proof. destruct b, b1; intros H; try lia; specialize (H eq_refl); discriminate H. Qed.

Theorem x_close_ok_at_most_once xops : forall x,
  close_oks xops (snd (xrun x xops)) <= (if done_closed (base x) then 0 else 1).
Proof.
  unfold done_closed. induction xops as [|xo rest IH]; intros x.
  - cbn. destruct (once (base x)); lia.
  - rewrite xrun_cons. cbn [snd]. specialize (IH (fst (xstep x xo))).
    destruct xo as [o| |];
      [destruct o|..];
      try (cbn [close_oks];
           match type of IH with _ <= (if ?b1 then 0 else 1) =>
             apply (le_mono_flag _ _ b1); [apply xstep_once_mono|exact IH] end).
    (* explicit Close *)
    revert IH. cbn [xstep]; fields. unfold step.
    destruct (once (base x)) eqn:Ho; fields; cbn [close_oks]; rewrite ?Ho; intros IH; lia.
Qed.

(* "closes its Done channel", "no goroutine is left": once the context is cancelled (by the parent or by an explicit
   Close) the watcher can always make its move (it needs only the Once and the mutex), the move closes Done if it is
   not closed yet, changes no data, and the watcher is finished; when the watcher cannot move and the context is
   cancelled, Done is closed and the watcher has finished. *)
Theorem x_watcher_closes_done x :
  closed (base x) = true -> wdone x = false ->
  let x1 := fst (xstep x XWatcherClose) in
  watcher_enabled x = true /\ wdone x1 = true /\ done_closed (base x1) = true /\ closed (base x1) = true /\
  (src (base x1) = src (base x) /\ buf (base x1) = buf (base x) /\ rb (base x1) = rb (base x) /\
   committed (base x1) = committed (base x) /\ taken (base x1) = taken (base x) /\ sent (base x1) = sent (base x)) /\
  watcher_enabled x1 = false.
Proof.
  intros Hc Hw. cbv zeta. unfold done_closed, xstep, watcher_enabled. rewrite Hc, Hw. cbn [andb negb]; fields.
  unfold step. destruct (once (base x)) eqn:Ho; fields; rewrite ?Hc, ?Ho; cbn [andb negb]; repeat split; auto.
Qed.

Theorem x_quiescent_closed_means_done x :
  XInv x -> closed (base x) = true -> watcher_enabled x = false ->
  wdone x = true /\ done_closed (base x) = true.
Proof.
  intros (_ & _ & Hwo) Hc He. unfold watcher_enabled in He. rewrite Hc in He. cbn [andb] in He.
  apply negb_false_iff in He. split; [exact He|apply Hwo, He].
Qed.

(* Done closed implies context cancelled, in every reachable state of the split machine ("once Done is closed nothing
   more is taken" then follows from x_frozen_after_cancel). *)
Theorem x_done_implies_cancelled xops :
  done_closed (base (fst (xrun xinit xops))) = true -> closed (base (fst (xrun xinit xops))) = true.
Proof. destruct (xrun_inv_init xops) as (_ & H & _). exact H. Qed.

(* stutter lemma of the split machine: a parked watcher and an empty Get attempt change nothing *)
Theorem xchan_retry_stutters x xo : xchan_retry xo (snd (xstep x xo)) = true -> fst (xstep x xo) = x.
Proof.
  destruct xo as [o| |]; cbn [xstep xchan_retry]; fields.
  - intros E. assert (E' : chan_retry o (snd (step (base x) o)) = true).
    { destruct o; try discriminate E. exact E. }
    rewrite (chan_retry_stutters _ _ E'). destruct x; reflexivity.
  - intros E; discriminate E.
  - destruct (watcher_enabled x); fields; [intros E; discriminate E|reflexivity].
Qed.

(* ============================================================================================================= *)
(* E. Threads: every history of the thread-level wrapper is linearizable                                          *)
(* ============================================================================================================= *)

(* x occurs somewhere before y in l *)
Definition before {A : Type} (x y : A) (l : list A) : Prop := exists l1 l2 l3, l = l1 ++ x :: l2 ++ y :: l3.

Lemma before_in_l {A : Type} (x y : A) l : before x y l -> In x l.
Proof. intros (l1 & l2 & l3 & ->). apply in_elt. Qed.

Lemma before_snoc_l {A : Type} (x y e : A) l : before x y l -> before x y (l ++ [e]).
Proof.
  intros (l1 & l2 & l3 & ->). exists l1, l2, (l3 ++ [e]).
  rewrite <- app_assoc. cbn [app]. rewrite <- app_assoc. reflexivity.
Qed.

Lemma before_snoc_new {A : Type} (x e : A) l : In x l -> before x e (l ++ [e]).
Proof.
  intros H. apply in_split in H. destruct H as (l1 & l2 & ->). exists l1, l2, [].
  rewrite <- app_assoc. reflexivity.
Qed.

Lemma before_snoc_inv {A : Type} (x y e : A) l : before x y (l ++ [e]) -> before x y l \/ (In x l /\ y = e).
Proof.
  intros (l1 & l2 & l3 & E). destruct l3 as [|z l3 _] using rev_ind.
  - right. assert (E' : l ++ [e] = (l1 ++ x :: l2) ++ [y]) by (rewrite E, <- app_assoc; reflexivity).
    apply app_inj_tail in E'. destruct E' as [-> ->]. split; [apply in_elt|reflexivity].
  - left. assert (E' : l ++ [e] = (l1 ++ x :: l2 ++ y :: l3) ++ [z]).
    { rewrite E, <- app_assoc. cbn [app]. rewrite <- app_assoc. reflexivity. }
    apply app_inj_tail in E'. destruct E' as [-> _]. exists l1, l2, l3. reflexivity.
Qed.

Lemma in_snoc {A : Type} (a b : A) l : In a (l ++ [b]) -> In a l \/ a = b.
Proof. intros H. apply in_app_or in H. destruct H as [H|[H|[]]]; auto. Qed.

Lemma NoDup_snoc {A : Type} (a : A) l : NoDup l -> ~ In a l -> NoDup (l ++ [a]).
Proof.
  induction l as [|b l IH]; intros Hnd Hn; cbn [app].
  - constructor; [intros []|constructor].
  - inversion Hnd; subst. constructor.
    + intros Hin. apply in_snoc in Hin. destruct Hin as [Hin|Hin]; [contradiction|]. subst. apply Hn. left. reflexivity.
    + apply IH; [assumption|]. intros Hin. apply Hn. right. exact Hin.
Qed.

Section Lin.
Variables (St Op Res : Type).
Variable sstep : St -> Op -> St * Res.
Variable retry : Op -> Res -> bool.
Variable s0 : St.

Local Notation tstT := (tst St Op Res).
Local Notation hevT := (hev Op Res).
Local Notation entry := (opid * Op * Res)%type.

(* The standard definition.  A history H (invocations and responses of calls, each call named by thread and sequence
   number) is linearizable with respect to the sequential object `sstep` started in s0 when there is a sequence L of
   calls with results such that
   - L is a legal sequential execution: running the operations of L one at a time from s0 gives exactly the results
     recorded in L;
   - no call occurs twice in L;
   - L contains only calls invoked in H, with their operation;
   - L contains every call that returned in H, with the operation and the result it returned (calls still pending at
     the end of H may or may not be in L);
   - real-time order: if call a returned before call b was invoked, then a is before b in L. *)
Definition linearizable (H : list hevT) : Prop :=
  exists L : list entry,
    snd (grun sstep s0 (map lin_op L)) = map lin_res L /\
    NoDup (map lin_id L) /\
    (forall i o r, In (i, o, r) L -> In (HInv i o) H) /\
    (forall i o r, In (HRet i o r) H -> In (i, o, r) L) /\
    (forall a oa ra b ob, before (HRet a oa ra) (HInv b ob) H -> In b (map lin_id L) -> before a b (map lin_id L)).

(* well-formedness of a history: every response answers an earlier invocation of the same call with the same
   operation, calls are invoked at most once, and a thread invokes its next call only after the previous returned *)
Definition well_formed (H : list hevT) : Prop :=
  (forall i o r, In (HRet i o r) H -> before (HInv i o) (HRet i o r) H) /\
  (forall t k o, In (HInv (t, S k) o) H -> exists o' r', before (HRet (t, k) o' r') (HInv (t, S k) o) H).

Lemma grun_snoc s ops o :
  grun sstep s (ops ++ [o]) =
  (fst (sstep (fst (grun sstep s ops)) o),
   snd (grun sstep s ops) ++ [snd (sstep (fst (grun sstep s ops)) o)]).
Proof.
  revert s. induction ops as [|o1 rest IH]; intros s.
  - cbn [app grun fst snd]. destruct (sstep s o); reflexivity.
  - cbn [app grun]. destruct (sstep s o1) as [s1 r1]. rewrite IH.
    destruct (grun sstep s1 rest) as [s2 rs]. reflexivity.
Qed.

Lemma in_ids (L : list entry) i : In i (map lin_id L) -> exists o r, In (i, o, r) L.
Proof.
  intros H. apply in_map_iff in H. destruct H as ([[i' o] r] & E & Hin). cbn in E. subst i'. exists o, r. exact Hin.
Qed.

Lemma ids_in (L : list entry) i o r : In (i, o, r) L -> In i (map lin_id L).
Proof. intros H. apply in_map_iff. exists (i, o, r). split; [reflexivity|exact H]. Qed.

Definition thread_ok (x : tstT) (t : nat) : Prop :=
  match thr x t with
  | TIdle => forall k o, In (HInv (t, k) o) (hist x) -> k < seqn x t
  | TPending o =>
      In (HInv (t, seqn x t) o) (hist x) /\
      (forall k o', In (HInv (t, k) o') (hist x) -> k <= seqn x t) /\
      ~ In (t, seqn x t) (map lin_id (lin x)) /\
      (forall o' r', ~ In (HRet (t, seqn x t) o' r') (hist x))
  | TDone o r =>
      In (HInv (t, seqn x t) o) (hist x) /\
      (forall k o', In (HInv (t, k) o') (hist x) -> k <= seqn x t) /\
      In ((t, seqn x t), o, r) (lin x) /\
      (forall o' r', ~ In (HRet (t, seqn x t) o' r') (hist x))
  end.

Record TI (x : tstT) : Prop := {
  ti_legal : grun sstep s0 (map lin_op (lin x)) = (sh x, map lin_res (lin x));
  ti_thr : forall t, thread_ok x t;
  ti_ret : forall i o r, In (HRet i o r) (hist x) -> In (i, o, r) (lin x);
  ti_inv : forall i o r, In (i, o, r) (lin x) -> In (HInv i o) (hist x);
  ti_nodup : NoDup (map lin_id (lin x));
  ti_rt : forall a oa ra b ob, before (HRet a oa ra) (HInv b ob) (hist x) ->
          In b (map lin_id (lin x)) -> before a b (map lin_id (lin x))
}.

Lemma TI_init : TI (tinit s0).
Proof.
  constructor; cbn [tinit sh thr seqn hist lin map grun].
  - reflexivity.
  - intros t. unfold thread_ok. cbn [tinit thr hist]. intros k o [].
  - intros i o r [].
  - intros i o r [].
  - constructor.
  - intros a oa ra b ob _ [].
Qed.

(* a thread that does not move keeps its local invariant when the history and the linearisation only grow by events of
   other threads *)
Lemma thread_ok_other (x x' : tstT) t' :
  thr x' t' = thr x t' -> seqn x' t' = seqn x t' ->
  (forall k o, In (HInv (t', k) o) (hist x') -> In (HInv (t', k) o) (hist x)) ->
  (forall k o r, In (HRet (t', k) o r) (hist x') -> In (HRet (t', k) o r) (hist x)) ->
  (forall e, In e (hist x) -> In e (hist x')) ->
  (forall e, In e (lin x) -> In e (lin x')) ->
  (forall k, In (t', k) (map lin_id (lin x')) -> In (t', k) (map lin_id (lin x))) ->
  thread_ok x t' -> thread_ok x' t'.
Proof.
  intros Et Es Hi Hr Hh Hl Hid. unfold thread_ok. rewrite Et, Es.
  destruct (thr x t') as [|o|o r].
  - intros H k o Hin. apply (H k o), Hi, Hin.
  - intros (H1 & H2 & H3 & H4). split; [apply Hh, H1|]. split; [intros k o' Hin; apply (H2 k o'), Hi, Hin|].
    split; [intros Hin; apply H3, Hid, Hin|]. intros o' r' Hin. apply (H4 o' r'), Hr, Hin.
  - intros (H1 & H2 & H3 & H4). split; [apply Hh, H1|]. split; [intros k o' Hin; apply (H2 k o'), Hi, Hin|].
    split; [apply Hl, H3|]. intros o' r' Hin. apply (H4 o' r'), Hr, Hin.
Qed.

Lemma upd_same {A : Type} (f : nat -> A) t v : upd f t v t = v.
Proof. unfold upd. rewrite Nat.eqb_refl. reflexivity. Qed.

Lemma upd_other {A : Type} (f : nat -> A) t t' v : t' <> t -> upd f t v t' = f t'.
Proof. intros H. unfold upd. apply Nat.eqb_neq in H. rewrite H. reflexivity. Qed.

(* The invariant is preserved by every event, provided a result that makes the caller poll again leaves the shared
   state unchanged (the stutter lemma). *)
Lemma tstep_inv (x : tstT) (e : ev Op) :
  (forall s o, retry o (snd (sstep s o)) = true -> fst (sstep s o) = s) ->
  TI x -> TI (tstep sstep retry x e).
Proof.
  intros Hst HI. destruct e as [t o|t final|t]; cbn [tstep].
  - (* invocation *)
    destruct (thr x t) as [|o0|o0 r0] eqn:Ht; try exact HI.
    pose proof (ti_thr x HI t) as Hok. unfold thread_ok in Hok. rewrite Ht in Hok.
    assert (Hfresh : ~ In (t, seqn x t) (map lin_id (lin x))).
    { intros Hin. apply in_ids in Hin. destruct Hin as (o1 & r1 & Hin).
      apply (ti_inv x HI) in Hin. apply Hok in Hin. lia. }
    constructor; cbn [sh thr seqn hist lin].
    + exact (ti_legal x HI).
    + intros t'. destruct (Nat.eq_dec t' t) as [->|Hne].
      * unfold thread_ok. cbn [thr seqn hist lin]. rewrite upd_same.
        split; [apply in_or_app; right; left; reflexivity|].
        split; [intros k o' Hin; apply in_snoc in Hin; destruct Hin as [Hin|Hin];
                [apply Hok in Hin; lia|inversion Hin; lia]|].
        split; [exact Hfresh|].
        intros o' r' Hin. apply in_snoc in Hin. destruct Hin as [Hin|Hin]; [|discriminate Hin].
        apply (ti_ret x HI) in Hin. apply Hfresh. eapply ids_in, Hin.
      * apply (thread_ok_other x); cbn [thr seqn hist lin]; auto.
        -- apply upd_other, Hne.
        -- intros k o' Hin. apply in_snoc in Hin. destruct Hin as [Hin|Hin]; [exact Hin|].
           inversion Hin; subst. contradiction.
        -- intros k o' r' Hin. apply in_snoc in Hin. destruct Hin as [Hin|Hin]; [exact Hin|discriminate Hin].
        -- intros e Hin. apply in_or_app. left. exact Hin.
        -- apply (ti_thr x HI).
    + intros i o' r' Hin. apply in_snoc in Hin. destruct Hin as [Hin|Hin]; [|discriminate Hin].
      apply (ti_ret x HI), Hin.
    + intros i o' r' Hin. apply in_or_app. left. apply (ti_inv x HI _ _ _ Hin).
    + exact (ti_nodup x HI).
    + intros a oa ra b ob Hb Hin. apply before_snoc_inv in Hb. destruct Hb as [Hb|[_ Hb]].
      * apply (ti_rt x HI _ _ _ _ _ Hb Hin).
      * inversion Hb; subst. contradiction.
  - (* one critical section *)
    destruct (thr x t) as [|o|o0 r0] eqn:Ht; try exact HI.
    pose proof (ti_thr x HI t) as Hok. unfold thread_ok in Hok. rewrite Ht in Hok.
    destruct Hok as (Hinv & Hbound & Hfresh & Hnoret).
    destruct (retry o (snd (sstep (sh x) o)) && negb final) eqn:Hre.
    + (* failed attempt, the call keeps polling: nothing changes *)
      apply andb_true_iff in Hre. destruct Hre as [Hre _]. rewrite (Hst _ _ Hre).
      destruct x; exact HI.
    + (* the call takes effect *)
      constructor; cbn [sh thr seqn hist lin].
      * rewrite !map_app. cbn [map lin_op lin_res fst snd]. rewrite grun_snoc, (ti_legal x HI). reflexivity.
      * intros t'. destruct (Nat.eq_dec t' t) as [->|Hne].
        -- unfold thread_ok. cbn [thr seqn hist lin]. rewrite upd_same.
           split; [exact Hinv|]. split; [exact Hbound|]. split; [apply in_or_app; right; left; reflexivity|exact Hnoret].
        -- apply (thread_ok_other x); cbn [thr seqn hist lin]; auto.
           ++ apply upd_other, Hne.
           ++ intros e Hin. apply in_or_app. left. exact Hin.
           ++ intros k Hin. rewrite map_app in Hin. apply in_snoc in Hin. destruct Hin as [Hin|Hin]; [exact Hin|].
              cbn [lin_id fst] in Hin. inversion Hin; subst. contradiction.
           ++ apply (ti_thr x HI).
      * intros i o' r' Hin. apply in_or_app. left. apply (ti_ret x HI), Hin.
      * intros i o' r' Hin. apply in_snoc in Hin. destruct Hin as [Hin|Hin].
        -- apply (ti_inv x HI _ _ _ Hin).
        -- inversion Hin; subst. exact Hinv.
      * rewrite map_app. apply NoDup_snoc; [exact (ti_nodup x HI)|exact Hfresh].
      * intros a oa ra b ob Hb Hin. rewrite map_app in Hin |- *. cbn [map lin_id fst] in Hin |- *.
        apply in_snoc in Hin. destruct Hin as [Hin|Hin].
        -- apply before_snoc_l. apply (ti_rt x HI _ _ _ _ _ Hb Hin).
        -- subst b. apply before_snoc_new. apply before_in_l in Hb. apply (ti_ret x HI) in Hb. eapply ids_in, Hb.
  - (* response *)
    destruct (thr x t) as [|o0|o r] eqn:Ht; try exact HI.
    pose proof (ti_thr x HI t) as Hok. unfold thread_ok in Hok. rewrite Ht in Hok.
    destruct Hok as (Hinv & Hbound & Hlin & Hnoret).
    constructor; cbn [sh thr seqn hist lin].
    + exact (ti_legal x HI).
    + intros t'. destruct (Nat.eq_dec t' t) as [->|Hne].
      * unfold thread_ok. cbn [thr seqn hist lin]. rewrite !upd_same.
        intros k o' Hin. apply in_snoc in Hin. destruct Hin as [Hin|Hin]; [|discriminate Hin].
        apply Hbound in Hin. lia.
      * apply (thread_ok_other x); cbn [thr seqn hist lin]; auto.
        -- apply upd_other, Hne.
        -- apply upd_other, Hne.
        -- intros k o' Hin. apply in_snoc in Hin. destruct Hin as [Hin|Hin]; [exact Hin|discriminate Hin].
        -- intros k o' r' Hin. apply in_snoc in Hin. destruct Hin as [Hin|Hin]; [exact Hin|].
           inversion Hin; subst. contradiction.
        -- intros e Hin. apply in_or_app. left. exact Hin.
        -- apply (ti_thr x HI).
    + intros i o' r' Hin. apply in_snoc in Hin. destruct Hin as [Hin|Hin].
      * apply (ti_ret x HI), Hin.
      * inversion Hin; subst. exact Hlin.
    + intros i o' r' Hin. apply in_or_app. left. apply (ti_inv x HI _ _ _ Hin).
    + exact (ti_nodup x HI).
    + intros a oa ra b ob Hb Hin. apply before_snoc_inv in Hb. destruct Hb as [Hb|[_ Hb]].
      * apply (ti_rt x HI _ _ _ _ _ Hb Hin).
      * discriminate Hb.
Qed.

Lemma trun_inv (es : list (ev Op)) : forall x : tstT,
  (forall s o, retry o (snd (sstep s o)) = true -> fst (sstep s o) = s) ->
  TI x -> TI (trun sstep retry x es).
Proof.
  induction es as [|e rest IH]; intros x Hst HI; [exact HI|].
  cbn [trun fold_left]. apply IH; [exact Hst|]. apply tstep_inv; assumption.
Qed.

(* THE THEOREM.  For any number of threads, any programs and any schedule (`es` is an arbitrary list of
   invoke / critical-section / return events; events that are not enabled are skipped): the recorded history is
   linearizable, and the witness is the order in which the effective critical sections were executed. *)
Theorem wrapper_linearizable (es : list (ev Op)) :
  (forall s o, retry o (snd (sstep s o)) = true -> fst (sstep s o) = s) ->
  let x := trun sstep retry (tinit s0) es in
  snd (grun sstep s0 (map lin_op (lin x))) = map lin_res (lin x) /\
  NoDup (map lin_id (lin x)) /\
  (forall i o r, In (i, o, r) (lin x) -> In (HInv i o) (hist x)) /\
  (forall i o r, In (HRet i o r) (hist x) -> In (i, o, r) (lin x)) /\
  (forall a oa ra b ob, before (HRet a oa ra) (HInv b ob) (hist x) ->
                        In b (map lin_id (lin x)) -> before a b (map lin_id (lin x))).
Proof.
  intros Hst. cbv zeta. pose proof (trun_inv es (tinit s0) Hst TI_init) as HI.
  split; [rewrite (ti_legal _ HI); reflexivity|].
  split; [exact (ti_nodup _ HI)|]. split; [exact (ti_inv _ HI)|]. split; [exact (ti_ret _ HI)|exact (ti_rt _ HI)].
Qed.

Corollary wrapper_histories_linearizable (es : list (ev Op)) :
  (forall s o, retry o (snd (sstep s o)) = true -> fst (sstep s o) = s) ->
  linearizable (hist (trun sstep retry (tinit s0) es)).
Proof.
  intros Hst. exists (lin (trun sstep retry (tinit s0) es)). exact (wrapper_linearizable es Hst).
Qed.

(* the state reached by the threads is the state reached by the sequential execution of the witness *)
Corollary wrapper_state_is_sequential (es : list (ev Op)) :
  (forall s o, retry o (snd (sstep s o)) = true -> fst (sstep s o) = s) ->
  let x := trun sstep retry (tinit s0) es in
  sh x = fst (grun sstep s0 (map lin_op (lin x))).
Proof.
  intros Hst. cbv zeta. pose proof (trun_inv es (tinit s0) Hst TI_init) as HI.
  rewrite (ti_legal _ HI). reflexivity.
Qed.
(* ---- the recorded histories are well formed ---- *)
Record WF (x : tstT) : Prop := {
  wf_ret : forall i o r, In (HRet i o r) (hist x) -> before (HInv i o) (HRet i o r) (hist x);
  wf_seq : forall t k o, In (HInv (t, S k) o) (hist x) ->
           exists o' r', before (HRet (t, k) o' r') (HInv (t, S k) o) (hist x);
  wf_returned : forall t k, k < seqn x t -> exists o r, In (HRet (t, k) o r) (hist x)
}.

Lemma WF_init : WF (tinit s0).
Proof.
  constructor; cbn [tinit hist seqn].
  - intros i o r [].
  - intros t k o [].
  - intros t k H. lia.
Qed.

Lemma tstep_wf (x : tstT) (e : ev Op) : TI x -> WF x -> WF (tstep sstep retry x e).
Proof.
  intros HI HW. destruct e as [t o|t final|t]; cbn [tstep].
  - destruct (thr x t) as [|o0|o0 r0] eqn:Ht; try exact HW.
    constructor; cbn [hist seqn].
    + intros i o' r' Hin. apply in_snoc in Hin. destruct Hin as [Hin|Hin]; [|discriminate Hin].
      apply before_snoc_l, (wf_ret x HW), Hin.
    + intros t' k o' Hin. apply in_snoc in Hin. destruct Hin as [Hin|Hin].
      * destruct (wf_seq x HW _ _ _ Hin) as (o1 & r1 & Hb). exists o1, r1. apply before_snoc_l, Hb.
      * inversion Hin; subst. destruct (wf_returned x HW t k) as (o1 & r1 & Hr); [lia|].
        exists o1, r1. replace (seqn x t) with (S k) by assumption. apply before_snoc_new, Hr.
    + intros t' k Hk. destruct (wf_returned x HW t' k Hk) as (o1 & r1 & Hr). exists o1, r1.
      apply in_or_app. left. exact Hr.
  - destruct (thr x t) as [|o|o0 r0] eqn:Ht; try exact HW.
    destruct (retry o (snd (sstep (sh x) o)) && negb final);
      (constructor; cbn [hist seqn]; [exact (wf_ret x HW)|exact (wf_seq x HW)|exact (wf_returned x HW)]).
  - destruct (thr x t) as [|o0|o r] eqn:Ht; try exact HW.
    pose proof (ti_thr x HI t) as Hok. unfold thread_ok in Hok. rewrite Ht in Hok.
    destruct Hok as (Hinv & _).
    constructor; cbn [hist seqn].
    + intros i o' r' Hin. apply in_snoc in Hin. destruct Hin as [Hin|Hin].
      * apply before_snoc_l, (wf_ret x HW), Hin.
      * inversion Hin; subst. apply before_snoc_new, Hinv.
    + intros t' k o' Hin. apply in_snoc in Hin. destruct Hin as [Hin|Hin]; [|discriminate Hin].
      destruct (wf_seq x HW _ _ _ Hin) as (o1 & r1 & Hb). exists o1, r1. apply before_snoc_l, Hb.
    + intros t' k Hk. destruct (Nat.eq_dec t' t) as [->|Hne].
      * rewrite upd_same in Hk. destruct (Nat.eq_dec k (seqn x t)) as [->|Hk'].
        -- exists o, r. apply in_or_app. right. left. reflexivity.
        -- destruct (wf_returned x HW t k) as (o1 & r1 & Hr); [lia|]. exists o1, r1. apply in_or_app. left. exact Hr.
      * rewrite upd_other in Hk by exact Hne.
        destruct (wf_returned x HW t' k Hk) as (o1 & r1 & Hr). exists o1, r1. apply in_or_app. left. exact Hr.
Qed.

(* Every recorded history is well formed: a response answers an earlier invocation of the same call and operation, and
   each thread is sequential (its next call is invoked after the previous one returned). *)
Theorem wrapper_well_formed (es : list (ev Op)) :
  (forall s o, retry o (snd (sstep s o)) = true -> fst (sstep s o) = s) ->
  well_formed (hist (trun sstep retry (tinit s0) es)).
Proof.
  intros Hst.
  assert (G : forall x : tstT, TI x -> WF x -> WF (trun sstep retry x es)).
  { induction es as [|e rest IH]; intros x HI HW; [exact HW|].
    cbn [trun fold_left]. apply IH; [apply tstep_inv; assumption|apply tstep_wf; assumption]. }
  pose proof (G _ TI_init WF_init) as HW. split; [exact (wf_ret _ HW)|exact (wf_seq _ HW)].
Qed.
End Lin.

(* ---- the wrapper over the Channel model and over the split machine ---- *)

Lemma grun_is_run s ops : grun step s ops = run s ops.
Proof.
  revert s. induction ops as [|o rest IH]; intros s; [reflexivity|].
  cbn [grun run]. destruct (step s o) as [s1 r]. rewrite IH. reflexivity.
Qed.

Lemma grun_is_xrun x xops : grun xstep x xops = xrun x xops.
Proof.
  revert x. induction xops as [|o rest IH]; intros x; [reflexivity|].
  cbn [grun xrun]. destruct (xstep x o) as [x1 r]. rewrite IH. reflexivity.
Qed.

(* C13: "Concurrent Get, Commit, Rollback, Buffer and Close calls behave as if executed one at a time in an order
   consistent with real time".  Threads call any operations of Model/Channel.v (the source's owner and the context's
   canceller are threads too); every call is invoke / critical sections / return, a Get polls until an attempt finds a
   value or an error, or until its caller gives up after an empty attempt.  For every number of threads, every program
   and every schedule the recorded history is well formed and linearizable w.r.t. the sequential `step`. *)
Theorem channel_linearizable (es : list (ev op)) :
  let H := hist (trun step chan_retry (tinit init) es) in
  well_formed op out H /\
  exists L : list (opid * op * out),
    snd (run init (map lin_op L)) = map lin_res L /\
    NoDup (map lin_id L) /\
    (forall i o r, In (i, o, r) L -> In (HInv i o) H) /\
    (forall i o r, In (HRet i o r) H -> In (i, o, r) L) /\
    (forall a oa ra b ob, before (HRet a oa ra) (HInv b ob) H -> In b (map lin_id L) -> before a b (map lin_id L)).
Proof.
  cbv zeta. split; [apply wrapper_well_formed; exact chan_retry_stutters|].
  exists (lin (trun step chan_retry (tinit init) es)).
  rewrite <- grun_is_run. apply wrapper_linearizable. exact chan_retry_stutters.
Qed.

(* the witness is the order of the effective critical sections, and the shared state is the one the sequential
   execution of the witness reaches (so every theorem about `run init ops` speaks about the concurrent object) *)
Theorem channel_threads_state (es : list (ev op)) :
  let x := trun step chan_retry (tinit init) es in
  run init (map lin_op (lin x)) = (sh x, map lin_res (lin x)).
Proof.
  cbv zeta. pose proof (trun_inv _ _ _ step chan_retry init es (tinit init) chan_retry_stutters (TI_init _ _ _ _ _)) as HI.
  rewrite <- grun_is_run. exact (ti_legal _ _ _ _ _ _ HI).
Qed.

(* The same for the split machine: the context's cancellation and the watcher goroutine's Close are separate atomic
   events performed by their own threads (the watcher's call stays pending until the context is cancelled). *)
Theorem xchannel_linearizable (es : list (ev xop)) :
  let H := hist (trun xstep xchan_retry (tinit xinit) es) in
  well_formed xop out H /\
  exists L : list (opid * xop * out),
    snd (xrun xinit (map lin_op L)) = map lin_res L /\
    NoDup (map lin_id L) /\
    (forall i o r, In (i, o, r) L -> In (HInv i o) H) /\
    (forall i o r, In (HRet i o r) H -> In (i, o, r) L) /\
    (forall a oa ra b ob, before (HRet a oa ra) (HInv b ob) H -> In b (map lin_id L) -> before a b (map lin_id L)).
Proof.
  cbv zeta. split; [apply wrapper_well_formed; exact xchan_retry_stutters|].
  exists (lin (trun xstep xchan_retry (tinit xinit) es)).
  rewrite <- grun_is_xrun. apply wrapper_linearizable. exact xchan_retry_stutters.
Qed.

(* Non-vacuity: thread 1's Get is invoked first and polls an empty source; thread 2's Get, invoked later, takes the
   first value and thread 1 the second (the linearisation order differs from the invocation order, the two Gets
   overlap); then a Get whose caller gives up after two empty attempts, and a Commit. *)
Example threads_example :
  let es := [EInv 1 OGet; EStep 1 false;
             EInv 2 OGet;
             EInv 0 (OSrcSend 1%Z); EStep 0 false;
             EStep 2 false;
             ERet 0;
             EInv 0 (OSrcSend 2%Z); EStep 0 false; ERet 0;
             EStep 1 false; ERet 2; ERet 1;
             EInv 1 OGet; EStep 1 false; EStep 1 true; ERet 1;
             EInv 1 OCommit; EStep 1 false; ERet 1] in
  let x := trun step chan_retry (tinit init) es in
  hist x = [HInv (1, 0) OGet; HInv (2, 0) OGet;
            HInv (0, 0) (OSrcSend 1%Z); HRet (0, 0) (OSrcSend 1%Z) ROk;
            HInv (0, 1) (OSrcSend 2%Z); HRet (0, 1) (OSrcSend 2%Z) ROk;
            HRet (2, 0) OGet (RVal 1%Z); HRet (1, 0) OGet (RVal 2%Z);
            HInv (1, 1) OGet; HRet (1, 1) OGet REmpty;
            HInv (1, 2) OCommit; HRet (1, 2) OCommit ROk] /\
  map lin_id (lin x) = [(0, 0); (2, 0); (0, 1); (1, 0); (1, 1); (1, 2)] /\
  committed (sh x) = [1; 2]%Z.
Proof. vm_compute. auto. Qed.

(* The split machine under threads: the watcher (thread 9) is parked from the start; the parent context is cancelled
   by thread 0; thread 1's explicit Close falls in the window and returns nil; the watcher's own Close comes last and
   finds the Once fired; thread 1's second Close fails. *)
Example xthreads_example :
  let es := [EInv 9 XWatcherClose; EStep 9 false;
             EInv 0 XCtxCancel; EStep 0 false; ERet 0;
             EInv 1 (XOp OClose); EStep 1 false; ERet 1;
             EStep 9 false; ERet 9;
             EInv 1 (XOp OClose); EStep 1 false; ERet 1] in
  let x := trun xstep xchan_retry (tinit xinit) es in
  hist x = [HInv (9, 0) XWatcherClose;
            HInv (0, 0) XCtxCancel; HRet (0, 0) XCtxCancel ROk;
            HInv (1, 0) (XOp OClose); HRet (1, 0) (XOp OClose) ROk;
            HRet (9, 0) XWatcherClose ROk;
            HInv (1, 1) (XOp OClose); HRet (1, 1) (XOp OClose) RErr] /\
  map lin_id (lin x) = [(0, 0); (1, 0); (9, 0); (1, 1)] /\
  wdone (sh x) = true /\ done_closed (base (sh x)) = true.
Proof. vm_compute. auto. Qed.

Corollary x_quiescent_closed_means_done_init xops :
  let x := fst (xrun xinit xops) in
  closed (base x) = true -> watcher_enabled x = false ->
  wdone x = true /\ done_closed (base x) = true.
Proof. cbv zeta. apply x_quiescent_closed_means_done, xrun_inv_init. Qed.
