(* Buffered ChanCaster (Model/CasterBuf.v): what goes wrong with make(chan V, cbuf), cbuf > 0, although every
   receiver follows the documented usage of Add (register with Add(+1); then receive one value, or - when the
   `select` took another case - call Add(-1)).  All by computation on the transition function of the model, flags
   [good] (the code as written).  The corresponding runs of the real code are in the report of this task
   (harness-notes/zz_buffered_test.go, tests TestZZ_Buffered_...).

   The safe regimes (cbuf = 0, or receivers that never give up) are in Proofs/CasterBuf.v. *)
From Coq Require Import List Arith Bool.
From BB.Model Require Import CasterAbs CasterBuf.
Import ListNotations.

(* one receiver registers; the Send arms, puts its only copy into the buffer, validates, resets the word to 0 *)
Definition sched_send_buffered : list qpick :=
  [QBase PU0; QBase PU1; QBase PU2; QBase PSendStart; QBase PSendLock; QBase PS; QBase PS; QPush;
   QBase PS; QBase PS; QBase PS].

(* (1) ... and is about to return 1 although nobody has received anything: the word is 0, the value sits in the
   buffer, the receiver is still waiting. *)
Example buffered_send_returns_before_delivery :
  let s := brun 1 good true (binit 1 1) sched_send_buffered in
  bsp s = S8 /\ bv s ret = 1 /\ bv s got = 0 /\ bv s cnt = 0 /\ bv s armed = 0 /\ qo (bx s) = 1 /\ b0s (bx s) = 1 /\
  bv s bad = 0.
Proof. vm_compute. repeat split. Qed.

(* (2) The receiver now gives up (its select took another case) and calls Add(-1) as documented - it was added, has
   not been removed, has not received and will not receive a value.  The word is 0: the Add panics. *)
Theorem buffered_giveup_panics_refuted :
  exists sched, let s := brun 1 good true (binit 1 1) sched in
  bv s bad = 0 /\ bstep_st 1 good true s QDeregS <> None /\
  bv (brun 1 good true s [QDeregS]) bad = 1.
Proof. exists (sched_send_buffered ++ [QBase PS]). vm_compute. repeat split; discriminate. Qed.

(* (3) [reproduced on the real code by a two-goroutine stress test, harness-notes/zz_buffered_cas_stress_test.go:
   2 of 300000 iterations, Send panicked, state 0x7fffffff = count 0 and still armed, buffer emptied by the Add]
   The same give-up a little earlier - after the Send's final load of the word, before its CompareAndSwap(state,
   0): the Add(-1) itself is fine (the word is armed: it returns 0 and takes the buffered copy), but the Send's CAS
   fails and the SEND panics ("one or more unregistered receivers"). *)
Theorem buffered_send_cas_panics_refuted :
  exists sched, let s := brun 1 good true (binit 1 1) sched in
  bsp s = S7c /\ bv s bad = 0 /\ bv s n5 = 1 /\
  let s' := brun 1 good true s [QBase PS] in bsp s' = S8 /\ bv s' bad = 1 /\ bv s' armed = 1.
Proof.
  exists [QBase PU0; QBase PU1; QBase PU2; QBase PSendStart; QBase PSendLock; QBase PS; QBase PS; QPush;
          QBase PS; QBase PS; QBase PDeregO].
  vm_compute. repeat split.
Qed.

(* (4) Nobody gives up at all ([dg] = false).  R1 registers, Send#1 returns 1 with its value buffered; R2 registers
   (no Send is running: nothing stops it) and receives Send#1's value although no Send has counted it; Send#2 counts
   R2 (already served) and its value goes to R1, which Send#1 had counted.  Counts are right, recipients are not:
   "to each receiver registered before the Send began ... and to nobody else" fails. *)
Theorem buffered_misdelivery_refuted :
  exists sched, let s := brun 1 good false (binit 2 2) sched in
  bv s bad = 0 /\ bv s stolen = 1 /\ misd (bx s) = 1 /\ bsp s = SNone /\ bv s nret = 2 /\ bv s retsum = 2 /\
  bv s got = 2.
Proof.
  exists (sched_send_buffered ++
          [QBase PS; QBase PU0; QBase PU1; QBase PU2; QPopN;
           QBase PSendStart; QBase PSendLock; QBase PS; QBase PS; QPush; QPopS; QBase PS; QBase PS; QBase PS; QBase PS]).
  vm_compute. repeat split.
Qed.

(* the same schedules with an unbuffered channel: the pushes are stutters, the Send waits at S6 with its copy, the
   give-up absorbs it, nothing panics *)
Example unbuffered_same_schedule_is_fine :
  let s := brun 0 good true (binit 1 1) (sched_send_buffered ++ [QBase PS; QDeregS; QBase PDeregO; QBase PAbsorb;
                                                                 QBase PS; QBase PS; QBase PS; QBase PS]) in
  bv s bad = 0 /\ bsp s = SNone /\ bv s ret = 0 /\ bv s fin = 1 /\ bv s cnt = 0 /\ bv s nret = 1.
Proof. vm_compute. repeat split. Qed.

Print Assumptions buffered_giveup_panics_refuted.
Print Assumptions buffered_send_cas_panics_refuted.
Print Assumptions buffered_misdelivery_refuted.
