(* ConflatedContext in the split model (Model/ContextSplit.v): every C16 ConflatedContext theorem re-proved for
   sconfl_step, plus progress and "quiescence is reached".  The invariant is the atomic model's (FN, FW, FR, FL, FK of
   Proofs/Context.v) with the world invariant replaced by SWInv: "a pending registration sits on a live node" is gone. *)
From Coq Require Import List Arith Bool Lia.
From BB.Model Require Import Context ContextSplit.
From BB.Proofs Require Import Context ContextSplit.
Import ListNotations.

Arguments Nat.sub : simpl never.
Arguments Nat.eqb : simpl never.
Arguments Nat.ltb : simpl never.
Arguments Nat.leb : simpl never.

Definition SFInv (ns0 : list node) (inputs : list nat) (s : fstate) : Prop :=
  SWInv (fw s) /\ FN ns0 inputs s /\ FW s /\ FR s /\ FL inputs s /\ FK s.

(* the detached node D exists at pc *)
Definition hasD (pc : fpc) : bool := match pc with F0 | FPanic => false | _ => true end.

Lemma hasR_hasD pc : hasR pc = true -> hasD pc = true.
Proof. destruct pc; cbn; congruence. Qed.

(* marking one node other than the detached node D *)
Lemma fmark_parts ns0 inputs s n :
  SWInv (fw s) -> FN ns0 inputs s -> FW s -> FR s -> FL inputs s ->
  (hasD (fpcv s) = true -> n <> length ns0) ->
  let s' := fset s (s_mark (fw s) n) (fpcv s) in
  SWInv (fw s') /\ FN ns0 inputs s' /\ FW s' /\ FR s' /\ FL inputs s' /\
  mono (nodes (fw s)) (nodes (fw s')) /\
  (n <> fR s -> kR s' = kR s) /\
  (n = fR s -> hasR (fpcv s) = true -> kR s' = true).
Proof.
  intros HW HN HFW HFR HFL Hn s'. subst s'.
  set (ns' := updf (nodes (fw s)) n mark1).
  assert (Hm : mono (nodes (fw s)) ns') by apply mono_mark1.
  assert (Hkm : kR s = true -> kR (fset s (s_mark (fw s) n) (fpcv s)) = true) by (unfold kR, fset; cbn [fw fR s_mark nodes]; apply Hm).
  split; [apply SWInv_mark; exact HW|]. split; [|split; [|split; [|split; [|split; [exact Hm|split]]]]].
  - (* FN *)
    unfold FN in *. unfold fset; cbn [fw fpcv fD fR s_mark nodes]. fold ns'. destruct HN as [HV HN].
    split; [intros x Hx; unfold ns'; rewrite vals_of_mark1; apply HV; exact Hx|].
    unfold ns'. rewrite length_updf, ?anc_of_mark1.
    destruct (fpcv s); auto; cbn [hasD] in Hn; specialize (Hn eq_refl);
      rewrite ?vals_of_mark1, (is_canc_mark1_other _ _ _ (not_eq_sym Hn)); exact HN.
  - (* FW *)
    exact HFW.
  - (* FR *)
    intros k x Hx. unfold fset in Hx; cbn [fw s_mark regs] in Hx. unfold FR1.
    unfold fset; cbn [fw fpcv fR flives s_mark regs]. unfold is_pending. cbn [regs].
    destruct (HFR k x Hx) as [(Hf & Hin & Hrun & Hst & Hpart)|HB]; [left|right; exact HB].
    repeat (split; [assumption|]). split; [|exact Hpart]. intros Hs. apply Hkm. apply Hst. exact Hs.
  - (* FL *)
    unfold FL in *. unfold fset; cbn [fw fpcv fok flives s_mark nodes regs]. destruct HFL as (H1 & H2 & H3 & H4 & H5).
    split; [exact H1|]. split; [exact H2|]. split; [exact H3|]. split; [|exact H5].
    intros j x Hj Hx. destruct (H4 j x Hj Hx) as [Hk|Hl]; [left; apply Hm; exact Hk|right; exact Hl].
  - intros Hne. unfold kR. unfold fset; cbn [fw fR s_mark nodes]. apply is_canc_mark1_other. auto.
  - intros -> Hh. unfold kR. unfold fset; cbn [fw fR s_mark nodes]. apply is_canc_mark1_self.
    apply (FN_R_iff ns0 inputs s Hh) in HN. destruct HN as (_ & Hlen & _ & HR & _). lia.
Qed.

Lemma sfinv_mark_other ns0 inputs s n :
  SFInv ns0 inputs s -> (hasD (fpcv s) = true -> n <> length ns0) -> (hasR (fpcv s) = true -> n <> fR s) ->
  SFInv ns0 inputs (fset s (s_mark (fw s) n) (fpcv s)).
Proof.
  intros (HW & HN & HFW & HFR & HFL & HFK) Hn HnR.
  destruct (fmark_parts ns0 inputs s n HW HN HFW HFR HFL Hn) as (A & B & C & D & E & Hm & Hk & _).
  repeat (split; [assumption|]). eapply FK_transfer; try exact HFK; try reflexivity; [exact Hm|]. intros Hh. apply Hk. auto.
Qed.

(* a registration wins its once *)
Lemma sfinv_fire ns0 inputs s r x :
  SFInv ns0 inputs s -> nth_error (regs (fw s)) r = Some x -> rst x = Pending ->
  is_canc (nodes (fw s)) (rnode x) = true ->
  SFInv ns0 inputs (fset s (w_setrst (fw s) r (Run (rfn x))) (fpcv s)).
Proof.
  intros (HW & HN & HFW & HFR & HFL & HFK) Hx Hp Hk.
  assert (HP : FP ns0 inputs s) by exact (conj HN (conj HFR (conj HFL HFK))).
  assert (HP2 : FP ns0 inputs (fset s (w_setrst (fw s) r (Run (rfn x))) (fpcv s))).
  { apply FP_setrst; [discriminate|exact HP|]. intros x0 Hx0. assert (x0 = x) by congruence. subst x0.
    unfold FR1. unfold fset; cbn [fw fpcv fR flives set_rst rfn rnode rst].
    destruct (HFR r x Hx) as [(Hf & Hin & Hrun & Hst & Hpart)|(a & Hf & Hrn & Hns & (xa & Hxa & Hxaf) & Hrun & Hfin)]; [left|right].
    - split; [exact Hf|]. split; [exact Hin|]. split; [intros f Hf'; congruence|]. split; [discriminate|].
      destruct Hpart as [Hpc|(b & y & Hy & Hyf)]; [left; exact Hpc|right].
      destruct (setrst_static (fw s) r (Run (rfn x)) b y Hy) as (y' & Hy' & _ & Hf'). exists b, y'. split; [exact Hy'|congruence].
    - exists a. split; [exact Hf|]. split; [exact Hrn|]. split; [discriminate|]. split; [|split].
      + destruct (setrst_static (fw s) r (Run (rfn x)) a xa Hxa) as (xa' & Hxa' & _ & Hf'). exists xa'. split; [exact Hxa'|congruence].
      + intros f Hf'. left. congruence.
      + intros [Hd|Hd]; [rewrite Hf in Hd|]; discriminate. }
  destruct HP2 as (A & B & C & D).
  split; [apply SWInv_setrst; [exact HW|intros y Hy; right; right; congruence]|]. split; [exact A|].
  split; [|split; [exact B|split; [exact C|exact D]]].
  destruct HFW as [Hneg Hwg]. unfold FW, guard, inflight in *. unfold fset; cbn [fw fpcv fok w_setrst w_setregs wgneg wg regs].
  split; [exact Hneg|]. pose proof (sum_updf tok (fun x0 => set_rst x0 (Run (rfn x))) _ _ _ Hx) as Hs.
  assert (Ht : tok (set_rst x (Run (rfn x))) = tok x) by (unfold tok; cbn [set_rst rst rfn]; rewrite Hp; reflexivity).
  lia.
Qed.

Lemma sfinv_hook ns0 inputs s r w' :
  SFInv ns0 inputs s -> s_hook (fw s) r = Some w' -> SFInv ns0 inputs (fset s w' (fpcv s)).
Proof.
  intros (HW & HN & HFW & HFR & HFL & HFK) Hh.
  pose proof (SWInv_hook _ _ _ HW Hh) as HW'.
  assert (HP : FP ns0 inputs s) by exact (conj HN (conj HFR (conj HFL HFK))).
  apply s_hook_inv in Hh. destruct Hh as (x & Hx & Hc).
  destruct (HW r x Hx) as (_ & Hfired).
  destruct HFW as [Hneg Hwg].
  (* the common "call wg.Done, finish" step *)
  assert (Hdone : rst x = Run (FAct AWgDone) -> SWInv (w_setrst (w_act (fw s) AWgDone) r Done) ->
            (forall s1, s1 = fset s (w_act (fw s) AWgDone) (fpcv s) ->
               FR1 (fset s1 (w_setrst (fw s1) r Done) (fpcv s1)) r (set_rst x Done)) ->
            SFInv ns0 inputs (fset s (w_setrst (w_act (fw s) AWgDone) r Done) (fpcv s))).
  { intros Ex HWd Hnew.
    assert (Htok : tok x = 1) by (unfold tok; rewrite Ex; reflexivity).
    pose proof (sum_ge tok _ _ _ Hx) as Hge. rewrite Htok in Hge.
    destruct (wg (fw s)) as [|k] eqn:Ewg; [lia|].
    set (w1 := w_act (fw s) AWgDone). assert (Ew1 : w1 = {| nodes := nodes (fw s); regs := regs (fw s); calls := calls (fw s); wg := k; wgneg := wgneg (fw s) |})
      by (unfold w1; cbn [w_act]; rewrite Ewg; reflexivity).
    assert (HP1 : FP ns0 inputs (fset s w1 (fpcv s))) by (apply FP_wg; [rewrite Ew1; reflexivity|rewrite Ew1; reflexivity|exact HP]).
    set (s1 := fset s w1 (fpcv s)) in *.
    assert (HP2 : FP ns0 inputs (fset s1 (w_setrst (fw s1) r Done) (fpcv s1))).
    { apply FP_setrst; [discriminate|exact HP1|]. intros x0 Hx0. unfold s1, fset in Hx0; cbn [fw] in Hx0. rewrite Ew1 in Hx0. cbn [regs] in Hx0.
      assert (x0 = x) by congruence. subst x0. apply Hnew. reflexivity. }
    destruct HP2 as (A & B & C & D). split; [exact HWd|]. split; [exact A|]. split; [|split; [exact B|split; [exact C|exact D]]].
    unfold FW, guard, inflight. unfold s1, fset; cbn [fw fpcv fok w_setrst w_setregs wgneg wg regs]. rewrite Ew1. cbn [wgneg wg regs].
    split; [exact Hneg|]. pose proof (sum_updf tok (fun x0 => set_rst x0 Done) _ _ _ Hx) as Hs. rewrite Htok in Hs.
    unfold tok at 3 in Hs. cbn [set_rst rst] in Hs. unfold guard, inflight in Hwg. lia. }
  destruct (HFR r x Hx) as [(Hf & Hin & Hrun & Hst & Hpart)|(a & Hf & Hrn & Hns & (xa & Hxa & Hxaf) & Hrun & Hfin)].
  - (* a hook on an input: wg.Done *)
    destruct Hc as [(a & Ea & ->)|[(c & r0 & a & Ea & _)|[(c & r0 & a & Ea & _)|[(Ea & _)|(r0 & rs & Ea & _)]]]];
      try (specialize (Hrun _ Ea); discriminate).
    pose proof (Hrun _ Ea) as Ha. inversion Ha; subst a; clear Ha. apply Hdone; [exact Ea|exact HW'|].
    intros s1 ->. left. unfold fset; cbn [fw fpcv fR flives set_rst rfn rnode rst].
    repeat (split; [first [assumption|intros; discriminate]|]).
    destruct Hpart as [Hpc|(b & y & Hy & Hyf)]; [left; exact Hpc|right].
    destruct (setrst_static (w_act (fw s) AWgDone) r Done b y) as (y' & Hy' & _ & Hf').
    { rewrite regs_act_done. exact Hy. }
    exists b, y'. split; [exact Hy'|congruence].
  - (* the primary-side hook of a chain *)
    assert (HkR : kR s = true).
    { unfold kR. rewrite <- Hrn. apply Hfired. destruct Hc as [(a0 & Ea & _)|[(c & r0 & a0 & Ea & _)|[(c & r0 & a0 & Ea & _)|[(Ea & _)|(r0 & rs & Ea & _)]]]]; left; eauto. }
    destruct Hc as [(a0 & Ea & ->)|[(c & r0 & a0 & Ea & Ep & ->)|[(c & r0 & a0 & Ea & Ep & ->)|[(Ea & _)|(r0 & rs & Ea & _)]]]].
    + (* f() after a successful stop *)
      destruct (Hrun _ Ea) as [Hr|Hr]; [congruence|]. inversion Hr; subst a0; clear Hr. apply Hdone; [exact Ea|exact HW'|].
      intros s1 ->. right. exists a. unfold fset; cbn [fw fpcv fR flives set_rst rfn rnode rst].
      split; [exact Hf|]. split; [exact Hrn|]. split; [discriminate|]. split; [|split; [intros; discriminate|]].
      * destruct (setrst_static (w_act (fw s) AWgDone) r Done a xa) as (xa' & Hxa' & _ & Hf').
        { rewrite regs_act_done. exact Hxa. }
        exists xa'. split; [exact Hxa'|congruence].
      * intros _. apply is_pending_setrst; [discriminate|].
        rewrite is_pending_act_done. apply Hfin; left; exact Ea.
    + (* stop() succeeded *)
      destruct (Hrun _ Ea) as [Hr|Hr]; [|discriminate]. rewrite Hf in Hr. inversion Hr; subst c r0 a0; clear Hr.
      apply is_pending_spec in Ep. destruct Ep as (xa0 & Hxa0 & Hpa). assert (xa0 = xa) by congruence. subst xa0.
      assert (Hne : a <> r) by (intros ->; congruence).
      destruct (FR1_A_of_fn s a xa (HFR a xa Hxa) Hxaf) as (HinA & HrunA & HstA & HpartA).
      set (s1 := fset s (w_setrst (fw s) a Stopped) (fpcv s)).
      assert (HP1 : FP ns0 inputs s1).
      { apply FP_setrst; [discriminate|exact HP|]. intros x0 Hx0. assert (x0 = xa) by congruence. subst x0.
        left. unfold fset; cbn [fw fpcv fR flives set_rst rfn rnode rst]. unfold kR. cbn [fw fR]. rewrite nodes_setrst.
        repeat (split; [first [assumption|intros; discriminate]|]). split; [intros _; exact HkR|].
        destruct HpartA as [Hpc|(b & y & Hy & Hyf)]; [left; exact Hpc|right].
        destruct (setrst_static (fw s) a Stopped b y Hy) as (y' & Hy' & _ & Hf'). exists b, y'. split; [exact Hy'|congruence]. }
      assert (Hx1 : nth_error (regs (fw s1)) r = Some x).
      { unfold s1, fset; cbn [fw]. rewrite (setrst_fwd _ a Stopped r x Hx). destruct (Nat.eqb_spec r a); [congruence|reflexivity]. }
      assert (HP2 : FP ns0 inputs (fset s1 (w_setrst (fw s1) r (Run (FAct AWgDone))) (fpcv s1))).
      { apply FP_setrst; [discriminate|exact HP1|]. intros x0 Hx0. assert (x0 = x) by congruence. subst x0.
        right. exists a. unfold s1, fset; cbn [fw fpcv fR flives set_rst rfn rnode rst].
        split; [exact Hf|]. split; [exact Hrn|]. split; [discriminate|]. split; [|split; [intros f Hf'; right; congruence|]].
        - destruct (setrst_static (fw s) a Stopped a xa Hxa) as (xa1 & Hxa1 & _ & Hf1).
          destruct (setrst_static (w_setrst (fw s) a Stopped) r (Run (FAct AWgDone)) a xa1 Hxa1) as (xa2 & Hxa2 & _ & Hf2).
          exists xa2. split; [exact Hxa2|congruence].
        - intros _. apply is_pending_setrst; [discriminate|].
          destruct (is_pending (w_setrst (fw s) a Stopped) a) eqn:E; [|reflexivity].
          apply is_pending_spec in E. destruct E as (y & Hy & Hp). rewrite (setrst_fwd _ a Stopped a xa Hxa), Nat.eqb_refl in Hy.
          inversion Hy; subst y. cbn in Hp. discriminate. }
      destruct HP2 as (A & B & C & D). split; [exact HW'|]. split; [exact A|]. split; [|split; [exact B|split; [exact C|exact D]]].
      unfold FW, guard, inflight. unfold s1, fset; cbn [fw fpcv fok w_setrst w_setregs wgneg wg regs].
      split; [exact Hneg|].
      pose proof (sum_updf tok (fun x0 => set_rst x0 Stopped) _ _ _ Hxa) as Hs1.
      assert (Hx1' : nth_error (updf (regs (fw s)) a (fun x0 => set_rst x0 Stopped)) r = Some x).
      { rewrite nth_updf, Hx. destruct (Nat.eqb_spec r a); [congruence|reflexivity]. }
      pose proof (sum_updf tok (fun x0 => set_rst x0 (Run (FAct AWgDone))) _ _ _ Hx1') as Hs2.
      assert (T1 : tok xa = 1) by (unfold tok; rewrite Hpa, Hxaf; reflexivity).
      assert (T2 : tok x = 0) by (unfold tok; rewrite Ea; reflexivity).
      rewrite T1 in Hs1. rewrite T2 in Hs2. unfold tok at 3 in Hs1. unfold tok at 3 in Hs2. cbn [set_rst rst is_done_act] in Hs1, Hs2.
      unfold guard, inflight in Hwg. lia.
    + (* stop() failed: nothing to do *)
      destruct (Hrun _ Ea) as [Hr|Hr]; [|discriminate]. rewrite Hf in Hr. inversion Hr; subst c r0 a0; clear Hr. cbn [negb].
      assert (HP2 : FP ns0 inputs (fset s (w_setrst (fw s) r Done) (fpcv s))).
      { apply FP_setrst; [discriminate|exact HP|]. intros x0 Hx0. assert (x0 = x) by congruence. subst x0.
        right. exists a. unfold fset; cbn [fw fpcv fR flives set_rst rfn rnode rst].
        split; [exact Hf|]. split; [exact Hrn|]. split; [discriminate|]. split; [|split; [intros; discriminate|]].
        - destruct (setrst_static (fw s) r Done a xa Hxa) as (xa' & Hxa' & _ & Hf'). exists xa'. split; [exact Hxa'|congruence].
        - intros _. apply is_pending_setrst; [discriminate|exact Ep]. }
      destruct HP2 as (A & B & C & D). split; [exact HW'|]. split; [exact A|]. split; [|split; [exact B|split; [exact C|exact D]]].
      unfold FW, guard, inflight. unfold fset; cbn [fw fpcv fok w_setrst w_setregs wgneg wg regs].
      split; [exact Hneg|]. pose proof (sum_updf tok (fun x0 => set_rst x0 Done) _ _ _ Hx) as Hs.
      assert (T2 : tok x = 0) by (unfold tok; rewrite Ea; reflexivity). rewrite T2 in Hs. unfold tok at 3 in Hs. cbn [set_rst rst] in Hs.
      unfold guard, inflight in Hwg. lia.
    + destruct (Hrun _ Ea) as [Hr|Hr]; [rewrite Hf in Hr|]; discriminate.
    + destruct (Hrun _ Ea) as [Hr|Hr]; [rewrite Hf in Hr|]; discriminate.
Qed.

Lemma sfinv_main_a ns0 inputs s s' :
  wfi inputs (length ns0) -> SFInv ns0 inputs s ->
  (fpcv s = F0 \/ fpcv s = F1 \/ fpcv s = F2) ->
  confl_main true true inputs s = Some s' -> SFInv ns0 inputs s'.
Proof.
  intros Hwf (HW & HN & HFW & HFR & HFL & HFK) Hpc Hm.
  destruct s as [w pc D R ok lives wt uc]. cbn [fpcv] in Hpc. unfold confl_main in Hm. cbn [fw fpcv fD fR fok flives fwait fucancel] in Hm.
  destruct (FK_nonret_inv _ HFK) as (Hwt & Huc & HkR); [cbn [fpcv]; destruct Hpc as [E|[E|E]]; rewrite E; reflexivity|].
  cbn [fwait fucancel fpcv] in Hwt, Huc, HkR. subst wt uc.
  unfold FN in HN. cbn [fw fpcv fD fR] in HN. destruct HN as [HV HN].
  unfold FL in HFL. cbn [fw fpcv fok flives] in HFL. destruct HFL as (L1 & L2 & L3 & L4 & L5).
  unfold FW, guard, inflight in HFW. cbn [fw fpcv fok] in HFW. destruct HFW as [Hneg Hwg].
  destruct Hpc as [E|[E|E]]; subst pc; destruct L5 as [Hnil Hl0]; subst lives.
  - (* F0 *)
    destruct inputs as [|c0 rest].
    + inversion Hm; subst s'; clear Hm. unfold fset; cbn [fw fpcv fD fR fok flives fwait fucancel].
      split; [exact HW|]. split; [split; [exact HV|exact I]|]. split; [split; [exact Hneg|exact Hwg]|].
      split; [apply FR_nil; exact Hnil|]. split; [|apply FK_nonret; cbn; auto; discriminate].
      unfold FL. cbn [fw fpcv fok flives]. fl_tac.
    + inversion Hm; subst s'; clear Hm.
      split; [apply SWInv_addnode; exact HW|]. unfold w_detached, w_addnode; cbn [fw fpcv fD fR fok flives fwait fucancel nodes regs wg wgneg].
      split; [|split; [split; [exact Hneg|exact Hwg]|split; [apply FR_nil; exact Hnil|split; [|apply FK_nonret; cbn; auto; discriminate]]]].
      * unfold FN. cbn [fw fpcv fD fR nodes]. rewrite app_length, <- HN. cbn [length].
        split; [intros x Hx; rewrite vals_of_snoc_old by lia; apply HV; lia|].
        rewrite anc_of_snoc_new, is_canc_snoc_new, vals_of_snoc_new. cbn [anc canc vals].
        repeat (split; [first [lia|reflexivity]|]). intros c Hc. cbn in Hc. inversion Hc; subst c.
        apply HV. apply Hwf. left. reflexivity.
      * unfold FL. cbn [fw fpcv fok flives regs nodes]. fl_tac.
  - (* F1 *)
    destruct HN as (Hlen & HD & Ha & Hk & Hv). subst D. inversion Hm; subst s'; clear Hm.
    split; [apply SWInv_addnode; exact HW|]. unfold w_child, w_addnode; cbn [fw fpcv fD fR fok flives fwait fucancel nodes regs wg wgneg].
    split; [|split; [split; [exact Hneg|exact Hwg]|split; [apply FR_nil; exact Hnil|split]]].
    + unfold FN. cbn [fw fpcv fD fR nodes]. rewrite app_length. cbn [length].
      split; [intros x Hx; rewrite vals_of_snoc_old by lia; apply HV; lia|].
      assert (Hlt : length ns0 < length (nodes w)) by lia.
      rewrite (anc_of_snoc_old _ _ _ Hlt), (is_canc_snoc_old _ _ _ Hlt). rewrite <- Hlen.
      rewrite anc_of_snoc_new, vals_of_snoc_new. cbn [anc canc vals]. rewrite Ha.
      repeat (split; [first [lia|reflexivity|assumption]|]). exact Hv.
    + unfold FL. cbn [fw fpcv fok flives regs nodes]. fl_tac.
    + apply FK_nonret; cbn [fpcv fwait fucancel is_FRet hasR]; auto. intros _. unfold kR. cbn [fw fR nodes].
      rewrite is_canc_snoc_new. cbn [canc]. exact Hk.
  - (* F2 *)
    inversion Hm; subst s'; clear Hm. unfold fset; cbn [fw fpcv fD fR fok flives fwait fucancel].
    split; [eapply SWInv_same; [| |exact HW]; reflexivity|].
    split; [unfold FN; cbn [fw fpcv fD fR w_wgadd nodes]; split; [exact HV|exact HN]|].
    split; [unfold FW, guard, inflight; cbn [fw fpcv fok w_wgadd wg wgneg regs]; split; [exact Hneg|lia]|].
    split; [apply FR_nil; exact Hnil|]. split.
    + unfold FL. cbn [fw fpcv fok flives w_wgadd regs nodes]. fl_tac.
    + apply FK_nonret; cbn [fpcv fwait fucancel is_FRet hasR]; auto.
Qed.

Lemma sfinv_main_b ns0 inputs s s' :
  wfi inputs (length ns0) -> SFInv ns0 inputs s ->
  ((exists i, fpcv s = FLoop i) \/ (exists i, fpcv s = FAdd i) \/ fpcv s = FEnd) ->
  confl_main true true inputs s = Some s' -> SFInv ns0 inputs s'.
Proof.
  intros Hwf (HW & HN & HFW & HFR & HFL & HFK) Hpc Hm.
  assert (HhR : hasR (fpcv s) = true) by (destruct Hpc as [[i E]|[[i E]|E]]; rewrite E; reflexivity).
  assert (HnR : is_FRet (fpcv s) = false) by (destruct Hpc as [[i E]|[[i E]|E]]; rewrite E; reflexivity).
  destruct (FK_nonret_inv _ HFK HnR) as (Hwt & Huc & HkR). specialize (HkR HhR).
  apply (FN_R_iff ns0 inputs s HhR) in HN.
  destruct s as [w pc D R ok lives wt uc]. cbn [fpcv] in Hpc. unfold confl_main in Hm. cbn [fw fpcv fD fR fok flives fwait fucancel] in *.
  subst wt uc. unfold kR in HkR. cbn [fw fR] in HkR.
  unfold FL in HFL. cbn [fw fpcv fok flives] in HFL. destruct HFL as (L1 & L2 & L3 & L4 & L5).
  unfold FW, guard, inflight in HFW. cbn [fw fpcv fok] in HFW. destruct HFW as [Hneg Hwg].
  assert (HFN' : forall s1, hasR (fpcv s1) = true -> nodes (fw s1) = nodes w -> fD s1 = D -> fR s1 = R -> FN ns0 inputs s1).
  { intros s1 H1 H2 H3 H4. apply (FN_R_iff ns0 inputs s1 H1). rewrite H2, H3, H4. exact HN. }
  assert (HFK' : forall s1, is_FRet (fpcv s1) = false -> hasR (fpcv s1) = true -> nodes (fw s1) = nodes w -> fR s1 = R ->
                            fwait s1 = WNone -> fucancel s1 = false -> FK s1).
  { intros s1 H1 H2 H3 H4 H5 H6. apply FK_nonret; auto. intros _. unfold kR. rewrite H3, H4. exact HkR. }
  destruct Hpc as [[i E]|[[i E]|E]]; subst pc.
  - (* FLoop i *)
    destruct (nth_error inputs i) as [x|] eqn:Ex.
    + destruct (is_canc (nodes w) x) eqn:Ek; inversion Hm; subst s'; clear Hm.
      * (* already cancelled: skip *)
        unfold fset; cbn [fw fpcv fD fR fok flives fwait fucancel].
        split; [exact HW|]. split; [apply HFN'; reflexivity|]. split; [split; [exact Hneg|exact Hwg]|].
        split; [eapply FR_ext; try exact HFR; try reflexivity; intros; discriminate|]. split; [|apply HFK'; reflexivity].
        unfold FL. cbn [fw fpcv fok flives idx]. split; [exact L1|]. split; [exact L2|]. split; [|split; [|exact I]].
        -- intros x' Hx'. destruct (L3 x' Hx') as [Hl|(i0 & [Hp|Hp] & _)]; [left; exact Hl|discriminate|discriminate].
        -- intros j x' Hj Hx'. destruct (Nat.eq_dec j i) as [->|Hne]; [left; congruence|apply (L4 j x'); [cbn; lia|exact Hx']].
      * (* live: remember it *)
        split; [exact HW|]. split; [apply HFN'; reflexivity|]. split; [split; [exact Hneg|exact Hwg]|].
        split; [eapply FR_ext2; try exact HFR; try reflexivity; [cbn; apply incl_appl, incl_refl|intros; discriminate]|].
        split; [|apply HFK'; reflexivity].
        unfold FL. cbn [fw fpcv fok flives idx]. split; [discriminate|]. split; [|split; [|split]].
        -- intros x' Hx'. apply in_app_or in Hx'. destruct Hx' as [Hx'|[<-|[]]]; [apply L2; exact Hx'|eapply nth_error_In; eauto].
        -- intros x' Hx'. apply in_app_or in Hx'. destruct Hx' as [Hx'|[<-|[]]].
           ++ destruct (L3 x' Hx') as [Hl|(i0 & [Hp|Hp] & _)]; [left; exact Hl|discriminate|discriminate].
           ++ right. exists i. auto.
        -- intros j x' Hj Hx'. destruct (Nat.eq_dec j i) as [->|Hne].
           ++ right. apply in_or_app. right. left. congruence.
           ++ destruct (L4 j x') as [Hl|Hl]; [cbn; lia|exact Hx'|left; exact Hl|right; apply in_or_app; left; exact Hl].
        -- exists x. split; [exact Ex|apply in_or_app; right; left; reflexivity].
    + (* end of loop *)
      inversion Hm; subst s'; clear Hm. unfold fset; cbn [fw fpcv fD fR fok flives fwait fucancel].
      split; [exact HW|]. split; [apply HFN'; reflexivity|]. split; [split; [exact Hneg|exact Hwg]|].
      split; [eapply FR_ext; try exact HFR; try reflexivity; intros; discriminate|]. split; [|apply HFK'; reflexivity].
      unfold FL. cbn [fw fpcv fok flives idx]. split; [exact L1|]. split; [exact L2|]. split; [|split; [|exact I]].
      * intros x' Hx'. destruct (L3 x' Hx') as [Hl|(i0 & [Hp|Hp] & _)]; [left; exact Hl|discriminate|discriminate].
      * intros j x' Hj Hx'. apply nth_error_None in Ex. apply (L4 j x'); [cbn; apply nth_error_lt in Hx'; lia|exact Hx'].
  - (* FAdd i *)
    inversion Hm; subst s'; clear Hm. unfold fset; cbn [fw fpcv fD fR fok flives fwait fucancel].
    split; [eapply SWInv_same; [| |exact HW]; reflexivity|]. split; [apply HFN'; reflexivity|].
    split; [unfold FW, guard, inflight; cbn [fw fpcv fok w_wgadd wg wgneg regs]; split; [exact Hneg|lia]|].
    split; [eapply FR_ext; try exact HFR; try reflexivity; intros; discriminate|]. split; [|apply HFK'; reflexivity].
    unfold FL. cbn [fw fpcv fok flives idx w_wgadd regs nodes]. split; [exact L1|]. split; [exact L2|]. split; [|split; [exact L4|exact L5]].
    intros x' Hx'. destruct (L3 x' Hx') as [Hl|(i0 & [Hp|Hp] & Hi0)]; [left; exact Hl| |discriminate].
    inversion Hp; subst i0. right. exists i. auto.
  - (* FEnd *)
    destruct ok eqn:Eok; inversion Hm; subst s'; clear Hm; unfold fset; cbn [fw fpcv fD fR fok flives fwait fucancel];
      (split; [exact HW|]); (split; [apply HFN'; reflexivity|]); (split; [split; [exact Hneg|exact Hwg]|]);
      (split; [eapply FR_ext; try exact HFR; try reflexivity; intros; discriminate|]); (split; [|apply HFK'; reflexivity]);
      unfold FL; cbn [fw fpcv fok flives idx]; (split; [exact L1|]); (split; [exact L2|]); (split; [|split; [exact L4|reflexivity]]);
      intros x' Hx'; (destruct (L3 x' Hx') as [Hl|(i0 & [Hp|Hp] & _)]; [left; exact Hl|discriminate|discriminate]).
Qed.

Lemma sfinv_main_c ns0 inputs s s' :
  wfi inputs (length ns0) -> SFInv ns0 inputs s ->
  ((exists i, fpcv s = FRegA i) \/ (exists i a, fpcv s = FRegB i a)) ->
  confl_main true true inputs s = Some s' -> SFInv ns0 inputs s'.
Proof.
  intros Hwf (HW & HN & HFW & HFR & HFL & HFK) Hpc Hm.
  assert (HhR : hasR (fpcv s) = true) by (destruct Hpc as [[i E]|[i [a E]]]; rewrite E; reflexivity).
  assert (HnR : is_FRet (fpcv s) = false) by (destruct Hpc as [[i E]|[i [a E]]]; rewrite E; reflexivity).
  destruct (FK_nonret_inv _ HFK HnR) as (Hwt & Huc & HkR). specialize (HkR HhR).
  apply (FN_R_iff ns0 inputs s HhR) in HN.
  destruct s as [w pc D R ok lives wt uc]. cbn [fpcv] in Hpc. unfold confl_main in Hm. cbn [fw fpcv fD fR fok flives fwait fucancel] in *.
  subst wt uc. unfold kR in HkR. cbn [fw fR] in HkR.
  unfold FL in HFL. cbn [fw fpcv fok flives] in HFL. destruct HFL as (L1 & L2 & L3 & L4 & L5).
  unfold FW, guard, inflight in HFW. cbn [fw fpcv fok] in HFW. destruct HFW as [Hneg Hwg].
  assert (HFN' : forall s1, hasR (fpcv s1) = true -> nodes (fw s1) = nodes w -> fD s1 = D -> fR s1 = R -> FN ns0 inputs s1).
  { intros s1 H1 H2 H3 H4. apply (FN_R_iff ns0 inputs s1 H1). rewrite H2, H3, H4. exact HN. }
  assert (HFK' : forall s1, is_FRet (fpcv s1) = false -> hasR (fpcv s1) = true -> nodes (fw s1) = nodes w -> fR s1 = R ->
                            fwait s1 = WNone -> fucancel s1 = false -> FK s1).
  { intros s1 H1 H2 H3 H4 H5 H6. apply FK_nonret; auto. intros _. unfold kR. rewrite H3, H4. exact HkR. }
  destruct HN as (HV & Hlen & HD & HRr & _).
  (* an old registration keeps its invariant when one more registration is appended *)
  assert (Hold : forall n f pc' k y, nth_error (regs w) k = Some y ->
            (forall i0, pc = FRegB i0 k -> exists b yb, nth_error (regs (w_afterfunc w n f)) b = Some yb /\ rfn yb = FChain true k AWgDone) ->
            FR1 {| fw := w_afterfunc w n f; fpcv := pc'; fD := D; fR := R; fok := ok; flives := lives; fwait := WNone; fucancel := false |} k y).
  { intros n f pc' k y Hy Hp. unfold FR1, kR. cbn [fw fpcv fR flives w_afterfunc nodes].
    destruct (HFR k y Hy) as [(A & B & C & D' & E)|(a & A & B & C & (xa & Hxa & Hxaf) & E & F)]; [left|right].
    - repeat (split; [assumption|]). right. destruct E as [(i0 & E)|(b & yb & Hyb & Hybf)].
      + cbn [fpcv] in E. apply (Hp i0 E).
      + exists b, yb. split; [cbn [fw w_afterfunc regs]; rewrite nth_error_snoc_old; [exact Hyb|eapply nth_error_lt; eauto]|exact Hybf].
    - exists a. repeat (split; [assumption|]). split; [|split; [exact E|]].
      + exists xa. split; [cbn [fw w_afterfunc regs]; rewrite nth_error_snoc_old; [exact Hxa|eapply nth_error_lt; eauto]|exact Hxaf].
      + intros Hd. change (is_pending (w_afterfunc w n f) a = false).
        rewrite is_pending_afterfunc_old by (eapply nth_error_lt; eauto). apply F. exact Hd. }
  destruct Hpc as [[i E]|[i [a E]]]; subst pc.
  - (* FRegA i *)
    destruct L5 as (x0 & Hx0 & Hx0l). rewrite Hx0 in Hm. inversion Hm; subst s'; clear Hm.
    unfold fset; cbn [fw fpcv fD fR fok flives fwait fucancel].
    assert (Hxlt : x0 < length (nodes w)) by (specialize (Hwf x0 (nth_error_In _ _ Hx0)); lia).
    split; [apply SWInv_afterfunc; assumption|]. split; [apply HFN'; reflexivity|]. split; [|split; [|split; [|apply HFK'; reflexivity]]].
    + unfold FW, guard, inflight. cbn [fw fpcv fok w_afterfunc wg wgneg regs]. split; [exact Hneg|]. rewrite sum_snoc.
      assert (Ht : tok {| rnode := x0; rfn := FAct AWgDone; rst := if is_canc (nodes w) x0 then Run (FAct AWgDone) else Pending |} = 1)
        by (unfold tok; cbn [rst rfn]; destruct (is_canc (nodes w) x0); reflexivity).
      rewrite Ht. lia.
    + intros k y Hy. cbn [fw w_afterfunc regs] in Hy. apply nth_error_snoc_inv in Hy. destruct Hy as [[_ Hy]|[-> ->]].
      * apply Hold; [exact Hy|]. intros; discriminate.
      * left. unfold kR. cbn [fw fpcv fR flives rfn rnode rst].
        split; [reflexivity|]. split; [exact Hx0l|]. split; [|split; [|left; exists i; reflexivity]].
        -- intros f Hf. destruct (is_canc (nodes w) x0); congruence.
        -- intros Hs. destruct (is_canc (nodes w) x0); discriminate.
    + unfold FL. cbn [fw fpcv fok flives idx w_afterfunc regs nodes]. split; [exact L1|]. split; [exact L2|]. split; [|split; [exact L4|]].
      * intros x' Hx'. left. destruct (L3 x' Hx') as [(k & y & Hy & Hyf & Hyn)|(i0 & [Hp|Hp] & Hi0)]; [|discriminate|].
        -- exists k, y. split; [rewrite nth_error_snoc_old; [exact Hy|eapply nth_error_lt; eauto]|auto].
        -- inversion Hp; subst i0. exists (length (regs w)). eexists. split; [apply nth_error_snoc_new|]. cbn. split; [reflexivity|congruence].
      * split; [exists x0; auto|]. eexists. split; [apply nth_error_snoc_new|reflexivity].
  - (* FRegB i a *)
    destruct L5 as ((x0 & Hx0 & Hx0l) & xa & Hxa & Hxaf). inversion Hm; subst s'; clear Hm.
    unfold fset; cbn [fw fpcv fD fR fok flives fwait fucancel].
    split; [apply SWInv_afterfunc; [exact HW|lia]|]. split; [apply HFN'; reflexivity|]. split; [|split; [|split; [|apply HFK'; reflexivity]]].
    + unfold FW, guard, inflight. cbn [fw fpcv fok w_afterfunc wg wgneg regs]. split; [exact Hneg|]. rewrite sum_snoc, HkR.
      unfold tok at 2. cbn [rst rfn is_done_act]. lia.
    + intros k y Hy. cbn [fw w_afterfunc regs] in Hy. apply nth_error_snoc_inv in Hy. destruct Hy as [[_ Hy]|[-> ->]].
      * apply Hold; [exact Hy|]. intros i0 Hp. inversion Hp; subst i0 k.
        exists (length (regs w)). eexists. split; [cbn [w_afterfunc regs]; apply nth_error_snoc_new|reflexivity].
      * right. exists a. cbn [fw fpcv fR flives rfn rnode rst w_afterfunc regs]. rewrite HkR.
        split; [reflexivity|]. split; [reflexivity|]. split; [discriminate|]. split; [|split; [intros; discriminate|intros [H|H]; discriminate]].
        exists xa. split; [rewrite nth_error_snoc_old; [exact Hxa|eapply nth_error_lt; eauto]|exact Hxaf].
    + unfold FL. cbn [fw fpcv fok flives idx w_afterfunc regs nodes]. split; [exact L1|]. split; [exact L2|]. split; [|split; [exact L4|exact I]].
      intros x' Hx'. left. destruct (L3 x' Hx') as [(k & y & Hy & Hyf & Hyn)|(i0 & [Hp|Hp] & Hi0)]; [|discriminate|discriminate].
      exists k, y. split; [rewrite nth_error_snoc_old; [exact Hy|eapply nth_error_lt; eauto]|auto].
Qed.

(* cancel() of the result: the deferred cancel, the returned CancelFunc, the waiter's combined cancel: R alone is marked *)
Lemma fmark_R ns0 inputs s :
  SFInv ns0 inputs s -> hasR (fpcv s) = true ->
  let s1 := fset s (s_mark (fw s) (fR s)) (fpcv s) in
  SWInv (fw s1) /\ FN ns0 inputs s1 /\ FW s1 /\ FR s1 /\ FL inputs s1 /\ mono (nodes (fw s)) (nodes (fw s1)) /\ kR s1 = true.
Proof.
  intros (HW & HN & HFW & HFR & HFL & HFK) HhR. pose proof (FN_fR _ _ _ HN HhR) as HRr.
  destruct (fmark_parts ns0 inputs s (fR s) HW HN HFW HFR HFL ltac:(intros _; lia)) as (A & B & C & D & F & Hm & _ & Hk).
  specialize (Hk eq_refl HhR). cbv zeta. auto 10.
Qed.

Lemma sfinv_main_d ns0 inputs s s' :
  SFInv ns0 inputs s -> (fpcv s = FDefer \/ fpcv s = FDoneG \/ fpcv s = FSpawn) ->
  sconfl_main true true inputs s = Some s' -> SFInv ns0 inputs s'.
Proof.
  intros HI Hpc Hm. pose proof HI as (HW & HN & HFW & HFR & HFL & HFK).
  assert (HhR : hasR (fpcv s) = true) by (destruct Hpc as [E|[E|E]]; rewrite E; reflexivity).
  assert (HnR : is_FRet (fpcv s) = false) by (destruct Hpc as [E|[E|E]]; rewrite E; reflexivity).
  destruct (FK_nonret_inv _ HFK HnR) as (Hwt & Huc & HkR). specialize (HkR HhR).
  pose proof (FN_fR _ _ _ HN HhR) as HRr.
  unfold sconfl_main, confl_main in Hm. destruct Hpc as [E|[E|E]]; rewrite E in Hm; inversion Hm; subst s'; clear Hm.
  - (* FDefer: the deferred cancel of the early return *)
    destruct (fmark_R ns0 inputs s HI HhR) as (A & B & C & D & F & Hm & Hk).
    set (s1 := fset s (s_mark (fw s) (fR s)) (fpcv s)) in *.
    assert (Hok : fok s = false) by (destruct HFL as (_ & _ & _ & _ & L5); rewrite E in L5; exact L5).
    split; [exact A|]. split; [|split; [|split; [|split]]].
    + eapply (FN_hasR_transfer ns0 inputs s1); try exact B; try reflexivity; exact HhR.
    + eapply FW_ext; try exact C; try reflexivity. unfold guard, inflight, s1, fset. cbn [fpcv fok]. rewrite E, Hok. reflexivity.
    + eapply FR_ext; try exact D; try reflexivity. intros i k Hp. unfold s1, fset in Hp. cbn [fpcv] in Hp. congruence.
    + apply (FL_pc inputs s1); [reflexivity|reflexivity|reflexivity|reflexivity| | | |exact F].
      * unfold s1, fset. cbn [fpcv]. rewrite E. reflexivity.
      * intros i. unfold s1, fset. cbn [fpcv]. rewrite E. split; discriminate.
      * exact I.
    + unfold FK, fset. cbn [fpcv fok fwait fucancel is_FRet]. unfold kR in *. unfold s1, fset in Hk. cbn [fw fR] in *.
      split; [discriminate|]. split; [|split; [intros _; exact Hk|split; [intros _; exact Hk|split; [intros _ _; auto|intros _ Hc; congruence]]]].
      intros _ _. right. intros x Hx. destruct HFL as (L1 & _). rewrite (L1 Hok) in Hx. destruct Hx.
  - (* FDoneG: release the guard count *)
    destruct HFW as [Hneg Hwg]. unfold guard, inflight in Hwg. rewrite E in Hwg.
    destruct (wg (fw s)) as [|k] eqn:Ewg; [lia|].
    assert (Ew1 : w_act (fw s) AWgDone = {| nodes := nodes (fw s); regs := regs (fw s); calls := calls (fw s); wg := k; wgneg := wgneg (fw s) |})
      by (cbn [w_act]; rewrite Ewg; reflexivity).
    assert (Hok : fok s = true) by (destruct HFL as (_ & _ & _ & _ & L5); rewrite E in L5; exact L5).
    split; [eapply SWInv_same; [| |exact HW]; reflexivity|]. split; [|split; [|split; [|split]]].
    + eapply (FN_hasR_transfer ns0 inputs s); try exact HN; try reflexivity; exact HhR.
    + unfold FW, guard, inflight, fset. cbn [fw fpcv fok wg wgneg regs]. split; [exact Hneg|lia].
    + eapply FR_ext; try exact HFR; try reflexivity. intros i k' Hp. congruence.
    + apply (FL_pc inputs s); [reflexivity|reflexivity|reflexivity|reflexivity| | | |exact HFL].
      * unfold fset. cbn [fpcv]. rewrite E. reflexivity.
      * intros i. rewrite E. split; discriminate.
      * exact Hok.
    + apply FK_nonret; unfold fset; cbn [fpcv fwait fucancel is_FRet hasR]; auto.
  - (* FSpawn: start the waiter *)
    assert (Hok : fok s = true) by (destruct HFL as (_ & _ & _ & _ & L5); rewrite E in L5; exact L5).
    split; [exact HW|]. split; [|split; [|split; [|split]]].
    + eapply (FN_hasR_transfer ns0 inputs s); try exact HN; try reflexivity; exact HhR.
    + eapply FW_ext; try exact HFW; try reflexivity. unfold guard, inflight. cbn [fpcv fok]. rewrite E, Hok. reflexivity.
    + eapply FR_ext; try exact HFR; try reflexivity. intros i k' Hp. congruence.
    + apply (FL_pc inputs s); [reflexivity|reflexivity|reflexivity|reflexivity| | | |exact HFL].
      * cbn [fpcv]. rewrite E. reflexivity.
      * intros i. rewrite E. split; discriminate.
      * exact I.
    + unfold FK. cbn [fpcv fok fwait fucancel is_FRet]. unfold kR in *. cbn [fw fR].
      split; [discriminate|]. split; [|split; [intros Hc; congruence|split; [discriminate|split; [intros _ Hc; congruence|intros _ _; discriminate]]]].
      intros _ [Hc|[Hc|Hc]]; [congruence|discriminate|discriminate].
Qed.

Lemma sfinv_user ns0 inputs s :
  SFInv ns0 inputs s -> fpcv s = FRet ->
  SFInv ns0 inputs {| fw := s_mark (fw s) (fR s); fpcv := FRet; fD := fD s; fR := fR s; fok := fok s;
                      flives := flives s; fwait := fwait s; fucancel := true |}.
Proof.
  intros HI E. pose proof HI as (HW & HN & HFW & HFR & HFL & HFK).
  assert (HhR : hasR (fpcv s) = true) by (rewrite E; reflexivity).
  destruct (fmark_R ns0 inputs s HI HhR) as (A & B & C & D & F & Hm & Hk).
  set (s1 := fset s (s_mark (fw s) (fR s)) (fpcv s)) in *.
  split; [exact A|]. split; [|split; [|split; [|split]]].
  - eapply (FN_hasR_transfer ns0 inputs s1); try exact B; try reflexivity; exact HhR.
  - eapply FW_ext; try exact C; try reflexivity. unfold guard, inflight, s1, fset. cbn [fpcv fok]. rewrite E. reflexivity.
  - eapply FR_ext; try exact D; try reflexivity. intros i k Hp. unfold s1, fset in Hp. cbn [fpcv] in Hp. congruence.
  - eapply FL_ext; try exact F; try reflexivity. unfold s1, fset. cbn [fpcv]. exact (eq_sym E).
  - destruct HFK as (K1 & K2 & K3 & K4 & K5 & K6). rewrite E in *. cbn [is_FRet] in *.
    unfold FK. cbn [fpcv fok fwait fucancel is_FRet]. unfold kR in *. unfold s1, fset in Hk. cbn [fw fR] in *.
    split; [discriminate|]. split; [intros _ _; left; reflexivity|]. split; [intros _; exact Hk|]. split; [intros _; exact Hk|].
    split; [intros _ Hok; split; [exact Hk|apply (K5 eq_refl Hok)]|exact K6].
Qed.

Lemma sfinv_waiter ns0 inputs s s' :
  SFInv ns0 inputs s -> sconfl_step true true inputs (length ns0) s SWaiter = Some s' -> SFInv ns0 inputs s'.
Proof.
  intros HI Hs. pose proof HI as (HW & HN & HFW & HFR & HFL & HFK). cbn [sconfl_step] in Hs.
  destruct HFK as (K1 & K2 & K3 & K4 & K5 & K6).
  assert (E : fwait s <> WNone -> fpcv s = FRet).
  { intros Hne. destruct (is_FRet (fpcv s)) eqn:Ef; [destruct (fpcv s); try discriminate; reflexivity|].
    destruct (K1 eq_refl) as (Hc & _). congruence. }
  destruct (fwait s) eqn:Ewt; try discriminate.
  - (* wg.Wait() returns *)
    destruct (Nat.eqb_spec (wg (fw s)) 0) as [Hz|Hz]; [|discriminate]. inversion Hs; subst s'; clear Hs.
    specialize (E ltac:(discriminate)). rewrite E in *. cbn [is_FRet] in *.
    split; [exact HW|]. split; [|split; [|split; [|split]]].
    + eapply (FN_hasR_transfer ns0 inputs s); try exact HN; try reflexivity; rewrite E; reflexivity.
    + eapply FW_ext; try exact HFW; try reflexivity. unfold guard, inflight. cbn [fpcv fok]. rewrite E. reflexivity.
    + eapply FR_ext; try exact HFR; try reflexivity. intros i k Hp. congruence.
    + eapply FL_ext; try exact HFL; try reflexivity. cbn [fpcv]. exact (eq_sym E).
    + unfold FK. cbn [fpcv fok fwait fucancel is_FRet]. unfold kR in *. cbn [fw fR].
      split; [discriminate|]. split; [|split; [exact K3|split; [discriminate|split; [|intros _ _; discriminate]]]].
      * intros _ _. destruct (is_canc (nodes (fw s)) (fR s)) eqn:EkR; [apply (K2 eq_refl); left; reflexivity|].
        right. intros x Hx. destruct HFW as [_ Hwg]. unfold guard, inflight in Hwg. rewrite E in Hwg.
        destruct HFL as (_ & _ & L3 & _). destruct (L3 x Hx) as [(k & y & Hy & Hyf & Hyn)|(i & [Hp|Hp] & _)]; [|congruence|congruence].
        pose proof (sum_ge tok _ _ _ Hy) as Hge. assert (Ht : tok y = 0) by lia.
        destruct (FR1_A_of_fn s k y (HFR k y Hy) Hyf) as (_ & Hrun & Hst & _).
        destruct (HW k y Hy) as (_ & Hf). rewrite <- Hyn. apply Hf.
        unfold tok in Ht. destruct (rst y) eqn:Er.
        -- rewrite Hyf in Ht. discriminate.
        -- specialize (Hst eq_refl). unfold kR in Hst. congruence.
        -- rewrite (Hrun f eq_refl) in Ht. discriminate.
        -- right. exact Er.
      * intros _ Hok. destruct (K5 eq_refl Hok) as [_ Hc]. discriminate.
  - (* combined cancel *)
    inversion Hs; subst s'; clear Hs. specialize (E ltac:(discriminate)).
    assert (HhR : hasR (fpcv s) = true) by (rewrite E; reflexivity).
    destruct (fmark_R ns0 inputs s HI HhR) as (A & B & C & D & F & Hm & Hk).
    set (s1 := fset s (s_mark (fw s) (fR s)) (fpcv s)) in *.
    rewrite E in K1, K2, K5, K6. cbn [is_FRet] in *.
    split; [exact A|]. split; [|split; [|split; [|split]]].
    + eapply (FN_hasR_transfer ns0 inputs s1); try exact B; try reflexivity; exact HhR.
    + eapply FW_ext; try exact C; try reflexivity.
    + eapply FR_ext; try exact D; try reflexivity. intros i k Hp; exact Hp.
    + eapply FL_ext; try exact F; try reflexivity.
    + unfold FK. cbn [fpcv fok fwait fucancel]. rewrite E. cbn [is_FRet]. unfold kR in *. unfold s1, fset in Hk. cbn [fw fR] in *.
      split; [discriminate|]. split; [|split; [intros _; exact Hk|split; [intros _; exact Hk|split; [|intros _ _; discriminate]]]].
      * intros _ _. destruct (K2 eq_refl (or_intror (or_introl eq_refl))) as [Hu|Hd]; [left; exact Hu|right].
        intros x Hx. apply Hm. apply Hd. exact Hx.
      * intros _ Hok. destruct (K5 eq_refl Hok) as [_ Hc]. discriminate.
Qed.

Lemma sfinv_sys ns0 inputs s l w' :
  SFInv ns0 inputs s -> s_sys (length ns0) (fw s) l = Some w' -> SFInv ns0 inputs (fset s w' (fpcv s)).
Proof.
  intros HI Hs. pose proof HI as (HW & HN & HFW & HFR & HFL & HFK). apply s_sys_inv in Hs.
  destruct Hs as [r Hh|n Hn ->|c p Hc Hp Hk ->|r x Hx Hp Hk ->].
  - eapply sfinv_hook; eauto.
  - apply sfinv_mark_other; [exact HI|intros _; lia|]. intros Hh. rewrite (FN_fR _ _ _ HN Hh). lia.
  - (* propagation: neither D (no parent) nor R (its parent D is never cancelled) *)
    pose proof (par_of_lt _ _ _ Hp) as Hlt.
    assert (HD : hasD (fpcv s) = true -> anc_of (nodes (fw s)) (length ns0) = [length ns0] /\ is_canc (nodes (fw s)) (length ns0) = false).
    { intros Hd. unfold FN in HN. destruct HN as [_ HN]. destruct (fpcv s); try discriminate; intuition. }
    apply sfinv_mark_other; [exact HI| |].
    + intros Hd ->. destruct (HD Hd) as [Ha _]. unfold par_of in Hp. rewrite Ha in Hp. discriminate.
    + intros Hh ->. apply (FN_R_iff ns0 inputs s Hh) in HN. destruct HN as (_ & _ & _ & HR & _ & HkD & Ha & _).
      unfold par_of in Hp. rewrite HR, Ha in Hp. inversion Hp; subst p. congruence.
  - eapply sfinv_fire; eauto.
Qed.

Lemma sconfl_step_inv ns0 inputs s l s' :
  wfi inputs (length ns0) -> SFInv ns0 inputs s ->
  sconfl_step true true inputs (length ns0) s l = Some s' -> SFInv ns0 inputs s'.
Proof.
  intros Hwf HI Hs. destruct l as [|r|n| | |c|r];
    try (cbn [sconfl_step] in Hs; destruct (s_sys (length ns0) (fw s) _) as [w'|] eqn:E; [|discriminate]; inversion Hs; subst s';
         eapply sfinv_sys; eauto).
  - cbn [sconfl_step] in Hs.
    assert (Hc : fpcv s <> FDefer -> confl_main true true inputs s = Some s').
    { intros Hne. unfold sconfl_main in Hs. destruct (fpcv s); try exact Hs. congruence. }
    destruct (fpcv s) eqn:E; try (specialize (Hc ltac:(discriminate))).
    + eapply sfinv_main_a; eauto.
    + eapply sfinv_main_a; eauto.
    + eapply sfinv_main_a; eauto.
    + eapply sfinv_main_b; eauto.
    + eapply sfinv_main_b; eauto.
    + eapply sfinv_main_c; eauto.
    + eapply sfinv_main_c; eauto.
    + eapply sfinv_main_b; eauto.
    + eapply sfinv_main_d; eauto.
    + eapply sfinv_main_d; eauto.
    + eapply sfinv_main_d; eauto.
    + unfold confl_main in Hc. rewrite E in Hc. discriminate.
    + unfold confl_main in Hc. rewrite E in Hc. discriminate.
  - cbn [sconfl_step] in Hs. destruct (fpcv s) eqn:E; try discriminate. inversion Hs; subst s'. apply sfinv_user; assumption.
  - eapply sfinv_waiter; eauto.
Qed.

Lemma sconfl_reach ns0 inputs sched :
  wfi inputs (length ns0) ->
  SFInv ns0 inputs (grun (sconfl_step true true inputs (length ns0)) (confl_init ns0) sched).
Proof.
  intros Hwf. apply grun_inv with (P := SFInv ns0 inputs).
  - intros s l s'. apply sconfl_step_inv. exact Hwf.
  - split; [apply SWInv_init|]. split; [split; [auto|reflexivity]|]. split; [split; reflexivity|]. split; [apply FR_nil; reflexivity|].
    split; [|apply FK_nonret; cbn; auto; discriminate].
    unfold FL. cbn. fl_tac.
Qed.

Theorem sconfl_wg_never_negative ns0 inputs sched :
  wfi inputs (length ns0) ->
  wgneg (fw (grun (sconfl_step true true inputs (length ns0)) (confl_init ns0) sched)) = false.
Proof. intros Hwf. destruct (sconfl_reach ns0 inputs sched Hwf) as (_ & _ & [H _] & _). exact H. Qed.

Lemma slives_inputs ns0 inputs s :
  SFInv ns0 inputs s -> fpcv s = FRet ->
  ((forall x, In x (flives s) -> is_canc (nodes (fw s)) x = true) <-> (forall x, In x inputs -> is_canc (nodes (fw s)) x = true)).
Proof.
  intros (_ & _ & _ & _ & (_ & L2 & _ & L4 & _) & _) E. split.
  - intros H x Hx. apply In_nth_error in Hx. destruct Hx as [j Hj].
    destruct (L4 j x) as [Hk|Hl]; [rewrite E; cbn; eapply nth_error_lt; eauto|exact Hj|exact Hk|apply H; exact Hl].
  - intros H x Hx. apply H. apply L2. exact Hx.
Qed.

Theorem sconfl_live_while_any_live ns0 inputs sched :
  wfi inputs (length ns0) ->
  let s := grun (sconfl_step true true inputs (length ns0)) (confl_init ns0) sched in
  hasR (fpcv s) = true -> kR s = true ->
  fpcv s = FRet /\ (fucancel s = true \/ forall x, In x inputs -> is_canc (nodes (fw s)) x = true).
Proof.
  intros Hwf s Hh Hk. pose proof (sconfl_reach ns0 inputs sched Hwf) as HI. fold s in HI.
  pose proof HI as (_ & _ & _ & _ & _ & (K1 & K2 & _)).
  destruct (is_FRet (fpcv s)) eqn:Ef.
  - assert (E : fpcv s = FRet) by (destruct (fpcv s); try discriminate; reflexivity). split; [exact E|].
    destruct (K2 eq_refl (or_introl Hk)) as [Hu|Hd]; [left; exact Hu|right]. apply (slives_inputs ns0 inputs s HI E). exact Hd.
  - destruct (K1 eq_refl) as (_ & _ & Hc). rewrite (Hc Hh) in Hk. discriminate.
Qed.

Lemma sconfl_quiescent_inv s : sconfl_quiescent s = true ->
  fpcv s = FRet /\ no_running (fw s) = true /\ no_fire (fw s) = true /\ no_prop (fw s) = true /\ waiter_idle s = true.
Proof.
  unfold sconfl_quiescent. destruct (fpcv s); try discriminate. intros H. apply andb_prop in H. destruct H as [H Hw].
  apply settled_spec in H. tauto.
Qed.

Theorem sconfl_cancelled_when_all_dead ns0 inputs sched :
  wfi inputs (length ns0) ->
  let s := grun (sconfl_step true true inputs (length ns0)) (confl_init ns0) sched in
  sconfl_quiescent s = true ->
  (fucancel s = true \/ forall x, In x inputs -> is_canc (nodes (fw s)) x = true) -> kR s = true.
Proof.
  intros Hwf s Hq Hsrc. pose proof (sconfl_reach ns0 inputs sched Hwf) as HI. fold s in HI.
  destruct (sconfl_quiescent_inv s Hq) as (E & Hnr & Hnf & _ & Hidle).
  pose proof HI as (HW & _ & [_ Hwg] & HFR & (_ & L2 & _) & (_ & _ & K3 & K4 & K5 & K6)).
  rewrite E in K5, K6. cbn [is_FRet] in K5, K6.
  destruct Hsrc as [Hu|Hall]; [apply K3; exact Hu|].
  destruct (fok s) eqn:Eok; [|apply (K5 eq_refl eq_refl)].
  specialize (K6 eq_refl eq_refl). unfold waiter_idle in Hidle.
  destruct (fwait s) eqn:Ew; try congruence; [|apply K4; reflexivity].
  exfalso. unfold guard, inflight in Hwg. rewrite E, Eok in Hwg.
  rewrite sum_zero in Hwg; [rewrite Hwg in Hidle; discriminate|].
  intros k y Hy. pose proof (proj1 (no_running_spec (fw s)) Hnr k y Hy) as Hny.
  pose proof (no_fire_spec _ Hnf k y Hy) as Hp.
  unfold tok. destruct (rst y) eqn:Er; try reflexivity; [|exfalso; apply (Hny f); reflexivity].
  destruct (HFR k y Hy) as [(Hf & Hin & _)|(a & Hf & _)]; [|rewrite Hf; reflexivity].
  specialize (Hp eq_refl). rewrite (Hall _ (L2 _ Hin)) in Hp. discriminate.
Qed.

Theorem sconfl_waiter_exits ns0 inputs sched :
  wfi inputs (length ns0) ->
  let s := grun (sconfl_step true true inputs (length ns0)) (confl_init ns0) sched in
  sconfl_quiescent s = true -> kR s = true ->
  (fok s = true /\ fwait s = WExit) \/ (fok s = false /\ fwait s = WNone).
Proof.
  intros Hwf s Hq Hk. pose proof (sconfl_reach ns0 inputs sched Hwf) as HI. fold s in HI.
  destruct (sconfl_quiescent_inv s Hq) as (E & Hnr & Hnf & _ & Hidle).
  pose proof HI as (HW & _ & [_ Hwg] & HFR & _ & (_ & _ & K3 & K4 & K5 & K6)).
  rewrite E in K5, K6. cbn [is_FRet] in K5, K6.
  destruct (fok s) eqn:Eok; [left|right; split; [reflexivity|apply (K5 eq_refl eq_refl)]].
  split; [reflexivity|]. specialize (K6 eq_refl eq_refl). unfold waiter_idle in Hidle.
  destruct (fwait s) eqn:Ew; try congruence.
  exfalso. unfold guard, inflight in Hwg. rewrite E, Eok in Hwg.
  rewrite sum_zero in Hwg; [rewrite Hwg in Hidle; discriminate|].
  assert (Hnr' : forall k y, nth_error (regs (fw s)) k = Some y -> forall f, rst y <> Run f)
    by (apply no_running_spec; exact Hnr).
  intros k y Hy. unfold tok. destruct (rst y) eqn:Er; try reflexivity; [|exfalso; apply (Hnr' k y Hy f); exact Er].
  destruct (HFR k y Hy) as [(Hf & _ & _ & _ & Hpart)|(a & Hf & _)]; [|rewrite Hf; reflexivity].
  exfalso. destruct Hpart as [(i & Hpc)|(b & yb & Hyb & Hybf)]; [congruence|].
  destruct (HFR b yb Hyb) as [(Hfb & _)|(a & Hfb & Hrn & Hns & _ & _ & Hfin)]; [congruence|].
  rewrite Hybf in Hfb. inversion Hfb; subst a.
  pose proof (no_fire_spec _ Hnf b yb Hyb) as Hpb. rewrite Hrn in Hpb. unfold kR in Hk.
  assert (Hd : rst yb = Done).
  { destruct (rst yb) eqn:Eb; [specialize (Hpb eq_refl); congruence|congruence|exfalso; apply (Hnr' b yb Hyb f); exact Eb|reflexivity]. }
  specialize (Hfin (or_intror Hd)).
  assert (is_pending (fw s) k = true) by (apply is_pending_spec; eauto). congruence.
Qed.

Theorem sconfl_values ns0 inputs sched :
  wfi inputs (length ns0) ->
  let s := grun (sconfl_step true true inputs (length ns0)) (confl_init ns0) sched in
  fpcv s = FRet -> forall c0, hd_error inputs = Some c0 -> vals_of (nodes (fw s)) (fR s) = vals_of ns0 c0.
Proof.
  intros Hwf s E c0 Hc. destruct (sconfl_reach ns0 inputs sched Hwf) as (_ & HN & _). fold s in HN.
  apply (FN_R_iff ns0 inputs s) in HN; [|rewrite E; reflexivity].
  destruct HN as (_ & _ & _ & HR & _ & _ & _ & Hv). rewrite HR. apply Hv. exact Hc.
Qed.

Theorem sconfl_nodetach_refuted :
  exists sched,
    let s := grun (sconfl_step false true [0; 1] 2) (confl_init two_roots) sched in
    fpcv s = FRet /\ kR s = true /\ fucancel s = false /\ In 1 (flives s) /\ is_canc (nodes (fw s)) 1 = false.
Proof.
  exists (repeat SMain 15 ++ [SCancel 0; SPropg 2]). vm_compute. repeat split; auto.
Qed.

Theorem sconfl_noconsult_refuted :
  exists sched, wgneg (fw (grun (sconfl_step true false [0] 2) (confl_init two_roots) sched)) = true.
Proof.
  exists (repeat SMain 12 ++ [SCancel 0; SUser; SFire 0; SFire 1; SHook 0; SHook 1; SHook 1]). vm_compute. reflexivity.
Qed.

Example sconfl_stays_live_then_dies :
  let step := sconfl_step true true [0; 1] 2 in
  let s0 := sconfl_settle true true [0; 1] 2 60 (confl_init two_roots) in
  let s1 := sconfl_settle true true [0; 1] 2 60 (grun step s0 [SCancel 0]) in
  let s2 := sconfl_settle true true [0; 1] 2 60 (grun step s1 [SCancel 1]) in
  sconfl_quiescent s0 = true /\ kR s0 = false /\ sconfl_quiescent s1 = true /\ kR s1 = false /\
  sconfl_quiescent s2 = true /\ kR s2 = true /\ fwait s2 = WExit /\ wg (fw s2) = 0 /\
  lookup (vals_of (nodes (fw s2)) (fR s2)) 1 = Some 10.
Proof. vm_compute. repeat split; reflexivity. Qed.

(* cancel() is called while both inputs are cancelled but neither of their registrations has won its once: the
   primary-side hooks stop both (stop() returns true on cancelled contexts) and release the WaitGroup themselves *)
Example sconfl_user_cancel_stops_cancelled_inputs :
  let step := sconfl_step true true [0; 1] 2 in
  let s0 := sconfl_settle true true [0; 1] 2 60 (confl_init two_roots) in
  let s1 := grun step s0 [SCancel 0; SCancel 1; SUser; SFire 1; SFire 3; SHook 1; SHook 3] in
  let s2 := sconfl_settle true true [0; 1] 2 60 s1 in
  map rst (regs (fw s1)) = [Stopped; Run (FAct AWgDone); Stopped; Run (FAct AWgDone)] /\
  is_canc (nodes (fw s1)) 0 = true /\ is_canc (nodes (fw s1)) 1 = true /\
  sconfl_quiescent s2 = true /\ kR s2 = true /\ fwait s2 = WExit /\ wg (fw s2) = 0 /\ wgneg (fw s2) = false.
Proof. vm_compute. repeat split; reflexivity. Qed.

Example sconfl_cancel_during_construction :
  let step := sconfl_step true true [0] 2 in
  let s := sconfl_settle true true [0] 2 60 (grun step (confl_init two_roots) [SMain; SMain; SMain; SMain; SCancel 0]) in
  sconfl_quiescent s = true /\ kR s = true /\ fwait s = WExit /\ wgneg (fw s) = false.
Proof. vm_compute. repeat split; reflexivity. Qed.

(* ----- progress and quiescence ----- *)
Definition sconfl_mu (L : nat) (s : fstate) : nat * nat := (confl_rem L (fpcv s), smu (fw s) + wpot (fwait s)).

Theorem sconfl_progress detach consult inputs nenv s l s' :
  sconfl_step detach consult inputs nenv s l = Some s' ->
  match l with SCancel _ | SUser => lexle (sconfl_mu (length inputs) s') (sconfl_mu (length inputs) s)
             | _ => lexlt (sconfl_mu (length inputs) s') (sconfl_mu (length inputs) s) end.
Proof.
  intros Hs.
  assert (Hsys : forall w', s_sys nenv (fw s) l = Some w' -> s' = fset s w' (fpcv s) ->
                 match l with SCancel _ | SUser => lexle (sconfl_mu (length inputs) s') (sconfl_mu (length inputs) s)
                            | _ => lexlt (sconfl_mu (length inputs) s') (sconfl_mu (length inputs) s) end).
  { intros w' H ->. pose proof (smu_sys _ _ _ _ H) as Hm. unfold sconfl_mu. cbn [fset fw fpcv fwait].
    destruct l; try discriminate; right; cbn [fst snd]; (split; [reflexivity|lia]). }
  assert (HmR : smu (s_mark (fw s) (fR s)) <= smu (fw s)).
  { unfold smu. rewrite Mw_s_mark, nodes_s_mark. pose proof (unm_mark1_le (nodes (fw s)) (fR s)). lia. }
  destruct l as [|r|n| | |c|r]; cbn [sconfl_step] in Hs;
    try (destruct (s_sys nenv (fw s) _) as [w'|] eqn:E; [|discriminate]; inversion Hs; subst s'; apply (Hsys w' eq_refl eq_refl)).
  - clear Hsys. left. unfold sconfl_main, confl_main in Hs. unfold sconfl_mu. cbn [fst].
    destruct (fpcv s) as [| | |i|i|i|i a| | | | | |] eqn:E; try discriminate.
    + destruct inputs as [|c0 rest]; [|destruct detach]; inversion Hs; subst s'; cbn [fset fpcv confl_rem length]; lia.
    + inversion Hs; subst s'; cbn [fpcv confl_rem]; lia.
    + inversion Hs; subst s'; cbn [fset fpcv confl_rem]; lia.
    + destruct (nth_error inputs i) as [x|] eqn:Ex.
      * apply nth_error_lt in Ex. destruct (is_canc (nodes (fw s)) x); inversion Hs; subst s'; cbn [fset fpcv confl_rem]; lia.
      * inversion Hs; subst s'; cbn [fset fpcv confl_rem]; lia.
    + inversion Hs; subst s'; cbn [fset fpcv confl_rem]; lia.
    + destruct (nth_error inputs i) as [x|] eqn:Ex; [|discriminate]. inversion Hs; subst s'; cbn [fset fpcv confl_rem]; lia.
    + inversion Hs; subst s'; cbn [fset fpcv confl_rem]; lia.
    + destruct (fok s); inversion Hs; subst s'; cbn [fset fpcv confl_rem]; lia.
    + inversion Hs; subst s'; cbn [fset fpcv confl_rem]; lia.
    + inversion Hs; subst s'; cbn [fset fpcv confl_rem]; lia.
    + inversion Hs; subst s'; cbn [fpcv confl_rem]; lia.
  - destruct (fpcv s) eqn:E; try discriminate. inversion Hs; subst s'. right. unfold sconfl_mu. cbn [fst snd fw fpcv fwait].
    rewrite E. split; [reflexivity|lia].
  - destruct (fwait s) eqn:Ew; try discriminate.
    + destruct (wg (fw s) =? 0); [|discriminate]. inversion Hs; subst s'. right. unfold sconfl_mu. cbn [fst snd fw fpcv fwait wpot].
      rewrite Ew. cbn [wpot]. split; [reflexivity|lia].
    + inversion Hs; subst s'. right. unfold sconfl_mu. cbn [fst snd fw fpcv fwait wpot]. rewrite Ew. cbn [wpot].
      split; [reflexivity|lia].
Qed.

(* the registration loop never runs past the inputs: FAdd/FRegA/FRegB i only with i < length inputs *)
Definition FIdx (inputs : list nat) (s : fstate) : Prop :=
  match fpcv s with FAdd i | FRegA i | FRegB i _ => i < length inputs | _ => True end.

Lemma FIdx_step detach consult inputs nenv s l s' :
  FIdx inputs s -> sconfl_step detach consult inputs nenv s l = Some s' -> FIdx inputs s'.
Proof.
  intros HI Hs. destruct l as [|r|n| | |c|r]; cbn [sconfl_step] in Hs;
    try (destruct (s_sys nenv (fw s) _) as [w'|] eqn:E; [|discriminate]; inversion Hs; subst s'; exact HI).
  - unfold sconfl_main, confl_main in Hs. unfold FIdx in *.
    destruct (fpcv s) as [| | |i|i|i|i a| | | | | |] eqn:E; try discriminate.
    + destruct inputs as [|c0 rest]; [|destruct detach]; inversion Hs; subst s'; exact I.
    + inversion Hs; subst s'; exact I.
    + inversion Hs; subst s'; exact I.
    + destruct (nth_error inputs i) as [x|] eqn:Ex.
      * apply nth_error_lt in Ex. destruct (is_canc (nodes (fw s)) x); inversion Hs; subst s'; cbn [fset fpcv]; auto.
      * inversion Hs; subst s'; exact I.
    + inversion Hs; subst s'; cbn [fset fpcv]; exact HI.
    + destruct (nth_error inputs i) as [x|] eqn:Ex; [|discriminate]. inversion Hs; subst s'; cbn [fset fpcv]; exact HI.
    + inversion Hs; subst s'; exact I.
    + destruct (fok s); inversion Hs; subst s'; exact I.
    + inversion Hs; subst s'; exact I.
    + inversion Hs; subst s'; exact I.
    + inversion Hs; subst s'; exact I.
  - destruct (fpcv s) eqn:E; try discriminate. inversion Hs; subst s'. exact I.
  - unfold FIdx in *. destruct (fwait s); try discriminate.
    + destruct (wg (fw s) =? 0); [|discriminate]. inversion Hs; subst s'. exact HI.
    + inversion Hs; subst s'. exact HI.
Qed.

(* final: quiescent, or the immediate panic of ConflatedContext() *)
Definition sconfl_final (s : fstate) : bool := sconfl_quiescent s || sconfl_panicked s.

Lemma sconfl_enabled detach consult inputs nenv s :
  FIdx inputs s -> sconfl_final s = false ->
  exists l, In l (s_internal (fw s)) /\ sconfl_step detach consult inputs nenv s l <> None.
Proof.
  intros HI Hq. unfold sconfl_final in Hq. apply orb_false_iff in Hq. destruct Hq as [Hq Hp].
  assert (Hmain : fpcv s <> FRet -> sconfl_step detach consult inputs nenv s SMain <> None).
  { cbn [sconfl_step]. unfold sconfl_main, confl_main. unfold sconfl_panicked in Hp. unfold FIdx in HI.
    destruct (fpcv s) as [| | |i|i|i|i a| | | | | |]; try discriminate; try congruence; intros _.
    - destruct inputs as [|c0 rest]; [|destruct detach]; discriminate.
    - destruct (nth_error inputs i) as [x|]; [destruct (is_canc (nodes (fw s)) x)|]; discriminate.
    - destruct (nth_error inputs i) as [x|] eqn:Ex; [discriminate|]. apply nth_error_None in Ex. lia.
    - destruct (fok s); discriminate. }
  unfold sconfl_quiescent in Hq.
  destruct (fpcv s) eqn:E; try (exists SMain; split; [left; reflexivity|apply Hmain; discriminate]).
  apply andb_false_iff in Hq. destruct Hq as [Hq|Hq].
  - destruct (unsettled_enabled nenv (fw s) Hq) as (l & Hin & Hl & Hm & Hw). exists l. split; [exact Hin|].
    destruct l; cbn [sconfl_step]; try congruence; try (cbn [s_sys] in Hl; congruence);
      destruct (s_sys nenv (fw s) _); congruence.
  - exists SWaiter. split; [right; left; reflexivity|]. cbn [sconfl_step]. unfold waiter_idle in Hq.
    destruct (fwait s); try discriminate. apply negb_false_iff in Hq. rewrite Hq. discriminate.
Qed.

(* from every reachable state (every schedule prefix, any detach/consult variant), running the internal steps reaches a
   quiescent state -- or the call panicked at once, which happens exactly when there are no inputs *)
Theorem sconfl_quiescence_reached detach consult inputs nenv ns0 sched :
  let s := grun (sconfl_step detach consult inputs nenv) (confl_init ns0) sched in
  exists fuel, let s' := sconfl_settle detach consult inputs nenv fuel s in
               sconfl_quiescent s' = true \/ (sconfl_panicked s' = true /\ inputs = []).
Proof.
  cbv zeta.
  assert (HP : forall s, (sconfl_panicked s = true -> inputs = []) ->
                         forall l s', sconfl_step detach consult inputs nenv s l = Some s' -> (sconfl_panicked s' = true -> inputs = [])).
  { intros s H l s' Hs. unfold sconfl_panicked in *.
    destruct l as [|r|n| | |c|r]; cbn [sconfl_step] in Hs;
      try (destruct (s_sys nenv (fw s) _) as [w'|] eqn:E; [|discriminate]; inversion Hs; subst s'; exact H).
    - unfold sconfl_main, confl_main in Hs. destruct (fpcv s) as [| | |i|i|i|i a| | | | | |] eqn:E; try discriminate;
        try (inversion Hs; subst s'; cbn [fset fpcv]; discriminate).
      + destruct inputs as [|c0 rest]; [reflexivity|]. destruct detach; inversion Hs; subst s'; discriminate.
      + destruct (nth_error inputs i) as [x|]; [destruct (is_canc (nodes (fw s)) x)|]; inversion Hs; subst s'; cbn [fset fpcv]; discriminate.
      + destruct (nth_error inputs i) as [x|]; [|discriminate]. inversion Hs; subst s'; cbn [fset fpcv]; discriminate.
      + destruct (fok s); inversion Hs; subst s'; cbn [fset fpcv]; discriminate.
    - destruct (fpcv s); try discriminate. inversion Hs; subst s'. discriminate.
    - destruct (fwait s); try discriminate.
      + destruct (wg (fw s) =? 0); [|discriminate]. inversion Hs; subst s'. exact H.
      + inversion Hs; subst s'. exact H. }
  set (Inv := fun s => FIdx inputs s /\ (sconfl_panicked s = true -> inputs = [])).
  assert (Hinv : forall s l s', Inv s -> sconfl_step detach consult inputs nenv s l = Some s' -> Inv s').
  { intros s l s' [A B] Hs. split; [eapply FIdx_step; eauto|eapply HP; eauto]. }
  assert (Hreach : Inv (grun (sconfl_step detach consult inputs nenv) (confl_init ns0) sched)).
  { apply grun_inv with (P := Inv); [exact Hinv|]. split; [exact I|discriminate]. }
  destruct (settle_reaches (sconfl_step detach consult inputs nenv) (fun s => s_internal (fw s)) (sconfl_mu (length inputs))
                           Inv sconfl_final) with (s := grun (sconfl_step detach consult inputs nenv) (confl_init ns0) sched)
    as [fuel Hf]; auto.
  - intros s l s' Hin Hs. pose proof (sconfl_progress _ _ _ _ _ _ _ Hs) as H. apply in_internal_is_internal in Hin.
    destruct l; try exact H; discriminate.
  - intros s [A _] Hq. apply sconfl_enabled; assumption.
  - exists fuel. unfold sconfl_settle.
    set (s' := gsettle _ _ fuel _) in *.
    assert (HI' : Inv s').
    { unfold s'. clear Hf s'. generalize (grun (sconfl_step detach consult inputs nenv) (confl_init ns0) sched) Hreach.
      induction fuel as [|k IH]; intros s0 H0; cbn [gsettle]; [exact H0|].
      destruct (gfirst_enabled _ s0 _) as [s1|] eqn:E1; [|exact H0].
      destruct (gfirst_enabled_some _ _ _ _ E1) as (l & _ & Hl). apply IH. eapply Hinv; eauto. }
    unfold sconfl_final in Hf. apply orb_prop in Hf. destruct Hf as [Hf|Hf]; [left; exact Hf|right].
    split; [exact Hf|apply HI'; exact Hf].
Qed.

Theorem sconfl_quiescent_stuck detach consult inputs nenv s l :
  sconfl_quiescent s = true -> is_internal l = true -> sconfl_step detach consult inputs nenv s l = None.
Proof.
  intros Hq Hl. destruct (sconfl_quiescent_inv s Hq) as (E & Hnr & Hnf & Hnp & Hidle).
  assert (Hs : settled (fw s) = true) by (unfold settled; rewrite Hnr, Hnf, Hnp; reflexivity).
  pose proof (settled_stuck nenv (fw s) l Hs) as H.
  destruct l; try discriminate; cbn [sconfl_step]; try (rewrite H; reflexivity).
  - unfold sconfl_main, confl_main. rewrite E. reflexivity.
  - unfold waiter_idle in Hidle. destruct (fwait s); try discriminate; try reflexivity.
    apply negb_true_iff in Hidle. rewrite Hidle. reflexivity.
Qed.

(* ConflatedContext with at least one input never panics, with none it panics at once *)
Theorem sconfl_panics_iff_no_inputs detach consult nenv ns0 inputs sched :
  let s := grun (sconfl_step detach consult inputs nenv) (confl_init ns0) sched in
  sconfl_panicked s = true -> inputs = [].
Proof.
  cbv zeta. apply grun_inv with (P := fun s => sconfl_panicked s = true -> inputs = []); [|discriminate].
  intros s l s' H Hs. unfold sconfl_panicked in *.
  destruct l as [|r|n| | |c|r]; cbn [sconfl_step] in Hs;
    try (destruct (s_sys nenv (fw s) _) as [w'|] eqn:E; [|discriminate]; inversion Hs; subst s'; exact H).
  - unfold sconfl_main, confl_main in Hs. destruct (fpcv s) as [| | |i|i|i|i a| | | | | |] eqn:E; try discriminate;
      try (inversion Hs; subst s'; cbn [fset fpcv]; discriminate).
    + destruct inputs as [|c0 rest]; [reflexivity|]. destruct detach; inversion Hs; subst s'; discriminate.
    + destruct (nth_error inputs i) as [x|]; [destruct (is_canc (nodes (fw s)) x)|]; inversion Hs; subst s'; cbn [fset fpcv]; discriminate.
    + destruct (nth_error inputs i) as [x|]; [|discriminate]. inversion Hs; subst s'; cbn [fset fpcv]; discriminate.
    + destruct (fok s); inversion Hs; subst s'; cbn [fset fpcv]; discriminate.
  - destruct (fpcv s); try discriminate. inversion Hs; subst s'. discriminate.
  - destruct (fwait s); try discriminate.
    + destruct (wg (fw s) =? 0); [|discriminate]. inversion Hs; subst s'. exact H.
    + inversion Hs; subst s'. exact H.
Qed.
