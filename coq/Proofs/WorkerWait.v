(* Proofs about Model/WorkerWait.v: Do callers parked on x.mu are part of the state; nobody is lost, nobody is stranded,
   and a parked caller is served after at most 7 steps of the stopping instance. *)
From Coq Require Import List Arith Bool Lia.
From BB.Model Require Import Worker WorkerWait.
From BB.Proofs Require Import Worker WorkerMore.
Import ListNotations.

Arguments Nat.sub : simpl never.
Arguments Nat.eqb : simpl never.
Arguments Nat.mul : simpl never.
Arguments measure : simpl never.

Definition preachable (p : pst) : Prop := exists sched, p = prun pinit sched.

Lemma prun_app p a b : prun p (a ++ b) = prun (prun p a) b.
Proof. unfold prun. apply fold_left_app. Qed.

Lemma preachable_step p a p' : preachable p -> pstep p a = Some p' -> preachable p'.
Proof.
  intros (sc & E) Hs. exists (sc ++ [a]). rewrite prun_app, <- E. cbn. unfold pstep_or_stay. rewrite Hs. reflexivity.
Qed.

Lemma preachable_run p sched : preachable p -> preachable (prun p sched).
Proof. intros (sc & E). exists (sc ++ sched). rewrite prun_app, <- E. reflexivity. Qed.

(* one event of the variant is at most one step of the base model *)
Lemma pstep_base p a p' : pstep p a = Some p' ->
  (a = PArrive /\ base p' = base p /\ waiting p' = S (waiting p) /\ arrived p' = S (arrived p)) \/
  (a = PEnter /\ step faithful (base p) LDo = Some (base p') /\ waiting p = S (waiting p') /\ arrived p' = arrived p) \/
  (exists l, a = PL l /\ l <> LDo /\ step faithful (base p) l = Some (base p') /\ waiting p' = waiting p /\
             arrived p' = arrived p).
Proof.
  unfold pstep. destruct (panicked (base p)); [discriminate|]. destruct a as [| |l].
  - intros H; inversion H; subst p'. left. cbn. auto.
  - destruct (waiting p) as [|n] eqn:Ew; [discriminate|].
    destruct (step faithful (base p) LDo) as [s'|] eqn:Es; [|discriminate].
    intros H; inversion H; subst p'. right. left. cbn. auto.
  - intros H. right. right. exists l.
    destruct l as [|h|k|k|k]; [discriminate| | | |];
      (destruct (step faithful (base p) _) as [s'|] eqn:Es; [|discriminate]); inversion H; subst p'; cbn;
      (split; [reflexivity|]); (split; [discriminate|]); auto.
Qed.

(* the base component only ever visits reachable states of Model/Worker.v: every safety theorem of C17 carries over *)
Theorem pbase_reachable p : preachable p -> reachable (base p).
Proof.
  intros (sc & E). subst p. induction sc as [|a t IH] using rev_ind.
  - exists []. reflexivity.
  - rewrite prun_app. cbn. unfold pstep_or_stay. destruct (pstep (prun pinit t) a) as [p'|] eqn:Hs; [|exact IH].
    destruct (pstep_base _ _ _ Hs) as [(_ & E & _)|[(_ & E & _)|(l & _ & _ & E & _)]].
    + rewrite E. exact IH.
    + eapply reachable_step; eauto.
    + eapply reachable_step; eauto.
Qed.

(* ---- accounting: every Do call made so far is either still parked or has returned exactly one done function ---- *)
Lemma step_holders_length s l s' : step faithful s l = Some s' ->
  length (holders s') = length (holders s) + (match l with LDo => 1 | _ => 0 end).
Proof.
  unfold step. destruct (panicked s); [discriminate|]. destruct l as [|h|k|k|k].
  - unfold do_step. destruct (mu s); [discriminate|]. cbn [f_nonewgen faithful andb].
    destruct (xinst s); destruct (xwg s); intros H; inversion H; subst s'; cbn; rewrite app_length; cbn; lia.
  - unfold done_step. destruct (nth_error (holders s) h) as [hh|]; [|discriminate].
    destruct (hdone hh); [discriminate|]. destruct (nth (hgen hh) (gens s) 0); intros H; inversion H; subst s'; cbn;
      rewrite ?upd_length; lia.
  - unfold w_step. destruct (nth_error (insts s) k) as [i|]; [|discriminate].
    destruct (wp i).
    + destruct (mu s); [discriminate|]. destruct (xwg s); intros H; inversion H; subst s'; mframe; lia.
    + destruct (nth g (gens s) 0 =? 0); [|discriminate]. intros H; inversion H; subst s'; mframe; lia.
    + destruct (mu s); [discriminate|]. intros H; inversion H; subst s'; mframe; lia.
    + destruct (xinst s) as [j|]; [|intros H; inversion H; subst s'; cbn; lia].
      destruct (nth_error (insts s) j) as [ij|]; [|intros H; inversion H; subst s'; cbn; lia].
      destruct (stopc ij); [intros H; inversion H; subst s'; cbn; lia|].
      cbn [f_early faithful]. intros H; inversion H; subst s'; mframe; lia.
    + destruct (xinst s) as [j|]; [|discriminate]. destruct (nth_error (insts s) j) as [ij|]; [|discriminate].
      destruct (donec ij); [|discriminate]. intros H; inversion H; subst s'; mframe; lia.
    + destruct (nth_error (insts s) d) as [ij|]; [|discriminate].
      destruct (donec ij); [|discriminate]. intros H; inversion H; subst s'; mframe; lia.
    + intros H; inversion H; subst s'; mframe; lia.
    + discriminate.
  - intros H. destruct (i_step_frame s k s' H) as (_ & _ & _ & E). rewrite E. lia.
  - unfold i_early_step. destruct (nth_error (insts s) k) as [i|]; [|discriminate].
    destruct (ip i); try discriminate. intros H; inversion H; subst s'; mframe; lia.
Qed.

Theorem accounting p : preachable p -> arrived p = waiting p + length (holders (base p)).
Proof.
  intros (sc & E). subst p. induction sc as [|a t IH] using rev_ind; [reflexivity|].
  rewrite prun_app. cbn. unfold pstep_or_stay. destruct (pstep (prun pinit t) a) as [p'|] eqn:Hs; [|exact IH].
  destruct (pstep_base _ _ _ Hs) as [(_ & E & Ew & Ea)|[(_ & E & Ew & Ea)|(l & _ & Hl & E & Ew & Ea)]].
  - rewrite E, Ew, Ea. lia.
  - apply step_holders_length in E. lia.
  - apply step_holders_length in E. destruct l; [congruence|lia..].
Qed.

(* ---- measure ---- *)
Lemma sum_snoc (A : Type) (f : A -> nat) l x : sum (map f (l ++ [x])) = sum (map f l) + f x.
Proof. induction l as [|a t IH]; cbn; lia. Qed.

Lemma do_measure s s' : step faithful s LDo = Some s' -> measure s' <= measure s + 11.
Proof.
  unfold step. destruct (panicked s) eqn:HP; [discriminate|]. unfold do_step.
  destruct (mu s); [discriminate|]. cbn [f_nonewgen faithful andb].
  rewrite (measure_unfold s HP).
  destruct (xinst s); destruct (xwg s); intros H; inversion H; subst s'; clear H;
    (rewrite measure_unfold by exact HP); cbn [xwg insts holders wgw]; rewrite ?sum_snoc; cbn; lia.
Qed.

Theorem pmeasure_decreases p a p' : pstep p a = Some p' -> a <> PArrive -> pmeasure p' < pmeasure p.
Proof.
  intros Hs Ha. unfold pmeasure.
  destruct (pstep_base _ _ _ Hs) as [(E & _)|[(_ & E & Ew & _)|(l & _ & Hl & E & Ew & _)]]; [contradiction| |].
  - apply do_measure in E. lia.
  - pose proof (measure_decreases faithful _ _ _ E Hl). lia.
Qed.

Fixpoint ptaken (p : pst) (sched : list plabel) : nat :=
  match sched with
  | [] => 0
  | a :: t => match pstep p a with Some p' => S (ptaken p' t) | None => ptaken p t end
  end.

(* once no new caller arrives, every schedule takes at most `pmeasure p` steps *)
Theorem ptaken_bound : forall sched p,
  (forall a, In a sched -> a <> PArrive) -> ptaken p sched + pmeasure (prun p sched) <= pmeasure p.
Proof.
  induction sched as [|a t IH]; intros p Hn; [cbn; lia|].
  assert (Ha : a <> PArrive) by (apply Hn; left; reflexivity).
  assert (Ht : forall a', In a' t -> a' <> PArrive) by (intros a' Hin; apply Hn; right; exact Hin).
  change (prun p (a :: t)) with (prun (pstep_or_stay p a) t). cbn [ptaken]. unfold pstep_or_stay.
  destruct (pstep p a) as [p'|] eqn:Hs.
  - pose proof (pmeasure_decreases p a p' Hs Ha). specialize (IH p' Ht). lia.
  - apply IH. exact Ht.
Qed.

(* ---- nobody is stranded ---- *)
(* a state in which nothing but a new arrival can happen has no parked caller (and the base state is quiescent) *)
Theorem no_waiter_stranded p : preachable p -> (forall a, a <> PArrive -> pstep p a = None) ->
  waiting p = 0 /\ xinst (base p) = None /\ forall l, l <> LDo -> step faithful (base p) l = None.
Proof.
  intros HP HT. pose proof (pbase_reachable p HP) as HR. pose proof (never_panics _ HR) as Hnp.
  assert (HQ : quiescent (base p)).
  { intros l Hl. specialize (HT (PL l) ltac:(discriminate)). unfold pstep in HT. rewrite Hnp in HT.
    destruct l; [contradiction| | | |]; destruct (step faithful (base p) _); [discriminate|reflexivity|discriminate|reflexivity|
      discriminate|reflexivity|discriminate|reflexivity]. }
  destruct (every_instance_stopped _ HR HQ) as (Ex & _ & _ & _ & _ & Hdo).
  split; [|split; [exact Ex|exact HQ]].
  specialize (HT PEnter ltac:(discriminate)). unfold pstep in HT. rewrite Hnp in HT.
  destruct (waiting p); [reflexivity|]. destruct (step faithful (base p) LDo); [discriminate|congruence].
Qed.

(* ---- a parked caller is served ---- *)
Lemma taken_le fl : forall sc s, taken fl s sc <= length sc.
Proof.
  induction sc as [|x r IH]; intros s; cbn; [lia|].
  destruct (step fl s x) as [s'|]; [specialize (IH s')|specialize (IH s)]; lia.
Qed.

(* base-model steps lifted to the variant: the parked callers stay parked *)
Lemma prun_PL : forall sc p, reachable (base p) -> taken faithful (base p) sc = length sc ->
  (forall l, In l sc -> l <> LDo) ->
  base (prun p (map PL sc)) = run faithful (base p) sc /\ waiting (prun p (map PL sc)) = waiting p /\
  arrived (prun p (map PL sc)) = arrived p /\ ptaken p (map PL sc) = length sc.
Proof.
  induction sc as [|l t IH]; intros p HR Htk Hn; [cbn; auto|].
  assert (Hl : l <> LDo) by (apply Hn; left; reflexivity).
  pose proof (never_panics _ HR) as Hnp.
  cbn [taken] in Htk. destruct (step faithful (base p) l) as [s'|] eqn:Hs.
  2:{ exfalso. pose proof (taken_le faithful t (base p)). cbn [length] in Htk. lia. }
  assert (Hp : pstep p (PL l) = Some {| base := s'; waiting := waiting p; arrived := arrived p |}).
  { unfold pstep. rewrite Hnp. destruct l; [contradiction|rewrite Hs; reflexivity..]. }
  cbn [map]. change (prun p (PL l :: map PL t)) with (prun (pstep_or_stay p (PL l)) (map PL t)).
  cbn [ptaken]. unfold pstep_or_stay. rewrite Hp. rewrite run_cons. unfold step_or_stay. rewrite Hs.
  destruct (IH {| base := s'; waiting := waiting p; arrived := arrived p |}) as (A & B & C & D).
  - cbn. eapply reachable_step; eauto.
  - cbn. cbn [length] in Htk. lia.
  - intros l' Hin. apply Hn. right. exact Hin.
  - cbn in A, B, C. cbn [length]. rewrite D. auto.
Qed.

(* A caller parked in Do (waiting p > 0): after at most 7 enabled steps, all of them steps of the watcher / do goroutine
   of the instance that is being stopped (none when the mutex is free), one parked caller gets through: it is handed a
   new outstanding done function, the instance it holds has an open stop channel, and if it had been locked out that
   instance is a FRESH one (every earlier instance has exited with its stop channel closed).  The other parked callers
   stay parked (and are served by the same argument). *)
Theorem waiter_served p n : preachable p -> waiting p = S n ->
  exists sched,
    (forall a, In a sched -> exists k, xinst (base p) = Some k /\ (a = PL (LW k) \/ a = PL (LI k))) /\
    length sched <= 7 /\ ptaken p sched = length sched /\
    (step faithful (base p) LDo <> None -> sched = []) /\
    let p1 := prun p sched in
    waiting p1 = S n /\
    exists p2 g, pstep p1 PEnter = Some p2 /\ waiting p2 = n /\ arrived p2 = arrived p /\
      holders (base p2) = holders (base p1) ++ [{| hgen := g; hdone := false |}] /\
      held_okb (base p2) = true /\
      (step faithful (base p) LDo = None ->
         xinst (base p2) = Some (length (insts (base p1))) /\ insts (base p2) = insts (base p1) ++ [new_inst] /\
         forall j ij, nth_error (insts (base p1)) j = Some ij ->
                      ip ij = IExit /\ wp ij = WExit /\ stopc ij = true /\ donec ij = true).
Proof.
  intros HP Hw. pose proof (pbase_reachable p HP) as HR. pose proof (never_panics _ HR) as Hnp.
  destruct (step faithful (base p) LDo) as [s2|] eqn:Hdo.
  - exists []. split; [intros a []|]. split; [cbn; lia|]. split; [reflexivity|]. split; [reflexivity|].
    cbn zeta. cbn [prun fold_left]. split; [exact Hw|].
    destruct (do_starts_fresh_instance _ s2 HR Hdo) as (k' & ik' & g & _ & _ & _ & _ & Hh & _).
    exists {| base := s2; waiting := n; arrived := arrived p |}, g.
    split; [unfold pstep; rewrite Hnp, Hw, Hdo; reflexivity|]. cbn.
    split; [reflexivity|]. split; [reflexivity|]. split; [exact Hh|].
    split; [apply monitors_hold; eapply reachable_step; eauto|]. intros E; discriminate E.
  - destruct (blocked_do_served _ HR Hdo) as (k & sc & Ex & Hlab & Htk & (_ & Hlen) & Hq & s2 & g & Hs2 & Ex2 & Eins & Hh & Hold).
    assert (Hn : forall l, In l sc -> l <> LDo) by (intros l Hin; destruct (Hlab l Hin) as [E|E]; subst l; discriminate).
    destruct (prun_PL sc p HR Htk Hn) as (A & B & C & D).
    exists (map PL sc). split; [|split; [rewrite map_length; exact Hlen|split; [rewrite map_length; exact D|split; [congruence|]]]].
    { intros a Hin. apply in_map_iff in Hin. destruct Hin as (l & <- & Hin). exists k. split; [exact Ex|].
      destruct (Hlab l Hin) as [E|E]; subst l; auto. }
    cbn zeta. split; [congruence|].
    exists {| base := s2; waiting := n; arrived := arrived p |}, g.
    assert (HR1 : reachable (run faithful (base p) sc)) by (apply reachable_run; exact HR).
    split; [unfold pstep; rewrite A, B, Hw, (never_panics _ HR1), Hs2, C; reflexivity|]. cbn. rewrite A.
    split; [reflexivity|]. split; [reflexivity|]. split; [exact Hh|].
    split; [apply monitors_hold; eapply reachable_step; eauto|]. intros _. auto.
Qed.

(* ---- non-vacuity ---- *)
(* two callers arrive while instance 0 is stopping: both stay parked until the watcher has cleared stop/done; the first
   to get through starts instance 1, the second joins it *)
Example waiters_example :
  let p := prun pinit [PArrive; PEnter; PL (LW 0); PL (LI 0); PL (LDone 0); PL (LW 0); PL (LW 0); PL (LW 0);
                       PArrive; PArrive; PEnter] in
  waiting p = 2 /\ arrived p = 3 /\ pstep p PEnter = None /\ mu (base p) = true /\ map stopc (insts (base p)) = [true] /\
  let p' := prun p [PL (LI 0); PL (LI 0); PL (LI 0); PL (LW 0); PL (LW 0); PEnter; PEnter] in
  waiting p' = 0 /\ length (holders (base p')) = 3 /\ map ip (insts (base p')) = [IExit; IReady] /\
  map stopc (insts (base p')) = [true; false] /\ xinst (base p') = Some 1.
Proof. vm_compute. repeat split; reflexivity. Qed.

Example pmeasure_example : pmeasure pinit = 1 /\ pmeasure (prun pinit [PArrive; PArrive]) = 25.
Proof. vm_compute. auto. Qed.
