(* Proofs about Model/Channel.v: representation invariant, refinement to the cursor specification,
   and the consequences used by Properties/C13.v. *)
From Coq Require Import List ZArith Bool Arith Lia.
From BB.Model Require Import Channel.
Import ListNotations.

Arguments Nat.sub : simpl never.
Arguments Nat.eqb : simpl never.
Arguments Nat.ltb : simpl never.

Definition Inv (s : st) : Prop :=
  rb s <= length (buf s) /\ committed s ++ buf s = taken s /\ taken s ++ src s = sent s.

Lemma Inv_init : Inv init.
Proof. unfold Inv, init; simpl; auto. Qed.

Lemma nth_app_mid (A : Type) (l1 l2 : list A) (n : nat) (d0 : A) :
  nth (length l1 + n) (l1 ++ l2) d0 = nth n l2 d0.
Proof. rewrite app_nth2 by lia. f_equal; lia. Qed.

Ltac t := cbn [fst snd sclosed c d h stream sonce ssrc_closed rb buf committed taken src sent closed once src_closed negb].

(* One concrete step is one specification step on the abstraction, with the same visible result. *)
Lemma step_refines (s : st) (o : op) :
  Inv s ->
  Inv (fst (step s o)) /\ spec_step (abs s) o = (abs (fst (step s o)), snd (step s o)).
Proof.
  intros HI. pose proof HI as (Hrb & Hcb & Hts).
  assert (Hlt : length (taken s) = length (committed s) + length (buf s))
          by (rewrite <- Hcb, app_length; reflexivity).
  assert (Hls : length (sent s) = length (taken s) + length (src s))
          by (rewrite <- Hts, app_length; reflexivity).
  destruct o; unfold step, spec_step.
  - (* OGet *)
    unfold abs at 1 2 3 4 5 6 7 8 9 10 11 12 13 14 15 16 17 18 19 20 21 22 23 24 25 26 27; t.
    destruct (closed s) eqn:Hc; t.
    + split; [exact HI|]. unfold abs; rewrite Hc; reflexivity.
    + destruct (rb s =? 0) eqn:Hr; t.
      * apply Nat.eqb_eq in Hr.
        assert (Hp : pending s = length (buf s)) by (unfold pending; lia).
        replace (length (committed s) + pending s <? length (taken s)) with false
             by (symmetry; apply Nat.ltb_ge; lia).
        destruct (src s) as [|v rest] eqn:Hsrc; t.
        -- cbn [length] in Hls. replace (length (taken s) <? length (sent s)) with false
             by (symmetry; apply Nat.ltb_ge; lia).
           split; [exact HI|]. unfold abs; rewrite Hc; reflexivity.
        -- cbn [length] in Hls. replace (length (taken s) <? length (sent s)) with true
                by (symmetry; apply Nat.ltb_lt; lia).
           split.
           ++ unfold Inv, upd_get_take; t.
              repeat split.
              ** rewrite app_length; lia.
              ** rewrite app_assoc, Hcb; reflexivity.
              ** rewrite <- Hts, <- app_assoc; reflexivity.
           ++ f_equal.
              ** unfold abs, upd_get_take, pending; t.
                 rewrite ?Hc. f_equal; rewrite ?app_length; simpl; lia.
              ** f_equal. rewrite <- Hts.
                 replace (length (taken s)) with (length (taken s) + 0) at 1 by lia.
                 rewrite nth_app_mid. reflexivity.
      * apply Nat.eqb_neq in Hr.
        assert (Hp : pending s < length (buf s)) by (unfold pending; lia).
        replace (length (committed s) + pending s <? length (taken s)) with true
             by (symmetry; apply Nat.ltb_lt; lia).
        split.
        -- unfold Inv, upd_get_replay; t. repeat split; try assumption; lia.
        -- f_equal.
           ++ unfold abs, upd_get_replay, pending; t.
              rewrite ?Hc. f_equal. unfold pending in Hp. lia.
           ++ f_equal. rewrite <- Hts, <- Hcb, <- app_assoc, nth_app_mid, app_nth1 by assumption. reflexivity.
  - t. split; [exact HI|reflexivity].
  - (* OCommit *)
    unfold abs at 1 2 3 4 5 6 7 8 9 10 11 12; t.
    destruct (closed s) eqn:Hc; t.
    + split; [exact HI|]. unfold abs; rewrite Hc; reflexivity.
    + destruct (pending s =? 0) eqn:Hp0; t.
      * split; [exact HI|]. unfold abs; rewrite Hc; reflexivity.
      * apply Nat.eqb_neq in Hp0.
        assert (Hple : pending s <= length (buf s)) by (unfold pending; lia).
        split.
        -- unfold Inv; t. repeat split.
           ++ rewrite skipn_length. unfold pending. lia.
           ++ rewrite <- app_assoc, firstn_skipn. assumption.
           ++ assumption.
        -- f_equal. unfold abs, pending; t.
           rewrite ?Hc. f_equal.
           ++ rewrite app_length, firstn_length. unfold pending in Hple. lia.
           ++ rewrite skipn_length. lia.
  - (* ORollback *)
    unfold abs at 1 2 3 4 5 6 7 8 9; t.
    destruct (pending s =? 0) eqn:Hp0; t.
    + split; [exact HI|reflexivity].
    + apply Nat.eqb_neq in Hp0. split.
      * unfold Inv; t. repeat split; try assumption. unfold pending. lia.
      * f_equal. unfold abs, pending; t.
        f_equal. lia.
  - (* OBuffer *)
    t. split; [exact HI|].
    f_equal. f_equal. unfold abs; t.
    rewrite <- Hts, <- Hcb, <- app_assoc.
    rewrite skipn_app, skipn_all, Nat.sub_diag. cbn [skipn app].
    rewrite app_length.
    replace (length (committed s) + length (buf s) - length (committed s)) with (length (buf s) + 0) by lia.
    rewrite firstn_app_2. cbn [firstn]. rewrite app_nil_r. reflexivity.
  - (* OClose *)
    unfold abs at 1; t.
    destruct (once s) eqn:Ho; t.
    + split; [exact HI|]. unfold abs; rewrite Ho; reflexivity.
    + split; [exact HI|reflexivity].
  - t. split; [exact HI|reflexivity].
  - unfold abs at 1; t.
    destruct (src_closed s) eqn:Hsc; t.
    + split; [exact HI|]. unfold abs; rewrite Hsc; reflexivity.
    + split.
      * unfold Inv; t. repeat split; try assumption.
        rewrite app_assoc, Hts. reflexivity.
      * f_equal. unfold abs, pending; t.
        rewrite ?Hsc. reflexivity.
  - t. split; [exact HI|reflexivity].
  - (* OSrcPeek *)
    t. split; [exact HI|]. f_equal. f_equal. unfold abs; t.
    rewrite <- Hts. rewrite skipn_app, skipn_all, Nat.sub_diag. reflexivity.
Qed.

Lemma run_cons s o rest :
  run s (o :: rest) = (fst (run (fst (step s o)) rest), snd (step s o) :: snd (run (fst (step s o)) rest)).
Proof.
  cbn [run]. destruct (step s o) as [s1 r]. cbn [fst snd]. destruct (run s1 rest) as [s2 rs]. reflexivity.
Qed.

Lemma spec_run_cons a o rest :
  spec_run a (o :: rest) =
  (fst (spec_run (fst (spec_step a o)) rest), snd (spec_step a o) :: snd (spec_run (fst (spec_step a o)) rest)).
Proof.
  cbn [spec_run]. destruct (spec_step a o) as [a1 r]. cbn [fst snd]. destruct (spec_run a1 rest) as [a2 rs]. reflexivity.
Qed.

(* Every operation sequence: the invariant holds throughout and the implementation-level model produces exactly the
   specification's results. *)
Theorem run_refines (ops : list op) (s : st) :
  Inv s ->
  Inv (fst (run s ops)) /\
  spec_run (abs s) ops = (abs (fst (run s ops)), snd (run s ops)).
Proof.
  revert s. induction ops as [|o rest IH]; intros s HI.
  - cbn. auto.
  - destruct (step_refines s o HI) as [HI1 Hst].
    destruct (IH _ HI1) as [HI2 Hrun].
    rewrite run_cons, spec_run_cons. cbn [fst snd].
    rewrite Hst. cbn [fst snd]. rewrite Hrun. cbn [fst snd]. auto.
Qed.

Corollary run_inv ops : Inv (fst (run init ops)).
Proof. apply run_refines, Inv_init. Qed.

Corollary run_refines_init ops :
  spec_run spec_init ops = (abs (fst (run init ops)), snd (run init ops)).
Proof. apply (run_refines ops init Inv_init). Qed.

(* ---- consequences stated on the specification (so on every run of the model) ---- *)

Definition SInv (a : spec) : Prop := c a + d a <= h a /\ h a <= length (stream a).

Lemma abs_SInv s : Inv s -> SInv (abs s).
Proof.
  intros (Hrb & Hcb & Hts). unfold SInv, abs, pending; cbn [c d h stream].
  rewrite <- Hts, <- Hcb, !app_length. lia.
Qed.

(* "the committed values followed by Buffer() are exactly the prefix of the source stream that has been taken" *)
Theorem committed_buffer_is_taken_prefix ops :
  let s := fst (run init ops) in
  committed s ++ buf s = firstn (length (taken s)) (sent s) /\ rb s <= length (buf s).
Proof.
  cbv zeta. destruct (run_inv ops) as (Hrb & Hcb & Hts). split; [|assumption].
  rewrite Hcb, <- Hts.
  replace (length (taken (fst (run init ops)))) with (length (taken (fst (run init ops))) + 0) by lia.
  rewrite firstn_app_2. cbn [firstn]. rewrite app_nil_r. reflexivity.
Qed.

(* A Get attempt that yields a value yields the stream element under the cursor, and advances the cursor by one;
   in particular values are never invented (a closed or empty source gives REmpty, never a zero value). *)
Theorem get_returns_cursor a v a' :
  SInv a -> spec_step a OGet = (a', RVal v) ->
  c a + d a < length (stream a) /\ v = nth (c a + d a) (stream a) 0%Z /\
  c a' = c a /\ d a' = S (d a) /\ stream a' = stream a /\
  ((c a + d a < h a /\ h a' = h a) \/ (c a + d a = h a /\ h a' = S (h a))).
Proof.
  intros [H1 H2]. unfold spec_step.
  destruct (sclosed a); [discriminate|].
  destruct (c a + d a <? h a) eqn:E1.
  - apply Nat.ltb_lt in E1. intros H; inversion H; subst; cbn. repeat split; auto; lia.
  - apply Nat.ltb_ge in E1. destruct (h a <? length (stream a)) eqn:E2; [|discriminate].
    apply Nat.ltb_lt in E2. intros H; inversion H; subst; cbn.
    assert (c a + d a = h a) by lia.
    repeat split; auto; try lia. f_equal; lia.
Qed.

(* Rollback rewinds the cursor to the commit point; Commit moves the commit point to the cursor; both fail and
   change nothing when nothing is pending.  Only Commit changes c. *)
Theorem rollback_rewinds a a' r :
  spec_step a ORollback = (a', r) ->
  (d a = 0 /\ r = RErr /\ a' = a) \/ (d a <> 0 /\ r = ROk /\ c a' = c a /\ d a' = 0 /\ h a' = h a /\ stream a' = stream a).
Proof.
  unfold spec_step. destruct (d a =? 0) eqn:E; intros H; inversion H; subst.
  - left. apply Nat.eqb_eq in E. repeat split; auto.
  - right. apply Nat.eqb_neq in E. cbn. repeat split; auto.
Qed.

Theorem commit_advances a a' r :
  spec_step a OCommit = (a', r) ->
  (r = RErr /\ a' = a /\ (sclosed a = true \/ d a = 0)) \/
  (r = ROk /\ sclosed a = false /\ d a <> 0 /\ c a' = c a + d a /\ d a' = 0 /\ h a' = h a /\ stream a' = stream a).
Proof.
  unfold spec_step. destruct (sclosed a) eqn:Ec.
  - intros H; inversion H; subst. left; repeat split; auto.
  - destruct (d a =? 0) eqn:E; intros H; inversion H; subst.
    + left. apply Nat.eqb_eq in E. repeat split; auto.
    + right. apply Nat.eqb_neq in E. cbn. repeat split; auto.
Qed.

(* Once closed (Done is closed only after the context is cancelled, under the mutex), nothing more is taken from the
   source and no Get or Commit succeeds. *)
Theorem nothing_after_closed s o :
  closed s = true ->
  (forall v, o <> OSrcSend v) -> o <> OSrcClose ->
  src (fst (step s o)) = src s /\ taken (fst (step s o)) = taken s /\ closed (fst (step s o)) = true /\
  (o = OGet \/ o = OCommit -> snd (step s o) = RErr).
Proof.
  intros Hc Hns Hnc. destruct o; unfold step; rewrite ?Hc; cbn [fst snd src taken closed];
    try (repeat split; auto; intros [E|E]; try discriminate E; reflexivity).
  all: try (destruct (pending s =? 0); cbn; repeat split; auto; intros [E|E]; discriminate E).
  all: try (destruct (once s); cbn; repeat split; auto; intros [E|E]; discriminate E).
  all: try (exfalso; eapply Hns; reflexivity).
  all: try (exfalso; apply Hnc; reflexivity).
Qed.

(* The sequence of values returned by Get between two commit points: a helper that extracts it from a run. *)
Fixpoint got (rs : list out) : list Z :=
  match rs with
  | RVal v :: rest => v :: got rest
  | _ :: rest => got rest
  | [] => []
  end.

Lemma firstn_skipn_cons (l : list Z) : forall i k, i < length l ->
  nth i l 0%Z :: firstn k (skipn (S i) l) = firstn (S k) (skipn i l).
Proof.
  induction l as [|x l IHl]; intros i k Hlt; cbn [length] in Hlt; [lia|].
  destruct i as [|i].
  - reflexivity.
  - cbn [skipn nth]. apply IHl. lia.
Qed.

(* Get-only runs return consecutive stream elements starting at the cursor: source order, and after a Rollback
   (d = 0, cursor back at c) the replayed values come first, in the same order, before anything new. *)
Theorem gets_are_consecutive (n : nat) (a : spec) :
  SInv a ->
  let '(a', rs) := spec_run a (repeat OGet n) in
  exists k, got rs = firstn k (skipn (c a + d a) (stream a)) /\ d a' = d a + k /\ c a' = c a /\ stream a' = stream a /\ SInv a'.
Proof.
  revert a. induction n as [|n IH]; intros a HI.
  - cbn. exists 0. cbn. repeat split; auto; try lia. apply HI. apply HI.
  - cbn [repeat]. rewrite spec_run_cons.
    destruct (spec_step a OGet) as [a1 r] eqn:Hs. cbn [fst snd].
    destruct r as [v| | | |l].
    + destruct (get_returns_cursor _ _ _ HI Hs) as (Hlt & Hv & Hc1 & Hd1 & Hst1 & Hh1).
      assert (HI1 : SInv a1).
      { destruct HI as [Ha Hb]. unfold SInv. rewrite Hc1, Hd1, Hst1. destruct Hh1 as [[He Hh]|[He Hh]]; rewrite Hh; lia. }
      specialize (IH a1 HI1). destruct (spec_run a1 (repeat OGet n)) as [a2 rs].
      destruct IH as (k & Hg & Hd2 & Hc2 & Hst2 & HI2).
      exists (S k). cbn [got fst snd].
      split.
      { rewrite Hg, Hc1, Hd1, Hst1, Hv. replace (c a + S (d a)) with (S (c a + d a)) by lia.
        apply firstn_skipn_cons. assumption. }
      split; [lia|]. split; [congruence|]. split; [congruence|]. exact HI2.
    + (* REmpty: state unchanged *)
      assert (a1 = a).
      { unfold spec_step in Hs. destruct (sclosed a); [inversion Hs; auto|].
        destruct (c a + d a <? h a); [inversion Hs|]. destruct (h a <? length (stream a)); inversion Hs; auto. }
      subst a1. specialize (IH a HI). destruct (spec_run a (repeat OGet n)) as [a2 rs].
      destruct IH as (k & Hg & Hd2 & Hc2 & Hst2 & HI2). exists k. cbn [got fst snd]. auto.
    + assert (a1 = a).
      { unfold spec_step in Hs. destruct (sclosed a); [inversion Hs; auto|].
        destruct (c a + d a <? h a); [inversion Hs|]. destruct (h a <? length (stream a)); inversion Hs; auto. }
      subst a1. specialize (IH a HI). destruct (spec_run a (repeat OGet n)) as [a2 rs].
      destruct IH as (k & Hg & Hd2 & Hc2 & Hst2 & HI2). exists k. cbn [got fst snd]. auto.
    + exfalso. unfold spec_step in Hs. destruct (sclosed a); [inversion Hs|].
      destruct (c a + d a <? h a); [inversion Hs|]. destruct (h a <? length (stream a)); inversion Hs.
    + exfalso. unfold spec_step in Hs. destruct (sclosed a); [inversion Hs|].
      destruct (c a + d a <? h a); [inversion Hs|]. destruct (h a <? length (stream a)); inversion Hs.
Qed.

(* Non-vacuity: a run with a rollback, a partial re-read, a second rollback and a commit. *)
Example channel_run_example :
  snd (run init [OSrcSend 1; OSrcSend 2; OSrcSend 3; OGet; OGet; ORollback; OGet; ORollback; OGet; OGet; OGet; OCommit;
                 OBuffer; OGet; OClose; OGet; OClose]%Z)
  = [ROk; ROk; ROk; RVal 1; RVal 2; ROk; RVal 1; ROk; RVal 1; RVal 2; RVal 3; ROk; RBuf []; REmpty; ROk; RErr; RErr]%Z.
Proof. vm_compute. reflexivity. Qed.
