(* Facts about the interpreter of Model/GoFrag3.v and the tactics with which Proofs/BufferGen.v runs a translated method
   symbolically:
     - a statement as the list of its top-level statements ([flat3], [exec_list3]) and the two loops under their names;
     - a [readonly] statement changes neither the receiver's state nor the logs (so [pure_call] is sound);
     - fuel: a run that did not run out of fuel gives the same result with any larger fuel. *)
From Coq Require Import List ZArith Bool String Lia.
From BB.Model Require Import GoFrag GoFrag3.
Import ListNotations.
Local Open Scope string_scope.
Local Open Scope Z_scope.

Section Facts.
Variable oe : oenv.
Variable me : menv.
Variable perm : list (nat * Z) -> list (nat * Z).
Variable fuel : nat.

Notation exec3 := (exec3 oe me perm fuel).
Notation eval3 := (eval3 oe me).

Fixpoint flat3 (s : stmt3) : list stmt3 :=
  match s with TSeq a b => flat3 a ++ flat3 b | TSkip => [] | _ => [s] end.

Fixpoint exec_list3 (l : list stmt3) (st : store) (e : env3) (log dfs : list string) : outcome3 :=
  match l with
  | [] => N3 st e log dfs
  | s :: l' => match exec3 s st e log dfs with N3 st' e' log' dfs' => exec_list3 l' st' e' log' dfs' | r => r end
  end.

Lemma exec_list3_app l1 l2 st e log dfs :
  exec_list3 (l1 ++ l2) st e log dfs
  = match exec_list3 l1 st e log dfs with N3 st' e' log' dfs' => exec_list3 l2 st' e' log' dfs' | r => r end.
Proof.
  revert st e log dfs. induction l1 as [|s l1 IH]; intros st e log dfs; [reflexivity|].
  cbn [app exec_list3]. destruct (exec3 s st e log dfs); try reflexivity. apply IH.
Qed.

Lemma exec_list3_cons s l st e log dfs :
  exec_list3 (s :: l) st e log dfs
  = match exec3 s st e log dfs with N3 st' e' log' dfs' => exec_list3 l st' e' log' dfs' | r => r end.
Proof. reflexivity. Qed.

Lemma exec_flat3 s : forall st e log dfs, exec3 s st e log dfs = exec_list3 (flat3 s) st e log dfs.
Proof.
  induction s; intros st0 e0 log0 dfs0;
    try (cbn [flat3 exec_list3]; destruct (GoFrag3.exec3 oe me perm fuel _ st0 e0 log0 dfs0); reflexivity).
  - reflexivity.
  - cbn [flat3]. rewrite exec_list3_app. cbn [GoFrag3.exec3]. rewrite IHs1.
    destruct (exec_list3 (flat3 s1) st0 e0 log0 dfs0); try reflexivity. apply IHs2.
Qed.

Lemma exec3_for c post body st e log dfs :
  exec3 (TFor c post body) st e log dfs = for_loop oe me perm fuel c post body fuel st e log dfs.
Proof.
  cbn [GoFrag3.exec3]. generalize fuel at 3 5 as n. intros n. revert st e log dfs.
  induction n as [|n IH]; intros st e log dfs; [reflexivity|].
  cbn [for_loop]. destruct (eval3 st e c) as [[[z|[|]|l|nn]|x|l|k|er]|]; try reflexivity.
  destruct (exec3 body st e log dfs) as [st1 e1 log1 dfs1| | |]; try reflexivity.
  destruct (exec3 post st1 e1 log1 dfs1); try reflexivity. apply IH.
Qed.

Lemma exec3_rangemap x f body st e log dfs :
  exec3 (TRangeMap x f body) st e log dfs
  = match aget f (s_maps st) with
    | Some om => rangemap_loop oe me perm fuel x body (match om with Some m => perm m | None => [] end) st e log dfs
    | None => Stuck3
    end.
Proof.
  cbn [GoFrag3.exec3]. destruct (aget f (s_maps st)) as [om|]; [|reflexivity].
  generalize (match om with Some m => perm m | None => [] end) as l. intros l. revert st e log dfs.
  induction l as [|[k v] l IH]; intros st e log dfs; [reflexivity|].
  cbn [rangemap_loop]. destruct (exec3 body st (set3 x (W (VInt v)) e) log dfs); try reflexivity. apply IH.
Qed.

(* ---- read-only statements ---- *)

Definition keeps (st : store) (log dfs : list string) (r : outcome3) : Prop :=
  match r with
  | N3 st' _ log' dfs' => st' = st /\ log' = log /\ dfs' = dfs
  | R3 st' _ log' dfs' => st' = st /\ log' = log /\ dfs' = dfs
  | _ => True
  end.

Lemma for_loop_keeps c post body :
  (forall st e log dfs, keeps st log dfs (exec3 body st e log dfs)) ->
  (forall st e log dfs, keeps st log dfs (exec3 post st e log dfs)) ->
  forall n st e log dfs, keeps st log dfs (for_loop oe me perm fuel c post body n st e log dfs).
Proof.
  intros Hb Hp. induction n as [|n IH]; intros st e log dfs; [exact I|].
  cbn [for_loop]. destruct (eval3 st e c) as [[[z|[|]|l|nn]|x|l|k|er]|]; try exact I; [|cbn; auto].
  pose proof (Hb st e log dfs) as K1. destruct (exec3 body st e log dfs) as [st1 e1 log1 dfs1| | |]; try exact K1.
  cbn [keeps] in K1. destruct K1 as (-> & -> & ->).
  pose proof (Hp st e1 log dfs) as K2. destruct (exec3 post st e1 log dfs) as [st2 e2 log2 dfs2| | |]; try exact K2.
  cbn [keeps] in K2. destruct K2 as (-> & -> & ->). apply IH.
Qed.

Lemma rangemap_loop_keeps x body :
  (forall st e log dfs, keeps st log dfs (exec3 body st e log dfs)) ->
  forall l st e log dfs, keeps st log dfs (rangemap_loop oe me perm fuel x body l st e log dfs).
Proof.
  intros Hb. induction l as [|[k v] l IH]; intros st e log dfs; [cbn; auto|].
  cbn [rangemap_loop]. pose proof (Hb st (set3 x (W (VInt v)) e) log dfs) as K1.
  destruct (exec3 body st (set3 x (W (VInt v)) e) log dfs) as [st1 e1 log1 dfs1| | |]; try exact K1.
  cbn [keeps] in K1. destruct K1 as (-> & -> & ->). apply IH.
Qed.

Lemma readonly_keeps s : readonly s = true -> forall st e log dfs, keeps st log dfs (exec3 s st e log dfs).
Proof.
  induction s; cbn [readonly]; intros RO st0 e0 log0 dfs0; try discriminate RO.
  - cbn; auto.
  - cbn [GoFrag3.exec3]. destruct (eval3 st0 e0 e); cbn; auto.
  - cbn [GoFrag3.exec3]. destruct (aget f (s_maps st0)) as [om|]; [|exact I].
    destruct (eval3 st0 e0 k) as [[v|y|l|kk|er]|]; try exact I.
    destruct (mget kk (match om with Some m => m | None => [] end)); cbn; auto.
  - apply andb_true_iff in RO. destruct RO as [R1 R2]. cbn [GoFrag3.exec3].
    pose proof (IHs1 R1 st0 e0 log0 dfs0) as K1. destruct (exec3 s1 st0 e0 log0 dfs0); try exact K1.
    cbn [keeps] in K1. destruct K1 as (-> & -> & ->). apply (IHs2 R2).
  - apply andb_true_iff in RO. destruct RO as [R1 R2]. cbn [GoFrag3.exec3].
    destruct (eval3 st0 e0 c) as [[[z|[|]|l|nn]|y|l|kk|er]|]; try exact I; [apply (IHs1 R1)|apply (IHs2 R2)].
  - apply andb_true_iff in RO. destruct RO as [R1 R2]. rewrite exec3_for.
    apply for_loop_keeps; [apply (IHs2 R2)|apply (IHs1 R1)].
  - rewrite exec3_rangemap. destruct (aget f (s_maps st0)); [|exact I]. apply rangemap_loop_keeps, (IHs RO).
  - cbn [GoFrag3.exec3]. destruct (evals3 oe me st0 e0 es); cbn; auto.
Qed.

(* a method called through [pure_call] leaves the receiver's state alone and has no effect *)
Lemma pure_call_sound f st args v :
  pure_call oe me perm fuel f st args = Some v ->
  run3 oe me perm fuel f st args = Returned3 st [v] [].
Proof.
  unfold pure_call, run3. destruct (readonly (body3 f)) eqn:RO; [|discriminate].
  destruct (bind_params3 (params3 f) args) as [e|]; [|discriminate].
  pose proof (readonly_keeps _ RO st e [] []) as K.
  destruct (exec3 (body3 f) st e [] []) as [st' e' log dfs|st' vs log dfs| |]; try discriminate;
    cbn [keeps] in K; destruct K as (-> & -> & ->); cbn [app].
  destruct vs as [|v0 [|v1 vs]]; intros H; try discriminate H. injection H as ->. reflexivity.
Qed.

End Facts.

(* ---- fuel ---- *)

Definition not_fuel (r : outcome3) : Prop := match r with Fuel3 => False | _ => True end.

Lemma for_loop_fuel_mono oe me perm fa fb c post body :
  (forall st e log dfs, not_fuel (exec3 oe me perm fa body st e log dfs) ->
                        exec3 oe me perm fb body st e log dfs = exec3 oe me perm fa body st e log dfs) ->
  (forall st e log dfs, not_fuel (exec3 oe me perm fa post st e log dfs) ->
                        exec3 oe me perm fb post st e log dfs = exec3 oe me perm fa post st e log dfs) ->
  forall n m st e log dfs, (n <= m)%nat ->
    not_fuel (for_loop oe me perm fa c post body n st e log dfs) ->
    for_loop oe me perm fb c post body m st e log dfs = for_loop oe me perm fa c post body n st e log dfs.
Proof.
  intros Hb Hp. induction n as [|n IH]; intros m st e log dfs Hle NF; [destruct NF|].
  destruct m as [|m]; [lia|]. cbn [for_loop] in *.
  destruct (eval3 oe me st e c) as [[[z|[|]|l|nn]|x|l|k|er]|]; try reflexivity.
  pose proof (Hb st e log dfs) as E1.
  destruct (exec3 oe me perm fa body st e log dfs) as [st1 e1 log1 dfs1| | |] eqn:B; try (rewrite E1; [reflexivity|exact I]);
    [|destruct NF].
  rewrite E1 by exact I.
  pose proof (Hp st1 e1 log1 dfs1) as E2.
  destruct (exec3 oe me perm fa post st1 e1 log1 dfs1) as [st2 e2 log2 dfs2| | |] eqn:P; try (rewrite E2; [reflexivity|exact I]);
    [|destruct NF].
  rewrite E2 by exact I. apply IH; [lia|exact NF].
Qed.

Lemma rangemap_loop_fuel_mono oe me perm fa fb x body :
  (forall st e log dfs, not_fuel (exec3 oe me perm fa body st e log dfs) ->
                        exec3 oe me perm fb body st e log dfs = exec3 oe me perm fa body st e log dfs) ->
  forall l st e log dfs,
    not_fuel (rangemap_loop oe me perm fa x body l st e log dfs) ->
    rangemap_loop oe me perm fb x body l st e log dfs = rangemap_loop oe me perm fa x body l st e log dfs.
Proof.
  intros Hb. induction l as [|[k v] l IH]; intros st e log dfs NF; [reflexivity|].
  cbn [rangemap_loop] in *. pose proof (Hb st (set3 x (W (VInt v)) e) log dfs) as E1.
  destruct (exec3 oe me perm fa body st (set3 x (W (VInt v)) e) log dfs) as [st1 e1 log1 dfs1| | |] eqn:B;
    try (rewrite E1; [reflexivity|exact I]); [|destruct NF].
  rewrite E1 by exact I. apply IH, NF.
Qed.

(* a run that is not out of fuel is the run with any larger fuel: the fuel is a bound on the loops, not part of the meaning *)
Theorem exec3_fuel_mono oe me perm fa fb s : (fa <= fb)%nat ->
  forall st e log dfs, not_fuel (exec3 oe me perm fa s st e log dfs) ->
                       exec3 oe me perm fb s st e log dfs = exec3 oe me perm fa s st e log dfs.
Proof.
  intros Hle. induction s; intros st0 e0 log0 dfs0 NF; try reflexivity.
  - cbn [exec3] in *. pose proof (IHs1 st0 e0 log0 dfs0) as E1.
    destruct (exec3 oe me perm fa s1 st0 e0 log0 dfs0) eqn:A; try (rewrite E1; [reflexivity|exact I]); [|destruct NF].
    rewrite E1 by exact I. apply IHs2, NF.
  - cbn [exec3] in *. destruct (eval3 oe me st0 e0 c) as [[[z|[|]|l|nn]|x|l|k|er]|]; try reflexivity;
      [apply IHs1, NF|apply IHs2, NF].
  - rewrite !exec3_for in *. apply for_loop_fuel_mono; auto.
  - rewrite !exec3_rangemap in *. destruct (aget f (s_maps st0)); [|reflexivity].
    apply rangemap_loop_fuel_mono; auto.
Qed.

Theorem run3_fuel_mono oe me perm fa fb f st args : (fa <= fb)%nat ->
  run3 oe me perm fa f st args <> OutOfFuel ->
  run3 oe me perm fb f st args = run3 oe me perm fa f st args.
Proof.
  intros Hle. unfold run3. destruct (bind_params3 (params3 f) args) as [e|]; [|reflexivity].
  intros NF. rewrite (exec3_fuel_mono oe me perm fa fb (body3 f) Hle); [reflexivity|].
  destruct (exec3 oe me perm fa (body3 f) st e [] []); try exact I. apply NF. reflexivity.
Qed.

(* ---- small facts about the store's helper functions ---- *)

Lemma lset_length {A} (v : A) : forall i l l', lset i v l = Some l' -> List.length l' = List.length l.
Proof.
  induction i as [|i IH]; intros [|h t] l' H; try discriminate H.
  - injection H as <-. reflexivity.
  - cbn [lset] in H. destruct (lset i v t) as [t'|] eqn:E; [|discriminate H]. injection H as <-.
    cbn [List.length]. f_equal. apply IH, E.
Qed.

Lemma lset_some {A} (v : A) : forall i l, (i < List.length l)%nat -> exists l', lset i v l = Some l'.
Proof.
  induction i as [|i IH]; intros [|h t] H; cbn [List.length] in H; try lia.
  - eexists; reflexivity.
  - destruct (IH t ltac:(lia)) as [t' E]. exists (h :: t'). cbn [lset]. rewrite E. reflexivity.
Qed.

(* a store below position n leaves everything from n on alone *)
Lemma lset_skipn {A} (v : A) : forall i l l' n, lset i v l = Some l' -> (i < n)%nat -> skipn n l' = skipn n l.
Proof.
  induction i as [|i IH]; intros [|h t] l' n H Hn; try discriminate H; (destruct n as [|n]; [lia|]).
  - injection H as <-. reflexivity.
  - cbn [lset] in H. destruct (lset i v t) as [t'|] eqn:E; [|discriminate H]. injection H as <-.
    cbn [skipn]. apply (IH t t' n E). lia.
Qed.

(* ---- symbolic execution ---- *)

(* run the interpreter as far as it goes, leaving integer arithmetic, comparisons and list functions alone *)
Ltac go3_eval :=
  cbn -[Z.eqb Z.ltb Z.leb Z.gtb Z.geb Z.add Z.sub Z.mul Z.opp Z.of_nat Z.to_nat nth_error skipn List.length mget mset lset
        exec_list3 for_loop rangemap_loop].

(* decide a comparison from the context if linear arithmetic can, split on it otherwise *)
Ltac go3_cmp_step :=
  match goal with
  | |- context [Z.gtb ?a ?b] => rewrite (Z.gtb_ltb a b)
  | |- context [Z.geb ?a ?b] => rewrite (Z.geb_leb a b)
  | |- context [Z.ltb ?a ?b] =>
      first [ rewrite (proj2 (Z.ltb_lt a b)) by lia | rewrite (proj2 (Z.ltb_ge a b)) by lia | destruct (Z.ltb_spec a b) ]
  | |- context [Z.leb ?a ?b] =>
      first [ rewrite (proj2 (Z.leb_le a b)) by lia | rewrite (proj2 (Z.leb_gt a b)) by lia | destruct (Z.leb_spec a b) ]
  | |- context [Z.eqb ?a ?b] =>
      first [ rewrite (proj2 (Z.eqb_eq a b)) by lia | rewrite (proj2 (Z.eqb_neq a b)) by lia | destruct (Z.eqb_spec a b) ]
  end.
