(* Proofs about Model/Caster.v: the ChanCaster state word (C08, sequential / arithmetical part, and F4).

   add_spec is the FuzzChanCaster_Add oracle of /repo/chancaster_test.go proved for every pair of 32-bit halves
   and every delta; send_begin_spec / send_end_spec characterise the two validations of Send; the sticky_* results
   say exactly how far "every later call panics too" is true of the code (it is not: sticky_refuted). *)
From Coq Require Import List ZArith Lia Bool ZifyBool.
From BB.Model Require Import Caster.
Import ListNotations.
Local Open Scope Z_scope.
Ltac Zify.zify_post_hook ::= Z.div_mod_to_equations.
Ltac consts :=
  change two64 with 18446744073709551616 in *;
  change two32 with 4294967296 in *;
  change maxi with 2147483647 in *.

Lemma lo_addw h l d : 0 <= h < two32 -> 0 <= l < two32 -> 0 <= d <= maxi ->
  lo ((mkword h l + (d * two32 + d)) mod two64) = (l + d) mod two32.
Proof. unfold lo, mkword; consts; intros. lia. Qed.
Lemma hi_addw h l d : 0 <= h < two32 -> 0 <= l < two32 -> 0 <= d <= maxi ->
  hi ((mkword h l + (d * two32 + d)) mod two64) = (h + d + (l + d) / two32) mod two32.
Proof. unfold hi, mkword; consts; intros. lia. Qed.
Lemma lo_subw h l d : 0 <= h < two32 -> 0 <= l < two32 -> 0 <= d <= maxi ->
  lo ((mkword h l - (d * two32 + d)) mod two64) = (l - d) mod two32.
Proof. unfold lo, mkword; consts; intros. lia. Qed.
Lemma hi_subw h l d : 0 <= h < two32 -> 0 <= l < two32 -> 0 <= d <= maxi ->
  hi ((mkword h l - (d * two32 + d)) mod two64) = (h - d + (l - d) / two32) mod two32.
Proof. unfold hi, mkword; consts; intros. lia. Qed.
Lemma hi_mkword h l : 0 <= l < two32 -> hi (mkword h l) = h.
Proof. unfold hi, mkword; consts; intros; lia. Qed.
Lemma lo_mkword h l : 0 <= l < two32 -> lo (mkword h l) = l.
Proof. unfold lo, mkword; consts; intros; lia. Qed.

Definition good (h l delta : Z) : Prop :=
  h <= maxi /\ (l = h \/ (delta <= 0 /\ l = h + maxi)) /\ - maxi <= delta <= maxi /\ 0 <= h + delta <= maxi.

Theorem add_spec h l delta (Hh : 0 <= h < two32) (Hl : 0 <= l < two32) :
  (good h l delta ->
     add (mkword h l) delta
     = (mkword (h + delta) (l + delta), AddRet (h + delta) (if l =? h then 0 else - delta)))
  /\ (~ good h l delta -> snd (add (mkword h l) delta) = AddPanic).
Proof.
  unfold good, add.
  destruct (0 <=? delta) eqn:C0.
  - destruct (delta =? 0) eqn:C1.
    + unfold validate_pos. rewrite hi_mkword, lo_mkword by assumption. unfold u32.
      match goal with |- context [if ?b then _ else _] => destruct b eqn:C2 end; cbn [snd].
      * split; [intros _|intros HG; exfalso; apply HG; revert C2; consts; lia].
        f_equal; [unfold mkword; lia|]. f_equal; [lia|]. destruct (l =? h); lia.
      * split; [intros HG; exfalso; revert C2; consts; lia| reflexivity].
    + destruct (maxi <? delta) eqn:C2.
      * split; [intros HG; exfalso; lia|reflexivity].
      * unfold validate_pos.
        rewrite hi_addw, lo_addw by lia. unfold u32.
        match goal with |- context [if ?b then _ else _] => destruct b eqn:C3 end; cbn [snd].
        -- assert (HG : l = h /\ h + delta <= maxi) by (revert C3; consts; lia).
           split; [intros _|intros HN; exfalso; apply HN; revert C3; consts; lia].
           destruct HG as [-> HG]. rewrite Z.eqb_refl.
           f_equal; [unfold mkword; revert HG; consts; lia|].
           f_equal. revert HG; consts; lia.
        -- split; [intros HG; exfalso; revert C3; consts; lia| reflexivity].
  - destruct (delta <? - maxi) eqn:C1.
    + split; [intros HG; exfalso; lia|reflexivity].
    + unfold validate_neg. rewrite hi_subw, lo_subw by lia. unfold u32.
      match goal with |- context [if ?b then _ else _] => destruct b eqn:C2 end.
      * match goal with |- context [if ?b then _ else _] => destruct b eqn:C3 end.
        -- assert (HG : l = h /\ h <= maxi /\ 0 <= h + delta) by (revert C2 C3; consts; lia).
           split; [intros _|intros HN; exfalso; apply HN; revert C2 C3; consts; lia].
           destruct HG as [-> HG]. rewrite Z.eqb_refl.
           f_equal; [unfold mkword; revert HG; consts; lia|].
           f_equal. revert HG; consts; lia.
        -- match goal with |- context [if ?b then _ else _] => destruct b eqn:C4 end; cbn [snd].
           ++ assert (HG : l = h + maxi /\ h <= maxi /\ 0 <= h + delta) by (revert C2 C3 C4; consts; lia).
              split; [intros _|intros HN; exfalso; apply HN; revert C2 C3 C4; consts; lia].
              destruct HG as [-> HG].
              replace (h + maxi =? h) with false by (consts; lia).
              f_equal; [unfold mkword; revert HG; consts; lia|].
              f_equal. revert HG; consts; lia.
           ++ split; [intros HG; exfalso; revert C2 C3 C4; consts; lia| reflexivity].
      * split; [intros HG; exfalso; revert C2; consts; lia| reflexivity].
Qed.

(* -------------------------------------------------------------------------- words instead of halves *)

Lemma two32_pos : 0 < two32.  Proof. reflexivity. Qed.
Lemma two64_pos : 0 < two64.  Proof. reflexivity. Qed.
Lemma maxi_pos : 0 < maxi.    Proof. reflexivity. Qed.
Lemma two64_sq : two64 = two32 * two32.  Proof. reflexivity. Qed.
Lemma two32_maxi : two32 = 2 * maxi + 2.  Proof. reflexivity. Qed.

Lemma word_split w : w = mkword (hi w) (lo w).
Proof. unfold mkword, hi, lo; consts; lia. Qed.
Lemma hi_range w : 0 <= w < two64 -> 0 <= hi w < two32.
Proof. unfold hi; consts; lia. Qed.
Lemma lo_range w : 0 <= lo w < two32.
Proof. unfold lo; consts; lia. Qed.
Lemma mkword_range h l : 0 <= h < two32 -> 0 <= l < two32 -> 0 <= mkword h l < two64.
Proof. unfold mkword; consts; lia. Qed.
Lemma mkword_inj h l h' l' : 0 <= l < two32 -> 0 <= l' < two32 -> mkword h l = mkword h' l' -> h = h' /\ l = l'.
Proof. unfold mkword; consts; lia. Qed.

(* The atomic add happens whenever delta is in range, whether or not the call then panics; otherwise the word is
   untouched.  (add_word_range: the result is again a 64-bit word.) *)
Lemma add_word w delta : 0 <= w < two64 ->
  fst (add w delta)
  = if (- maxi <=? delta) && (delta <=? maxi) then (w + delta * (two32 + 1)) mod two64 else w.
Proof.
  intros Hw. unfold add.
  destruct (0 <=? delta) eqn:C0; [destruct (delta =? 0) eqn:C1; [|destruct (maxi <? delta) eqn:C2]
                                 |destruct (delta <? - maxi) eqn:C1]; cbn [fst].
  - replace ((- maxi <=? delta) && (delta <=? maxi)) with true by (consts; lia).
    revert Hw; consts; lia.
  - replace ((- maxi <=? delta) && (delta <=? maxi)) with false by (consts; lia). reflexivity.
  - replace ((- maxi <=? delta) && (delta <=? maxi)) with true by (consts; lia).
    f_equal; consts; lia.
  - replace ((- maxi <=? delta) && (delta <=? maxi)) with false by (consts; lia). reflexivity.
  - replace ((- maxi <=? delta) && (delta <=? maxi)) with true by (consts; lia).
    f_equal; consts; lia.
Qed.

Lemma add_word_range w delta : 0 <= w < two64 -> 0 <= fst (add w delta) < two64.
Proof.
  intros Hw. rewrite add_word by assumption.
  destruct ((- maxi <=? delta) && (delta <=? maxi)); [|assumption].
  apply Z.mod_pos_bound, two64_pos.
Qed.

(* A word is valid when it is one of the two shapes the type's comment allows. *)
Definition valid (w : Z) : Prop := hi w <= maxi /\ (lo w = hi w \/ lo w = hi w + maxi).
Definition armed (w : Z) : Prop := lo w = hi w + maxi.

Definition good_word (w delta : Z) : Prop :=
  hi w <= maxi /\ (lo w = hi w \/ (delta <= 0 /\ lo w = hi w + maxi))
  /\ - maxi <= delta <= maxi /\ 0 <= hi w + delta <= maxi.

(* C08_add_spec, on words: Add returns normally iff the word is valid (and not armed when delta > 0), delta is
   within +-MaxInt32 and the new count is within [0, MaxInt32]; it then returns the new count, performs -delta
   receives iff the word is armed, and leaves both halves moved by delta.  Otherwise it panics. *)
Theorem add_spec_word w delta (Hw : 0 <= w < two64) :
  (good_word w delta ->
     add w delta = (mkword (hi w + delta) (lo w + delta),
                    AddRet (hi w + delta) (if lo w =? hi w then 0 else - delta)))
  /\ (~ good_word w delta -> snd (add w delta) = AddPanic).
Proof.
  pose proof (add_spec (hi w) (lo w) delta (hi_range w Hw) (lo_range w)) as H.
  rewrite <- word_split in H. exact H.
Qed.

Corollary add_invalid_panics w delta : 0 <= w < two64 -> ~ valid w -> snd (add w delta) = AddPanic.
Proof.
  intros Hw Hv. apply (add_spec_word w delta Hw). unfold good_word, valid in *. intros HG. apply Hv. lia.
Qed.

Corollary add_oob_panics w delta : 0 <= w < two64 ->
  delta < - maxi \/ maxi < delta \/ hi w + delta < 0 \/ maxi < hi w + delta ->
  snd (add w delta) = AddPanic.
Proof. intros Hw Hd. apply (add_spec_word w delta Hw). unfold good_word. lia. Qed.

(* A normal return implies the word was and is valid, and pins down everything about the call. *)
Corollary add_ret_inv w delta n a : 0 <= w < two64 -> snd (add w delta) = AddRet n a ->
  valid w /\ valid (fst (add w delta)) /\ - maxi <= delta <= maxi /\
  n = hi w + delta /\ 0 <= n <= maxi /\
  a = (if lo w =? hi w then 0 else - delta) /\
  fst (add w delta) = mkword n (lo w + delta) /\
  (armed w <-> armed (fst (add w delta))).
Proof.
  intros Hw HR.
  destruct (add_spec_word w delta Hw) as [HG HB].
  assert (G : good_word w delta).
  { destruct (Z_le_dec (hi w) maxi) as [A|A]; [|rewrite HB in HR by (unfold good_word; lia); discriminate].
    destruct (Z_le_dec (- maxi) delta) as [B|B]; [|rewrite HB in HR by (unfold good_word; lia); discriminate].
    destruct (Z_le_dec delta maxi) as [C|C]; [|rewrite HB in HR by (unfold good_word; lia); discriminate].
    destruct (Z_le_dec 0 (hi w + delta)) as [D|D]; [|rewrite HB in HR by (unfold good_word; lia); discriminate].
    destruct (Z_le_dec (hi w + delta) maxi) as [E|E]; [|rewrite HB in HR by (unfold good_word; lia); discriminate].
    destruct (Z.eq_dec (lo w) (hi w)) as [F|F]; [unfold good_word; lia|].
    destruct (Z_le_dec delta 0) as [I|I]; [|rewrite HB in HR by (unfold good_word; lia); discriminate].
    destruct (Z.eq_dec (lo w) (hi w + maxi)) as [J|J]; [unfold good_word; lia|].
    rewrite HB in HR by (unfold good_word; lia); discriminate. }
  specialize (HG G). rewrite HG in HR |- *. cbn [fst snd] in *. injection HR as <- <-.
  pose proof (hi_range w Hw) as Hh. pose proof (lo_range w) as Hl.
  unfold good_word in G. unfold valid, armed.
  assert (Hl' : 0 <= lo w + delta < two32) by (revert Hh Hl G; consts; lia).
  rewrite hi_mkword, lo_mkword by assumption.
  repeat split; try lia.
Qed.

(* ---------------------------------------------------------------------------------------------- Send *)

Theorem send_begin_spec w (Hw : 0 <= w < two64) :
  (w = 0 -> send_begin w = (0, SbZero))
  /\ (w <> 0 -> lo w = hi w -> hi w <= maxi ->
      send_begin w = (mkword (hi w) (hi w + maxi), SbArmed (hi w)))
  /\ (w <> 0 -> ~ (lo w = hi w /\ hi w <= maxi) -> send_begin w = (w, SbPanic)).
Proof.
  pose proof (hi_range w Hw) as Hh. pose proof (lo_range w) as Hl.
  unfold send_begin, u32. repeat split.
  - intros ->. reflexivity.
  - intros Hn He Hm. replace (w =? 0) with false by lia.
    replace (negb (lo w =? hi w) || (maxi <? hi w)) with false by lia.
    do 2 f_equal. rewrite He. revert Hh Hm; consts; lia.
  - intros Hn Hb. replace (w =? 0) with false by lia.
    replace (negb (lo w =? hi w) || (maxi <? hi w)) with true by lia. reflexivity.
Qed.

(* What arming produces: a valid armed word with the same count, which is never 0. *)
Corollary send_begin_armed w r w' : 0 <= w < two64 -> send_begin w = (w', SbArmed r) ->
  valid w /\ ~ armed w /\ 0 < r <= maxi /\ r = hi w /\ w' = mkword r (r + maxi) /\ valid w' /\ armed w' /\ hi w' = r.
Proof.
  intros Hw HS. destruct (send_begin_spec w Hw) as (H0 & H1 & H2).
  pose proof (hi_range w Hw) as Hh. pose proof (lo_range w) as Hl.
  destruct (Z.eq_dec w 0) as [E|E]; [rewrite H0 in HS by assumption; discriminate|].
  destruct (Z.eq_dec (lo w) (hi w)) as [A|A]; [|rewrite H2 in HS by tauto; discriminate].
  destruct (Z_le_dec (hi w) maxi) as [B|B]; [|rewrite H2 in HS by tauto; discriminate].
  rewrite H1 in HS by assumption. injection HS as <- <-.
  assert (Hl' : 0 <= hi w + maxi < two32) by (revert Hh B; consts; lia).
  unfold valid, armed. rewrite hi_mkword, lo_mkword by assumption.
  assert (Hnz : hi w <> 0).
  { intros Z0. apply E. rewrite (word_split w), A, Z0. reflexivity. }
  revert B Hnz Hh; consts; intros; repeat split; lia.
Qed.

(* The final validation, for the `receivers` that arming can produce (<= MaxInt32). *)
Theorem send_end_spec r w (Hr : 0 <= r <= maxi) (Hw : 0 <= w < two64) :
  (hi w <= r /\ lo w = hi w + maxi -> send_end r w = (0, SeRet (hi w)))
  /\ (~ (hi w <= r /\ lo w = hi w + maxi) -> send_end r w = (w, SePanic)).
Proof.
  pose proof (hi_range w Hw) as Hh. pose proof (lo_range w) as Hl.
  unfold send_end, u32. split; intros HC.
  - replace ((r <? hi w) || negb (lo w =? (hi w + maxi) mod two32)) with false; [reflexivity|].
    revert Hr Hh Hl HC; consts; lia.
  - replace ((r <? hi w) || negb (lo w =? (hi w + maxi) mod two32)) with true; [reflexivity|].
    revert Hr Hh Hl HC; consts; lia.
Qed.

(* Without r <= MaxInt32 the uint32 addition in the test wraps and a bogus word is accepted; send_begin never
   produces such an r, so this only documents why send_end_spec carries the hypothesis. *)
Example send_end_wrap_needs_bound :
  send_end (two32 - 1) (mkword (maxi + 2) 0) = (0, SeRet (maxi + 2)).
Proof. vm_compute. reflexivity. Qed.

(* load and CAS kept apart: Send returns iff the loaded word validates AND the word is still the loaded one; a
   word that changed in between (which the contract excludes: Proofs/CasterAbs.v, S7 -> S7c) is reported. *)
Theorem send_end_cas_spec r wl wc (Hr : 0 <= r <= maxi) (Hw : 0 <= wl < two64) :
  (hi wl <= r /\ lo wl = hi wl + maxi /\ wc = wl -> send_end_cas r wl wc = (0, SeRet (hi wl)))
  /\ (~ (hi wl <= r /\ lo wl = hi wl + maxi /\ wc = wl) -> send_end_cas r wl wc = (wc, SePanic)).
Proof.
  destruct (send_end_spec r wl Hr Hw) as [HOk HBad]. unfold send_end_cas. split.
  - intros (A & B & ->). rewrite HOk by tauto. cbn [snd]. rewrite Z.eqb_refl. reflexivity.
  - intros HN. destruct (Z_le_dec (hi wl) r) as [A|A]; [|rewrite HBad by tauto; reflexivity].
    destruct (Z.eq_dec (lo wl) (hi wl + maxi)) as [B|B]; [|rewrite HBad by tauto; reflexivity].
    rewrite HOk by tauto. cbn [snd]. destruct (wc =? wl) eqn:E; [|reflexivity].
    exfalso. apply HN. repeat split; try assumption. lia.
Qed.
Lemma send_end_cas_same r w : send_end_cas r w w = send_end r w.
Proof.
  unfold send_end_cas, send_end.
  destruct ((r <? hi w) || negb (lo w =? u32 (hi w + maxi))); cbn [snd]; [reflexivity|].
  rewrite Z.eqb_refl. reflexivity.
Qed.
Example ex_send_end_cas_changed :
  send_end_cas 2 (mkword 2 (2 + maxi)) (mkword 1 (1 + maxi)) = (mkword 1 (1 + maxi), SePanic).
Proof. vm_compute. reflexivity. Qed.

Corollary send_invalid_panics w : 0 <= w < two64 -> ~ valid w -> send_begin w = (w, SbPanic).
Proof.
  intros Hw Hv. destruct (send_begin_spec w Hw) as (_ & _ & H2). apply H2.
  - intros ->. apply Hv. vm_compute. split; [discriminate|left; reflexivity].
  - intros [A B]. apply Hv. unfold valid. lia.
Qed.

(* A whole sequential Send with every counted receiver either receiving (no word change) or deregistering
   with Add(-1) while armed: r - a is returned, the word ends at 0.  (Stated for the word; the concurrent
   version is Proofs/CasterAbs.v.) *)
Lemma add_neg_armed r d : 0 <= d <= r -> r <= maxi ->
  add (mkword r (r + maxi)) (- d) = (mkword (r - d) (r - d + maxi), AddRet (r - d) (if d =? 0 then 0 else d)).
Proof.
  intros Hd Hr.
  assert (Hl : 0 <= r + maxi < two32) by (revert Hd Hr; consts; lia).
  assert (Hh : 0 <= r < two32) by (revert Hd Hr; consts; lia).
  destruct (add_spec r (r + maxi) (- d) Hh Hl) as [HG _].
  rewrite HG by (unfold good; revert Hd Hr; consts; lia).
  replace (r + maxi =? r) with false by (consts; lia).
  replace (r + - d) with (r - d) by lia. replace (r + maxi + - d) with (r - d + maxi) by lia.
  replace (- - d) with d by lia.
  destruct (d =? 0) eqn:E; [|reflexivity]. replace d with 0 by lia. reflexivity.
Qed.

Theorem send_roundtrip r d : 0 < r <= maxi -> 0 <= d <= r ->
  exists w1, send_begin (mkword r r) = (w1, SbArmed r)
          /\ send_end r (fst (add w1 (- d))) = (0, SeRet (r - d)).
Proof.
  intros Hr Hd.
  assert (Hh : 0 <= r < two32) by (revert Hr; consts; lia).
  assert (Hw : 0 <= mkword r r < two64) by (apply mkword_range; assumption).
  destruct (send_begin_spec (mkword r r) Hw) as (_ & H1 & _).
  rewrite hi_mkword, lo_mkword in H1 by assumption.
  eexists; split.
  - apply H1; try lia. unfold mkword. revert Hr; consts; lia.
  - rewrite add_neg_armed by lia. cbn [fst].
    assert (Hl' : 0 <= r - d + maxi < two32) by (revert Hr Hd; consts; lia).
    assert (Hw' : 0 <= mkword (r - d) (r - d + maxi) < two64)
      by (apply mkword_range; [revert Hr Hd; consts; lia | assumption]).
    destruct (send_end_spec r (mkword (r - d) (r - d + maxi)) ltac:(lia) Hw') as [HE _].
    rewrite hi_mkword, lo_mkword in HE by assumption. apply HE. lia.
Qed.

(* --------------------------------------------------------------------------------- F4: stickiness *)

(* "Every later call panics too" is false of the code: Add(-1) on a fresh caster panics and corrupts the word;
   Add(+1) panics as well but, because the atomic add precedes the validation, restores the word to 0; after
   that Add(0) (and Send, on its fast path) succeed as if nothing had happened. *)
Theorem sticky_refuted :
  exists w1 w2 w3, add 0 (-1) = (w1, AddPanic) /\ add w1 1 = (w2, AddPanic) /\ w2 = 0
                   /\ add w2 0 = (w3, AddRet 0 0) /\ w3 = 0 /\ send_begin w3 = (0, SbZero).
Proof. exists (mkword (two32 - 2) (two32 - 1)), 0, 0. vm_compute. repeat split. Qed.

(* Two further ways a panicking Add is not sticky (both benign, both sequential facts about the same code):
   a range panic does not touch the word at all; *)
Example range_panic_not_sticky :
  add 0 (maxi + 1) = (0, AddPanic) /\ add 0 (- maxi - 1) = (0, AddPanic) /\ add 0 0 = (0, AddRet 0 0).
Proof. vm_compute. repeat split. Qed.
(* and a positive Add on an ARMED word panics (receivers != tracker) yet leaves a VALID armed word whose count
   has grown.  Unreachable while Send holds the write lock; reachable only after a Send has itself panicked
   between arming and the final CAS (its deferred Unlock runs, the word stays armed). *)
Example armed_positive_add_panics_but_counts :
  add (mkword 1 (1 + maxi)) 1 = (mkword 2 (2 + maxi), AddPanic)
  /\ add (mkword 2 (2 + maxi)) 0 = (mkword 2 (2 + maxi), AddRet 2 0).
Proof. vm_compute. repeat split. Qed.

(* What IS true.  (1) On an invalid word every Add, whatever its delta, and every Send panic; Send leaves the
   word as it is.  Hence (2) an Add can turn an invalid word into a valid one only by a call that itself
   panics, and (3) along any sequence of calls, all of them panic up to AND INCLUDING the first one after which
   the word is valid again. *)
Theorem sticky_while_invalid w : 0 <= w < two64 -> ~ valid w ->
  (forall delta, snd (add w delta) = AddPanic) /\ send_begin w = (w, SbPanic).
Proof. intros Hw Hv. split; [intros delta; apply add_invalid_panics; assumption | apply send_invalid_panics; assumption]. Qed.

Theorem add_never_silently_repairs w delta : 0 <= w < two64 ->
  ~ valid w -> valid (fst (add w delta)) -> snd (add w delta) = AddPanic.
Proof. intros Hw Hv _. apply add_invalid_panics; assumption. Qed.

Theorem add_success_keeps_valid w delta n a : 0 <= w < two64 ->
  snd (add w delta) = AddRet n a -> valid w /\ valid (fst (add w delta)).
Proof. intros Hw HR. destruct (add_ret_inv w delta n a Hw HR) as (A & B & _). split; assumption. Qed.

Inductive op := OAdd (delta : Z) | OSend.
(* new word, and whether the call panicked.  For OSend only the part of Send up to arming is run, which on an
   invalid word is the whole call. *)
Definition op_step (w : Z) (o : op) : Z * bool :=
  match o with
  | OAdd d => (fst (add w d), match snd (add w d) with AddPanic => true | AddRet _ _ => false end)
  | OSend => (fst (send_begin w), match snd (send_begin w) with SbPanic => true | _ => false end)
  end.
Fixpoint panics_until_valid (w : Z) (ops : list op) : Prop :=
  match ops with
  | [] => True
  | o :: rest => snd (op_step w o) = true
                 /\ (~ valid (fst (op_step w o)) -> panics_until_valid (fst (op_step w o)) rest)
  end.

Theorem sticky_until_compensated_partial ops : forall w, 0 <= w < two64 -> ~ valid w -> panics_until_valid w ops.
Proof.
  induction ops as [|o rest IH]; intros w Hw Hv; [exact I|].
  cbn [panics_until_valid]. split.
  - destruct o as [d|]; cbn [op_step snd].
    + rewrite add_invalid_panics by assumption. reflexivity.
    + rewrite send_invalid_panics by assumption. reflexivity.
  - intros Hv'. apply IH; [|assumption].
    destruct o as [d|]; cbn [op_step fst].
    + apply add_word_range; assumption.
    + rewrite send_invalid_panics by assumption. assumption.
Qed.

(* The same in terms of the running sum of deltas, for an unarmed caster: starting from count x (possibly
   already out of range), after in-range Adds the word is diag of the running sum, and an Add panics iff the
   running sum is outside [0, MaxInt32] before it or after it.  So an unbalanced Add is reported, the call that
   compensates it is reported too, and from then on nothing is. *)
Definition diag (x : Z) : Z := (x * (two32 + 1)) mod two64.

Lemma diag_nonneg x : 0 <= x < two32 -> diag x = mkword x x.
Proof. unfold diag, mkword; consts; lia. Qed.
Lemma diag_neg x : - two32 < x < 0 -> diag x = mkword (two32 + x - 1) (two32 + x).
Proof. unfold diag, mkword; consts; lia. Qed.
Lemma diag_range x : 0 <= diag x < two64.
Proof. apply Z.mod_pos_bound, two64_pos. Qed.

Lemma add_diag x d : - maxi <= d <= maxi -> fst (add (diag x) d) = diag (x + d).
Proof.
  intros Hd. rewrite add_word by apply diag_range.
  replace ((- maxi <=? d) && (d <=? maxi)) with true by lia.
  unfold diag. consts. lia.
Qed.

Lemma valid_diag x : - two32 < x < two32 -> (valid (diag x) <-> 0 <= x <= maxi).
Proof.
  intros Hx. destruct (Z_lt_dec x 0) as [N|N].
  - rewrite diag_neg by lia. unfold valid.
    rewrite hi_mkword, lo_mkword by (revert Hx N; consts; lia). revert Hx N; consts; lia.
  - rewrite diag_nonneg by lia. unfold valid.
    rewrite hi_mkword, lo_mkword by lia. revert Hx N; consts; lia.
Qed.

Definition inr (x : Z) : bool := (0 <=? x) && (x <=? maxi).

Theorem add_diag_spec x d : - two32 < x < two32 -> - maxi <= d <= maxi ->
  add (diag x) d = (diag (x + d), if inr x && inr (x + d) then AddRet (x + d) 0 else AddPanic).
Proof.
  intros Hx Hd. rewrite (surjective_pairing (add (diag x) d)). rewrite add_diag by assumption. f_equal.
  destruct (inr x && inr (x + d)) eqn:E; unfold inr in E.
  - assert (Hh : 0 <= x < two32) by lia.
    rewrite diag_nonneg by assumption.
    destruct (add_spec x x d Hh Hh) as [HG _]. rewrite HG by (unfold good; lia).
    cbn [snd]. rewrite Z.eqb_refl. reflexivity.
  - apply (add_spec_word (diag x) d (diag_range x)). intros G.
    assert (V : valid (diag x)) by (unfold good_word, valid in *; lia).
    apply valid_diag in V; [|assumption].
    rewrite diag_nonneg in G by lia. unfold good_word in G.
    rewrite hi_mkword in G by lia. lia.
Qed.

Fixpoint run_adds (w : Z) (ds : list Z) : list add_out :=
  match ds with [] => [] | d :: r => snd (add w d) :: run_adds (fst (add w d)) r end.
Fixpoint sum_oracle (x : Z) (ds : list Z) : list add_out :=
  match ds with
  | [] => []
  | d :: r => (if inr x && inr (x + d) then AddRet (x + d) 0 else AddPanic) :: sum_oracle (x + d) r
  end.
Fixpoint sums_bounded (x : Z) (ds : list Z) : Prop :=
  match ds with
  | [] => True
  | d :: r => - maxi <= d <= maxi /\ - two32 < x + d < two32 /\ sums_bounded (x + d) r
  end.

Theorem running_sum_spec ds : forall x, - two32 < x < two32 -> sums_bounded x ds ->
  run_adds (diag x) ds = sum_oracle x ds.
Proof.
  induction ds as [|d r IH]; intros x Hx HB; [reflexivity|].
  destruct HB as (Hd & Hx' & HB). cbn [run_adds sum_oracle].
  rewrite add_diag_spec by assumption. cbn [fst snd]. f_equal. apply IH; assumption.
Qed.

Example running_sum_F4 : run_adds 0 [-1; 1; 0; 1; -1] = [AddPanic; AddPanic; AddRet 0 0; AddRet 1 0; AddRet 0 0].
Proof. vm_compute. reflexivity. Qed.
Example running_sum_F4_oracle :
  sum_oracle 0 [-1; 1; 0; 1; -1] = [AddPanic; AddPanic; AddRet 0 0; AddRet 1 0; AddRet 0 0] /\ diag 0 = 0.
Proof. vm_compute. split; reflexivity. Qed.
Example sticky_partial_nonvacuous :
  ~ valid (fst (add 0 (-1))) /\ panics_until_valid (fst (add 0 (-1))) [OSend; OAdd 0; OAdd (-1); OAdd 2; OAdd 0].
Proof.
  split.
  - vm_compute. intros [H _]. apply H. reflexivity.
  - apply sticky_until_compensated_partial.
    + apply add_word_range. vm_compute. split; [discriminate|reflexivity].
    + vm_compute. intros [H _]. apply H. reflexivity.
Qed.

(* --------------------------------------------------- boundary words (the seeds of FuzzChanCaster_Add) *)

Definition MaxU32 : Z := two32 - 1.
Example ex_00_0 : add (mkword 0 0) 0 = (0, AddRet 0 0).                          Proof. vm_compute. reflexivity. Qed.
Example ex_00_1 : add (mkword 0 0) 1 = (mkword 1 1, AddRet 1 0).                 Proof. vm_compute. reflexivity. Qed.
Example ex_00_m1 : snd (add (mkword 0 0) (-1)) = AddPanic.                       Proof. vm_compute. reflexivity. Qed.
Example ex_00_max : add (mkword 0 0) maxi = (mkword maxi maxi, AddRet maxi 0).   Proof. vm_compute. reflexivity. Qed.
Example ex_00_max1 : add (mkword 0 0) (maxi + 1) = (0, AddPanic).                Proof. vm_compute. reflexivity. Qed.
Example ex_mm_0 : add (mkword maxi maxi) 0 = (mkword maxi maxi, AddRet maxi 0).  Proof. vm_compute. reflexivity. Qed.
Example ex_mm_1 : snd (add (mkword maxi maxi) 1) = AddPanic.                     Proof. vm_compute. reflexivity. Qed.
Example ex_m2m_0 : add (mkword maxi (2 * maxi)) 0 = (mkword maxi (2 * maxi), AddRet maxi 0).
Proof. vm_compute. reflexivity. Qed.
Example ex_0m_0 : add (mkword 0 maxi) 0 = (mkword 0 maxi, AddRet 0 0).           Proof. vm_compute. reflexivity. Qed.
Example ex_10_0 : snd (add (mkword 1 0) 0) = AddPanic.                           Proof. vm_compute. reflexivity. Qed.
Example ex_1m_0 : snd (add (mkword 1 maxi) 0) = AddPanic.                        Proof. vm_compute. reflexivity. Qed.
Example ex_11_m1 : add (mkword 1 1) (-1) = (0, AddRet 0 0).                      Proof. vm_compute. reflexivity. Qed.
Example ex_1a_m1 : add (mkword 1 (maxi + 1)) (-1) = (mkword 0 maxi, AddRet 0 1). Proof. vm_compute. reflexivity. Qed.
Example ex_1a_m2 : snd (add (mkword 1 (maxi + 1)) (-2)) = AddPanic.              Proof. vm_compute. reflexivity. Qed.
Example ex_ma_big : add (mkword maxi (2 * maxi)) (-10000) = (mkword (maxi - 10000) (2 * maxi - 10000), AddRet (maxi - 10000) 10000).
Proof. vm_compute. reflexivity. Qed.
Example ex_99a_m99 : add (mkword 99 (maxi + 99)) (-99) = (mkword 0 maxi, AddRet 0 99).  Proof. vm_compute. reflexivity. Qed.
Example ex_99a_m100 : snd (add (mkword 99 (maxi + 99)) (-100)) = AddPanic.       Proof. vm_compute. reflexivity. Qed.
Example ex_mm_mmax : add (mkword maxi maxi) (- maxi) = (0, AddRet 0 0).          Proof. vm_compute. reflexivity. Qed.
Example ex_mm_mmax1 : add (mkword maxi maxi) (- maxi - 1) = (mkword maxi maxi, AddPanic).  Proof. vm_compute. reflexivity. Qed.
Example ex_uu_0 : snd (add (mkword MaxU32 MaxU32) 0) = AddPanic.                 Proof. vm_compute. reflexivity. Qed.
Example ex_uu_1 : add (mkword MaxU32 MaxU32) 1 = (mkword 1 0, AddPanic). (* lo carries into hi *)                 Proof. vm_compute. reflexivity. Qed.
Example ex_m1_armed_m1 : snd (add (mkword (maxi + 1) (2 * maxi + 1)) (-1)) = AddPanic.  Proof. vm_compute. reflexivity. Qed.
Example ex_minint : add (mkword 5 5) (- 2 ^ 63) = (mkword 5 5, AddPanic).        Proof. vm_compute. reflexivity. Qed.
Example ex_send_begin_1 : send_begin (mkword 1 1) = (mkword 1 (1 + maxi), SbArmed 1).   Proof. vm_compute. reflexivity. Qed.
Example ex_send_begin_max : send_begin (mkword maxi maxi) = (mkword maxi (2 * maxi), SbArmed maxi).
Proof. vm_compute. reflexivity. Qed.
Example ex_send_begin_armed : send_begin (mkword 1 (1 + maxi)) = (mkword 1 (1 + maxi), SbPanic).
Proof. vm_compute. reflexivity. Qed.
Example ex_send_begin_big : send_begin (mkword (maxi + 1) (maxi + 1)) = (mkword (maxi + 1) (maxi + 1), SbPanic).
Proof. vm_compute. reflexivity. Qed.
Example ex_send_end_ok : send_end 3 (mkword 2 (2 + maxi)) = (0, SeRet 2).         Proof. vm_compute. reflexivity. Qed.
Example ex_send_end_grew : send_end 3 (mkword 4 (4 + maxi)) = (mkword 4 (4 + maxi), SePanic).  Proof. vm_compute. reflexivity. Qed.
Example ex_send_end_unarmed : send_end 3 (mkword 2 2) = (mkword 2 2, SePanic).    Proof. vm_compute. reflexivity. Qed.
(* add_spec's hypotheses are satisfiable in each of its three regimes *)
Example ex_good_idle : good 3 3 2.                     Proof. unfold good; consts; lia. Qed.
Example ex_good_armed : good 3 (3 + maxi) (-2).        Proof. unfold good; consts; lia. Qed.
Example ex_not_good_armed_pos : ~ good 3 (3 + maxi) 1. Proof. unfold good; consts; lia. Qed.

Print Assumptions add_spec.
Print Assumptions add_spec_word.
Print Assumptions add_ret_inv.
Print Assumptions send_begin_spec.
Print Assumptions send_end_spec.
Print Assumptions send_end_cas_spec.
Print Assumptions send_roundtrip.
Print Assumptions sticky_refuted.
Print Assumptions sticky_while_invalid.
Print Assumptions sticky_until_compensated_partial.
Print Assumptions add_diag_spec.
Print Assumptions running_sum_spec.
