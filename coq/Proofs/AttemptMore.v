(* C20, the clause "after cancellation at most one further tick is forwarded, so a receiver can obtain at most two more
   values", stated over the OBSERVABLE lists [sent] / [recvd] (every value ever sent on / received from the channel)
   instead of the ghost counters [sac] / [rac]: compare the lists right before the cancellation with the lists at any
   later point.  The counters are only used inside the proof (once the context is cancelled they count exactly the
   growth of the lists). *)
From Coq Require Import List Arith Lia Bool.
From BB Require Import Model.Attempt Proofs.Attempt.
Import ListNotations.

Arguments Nat.sub : simpl never.
Arguments Nat.ltb : simpl never.
Arguments Nat.leb : simpl never.
Arguments Nat.eqb : simpl never.

Ltac finA :=
  cbv beta iota;
  cbn [cpc gpc chanq closed cancelled i tmp tickbuf armed now sent recvd rclosed sac rac andb negb
       set_cpc set_gpc set_closed set_cancelled set_i set_armed set_rclosed do_tick take_tick do_send do_recv];
  rewrite ?app_length; cbn [length]; repeat split; try reflexivity; try lia.

(* from a cancelled state, every step of every variant: the context stays cancelled, and [sac] / [rac] grow exactly as
   [sent] / [recvd] do *)
Lemma step_counts c s l s' o : step c s l = Some (s', o) -> cancelled s = true ->
  cancelled s' = true /\
  length (sent s') + sac s = length (sent s) + sac s' /\
  length (recvd s') + rac s = length (recvd s) + rac s'.
Proof.
  intros Hs Hc.
  assert (Hp : post c (fun s' => cancelled s' = true /\
                                 length (sent s') + sac s = length (sent s) + sac s' /\
                                 length (recvd s') + rac s = length (recvd s) + rac s') (step c s l));
    [|rewrite Hs in Hp; exact Hp]. clear Hs s' o.
  destruct s as [cpc0 gpc0 q cl ca i0 tmp0 tb ar nw se re rc sa ra]. cbn [cancelled] in Hc. subst ca.
  destruct l; stp.
  - (* LCall *)
    destruct cpc0; cbv beta iota; try exact I.
    + finA.
    + destruct (length q <? cap c); [|exact I]. finA.
    + destruct (count c - 1 =? 0); [destruct (v_noclose1 c)|]; finA.
  - (* LProd *)
    destruct gpc0; cbv beta iota; try exact I.
    + finA.
    + destruct (i0 <? count c - 1); finA.
    + destruct tb as [t|]; try destruct prefer_done; finA.
    + destruct (v_norecheck c); finA.
    + destruct (length q <? cap c); [|destruct (v_blocksend c); [exact I|destruct (v_countdrop c)]]; finA.
    + finA.
    + finA.
  - (* LTick *)
    destruct ar; [|exact I]. finA.
  - (* LCancel *)
    exact I.
  - (* LRecv *)
    destruct cpc0; try exact I. destruct rc; try exact I.
    destruct q as [|v rest]; [destruct cl; [|exact I]|]; finA.
Qed.

Lemma run_counts c : forall sched s, cancelled s = true ->
  cancelled (run c s sched) = true /\
  length (sent (run c s sched)) + sac s = length (sent s) + sac (run c s sched) /\
  length (recvd (run c s sched)) + rac s = length (recvd s) + rac (run c s sched).
Proof.
  induction sched as [|l r IH]; intros s Hc; cbn [run]; [repeat split; auto|].
  unfold step1. destruct (step c s l) as [[s' o]|] eqn:E; [|apply IH; exact Hc].
  destruct (step_counts c s l s' o E Hc) as (Hc' & Hs & Hr).
  destruct (IH s' Hc') as (H1 & H2 & H3). repeat split; auto; lia.
Qed.

(* the cancel step itself touches neither list nor counter *)
Lemma cancel_step_keeps c s :
  let sc := step1 c s LCancel in
  cancelled sc = true /\ sent sc = sent s /\ recvd sc = recvd s /\ sac sc = sac s /\ rac sc = rac s /\ chanq sc = chanq s.
Proof.
  cbv zeta. unfold step1. cbn [step]. destruct (cancelled s) eqn:Hc.
  - repeat split; auto.
  - destruct s; cbn in *. repeat split; auto.
Qed.

(* For every variant-free configuration, every schedule [pre] before the cancellation and every schedule [post_] after
   it (ticker, producer, receiver in any order; s0 may also be a state BEFORE the call, or one already cancelled):
   at most ONE more value is ever sent, at most TWO more values are ever received, and everything received from then on
   was already sent at the moment of the cancellation, but for that one value. *)
Theorem after_cancel_lists c pre post_ : wf c ->
  let s0 := run c init pre in
  let s1 := run c s0 (LCancel :: post_) in
  length (sent s1) <= length (sent s0) + 1 /\
  length (recvd s1) <= length (recvd s0) + cap c + 1 /\
  length (recvd s1) <= length (sent s0) + 1.
Proof.
  intros Hwf s0 s1.
  destruct (cancel_step_keeps c s0) as (Hc & Hse & Hre & Hsa & Hra & _).
  assert (E1 : s1 = run c (step1 c s0 LCancel) post_) by reflexivity.
  destruct (run_counts c post_ (step1 c s0 LCancel) Hc) as (_ & Hs & Hr). rewrite <- E1, Hse, Hsa in Hs.
  rewrite <- E1, Hre, Hra in Hr.
  assert (E2 : s1 = run c init (pre ++ LCancel :: post_)) by (unfold s1, s0; now rewrite run_app).
  destruct (after_cancel c (pre ++ LCancel :: post_) Hwf) as (Ha & Hb & _). rewrite <- E2 in Ha, Hb.
  destruct (at_most_count c (pre ++ LCancel :: post_) Hwf) as (_ & Hsplit & _). rewrite <- E2 in Hsplit.
  assert (Hlen : length (recvd s1) <= length (sent s1)) by (rewrite Hsplit, app_length; lia).
  repeat split; lia.
Qed.

Lemma f_after_cancel_lists n pre post_ : 1 <= n ->
  let c := faithful n in
  let s0 := run c init pre in
  let s1 := run c s0 (LCancel :: post_) in
  length (sent s1) <= length (sent s0) + 1 /\
  length (recvd s1) <= length (recvd s0) + 2 /\
  length (recvd s1) <= length (sent s0) + 1.
Proof.
  intros Hn c s0 s1.
  destruct (after_cancel_lists (faithful n) pre post_ (wf_faithful n Hn)) as (H1 & H2 & H3).
  change (cap (faithful n)) with 1 in H2. fold c s0 s1 in H1, H2, H3. repeat split; lia.
Qed.

(* both bounds are attained (the schedule of ex_two_after, split at its LCancel): one value buffered and one in flight *)
Example after_cancel_lists_tight :
  let c := faithful 5 in
  let s0 := run c init (call3 ++ [P; P; LTick 1; P; P]) in
  let s1 := run c s0 (LCancel :: [LRecv; P; LRecv; P; P; P; P; LRecv]) in
  sent s0 = [0] /\ recvd s0 = [] /\ sent s1 = [0; 1] /\ recvd s1 = [0; 1] /\ rclosed s1 = true.
Proof. vm_compute. repeat split; reflexivity. Qed.

(* sensitivity, on the lists: without the ctx.Err() re-check after the tick TWO more values are sent and THREE more are
   received after the cancellation (the schedule of norecheck_refuted, split at its LCancel) *)
Lemma norecheck_lists_refuted :
  exists pre post_, let c := variant 1 5 false true false false in
    let s0 := run c init pre in let s1 := run c s0 (LCancel :: post_) in
    length (sent s1) = length (sent s0) + 2 /\ length (recvd s1) = length (recvd s0) + 3.
Proof.
  exists (call3 ++ [P; P; LTick 1; P]), [P; LRecv; P; P; LTick 1; Pt; P; LRecv; P; LRecv].
  vm_compute. auto.
Qed.

Print Assumptions after_cancel_lists.
Print Assumptions f_after_cancel_lists.
Print Assumptions norecheck_lists_refuted.
