(* Proofs about Model/ContextSplit.v (non-atomic cancellation): world-level facts, then ChainAfterFunc, CombineContext,
   ConflatedContext re-proved for the split step functions, and progress (every internal step decreases a measure). *)
From Coq Require Import List Arith Bool Lia.
From BB.Model Require Import Context ContextSplit.
From BB.Proofs Require Import Context.
Import ListNotations.

Arguments Nat.sub : simpl never.
Arguments Nat.eqb : simpl never.
Arguments Nat.ltb : simpl never.
Arguments Nat.leb : simpl never.

(* ------------------------------------------------------------------------------------------------------------ *)
(* A. marking one node                                                                                          *)
(* ------------------------------------------------------------------------------------------------------------ *)
Lemma is_canc_mark1 ns n x : is_canc (updf ns n mark1) x = is_canc ns x || ((x =? n) && (n <? length ns)).
Proof.
  unfold is_canc. rewrite nth_updf. destruct (Nat.eqb_spec x n) as [->|Hne]; [|rewrite orb_false_r; reflexivity].
  destruct (nth_error ns n) as [y|] eqn:E; cbn [option_map].
  - apply nth_error_lt in E. destruct (Nat.ltb_spec n (length ns)); [|lia]. cbn. rewrite orb_true_r. reflexivity.
  - apply nth_error_None in E. destruct (Nat.ltb_spec n (length ns)); [lia|]. reflexivity.
Qed.

Lemma anc_of_mark1 ns n x : anc_of (updf ns n mark1) x = anc_of ns x.
Proof.
  unfold anc_of. rewrite nth_updf. destruct (x =? n); [|reflexivity]. destruct (nth_error ns x); reflexivity.
Qed.

Lemma vals_of_mark1 ns n x : vals_of (updf ns n mark1) x = vals_of ns x.
Proof.
  unfold vals_of. rewrite nth_updf. destruct (x =? n); [|reflexivity]. destruct (nth_error ns x); reflexivity.
Qed.

Lemma par_of_mark1 ns n x : par_of (updf ns n mark1) x = par_of ns x.
Proof. unfold par_of. rewrite anc_of_mark1. reflexivity. Qed.

Lemma mono_mark1 ns n : mono ns (updf ns n mark1).
Proof. intros x H. rewrite is_canc_mark1, H. reflexivity. Qed.

Lemma is_canc_mark1_self ns n : n < length ns -> is_canc (updf ns n mark1) n = true.
Proof.
  intros H. rewrite is_canc_mark1, Nat.eqb_refl. destruct (Nat.ltb_spec n (length ns)); [|lia]. apply orb_true_r.
Qed.

Lemma is_canc_mark1_other ns n x : x <> n -> is_canc (updf ns n mark1) x = is_canc ns x.
Proof. intros H. rewrite is_canc_mark1. destruct (Nat.eqb_spec x n); [contradiction|]. apply orb_false_r. Qed.

Lemma is_canc_mark1_inv ns n x : is_canc (updf ns n mark1) x = true -> is_canc ns x = true \/ (x = n /\ n < length ns).
Proof.
  rewrite is_canc_mark1. intros H. apply orb_prop in H. destruct H as [H|H]; [left; exact H|right].
  apply andb_prop in H. destruct H as [H1 H2]. apply Nat.eqb_eq in H1. apply Nat.ltb_lt in H2. auto.
Qed.

Lemma nodes_s_mark w n : nodes (s_mark w n) = updf (nodes w) n mark1.
Proof. reflexivity. Qed.
Lemma regs_s_mark w n : regs (s_mark w n) = regs w.
Proof. reflexivity. Qed.

(* how the nodes may change in one step of anything: nothing, one node marked, one node appended *)
Definition sevol (ns ns' : list node) : Prop :=
  ns' = ns \/ (exists n, ns' = updf ns n mark1) \/ (exists y, ns' = ns ++ [y]).

Lemma sevol_mono ns ns' : sevol ns ns' -> mono ns ns'.
Proof. intros [->|[(n & ->)|(y & ->)]]; [apply mono_refl|apply mono_mark1|apply mono_snoc]. Qed.

Lemma sevol_static ns ns' : sevol ns ns' ->
  length ns <= length ns' /\ forall x, x < length ns -> vals_of ns' x = vals_of ns x /\ anc_of ns' x = anc_of ns x.
Proof.
  intros [->|[(n & ->)|(y & ->)]].
  - auto.
  - rewrite length_updf. split; [lia|]. intros x _. split; [apply vals_of_mark1|apply anc_of_mark1].
  - rewrite app_length. split; [lia|]. intros x Hx. split; [apply vals_of_snoc_old|apply anc_of_snoc_old]; exact Hx.
Qed.

Lemma VInv_sevol ns ns1 ns2 : VInv ns ns1 -> sevol ns1 ns2 -> VInv ns ns2.
Proof.
  intros [Hl Hv] He. apply sevol_static in He. destruct He as [Hl2 Hs]. split; [lia|].
  intros x Hx. rewrite <- (Hv x Hx). apply Hs. lia.
Qed.

(* ------------------------------------------------------------------------------------------------------------ *)
(* B. inversion of the system steps                                                                             *)
(* ------------------------------------------------------------------------------------------------------------ *)
Lemma s_hook_inv w r w' :
  s_hook w r = Some w' ->
  exists x, nth_error (regs w) r = Some x /\
    ((exists a, rst x = Run (FAct a) /\ w' = w_setrst (s_act w a) r Done) \/
     (exists c r0 a, rst x = Run (FChain c r0 a) /\ is_pending w r0 = true /\
                     w' = w_setrst (w_setrst w r0 Stopped) r (Run (FAct a))) \/
     (exists c r0 a, rst x = Run (FChain c r0 a) /\ is_pending w r0 = false /\
                     w' = w_setrst w r (if negb c then Run (FAct a) else Done)) \/
     (rst x = Run (FStopAll []) /\ w' = w_setrst w r Done) \/
     (exists r0 rs, rst x = Run (FStopAll (r0 :: rs)) /\ w' = w_setrst (fst (w_stop w r0)) r (Run (FStopAll rs)))).
Proof.
  unfold s_hook. destruct (nth_error (regs w) r) as [x|]; [|discriminate].
  intros H. exists x. split; [reflexivity|].
  destruct (rst x) as [| |f|]; try discriminate.
  destruct f as [a|c r0 a|rs].
  - left. exists a. split; [reflexivity|congruence].
  - unfold w_stop in H. destruct (is_pending w r0) eqn:Ep.
    + right; left. exists c, r0, a. split; [reflexivity|]. split; [exact Ep|]. cbn in H. congruence.
    + right; right; left. exists c, r0, a. split; [reflexivity|]. split; [exact Ep|]. cbn in H. congruence.
  - destruct rs as [|r0 rs].
    + right; right; right; left. split; [reflexivity|congruence].
    + right; right; right; right. exists r0, rs. split; [reflexivity|congruence].
Qed.

Lemma s_fire_inv w r w' :
  s_fire w r = Some w' ->
  exists x, nth_error (regs w) r = Some x /\ rst x = Pending /\ is_canc (nodes w) (rnode x) = true /\
            w' = w_setrst w r (Run (rfn x)).
Proof.
  unfold s_fire. destruct (nth_error (regs w) r) as [x|]; [|discriminate]. unfold fire_enabled.
  destruct (rst x) eqn:E; try discriminate. destruct (is_canc (nodes w) (rnode x)) eqn:Ek; [|discriminate].
  intros H. exists x. repeat split; congruence.
Qed.

Lemma s_prop_inv w c w' :
  s_prop w c = Some w' ->
  is_canc (nodes w) c = false /\ (exists p, par_of (nodes w) c = Some p /\ is_canc (nodes w) p = true) /\ w' = s_mark w c.
Proof.
  unfold s_prop, prop_enabled. destruct (is_canc (nodes w) c); cbn [negb andb]; [discriminate|].
  destruct (par_of (nodes w) c) as [p|]; [|discriminate]. destruct (is_canc (nodes w) p) eqn:Ep; [|discriminate].
  intros H. split; [reflexivity|]. split; [eauto|congruence].
Qed.

Inductive sys_case (nenv : nat) (w : world) (w' : world) : slbl -> Prop :=
| SC_hook r : s_hook w r = Some w' -> sys_case nenv w w' (SHook r)
| SC_cancel n : n < nenv -> w' = s_mark w n -> sys_case nenv w w' (SCancel n)
| SC_prop c p : is_canc (nodes w) c = false -> par_of (nodes w) c = Some p -> is_canc (nodes w) p = true ->
                w' = s_mark w c -> sys_case nenv w w' (SPropg c)
| SC_fire r x : nth_error (regs w) r = Some x -> rst x = Pending -> is_canc (nodes w) (rnode x) = true ->
                w' = w_setrst w r (Run (rfn x)) -> sys_case nenv w w' (SFire r).

Lemma s_sys_inv nenv w l w' : s_sys nenv w l = Some w' -> sys_case nenv w w' l.
Proof.
  destruct l as [|r|n| | |c|r]; cbn [s_sys]; try discriminate; intros H.
  - apply SC_hook. exact H.
  - destruct (Nat.ltb_spec n nenv); [|discriminate]. apply SC_cancel; [assumption|congruence].
  - apply s_prop_inv in H. destruct H as (A & (p & B & C) & D). eapply SC_prop; eauto.
  - apply s_fire_inv in H. destruct H as (x & A & B & C & D). eapply SC_fire; eauto.
Qed.

(* what a hook step does to the nodes: nothing, or one mark *)
Lemma nodes_s_hook w r w' :
  s_hook w r = Some w' ->
  nodes w' = nodes w \/
  (exists x n, nth_error (regs w) r = Some x /\ rst x = Run (FAct (ACancel n)) /\ nodes w' = updf (nodes w) n mark1).
Proof.
  intros Hh. apply s_hook_inv in Hh. destruct Hh as (x & Hx & Hc).
  destruct Hc as [(a & Ea & ->)|[(c & r0 & a & Ea & Epend & ->)|[(c & r0 & a & Ea & Epend & ->)|[(Ea & ->)|(r0 & rs & Ea & ->)]]]];
    rewrite ?nodes_setrst; auto.
  - destruct a as [|n|]; cbn [s_act w_act nodes]; auto.
    + right. exists x, n. auto.
    + destruct (wg w); auto.
  - unfold w_stop. destruct (is_pending w r0); cbn [fst]; rewrite ?nodes_setrst; auto.
Qed.

Lemma s_hook_sevol w r w' : s_hook w r = Some w' -> sevol (nodes w) (nodes w').
Proof. intros H. apply nodes_s_hook in H. destruct H as [->|(x & n & _ & _ & ->)]; [left; reflexivity|right; left; eauto]. Qed.

Lemma s_sys_sevol nenv w l w' : s_sys nenv w l = Some w' -> sevol (nodes w) (nodes w').
Proof.
  intros H. apply s_sys_inv in H. destruct H as [r H|n Hn ->|c p _ _ _ ->|r x _ _ _ ->].
  - eapply s_hook_sevol; eauto.
  - right; left. eexists. reflexivity.
  - right; left. eexists. reflexivity.
  - left. reflexivity.
Qed.

(* registrations keep their index, node and function in every system step *)
Lemma regs_s_act w a : regs (s_act w a) = regs w.
Proof. destruct a as [|n|]; cbn [s_act w_act s_mark regs]; try reflexivity. destruct (wg w); reflexivity. Qed.

Lemma regs_stop_static w r0 k x :
  nth_error (regs w) k = Some x ->
  exists x', nth_error (regs (fst (w_stop w r0))) k = Some x' /\ rnode x' = rnode x /\ rfn x' = rfn x.
Proof.
  intros Hx. unfold w_stop. destruct (is_pending w r0); cbn [fst]; [apply setrst_static; exact Hx|eauto].
Qed.

Lemma s_hook_static w r w' k x :
  s_hook w r = Some w' -> nth_error (regs w) k = Some x ->
  exists x', nth_error (regs w') k = Some x' /\ rnode x' = rnode x /\ rfn x' = rfn x.
Proof.
  intros Hh Hx. apply s_hook_inv in Hh. destruct Hh as (y & Hy & Hc).
  destruct Hc as [(a & Ea & ->)|[(c & r0 & a & Ea & Epend & ->)|[(c & r0 & a & Ea & Epend & ->)|[(Ea & ->)|(r0 & rs & Ea & ->)]]]].
  - apply setrst_static. rewrite regs_s_act. exact Hx.
  - destruct (setrst_static w r0 Stopped k x Hx) as (x1 & Hx1 & Hn1 & Hf1).
    destruct (setrst_static _ r (Run (FAct a)) k x1 Hx1) as (x2 & Hx2 & Hn2 & Hf2). exists x2. split; [exact Hx2|]. split; congruence.
  - apply setrst_static. exact Hx.
  - apply setrst_static. exact Hx.
  - destruct (regs_stop_static w r0 k x Hx) as (x1 & Hx1 & Hn1 & Hf1).
    destruct (setrst_static _ r (Run (FStopAll rs)) k x1 Hx1) as (x2 & Hx2 & Hn2 & Hf2). exists x2. split; [exact Hx2|]. split; congruence.
Qed.

Lemma s_sys_static nenv w l w' k x :
  s_sys nenv w l = Some w' -> nth_error (regs w) k = Some x ->
  exists x', nth_error (regs w') k = Some x' /\ rnode x' = rnode x /\ rfn x' = rfn x.
Proof.
  intros H Hx. apply s_sys_inv in H. destruct H as [r H|n Hn ->|c p _ _ _ ->|r y _ _ _ ->].
  - eapply s_hook_static; eauto.
  - exists x. auto.
  - exists x. auto.
  - apply setrst_static. exact Hx.
Qed.

Lemma length_regs_setrst w r st : length (regs (w_setrst w r st)) = length (regs w).
Proof. cbn [w_setrst w_setregs regs]. apply length_updf. Qed.

Lemma s_hook_length w r w' : s_hook w r = Some w' -> length (regs w') = length (regs w).
Proof.
  intros Hh. apply s_hook_inv in Hh. destruct Hh as (y & Hy & Hc).
  destruct Hc as [(a & Ea & ->)|[(c & r0 & a & Ea & Epend & ->)|[(c & r0 & a & Ea & Epend & ->)|[(Ea & ->)|(r0 & rs & Ea & ->)]]]];
    rewrite ?length_regs_setrst, ?regs_s_act; auto.
  unfold w_stop. destruct (is_pending w r0); cbn [fst]; rewrite ?length_regs_setrst; reflexivity.
Qed.

Lemma s_sys_length nenv w l w' : s_sys nenv w l = Some w' -> length (regs w') = length (regs w).
Proof.
  intros H. apply s_sys_inv in H. destruct H as [r H|n Hn ->|c p _ _ _ ->|r y _ _ _ ->];
    [eapply s_hook_length; eauto|reflexivity|reflexivity|apply length_regs_setrst].
Qed.

(* ------------------------------------------------------------------------------------------------------------ *)
(* C. the world invariant of the split model: a fired registration sits on a cancelled node.                    *)
(*    (The atomic model's "a pending registration sits on a live node" is FALSE here.)                          *)
(* ------------------------------------------------------------------------------------------------------------ *)
Definition SWInv (w : world) : Prop :=
  forall i x, nth_error (regs w) i = Some x ->
    rnode x < length (nodes w) /\ (fired x -> is_canc (nodes w) (rnode x) = true).

Lemma SWInv_init ns : SWInv (init_world ns).
Proof. intros i x H. destruct i; discriminate. Qed.

Lemma SWInv_nodes w w' :
  regs w' = regs w -> length (nodes w) <= length (nodes w') -> mono (nodes w) (nodes w') -> SWInv w -> SWInv w'.
Proof.
  intros Hr Hl Hm HW i x Hx. rewrite Hr in Hx. destruct (HW i x Hx) as [A B]. split; [lia|]. intros Hf. apply Hm. apply B. exact Hf.
Qed.

Lemma SWInv_mark w n : SWInv w -> SWInv (s_mark w n).
Proof.
  apply SWInv_nodes; [reflexivity|rewrite nodes_s_mark, length_updf; lia|apply mono_mark1].
Qed.

Lemma SWInv_addnode w y : SWInv w -> SWInv (w_addnode w y).
Proof.
  apply SWInv_nodes; [reflexivity|cbn [w_addnode nodes]; rewrite app_length; lia|apply mono_snoc].
Qed.

Lemma SWInv_setrst w r s :
  SWInv w ->
  (forall x, nth_error (regs w) r = Some x -> s = Stopped \/ s = Pending \/ is_canc (nodes w) (rnode x) = true) ->
  SWInv (w_setrst w r s).
Proof.
  intros HW Hs i x' Hx'. apply regs_setrst_nth in Hx'. destruct Hx' as (x & Hx & [[-> ->]|[Hne ->]]).
  - destruct (HW r x Hx) as (Hlt & Hf). cbn [set_rst rnode rst]. rewrite nodes_setrst.
    split; [exact Hlt|]. destruct (Hs x Hx) as [->|[->|Hk]].
    + intros [[f Hf']|Hf']; discriminate.
    + intros [[f Hf']|Hf']; discriminate.
    + intros _. exact Hk.
  - rewrite nodes_setrst. apply (HW i x Hx).
Qed.

Lemma SWInv_afterfunc w n f : SWInv w -> n < length (nodes w) -> SWInv (w_afterfunc w n f).
Proof.
  intros HW Hn i x' Hx'. cbn [w_afterfunc regs nodes] in *.
  apply nth_error_snoc_inv in Hx'. destruct Hx' as [[_ Hx]|[_ ->]].
  - apply (HW i x' Hx).
  - cbn [rnode rst]. split; [exact Hn|]. destruct (is_canc (nodes w) n) eqn:E; [reflexivity|].
    intros [[f' Hf']|Hf']; discriminate.
Qed.

Lemma SWInv_same w w' : nodes w' = nodes w -> regs w' = regs w -> SWInv w -> SWInv w'.
Proof. intros Hn Hr HW i x Hx. rewrite Hn. rewrite Hr in Hx. apply (HW i x Hx). Qed.

Lemma SWInv_act w a : SWInv w -> SWInv (s_act w a).
Proof.
  intros HW. destruct a as [|n|]; cbn [s_act w_act].
  - eapply SWInv_same; [| |exact HW]; reflexivity.
  - apply SWInv_mark. exact HW.
  - destruct (wg w); (eapply SWInv_same; [| |exact HW]; reflexivity).
Qed.

Lemma SWInv_stop w r0 : SWInv w -> SWInv (fst (w_stop w r0)).
Proof. intros HW. unfold w_stop. destruct (is_pending w r0); cbn [fst]; [apply SWInv_setrst; auto|exact HW]. Qed.

Lemma SWInv_hook w r w' : SWInv w -> s_hook w r = Some w' -> SWInv w'.
Proof.
  intros HW Hh. apply s_hook_inv in Hh. destruct Hh as (x & Hx & Hc).
  destruct (HW r x Hx) as (Hlt & Hf).
  assert (Hk : (exists f, rst x = Run f) ->
               forall w1 s, SWInv w1 -> mono (nodes w) (nodes w1) ->
                 (forall y, nth_error (regs w1) r = Some y -> rnode y = rnode x) -> SWInv (w_setrst w1 r s)).
  { intros Hrun w1 s HW1 Hm Hr. apply SWInv_setrst; [exact HW1|]. intros y Hy. right; right.
    rewrite (Hr y Hy). apply Hm. apply Hf. left. exact Hrun. }
  destruct Hc as [(a & Ea & ->)|[(c & r0 & a & Ea & Epend & ->)|[(c & r0 & a & Ea & Epend & ->)|[(Ea & ->)|(r0 & rs & Ea & ->)]]]].
  - apply Hk; [eauto|apply SWInv_act; exact HW| |].
    + destruct a as [|m|]; cbn [s_act w_act nodes]; [apply mono_refl|apply mono_mark1|destruct (wg w); apply mono_refl].
    + intros y Hy. rewrite regs_s_act in Hy. congruence.
  - apply Hk; [eauto|apply SWInv_setrst; [exact HW|auto]|apply mono_refl|].
    intros y Hy. apply regs_setrst_nth in Hy. destruct Hy as (x0 & Hx0 & [[_ ->]|[_ ->]]); cbn [set_rst rnode]; congruence.
  - apply Hk; [eauto|exact HW|apply mono_refl|]. intros y Hy. congruence.
  - apply Hk; [eauto|exact HW|apply mono_refl|]. intros y Hy. congruence.
  - apply Hk; [eauto|apply SWInv_stop; exact HW| |].
    + unfold w_stop. destruct (is_pending w r0); cbn [fst]; rewrite ?nodes_setrst; apply mono_refl.
    + intros y Hy. destruct (regs_stop_static w r0 r x Hx) as (x' & Hx' & Hn' & _). congruence.
Qed.

Lemma SWInv_sys nenv w l w' : SWInv w -> s_sys nenv w l = Some w' -> SWInv w'.
Proof.
  intros HW H. apply s_sys_inv in H. destruct H as [r H|n Hn ->|c p _ _ _ ->|r y Hy Hp Hk ->].
  - eapply SWInv_hook; eauto.
  - apply SWInv_mark. exact HW.
  - apply SWInv_mark. exact HW.
  - apply SWInv_setrst; [exact HW|]. intros x Hx. right; right. congruence.
Qed.

(* generic reachability for grun *)
Lemma grun_inv {T L : Type} (step : T -> L -> option T) (P : T -> Prop) :
  (forall s l s', P s -> step s l = Some s' -> P s') ->
  forall sched s, P s -> P (grun step s sched).
Proof.
  intros Hstep sched. induction sched as [|l t IH]; intros s Hs; cbn [grun]; [exact Hs|].
  apply IH. unfold gstep_or_stutter. destruct (step s l) as [s'|] eqn:E; [eapply Hstep; eauto|exact Hs].
Qed.

Lemma grun_app {T L : Type} (step : T -> L -> option T) (s : T) (a b : list L) :
  grun step s (a ++ b) = grun step (grun step s a) b.
Proof. revert s. induction a as [|l t IH]; intros s; cbn [grun app]; [reflexivity|apply IH]. Qed.

(* ------------------------------------------------------------------------------------------------------------ *)
(* D. ChainAfterFunc                                                                                            *)
(* ------------------------------------------------------------------------------------------------------------ *)
(* the atomic model's I0/I1 without their "Pending => the node is live" conjuncts *)
Definition J0 (w : world) (other : nat) (r0 : reg) : Prop :=
  match rst r0 with
  | Pending => calls w = 0
  | Run f => f = FAct ACall /\ calls w = 0 /\ is_canc (nodes w) other = true
  | Done => calls w = 1 /\ is_canc (nodes w) other = true
  | Stopped => False
  end.

Definition J1 (w : world) (cx other : nat) (r0 r1 : reg) : Prop :=
  match rst r1 with
  | Pending => J0 w other r0
  | Run f => is_canc (nodes w) cx = true /\
             ((f = FChain true 0 ACall /\ J0 w other r0) \/ (f = FAct ACall /\ rst r0 = Stopped /\ calls w = 0))
  | Done => is_canc (nodes w) cx = true /\
            ((rst r0 = Stopped /\ calls w = 1) \/ (J0 w other r0 /\ rst r0 <> Pending))
  | Stopped => False
  end.

Definition schain_Inv (cx other : nat) (s : cst) : Prop :=
  let w := cw s in
  match cpc s, regs w with
  | 0, [] => calls w = 0
  | 1, [r0] => rnode r0 = other /\ rfn r0 = FAct ACall /\ J0 w other r0
  | 2, [r0; r1] => rnode r0 = other /\ rfn r0 = FAct ACall /\ rnode r1 = cx /\ rfn r1 = FChain true 0 ACall /\
                   J1 w cx other r0 r1
  | _, _ => False
  end.

Lemma J0_mono w w' other r0 :
  calls w' = calls w -> mono (nodes w) (nodes w') -> J0 w other r0 -> J0 w' other r0.
Proof.
  intros Hc Hm H. unfold J0 in *. rewrite Hc. destruct (rst r0); auto.
  - destruct H as (A & B & C). auto.
  - destruct H as (A & B). auto.
Qed.

Lemma J1_mono w w' cx other r0 r1 :
  calls w' = calls w -> mono (nodes w) (nodes w') -> J1 w cx other r0 r1 -> J1 w' cx other r0 r1.
Proof.
  intros Hc Hm H. unfold J1 in *. pose proof (J0_mono w w' other r0 Hc Hm) as H0. rewrite Hc. destruct (rst r1); auto.
  - destruct H as [A [[B C]|B]]; (split; [apply Hm; exact A|]); [left; auto|right; exact B].
  - destruct H as [A [B|[B C]]]; (split; [apply Hm; exact A|]); [left; exact B|right; auto].
Qed.

Lemma schain_step_inv cx other nenv s l s' :
  schain_Inv cx other s -> schain_step true cx other nenv s l = Some s' -> schain_Inv cx other s'.
Proof.
  intros HI Hstep. destruct s as [w pc]. unfold schain_Inv in HI. cbn [cw cpc] in HI.
  assert (Hsys : forall w', s_sys nenv w l = Some w' -> s' = {| cw := w'; cpc := pc |} ->
                 schain_Inv cx other {| cw := w'; cpc := pc |}).
  { intros w' Hs _. clear Hstep. unfold schain_Inv. cbn [cw cpc]. apply s_sys_inv in Hs.
    destruct Hs as [r Eh|n Hn ->|c p _ _ _ ->|r x Hx Hp Hk ->].
    - (* SHook *)
      unfold s_hook in Eh.
      destruct pc as [|[|[|pc]]]; try contradiction.
      + destruct (regs w) as [|? ?] eqn:Er; [|contradiction]. destruct r; discriminate.
      + destruct (regs w) as [|r0 [|? ?]] eqn:Er; try contradiction.
        destruct HI as (Hn0 & Hf0 & H0).
        destruct r as [|r]; [|destruct r; discriminate]. cbn [nth_error] in Eh. unfold J0 in H0.
        destruct (rst r0) as [| |f|] eqn:E0; try discriminate.
        destruct H0 as (-> & Hc & Hk). inversion Eh; subst w'; clear Eh.
        cbn [w_setrst w_setregs s_act w_act regs nodes calls]. rewrite Er. cbn [updf set_rst rnode rfn].
        split; [exact Hn0|]. split; [exact Hf0|]. unfold J0. wsimp. split; [lia|exact Hk].
      + destruct (regs w) as [|r0 [|r1 [|? ?]]] eqn:Er; try contradiction.
        destruct HI as (Hn0 & Hf0 & Hn1 & Hf1 & H1).
        destruct r as [|[|r]]; [| |destruct r; discriminate]; cbn [nth_error] in Eh.
        * (* hook of r0 *)
          destruct (rst r0) as [| |f|] eqn:E0; try discriminate.
          assert (Hf : f = FAct ACall /\ calls w = 0 /\ is_canc (nodes w) other = true /\
                       (rst r1 = Pending \/ rst r1 = Run (FChain true 0 ACall) \/ rst r1 = Done)).
          { unfold J1, J0 in H1. rewrite E0 in H1. destruct (rst r1) as [| |f1|] eqn:E1.
            - destruct H1 as (-> & ? & ?). auto.
            - contradiction.
            - destruct H1 as (_ & [(-> & -> & ? & ?)|(_ & ? & _)]); [auto 6|discriminate].
            - destruct H1 as (_ & [(? & _)|((-> & ? & ?) & _)]); [discriminate|auto 6]. }
          destruct Hf as (-> & Hc & Hk & Hr1). inversion Eh; subst w'; clear Eh.
          cbn [w_setrst w_setregs s_act w_act regs nodes calls]. rewrite Er. cbn [updf set_rst rnode rfn].
          repeat (split; [assumption|]). unfold J1, J0 in *. wsimp. rewrite E0 in H1.
          destruct Hr1 as [E1|[E1|E1]]; rewrite E1 in *.
          -- split; [lia|exact Hk].
          -- split; [tauto|]. left. split; [reflexivity|]. split; [lia|exact Hk].
          -- split; [tauto|]. right. split; [split; [lia|exact Hk]|discriminate].
        * (* hook of r1 *)
          destruct (rst r1) as [| |f|] eqn:E1; try discriminate.
          unfold J1 in H1. rewrite E1 in H1. destruct H1 as (Hk1 & [(-> & H0)|(-> & Hs0 & Hc)]).
          -- (* if stop() ... *)
             unfold w_stop, is_pending in Eh. rewrite Er in Eh. cbn [nth_error] in Eh. unfold J0 in H0.
             destruct (rst r0) eqn:E0; try contradiction; cbn in Eh; inversion Eh; subst w'; clear Eh;
               wsimp; rewrite Er; wsimp;
               repeat (split; [assumption|]); unfold J1, J0; wsimp.
             ++ right. auto.
             ++ rewrite E0. destruct H0 as (-> & Hc & Hk). right. split; [auto|discriminate].
             ++ rewrite E0. right. split; [exact H0|discriminate].
          -- (* f() *)
             inversion Eh; subst w'; clear Eh.
             cbn [w_setrst w_setregs s_act w_act regs nodes calls]. rewrite Er. cbn [updf set_rst rnode rfn].
             repeat (split; [assumption|]). unfold J1. wsimp. left. split; [exact Hs0|lia].
    - (* SCancel: one mark *)
      rewrite regs_s_mark.
      destruct pc as [|[|[|pc]]]; try contradiction.
      + destruct (regs w) as [|? ?]; [exact HI|contradiction].
      + destruct (regs w) as [|r0 [|? ?]]; try contradiction. destruct HI as (A & B & C). repeat (split; [assumption|]).
        eapply J0_mono; [| |exact C]; [reflexivity|apply mono_mark1].
      + destruct (regs w) as [|r0 [|r1 [|? ?]]]; try contradiction. destruct HI as (A & B & C & D & E). repeat (split; [assumption|]).
        eapply J1_mono; [| |exact E]; [reflexivity|apply mono_mark1].
    - (* SPropg: one mark *)
      rewrite regs_s_mark.
      destruct pc as [|[|[|pc]]]; try contradiction.
      + destruct (regs w) as [|? ?]; [exact HI|contradiction].
      + destruct (regs w) as [|r0 [|? ?]]; try contradiction. destruct HI as (A & B & C). repeat (split; [assumption|]).
        eapply J0_mono; [| |exact C]; [reflexivity|apply mono_mark1].
      + destruct (regs w) as [|r0 [|r1 [|? ?]]]; try contradiction. destruct HI as (A & B & C & D & E). repeat (split; [assumption|]).
        eapply J1_mono; [| |exact E]; [reflexivity|apply mono_mark1].
    - (* SFire *)
      destruct pc as [|[|[|pc]]]; try contradiction.
      + destruct (regs w) as [|? ?] eqn:Er; [|contradiction]. destruct r; discriminate.
      + destruct (regs w) as [|r0 [|? ?]] eqn:Er; try contradiction.
        destruct HI as (Hn0 & Hf0 & H0).
        destruct r as [|r]; [|destruct r; discriminate]. cbn [nth_error] in Hx. inversion Hx; subst x; clear Hx.
        wsimp. rewrite Er. wsimp. repeat (split; [assumption|]).
        unfold J0 in *. wsimp. rewrite Hp in H0. rewrite Hn0 in Hk. auto.
      + destruct (regs w) as [|r0 [|r1 [|? ?]]] eqn:Er; try contradiction.
        destruct HI as (Hn0 & Hf0 & Hn1 & Hf1 & H1).
        destruct r as [|[|r]]; [| |destruct r; discriminate]; cbn [nth_error] in Hx; inversion Hx; subst x; clear Hx;
          wsimp; rewrite Er; wsimp; repeat (split; [assumption|]).
        * (* r0 fires *)
          rewrite Hn0 in Hk. unfold J1, J0 in *. wsimp. rewrite Hp in H1.
          destruct (rst r1) as [| |f1|] eqn:E1.
          -- auto.
          -- contradiction.
          -- destruct H1 as (A & [(B & C)|(_ & ? & _)]); [|discriminate]. split; [exact A|]. left. auto.
          -- destruct H1 as (A & [(? & _)|(_ & B)]); [discriminate|congruence].
        * (* r1 fires *)
          rewrite Hn1 in Hk. unfold J1 in *. wsimp. rewrite Hp in H1. split; [exact Hk|]. left. auto. }
  destruct l as [|r|n| | |c|r]; cbn [schain_step cw cpc] in Hstep; try discriminate.
  - (* SMain *)
    clear Hsys. cbn [chain_step cw cpc] in Hstep.
    destruct pc as [|[|[|pc]]]; try discriminate.
    + destruct (regs w) as [|? ?] eqn:Er; [|contradiction].
      inversion Hstep; subst s'; clear Hstep. unfold schain_Inv. cbn [cw cpc w_afterfunc regs]. rewrite Er. cbn [app].
      cbn [rnode rfn]. split; [reflexivity|]. split; [reflexivity|]. unfold J0. cbn [rst nodes calls].
      destruct (is_canc (nodes w) other) eqn:E; auto.
    + destruct (regs w) as [|r0 [|? ?]] eqn:Er; try contradiction.
      destruct HI as (Hn0 & Hf0 & H0).
      inversion Hstep; subst s'; clear Hstep. unfold schain_Inv. cbn [cw cpc w_afterfunc regs]. rewrite Er. cbn [app].
      cbn [rnode rfn]. repeat (split; [first [assumption|reflexivity]|]). unfold J1, J0 in *. cbn [rst nodes calls w_afterfunc].
      destruct (is_canc (nodes w) cx) eqn:E.
      * split; [reflexivity|]. left. split; [reflexivity|exact H0].
      * exact H0.
  - destruct (s_sys nenv w (SHook r)) as [w'|] eqn:E; [|discriminate]. inversion Hstep; subst s'. apply (Hsys w' eq_refl eq_refl).
  - destruct (s_sys nenv w (SCancel n)) as [w'|] eqn:E; [|discriminate]. inversion Hstep; subst s'. apply (Hsys w' eq_refl eq_refl).
  - destruct (s_sys nenv w (SPropg c)) as [w'|] eqn:E; [|discriminate]. inversion Hstep; subst s'. apply (Hsys w' eq_refl eq_refl).
  - destruct (s_sys nenv w (SFire r)) as [w'|] eqn:E; [|discriminate]. inversion Hstep; subst s'. apply (Hsys w' eq_refl eq_refl).
Qed.

Lemma schain_reach cx other nenv ns sched :
  schain_Inv cx other (grun (schain_step true cx other nenv) (chain_init ns) sched).
Proof.
  apply grun_inv with (P := schain_Inv cx other).
  - intros s l s'. apply schain_step_inv.
  - unfold schain_Inv. cbn. reflexivity.
Qed.

(* settled worlds *)
Lemma no_fire_spec w : no_fire w = true ->
  forall i x, nth_error (regs w) i = Some x -> rst x = Pending -> is_canc (nodes w) (rnode x) = false.
Proof.
  unfold no_fire. rewrite forallb_forall. intros H i x Hx Hp. apply nth_error_In in Hx. apply H in Hx.
  unfold fire_enabled in Hx. rewrite Hp in Hx. destruct (is_canc (nodes w) (rnode x)); [discriminate|reflexivity].
Qed.

Lemma par_of_lt ns c p : par_of ns c = Some p -> c < length ns.
Proof.
  unfold par_of, anc_of. destruct (nth_error ns c) eqn:E; [intros _; eapply nth_error_lt; eauto|discriminate].
Qed.

Lemma no_prop_spec w : no_prop w = true ->
  forall c p, par_of (nodes w) c = Some p -> is_canc (nodes w) p = true -> is_canc (nodes w) c = true.
Proof.
  unfold no_prop. rewrite forallb_forall. intros H c p Hp Hk. pose proof (par_of_lt _ _ _ Hp) as Hlt.
  specialize (H c). rewrite in_seq in H. specialize (H ltac:(lia)). unfold prop_enabled in H. rewrite Hp, Hk in H.
  destruct (is_canc (nodes w) c); [reflexivity|discriminate].
Qed.

Lemma settled_spec w : settled w = true -> no_running w = true /\ no_fire w = true /\ no_prop w = true.
Proof. unfold settled. intros H. apply andb_prop in H. destruct H as [H C]. apply andb_prop in H. tauto. Qed.

Theorem schain_never_twice cx other nenv ns sched :
  calls (cw (grun (schain_step true cx other nenv) (chain_init ns) sched)) <= 1.
Proof.
  pose proof (schain_reach cx other nenv ns sched) as HI.
  destruct (grun (schain_step true cx other nenv) (chain_init ns) sched) as [w pc]. unfold schain_Inv in HI. cbn [cw cpc] in *.
  destruct pc as [|[|[|pc]]]; try contradiction.
  - destruct (regs w); [lia|contradiction].
  - destruct (regs w) as [|r0 [|? ?]]; try contradiction. destruct HI as (_ & _ & H0). unfold J0 in H0.
    destruct (rst r0); try contradiction; lia.
  - destruct (regs w) as [|r0 [|r1 [|? ?]]]; try contradiction. destruct HI as (_ & _ & _ & _ & H1). unfold J1, J0 in H1.
    destruct (rst r1); try contradiction; destruct (rst r0); intuition (try discriminate; lia).
Qed.

Theorem schain_never_if_neither cx other nenv ns sched :
  let s := grun (schain_step true cx other nenv) (chain_init ns) sched in
  calls (cw s) <> 0 -> is_canc (nodes (cw s)) cx = true \/ is_canc (nodes (cw s)) other = true.
Proof.
  cbv zeta. pose proof (schain_reach cx other nenv ns sched) as HI.
  destruct (grun (schain_step true cx other nenv) (chain_init ns) sched) as [w pc]. unfold schain_Inv in HI. cbn [cw cpc] in *.
  intros Hc.
  destruct pc as [|[|[|pc]]]; try contradiction.
  - destruct (regs w); [lia|contradiction].
  - destruct (regs w) as [|r0 [|? ?]]; try contradiction. destruct HI as (_ & _ & H0). unfold J0 in H0.
    destruct (rst r0); try contradiction; intuition lia.
  - destruct (regs w) as [|r0 [|r1 [|? ?]]]; try contradiction. destruct HI as (_ & _ & _ & _ & H1). unfold J1, J0 in H1.
    destruct (rst r1); try contradiction; destruct (rst r0); intuition (try discriminate; try lia).
Qed.

(* what a quiescent ChainAfterFunc state looks like *)
Lemma schain_quiescent_inv cx other s :
  schain_Inv cx other s -> schain_quiescent s = true ->
  exists r0 r1, regs (cw s) = [r0; r1] /\ J1 (cw s) cx other r0 r1 /\
    (rst r0 = Pending \/ rst r0 = Stopped \/ rst r0 = Done) /\ (rst r1 = Pending \/ rst r1 = Stopped \/ rst r1 = Done) /\
    (rst r0 = Pending -> is_canc (nodes (cw s)) other = false) /\
    (rst r1 = Pending -> is_canc (nodes (cw s)) cx = false).
Proof.
  intros HI Hq. destruct s as [w pc]. unfold schain_Inv in HI. unfold schain_quiescent in Hq. cbn [cw cpc] in *.
  apply andb_prop in Hq. destruct Hq as [Hpc Hq]. apply Nat.eqb_eq in Hpc. subst pc.
  apply settled_spec in Hq. destruct Hq as (Hnr & Hnf & _).
  destruct (regs w) as [|r0 [|r1 [|? ?]]] eqn:Er; try contradiction. destruct HI as (Hn0 & _ & Hn1 & _ & H1).
  exists r0, r1. split; [reflexivity|]. split; [exact H1|].
  pose proof (no_fire_spec w Hnf) as Hf. rewrite Er in Hf.
  unfold no_running in Hnr. rewrite Er in Hnr. cbn [forallb] in Hnr. unfold running in Hnr.
  split; [destruct (rst r0); auto; discriminate|]. split; [destruct (rst r1); auto; destruct (rst r0); discriminate|].
  split.
  - intros Hp. rewrite <- Hn0. apply (Hf 0 r0 eq_refl Hp).
  - intros Hp. rewrite <- Hn1. apply (Hf 1 r1 eq_refl Hp).
Qed.

Theorem schain_exactly_once cx other nenv ns sched :
  let s := grun (schain_step true cx other nenv) (chain_init ns) sched in
  schain_quiescent s = true ->
  is_canc (nodes (cw s)) cx = true \/ is_canc (nodes (cw s)) other = true ->
  calls (cw s) = 1.
Proof.
  cbv zeta. pose proof (schain_reach cx other nenv ns sched) as HI. intros Hq Hk.
  destruct (schain_quiescent_inv _ _ _ HI Hq) as (r0 & r1 & _ & H1 & Hs0 & Hs1 & Hp0 & Hp1).
  unfold J1, J0 in H1.
  destruct (rst r1) eqn:E1; try contradiction; destruct (rst r0) eqn:E0; try contradiction;
    intuition (try discriminate; try congruence; try lia).
Qed.

Theorem schain_registrations_final cx other nenv ns sched :
  let s := grun (schain_step true cx other nenv) (chain_init ns) sched in
  schain_quiescent s = true -> is_canc (nodes (cw s)) cx = true ->
  forall i x, nth_error (regs (cw s)) i = Some x -> rst x = Stopped \/ rst x = Done.
Proof.
  cbv zeta. pose proof (schain_reach cx other nenv ns sched) as HI. intros Hq Hk.
  destruct (schain_quiescent_inv _ _ _ HI Hq) as (r0 & r1 & Er & H1 & Hs0 & Hs1 & Hp0 & Hp1).
  rewrite Er. unfold J1, J0 in H1.
  intros i x Hx. destruct i as [|[|i]]; cbn in Hx; [| |destruct i; discriminate]; inversion Hx; subst x; clear Hx;
  destruct (rst r1) eqn:E1; try contradiction; destruct (rst r0) eqn:E0; try contradiction;
    intuition (try discriminate; try congruence; try lia).
Qed.

(* stop() can return true on a registration whose context is ALREADY cancelled (impossible in the atomic model):
   both contexts are cancelled, other's registration has not won its once yet, the primary's hook stops it and
   calls f itself: still exactly once *)
Example schain_stop_wins_on_cancelled_context :
  let ns := build_env [ {| eparent := None; ekv := None |}; {| eparent := None; ekv := None |} ] [] in
  let s1 := grun (schain_step true 0 1 2) (chain_init ns) [SMain; SMain; SCancel 1; SCancel 0; SFire 1; SHook 1] in
  let s2 := grun (schain_step true 0 1 2) s1 [SHook 1; SFire 0] in
  is_canc (nodes (cw s1)) 1 = true /\ map rst (regs (cw s1)) = [Stopped; Run (FAct ACall)] /\
  schain_quiescent s2 = true /\ calls (cw s2) = 1.
Proof. vm_compute. repeat split; reflexivity. Qed.

(* parent and child: the child (other) is still live after the parent (ctx) is observed cancelled and its hook has run *)
Example schain_parent_before_child :
  let ns := build_env [ {| eparent := None; ekv := None |}; {| eparent := Some 0; ekv := None |} ] [] in
  let s1 := grun (schain_step true 0 1 2) (chain_init ns) [SMain; SMain; SCancel 0; SFire 1; SHook 1; SHook 1] in
  let s2 := grun (schain_step true 0 1 2) s1 [SPropg 1] in
  is_canc (nodes (cw s1)) 0 = true /\ is_canc (nodes (cw s1)) 1 = false /\ calls (cw s1) = 1 /\
  schain_quiescent s1 = false /\ schain_quiescent s2 = true /\ calls (cw s2) = 1.
Proof. vm_compute. repeat split; reflexivity. Qed.

Theorem schain_noconsult_refuted :
  exists ns sched, calls (cw (grun (schain_step false 0 1 2) (chain_init ns) sched)) = 2.
Proof.
  exists (build_env [ {| eparent := None; ekv := None |}; {| eparent := None; ekv := None |} ] []).
  exists [SMain; SMain; SCancel 0; SCancel 1; SFire 0; SFire 1; SHook 0; SHook 1; SHook 1]. vm_compute. reflexivity.
Qed.

(* ------------------------------------------------------------------------------------------------------------ *)
(* E. progress: every internal step strictly decreases a lexicographic measure                                  *)
(*    (steps left in the library function, work left in goroutines + pending onces + unmarked nodes)            *)
(* ------------------------------------------------------------------------------------------------------------ *)
Definition live1 (x : node) : nat := if canc x then 0 else 1.
Definition unm (ns : list node) : nat := list_sum (map live1 ns).
Definition smu (w : world) : nat := Mw w + unm (nodes w).

Lemma unm_mark1_le ns n : unm (updf ns n mark1) <= unm ns.
Proof.
  unfold unm. destruct (nth_error ns n) as [x|] eqn:E.
  - pose proof (sum_updf live1 mark1 ns n x E) as H. unfold live1 at 4 in H. cbn [mark1 canc] in H. lia.
  - assert (Hid : updf ns n mark1 = ns); [|rewrite Hid; lia].
    clear -E. revert n E. induction ns as [|y t IH]; intros [|n] E; cbn in *; try reflexivity; try discriminate.
    rewrite IH by exact E. reflexivity.
Qed.

Lemma unm_mark1_lt ns n : is_canc ns n = false -> n < length ns -> unm (updf ns n mark1) < unm ns.
Proof.
  intros Hk Hn. unfold unm. destruct (nth_error ns n) as [x|] eqn:E; [|apply nth_error_None in E; lia].
  pose proof (sum_updf live1 mark1 ns n x E) as H. unfold live1 at 4 in H. cbn [mark1 canc] in H.
  unfold is_canc in Hk. rewrite E in Hk. unfold live1 at 2 in H. rewrite Hk in H. lia.
Qed.

Lemma unm_snoc ns y : unm (ns ++ [y]) <= S (unm ns).
Proof. unfold unm. rewrite sum_snoc. unfold live1 at 2. destruct (canc y); lia. Qed.

Lemma Mw_s_mark w n : Mw (s_mark w n) = Mw w.
Proof. reflexivity. Qed.

Lemma unm_s_act w a : unm (nodes (s_act w a)) <= unm (nodes w).
Proof.
  destruct a as [|n|]; cbn [s_act w_act nodes]; [lia|apply unm_mark1_le|destruct (wg w); cbn [nodes]; lia].
Qed.

Lemma Mw_s_act w a : Mw (s_act w a) = Mw w.
Proof. unfold Mw. rewrite regs_s_act. reflexivity. Qed.

Lemma nodes_stop w r0 : nodes (fst (w_stop w r0)) = nodes w.
Proof. unfold w_stop. destruct (is_pending w r0); reflexivity. Qed.

Lemma smu_hook w r w' : s_hook w r = Some w' -> smu w' < smu w.
Proof.
  intros Hh. apply s_hook_inv in Hh. destruct Hh as (x & Hx & Hc). unfold smu.
  destruct Hc as [(a & Ea & ->)|[(c & r0 & a & Ea & Ep & ->)|[(c & r0 & a & Ea & Ep & ->)|[(Ea & ->)|(r0 & rs & Ea & ->)]]]];
    rewrite ?nodes_setrst.
  - assert (Hx1 : nth_error (regs (s_act w a)) r = Some x) by (rewrite regs_s_act; exact Hx).
    pose proof (Mw_setrst _ r Done x Hx1) as H. pose proof (Mw_s_act w a) as H2. pose proof (unm_s_act w a) as H3.
    unfold regm in H at 1 2. cbn [set_rst rst] in H. rewrite Ea in H. cbn [wt] in H. lia.
  - apply is_pending_spec in Ep. destruct Ep as (x0 & Hx0 & Hp0).
    assert (Hne : r <> r0) by (intros ->; congruence).
    pose proof (Mw_setrst w r0 Stopped x0 Hx0) as H1.
    assert (Hx1 : nth_error (regs (w_setrst w r0 Stopped)) r = Some x).
    { rewrite (setrst_fwd w r0 Stopped r x Hx). destruct (Nat.eqb_spec r r0); [contradiction|reflexivity]. }
    pose proof (Mw_setrst _ r (Run (FAct a)) x Hx1) as H2.
    unfold regm in H1 at 2. unfold regm in H2 at 1 2. cbn [set_rst rst] in H1, H2. rewrite Ea in H2. cbn [wt] in H2. lia.
  - pose proof (Mw_setrst w r (if negb c then Run (FAct a) else Done) x Hx) as H.
    unfold regm in H at 1 2. cbn [set_rst rst] in H. rewrite Ea in H. cbn [wt] in H. destruct (negb c); cbn [wt] in H; lia.
  - pose proof (Mw_setrst w r Done x Hx) as H. unfold regm in H at 1 2. cbn [set_rst rst] in H. rewrite Ea in H. cbn [wt length] in H. lia.
  - pose proof (Mw_stop w r0) as H1. rewrite nodes_stop.
    assert (Hx1 : nth_error (regs (fst (w_stop w r0))) r = Some x).
    { unfold w_stop. destruct (is_pending w r0) eqn:Ep; cbn [fst]; [|exact Hx].
      apply is_pending_spec in Ep. destruct Ep as (x0 & Hx0 & Hp0). assert (Hne : r <> r0) by (intros ->; congruence).
      rewrite (setrst_fwd w r0 Stopped r x Hx). destruct (Nat.eqb_spec r r0); [contradiction|reflexivity]. }
    pose proof (Mw_setrst _ r (Run (FStopAll rs)) x Hx1) as H2.
    unfold regm in H2 at 1 2. cbn [set_rst rst] in H2. rewrite Ea in H2. cbn [wt length] in H2. lia.
Qed.

(* every system step except an environment cancel strictly decreases smu; an environment cancel never increases it *)
Lemma smu_sys nenv w l w' :
  s_sys nenv w l = Some w' -> match l with SCancel _ => smu w' <= smu w | _ => smu w' < smu w end.
Proof.
  intros H. apply s_sys_inv in H. destruct H as [r H|n Hn ->|c p Hc Hp Hk ->|r x Hx Hp Hk ->].
  - eapply smu_hook; eauto.
  - unfold smu. rewrite Mw_s_mark, nodes_s_mark. pose proof (unm_mark1_le (nodes w) n). lia.
  - unfold smu. rewrite Mw_s_mark, nodes_s_mark. pose proof (unm_mark1_lt (nodes w) c Hc (par_of_lt _ _ _ Hp)). lia.
  - unfold smu. rewrite nodes_setrst. pose proof (Mw_setrst w r (Run (rfn x)) x Hx) as H.
    unfold regm in H at 1 2. cbn [set_rst rst] in H. rewrite Hp in H. lia.
Qed.

Definition schain_mu (s : cst) : nat * nat := (2 - cpc s, smu (cw s)).

Theorem schain_progress consult cx other nenv s l s' :
  schain_step consult cx other nenv s l = Some s' ->
  match l with SCancel _ | SUser => lexle (schain_mu s') (schain_mu s) | _ => lexlt (schain_mu s') (schain_mu s) end.
Proof.
  intros Hs.
  assert (Hsys : forall w', s_sys nenv (cw s) l = Some w' -> s' = {| cw := w'; cpc := cpc s |} ->
                 match l with SCancel _ | SUser => lexle (schain_mu s') (schain_mu s) | _ => lexlt (schain_mu s') (schain_mu s) end).
  { intros w' H ->. pose proof (smu_sys _ _ _ _ H) as Hm. unfold schain_mu. cbn [cw cpc].
    destruct l; try discriminate; right; cbn [fst snd]; (split; [reflexivity|exact Hm]). }
  destruct l as [|r|n| | |c|r]; cbn [schain_step] in Hs; try discriminate;
    try (destruct (s_sys nenv (cw s) _) as [w'|] eqn:E; [|discriminate]; inversion Hs; subst s'; apply (Hsys w' eq_refl eq_refl)).
  clear Hsys. left. cbn [chain_step] in Hs.
  destruct (cpc s) as [|[|pc]] eqn:E; try discriminate; inversion Hs; subst s'; unfold schain_mu; cbn [fst cpc]; rewrite E; lia.
Qed.

(* ------------------------------------------------------------------------------------------------------------ *)
(* F. quiescence is reached: generic argument                                                                   *)
(* ------------------------------------------------------------------------------------------------------------ *)
Lemma lex_induction {T : Type} (mu : T -> nat * nat) (P : T -> Prop) :
  (forall s, (forall s', lexlt (mu s') (mu s) -> P s') -> P s) -> forall s, P s.
Proof.
  intros Hstep.
  assert (H : forall a b s, mu s = (a, b) -> P s).
  { induction a as [a IHa] using lt_wf_ind. induction b as [b IHb] using lt_wf_ind. intros s Hs.
    apply Hstep. intros s' Hlt. destruct (mu s') as [a' b'] eqn:E'. rewrite Hs in Hlt. unfold lexlt in Hlt. cbn [fst snd] in Hlt.
    destruct Hlt as [Hlt|[-> Hlt]].
    - eapply IHa; eauto.
    - eapply IHb; eauto. }
  intros s. destruct (mu s) as [a b] eqn:E. eapply H; eauto.
Qed.

Lemma gfirst_enabled_some {T L : Type} (step : T -> L -> option T) s cs s' :
  gfirst_enabled step s cs = Some s' -> exists l, In l cs /\ step s l = Some s'.
Proof.
  induction cs as [|l t IH]; cbn [gfirst_enabled]; [discriminate|].
  destruct (step s l) as [s1|] eqn:E.
  - intros H. inversion H; subst s1. exists l. split; [left; reflexivity|exact E].
  - intros H. destruct (IH H) as (l' & Hin & Hl'). exists l'. split; [right; exact Hin|exact Hl'].
Qed.

Lemma gfirst_enabled_none {T L : Type} (step : T -> L -> option T) s cs :
  gfirst_enabled step s cs = None -> forall l, In l cs -> step s l = None.
Proof.
  induction cs as [|l t IH]; cbn [gfirst_enabled]; [intros _ l []|].
  destruct (step s l) as [s1|] eqn:E; [discriminate|]. intros H l' [<-|Hin]; [exact E|apply IH; assumption].
Qed.

(* if every candidate step decreases the measure, an invariant is kept, and a non-final state satisfying the invariant
   has an enabled candidate, then settling reaches a final state after finitely many steps *)
Theorem settle_reaches {T L : Type} (step : T -> L -> option T) (cands : T -> list L) (mu : T -> nat * nat)
        (Inv : T -> Prop) (final : T -> bool) :
  (forall s l s', Inv s -> step s l = Some s' -> Inv s') ->
  (forall s l s', In l (cands s) -> step s l = Some s' -> lexlt (mu s') (mu s)) ->
  (forall s, Inv s -> final s = false -> exists l, In l (cands s) /\ step s l <> None) ->
  forall s, Inv s -> exists fuel, final (gsettle step cands fuel s) = true.
Proof.
  intros Hinv Hdec Hen s. induction s as [s IH] using (lex_induction mu). intros HI.
  destruct (final s) eqn:Ef; [exists 0; exact Ef|].
  destruct (Hen s HI Ef) as (l & Hin & Hl).
  destruct (gfirst_enabled step s (cands s)) as [s1|] eqn:E1.
  - destruct (gfirst_enabled_some _ _ _ _ E1) as (l1 & Hin1 & Hl1).
    destruct (IH s1 (Hdec _ _ _ Hin1 Hl1) (Hinv _ _ _ HI Hl1)) as [fuel Hf].
    exists (S fuel). cbn [gsettle]. rewrite E1. exact Hf.
  - exfalso. apply Hl. eapply gfirst_enabled_none; eauto.
Qed.

(* more fuel does not move a settled state *)
Lemma gsettle_stable {T L : Type} (step : T -> L -> option T) (cands : T -> list L) s :
  gfirst_enabled step s (cands s) = None -> forall fuel, gsettle step cands fuel s = s.
Proof. intros H [|fuel]; cbn [gsettle]; [reflexivity|rewrite H; reflexivity]. Qed.

(* ----- worlds: a world that is not settled has an enabled system step among its internal labels ----- *)
Lemma forallb_false_ex {A : Type} (f : A -> bool) (l : list A) : forallb f l = false -> exists x, In x l /\ f x = false.
Proof.
  induction l as [|y t IH]; cbn [forallb]; [discriminate|]. destruct (f y) eqn:E; cbn [andb].
  - intros H. destruct (IH H) as (x & Hin & Hx). exists x. split; [right; exact Hin|exact Hx].
  - intros _. exists y. split; [left; reflexivity|exact E].
Qed.

Lemma in_internal_hook w r : r < length (regs w) -> In (SHook r) (s_internal w).
Proof.
  intros H. unfold s_internal. right; right. apply in_or_app. left. apply in_map. apply in_seq. lia.
Qed.
Lemma in_internal_fire w r : r < length (regs w) -> In (SFire r) (s_internal w).
Proof.
  intros H. unfold s_internal. right; right. apply in_or_app. right. apply in_or_app. left. apply in_map. apply in_seq. lia.
Qed.
Lemma in_internal_prop w c : c < length (nodes w) -> In (SPropg c) (s_internal w).
Proof.
  intros H. unfold s_internal. right; right. apply in_or_app. right. apply in_or_app. right. apply in_map. apply in_seq. lia.
Qed.
Lemma in_internal_is_internal w l : In l (s_internal w) -> is_internal l = true.
Proof.
  unfold s_internal. intros [<-|[<-|H]]; try reflexivity.
  apply in_app_or in H. destruct H as [H|H]; [apply in_map_iff in H; destruct H as (r & <- & _); reflexivity|].
  apply in_app_or in H. destruct H as [H|H]; apply in_map_iff in H; destruct H as (r & <- & _); reflexivity.
Qed.

Lemma s_hook_enabled w r x f : nth_error (regs w) r = Some x -> rst x = Run f -> s_hook w r <> None.
Proof.
  intros Hx Hr. unfold s_hook. rewrite Hx, Hr. destruct f as [a|c r0 a|[|r0 rs]]; try discriminate.
  destruct (w_stop w r0). discriminate.
Qed.

Lemma unsettled_enabled nenv w :
  settled w = false -> exists l, In l (s_internal w) /\ s_sys nenv w l <> None /\ l <> SMain /\ l <> SWaiter.
Proof.
  unfold settled. intros H. apply andb_false_iff in H. destruct H as [H|H]; [apply andb_false_iff in H; destruct H as [H|H]|].
  - unfold no_running in H. apply forallb_false_ex in H. destruct H as (x & Hin & Hx).
    apply In_nth_error in Hin. destruct Hin as [r Hr]. unfold running in Hx. destruct (rst x) as [| |f|] eqn:E; try discriminate.
    exists (SHook r). split; [apply in_internal_hook; eapply nth_error_lt; eauto|].
    split; [cbn [s_sys]; eapply s_hook_enabled; eauto|split; discriminate].
  - unfold no_fire in H. apply forallb_false_ex in H. destruct H as (x & Hin & Hx).
    apply In_nth_error in Hin. destruct Hin as [r Hr]. apply negb_false_iff in Hx.
    exists (SFire r). split; [apply in_internal_fire; eapply nth_error_lt; eauto|].
    split; [cbn [s_sys]; unfold s_fire; rewrite Hr, Hx; discriminate|split; discriminate].
  - unfold no_prop in H. apply forallb_false_ex in H. destruct H as (c & Hin & Hc). apply in_seq in Hin. apply negb_false_iff in Hc.
    exists (SPropg c). split; [apply in_internal_prop; lia|].
    split; [cbn [s_sys]; unfold s_prop; rewrite Hc; discriminate|split; discriminate].
Qed.

(* conversely a settled world has no enabled hook, fire or propagation step *)
Lemma settled_stuck nenv w l :
  settled w = true -> match l with SHook _ | SFire _ | SPropg _ => s_sys nenv w l = None | _ => True end.
Proof.
  intros H. apply settled_spec in H. destruct H as (Hr & Hf & Hp). destruct l as [|r|n| | |c|r]; try exact I; cbn [s_sys].
  - destruct (s_hook w r) as [w'|] eqn:E; [|reflexivity]. exfalso. apply s_hook_inv in E. destruct E as (x & Hx & Hc).
    pose proof (proj1 (no_running_spec w) Hr r x Hx) as Hn.
    destruct Hc as [(a & Ea & _)|[(c & r0 & a & Ea & _)|[(c & r0 & a & Ea & _)|[(Ea & _)|(r0 & rs & Ea & _)]]]]; eapply Hn; eauto.
  - destruct (s_prop w c) as [w'|] eqn:E; [|reflexivity]. exfalso. apply s_prop_inv in E. destruct E as (A & (p & B & C) & _).
    pose proof (no_prop_spec w Hp c p B C). congruence.
  - destruct (s_fire w r) as [w'|] eqn:E; [|reflexivity]. exfalso. apply s_fire_inv in E. destruct E as (x & A & B & C & _).
    pose proof (no_fire_spec w Hf r x A B). congruence.
Qed.

(* ----- ChainAfterFunc reaches quiescence (any variant of the primary's hook) ----- *)
Lemma schain_pc_le consult cx other nenv s l s' :
  cpc s <= 2 -> schain_step consult cx other nenv s l = Some s' -> cpc s' <= 2.
Proof.
  intros H Hs. destruct l as [|r|n| | |c|r]; cbn [schain_step] in Hs; try discriminate;
    try (destruct (s_sys nenv (cw s) _) as [w'|]; [|discriminate]; inversion Hs; subst s'; exact H).
  cbn [chain_step] in Hs. destruct (cpc s) as [|[|pc]]; try discriminate; inversion Hs; subst s'; cbn; lia.
Qed.

Lemma schain_pc_reach consult cx other nenv ns sched :
  cpc (grun (schain_step consult cx other nenv) (chain_init ns) sched) <= 2.
Proof. apply grun_inv with (P := fun s => cpc s <= 2); [intros s l s'; apply schain_pc_le|cbn; lia]. Qed.

Lemma schain_enabled consult cx other nenv s :
  cpc s <= 2 -> schain_quiescent s = false ->
  exists l, In l (s_internal (cw s)) /\ schain_step consult cx other nenv s l <> None.
Proof.
  intros HI Hq. unfold schain_quiescent in Hq. apply andb_false_iff in Hq. destruct Hq as [Hq|Hq].
  - exists SMain. split; [left; reflexivity|]. cbn [schain_step chain_step]. apply Nat.eqb_neq in Hq.
    destruct (cpc s) as [|[|[|pc]]]; try discriminate; lia.
  - destruct (unsettled_enabled nenv (cw s) Hq) as (l & Hin & Hl & Hm & Hw). exists l. split; [exact Hin|].
    destruct l; cbn [schain_step]; try congruence; try (cbn [s_sys] in Hl; congruence);
      destruct (s_sys nenv (cw s) _); congruence.
Qed.

Theorem schain_quiescence_reached consult cx other nenv ns sched :
  let s := grun (schain_step consult cx other nenv) (chain_init ns) sched in
  exists fuel, schain_quiescent (schain_settle consult cx other nenv fuel s) = true.
Proof.
  cbv zeta. unfold schain_settle.
  apply (settle_reaches (schain_step consult cx other nenv) (fun s => s_internal (cw s)) schain_mu (fun s => cpc s <= 2) schain_quiescent).
  - intros s l s'. apply schain_pc_le.
  - intros s l s' Hin Hs. pose proof (schain_progress _ _ _ _ _ _ _ Hs) as H. apply in_internal_is_internal in Hin.
    destruct l; try exact H; discriminate.
  - intros s HI Hq. apply schain_enabled; assumption.
  - apply schain_pc_reach.
Qed.

(* a quiescent state has no internal step: quiescence is exactly "every maximal internal run has ended" *)
Theorem schain_quiescent_stuck consult cx other nenv s l :
  schain_quiescent s = true -> is_internal l = true -> schain_step consult cx other nenv s l = None.
Proof.
  intros Hq Hl. unfold schain_quiescent in Hq. apply andb_prop in Hq. destruct Hq as [Hpc Hs]. apply Nat.eqb_eq in Hpc.
  pose proof (settled_stuck nenv (cw s) l Hs) as H.
  destruct l; try discriminate; cbn [schain_step]; try reflexivity; try (rewrite H; reflexivity).
  cbn [chain_step]. rewrite Hpc. reflexivity.
Qed.
