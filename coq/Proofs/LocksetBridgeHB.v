(* C11 — the bridge over the machine with happens-before edges: programs of the library's own bridged accesses, lock
   operations AND ownership hand-overs (channel send/receive, `go` with a lock hand-off), each access executed while
   holding what the translator saw held, each hand-over made by the owner: no race, any threads, any schedule. *)
From Coq Require Import List Arith Lia Bool String.
From BB Require Import Model.Lockset Proofs.Lockset Model.LocksetHB Proofs.LocksetHB Model.LocksetBridge
                       Proofs.LocksetBridge.
Import ListNotations.

Section BridgeHB.
  Variable lk : glookup.
  Variable hpay : nat -> alock.

  Notation hb_action_ok := (h_action_ok alock aloc nat alock_eqb hpay (abs_guard lk)).
  Notation hb_check_prog := (h_check_prog alock aloc nat alock_eqb hpay (abs_guard lk)).

  Lemma h_action_ok_access : forall o fa h,
      hb_action_ok h (htr_access o fa) = action_ok alock aloc alock_eqb (abs_guard lk) h (tr_access o fa).
  Proof. intros o fa h. unfold htr_access, tr_access. destruct (f_atomic fa); reflexivity. Qed.

  Definition h_drawn (facts : list fact) (p : list hitem) : Prop :=
    forall o fa, In (HItem (PFact o fa)) p -> In fa facts /\ bridged lk fa = true.

  Lemma h_consistent_check_prog : forall facts p h,
      h_drawn facts p -> h_consistent hpay h p = true -> hb_check_prog h (map tr_hitem p) = true.
  Proof.
    intros facts p. induction p as [|i p IH]; intros h Hd Hc; [reflexivity|].
    cbn [map LocksetHB.h_check_prog]. cbn [h_consistent] in Hc. apply andb_true_iff in Hc. destruct Hc as [Hi Hrest].
    apply andb_true_iff. split.
    - destruct i as [[o s lf m|o s lf|o fa|]|c|c]; try reflexivity.
      + cbn [tr_hitem]. rewrite h_action_ok_access. apply bridge_action_ok; [|exact Hi].
        apply (Hd o fa). left. reflexivity.
      + exact Hi.
    - apply IH; [|exact Hrest]. intros o fa Hin. apply (Hd o fa). right. exact Hin.
  Qed.

  Theorem library_hb_programs_race_free : forall facts (progs : list (list hitem)),
      (forall p, In p progs -> h_drawn facts p /\ h_consistent hpay [] p = true) ->
      forall sched, ~ h_race alock aloc nat (h_run alock aloc nat alock_eqb Nat.eqb hpay (tr_hstate progs) sched).
  Proof.
    intros facts progs H sched.
    apply (h_disciplined_no_race alock aloc nat alock_eqb Nat.eqb alock_eqb_spec Nat.eqb_eq hpay (abs_guard lk)).
    - apply h_inv_init. unfold h_init_ok, tr_hstate. cbn [hs_flight hs_threads]. apply forallb_forall.
      intros t Hin. apply in_map_iff in Hin. destruct Hin as [p [<- _]]. reflexivity.
    - unfold h_disciplined, tr_hstate. cbn [hs_threads]. apply forallb_forall. intros t Hin.
      apply in_map_iff in Hin. destruct Hin as [p [<- Hp]]. cbn [tr_hthread ht_held ht_prog].
      destruct (H p Hp) as [Hd Hc]. eapply h_consistent_check_prog; eauto.
  Qed.

  Lemma hprog_facts_In : forall p o fa, In (HItem (PFact o fa)) p -> In fa (hprog_facts p).
  Proof.
    intros p o fa H. unfold hprog_facts. apply in_flat_map. exists (HItem (PFact o fa)). split; [exact H|].
    left. reflexivity.
  Qed.

  (* the computable form: [hprogs_ok] decides the hypotheses for a concrete list of programs *)
  Theorem hprogs_ok_race_free : forall progs : list (list hitem),
      hprogs_ok lk hpay progs = true ->
      forall sched, ~ h_race alock aloc nat (h_run alock aloc nat alock_eqb Nat.eqb hpay (tr_hstate progs) sched).
  Proof.
    intros progs H. apply (library_hb_programs_race_free (flat_map hprog_facts progs)).
    intros p Hp. unfold hprogs_ok in H. rewrite forallb_forall in H. pose proof (H p Hp) as X.
    apply andb_true_iff in X. destruct X as [Hc Hb]. split; [|exact Hc].
    intros o fa Hin. pose proof (hprog_facts_In p o fa Hin) as Hf. split.
    - apply in_flat_map. exists p. split; assumption.
    - rewrite forallb_forall in Hb. exact (Hb fa Hf).
  Qed.
End BridgeHB.
