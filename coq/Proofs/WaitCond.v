(* Proofs/WaitCond.v — invariants of Model/WaitCond.v by reflective sweep.

   Main results (the code as written: watcher_locks = true, recheck_ctx = true; all n, all schedules)
     waitcond_returns                 terminal -> (pred \/ cancelled -> waiter returned and released L)
                                              /\ (waiter returned -> watcher exited or never spawned)
     nil_only_after_true_under_lock   a nil return is immediately preceded by fn() = true evaluated holding L,
                                      and at the return the predicate still holds and L is still held
     err_only_if_cancelled            an error return happens only on a cancelled context
     returns_even_without_notifiers   n = 0 and a canceller: terminal -> returned
     mu_decreases / moves_bounded / terminates
   Refutations, on the same [step]
     needs_lock_refuted               watcher broadcasting without L: parked for ever on a cancelled context
     needs_recheck_refuted            ctx.Err() not re-checked in the loop: parked for ever on a cancelled context
   Safety clauses ([Safeb]) and the termination measure hold for all four variants. *)

From Coq Require Import List Arith Lia Bool ZifyBool.
Import ListNotations.
From BB Require Import Model.WaitCond.

Arguments Nat.sub : simpl never. Arguments Nat.ltb : simpl never. Arguments Nat.leb : simpl never.
Arguments Nat.eqb : simpl never.

(* ------------------------------------------------------------------------------------------------------------ *)
(* Enumerations.                                                                                                *)

Definition all_bool : list bool := [true; false].
Definition all_obool : list (option bool) := [None; Some true; Some false].
Definition all_wpc : list wpc := [WStart; WFn; WEnq; WUnlock; WParked; WRelock; WRetNil; WRetErr; WReleased].
Definition all_otpc : list (option tpc) := [None; Some TWait; Some TLock; Some TBcast; Some TUnlock; Some TExit].
Definition all_owner : list owner := [Nobody; OW; OT].

Ltac split_all H :=
  cbn [forallb] in H;
  repeat (let H0 := fresh "H0" in apply andb_true_iff in H; destruct H as [H0 H]).

Lemma all_bool_ok : forall P : bool -> bool, forallb P all_bool = true -> forall x, P x = true.
Proof. intros P H x. unfold all_bool in H. split_all H. destruct x; assumption. Qed.
Lemma all_obool_ok : forall P : option bool -> bool, forallb P all_obool = true -> forall x, P x = true.
Proof. intros P H x. unfold all_obool in H. split_all H. destruct x as [[|]|]; assumption. Qed.
Lemma all_wpc_ok : forall P : wpc -> bool, forallb P all_wpc = true -> forall x, P x = true.
Proof. intros P H x. unfold all_wpc in H. split_all H. destruct x; assumption. Qed.
Lemma all_otpc_ok : forall P : option tpc -> bool, forallb P all_otpc = true -> forall x, P x = true.
Proof. intros P H x. unfold all_otpc in H. split_all H. destruct x as [[| | | |]|]; assumption. Qed.
Lemma all_owner_ok : forall P : owner -> bool, forallb P all_owner = true -> forall x, P x = true.
Proof. intros P H x. unfold all_owner in H. split_all H. destruct x; assumption. Qed.
Lemma all_pick_ok : forall P : pick -> bool, forallb P all_pick = true -> forall x, P x = true.
Proof. intros P H x. unfold all_pick in H. split_all H. destruct x as [| |[|]|]; assumption. Qed.

(* All 9 * 6 * 3 * 2^6 * 3 * 2 = 62208 values of the finite control. *)
Definition forall_ctl (P : ctl -> bool) : bool :=
  forallb (fun a => forallb (fun b => forallb (fun c => forallb (fun d => forallb (fun e =>
  forallb (fun f => forallb (fun g => forallb (fun h => forallb (fun i => forallb (fun j =>
  forallb (fun k => P (mkctl a b c d e f g h i j k))
  all_bool) all_obool) all_bool) all_bool) all_bool) all_bool) all_bool) all_bool) all_owner) all_otpc) all_wpc.

Lemma forall_ctl_ok : forall P, forall_ctl P = true -> forall c, P c = true.
Proof.
  intros P H [a b c d e f g h i j k]. unfold forall_ctl in H.
  pose proof (all_wpc_ok _ H a) as H1; cbv beta in H1.
  pose proof (all_otpc_ok _ H1 b) as H2; cbv beta in H2.
  pose proof (all_owner_ok _ H2 c) as H3; cbv beta in H3.
  pose proof (all_bool_ok _ H3 d) as H4; cbv beta in H4.
  pose proof (all_bool_ok _ H4 e) as H5; cbv beta in H5.
  pose proof (all_bool_ok _ H5 f) as H6; cbv beta in H6.
  pose proof (all_bool_ok _ H6 g) as H7; cbv beta in H7.
  pose proof (all_bool_ok _ H7 h) as H8; cbv beta in H8.
  pose proof (all_bool_ok _ H8 i) as H9; cbv beta in H9.
  pose proof (all_obool_ok _ H9 j) as H10; cbv beta in H10.
  exact (all_bool_ok _ H10 k).
Qed.

Definition list_ctl : list ctl :=
  flat_map (fun a => flat_map (fun b => flat_map (fun c => flat_map (fun d => flat_map (fun e =>
  flat_map (fun f => flat_map (fun g => flat_map (fun h => flat_map (fun i => flat_map (fun j =>
  map (fun k => mkctl a b c d e f g h i j k)
  all_bool) all_obool) all_bool) all_bool) all_bool) all_bool) all_bool) all_bool) all_owner) all_otpc) all_wpc.

(* Generic sweep: states satisfying I x pick x successor. *)
Definition step_chk (wl rc : bool) (I : ctl -> bool) (Q : ctl -> pick -> ctl -> bool) : bool :=
  forall_ctl (fun c => negb (I c) ||
    forallb (fun p => match cstep wl rc c p with Some c' => Q c p c' | None => true end) all_pick).

Lemma step_chk_ok : forall wl rc I Q, step_chk wl rc I Q = true ->
  forall c p c', I c = true -> cstep wl rc c p = Some c' -> Q c p c' = true.
Proof.
  intros wl rc I Q Hchk c p c' Hinv Hstep. unfold step_chk in Hchk.
  pose proof (forall_ctl_ok _ Hchk c) as H1; cbv beta in H1.
  rewrite Hinv in H1. cbn [negb orb] in H1.
  pose proof (all_pick_ok _ H1 p) as H2; cbv beta in H2.
  rewrite Hstep in H2. exact H2.
Qed.

(* Debugging loop: offending triples of a sweep. *)
Definition fails (wl rc : bool) (I : ctl -> bool) (Q : ctl -> pick -> ctl -> bool) : list (ctl * pick * ctl) :=
  flat_map (fun c => if I c then
    flat_map (fun p => match cstep wl rc c p with
                       | Some c' => if Q c p c' then [] else [(c, p, c')]
                       | None => [] end) all_pick
    else []) list_ctl.

(* [step] in terms of [cstep]: [nn] is used only through [0 | S _]. *)
Definition is_notify (p : pick) : bool := match p with PNotify _ => true | _ => false end.

Lemma step_inv : forall wl rc s p s', step wl rc s p = Some s' ->
  cstep wl rc s p = Some (ctl_of s') /\
  (is_notify p = false -> nn s' = nn s) /\ (is_notify p = true -> nn s = S (nn s')).
Proof.
  intros wl rc [c k] p s' Hstep. unfold step in Hstep. cbn [nn ctl_of] in *.
  destruct p as [| |b|].
  - destruct (cstep wl rc c PW) as [c'|]; [|discriminate]. cbn in Hstep. inversion Hstep; subst.
    cbn. repeat split; congruence.
  - destruct (cstep wl rc c PT) as [c'|]; [|discriminate]. cbn in Hstep. inversion Hstep; subst.
    cbn. repeat split; congruence.
  - destruct k as [|k]; [discriminate|].
    destruct (cstep wl rc c (PNotify b)) as [c'|]; [|discriminate]. cbn in Hstep. inversion Hstep; subst.
    cbn. repeat split; congruence.
  - destruct (cstep wl rc c PCancel) as [c'|]; [|discriminate]. cbn in Hstep. inversion Hstep; subst.
    cbn. repeat split; congruence.
Qed.

Section Inductive_invariant.
  Variables (wl rc : bool) (I : ctl -> bool).
  Hypothesis I_sweep : step_chk wl rc I (fun _ _ c' => I c') = true.

  Lemma I_step : forall (s : st) p s', I s = true -> step wl rc s p = Some s' -> I s' = true.
  Proof.
    intros s p s' Hinv Hstep. apply step_inv in Hstep. destruct Hstep as [Hc _].
    exact (step_chk_ok wl rc I _ I_sweep s p s' Hinv Hc).
  Qed.

  Lemma I_run : forall sched (s : st), I s = true -> I (run wl rc s sched) = true.
  Proof.
    induction sched as [|p r IH]; intros s Hinv; cbn [run]; [exact Hinv|].
    destruct (step wl rc s p) as [s'|] eqn:Hstep.
    - apply IH. exact (I_step s p s' Hinv Hstep).
    - apply IH. exact Hinv.
  Qed.
End Inductive_invariant.

(* ------------------------------------------------------------------------------------------------------------ *)
(* Safety clauses, all four variants.                                                                           *)

Definition implb' (a b : bool) : bool := negb a || b.

Definition Safeb (wl : bool) (c : ctl) : bool :=
  (* the watcher holds L exactly around its Broadcast (never, in the mutation without Lock) *)
  (if wl
   then eqb (match lk c with OT => true | _ => false end)
            (match t c with Some TBcast | Some TUnlock => true | _ => false end)
   else match lk c, t c with OT, _ | _, Some TLock | _, Some TUnlock => false | _, _ => true end)
  (* the waiter holds L exactly outside the unlock..relock window of cond.Wait(), until the caller unlocks *)
  && eqb (owner_is_w (lk c))
      (match w c with WStart | WFn | WEnq | WUnlock | WRetNil | WRetErr => true | _ => false end)
  (* ghost result *)
  && (match w c, retv c with
      | WRetNil, Some true => pred c && last_fn_true_holding c
      | WRetErr, Some false => cancelled c
      | WReleased, Some true => last_fn_true_holding c
      | WReleased, Some false => cancelled c
      | (WRetNil | WRetErr | WReleased), _ => false
      | _, None => true
      | _, Some _ => false
      end).

Lemma Safeb_sweep : forall wl rc, step_chk wl rc (Safeb wl) (fun _ _ c' => Safeb wl c') = true.
Proof. intros [|] [|]; vm_compute; reflexivity. Qed.

Lemma Safeb_init : forall wl n p0 cm, Safeb wl (init n p0 cm) = true.
Proof. intros [|] n [|] [| |]; reflexivity. Qed.

Lemma Safeb_reachable : forall wl rc n p0 cm sched, Safeb wl (run wl rc (init n p0 cm) sched) = true.
Proof. intros. apply (I_run wl rc (Safeb wl) (Safeb_sweep wl rc)). apply Safeb_init. Qed.

(* The waiter's step into WRetNil is the step from WFn with pred = true and L held (nothing else leads there). *)
Lemma into_RetNil_sweep : forall wl rc,
  step_chk wl rc (Safeb wl) (fun c p c' => match w c' with
     | WRetNil => match p, w c with PW, WFn => pred c && owner_is_w (lk c) && pred c' && owner_is_w (lk c')
                                  | _, WRetNil => true
                                  | _, _ => false end
     | _ => true end) = true.
Proof. intros [|] [|]; vm_compute; reflexivity. Qed.

(* Step form: the only way into WRetNil is the waiter's step from WFn with the predicate true and L held by the
   waiter, before and after. *)
Theorem nil_step_is_fn_true : forall wl rc n p0 cm sched p s',
  let s := run wl rc (init n p0 cm) sched in
  step wl rc s p = Some s' -> w s' = WRetNil -> w s <> WRetNil ->
  p = PW /\ w s = WFn /\ pred s = true /\ lk s = OW /\ pred s' = true /\ lk s' = OW.
Proof.
  intros wl rc n p0 cm sched p s' s Hstep Hw' Hw.
  pose proof (Safeb_reachable wl rc n p0 cm sched) as Hs. fold s in Hs.
  apply step_inv in Hstep. destruct Hstep as [Hc _].
  pose proof (step_chk_ok wl rc _ _ (into_RetNil_sweep wl rc) s p s' Hs Hc) as Hq. cbv beta in Hq.
  rewrite Hw' in Hq.
  destruct p as [| |b|]; destruct (w s) eqn:Ews; try discriminate Hq; try (exfalso; apply Hw; reflexivity).
  apply andb_true_iff in Hq. destruct Hq as [Hq H4]. apply andb_true_iff in Hq. destruct Hq as [Hq H3].
  apply andb_true_iff in Hq. destruct Hq as [H1 H2].
  destruct (lk s); try discriminate H2. destruct (lk s'); try discriminate H4. auto 10.
Qed.

Theorem nil_only_after_true_under_lock : forall wl rc n p0 cm sched,
  let s := run wl rc (init n p0 cm) sched in
  (retv s = Some true -> last_fn_true_holding s = true) /\
  (w s = WRetNil -> retv s = Some true /\ pred s = true /\ lk s = OW).
Proof.
  intros wl rc n p0 cm sched s.
  pose proof (Safeb_reachable wl rc n p0 cm sched) as H. fold s in H.
  unfold Safeb in H. apply andb_true_iff in H. destruct H as [H Hr].
  apply andb_true_iff in H. destruct H as [_ Hl].
  split.
  - intros Hret. rewrite Hret in Hr.
    destruct (w s); try discriminate Hr; try exact Hr.
    apply andb_true_iff in Hr. tauto.
  - intros Hw. rewrite Hw in Hr, Hl. destruct (retv s) as [[|]|]; try discriminate Hr.
    apply andb_true_iff in Hr. destruct Hr as [Hp _].
    destruct (lk s); cbn in Hl; try discriminate Hl. auto.
Qed.

Theorem err_only_if_cancelled : forall wl rc n p0 cm sched,
  let s := run wl rc (init n p0 cm) sched in
  (retv s = Some false -> cancelled s = true) /\ (w s = WRetErr -> retv s = Some false).
Proof.
  intros wl rc n p0 cm sched s.
  pose proof (Safeb_reachable wl rc n p0 cm sched) as H. fold s in H.
  unfold Safeb in H. apply andb_true_iff in H. destruct H as [_ Hr].
  split.
  - intros Hret. rewrite Hret in Hr. destruct (w s); try discriminate Hr; exact Hr.
  - intros Hw. rewrite Hw in Hr. destruct (retv s) as [[|]|]; try discriminate Hr. reflexivity.
Qed.

(* ------------------------------------------------------------------------------------------------------------ *)
(* The invariant of the code as written.                                                                        *)

Definition Invb (c : ctl) : bool :=
  Safeb true c
  (* the watcher gets past <-ctx.Done() only on a cancelled (or derived-cancelled) context *)
  && implb' (match t c with Some TWait | None => false | _ => true end) (cancelled c || dcancel c)
  (* the deferred cancel has run exactly when a waiter that spawned a watcher has returned and released *)
  && eqb (dcancel c) (match w c with WReleased => spawned c | _ => false end)
  (* the watcher is absent only before the first context check, or after an error return on a pre-cancelled
     context, or when ctx == nil *)
  && (if hasctx c
      then implb' (negb (spawned c))
                  (match w c with WStart => true | WRetErr | WReleased => cancelled c | _ => false end)
      else negb (spawned c) && negb (cancelled c) && negb (canc c))
  (* the ticket is enqueued only inside cond.Wait(); under L nobody can have notified it *)
  && (match w c with WUnlock => inq c | WParked => true | _ => negb (inq c) end)
  (* a waiter that found the predicate false and is about to park or is parked un-notified:
     the predicate is still false, and if the context is cancelled the watcher's Broadcast is still to come *)
  && (match w c with
      | WEnq | WUnlock => negb (pred c) && implb' (cancelled c)
                            (match t c with Some TWait | Some TLock => true | _ => false end)
      | WParked => implb' (inq c) (negb (pred c) && implb' (cancelled c)
                            (match t c with Some TWait | Some TLock | Some TBcast => true | _ => false end))
      | WFn => implb' (cancelled c) (match t c with Some TWait | Some TLock => true | _ => false end)
      | _ => true
      end).

Lemma Invb_sweep : step_chk true true Invb (fun _ _ c' => Invb c') = true.
Proof. vm_compute; reflexivity. Qed.

(* [fails] agrees, and shows that [Invb] is NOT inductive for either mutation (so the sweep is sensitive). *)
Example fails_empty_and_sensitive :
  fails true true Invb (fun _ _ c' => Invb c') = [] /\
  length (fails false true Invb (fun _ _ c' => Invb c')) <> 0 /\
  length (fails true false Invb (fun _ _ c' => Invb c')) <> 0.
Proof. vm_compute. repeat split; discriminate. Qed.

Lemma Invb_init : forall n p0 cm, Invb (init n p0 cm) = true.
Proof. intros n [|] [| |]; reflexivity. Qed.

Lemma Invb_reachable : forall n p0 cm sched, Invb (run true true (init n p0 cm) sched) = true.
Proof. intros. apply (I_run true true Invb Invb_sweep). apply Invb_init. Qed.

(* --- terminal states --- *)

Definition cterminal (wl rc : bool) (c : ctl) : bool :=
  match cstep wl rc c PW, cstep wl rc c PT, cstep wl rc c PCancel with None, None, None => true | _, _, _ => false end.

Lemma terminal_cterminal : forall wl rc s, is_terminal wl rc s = true -> cterminal wl rc s = true.
Proof.
  intros wl rc [c k] H. unfold is_terminal, all_pick, enabled, step in H. cbn [forallb nn ctl_of] in H.
  unfold cterminal. cbn [ctl_of].
  destruct (cstep wl rc c PW); [discriminate H|].
  destruct (cstep wl rc c PT); [discriminate H|].
  destruct (cstep wl rc c PCancel); [cbn in H; rewrite !andb_false_r in H; discriminate H|].
  reflexivity.
Qed.

Definition w_released (c : ctl) : bool := match w c with WReleased => true | _ => false end.

Lemma terminal_sweep :
  forall_ctl (fun c => negb (Invb c) || negb (cterminal true true c) ||
     (implb' (pred c || cancelled c) (w_released c && owner_free (lk c))
      && implb' (returned c) (watcher_done c))) = true.
Proof. vm_compute; reflexivity. Qed.

Theorem waitcond_returns : forall n p0 cm sched,
  let s := run true true (init n p0 cm) sched in
  is_terminal true true s = true ->
  ((pred s = true \/ cancelled s = true) -> w s = WReleased /\ lk s = Nobody) /\
  (returned s = true -> watcher_done s = true).
Proof.
  intros n p0 cm sched s Hterm.
  pose proof (Invb_reachable n p0 cm sched) as Hinv. fold s in Hinv.
  apply terminal_cterminal in Hterm.
  pose proof (forall_ctl_ok _ terminal_sweep s) as H. cbv beta in H.
  rewrite Hinv, Hterm in H. cbn [negb orb] in H. apply andb_true_iff in H. destruct H as [Ha Hb].
  unfold implb', w_released, owner_free in *. split.
  - intros Hor. assert (Hpc : pred s || cancelled s = true) by (destruct Hor as [-> | ->]; [reflexivity|apply orb_true_r]).
    rewrite Hpc in Ha. cbn in Ha. apply andb_true_iff in Ha. destruct Ha as [Hw Hl].
    destruct (w s); try discriminate Hw. destruct (lk s); try discriminate Hl. auto.
  - intros Hret. rewrite Hret in Hb. exact Hb.
Qed.

(* With a canceller, "cancelled or not yet" is invariant; at a terminal state the canceller has run. *)
Definition Cancb (c : ctl) : bool := canc c || cancelled c.

Lemma Cancb_sweep : forall wl rc, step_chk wl rc Cancb (fun _ _ c' => Cancb c') = true.
Proof. intros [|] [|]; vm_compute; reflexivity. Qed.

Theorem returns_with_canceller : forall n p0 sched,
  let s := run true true (init n p0 CtxCancellable) sched in
  is_terminal true true s = true -> w s = WReleased /\ lk s = Nobody /\ watcher_done s = true.
Proof.
  intros n p0 sched s Hterm.
  assert (Hc : Cancb s = true).
  { apply (I_run true true Cancb (Cancb_sweep true true)). destruct p0; reflexivity. }
  pose proof (waitcond_returns n p0 CtxCancellable sched Hterm) as [Ha Hb]. fold s in Ha, Hb.
  assert (Hcanc : cancelled s = true).
  { apply terminal_cterminal in Hterm. unfold cterminal in Hterm.
    destruct (cstep true true s PW); [discriminate|]. destruct (cstep true true s PT); [discriminate|].
    unfold Cancb in Hc. unfold cstep, c_step in Hterm. destruct (canc s); [discriminate Hterm|exact Hc]. }
  destruct (Ha (or_intror Hcanc)) as [Hw Hl]. split; [exact Hw|]. split; [exact Hl|].
  apply Hb. unfold returned. rewrite Hw. reflexivity.
Qed.

Corollary returns_even_without_notifiers : forall p0 sched,
  let s := run true true (init 0 p0 CtxCancellable) sched in
  is_terminal true true s = true -> w s = WReleased /\ lk s = Nobody /\ watcher_done s = true.
Proof. intros p0 sched. exact (returns_with_canceller 0 p0 sched). Qed.

(* ------------------------------------------------------------------------------------------------------------ *)
(* Refutations of the two mutations.                                                                            *)

(* ctx check, spawn watcher; fn() = false; THE CANCEL LANDS; the watcher broadcasts without L, before the waiter
   has enqueued its ticket; the waiter enqueues, unlocks and parks for ever. *)
Theorem needs_lock_refuted :
  exists sched, let s := run false true (init 0 false CtxCancellable) sched in
    is_terminal false true s = true /\ cancelled s = true /\ returned s = false /\ w s = WParked.
Proof. exists [PW; PW; PCancel; PT; PT; PW; PW]. vm_compute. auto. Qed.

(* The same schedule on the code as written: the watcher blocks on L until the waiter is parked; the waiter is
   woken, sees the cancelled context and returns its error. *)
Example cancel_between_fn_and_enqueue :
  let sched := [PW; PW; PCancel; PT; PT; PW; PW] ++ [PT; PT; PT; PW; PW; PW; PW] in
  let s := run true true (init 0 false CtxCancellable) sched in
  w (run true true (init 0 false CtxCancellable) [PW; PW; PCancel]) = WEnq /\
  is_terminal true true s = true /\ w s = WReleased /\ retv s = Some false /\ watcher_done s = true /\
  moves true true (init 0 false CtxCancellable) sched = 13.
Proof. vm_compute. auto 10. Qed.

(* park; cancel; the watcher (correctly, under L) broadcasts; the waiter wakes, re-evaluates only the predicate
   (false) and parks again, for ever. *)
Theorem needs_recheck_refuted :
  exists sched, let s := run true false (init 0 false CtxCancellable) sched in
    is_terminal true false s = true /\ cancelled s = true /\ pred s = false /\ returned s = false /\
    w s = WParked /\ watcher_done s = true.
Proof. exists [PW; PW; PW; PW; PCancel; PT; PT; PT; PT; PW; PW; PW; PW; PW]. vm_compute. auto 10. Qed.

(* ------------------------------------------------------------------------------------------------------------ *)
(* Termination measure (all four variants).                                                                     *)

Definition wpos (c : ctl) : nat :=
  match w c with
  | WParked => if inq c then 0 else 7
  | WRelock => 6 | WStart => 5 | WFn => 4 | WEnq => 3
  | WUnlock => if inq c then 2 else 8
  | WRetNil | WRetErr => 1 | WReleased => 0
  end.

Definition tpos (c : ctl) : nat :=
  match t c with
  | None | Some TWait => 4 | Some TLock => 3 | Some TBcast => 2 | Some TUnlock => 1 | Some TExit => 0
  end.

(* the watcher's single Broadcast is still to come (it buys the waiter one more iteration) *)
Definition bcast_left (c : ctl) : nat :=
  match t c with None | Some TWait | Some TLock | Some TBcast => 1 | _ => 0 end.

Definition rank (c : ctl) : nat := wpos c + tpos c + 7 * bcast_left c + (if canc c then 1 else 0).

Definition rank_max : nat := 20.

Definition mu (s : st) : nat := nn s * S rank_max + rank s.

Definition trueb (c : ctl) : bool := true.

Lemma rank_le_max : forall c, rank c <= rank_max.
Proof.
  intros c.
  assert (H : forall_ctl (fun c => rank c <=? rank_max) = true) by (vm_compute; reflexivity).
  pose proof (forall_ctl_ok _ H c) as H1. cbv beta in H1. apply Nat.leb_le in H1. exact H1.
Qed.

Lemma rank_sweep : forall wl rc,
  step_chk wl rc trueb (fun c p c' => if is_notify p then true else (rank c' <? rank c)) = true.
Proof. intros [|] [|]; vm_compute; reflexivity. Qed.

Theorem mu_decreases : forall wl rc (s : st) p s', step wl rc s p = Some s' -> mu s' < mu s.
Proof.
  intros wl rc s p s' Hstep. apply step_inv in Hstep. destruct Hstep as [Hc [Hsame Hdec]].
  unfold mu. destruct (is_notify p) eqn:Hn.
  - rewrite (Hdec eq_refl). pose proof (rank_le_max s') as Hr. unfold rank_max in *. lia.
  - pose proof (step_chk_ok wl rc trueb _ (rank_sweep wl rc) s p s' eq_refl Hc) as Hq. cbv beta in Hq.
    rewrite Hn in Hq. apply Nat.ltb_lt in Hq. rewrite (Hsame eq_refl). lia.
Qed.

Theorem moves_bounded : forall wl rc sched s, moves wl rc s sched <= mu s.
Proof.
  intros wl rc sched. induction sched as [|p r IH]; intros s; cbn [moves]; [lia|].
  destruct (step wl rc s p) as [s'|] eqn:Hstep; [|exact (IH s)].
  pose proof (mu_decreases wl rc s p s' Hstep) as Hlt. specialize (IH s'). lia.
Qed.

Lemma run_app : forall wl rc a b s, run wl rc s (a ++ b) = run wl rc (run wl rc s a) b.
Proof.
  intros wl rc a. induction a as [|p r IH]; intros b s; cbn [run app]; [reflexivity|].
  destruct (step wl rc s p); apply IH.
Qed.

Lemma not_terminal_enabled : forall wl rc s, is_terminal wl rc s = false -> exists p s', step wl rc s p = Some s'.
Proof.
  intros wl rc s H. unfold is_terminal, all_pick, enabled in H. cbn [forallb] in H.
  destruct (step wl rc s PW) as [s1|] eqn:H1; [exists PW, s1; exact H1|].
  destruct (step wl rc s PT) as [s2|] eqn:H2; [exists PT, s2; exact H2|].
  destruct (step wl rc s (PNotify true)) as [s3|] eqn:H3; [exists (PNotify true), s3; exact H3|].
  destruct (step wl rc s (PNotify false)) as [s4|] eqn:H4; [exists (PNotify false), s4; exact H4|].
  destruct (step wl rc s PCancel) as [s5|] eqn:H5; [exists PCancel, s5; exact H5|].
  discriminate H.
Qed.

Lemma reaches_terminal : forall wl rc k s, mu s <= k -> exists post, is_terminal wl rc (run wl rc s post) = true.
Proof.
  intros wl rc k. induction k as [|k IH]; intros s Hk.
  - destruct (is_terminal wl rc s) eqn:Ht; [exists []; exact Ht|].
    apply not_terminal_enabled in Ht. destruct Ht as [p [s' Hstep]].
    pose proof (mu_decreases wl rc s p s' Hstep). lia.
  - destruct (is_terminal wl rc s) eqn:Ht; [exists []; exact Ht|].
    apply not_terminal_enabled in Ht. destruct Ht as [p [s' Hstep]].
    pose proof (mu_decreases wl rc s p s' Hstep) as Hlt.
    destruct (IH s') as [post Hpost]; [lia|].
    exists (p :: post). cbn [run]. rewrite Hstep. exact Hpost.
Qed.

Theorem terminates : forall wl rc s pre, exists post, is_terminal wl rc (run wl rc s (pre ++ post)) = true.
Proof.
  intros wl rc s pre. destruct (reaches_terminal wl rc _ (run wl rc s pre) (le_n _)) as [post H].
  exists post. rewrite run_app. exact H.
Qed.

(* ------------------------------------------------------------------------------------------------------------ *)
(* Non-vacuity.                                                                                                 *)

(* A notifier makes the predicate true; the waiter returns nil; the deferred cancel() lets the watcher exit. *)
Example nil_return_and_watcher_exit :
  let sched := [PW; PW; PW; PW; PNotify true; PW; PW; PW; PW; PW; PT; PT; PT; PT] in
  let s := run true true (init 1 false CtxLive) sched in
  is_terminal true true s = true /\ w s = WReleased /\ retv s = Some true /\ last_fn_true_holding s = true /\
  cancelled s = false /\ dcancel s = true /\ t s = Some TExit.
Proof. vm_compute. auto 10. Qed.

(* No notifier ever makes the predicate true and nobody cancels: parked for ever, legitimately. *)
Example parked_legitimately :
  let s := run true true (init 1 false CtxLive) [PW; PW; PW; PW; PNotify false; PW; PW; PW; PW; PW; PW] in
  is_terminal true true s = true /\ w s = WParked /\ pred s = false /\ cancelled s = false.
Proof. vm_compute. auto 10. Qed.

(* Pre-cancelled context: error return, no watcher was ever spawned. *)
Example pre_cancelled :
  let s := run true true (init 0 true CtxCancellable) [PCancel; PW; PW] in
  is_terminal true true s = true /\ w s = WReleased /\ retv s = Some false /\ t s = None.
Proof. vm_compute. auto 10. Qed.

(* ctx == nil: plain cond.Wait loop. *)
Example nil_ctx :
  let s := run true true (init 1 false CtxNil) [PW; PW; PW; PW; PNotify true; PW; PW; PW; PW; PW] in
  is_terminal true true s = true /\ w s = WReleased /\ retv s = Some true /\ t s = None.
Proof. vm_compute. auto 10. Qed.

(* The invariant is neither empty nor everything: 365 of the 62208 control states. *)
Example Invb_count : length (filter Invb list_ctl) = 365.
Proof. vm_compute. reflexivity. Qed.

Print Assumptions waitcond_returns.
Print Assumptions nil_only_after_true_under_lock.
Print Assumptions nil_step_is_fn_true.
Print Assumptions err_only_if_cancelled.
Print Assumptions returns_with_canceller.
Print Assumptions returns_even_without_notifiers.
Print Assumptions needs_lock_refuted.
Print Assumptions needs_recheck_refuted.
Print Assumptions mu_decreases.
Print Assumptions moves_bounded.
Print Assumptions terminates.
