(* Lemmas about Model/Retry.v (ExponentialRetry, FatalError). *)
From Coq Require Import List Arith ZArith Lia Bool ZifyBool.
From BB.Model Require Import Retry.
Import ListNotations.
Open Scope Z_scope.
Arguments Nat.sub : simpl never.
Arguments Nat.ltb : simpl never.
Arguments Nat.leb : simpl never.
Arguments Nat.eqb : simpl never.
Arguments Nat.mul : simpl never.
Arguments Z.pow : simpl never.
Arguments Z.modulo : simpl never.
Arguments Z.mul : simpl never.
Arguments Z.add : simpl never.
Arguments Z.sub : simpl never.
Arguments Z.ltb : simpl never.
Arguments Z.leb : simpl never.
Arguments Z.min : simpl never.

(* ------------------------------------------------------------------------------------------------------------ *)
(* FatalError / unpackFatalError / isFatalError                                                                  *)
(* ------------------------------------------------------------------------------------------------------------ *)

Lemma unpack_not_fatal (e : err) : is_fatal (unpack e) = false.
Proof. induction e as [id | inner IH]; cbn [unpack is_fatal]; auto. Qed.

Lemma unpack_wrap (depth : nat) (e : err) : unpack (wrap depth e) = unpack e.
Proof. induction depth as [| d IH]; cbn [wrap unpack]; auto. Qed.

Lemma unpack_wrap_base (depth : nat) (id : Z) : unpack (wrap depth (EBase id)) = EBase id.
Proof. rewrite unpack_wrap. reflexivity. Qed.

Lemma is_fatal_wrap (depth : nat) (e : err) : is_fatal (wrap (S depth) e) = true.
Proof. reflexivity. Qed.

Lemma unpack_is_base (e : err) : exists id, unpack e = EBase id.
Proof. induction e as [id | inner IH]; cbn [unpack]; eauto. Qed.

Lemma unpack_idem (e : err) : unpack (unpack e) = unpack e.
Proof. destruct (unpack_is_base e) as [id Hid]. rewrite Hid. reflexivity. Qed.

(* every error is a base error under some number of FatalError wrappers *)
Lemma err_is_wrap (e : err) : exists depth id, e = wrap depth (EBase id) /\ (is_fatal e = true <-> (1 <= depth)%nat).
Proof.
  induction e as [id | inner IH].
  - exists O, id. split; [reflexivity |]. cbn [is_fatal]. split; [discriminate | lia].
  - destruct IH as [d [id [Hw _]]]. exists (S d), id. split; [cbn [wrap]; congruence |].
    cbn [is_fatal]. split; [lia | reflexivity].
Qed.

(* ------------------------------------------------------------------------------------------------------------ *)
(* vocabulary of the statements                                                                                  *)
(* ------------------------------------------------------------------------------------------------------------ *)

(* the outcome is a failure that is not wrapped by FatalError: the loop goes on *)
Definition plain (o : outcome) : Prop := exists e, o_err o = Some e /\ is_fatal e = false.
Definition success (o : outcome) : Prop := o_err o = None.
Definition fatal (o : outcome) : Prop := exists e, o_err o = Some e /\ is_fatal e = true.

(* event number n of the linear order happens strictly before the cancellation (or there is none) *)
Definition before_cancel (cancel_at : option nat) (n : nat) : Prop :=
  match cancel_at with
  | None => True
  | Some t => (n < t)%nat
  end.

(* the random oracle behaves like rand.Int63n: a value in [0, n) *)
Definition oracle_ok (rnd : nat -> Z -> Z) : Prop := forall i n, 0 < n -> 0 <= rnd i n < n.

(* the replaced delay function returns normally *)
Definition calc_total (calc : nat -> Z -> Z -> option Z) : Prop := forall i r c, 0 <= c -> calc i r c <> None.

Lemma before_cancel_spec ca n : before_cancel ca n <-> cancelled_by ca n = false.
Proof.
  unfold before_cancel, cancelled_by. destruct ca as [t |]; [| tauto].
  destruct (Nat.leb_spec t n); split; intros; try lia; try discriminate; auto.
Qed.

Lemma cancelled_by_mono ca (a b : nat) : (a <= b)%nat -> cancelled_by ca b = false -> cancelled_by ca a = false.
Proof.
  unfold cancelled_by. destruct ca as [t |]; auto.
  intros Hab Hb. destruct (Nat.leb_spec t b); try discriminate. destruct (Nat.leb_spec t a); auto. lia.
Qed.

Lemma cancelled_by_some t n : cancelled_by (Some t) n = Nat.leb t n.
Proof. reflexivity. Qed.

Lemma plain_not_success o : plain o -> o_err o <> None.
Proof. intros [e [He _]]. congruence. Qed.

(* ------------------------------------------------------------------------------------------------------------ *)
(* machine arithmetic: the uint32 and int64 wrap-arounds are vacuous for max_shift <= 31                          *)
(* ------------------------------------------------------------------------------------------------------------ *)

Lemma pow2_32 : 2 ^ 32 = 4294967296. Proof. reflexivity. Qed.
Lemma pow2_63 : 2 ^ 63 = 9223372036854775808. Proof. reflexivity. Qed.
Lemma pow2_64 : 2 ^ 64 = 18446744073709551616. Proof. reflexivity. Qed.

Lemma bump_nonneg ms c : 0 <= c -> 0 <= bump ms c.
Proof.
  intros Hc. unfold bump, u32. destruct (c <? ms); [| lia].
  rewrite pow2_32. apply Z.mod_pos_bound. lia.
Qed.

(* the counter after k failures is min(k, max_shift): `c++` never wraps *)
Lemma bump_min ms (k : nat) : 0 <= ms <= 31 ->
  bump ms (Z.min (Z.of_nat k) ms) = Z.min (Z.of_nat (S k)) ms.
Proof.
  intros Hms. unfold bump, u32. rewrite pow2_32.
  destruct (Z.ltb_spec (Z.min (Z.of_nat k) ms) ms) as [Hlt | Hge].
  - rewrite Z.mod_small by lia. lia.
  - lia.
Qed.

(* `1 << min(c, max_shift)` in a uint32 is the mathematical power: no wrap *)
Lemma calc_n_pow ms c : 0 <= ms <= 31 -> 0 <= c ->
  calc_n ms c = 2 ^ Z.min c ms /\ 0 < calc_n ms c.
Proof.
  intros Hms Hc. unfold calc_n, u32.
  assert (He : (if ms <? c then ms else c) = Z.min c ms) by (destruct (Z.ltb_spec ms c); lia).
  rewrite He.
  assert (Hlt : 2 ^ Z.min c ms < 2 ^ 32) by (apply Z.pow_lt_mono_r; lia).
  assert (Hpos : 0 < 2 ^ Z.min c ms) by (apply Z.pow_pos_nonneg; lia).
  rewrite Z.mod_small by lia. split; [reflexivity | exact Hpos].
Qed.

Lemma i64_small x : - 2 ^ 63 <= x < 2 ^ 63 -> i64 x = x.
Proof.
  intros Hx. unfold i64. rewrite pow2_63 in *. rewrite pow2_64. rewrite Z.mod_small by lia. lia.
Qed.

Lemma calc_real_total ms rnd : 0 <= ms <= 31 -> calc_total (calc_real ms rnd).
Proof.
  intros Hms i r c Hc. unfold calc_real.
  destruct (calc_n_pow ms c Hms Hc) as [_ Hpos].
  destruct (Z.leb_spec (calc_n ms c) 0); [lia | discriminate].
Qed.

Lemma calc_list_total ds : calc_total (calc_list ds).
Proof. intros i r c _. unfold calc_list. discriminate. Qed.

(* the real delay computation, in closed form *)
Lemma calc_real_spec ms rnd i rate c : 0 <= ms <= 31 -> 0 <= c -> oracle_ok rnd ->
  let slots := 2 ^ Z.min c ms in
  exists j, j = rnd i slots /\ 0 <= j <= slots - 1 /\
            calc_real ms rnd i rate c = Some (i64 (j * rate)) /\
            (0 < rate -> (slots - 1) * rate < 2 ^ 63 -> calc_real ms rnd i rate c = Some (j * rate)).
Proof.
  intros Hms Hc Hor slots. destruct (calc_n_pow ms c Hms Hc) as [Hn Hpos].
  unfold calc_real. fold slots in Hn. rewrite Hn in *.
  destruct (Z.leb_spec slots 0) as [Hle | Hgt]; [lia |].
  exists (rnd i slots). pose proof (Hor i slots Hpos) as Hj.
  split; [reflexivity |]. split; [lia |]. split; [reflexivity |].
  intros Hr Hfit. rewrite i64_small; [reflexivity |].
  rewrite pow2_63 in *. nia.
Qed.

(* ------------------------------------------------------------------------------------------------------------ *)
(* the loop, for the code as it is and ANY delay function plugged into the seam                                  *)
(* ------------------------------------------------------------------------------------------------------------ *)

Section Generic.
  Variable ms : Z.
  Variable calc : nat -> Z -> Z -> option Z.
  Variable ca : option nat.
  Variable rate : Z.

  Notation L := (loop faithful ms calc ca rate).

  Lemma loop_nil k c :
    L [] k c = if cancelled_by ca (2 * k) then mkR 0 None RCtx [] else mkR 0 None RExhausted [].
  Proof. reflexivity. Qed.

  Lemma loop_cons o rest k c :
    L (o :: rest) k c =
    if cancelled_by ca (2 * k) then mkR 0 None RCtx []
    else match o_err o with
         | None => mkR 1 (o_res o) RNil []
         | Some e =>
             if is_fatal e then mkR 1 (o_res o) (RErr (unpack e)) []
             else match calc k rate (bump ms c) with
                  | None => mkR 1 None RPanic []
                  | Some d =>
                      let r := L rest (S k) (bump ms c) in
                      mkR (S (calls r)) (res r) (ret r)
                          (mkW rate (bump ms c) d (cancelled_by ca (2 * k + 1))
                               (wait_how_of d (cancelled_by ca (2 * k + 2))) :: waits r)
                  end
         end.
  Proof. reflexivity. Qed.

  Lemma loop_cancelled script k c : cancelled_by ca (2 * k) = true -> L script k c = mkR 0 None RCtx [].
  Proof. intros Hc. destruct script as [| o rest]; [rewrite loop_nil | rewrite loop_cons]; rewrite Hc; reflexivity. Qed.

  Hypothesis Hcalc : calc_total calc.

  (* the loop runs through plain failures up to the first success or fatal error, provided the context is not
     cancelled before the ctx.Err() check of that attempt *)
  Lemma loop_terminal pre : forall k c o post,
    0 <= c -> Forall plain pre -> cancelled_by ca (2 * (k + length pre)) = false ->
    success o \/ fatal o ->
    let R := L (pre ++ o :: post) k c in
    calls R = S (length pre) /\ res R = o_res o /\
    ret R = match o_err o with None => RNil | Some e => RErr (unpack e) end /\
    length (waits R) = length pre.
  Proof.
    induction pre as [| p pre IH]; intros k c o post Hc Hpre Hnc Ho R; subst R.
    - cbn [app length] in *. rewrite Nat.add_0_r in Hnc. rewrite loop_cons, Hnc.
      destruct Ho as [Hs | [e [He Hf]]].
      + unfold success in Hs. rewrite Hs. cbn. auto.
      + rewrite He, Hf. cbn. auto.
    - cbn [app length] in *. inversion Hpre as [| p0 pre0 Hp Hpre']; subst p0 pre0.
      destruct Hp as [e [He Hnf]].
      rewrite loop_cons.
      rewrite (cancelled_by_mono ca (2 * k) (2 * (k + S (length pre))) ltac:(lia) Hnc).
      rewrite He, Hnf.
      pose proof (bump_nonneg ms c Hc) as Hb.
      destruct (calc k rate (bump ms c)) as [d |] eqn:Hd; [| exfalso; exact (Hcalc k rate _ Hb Hd)].
      cbv zeta. cbn [calls res ret waits length].
      assert (Hnc' : cancelled_by ca (2 * (S k + length pre)) = false)
        by (replace (S k + length pre)%nat with (k + S (length pre))%nat by lia; exact Hnc).
      destruct (IH (S k) (bump ms c) o post Hb Hpre' Hnc' Ho) as [H1 [H2 [H3 H4]]].
      rewrite H1, H2, H3, H4. auto.
  Qed.

  (* no call starts after the cancellation: at most m calls, where m calls had started when it happened *)
  Lemma loop_calls_bound script : forall k c t m,
    ca = Some t -> (t <= 2 * m)%nat -> (k <= m)%nat -> (calls (L script k c) + k <= m)%nat.
  Proof using ms calc ca rate.
    induction script as [| o rest IH]; intros k c t m Hca Htm Hkm.
    - rewrite loop_nil. destruct (cancelled_by ca (2 * k)); cbn [calls]; lia.
    - rewrite loop_cons. destruct (cancelled_by ca (2 * k)) eqn:Hcb; [cbn [calls]; lia |].
      assert (Hk : (S k <= m)%nat).
      { rewrite Hca, cancelled_by_some in Hcb. destruct (Nat.leb_spec t (2 * k)); [discriminate | lia]. }
      destruct (o_err o) as [e |]; [| cbn [calls]; lia].
      destruct (is_fatal e); [cbn [calls]; lia |].
      destruct (calc k rate (bump ms c)) as [d |]; [| cbn [calls]; lia].
      cbv zeta. cbn [calls]. specialize (IH (S k) (bump ms c) t m Hca Htm Hk). lia.
  Qed.

  (* ... and if the first m outcomes are plain failures the closure returns ctx.Err() with a nil result after
     exactly m calls *)
  Lemma loop_cancel_ctx j : forall script k c t m,
    ca = Some t -> (t <= 2 * m)%nat -> (2 * m <= t + 1)%nat -> (k + j = m)%nat -> 0 <= c ->
    Forall plain (firstn j script) -> (j <= length script)%nat ->
    let R := L script k c in
    calls R = j /\ res R = None /\ ret R = RCtx /\ length (waits R) = j.
  Proof.
    induction j as [| j IH]; intros script k c t m Hca Htm Hmt Hkj Hc Hpl Hlen R; subst R.
    - rewrite loop_cancelled; [cbn; auto |].
      rewrite Hca, cancelled_by_some. apply Nat.leb_le. lia.
    - destruct script as [| o rest]; [cbn [length] in Hlen; lia |].
      cbn [firstn length] in *. inversion Hpl as [| o0 l0 Ho Hpl']; subst o0 l0.
      destruct Ho as [e [He Hnf]].
      rewrite loop_cons.
      assert (Hcb : cancelled_by ca (2 * k) = false).
      { rewrite Hca, cancelled_by_some. apply Nat.leb_gt. lia. }
      rewrite Hcb, He, Hnf.
      pose proof (bump_nonneg ms c Hc) as Hb.
      destruct (calc k rate (bump ms c)) as [d |] eqn:Hd; [| exfalso; exact (Hcalc k rate _ Hb Hd)].
      cbv zeta. cbn [calls res ret waits length].
      destruct (IH rest (S k) (bump ms c) t m Hca Htm Hmt ltac:(lia) Hb Hpl' ltac:(lia)) as [H1 [H2 [H3 H4]]].
      rewrite H1, H2, H3, H4. auto.
  Qed.

  (* each retry delay follows a call: never more delays than calls *)
  Lemma loop_waits_le_calls script : forall k c, (length (waits (L script k c)) <= calls (L script k c))%nat.
  Proof using ms calc ca rate.
    induction script as [| o rest IH]; intros k c.
    - rewrite loop_nil. destruct (cancelled_by ca (2 * k)); cbn; lia.
    - rewrite loop_cons. destruct (cancelled_by ca (2 * k)); [cbn; lia |].
      destruct (o_err o) as [e |]; [| cbn; lia].
      destruct (is_fatal e); [cbn; lia |].
      destruct (calc k rate (bump ms c)) as [d |]; [| cbn; lia].
      cbv zeta. cbn [calls waits length]. specialize (IH (S k) (bump ms c)). lia.
  Qed.

  (* what is passed to, and returned by, the delay function at the i-th retry, and how the wait ends *)
  Lemma loop_waits_nth script : forall k c i w,
    0 <= ms <= 31 -> c = Z.min (Z.of_nat k) ms ->
    nth_error (waits (L script k c)) i = Some w ->
    w_rate w = rate /\ w_c w = Z.min (Z.of_nat (S (k + i))) ms /\
    calc (k + i)%nat rate (w_c w) = Some (w_d w) /\
    w_done w = cancelled_by ca (2 * (k + i) + 1) /\
    w_how w = wait_how_of (w_d w) (cancelled_by ca (2 * (k + i) + 2)).
  Proof using ms calc ca rate.
    induction script as [| o rest IH]; intros k c i w Hms Hc Hn.
    - rewrite loop_nil in Hn. destruct (cancelled_by ca (2 * k)); destruct i; discriminate.
    - rewrite loop_cons in Hn. destruct (cancelled_by ca (2 * k)); [destruct i; discriminate |].
      destruct (o_err o) as [e |]; [| destruct i; discriminate].
      destruct (is_fatal e); [destruct i; discriminate |].
      assert (Hb : bump ms c = Z.min (Z.of_nat (S k)) ms) by (rewrite Hc; apply bump_min; exact Hms).
      destruct (calc k rate (bump ms c)) as [d |] eqn:Hd; [| destruct i; discriminate].
      cbv zeta in Hn. cbn [waits] in Hn. destruct i as [| i].
      + cbn [nth_error] in Hn. injection Hn as Hw. subst w. cbn [w_rate w_c w_d w_done w_how].
        rewrite Nat.add_0_r. rewrite Hd. rewrite Hb. auto.
      + cbn [nth_error] in Hn.
        destruct (IH (S k) (bump ms c) i w Hms Hb Hn) as [H1 [H2 [H3 [H4 H5]]]].
        replace (k + S i)%nat with (S k + i)%nat by lia. auto.
  Qed.

  (* a wait during (or before) which the context is cancelled is the last thing the closure does: the next
     ctx.Err() check fails, no further call and no further wait *)
  Lemma loop_after_cancelled_wait script : forall k c i w,
    nth_error (waits (L script k c)) i = Some w ->
    cancelled_by ca (2 * (k + i) + 2) = true ->
    let R := L script k c in
    calls R = S i /\ res R = None /\ ret R = RCtx /\ length (waits R) = S i.
  Proof using ms calc ca rate.
    induction script as [| o rest IH]; intros k c i w Hn Hcb R; subst R.
    - rewrite loop_nil in Hn. destruct (cancelled_by ca (2 * k)); destruct i; discriminate.
    - rewrite loop_cons in *. destruct (cancelled_by ca (2 * k)); [destruct i; discriminate |].
      destruct (o_err o) as [e |]; [| destruct i; discriminate].
      destruct (is_fatal e); [destruct i; discriminate |].
      destruct (calc k rate (bump ms c)) as [d |] eqn:Hd; [| destruct i; discriminate].
      cbv zeta in *. cbn [waits calls res ret] in *. destruct i as [| i].
      + rewrite loop_cancelled; [cbn; auto |].
        replace (2 * S k)%nat with (2 * (k + 0) + 2)%nat by lia. exact Hcb.
      + cbn [nth_error] in Hn.
        assert (Hcb' : cancelled_by ca (2 * (S k + i) + 2) = true)
          by (replace (S k + i)%nat with (k + S i)%nat by lia; exact Hcb).
        destruct (IH (S k) (bump ms c) i w Hn Hcb') as [H1 [H2 [H3 H4]]].
        rewrite H1, H2, H3. cbn [length]. rewrite H4. auto.
  Qed.

  (* the script ran out: only if every outcome was a plain failure and the context was never seen cancelled *)
  Lemma loop_exhausted script : forall k c,
    ret (L script k c) = RExhausted ->
    Forall plain script /\ calls (L script k c) = length script /\
    cancelled_by ca (2 * (k + length script)) = false.
  Proof using ms calc ca rate.
    induction script as [| o rest IH]; intros k c Hr.
    - rewrite loop_nil in *. destruct (cancelled_by ca (2 * k)) eqn:Hcb; [discriminate |].
      cbn [length calls]. rewrite Nat.add_0_r. auto.
    - rewrite loop_cons in *. destruct (cancelled_by ca (2 * k)); [discriminate |].
      destruct (o_err o) as [e |] eqn:He; [| discriminate].
      destruct (is_fatal e) eqn:Hf; [discriminate |].
      destruct (calc k rate (bump ms c)) as [d |]; [| discriminate].
      cbv zeta in *. cbn [ret calls length] in *.
      destruct (IH (S k) (bump ms c) Hr) as [H1 [H2 H3]].
      split; [constructor; [exists e; auto | exact H1] |]. split; [lia |].
      replace (k + S (length rest))%nat with (S k + length rest)%nat by lia. exact H3.
  Qed.

  (* the closure never returns a fatal wrapper, and never panics in the delay computation *)
  Lemma loop_ret_shape script : forall k c, 0 <= c ->
    match ret (L script k c) with
    | RErr e => is_fatal e = false
    | RPanic => False
    | _ => True
    end.
  Proof.
    induction script as [| o rest IH]; intros k c Hc.
    - rewrite loop_nil. destruct (cancelled_by ca (2 * k)); exact I.
    - rewrite loop_cons. destruct (cancelled_by ca (2 * k)); [exact I |].
      destruct (o_err o) as [e |]; [| exact I].
      destruct (is_fatal e); [cbn [ret]; apply unpack_not_fatal |].
      pose proof (bump_nonneg ms c Hc) as Hb.
      destruct (calc k rate (bump ms c)) as [d |] eqn:Hd; [| exact (Hcalc k rate _ Hb Hd)].
      cbv zeta. cbn [ret]. apply IH. exact Hb.
  Qed.
End Generic.

(* ------------------------------------------------------------------------------------------------------------ *)
(* C18 outcome clauses, for any total delay function in the seam                                                 *)
(* ------------------------------------------------------------------------------------------------------------ *)

Definition outcome_spec (R : result) (ca : option nat) (script : list outcome) : Prop :=
  (* first success: its result, nil error *)
  (forall pre o post, script = pre ++ o :: post -> Forall plain pre -> success o ->
     before_cancel ca (2 * length pre) ->
     calls R = S (length pre) /\ res R = o_res o /\ ret R = RNil) /\
  (* first fatal error: that call's result and the fully unwrapped error *)
  (forall pre o post e, script = pre ++ o :: post -> Forall plain pre -> o_err o = Some e -> is_fatal e = true ->
     before_cancel ca (2 * length pre) ->
     calls R = S (length pre) /\ res R = o_res o /\ ret R = RErr (unpack e) /\ is_fatal (unpack e) = false /\
     (forall depth id, e = wrap depth (EBase id) -> ret R = RErr (EBase id))) /\
  (* cancellation at event t, when m calls had been started (t = 2m: before the first call / during the wait after
     call m; t = 2m-1: during call m): no further call starts, and unless a call ended the loop the closure returns
     ctx.Err() with a nil result *)
  (forall t m, ca = Some t -> (t <= 2 * m)%nat -> (2 * m <= t + 1)%nat ->
     (calls R <= m)%nat /\
     (Forall plain (firstn m script) -> (m <= length script)%nat ->
      calls R = m /\ res R = None /\ ret R = RCtx)) /\
  (* whatever happens: the returned error is never a fatal wrapper, the delay computation never panics, each delay
     follows a call, and the script is only exhausted by plain failures *)
  match ret R with RErr e => is_fatal e = false | RPanic => False | _ => True end /\
  (length (waits R) <= calls R <= length script)%nat /\
  (ret R = RExhausted -> Forall plain script /\ calls R = length script).

Lemma loop_calls_le_script ms calc ca rate script : forall k c,
  (calls (loop faithful ms calc ca rate script k c) <= length script)%nat.
Proof.
  induction script as [| o rest IH]; intros k c.
  - rewrite loop_nil. destruct (cancelled_by ca (2 * k)); cbn; lia.
  - rewrite loop_cons. destruct (cancelled_by ca (2 * k)); [cbn; lia |].
    destruct (o_err o) as [e |]; [| cbn; lia].
    destruct (is_fatal e); [cbn; lia |].
    destruct (calc k rate (bump ms c)) as [d |]; [| cbn; lia].
    cbv zeta. cbn [calls length]. specialize (IH (S k) (bump ms c)). lia.
Qed.

Theorem outcome_any_seam ms calc ca rate script :
  calc_total calc ->
  outcome_spec (loop faithful ms calc ca rate script 0 0) ca script.
Proof.
  intros Hcalc. unfold outcome_spec.
  split; [| split; [| split; [| split; [| split]]]].
  - intros pre o post Hs Hpre Ho Hbc.
    destruct (loop_terminal ms calc ca rate Hcalc pre 0%nat 0 o post ltac:(lia) Hpre
               ltac:(apply before_cancel_spec; exact Hbc) (or_introl Ho)) as [H1 [H2 [H3 _]]].
    subst script. unfold success in Ho. rewrite Ho in H3. auto.
  - intros pre o post e Hs Hpre He Hf Hbc.
    destruct (loop_terminal ms calc ca rate Hcalc pre 0%nat 0 o post ltac:(lia) Hpre
               ltac:(apply before_cancel_spec; exact Hbc) (or_intror (ex_intro _ e (conj He Hf)))) as [H1 [H2 [H3 _]]].
    subst script. rewrite He in H3.
    split; [exact H1 |]. split; [exact H2 |]. split; [exact H3 |]. split; [apply unpack_not_fatal |].
    intros depth id Hw. rewrite H3, Hw, unpack_wrap_base. reflexivity.
  - intros t m Hca Htm Hmt. split.
    + pose proof (loop_calls_bound ms calc ca rate script 0%nat 0 t m Hca Htm ltac:(lia)). lia.
    + intros Hpl Hlen.
      destruct (loop_cancel_ctx ms calc ca rate Hcalc m script 0%nat 0 t m Hca Htm Hmt ltac:(lia) ltac:(lia) Hpl Hlen)
        as [H1 [H2 [H3 _]]]. auto.
  - apply (loop_ret_shape ms calc ca rate Hcalc script 0%nat 0). lia.
  - split; [apply loop_waits_le_calls | apply loop_calls_le_script].
  - intros Hr. destruct (loop_exhausted ms calc ca rate script 0%nat 0 Hr) as [H1 [H2 _]]. auto.
Qed.

(* ------------------------------------------------------------------------------------------------------------ *)
(* instantiation: the real delay function (run) and the recorded one of the checker (run_seam)                   *)
(* ------------------------------------------------------------------------------------------------------------ *)

Theorem outcome_run ms drate rnd ca rate script :
  0 <= ms <= 31 ->
  outcome_spec (run faithful ms drate rnd ca rate script) ca script.
Proof. intros Hms. unfold run. apply outcome_any_seam. apply calc_real_total. exact Hms. Qed.

Theorem outcome_run_seam ca ds rate script : outcome_spec (run_seam ca ds rate script) ca script.
Proof. unfold run_seam. apply outcome_any_seam. apply calc_list_total. Qed.

Theorem fatal_fully_unwrapped (depth : nat) (id : Z) :
  (1 <= depth)%nat ->
  is_fatal (wrap depth (EBase id)) = true /\
  unpack (wrap depth (EBase id)) = EBase id /\
  is_fatal (unpack (wrap depth (EBase id))) = false.
Proof.
  intros Hd. destruct depth as [| d]; [lia |].
  split; [reflexivity |]. rewrite unpack_wrap_base. split; reflexivity.
Qed.

(* ---- default rate ---- *)
Theorem default_rate_used fl ms drate rnd ca rate script :
  rate <= 0 ->
  eff_rate drate rate = drate /\
  run fl ms drate rnd ca rate script = run fl ms drate rnd ca drate script.
Proof.
  intros Hr. unfold run, eff_rate.
  destruct (Z.leb_spec rate 0); [| lia]. destruct (drate <=? 0); split; reflexivity.
Qed.

Theorem given_rate_used drate rate : 0 < rate -> eff_rate drate rate = rate.
Proof. intros Hr. unfold eff_rate. destruct (Z.leb_spec rate 0); [lia | reflexivity]. Qed.

(* ---- delays ---- *)
Definition delay_spec (R : result) (ms r : Z) (rnd : nat -> Z -> Z) : Prop :=
  forall i w, nth_error (waits R) i = Some w ->
    let k := Z.of_nat (S i) in             (* this is the delay before the k-th retry *)
    let slots := 2 ^ Z.min k ms in
    w_rate w = r /\ w_c w = Z.min k ms /\
    exists j, j = rnd i slots /\ 0 <= j <= slots - 1 /\
              w_d w = i64 (j * r) /\
              ((slots - 1) * r < 2 ^ 63 -> w_d w = j * r).

Theorem delay_range ms drate rnd ca rate script :
  0 <= ms <= 31 -> 0 < drate -> oracle_ok rnd ->
  0 < eff_rate drate rate /\
  delay_spec (run faithful ms drate rnd ca rate script) ms (eff_rate drate rate) rnd.
Proof.
  intros Hms Hdr Hor.
  assert (Hpos : 0 < eff_rate drate rate) by (unfold eff_rate; destruct (Z.leb_spec rate 0); lia).
  split; [exact Hpos |].
  intros i w Hn k slots. unfold run in Hn.
  destruct (loop_waits_nth ms (calc_real ms rnd) ca (eff_rate drate rate) script 0%nat 0 i w Hms ltac:(lia) Hn)
    as [H1 [H2 [H3 _]]].
  cbn [Nat.add] in H2, H3. fold k in H2.
  split; [exact H1 |]. split; [exact H2 |].
  destruct (calc_real_spec ms rnd i (eff_rate drate rate) (w_c w) Hms ltac:(lia) Hor) as [j [Hj [Hjr [Hc1 Hc2]]]].
  assert (Hs : 2 ^ Z.min (w_c w) ms = slots) by (unfold slots; f_equal; lia).
  rewrite Hs in *.
  exists j. split; [exact Hj |]. split; [exact Hjr |]. split.
  - rewrite Hc1 in H3. injection H3 as H3. auto.
  - intros Hfit. rewrite (Hc2 Hpos Hfit) in H3. injection H3 as H3. auto.
Qed.

(* ---- waits ---- *)
Lemma wait_returns_spec d ctx_done timer_fired :
  wait_returns d ctx_done timer_fired = true <-> (d <= 0 \/ ctx_done = true \/ timer_fired = true).
Proof.
  unfold wait_returns. split.
  - intros Hr. destruct (Z.leb_spec d 0) as [Hd | Hd]; [left; exact Hd |].
    destruct ctx_done; [right; left; reflexivity |]. destruct timer_fired; [right; right; reflexivity | discriminate Hr].
  - intros [Hd | [Hc | Hf]].
    + destruct (Z.leb_spec d 0); [reflexivity | lia].
    + rewrite Hc. destruct (d <=? 0); reflexivity.
    + rewrite Hf. destruct (d <=? 0); destruct ctx_done; reflexivity.
Qed.

Lemma wait_how_sound d ctx_done :
  match wait_how_of d ctx_done with
  | WNone => d <= 0 /\ wait_returns d false false = true
  | WCut => 0 < d /\ ctx_done = true /\ wait_returns d true false = true
  | WTimer => 0 < d /\ ctx_done = false /\ wait_returns d false false = false /\ wait_returns d false true = true
  end.
Proof.
  unfold wait_how_of, wait_returns. destruct (Z.leb_spec d 0); [cbn; auto |].
  destruct ctx_done; cbn; auto.
Qed.

Definition wait_spec (R : result) (ca : option nat) : Prop :=
  forall i w, nth_error (waits R) i = Some w ->
    (w_d w <= 0 -> w_how w = WNone) /\
    (0 < w_d w -> before_cancel ca (2 * i + 2) -> w_how w = WTimer) /\
    (forall t, ca = Some t -> (t <= 2 * i + 2)%nat ->
       (0 < w_d w -> w_how w = WCut) /\ w_how w <> WTimer /\
       w_done w = Nat.leb t (2 * i + 1) /\
       calls R = S i /\ length (waits R) = S i /\ res R = None /\ ret R = RCtx).

Theorem wait_cut_any_seam ms calc ca rate script :
  0 <= ms <= 31 ->
  wait_spec (loop faithful ms calc ca rate script 0 0) ca.
Proof.
  intros Hms i w Hn.
  destruct (loop_waits_nth ms calc ca rate script 0%nat 0 i w Hms ltac:(lia) Hn) as [_ [_ [_ [H4 H5]]]].
  cbn [Nat.add] in H4, H5.
  split; [| split].
  - intros Hd. rewrite H5. unfold wait_how_of. destruct (Z.leb_spec (w_d w) 0); [reflexivity | lia].
  - intros Hd Hbc. apply before_cancel_spec in Hbc. rewrite H5, Hbc. unfold wait_how_of.
    destruct (Z.leb_spec (w_d w) 0); [lia | reflexivity].
  - intros t Hca Ht.
    assert (Hcb : cancelled_by ca (2 * i + 2) = true).
    { rewrite Hca, cancelled_by_some. apply Nat.leb_le. exact Ht. }
    assert (Hhow : w_how w = if w_d w <=? 0 then WNone else WCut) by (rewrite H5, Hcb; reflexivity).
    split; [| split; [| split]].
    + intros Hd. rewrite Hhow. destruct (Z.leb_spec (w_d w) 0); [lia | reflexivity].
    + rewrite Hhow. destruct (w_d w <=? 0); discriminate.
    + rewrite H4, Hca, cancelled_by_some. reflexivity.
    + destruct (loop_after_cancelled_wait ms calc ca rate script 0%nat 0 i w Hn Hcb) as [G1 [G2 [G3 G4]]]. auto.
Qed.

Theorem wait_cut_run ms drate rnd ca rate script :
  0 <= ms <= 31 ->
  wait_spec (run faithful ms drate rnd ca rate script) ca.
Proof. intros Hms. unfold run. apply wait_cut_any_seam. exact Hms. Qed.

(* ------------------------------------------------------------------------------------------------------------ *)
(* refutations: realistic defects, selected by the flags of the SAME loop function                               *)
(* ------------------------------------------------------------------------------------------------------------ *)

Definition rnd_max : nat -> Z -> Z := fun _ n => n - 1.      (* always the last slot *)
Lemma rnd_max_ok : oracle_ok rnd_max.
Proof. intros i n Hn. unfold rnd_max. lia. Qed.
Definition rnd_zero : nat -> Z -> Z := fun _ _ => 0.
Lemma rnd_zero_ok : oracle_ok rnd_zero.
Proof. intros i n Hn. unfold rnd_zero. lia. Qed.

(* counter incremented at the end of the loop body: the first delay is computed with c = 0, one slot only *)
Theorem counter_late_refuted :
  exists rnd script, oracle_ok rnd /\
    ~ delay_spec (run (mkF true false false false) max_shift_go default_rate_go rnd None 1000 script)
                 max_shift_go 1000 rnd.
Proof.
  exists rnd_max, [OPlain 7; OSuccess (Some 1)]. split; [exact rnd_max_ok |].
  intros H. specialize (H 0%nat (mkW 1000 0 0 false WNone) eq_refl).
  destruct H as [_ [Hc _]]. vm_compute in Hc. discriminate Hc.
Qed.

(* one level of unwrapping only: a doubly wrapped error is returned still wrapped *)
Theorem unwrap_one_refuted :
  exists ca script,
    ~ outcome_spec (run (mkF false true false false) max_shift_go default_rate_go rnd_zero ca 1000 script) ca script.
Proof.
  exists None, [OFatal 2 (Some 5) 9].
  intros [_ [_ [_ [H _]]]]. vm_compute in H. discriminate H.
Qed.

(* fatal test on the unwrapped error: never fatal, the loop goes on after a fatal error *)
Theorem fatal_inner_refuted :
  exists ca script,
    ~ outcome_spec (run (mkF false false true false) max_shift_go default_rate_go rnd_zero ca 1000 script) ca script.
Proof.
  exists None, [OFatal 1 (Some 5) 9; OSuccess (Some 6)].
  intros [_ [H _]].
  specialize (H [] (OFatal 1 (Some 5) 9) [OSuccess (Some 6)] (EFatal (EBase 9)) eq_refl (Forall_nil _) eq_refl eq_refl I).
  destruct H as [H _]. vm_compute in H. discriminate H.
Qed.

(* no ctx.Err() check before an attempt: a call starts although the context was cancelled before *)
Theorem no_ctx_check_refuted :
  exists ca script,
    ~ outcome_spec (run (mkF false false false true) max_shift_go default_rate_go rnd_zero ca 1000 script) ca script.
Proof.
  exists (Some 0%nat), [OSuccess (Some 6)].
  intros [_ [_ [H _]]].
  specialize (H 0%nat 0%nat eq_refl ltac:(lia) ltac:(lia)). destruct H as [H _].
  vm_compute in H. lia.
Qed.

(* the side condition max_shift <= 31 is needed: with a cap of 32 the uint32 shift wraps to 0 and Int63n panics *)
Theorem cap_above_31_refuted :
  exists script,
    ret (run faithful 32 default_rate_go rnd_zero None 1 script) = RPanic /\
    ~ outcome_spec (run faithful 32 default_rate_go rnd_zero None 1 script) None script.
Proof.
  exists (repeat (OPlain 1) 33).
  assert (H : ret (run faithful 32 default_rate_go rnd_zero None 1 (repeat (OPlain 1) 33)) = RPanic)
    by (vm_compute; reflexivity).
  split; [exact H |]. intros [_ [_ [_ [G _]]]]. rewrite H in G. exact G.
Qed.

(* ------------------------------------------------------------------------------------------------------------ *)
(* examples: the hypotheses are satisfiable and the interesting cases occur                                      *)
(* ------------------------------------------------------------------------------------------------------------ *)

(* 40 plain failures then a success, never cancelled: 41 calls, the success's result; the counter passed to the
   delay function is 1,2,...,31,31,...,31 (the cap is crossed) and with the last-slot oracle the k-th delay is
   (2^min(k,31) - 1) * rate *)
Example retry_crosses_cap :
  let R := run faithful max_shift_go default_rate_go rnd_max None 2 (repeat (OPlain 3) 40 ++ [OSuccess (Some 77)]) in
  calls R = 41%nat /\ res R = Some 77 /\ ret R = RNil /\
  map w_c (waits R) = map Z.of_nat (seq 1 31) ++ repeat 31 9 /\
  nth_error (map w_d (waits R)) 0 = Some 2 /\
  nth_error (map w_d (waits R)) 30 = Some ((2 ^ 31 - 1) * 2) /\
  nth_error (map w_d (waits R)) 39 = Some ((2 ^ 31 - 1) * 2) /\
  Forall (fun w => w_how w = WTimer) (waits R).
Proof. vm_compute. repeat split; try reflexivity. repeat constructor. Qed.

(* a triply wrapped fatal error with a result at the third call *)
Example retry_fatal_nested :
  let R := run faithful max_shift_go default_rate_go rnd_zero None 0 [OPlain 1; OPlain 2; OFatal 3 (Some 8) 9; OSuccess None] in
  calls R = 3%nat /\ res R = Some 8 /\ ret R = RErr (EBase 9) /\ map w_rate (waits R) = [default_rate_go; default_rate_go].
Proof. vm_compute. repeat split; reflexivity. Qed.

(* cancelled during the wait after call 2 (event 4): two calls, context error, the second wait is cut *)
Example retry_cancel_in_wait :
  let R := run faithful max_shift_go default_rate_go rnd_max (Some 4%nat) 5 (repeat (OPlain 1) 6) in
  calls R = 2%nat /\ res R = None /\ ret R = RCtx /\ map w_how (waits R) = [WTimer; WCut] /\ map w_done (waits R) = [false; false].
Proof. vm_compute. repeat split; reflexivity. Qed.

(* cancelled during call 2 (event 3), which fails plainly: the wait is entered with a done context and cut *)
Example retry_cancel_in_call :
  let R := run faithful max_shift_go default_rate_go rnd_max (Some 3%nat) 5 (repeat (OPlain 1) 6) in
  calls R = 2%nat /\ ret R = RCtx /\ map w_how (waits R) = [WTimer; WCut] /\ map w_done (waits R) = [false; true].
Proof. vm_compute. repeat split; reflexivity. Qed.

(* cancelled during call 2, which succeeds: the in-flight call ends the loop *)
Example retry_cancel_in_successful_call :
  let R := run faithful max_shift_go default_rate_go rnd_max (Some 3%nat) 5 [OPlain 1; OSuccess (Some 4); OPlain 2] in
  calls R = 2%nat /\ res R = Some 4 /\ ret R = RNil.
Proof. vm_compute. repeat split; reflexivity. Qed.

(* cancelled before the first check: no call at all *)
Example retry_cancel_before :
  let R := run faithful max_shift_go default_rate_go rnd_max (Some 0%nat) 5 [OSuccess (Some 4)] in
  calls R = 0%nat /\ res R = None /\ ret R = RCtx.
Proof. vm_compute. repeat split; reflexivity. Qed.

(* the no-overflow side condition of the delay clause is satisfiable for the default rate at the cap, and is needed:
   a rate of 2^33 ns at the cap wraps the int64 product to a negative Duration *)
Example fits_default_rate : (2 ^ Z.min 40 max_shift_go - 1) * default_rate_go < 2 ^ 63.
Proof. vm_compute. reflexivity. Qed.
Example overflow_wraps : calc_real max_shift_go rnd_max 0 (2 ^ 33) 31 = Some (- 2 ^ 33).
Proof. vm_compute. reflexivity. Qed.

Example slot_ok_examples :
  slot_ok 1000 1 1000 = true /\ slot_ok 1000 1 2000 = false /\ slot_ok 1000 0 0 = true /\
  slot_ok 7 40 ((2 ^ 31 - 1) * 7) = true /\ slot_ok 7 40 (2 ^ 31 * 7) = false /\ slot_ok 7 3 15 = false.
Proof. vm_compute. repeat split; reflexivity. Qed.

Example calc_exact_example : calc_exact 1000 3 29 = Some 5000 /\ calc_exact 1000 40 (2 ^ 31 + 5) = Some 5000.
Proof. vm_compute. split; reflexivity. Qed.

Theorem counter_and_shift_do_not_wrap (ms : Z) :
  0 <= ms <= 31 ->
  (forall k : nat, bump ms (Z.min (Z.of_nat k) ms) = Z.min (Z.of_nat (S k)) ms) /\
  (forall c, 0 <= c -> calc_n ms c = 2 ^ Z.min c ms /\ 0 < calc_n ms c).
Proof.
  intros Hms. split; [intros k; exact (bump_min ms k Hms) | intros c Hc; exact (calc_n_pow ms c Hms Hc)].
Qed.

Theorem constants_satisfy_side_conditions :
  max_shift_go = 31 /\ default_rate_go = 300 * 1000000 /\ 0 <= max_shift_go <= 31 /\ 0 < default_rate_go /\
  (2 ^ Z.min 40 max_shift_go - 1) * default_rate_go < 2 ^ 63.
Proof. vm_compute. repeat split; reflexivity || discriminate. Qed.
