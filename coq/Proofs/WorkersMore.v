(* More proofs about Model/Workers.v (C14), clause by clause against the statement of the property:

   1. delivery: the value a caller is handed at the p-th position of its output is the result of the call IT made as its
      p-th operation, that call's function ran exactly once, and no call is delivered twice or to somebody else;
      conversely every returned call sits in its owner's output (InvR, `delivered`, `terminal_all_delivered`);
   2. `maxreq` really is "the largest count any caller has requested so far" (`maxreq_characterisation`);
   3. live workers are never blocked, so a non-empty queue always has an ENABLED worker step (`queue_has_enabled_worker`);
      the queue is FIFO in call order: the worker always takes the oldest queued call (`fifo`);
   4. Wait returns only when count = 0, and then no work is queued, dequeued-but-not-started or running
      (`wait_returns_idle`).

   Assumption of the model (stated in Properties/C14.v): the functions handed to Call terminate and do not call back
   into the same Workers; the nested case is Model/WorkersNested.v. *)
From Coq Require Import List Arith Lia Bool ZifyBool.
From BB.Model Require Import Workers.
From BB.Proofs Require Import Workers.
Import ListNotations.
Arguments Nat.sub : simpl never.
Arguments Nat.ltb : simpl never.
Arguments Nat.leb : simpl never.
Arguments Nat.eqb : simpl never.
Arguments Nat.max : simpl never.
Arguments Nat.mul : simpl never.

(* ------------------------------------------------------------------------------------------------ lists *)
Lemma nth_error_snoc {A} (l : list A) (x : A) (p : nat) (y : A) :
  nth_error (l ++ [x]) p = Some y -> (p < length l /\ nth_error l p = Some y) \/ (p = length l /\ y = x).
Proof.
  intros H. destruct (lt_eq_lt_dec p (length l)) as [[Hlt|Heq]|Hgt].
  - left. rewrite nth_error_app1 in H by exact Hlt. auto.
  - right. subst p. rewrite nth_error_app2 in H by lia. rewrite Nat.sub_diag in H. cbn in H. injection H as <-. auto.
  - exfalso. assert (Hn : nth_error (l ++ [x]) p = None) by (apply nth_error_None; rewrite app_length; cbn; lia). congruence.
Qed.

Lemma nth_error_snoc_old {A} (l : list A) (x : A) (p : nat) (y : A) :
  nth_error l p = Some y -> nth_error (l ++ [x]) p = Some y.
Proof. intros H. rewrite nth_error_app1; [exact H|]. apply nth_error_Some. congruence. Qed.

Lemma nth_error_snoc_last {A} (l : list A) (x : A) : nth_error (l ++ [x]) (length l) = Some x.
Proof. rewrite nth_error_app2 by lia. rewrite Nat.sub_diag. reflexivity. Qed.

Lemma countp_pos_of_nth {A} (P : A -> bool) (l : list A) (n : nat) (x : A) :
  nth_error l n = Some x -> P x = true -> 0 < countp P l.
Proof.
  intros Hn Hx. destruct (countp P l) eqn:H0; [|lia]. rewrite (countp_zero_nth _ _ H0 n x Hn) in Hx. discriminate.
Qed.

(* ------------------------------------------------------------------------------------------------ delivery *)
(* R1: every RCall i v in a caller's output is the record of a call owned by that caller, made at that position, marked
       returned with that value;
   R2: every call has an owner thread; while the call is not returned its owner is blocked in it and the call's position
       is the next position of the owner's output; once returned, the owner's output holds it at the call's position;
   R3: a caller blocked in call i owns call i. *)
Definition InvR (s : st) : Prop :=
  (forall t c p i v, nth_error (callers s) t = Some c -> nth_error (outs c) p = Some (RCall i v) ->
     exists cl, nth_error (calls s) i = Some cl /\ cown cl = t /\ cidx cl = p /\ cs cl = SReturned v) /\
  (forall i cl, nth_error (calls s) i = Some cl ->
     exists c, nth_error (callers s) (cown cl) = Some c /\
       match cs cl with
       | SReturned v => nth_error (outs c) (cidx cl) = Some (RCall i v)
       | _ => pc c = PBlocked i /\ cidx cl = length (outs c)
       end) /\
  (forall t c i, nth_error (callers s) t = Some c -> pc c = PBlocked i ->
     exists cl, nth_error (calls s) i = Some cl /\ cown cl = t).

Lemma invR_init (progs : list (list cop)) : InvR (init progs).
Proof.
  split; [|split].
  - intros t c p i v Hc Ho. cbn in Hc. apply nth_error_In in Hc. apply in_map_iff in Hc. destruct Hc as (q & <- & _).
    cbn in Ho. destruct p; discriminate.
  - intros i cl Hi. cbn in Hi. destruct i; discriminate.
  - intros t c i Hc Hpc. cbn in Hc. apply nth_error_In in Hc. apply in_map_iff in Hc. destruct Hc as (q & <- & _).
    discriminate.
Qed.

(* a worker-side change of the status of call j (start / end) that keeps owner and position and does not touch a
   returned call *)
Lemma invR_updf (s : st) (j : nat) (f : call -> call) (w : list wk) :
  InvR s ->
  (forall c, cown (f c) = cown c /\ cidx (f c) = cidx c) ->
  (forall cl, nth_error (calls s) j = Some cl -> (forall v, cs cl <> SReturned v) /\ (forall v, cs (f cl) <> SReturned v)) ->
  InvR (mk (count s) (target s) (queue s) w (updf (calls s) j f) (callers s) (maxreq s)).
Proof.
  intros (R1 & R2 & R3) Hf Hnr. split; [|split]; cbn [calls callers mk].
  - intros t c p i v Hc Ho. destruct (R1 t c p i v Hc Ho) as (cl & Hcl & H1 & H2 & H3).
    destruct (Nat.eq_dec i j) as [->|Hne].
    + exfalso. destruct (Hnr cl Hcl) as (Hn & _). exact (Hn v H3).
    + exists cl. rewrite nth_error_updf_other by exact Hne. auto.
  - intros i cl' Hi. destruct (Nat.eq_dec i j) as [->|Hne].
    + rewrite nth_error_updf_same in Hi. destruct (nth_error (calls s) j) as [cl|] eqn:Hcl; [|discriminate].
      cbn in Hi. injection Hi as <-. destruct (Hnr cl eq_refl) as (Hn1 & Hn2). destruct (Hf cl) as (E1 & E2).
      destruct (R2 j cl Hcl) as (c & Hc & Hm). exists c. rewrite E1, E2. split; [exact Hc|].
      destruct (cs cl) eqn:Ecs; try (exfalso; eapply Hn1; reflexivity);
        destruct (cs (f cl)) eqn:Ecs'; try (exfalso; eapply Hn2; reflexivity); exact Hm.
    + rewrite nth_error_updf_other in Hi by exact Hne. exact (R2 i cl' Hi).
  - intros t c i Hc Hpc. destruct (R3 t c i Hc Hpc) as (cl & Hcl & Ho).
    destruct (Nat.eq_dec i j) as [->|Hne].
    + exists (f cl). rewrite nth_error_updf_same, Hcl. split; [reflexivity|]. rewrite (proj1 (Hf cl)). exact Ho.
    + exists cl. rewrite nth_error_updf_other by exact Hne. auto.
Qed.

(* a caller step that appends a non-RCall output (or nothing) and leaves a caller that was NOT inside a Call *)
Lemma invR_caller_plain (s : st) (t : nat) (c c' : caller) :
  InvR s -> nth_error (callers s) t = Some c -> (forall i, pc c <> PBlocked i) -> (forall i, pc c' <> PBlocked i) ->
  (outs c' = outs c \/ exists o, outs c' = outs c ++ [o] /\ forall i v, o <> RCall i v) ->
  InvR (mk (count s) (target s) (queue s) (ws s) (calls s) (upd (callers s) t c') (maxreq s)).
Proof.
  intros (R1 & R2 & R3) Hc Hnb Hnb' Ho. split; [|split]; cbn [calls callers mk].
  - intros t0 c0 p i v Hc0 Hp. destruct (Nat.eq_dec t0 t) as [->|Hne].
    + rewrite (nth_error_upd_same _ _ _ c' Hc) in Hc0. injection Hc0 as <-.
      destruct Ho as [E|(o & E & Hno)]; rewrite E in Hp.
      * exact (R1 t c p i v Hc Hp).
      * destruct (nth_error_snoc _ _ _ _ Hp) as [(_ & Hp')|(_ & Heq)]; [exact (R1 t c p i v Hc Hp')|].
        exfalso. exact (Hno i v (eq_sym Heq)).
    + rewrite nth_error_upd_other in Hc0 by exact Hne. exact (R1 t0 c0 p i v Hc0 Hp).
  - intros i cl Hi. destruct (R2 i cl Hi) as (c0 & Hc0 & Hm).
    destruct (Nat.eq_dec (cown cl) t) as [Heq|Hne].
    + rewrite Heq in Hc0. rewrite Hc in Hc0. injection Hc0 as <-.
      exists c'. rewrite Heq. split; [eapply nth_error_upd_same; exact Hc|].
      destruct (cs cl); try (exfalso; exact (Hnb i (proj1 Hm))).
      destruct Ho as [E|(o & E & _)]; rewrite E; [exact Hm|apply nth_error_snoc_old; exact Hm].
    + exists c0. rewrite nth_error_upd_other by exact Hne. auto.
  - intros t0 c0 i Hc0 Hpc. destruct (Nat.eq_dec t0 t) as [->|Hne].
    + rewrite (nth_error_upd_same _ _ _ c' Hc) in Hc0. injection Hc0 as <-. exfalso. exact (Hnb' i Hpc).
    + rewrite nth_error_upd_other in Hc0 by exact Hne. exact (R3 t0 c0 i Hc0 Hpc).
Qed.

Lemma wgot_queued (s : st) (w j : nat) : (forall i, InvC i s) -> nth_error (ws s) w = Some (WGot j) ->
  forall cl, nth_error (calls s) j = Some cl -> cs cl = SQueued.
Proof.
  intros HC Hw cl Hcl. specialize (HC j). unfold InvC in HC. rewrite Hcl in HC.
  assert (Hpos : 0 < countp (is_got j) (ws s)).
  { eapply countp_pos_of_nth; [exact Hw|]. cbn. apply Nat.eqb_refl. }
  destruct (cs cl); [reflexivity|lia..].
Qed.

Lemma wrun_running (s : st) (w j : nat) : (forall i, InvC i s) -> nth_error (ws s) w = Some (WRun j) ->
  forall cl, nth_error (calls s) j = Some cl -> cs cl = SRunning.
Proof.
  intros HC Hw cl Hcl. specialize (HC j). unfold InvC in HC. rewrite Hcl in HC.
  assert (Hpos : 0 < countp (is_run j) (ws s)).
  { eapply countp_pos_of_nth; [exact Hw|]. cbn. apply Nat.eqb_refl. }
  destruct (cs cl); [lia|reflexivity|lia..].
Qed.

Lemma invR_step (s : st) (x : pick) (s' : st) : (forall i, InvC i s) -> InvR s -> Step s x s' -> InvR s'.
Proof.
  intros HC HR H.
  destruct H as [w Hw Hex|w j rest Hw Hqe Hle|w j Hw|w j Hw|t c rest Hc Hpc Hs|t c k' rest Hc Hpc Hs
                 |t c rest Hc Hpc Hs|t c rest Hc Hpc Hs|t c j cl r Hc Hpc Hcl Hcs|t c Hc Hpc H0].
  - exact HR.
  - exact HR.
  - apply invR_updf; [exact HR|intros c; split; reflexivity|].
    intros cl Hcl. rewrite (wgot_queued s w j HC Hw cl Hcl). split; intros v; discriminate.
  - apply invR_updf; [exact HR|intros c; split; reflexivity|].
    intros cl Hcl. rewrite (wrun_running s w j HC Hw cl Hcl). split; intros v; discriminate.
  - eapply invR_caller_plain; [exact HR|exact Hc|intros i; rewrite Hpc; discriminate|intros i; discriminate|].
    right. eexists. split; [reflexivity|]. intros i v; discriminate.
  - (* Call *)
    destruct HR as (R1 & R2 & R3). split; [|split]; cbn [calls callers mk].
    + intros t0 c0 p i v Hc0 Hp. destruct (Nat.eq_dec t0 t) as [->|Hne].
      * rewrite (nth_error_upd_same _ _ _ _ Hc) in Hc0. injection Hc0 as <-. cbn [outs] in Hp.
        destruct (R1 t c p i v Hc Hp) as (cl & Hcl & Hrest). exists cl. split; [apply nth_error_snoc_old; exact Hcl|exact Hrest].
      * rewrite nth_error_upd_other in Hc0 by exact Hne.
        destruct (R1 t0 c0 p i v Hc0 Hp) as (cl & Hcl & Hrest). exists cl. split; [apply nth_error_snoc_old; exact Hcl|exact Hrest].
    + intros i cl Hi. destruct (nth_error_snoc _ _ _ _ Hi) as [(_ & Hi')|(-> & ->)].
      * destruct (R2 i cl Hi') as (c0 & Hc0 & Hm). destruct (Nat.eq_dec (cown cl) t) as [Heq|Hne].
        -- rewrite Heq in Hc0. rewrite Hc in Hc0. injection Hc0 as <-. rewrite Heq.
           eexists. split; [eapply nth_error_upd_same; exact Hc|]. cbn [outs pc].
           destruct (cs cl); try (exfalso; destruct Hm as (Hm & _); rewrite Hpc in Hm; discriminate). exact Hm.
        -- exists c0. rewrite nth_error_upd_other by exact Hne. auto.
      * cbn [cown cs cidx]. eexists. split; [eapply nth_error_upd_same; exact Hc|]. cbn [pc outs]. auto.
    + intros t0 c0 i Hc0 Hpc0. destruct (Nat.eq_dec t0 t) as [->|Hne].
      * rewrite (nth_error_upd_same _ _ _ _ Hc) in Hc0. injection Hc0 as <-. cbn [pc] in Hpc0. injection Hpc0 as <-.
        eexists. split; [apply nth_error_snoc_last|reflexivity].
      * rewrite nth_error_upd_other in Hc0 by exact Hne. destruct (R3 t0 c0 i Hc0 Hpc0) as (cl & Hcl & Ho).
        exists cl. split; [apply nth_error_snoc_old; exact Hcl|exact Ho].
  - eapply invR_caller_plain; [exact HR|exact Hc|intros i; rewrite Hpc; discriminate|intros i; discriminate|].
    left. reflexivity.
  - eapply invR_caller_plain; [exact HR|exact Hc|intros i; rewrite Hpc; discriminate|intros i; discriminate|].
    right. eexists. split; [reflexivity|]. intros i v; discriminate.
  - (* Call returns *)
    destruct HR as (R1 & R2 & R3).
    destruct (R3 t c j Hc Hpc) as (cl0 & Hcl0 & Hown). rewrite Hcl in Hcl0. injection Hcl0 as <-.
    destruct (R2 j cl Hcl) as (c0 & Hc0 & Hm). rewrite Hown, Hc in Hc0. injection Hc0 as <-. rewrite Hcs in Hm.
    destruct Hm as (_ & Hidx).
    split; [|split]; cbn [calls callers mk].
    + intros t0 c0 p i v Hc0 Hp. destruct (Nat.eq_dec t0 t) as [->|Hne].
      * rewrite (nth_error_upd_same _ _ _ _ Hc) in Hc0. injection Hc0 as <-. cbn [outs] in Hp.
        destruct (nth_error_snoc _ _ _ _ Hp) as [(_ & Hp')|(-> & Heq)].
        -- destruct (R1 t c p i v Hc Hp') as (cli & Hcli & Hrest). exists cli. split; [|exact Hrest].
           rewrite nth_error_updf_other; [exact Hcli|]. intros ->. rewrite Hcl in Hcli. injection Hcli as <-.
           destruct Hrest as (_ & _ & E). congruence.
        -- injection Heq as -> ->. exists (call_return r cl). rewrite nth_error_updf_same, Hcl. cbn. auto.
      * rewrite nth_error_upd_other in Hc0 by exact Hne.
        destruct (R1 t0 c0 p i v Hc0 Hp) as (cli & Hcli & Hrest). exists cli. split; [|exact Hrest].
        rewrite nth_error_updf_other; [exact Hcli|]. intros ->. rewrite Hcl in Hcli. injection Hcli as <-.
        destruct Hrest as (_ & _ & E). congruence.
    + intros i cli Hi. destruct (Nat.eq_dec i j) as [->|Hne].
      * rewrite nth_error_updf_same, Hcl in Hi. cbn in Hi. injection Hi as <-. cbn [cown cidx cs call_return].
        rewrite Hown. eexists. split; [eapply nth_error_upd_same; exact Hc|]. cbn [outs]. rewrite Hidx.
        apply nth_error_snoc_last.
      * rewrite nth_error_updf_other in Hi by exact Hne. destruct (R2 i cli Hi) as (c0 & Hc0 & Hm).
        destruct (Nat.eq_dec (cown cli) t) as [Heq|Hnt].
        -- rewrite Heq in Hc0. rewrite Hc in Hc0. injection Hc0 as <-. rewrite Heq.
           eexists. split; [eapply nth_error_upd_same; exact Hc|]. cbn [outs pc].
           destruct (cs cli); try (exfalso; destruct Hm as (Hm & _); rewrite Hpc in Hm; injection Hm as Hm; lia).
           apply nth_error_snoc_old. exact Hm.
        -- exists c0. rewrite nth_error_upd_other by exact Hnt. auto.
    + intros t0 c0 i Hc0 Hpc0. destruct (Nat.eq_dec t0 t) as [->|Hne].
      * rewrite (nth_error_upd_same _ _ _ _ Hc) in Hc0. injection Hc0 as <-. discriminate.
      * rewrite nth_error_upd_other in Hc0 by exact Hne. destruct (R3 t0 c0 i Hc0 Hpc0) as (cli & Hcli & Ho).
        destruct (Nat.eq_dec i j) as [->|Hij].
        -- exists (call_return r cl). rewrite nth_error_updf_same, Hcl. cbn. split; [reflexivity|]. congruence.
        -- exists cli. rewrite nth_error_updf_other by exact Hij. auto.
  - eapply invR_caller_plain; [exact HR|exact Hc|intros i; rewrite Hpc; discriminate|intros i; discriminate|].
    right. eexists. split; [reflexivity|]. intros i v; discriminate.
Qed.

Lemma invR_reach (progs : list (list cop)) (sched : list pick) : InvR (run Faithful (init progs) sched).
Proof.
  assert (H : forall s, Inv s -> InvR s -> Inv (run Faithful s sched) /\ InvR (run Faithful s sched)).
  { induction sched as [|x rest IH]; intros s HI HR; cbn; [auto|].
    destruct (step Faithful s x) as [s'|] eqn:Hst; [|apply IH; assumption].
    apply IH; [eapply inv_step; eauto|]. destruct HI as (_ & HC & _). eapply invR_step; eauto. apply step_inv; exact Hst. }
  apply H; [apply inv_init|apply invR_init].
Qed.

(* C14, first sentence, in full: for every program and schedule,
   (a) whatever a caller finds at position p of its output as the result of a Call is the value produced by the function
       of the call THAT caller made as its p-th operation (v = i, owner = t, position = p), and that function has run
       exactly once, start to end;
   (b) every call that has returned is recorded in its owner's output at the call's position, with its own value;
   (c) no call is delivered twice or to two callers. *)
Theorem delivered (progs : list (list cop)) (sched : list pick) :
  let s := run Faithful (init progs) sched in
  (forall t c p i v, nth_error (callers s) t = Some c -> nth_error (outs c) p = Some (RCall i v) ->
     v = i /\ exists cl, nth_error (calls s) i = Some cl /\ cown cl = t /\ cidx cl = p /\ cs cl = SReturned i /\
                         cx cl = 1 /\ ce cl = 1) /\
  (forall i cl v, nth_error (calls s) i = Some cl -> cs cl = SReturned v ->
     v = i /\ exists c, nth_error (callers s) (cown cl) = Some c /\ nth_error (outs c) (cidx cl) = Some (RCall i i)) /\
  (forall t c p t' c' p' i v v', nth_error (callers s) t = Some c -> nth_error (outs c) p = Some (RCall i v) ->
     nth_error (callers s) t' = Some c' -> nth_error (outs c') p' = Some (RCall i v') -> t = t' /\ p = p').
Proof.
  intros s. destruct (invR_reach progs sched) as (R1 & R2 & R3). fold s in R1, R2, R3.
  destruct (exactly_once progs sched) as (Honce & _ & _). fold s in Honce.
  split; [|split].
  - intros t c p i v Hc Hp. destruct (R1 t c p i v Hc Hp) as (cl & Hcl & H1 & H2 & H3).
    pose proof (Honce i cl Hcl) as Ho. unfold once_ok in Ho. rewrite H3 in Ho. destruct Ho as (Hx & He & ->).
    split; [reflexivity|]. exists cl. auto 7.
  - intros i cl v Hcl Hcs. pose proof (Honce i cl Hcl) as Ho. unfold once_ok in Ho. rewrite Hcs in Ho.
    destruct Ho as (_ & _ & ->). split; [reflexivity|].
    destruct (R2 i cl Hcl) as (c & Hc & Hm). rewrite Hcs in Hm. exists c. auto.
  - intros t c p t' c' p' i v v' Hc Hp Hc' Hp'.
    destruct (R1 t c p i v Hc Hp) as (cl & Hcl & H1 & H2 & _).
    destruct (R1 t' c' p' i v' Hc' Hp') as (cl' & Hcl' & H1' & H2' & _).
    rewrite Hcl in Hcl'. injection Hcl' as <-. split; congruence.
Qed.

(* at the end of every maximal run: every call ever made has run its function exactly once and its own result sits in its
   owner's output at the position of that Call operation *)
Theorem terminal_all_delivered (progs : list (list cop)) (sched : list pick) :
  let s := run Faithful (init progs) sched in
  terminal Faithful s ->
  forall i cl, nth_error (calls s) i = Some cl ->
    cs cl = SReturned i /\ cx cl = 1 /\ ce cl = 1 /\
    exists c, nth_error (callers s) (cown cl) = Some c /\ nth_error (outs c) (cidx cl) = Some (RCall i i) /\
              script c = [] /\ pc c = PReady.
Proof.
  intros s HT i cl Hcl. destruct (no_strand progs sched) as (_ & Hterm). fold s in Hterm.
  destruct (Hterm HT) as (_ & _ & Hfin & Hret). destruct (Hret i cl Hcl) as (v & Hv).
  destruct (delivered progs sched) as (_ & D2 & _). fold s in D2. destruct (D2 i cl v Hcl Hv) as (-> & c & Hc & Ho).
  destruct (exactly_once progs sched) as (Honce & _ & _). fold s in Honce.
  pose proof (Honce i cl Hcl) as Ho'. unfold once_ok in Ho'. rewrite Hv in Ho'. destruct Ho' as (Hx & He & _).
  destruct (Hfin _ c Hc) as (Hpc & Hsc). repeat (split; [assumption|]). exists c. auto.
Qed.

(* ------------------------------------------------------------------------------------------------ maxreq *)
(* `maxreq` is 0 initially and changes only when a caller invokes Call with a positive count k, to max(maxreq, k) (at
   that step target becomes k): it is the largest count requested so far, which C14_bound compares count with. *)
Theorem maxreq_characterisation :
  (forall progs, maxreq (init progs) = 0) /\
  (forall s x s', step Faithful s x = Some s' ->
     (maxreq s' = maxreq s /\ is_call s x = false) \/
     (exists t c k rest, x = PC t /\ nth_error (callers s) t = Some c /\ pc c = PReady /\ script c = CCall k :: rest /\
        ((k = 0 /\ maxreq s' = maxreq s) \/ (0 < k /\ maxreq s' = Nat.max (maxreq s) k /\ target s' = k)))).
Proof.
  split; [reflexivity|]. intros s x s' H. apply step_inv in H.
  destruct H as [w Hw Hex|w j rest Hw Hqe Hle|w j Hw|w j Hw|t c rest Hc Hpc Hs|t c k' rest Hc Hpc Hs
                 |t c rest Hc Hpc Hs|t c rest Hc Hpc Hs|t c j cl r Hc Hpc Hcl Hcs|t c Hc Hpc H0]; cbn [maxreq target mk];
    try (left; split; [reflexivity|]; cbn [is_call]; try rewrite Hc; try rewrite Hpc; try rewrite Hs; reflexivity).
  - right. exists t, c, 0, rest. repeat (split; [assumption || reflexivity|]). left. auto.
  - right. exists t, c, (S k'), rest. repeat (split; [assumption || reflexivity|]). right. repeat split; lia.
Qed.

(* ------------------------------------------------------------------------------------- workers never block *)
(* a live worker always has an enabled step (it never waits for anything but the mutex) ... *)
Theorem worker_never_blocked (s : st) (w : nat) (x : wk) :
  nth_error (ws s) w = Some x -> live x = true -> step Faithful s (PW w) <> None.
Proof.
  intros Hw Hl. cbn [step]. unfold wstep. rewrite Hw. destruct x as [|i|i|]; try discriminate.
  cbn [exit_test dec_on_exit pop]. destruct (queue s) as [|i rest]; cbn [is_nil orb]; [discriminate|].
  destruct (target s <? count s); discriminate.
Qed.

(* ... so whenever a function is queued, some worker step is enabled: a queued function is never left without a thread
   that can make progress towards it, whatever counts were passed and whoever has exited *)
Theorem queue_has_enabled_worker (progs : list (list cop)) (sched : list pick) :
  let s := run Faithful (init progs) sched in
  queue s <> [] -> exists w, step Faithful s (PW w) <> None.
Proof.
  intros s Hq. destruct (no_strand progs sched) as (Hne & _). fold s in Hne. destruct (Hne Hq) as (_ & Hl).
  destruct (countp_pos_ex live (ws s) ltac:(lia)) as (w & x & Hw & Hx). exists w. eapply worker_never_blocked; eauto.
Qed.

(* ------------------------------------------------------------------------------------------------ FIFO *)
Fixpoint asc (lo : nat) (q : list nat) : Prop := match q with [] => True | i :: r => lo <= i /\ asc (S i) r end.

Lemma asc_snoc : forall q lo n, asc lo q -> Forall (fun i => i < n) q -> lo <= n -> asc lo (q ++ [n]).
Proof.
  induction q as [|i r IH]; intros lo n Ha Hf Hle; cbn; [auto|].
  destruct Ha as (H1 & H2). inversion Hf as [|? ? Hi Hr]; subst. split; [exact H1|]. apply IH; auto.
Qed.

Lemma asc_lower : forall q lo, asc lo q -> Forall (fun j => lo <= j) q.
Proof.
  induction q as [|i r IH]; intros lo Ha; [constructor|]. destruct Ha as (H1 & H2). constructor; [exact H1|].
  eapply Forall_impl; [|apply (IH _ H2)]. cbn. intros; lia.
Qed.

Definition InvQ (s : st) : Prop := asc 0 (queue s) /\ Forall (fun i => i < length (calls s)) (queue s).

Lemma invQ_step (s : st) (x : pick) (s' : st) : InvQ s -> Step s x s' -> InvQ s'.
Proof.
  intros (Ha & Hf) H.
  destruct H as [w Hw Hex|w j rest Hw Hqe Hle|w j Hw|w j Hw|t c rest Hc Hpc Hs|t c k' rest Hc Hpc Hs
                 |t c rest Hc Hpc Hs|t c rest Hc Hpc Hs|t c j cl r Hc Hpc Hcl Hcs|t c Hc Hpc H0];
    unfold InvQ; cbn [queue calls mk]; rewrite ?length_updf; try (split; assumption).
  - rewrite Hqe in Ha, Hf. destruct Ha as (_ & Ha). inversion Hf; subst. split; [|assumption].
    clear -Ha. revert Ha. generalize (S j). induction rest as [|i r IH]; intros lo Ha; cbn in *; [auto|].
    destruct Ha as (H1 & H2). split; [lia|exact H2].
  - split.
    + apply asc_snoc; [exact Ha|exact Hf|lia].
    + rewrite app_length. cbn. apply Forall_app. split; [eapply Forall_impl; [|exact Hf]; cbn; intros; lia|].
      constructor; [lia|constructor].
Qed.

(* The queue holds call ids in strictly increasing order, i.e. in the order in which the Calls were made (ids are
   assigned under the mutex at enqueue time); a worker dequeues the head: the OLDEST queued call.  No queued call is ever
   overtaken by a later one. *)
Theorem fifo (progs : list (list cop)) (sched : list pick) :
  let s := run Faithful (init progs) sched in
  forall i rest, queue s = i :: rest -> Forall (fun j => i < j) rest /\ i < length (calls s).
Proof.
  intros s.
  assert (HQ : InvQ s).
  { subst s. assert (H0 : InvQ (init progs)) by (split; cbn; [exact I|constructor]).
    generalize dependent (init progs). induction sched as [|x r IH]; intros s0 H0; cbn; [exact H0|].
    destruct (step Faithful s0 x) as [s'|] eqn:Hst; [|apply IH; exact H0].
    apply IH. eapply invQ_step; eauto. apply step_inv; exact Hst. }
  intros i rest Hq. destruct HQ as (Ha & Hf). rewrite Hq in Ha, Hf. destruct Ha as (_ & Ha).
  split; [|inversion Hf; assumption]. eapply Forall_impl; [|apply (asc_lower _ _ Ha)]. cbn. intros; lia.
Qed.

(* ------------------------------------------------------------------------------------------------ Wait *)
(* When count = 0 (in particular whenever a Wait returns): no work is queued, none is in a worker's hands, none is
   running: every call made so far has run exactly once and its reply is in its channel or already returned. *)
Lemma count_zero_idle (s : st) : Inv s -> count s = 0 ->
  queue s = [] /\ countp live (ws s) = 0 /\
  forall i cl, nth_error (calls s) i = Some cl -> (exists v, cs cl = SReplied v \/ cs cl = SReturned v) /\ cx cl = 1 /\ ce cl = 1.
Proof.
  intros ((Hc & _ & Hq) & HC & _) H0.
  assert (Hq0 : queue s = []) by (destruct (queue s); [reflexivity|cbn in Hq; lia]).
  split; [exact Hq0|]. split; [lia|]. intros i cl Hcl. specialize (HC i). unfold InvC in HC. rewrite Hcl, Hq0 in HC.
  cbn [countp] in HC.
  assert (Hg : countp (is_got i) (ws s) <= countp live (ws s)) by (apply countp_le; intros [| | |]; cbn; auto; discriminate).
  assert (Hr : countp (is_run i) (ws s) <= countp live (ws s)) by (apply countp_le; intros [| | |]; cbn; auto; discriminate).
  destruct (cs cl) as [| |v|v]; try lia; (split; [exists v; auto|lia]).
Qed.

Theorem wait_returns_idle (progs : list (list cop)) (sched : list pick) (t : nat) (c : caller) (s' : st) :
  let s := run Faithful (init progs) sched in
  nth_error (callers s) t = Some c -> pc c = PWaiting -> step Faithful s (PC t) = Some s' ->
  count s = 0 /\ queue s = [] /\ countp live (ws s) = 0 /\ countp running (ws s) = 0 /\
  (forall i cl, nth_error (calls s) i = Some cl ->
     (exists v, cs cl = SReplied v \/ cs cl = SReturned v) /\ cx cl = 1 /\ ce cl = 1) /\
  count s' = 0 /\ queue s' = [].
Proof.
  intros s Hc Hpc Hst.
  destruct (wait_returns_at_zero progs sched t c s' Hc Hpc Hst) as (H0 & _ & Hr & H0' & _). fold s in H0, Hr.
  destruct (count_zero_idle s (inv_reach progs sched) H0) as (Hq & Hl & Hcalls).
  repeat (split; [assumption|]).
  cbn in Hst. unfold cstep in Hst. fold s in Hst. rewrite Hc, Hpc in Hst. destruct (count s =? 0); [|discriminate].
  injection Hst as <-. exact Hq.
Qed.

(* a Wait that has been invoked is blocked exactly while count <> 0 *)
Theorem wait_blocked_iff (s : st) (t : nat) (c : caller) :
  nth_error (callers s) t = Some c -> pc c = PWaiting -> (step Faithful s (PC t) = None <-> count s <> 0).
Proof.
  intros Hc Hpc. cbn [step]. unfold cstep. rewrite Hc, Hpc. destruct (count s =? 0) eqn:E; split; intros H; try lia; try discriminate; auto.
Qed.

(* ------------------------------------------------------------------------------------------------ examples *)
(* the concurrent-counts example of Proofs/Workers.v, delivery view *)
Example ex_delivery :
  map (fun c => (cown c, cidx c)) (calls ex_final) = [(0, 0); (1, 0); (2, 0); (3, 0)] /\
  map maxreq [init ex_progs; ex_s1; ex_final] = [0; 3; 3] /\ queue ex_s1 = [3].
Proof. vm_compute. auto. Qed.

(* FIFO with several queued calls: three Calls with count 1, one worker: the queue is [1; 2] while call 0 runs *)
Example ex_fifo :
  let s := run Faithful (init [[CCall 1]; [CCall 1]; [CCall 1]]) [PC 2; PW 0; PC 0; PC 1] in
  queue s = [1; 2] /\ ws s = [WGot 0] /\ map cown (calls s) = [2; 0; 1].
Proof. vm_compute. auto. Qed.
