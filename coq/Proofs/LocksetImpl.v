(* C11 — the bridge applied to the facts regenerated from the CURRENT source (Gen/ImplLocksets.v).

   Nothing in this file is computed from the facts: it compiles for ANY generated file. The obligations that are
   recomputed on every run (vm_compute over the generated facts) are stated in Properties/C11.v.

   all_facts / all_lookup        the struct-field facts and the captured-local facts, with their two guard tables;
   impl_programs_race_free       THE bridge theorem instantiated: programs of bridged sites, held sets as translated;
   impl_all_sites_race_free      concrete instance: one thread per bridged fact of the whole library, all on the same
                                 object, each taking exactly the locks the translator saw: race free;
   local_guard_ok_split          the captured-locals checker splits into bridged / named trust kind like guard_ok;
   local_table_covered, captures_consistent, bridged_counts, strip_held   definitions used by Properties/C11.v.
   The computed obligations themselves (remainder tables, locals, synchronous callers) are in Properties/C11.v. *)
From Coq Require Import List Arith Lia Bool String.
From BB Require Import Model.Lockset Proofs.Lockset Model.LocksetHB Proofs.LocksetHB Model.LocksetBridge Model.LocksetData
                       Proofs.LocksetBridge Proofs.LocksetBridgeHB Gen.ImplLocksets.
Import ListNotations.

Definition all_facts : list fact := impl_facts ++ impl_local_facts.

(* struct fields: the guard table of Model/Lockset.v; "local ..." structs: the local table with its GImmutable default *)
Definition all_lookup : glookup :=
  fun s f => match lookup guard_table s f with Some g => Some g | None => local_lookup s f end.

(* a notation, not a constant: the kernel must never be tempted to evaluate the filter when it compares statements *)
Notation bridged_facts := (filter (bridged all_lookup) all_facts).

(* ---- the locals: [local_guard_ok] splits like [guard_ok] ---- *)
Lemma lguard_sat_split : forall g fa,
    lguard_sat g fa = true -> guard_sat (core g) fa = true /\ core_is_abstract g = true
                              \/ exists k, classify_g fn_lit g fa = Some k.
Proof.
  induction g as [lf| | |fns|fns|fn k why g' IH]; intros fa H.
  - left. split; [exact H|reflexivity].
  - left. split; [exact H|reflexivity].
  - left. split; [exact H|reflexivity].
  - right. exists TOwned. cbn [classify_g]. cbn [lguard_sat guard_sat] in H. rewrite H. reflexivity.
  - right. exists TChanSync. cbn [classify_g]. cbn [lguard_sat guard_sat] in H. rewrite H. reflexivity.
  - cbn [lguard_sat] in H. cbn [classify_g core].
    destruct (String.eqb fn (fn_lit fa) && rw_eqb k (f_kind fa) && negb (f_atomic fa)) eqn:E.
    + right. exists (TExempt why). reflexivity.
    + cbn [orb] in H. destruct (IH fa H) as [[Hs Ha]|Hk].
      * left. split; [exact Hs|]. unfold core_is_abstract in *. cbn [core]. exact Ha.
      * right. exact Hk.
Qed.

Lemma local_guard_ok_split : forall fa,
    local_guard_ok fa = true ->
    bridged local_lookup fa = true \/ exists k, classify fn_lit local_lookup fa = Some k.
Proof.
  intros fa H. unfold local_guard_ok in H. unfold classify.
  destruct (local_lookup (f_struct fa) (f_field fa)) as [g|] eqn:Hl; [|discriminate].
  destruct (bridged local_lookup fa) eqn:Hb; [left; reflexivity|]. right.
  destruct (f_fresh fa && negb (f_atomic fa)) eqn:Hf; [exists TFresh; reflexivity|].
  cbn [orb] in H.
  destruct (lguard_sat_split g fa H) as [[Hs Ha]|Hk]; [|exact Hk].
  unfold bridged in Hb. rewrite Hl, Ha, Hs in Hb. discriminate.
Qed.

(* ---- definitions used by the obligations of Properties/C11.v (which are computed THERE, theorem by theorem, so that a
   source tree that breaks one of them is reported against that theorem and not as a failure to build this file) ---- *)

(* every entry of the local guard table is exercised, every lock variable it names is a captured local that has
   facts of its own and no entry (so it is checked against GImmutable: never reassigned after capture) *)
Definition local_table_covered : bool :=
  forallb (fun e => existsb (fun fa => String.eqb (f_struct fa) (fst (fst e)) && String.eqb (f_field fa) (snd (fst e)))
                            impl_local_facts
                    && match core (snd e) with
                       | GMutex lf => existsb (fun fa => String.eqb (f_struct fa) (fst (fst e)) && String.eqb (f_field fa) lf)
                                              impl_local_facts
                       | _ => true
                       end) local_guard_table
  && local_lock_vars_stable.

(* every captured variable the translator lists has facts, and every local fact belongs to a listed capture *)
Definition captures_consistent : bool :=
  forallb (fun c => existsb (fun fa => String.eqb (f_struct fa) ("local " ++ c_scope c) && String.eqb (f_field fa) (c_var c))
                            impl_local_facts) impl_captures
  && forallb (fun fa => existsb (fun c => String.eqb (f_struct fa) ("local " ++ c_scope c) && String.eqb (f_field fa) (c_var c))
                                impl_captures) impl_local_facts
  && forallb (fun c => str_in ["go"; "escape"; "mvalue"] (c_how c)) impl_captures.

(* ---- the bridge theorem on the current source ---- *)
Theorem impl_programs_race_free : forall progs : list (list pitem),
    (forall p, In p progs ->
               (forall o fa, In (PFact o fa) p -> In fa bridged_facts) /\ consistent [] p = true) ->
    forall sched, ~ race alock aloc (run alock aloc alock_eqb (map tr_thread progs) sched).
Proof.
  intros progs H sched. apply (library_programs_race_free all_lookup all_facts).
  intros p Hp. destruct (H p Hp) as [Hd Hc]. split; [|exact Hc].
  intros o fa Hin. exact (proj1 (filter_In (bridged all_lookup) fa all_facts) (Hd o fa Hin)).
Qed.

Lemma site_prog_facts : forall o fa o' fa', In (PFact o' fa') (site_prog o fa) -> o' = o /\ fa' = fa.
Proof.
  intros o fa o' fa' H. unfold site_prog in H. apply in_app_or in H. destruct H as [H|H].
  - apply in_map_iff in H. destruct H as [p [Hp _]]. discriminate.
  - destruct H as [H|[]]. injection H as -> ->. split; reflexivity.
Qed.

(* The whole library at once: one thread per bridged fact (most of the facts, see [impl_bridged_count]), all
   operating on the SAME object number, each performing "lock what the translator saw held; access". *)
Notation all_sites_state := (map tr_thread (map (site_prog 0) bridged_facts)).

Theorem impl_all_sites_race_free :
  forallb (fun fa => consistent [] (site_prog 0 fa)) all_facts = true ->
  forall sched, ~ race alock aloc (run alock aloc alock_eqb all_sites_state sched).
Proof.
  intro Hcons. apply impl_programs_race_free. intros p Hp. apply in_map_iff in Hp. destruct Hp as [fa [<- Hfa]]. split.
  - intros o fa' Hin. destruct (site_prog_facts _ _ _ _ Hin) as [_ ->]. exact Hfa.
  - pose proof Hcons as X. rewrite forallb_forall in X. apply X.
    exact (proj1 (proj1 (filter_In (bridged all_lookup) fa all_facts) Hfa)).
Qed.

(* how much is bridged: (bridged, total) for struct fields and for captured locals *)
Definition bridged_counts : (nat * nat) * (nat * nat) :=
  ((List.length (filter (bridged all_lookup) impl_facts), List.length impl_facts),
   (List.length (filter (bridged all_lookup) impl_local_facts), List.length impl_local_facts)).

(* ---- the discipline is needed: Channel.Commit's facts WITHOUT the lock (what the translator reports when the
   c.mutex.Lock()/Unlock pair is deleted: same facts, empty held sets) are not bridged, and the unlocked write races
   with Channel.Get's locked read in the abstract machine ---- *)
Definition strip_held (fa : fact) : fact :=
  mkFact (f_fn fa) (f_lit fa) (f_struct fa) (f_field fa) (f_kind fa) (f_elem fa) (f_atomic fa) (f_fresh fa) [] (f_pos fa).

Definition commit_unlocked_vs_get : state alock aloc :=
  let x := (0, ("Channel", "buffer")) in let l := (0, ("Channel", "mutex")) in
  [ mkThread [Access x W] [];                                  (* Commit without its lock *)
    mkThread [Acq l MW; Access x R; Rel l] [] ].               (* Get, locked *)

Lemma commit_unlocked_races : exists sched, race alock aloc (run alock aloc alock_eqb commit_unlocked_vs_get sched).
Proof.
  exists [1]. exists 0, 1. do 4 eexists. repeat split; try (vm_compute; reflexivity); auto.
Qed.

(* ---- the bridge over the machine with happens-before edges, on the current source ---- *)
Theorem impl_hb_programs_race_free : forall (hpay : nat -> alock) (progs : list (list hitem)),
    (forall p, In p progs ->
               (forall o fa, In (HItem (PFact o fa)) p -> In fa bridged_facts) /\ h_consistent hpay [] p = true) ->
    forall sched, ~ h_race alock aloc nat (h_run alock aloc nat alock_eqb Nat.eqb hpay (tr_hstate progs) sched).
Proof.
  intros hpay progs H sched. apply (library_hb_programs_race_free all_lookup hpay all_facts).
  intros p Hp. destruct (H p Hp) as [Hd Hc]. split; [|exact Hc].
  intros o fa Hin. exact (proj1 (filter_In (bridged all_lookup) fa all_facts) (Hd o fa Hin)).
Qed.

(* The lock hand-off of exclusive.go built from the CURRENT facts of Exclusive.call: the caller locks item.mutex,
   bumps item.count, and starts the goroutine, which starts OWNING item.mutex (channel 0 carries it), reads and
   writes item.running and unlocks; a second caller does the same on the same item. None if the source no longer
   has these accesses (the theorem about it in Properties/C11.v is then vacuous). *)
Definition pick (fn lit s f : string) (k : rw) : option fact :=
  find (fun fa => String.eqb fn (f_fn fa) && String.eqb lit (f_lit fa) && String.eqb s (f_struct fa)
                  && String.eqb f (f_field fa) && rw_eqb k (f_kind fa)) impl_facts.

Definition item_mutex_pay (c : nat) : alock := (0, ("exclusiveItem", "mutex"))%string.

Definition exclusive_handoff_progs : option (list (list hitem)) :=
  match pick "Exclusive.call" "" "exclusiveItem" "count" W,
        pick "Exclusive.call" "$1" "exclusiveItem" "running" R,
        pick "Exclusive.call" "$1" "exclusiveItem" "running" W with
  | Some cnt, Some rd, Some wr =>
      let caller := [HItem (PAcq 0 "exclusiveItem" "mutex" MW); HItem (PFact 0 cnt); HSendI 0] in
      let runner := [HRecvI 0; HItem (PFact 0 rd); HItem (PFact 0 wr); HItem (PRel 0 "exclusiveItem" "mutex")] in
      Some [caller; runner; caller; runner]
  | _, _, _ => None
  end%string.

Definition exclusive_handoff_ok : bool :=
  match exclusive_handoff_progs with
  | Some progs => hprogs_ok all_lookup item_mutex_pay progs
  | None => true
  end.

Lemma exclusive_handoff_race_free :
  exclusive_handoff_ok = true ->
  match exclusive_handoff_progs with
  | Some progs => forall sched, ~ h_race alock aloc nat
                                    (h_run alock aloc nat alock_eqb Nat.eqb item_mutex_pay (tr_hstate progs) sched)
  | None => True
  end.
Proof.
  unfold exclusive_handoff_ok. destruct exclusive_handoff_progs as [progs|]; [|intros _; exact I].
  intro H. apply (hprogs_ok_race_free all_lookup item_mutex_pay progs H).
Qed.
