(* Deltas other than +-1.  The protocol model (Model/CasterAbs.v) has receivers that register with Add(+1) and give
   up with Add(-1).  The documentation of Add: "Using a delta greater than 1 indicates multiple separate receivers
   ... These receivers should independently decrement the number of receivers".  This file shows that a call
   Add(+n) / Add(-n) is, on the word and in the protocol, exactly n calls Add(+1) / Add(-1) made back to back - an
   interleaving the +-1 protocol already contains (its theorems quantify over all schedules):

   word level (Model/Caster.v, every word):
     add_fst_additive     the word after Add(a) then Add(b) is the word after Add(a+b)           (unconditional)
     good_word_split      for a, b of the same sign: Add(a+b) returns normally iff Add(a) and then Add(b) do
     add_split            ... and then the final word, the final count and the receives performed agree
     add_n_units          Add(u*n), u = +-1: same word as n unit Adds; returns normally iff each of them does; the
                          i-th returns hi + u*i; Add(u*n) returns hi + u*n and performs n times the receives of one
   protocol level (Model/CasterAbs.v, counter steps):
     multi_add_pos        n consecutive PU1 steps = count + n, n receivers move from u1 to u2
     multi_dereg_armed    n consecutive PDeregO steps while armed = count - n, and n receives are owed (n5 + n)
     multi_dereg_unarmed  n consecutive PDeregN steps while unarmed = count - n, nothing owed
   and the two levels meet (Proofs/CasterBridge.v, wadd_ok): add_n_is_n_steps, sub_n_is_n_steps. *)
From Coq Require Import List ZArith Lia Bool ZifyBool Arith.
From BB.Model Require Import Caster CasterBridge.
From BB.Model Require CasterAbs.
From BB.Proofs Require Import Caster CasterBridge.
Import ListNotations.
Module MA := BB.Model.CasterAbs.
Local Open Scope Z_scope.
Ltac Zify.zify_post_hook ::= Z.div_mod_to_equations.
Arguments Nat.sub : simpl never.

Definition inr_delta (d : Z) : Prop := - maxi <= d <= maxi.
Definition same_sign (a b : Z) : Prop := (0 <= a /\ 0 <= b) \/ (a <= 0 /\ b <= 0).

(* ---------------------------------------------------------------------------------------------------------- *)
(* the word                                                                                                    *)

Theorem add_fst_additive w a b : 0 <= w < two64 -> inr_delta a -> inr_delta b -> inr_delta (a + b) ->
  fst (add (fst (add w a)) b) = fst (add w (a + b)).
Proof.
  unfold inr_delta. intros Hw Ha Hb Hab.
  pose proof (add_word_range w a Hw) as Hw1.
  rewrite (add_word (fst (add w a)) b Hw1), (add_word w a Hw), (add_word w (a + b) Hw).
  replace ((- maxi <=? a) && (a <=? maxi)) with true by lia.
  replace ((- maxi <=? b) && (b <=? maxi)) with true by lia.
  replace ((- maxi <=? a + b) && (a + b <=? maxi)) with true by lia.
  revert Hw; consts; intros; lia.
Qed.

Lemma good_word_dec w d : good_word w d \/ ~ good_word w d.
Proof. unfold good_word. lia. Qed.

Lemma ret_iff_good w d : 0 <= w < two64 -> ((exists m x, snd (add w d) = AddRet m x) <-> good_word w d).
Proof.
  intros Hw. destruct (add_spec_word w d Hw) as [HG HB]. split.
  - intros (m & x & E). destruct (good_word_dec w d) as [G|G]; [exact G|]. rewrite HB in E by exact G. discriminate E.
  - intros G. rewrite HG by exact G. cbn [snd]. eauto.
Qed.

(* after a normal return the halves have moved by delta (and stay 32-bit) *)
Lemma good_word_after w d : 0 <= w < two64 -> good_word w d ->
  hi (fst (add w d)) = hi w + d /\ lo (fst (add w d)) = lo w + d /\ 0 <= fst (add w d) < two64.
Proof.
  intros Hw G. destruct (add_spec_word w d Hw) as [HG _]. rewrite HG by exact G. cbn [fst].
  pose proof (hi_range w Hw) as Hh. pose proof (lo_range w) as Hl. unfold good_word in G.
  assert (Hl' : 0 <= lo w + d < two32) by (revert Hh Hl G; consts; lia).
  rewrite hi_mkword, lo_mkword by assumption. split; [reflexivity|]. split; [reflexivity|].
  apply mkword_range; [revert Hh G; consts; lia | assumption].
Qed.

Theorem good_word_split w a b : 0 <= w < two64 -> same_sign a b ->
  (good_word w (a + b) <-> good_word w a /\ good_word (fst (add w a)) b).
Proof.
  intros Hw HS. unfold same_sign in HS. pose proof (hi_range w Hw) as Hh. pose proof maxi_pos as Hmp. split.
  - intros G. assert (Ga : good_word w a) by (unfold good_word in *; lia).
    split; [exact Ga|]. destruct (good_word_after w a Hw Ga) as (H1 & H2 & _).
    unfold good_word in *. rewrite H1, H2. lia.
  - intros [Ga Gb]. destruct (good_word_after w a Hw Ga) as (H1 & H2 & _).
    unfold good_word in *. rewrite H1, H2 in Gb. lia.
Qed.

Definition absorb1 (w d : Z) : Z := if lo w =? hi w then 0 else - d.

(* Add(a+b) = Add(a); Add(b) for deltas of the same sign: same final word, same final count, receives add up *)
Theorem add_split w a b : 0 <= w < two64 -> same_sign a b -> good_word w (a + b) ->
  let w1 := fst (add w a) in
  add w a = (w1, AddRet (hi w + a) (absorb1 w a)) /\
  add w1 b = (fst (add w (a + b)), AddRet (hi w + a + b) (absorb1 w b)) /\
  add w (a + b) = (fst (add w (a + b)), AddRet (hi w + a + b) (absorb1 w a + absorb1 w b)).
Proof.
  intros Hw HS G w1. destruct (good_word_split w a b Hw HS) as [HF _]. destruct (HF G) as [Ga Gb].
  destruct (good_word_after w a Hw Ga) as (H1 & H2 & Hw1). fold w1 in H1, H2, Hw1, Gb.
  destruct (add_spec_word w a Hw) as [HGa _]. destruct (add_spec_word w1 b Hw1) as [HGb _].
  destruct (add_spec_word w (a + b) Hw) as [HGab _].
  assert (Ein : inr_delta a /\ inr_delta b /\ inr_delta (a + b))
    by (unfold inr_delta, good_word, same_sign in *; lia).
  destruct Ein as (Ia & Ib & Iab).
  pose proof (add_fst_additive w a b Hw Ia Ib Iab) as EA. fold w1 in EA.
  repeat split.
  - unfold w1. rewrite HGa by exact Ga. reflexivity.
  - rewrite <- EA. rewrite HGb by exact Gb. cbn [fst]. rewrite H1, H2. unfold absorb1.
    replace (lo w + a =? hi w + a) with (lo w =? hi w) by lia. reflexivity.
  - rewrite HGab by exact G. cbn [fst]. unfold absorb1. f_equal. f_equal; [lia|].
    destruct (lo w =? hi w); lia.
Qed.

(* n unit Adds in a row *)
Definition unit_iter (u : Z) (i : nat) (w : Z) : Z := Nat.iter i (fun x => fst (add x u)) w.

Lemma unit_iter_S u i w : unit_iter u (S i) w = fst (add (unit_iter u i w) u).
Proof. reflexivity. Qed.

Lemma unit_iter_range u i w : 0 <= w < two64 -> 0 <= unit_iter u i w < two64.
Proof. intros Hw. induction i as [|i IH]; [exact Hw|]. rewrite unit_iter_S. apply add_word_range. exact IH. Qed.

Lemma unit_iter_word u n w : 0 <= w < two64 -> u = 1 \/ u = -1 -> Z.of_nat n <= maxi ->
  unit_iter u n w = fst (add w (u * Z.of_nat n)).
Proof.
  intros Hw Hu. assert (Hu' := Hu). induction n as [|n IH]; intros Hn.
  - replace (u * Z.of_nat 0) with 0 by lia. reflexivity.
  - rewrite unit_iter_S, IH by lia.
    replace (u * Z.of_nat (S n)) with (u * Z.of_nat n + u) by (destruct Hu' as [-> | ->]; lia).
    apply add_fst_additive; try assumption; unfold inr_delta; revert Hn; consts; destruct Hu' as [-> | ->]; lia.
Qed.

Theorem add_n_units w u n : 0 <= w < two64 -> u = 1 \/ u = -1 -> (1 <= n)%nat -> Z.of_nat n <= maxi ->
  unit_iter u n w = fst (add w (u * Z.of_nat n)) /\
  (good_word w (u * Z.of_nat n) <-> forall i, (i < n)%nat -> good_word (unit_iter u i w) u) /\
  (good_word w (u * Z.of_nat n) ->
     (forall i, (i < n)%nat ->
        add (unit_iter u i w) u = (unit_iter u (S i) w, AddRet (hi w + u * Z.of_nat (S i)) (absorb1 w u))) /\
     snd (add w (u * Z.of_nat n)) = AddRet (hi w + u * Z.of_nat n) (Z.of_nat n * absorb1 w u)).
Proof.
  intros Hw Hu Hn1 Hn. split; [apply unit_iter_word; assumption|].
  assert (SS : forall k, same_sign (u * Z.of_nat k) u) by (intros k; unfold same_sign; lia).
  (* the equivalence, for every 1 <= m <= n *)
  assert (EQ : forall m, (1 <= m)%nat -> Z.of_nat m <= maxi ->
                (good_word w (u * Z.of_nat m) <-> forall i, (i < m)%nat -> good_word (unit_iter u i w) u)).
  { induction m as [|m IH]; [lia|]. intros _ Hm.
    destruct (Nat.eq_dec m 0) as [->|Hm0].
    - replace (u * Z.of_nat 1) with u by lia. split.
      + intros G i Hi. assert (i = 0%nat) as -> by lia. exact G.
      + intros H. apply (H 0%nat). lia.
    - replace (u * Z.of_nat (S m)) with (u * Z.of_nat m + u) by lia.
      rewrite (good_word_split w _ _ Hw (SS m)). rewrite <- (unit_iter_word u m w Hw Hu) by lia.
      rewrite IH by lia. split.
      + intros [HA HB] i Hi. destruct (Nat.eq_dec i m) as [->|Hne]; [exact HB|apply HA; lia].
      + intros H. split; [intros i Hi; apply H; lia | apply H; lia]. }
  split; [apply EQ; assumption|].
  intros G.
  assert (UNITS : forall i, (i < n)%nat -> good_word (unit_iter u i w) u) by (apply EQ; assumption).
  (* halves of the intermediate words *)
  assert (HL : forall i, (i <= n)%nat ->
                 hi (unit_iter u i w) = hi w + u * Z.of_nat i /\ lo (unit_iter u i w) = lo w + u * Z.of_nat i).
  { induction i as [|i IH]; intros Hi; [change (unit_iter u 0 w) with w; lia|].
    destruct IH as [I1 I2]; [lia|]. rewrite unit_iter_S.
    destruct (good_word_after (unit_iter u i w) u (unit_iter_range u i w Hw) (UNITS i ltac:(lia))) as (A1 & A2 & _).
    rewrite A1, A2, I1, I2. lia. }
  split.
  - intros i Hi. destruct (HL i ltac:(lia)) as [I1 I2].
    destruct (add_spec_word (unit_iter u i w) u (unit_iter_range u i w Hw)) as [HG _].
    rewrite unit_iter_S. rewrite HG by (apply UNITS; exact Hi). cbn [fst]. f_equal. rewrite I1, I2.
    unfold absorb1. replace (lo w + u * Z.of_nat i =? hi w + u * Z.of_nat i) with (lo w =? hi w) by lia.
    f_equal. lia.
  - destruct (add_spec_word w (u * Z.of_nat n) Hw) as [HG _]. rewrite HG by exact G. cbn [snd].
    unfold absorb1. f_equal. destruct (lo w =? hi w); lia.
Qed.

(* so: Add(u*n) panics iff one of the n unit Adds does (for a valid or an invalid word alike) *)
Corollary add_n_panics_iff w u n : 0 <= w < two64 -> u = 1 \/ u = -1 -> (1 <= n)%nat -> Z.of_nat n <= maxi ->
  (snd (add w (u * Z.of_nat n)) = AddPanic <->
   exists i, (i < n)%nat /\ snd (add (unit_iter u i w) u) = AddPanic).
Proof.
  intros Hw Hu Hn1 Hn. destruct (add_n_units w u n Hw Hu Hn1 Hn) as (_ & EQ & _).
  destruct (add_spec_word w (u * Z.of_nat n) Hw) as [HG HB]. split.
  - intros HP. destruct (good_word_dec w (u * Z.of_nat n)) as [G|G]; [rewrite HG in HP by exact G; discriminate HP|].
    (* some unit step is not good: find the first by bounded search *)
    assert (NEX : ~ forall i, (i < n)%nat -> good_word (unit_iter u i w) u) by (intros H; apply G, EQ, H).
    assert (SEARCH : forall m, (forall i, (i < m)%nat -> good_word (unit_iter u i w) u) \/
                               exists i, (i < m)%nat /\ ~ good_word (unit_iter u i w) u).
    { induction m as [|m [IH|(i & Hi & Hb)]].
      - left. intros i Hi. lia.
      - destruct (good_word_dec (unit_iter u m w) u) as [Gm|Gm].
        + left. intros i Hi. destruct (Nat.eq_dec i m) as [->|Hne]; [exact Gm|apply IH; lia].
        + right. exists m. split; [lia|exact Gm].
      - right. exists i. split; [lia|exact Hb]. }
    destruct (SEARCH n) as [HA|(i & Hi & Hb)]; [contradiction|].
    exists i. split; [exact Hi|]. apply (add_spec_word _ u (unit_iter_range u i w Hw)). exact Hb.
  - intros (i & Hi & HP). apply HB. intros G. rewrite EQ in G.
    destruct (add_spec_word _ u (unit_iter_range u i w Hw)) as [HGi _].
    rewrite HGi in HP by (apply G; exact Hi). discriminate HP.
Qed.

Example ex_add_3 : add (mkword 2 2) 3 = (mkword 5 5, AddRet 5 0) /\ unit_iter 1 3 (mkword 2 2) = mkword 5 5.
Proof. vm_compute. split; reflexivity. Qed.
Example ex_sub_3_armed :
  add (mkword 5 (5 + maxi)) (-3) = (mkword 2 (2 + maxi), AddRet 2 3) /\
  unit_iter (-1) 3 (mkword 5 (5 + maxi)) = mkword 2 (2 + maxi) /\
  add (mkword 5 (5 + maxi)) (-1) = (mkword 4 (4 + maxi), AddRet 4 1).
Proof. vm_compute. repeat split; reflexivity. Qed.

(* ---------------------------------------------------------------------------------------------------------- *)
(* the protocol                                                                                                *)
Local Close Scope Z_scope.

Fixpoint citer (c : MA.spc) (f : MA.var -> nat) (p : MA.bpick) (n : nat) : option (MA.spc * (MA.var -> nat)) :=
  match n with
  | 0 => Some (c, f)
  | S m => match MA.cstep MA.good c f p with
           | Some (_, c', f') => citer c' f' p m
           | None => None
           end
  end.

Ltac red_set := cbn [MA.set MA.var_beq].

(* Add(+n) under the read lock while no Send is armed: n receivers register at once *)
Theorem multi_add_pos : forall n c f, n <= f MA.u1 -> f MA.armed = 0 ->
  exists f', citer c f MA.PU1 n = Some (c, f') /\
    f' MA.cnt = f MA.cnt + n /\ f' MA.u1 = f MA.u1 - n /\ f' MA.u2 = f MA.u2 + n /\ f' MA.bad = f MA.bad /\
    f' MA.armed = 0 /\
    (forall y, y <> MA.cnt -> y <> MA.u1 -> y <> MA.u2 -> f' y = f y).
Proof.
  induction n as [|n IH]; intros c f Hn Ha.
  - exists f. cbn [citer]. repeat split; try lia; try assumption.
  - cbn [citer]. unfold MA.cstep, MA.mk, MA.pos. cbn [MA.fl_rlock MA.good].
    replace (negb (f MA.u1 =? 0)) with true by lia. replace (f MA.armed =? 0) with true by lia.
    destruct (IH c (MA.set MA.u2 (S (f MA.u2)) (MA.set MA.cnt (S (f MA.cnt)) (MA.set MA.u1 (f MA.u1 - 1) f))))
      as (f' & E & H1 & H2 & H3 & H4 & H5 & H6); red_set; try lia.
    exists f'. split; [exact E|]. revert H1 H2 H3 H4 H5. red_set. intros. repeat split; try lia.
    intros y Y1 Y2 Y3. rewrite H6 by assumption. unfold MA.set.
    destruct y; cbn [MA.var_beq]; try reflexivity; contradiction.
Qed.

(* Add(-n) by n receivers counted by the armed Send: the count drops by n and n receives are owed *)
Theorem multi_dereg_armed : forall n c f, n <= f MA.b0o -> n <= f MA.cnt -> f MA.armed = 1 ->
  exists f', citer c f MA.PDeregO n = Some (c, f') /\
    f' MA.cnt = f MA.cnt - n /\ f' MA.b0o = f MA.b0o - n /\ f' MA.n5 = f MA.n5 + n /\ f' MA.bad = f MA.bad /\
    f' MA.armed = 1 /\
    (forall y, y <> MA.cnt -> y <> MA.b0o -> y <> MA.n5 -> y <> MA.bad -> f' y = f y).
Proof.
  induction n as [|n IH]; intros c f Hn Hc Ha.
  - exists f. cbn [citer]. repeat split; try lia; try assumption.
  - cbn [citer]. unfold MA.cstep, MA.dereg, MA.mk, MA.pos. cbn [MA.fl_absorb MA.good].
    replace (negb (f MA.b0o =? 0)) with true by lia. replace (f MA.armed =? 0) with false by lia.
    replace (f MA.cnt =? 0) with false by lia.
    destruct (IH c (MA.set MA.n5 (S (f MA.n5)) (MA.set MA.cnt (f MA.cnt - 1) (MA.set MA.bad (f MA.bad)
                     (MA.set MA.b0o (f MA.b0o - 1) f)))))
      as (f' & E & H1 & H2 & H3 & H4 & H5 & H6); red_set; try lia.
    exists f'. split; [exact E|]. revert H1 H2 H3 H4 H5. red_set. intros. repeat split; try lia.
    intros y Y1 Y2 Y3 Y4. rewrite H6 by assumption. unfold MA.set.
    destruct y; cbn [MA.var_beq]; try reflexivity; contradiction.
Qed.

(* Add(-n) by n receivers while no Send is armed: the count drops by n, nothing is owed *)
Theorem multi_dereg_unarmed : forall n c f, n <= f MA.b0n -> n <= f MA.cnt -> f MA.armed = 0 ->
  exists f', citer c f MA.PDeregN n = Some (c, f') /\
    f' MA.cnt = f MA.cnt - n /\ f' MA.b0n = f MA.b0n - n /\ f' MA.fin = f MA.fin + n /\ f' MA.bad = f MA.bad /\
    f' MA.armed = 0 /\ f' MA.n5 = f MA.n5 /\
    (forall y, y <> MA.cnt -> y <> MA.b0n -> y <> MA.fin -> y <> MA.bad -> f' y = f y).
Proof.
  induction n as [|n IH]; intros c f Hn Hc Ha.
  - exists f. cbn [citer]. repeat split; try lia; try assumption.
  - cbn [citer]. unfold MA.cstep, MA.dereg, MA.mk, MA.pos. cbn [MA.fl_absorb MA.good].
    replace (negb (f MA.b0n =? 0)) with true by lia. replace (f MA.armed =? 0) with true by lia.
    replace (f MA.cnt =? 0) with false by lia.
    destruct (IH c (MA.set MA.fin (S (f MA.fin)) (MA.set MA.cnt (f MA.cnt - 1) (MA.set MA.bad (f MA.bad)
                     (MA.set MA.b0n (f MA.b0n - 1) f)))))
      as (f' & E & H1 & H2 & H3 & H4 & H5 & H5' & H6); red_set; try lia.
    exists f'. split; [exact E|]. revert H1 H2 H3 H4 H5 H5'. red_set. intros. repeat split; try lia.
    intros y Y1 Y2 Y3 Y4. rewrite H6 by assumption. unfold MA.set.
    destruct y; cbn [MA.var_beq]; try reflexivity; contradiction.
Qed.

(* the two levels meet: ONE call Add(+n) does to the word what the n protocol steps do to (cnt, armed), and
   returns the new count; ONE call Add(-n) likewise, and the number of receives it performs is the number of
   entries the n protocol steps add to n5 (armed) resp. none (unarmed) *)
Theorem add_n_is_n_steps : forall n c f, 1 <= n -> n <= f MA.u1 -> f MA.armed = 0 ->
  (Z.of_nat (f MA.cnt + n) <= maxi)%Z ->
  exists f', citer c f MA.PU1 n = Some (c, f') /\
    add (word_of (f MA.cnt) (f MA.armed)) (Z.of_nat n)
    = (word_of (f' MA.cnt) (f' MA.armed), AddRet (Z.of_nat (f' MA.cnt)) 0).
Proof.
  intros n c f Hn1 Hn Ha Hm. destruct (multi_add_pos n c f Hn Ha) as (f' & E & H1 & _ & _ & _ & H5 & _).
  exists f'. split; [exact E|]. rewrite Ha, H5, H1.
  rewrite wadd_ok by (revert Hm; consts; lia).
  replace (Z.to_nat (Z.of_nat (f MA.cnt) + Z.of_nat n)) with (f MA.cnt + n) by lia.
  do 2 f_equal. lia.
Qed.

Theorem sub_n_is_n_steps : forall n c f, 1 <= n -> n <= f MA.cnt -> f MA.armed <= 1 ->
  (Z.of_nat (f MA.cnt) <= maxi)%Z ->
  (f MA.armed = 1 -> n <= f MA.b0o) -> (f MA.armed = 0 -> n <= f MA.b0n) ->
  exists f', citer c f (if f MA.armed =? 0 then MA.PDeregN else MA.PDeregO) n = Some (c, f') /\
    add (word_of (f MA.cnt) (f MA.armed)) (- Z.of_nat n)
    = (word_of (f' MA.cnt) (f' MA.armed), AddRet (Z.of_nat (f' MA.cnt)) (Z.of_nat (f' MA.n5 - f MA.n5))).
Proof.
  intros n c f Hn1 Hn Ha Hm HO HN.
  destruct (f MA.armed =? 0) eqn:EA.
  - assert (A0 : f MA.armed = 0) by lia.
    destruct (multi_dereg_unarmed n c f (HN A0) Hn A0) as (f' & E & H1 & _ & _ & _ & H5 & H5' & _).
    exists f'. split; [exact E|]. rewrite A0, H5, H1, H5'.
    rewrite wadd_ok by (revert Hm; consts; lia).
    replace (Z.to_nat (Z.of_nat (f MA.cnt) + - Z.of_nat n)) with (f MA.cnt - n) by lia.
    rewrite eqb00. do 2 f_equal; lia.
  - assert (A1 : f MA.armed = 1) by lia.
    destruct (multi_dereg_armed n c f (HO A1) Hn A1) as (f' & E & H1 & _ & H3 & _ & H5 & _).
    exists f'. split; [exact E|]. rewrite A1, H5, H1, H3.
    rewrite wadd_ok by (revert Hm; consts; lia).
    replace (Z.to_nat (Z.of_nat (f MA.cnt) + - Z.of_nat n)) with (f MA.cnt - n) by lia.
    rewrite eqb10. do 2 f_equal; lia.
Qed.

(* the hypotheses are satisfiable: three receivers inside Add(+3) register at once; two of five counted receivers
   give up at once while the Send is armed *)
Definition f_ex1 : MA.var -> nat := fun y => match y with MA.u1 => 3 | MA.r => 3 | _ => 0 end.
Example ex_add_n_is_n_steps :
  match citer MA.SNone f_ex1 MA.PU1 3 with
  | Some (_, f') => f' MA.cnt = 3 /\ f' MA.u2 = 3 /\ f' MA.u1 = 0 /\
                    add (word_of 0 0) 3 = (word_of (f' MA.cnt) (f' MA.armed), AddRet 3 0)
  | None => False
  end.
Proof. vm_compute. repeat split; reflexivity. Qed.
Definition f_ex2 : MA.var -> nat :=
  fun y => match y with MA.cnt => 5 | MA.armed => 1 | MA.b0o => 5 | MA.k => 5 | MA.reg0 => 5 | MA.w => 1 | _ => 0 end.
Example ex_sub_n_is_n_steps :
  match citer MA.S6 f_ex2 MA.PDeregO 2 with
  | Some (_, f') => f' MA.cnt = 3 /\ f' MA.n5 = 2 /\ f' MA.bad = 0 /\
                    add (word_of 5 1) (-2) = (word_of (f' MA.cnt) (f' MA.armed), AddRet 3 2)
  | None => False
  end.
Proof. vm_compute. repeat split; reflexivity. Qed.

Print Assumptions add_fst_additive.
Print Assumptions add_split.
Print Assumptions add_n_units.
Print Assumptions add_n_panics_iff.
Print Assumptions multi_add_pos.
Print Assumptions multi_dereg_armed.
Print Assumptions multi_dereg_unarmed.
Print Assumptions add_n_is_n_steps.
Print Assumptions sub_n_is_n_steps.
