(* Proofs about the counter abstraction of ChanPubSub (Model/PubSubAbs.v): the inductive invariant of
   DESIGN.md Appendix A.5 and its consequences (C06/C07 core): no false invariant panic, no stolen copy, exact
   send count, pong accounting, deadlock freedom (every terminal state has all calls returned), final subscriber
   count, a termination measure, and mutation sensitivity of the two protocol variants. *)
From Coq Require Import List Arith Lia Bool ZifyBool.
From BB.Model Require Import PubSubAbs.
Import ListNotations.
Arguments Nat.sub : simpl never. Arguments Nat.ltb : simpl never. Arguments Nat.leb : simpl never.
Arguments Nat.eqb : simpl never. Arguments Nat.mul : simpl never. Arguments Nat.add : simpl never.

(* ------------------------------------------------------------------------------------------------------- *)
(* The invariant                                                                                             *)

Definition idle (f : var -> nat) : Prop :=
  f cnt = 0 /\ f armed = 0 /\ f b0o = 0 /\ f n1o = 0 /\ f n2fo = 0 /\ f n4o = 0 /\ f n5 = 0.

(* The part that does not depend on the sender's pc. *)
Definition common (f : var -> nat) : Prop :=
  f bad = 0 /\ f steal = 0 /\
  f subs = f u2 + f b0o + f b0n + f b1 + f n1o + f n1n + f n2ko + f n2kn + f n2fo + f n2fn /\
  f r = f u1 + f u2 + f n2ko + f n2kn + f n3k /\
  (* nobody holding the read lock is owed; nobody past the spin without it is un-owed *)
  f n2ko = 0 /\ f n2fn = 0 /\ f n4n = 0.

Definition lock_inv (c : spc) (f : var -> nat) : Prop :=
  match c with
  | S4 | S5 | S6 | S7 | S8 => f w = 1 /\ f wp = 0 /\ f r = 0
  | S3 => f w = 0 /\ f wp = 1
  | SNone | S2 | S9 | S10 => f w = 0 /\ f wp = 0
  end.

Definition phase_inv (c : spc) (f : var -> nat) : Prop :=
  match c with
  | SNone | S2 | S3 | S4 => idle f /\ f b1 = 0 /\ f pongN = 0
  | S5 => f armed = 0 /\ f n5 = 0 /\ f b1 = 0 /\ f pongN = 0 /\ f b0n = 0 /\ f n1n = 0 /\
          f cnt = f b0o + f n1o + f n2fo + f n4o
  | S6 => f armed = 1 /\ f pongN = 0 /\ f b0n = 0 /\ f n1n = 0 /\
          f k = f b0o + f n1o + f n2fo + f n4o + f n5 /\
          f cnt = f b0o + f n1o + f n2fo + f n4o + f rcv /\ f b1 = f rcv
  | S7 => f armed = 1 /\ f pongN = 0 /\ f b0n = 0 /\ f n1n = 0 /\ f k = 0 /\
          f b0o = 0 /\ f n1o = 0 /\ f n2fo = 0 /\ f n4o = 0 /\ f n5 = 0 /\
          f cnt = f rcv /\ f b1 = f rcv
  | S8 | S9 => idle f /\ f b1 = f sent /\ f pongN = 0
  | S10 => idle f /\ f b1 = f pongN
  end.

Definition Inv (s : st) : Prop :=
  common (v s) /\ lock_inv (sp s) (v s) /\ phase_inv (sp s) (v s).

(* ------------------------------------------------------------------------------------------------------- *)
(* Tactics                                                                                                   *)

(* break every [if] in hypothesis [H] of the form [(if b then _ else _) = Some _ / None] *)
Ltac brk_hyp H :=
  repeat match type of H with
         | (if ?b then _ else _) = _ => let E := fresh "E" in destruct b eqn:E; try discriminate H
         end.

Ltac brk_goal :=
  repeat match goal with
         | |- context [if ?b then _ else _] => let E := fresh "E" in destruct b eqn:E
         end.

Ltac red_set := cbn [set var_beq sp v mk].

Lemma Inv_init : forall senders subscribers, Inv (init senders subscribers).
Proof.
  intros senders subscribers. unfold Inv, init, common, lock_inv, phase_inv, idle. cbn. repeat split; lia.
Qed.

(* Picks that leave the sender's pc alone: the pc is case-split only for the lock and phase parts. *)
Ltac finish_keep c :=
  unfold Inv; red_set;
  split; [ unfold common in *; red_set; brk_goal;
           first [ lia | destruct c; unfold lock_inv, phase_inv, idle in *; lia ]
         | split; [ destruct c; unfold lock_inv, common in *; red_set; brk_goal; lia
                  | destruct c; unfold phase_inv, lock_inv, idle, common in *; red_set; brk_goal; lia ] ].

(* Picks that depend on the sender's pc: [c] has been destructed already. *)
Ltac finish_moved :=
  unfold Inv, common, lock_inv, phase_inv, idle in *; red_set; brk_goal; lia.

Lemma Inv_step : forall s p s', Inv s -> step s p = Some s' -> Inv s'.
Proof.
  intros [c f] p s' (HC & HL & HP) Hs. cbn [sp v] in HC, HL, HP.
  unfold step, step_gen in Hs. cbn [sp v fl_wlock fl_route good_flags] in Hs.
  unfold pos, rlockable in Hs.
  destruct p.
  - (* PSendStart *) brk_hyp Hs. injection Hs as <-. finish_keep c.
  - (* PSendLock *) destruct c; try discriminate Hs. brk_hyp Hs. injection Hs as <-. finish_moved.
  - (* PS *) destruct c; try discriminate Hs; brk_hyp Hs; injection Hs as <-; finish_moved.
  - (* PU0 *) brk_hyp Hs. injection Hs as <-. finish_keep c.
  - (* PU1 *) brk_hyp Hs. injection Hs as <-. finish_keep c.
  - (* PU2 *) brk_hyp Hs. injection Hs as <-. finish_keep c.
  - (* PRecvO *) destruct c; try discriminate Hs. brk_hyp Hs. injection Hs as <-. finish_moved.
  - (* PRecvN *) destruct c; try discriminate Hs. brk_hyp Hs. injection Hs as <-. finish_moved.
  - (* PAbsorb *) destruct c; try discriminate Hs. brk_hyp Hs. injection Hs as <-. finish_moved.
  - (* PWait *) brk_hyp Hs. injection Hs as <-. finish_keep c.
  - (* PUnsubO *) brk_hyp Hs; injection Hs as <-; finish_keep c.
  - (* PUnsubN *) brk_hyp Hs; injection Hs as <-; finish_keep c.
  - (* PSpinO *) brk_hyp Hs; injection Hs as <-; finish_keep c.
  - (* PSpinN *) brk_hyp Hs; injection Hs as <-; finish_keep c.
  - (* PN2KO *) brk_hyp Hs. injection Hs as <-. finish_keep c.
  - (* PN2KN *) brk_hyp Hs. injection Hs as <-. finish_keep c.
  - (* PN3K *) brk_hyp Hs. injection Hs as <-. finish_keep c.
  - (* PN2FO *) brk_hyp Hs. injection Hs as <-. finish_keep c.
  - (* PN2FN *) brk_hyp Hs. injection Hs as <-. finish_keep c.
  - (* PN4O *) brk_hyp Hs; injection Hs as <-; finish_keep c.
  - (* PN4N *) brk_hyp Hs; injection Hs as <-; finish_keep c.
Qed.

Lemma Inv_run_from : forall sched s, Inv s -> Inv (run s sched).
Proof.
  induction sched as [|p rest IH]; intros s HI; [exact HI|].
  unfold run in *. cbn [run_gen]. apply IH. fold (step s p).
  destruct (step s p) as [s'|] eqn:Hs; [eapply Inv_step; eassumption | exact HI].
Qed.

Lemma Inv_run : forall senders subscribers sched, Inv (run (init senders subscribers) sched).
Proof. intros senders subscribers sched. apply Inv_run_from, Inv_init. Qed.

(* ------------------------------------------------------------------------------------------------------- *)
(* C07 no false invariant panic; C06 no subscriber that the Send did not count takes a copy                  *)

Theorem core_no_false_panic_no_steal : forall senders subscribers sched,
  let s := run (init senders subscribers) sched in v s bad = 0 /\ v s steal = 0.
Proof.
  intros senders subscribers sched s.
  destruct (Inv_run senders subscribers sched) as ((Hb & Hst & _) & _). fold s in Hb, Hst. auto.
Qed.

(* C06: Send's return value is the number of receivers now blocked in Wait, and Send waits for exactly that
   many acknowledgements. *)
Lemma send_count_exact_inv : forall s, Inv s ->
  (sp s = S9 -> v s sent = v s b1) /\ (sp s = S10 -> v s pongN = v s b1).
Proof.
  intros [c f] (_ & _ & HP). cbn [sp v] in *.
  split; intros ->; unfold phase_inv, idle in HP; lia.
Qed.

Theorem send_count_exact : forall senders subscribers sched,
  let s := run (init senders subscribers) sched in
  (sp s = S9 -> v s sent = v s b1) /\ (sp s = S10 -> v s pongN = v s b1).
Proof. intros senders subscribers sched s. apply send_count_exact_inv, Inv_run. Qed.

(* During delivery (S5..S7) there is no subscribed-but-not-owed thread: a copy can only go to a counted one. *)
Lemma delivery_no_unowed : forall s, Inv s ->
  (sp s = S5 \/ sp s = S6 \/ sp s = S7) -> v s b0n = 0 /\ v s n1n = 0.
Proof.
  intros [c f] (_ & _ & HP) Hc. cbn [sp v] in *.
  destruct Hc as [-> | [-> | ->]]; unfold phase_inv in HP; lia.
Qed.

(* ------------------------------------------------------------------------------------------------------- *)
(* C07 deadlock freedom: a reachable state with nothing enabled has all calls returned.
   Proved under the weaker hypothesis "nothing enabled except voluntary unsubscribes of idle subscribers"
   (quiescent), so that it also covers runs whose standing subscribers never unsubscribe. *)

Ltac none_hyps :=
  repeat match goal with
         | H : (if ?b then _ else _) = None |- _ => let E := fresh "E" in destruct b eqn:E; try discriminate H
         | H : None = None |- _ => clear H
         | H : Some _ = None |- _ => discriminate H
         end.

Definition all_returned (s : st) : Prop :=
  sp s = SNone /\ v s nsend = 0 /\ v s sq = 0 /\
  v s u0 = 0 /\ v s u1 = 0 /\ v s u2 = 0 /\ v s b1 = 0 /\
  v s n1o = 0 /\ v s n1n = 0 /\ v s n2ko = 0 /\ v s n2kn = 0 /\ v s n3k = 0 /\
  v s n2fo = 0 /\ v s n2fn = 0 /\ v s n4o = 0 /\ v s n4n = 0 /\ v s n5 = 0 /\ v s b0o = 0.

Theorem quiescent_all_returned : forall s, Inv s -> (forall p, voluntary p = false -> step s p = None) ->
  all_returned s.
Proof.
  intros [c f] (HC & HL & HP) HT. unfold all_returned. cbn [sp v] in *.
  pose proof (HT PSendStart eq_refl) as T1. pose proof (HT PSendLock eq_refl) as T2.
  pose proof (HT PS eq_refl) as T3.
  pose proof (HT PU0 eq_refl) as T4. pose proof (HT PU1 eq_refl) as T5. pose proof (HT PU2 eq_refl) as T6.
  pose proof (HT PRecvO eq_refl) as T7. pose proof (HT PAbsorb eq_refl) as T9.
  pose proof (HT PWait eq_refl) as T10.
  pose proof (HT PSpinO eq_refl) as T13. pose proof (HT PSpinN eq_refl) as T14.
  pose proof (HT PN2KO eq_refl) as T15. pose proof (HT PN2KN eq_refl) as T16.
  pose proof (HT PN3K eq_refl) as T17.
  pose proof (HT PN2FO eq_refl) as T18. pose proof (HT PN2FN eq_refl) as T19.
  pose proof (HT PN4O eq_refl) as T20. pose proof (HT PN4N eq_refl) as T21. clear HT.
  unfold step, step_gen in *. cbn [sp v fl_wlock fl_route good_flags] in *.
  unfold pos, rlockable, common in *.
  destruct c; unfold lock_inv, phase_inv, idle in *; none_hyps;
    repeat split; try reflexivity; lia.
Qed.

Theorem terminal_all_returned : forall s, Inv s -> (forall p, step s p = None) ->
  sp s = SNone /\ v s nsend = 0 /\ v s sq = 0 /\
  v s u0 = 0 /\ v s u1 = 0 /\ v s u2 = 0 /\ v s b1 = 0 /\
  v s n1o = 0 /\ v s n1n = 0 /\ v s n2ko = 0 /\ v s n2kn = 0 /\ v s n3k = 0 /\
  v s n2fo = 0 /\ v s n2fn = 0 /\ v s n4o = 0 /\ v s n4n = 0 /\ v s n5 = 0 /\ v s b0o = 0.
Proof. intros s HI HT. apply (quiescent_all_returned s HI). intros p _. apply HT. Qed.

(* In this model a fully terminal state has no standing subscriber either (its unsubscribe would be enabled). *)
Lemma terminal_no_standing : forall s, (forall p, step s p = None) -> v s b0n = 0.
Proof.
  intros [c f] HT. pose proof (HT PUnsubN) as T. cbn [sp v].
  unfold step, step_gen in T. cbn [sp v] in T. unfold pos in T. none_hyps. lia.
Qed.

Lemma all_picks_complete : forall p, In p all_picks.
Proof. intros p. destruct p; cbn; auto 25. Qed.

Lemma terminalb_spec : forall s, terminalb s = true <-> (forall p, step s p = None).
Proof.
  intros s. unfold terminalb, terminalb_gen. rewrite forallb_forall. split.
  - intros H p. specialize (H p (all_picks_complete p)). fold (step s p) in H. destruct (step s p); congruence.
  - intros H p _. fold (step s p). rewrite H. reflexivity.
Qed.

Lemma quiescentb_spec : forall s, quiescentb s = true <-> (forall p, voluntary p = false -> step s p = None).
Proof.
  intros s. unfold quiescentb, quiescentb_gen. rewrite forallb_forall. split.
  - intros H p Hv. specialize (H p (all_picks_complete p)). fold (step s p) in H. rewrite Hv in H.
    destruct (step s p); [discriminate H | reflexivity].
  - intros H p _. fold (step s p). destruct (voluntary p) eqn:Hv; [reflexivity|]. rewrite (H p Hv). reflexivity.
Qed.

Lemma terminalb_quiescentb : forall s, terminalb s = true -> quiescentb s = true.
Proof. intros s HT. apply quiescentb_spec. intros p _. apply terminalb_spec, HT. Qed.

Theorem quiescent_all_returned_run : forall senders subscribers sched,
  let s := run (init senders subscribers) sched in quiescentb s = true -> all_returned s.
Proof.
  intros senders subscribers sched s HT.
  apply quiescent_all_returned; [apply Inv_run | apply quiescentb_spec, HT].
Qed.

Theorem terminal_all_returned_run : forall senders subscribers sched,
  let s := run (init senders subscribers) sched in terminalb s = true -> all_returned s.
Proof.
  intros senders subscribers sched s HT. apply quiescent_all_returned_run, terminalb_quiescentb, HT.
Qed.

(* C07 final count: the subscriber counter equals the standing subscribers (subscriptions minus
   unsubscriptions), the caster word is zero, nothing is armed, no pong is outstanding, sendingMu is free. *)
Lemma final_count_inv : forall s, Inv s -> (forall p, voluntary p = false -> step s p = None) ->
  v s subs = v s b0n /\ v s cnt = 0 /\ v s armed = 0 /\ v s pongN = 0 /\ v s w = 0 /\ v s r = 0.
Proof.
  intros s HI HT. pose proof (quiescent_all_returned s HI HT) as HR. unfold all_returned in HR.
  destruct s as [c f]. destruct HI as (HC & HL & HP). cbn [sp v] in *.
  destruct HR as (-> & HR). unfold common, lock_inv, phase_inv, idle in *. repeat split; lia.
Qed.

Theorem final_count_quiescent : forall senders subscribers sched,
  let s := run (init senders subscribers) sched in
  quiescentb s = true ->
  v s subs = v s b0n /\ v s cnt = 0 /\ v s armed = 0 /\ v s pongN = 0 /\ v s w = 0 /\ v s r = 0.
Proof.
  intros senders subscribers sched s HT.
  apply final_count_inv; [apply Inv_run | apply quiescentb_spec, HT].
Qed.

Theorem final_count : forall senders subscribers sched,
  let s := run (init senders subscribers) sched in
  terminalb s = true ->
  v s subs = v s b0n /\ v s cnt = 0 /\ v s armed = 0 /\ v s pongN = 0 /\ v s w = 0 /\ v s r = 0.
Proof.
  intros senders subscribers sched s HT. apply final_count_quiescent, terminalb_quiescentb, HT.
Qed.

(* Threads are conserved: every subscriber is at exactly one program point, so in a terminal state
   standing + returned = all.  (Gives the "subscriptions minus unsubscriptions" reading of [final_count].) *)
Definition threads (f : var -> nat) : nat :=
  f u0 + f u1 + f u2 + f b0o + f b0n + f b1 + f n1o + f n1n + f n2ko + f n2kn + f n3k +
  f n2fo + f n2fn + f n4o + f n4n + f n5 + f fin.

Lemma threads_step : forall s p s', step s p = Some s' -> threads (v s') = threads (v s).
Proof.
  intros [c f] p s' Hs.
  unfold step, step_gen in Hs. cbn [sp v fl_wlock fl_route good_flags] in Hs.
  unfold pos, rlockable in Hs.
  destruct p; try (destruct c; try discriminate Hs); brk_hyp Hs; injection Hs as <-;
    unfold threads; red_set; lia.
Qed.

Lemma threads_run_from : forall sched s, threads (v (run s sched)) = threads (v s).
Proof.
  induction sched as [|p rest IH]; intros s; [reflexivity|].
  unfold run in *. cbn [run_gen]. rewrite IH. fold (step s p).
  destruct (step s p) as [s'|] eqn:Hs; [eapply threads_step; eassumption | reflexivity].
Qed.

Theorem final_count_threads : forall senders subscribers sched,
  let s := run (init senders subscribers) sched in
  quiescentb s = true -> v s subs + v s fin = subscribers.
Proof.
  intros senders subscribers sched s HT.
  pose proof (final_count_quiescent senders subscribers sched HT) as (Hs & _).
  pose proof (quiescent_all_returned_run senders subscribers sched HT) as HR.
  pose proof (threads_run_from sched (init senders subscribers)) as HTh.
  fold s in Hs, HR, HTh. unfold all_returned in HR. unfold threads in HTh. cbn [init mk v] in HTh. lia.
Qed.

(* ------------------------------------------------------------------------------------------------------- *)
(* Termination measure                                                                                       *)

Definition sp_w (c : spc) : nat :=
  match c with
  | SNone => 0 | S2 => 9 | S3 => 8 | S4 => 7 | S5 => 6 | S6 => 5 | S7 => 4 | S8 => 3 | S9 => 2 | S10 => 1
  end.

(* 1 while the running Send has not yet counted the subscribers *)
Definition sp_pre (c : spc) : nat := match c with S2 | S3 | S4 => 1 | _ => 0 end.

(* rounds that may still count subscribers *)
Definition rounds (s : st) : nat := v s nsend + v s sq + sp_pre (sp s).

(* subscribers that may still go through receive/Wait cycles *)
Definition live (f : var -> nat) : nat := f u0 + f u1 + f u2 + f b0o + f b0n + f b1.

Definition lin (s : st) : nat :=
  let f := v s in
  sp_w (sp s) + 11 * f nsend + 10 * f sq +
  8 * f u0 + 7 * f u1 + 6 * f u2 + 7 * f b0o + 5 * f b0n + 6 * f b1 +
  4 * f n1o + 4 * f n1n + 2 * f n2ko + 2 * f n2kn + f n3k +
  3 * f n2fo + 3 * f n2fn + 2 * f n4o + 2 * f n4n + f n5.

Definition measure (s : st) : nat := lin s + 2 * (rounds s * live (v s)).

Lemma meas_lt : forall R T l R' T' l',
  T' <= T ->
  (R' = R /\ l' < l) \/ (R' + 1 = R /\ l' < l + 2 * T') ->
  l' + 2 * (R' * T') < l + 2 * (R * T).
Proof.
  intros R T l R' T' l' HT [[-> Hl] | [<- Hl]].
  - pose proof (Nat.mul_le_mono_l T' T R HT). lia.
  - pose proof (Nat.mul_le_mono_l T' T R' HT). rewrite Nat.mul_add_distr_r. lia.
Qed.

Ltac finish_meas :=
  unfold measure; apply meas_lt;
  unfold rounds, live, lin, sp_w, sp_pre, Inv, common, lock_inv, phase_inv, idle in *;
  red_set; brk_goal; lia.

(* Every enabled step from a state satisfying the invariant decreases the measure.  The invariant is used for
   one pick only: PRecvN (a not-owed subscriber takes a copy) is never enabled. *)
Theorem measure_decreases : forall s p s', Inv s -> step s p = Some s' -> measure s' < measure s.
Proof.
  intros [c f] p s' (HC & HL & HP) Hs. cbn [sp v] in HC, HL, HP.
  unfold step, step_gen in Hs. cbn [sp v fl_wlock fl_route good_flags] in Hs.
  unfold pos, rlockable in Hs.
  destruct p.
  - (* PSendStart *) brk_hyp Hs; injection Hs as <-; finish_meas.
  - (* PSendLock *) destruct c; try discriminate Hs; brk_hyp Hs; injection Hs as <-; finish_meas.
  - (* PS *) destruct c; try discriminate Hs; brk_hyp Hs; injection Hs as <-; finish_meas.
  - (* PU0 *) brk_hyp Hs; injection Hs as <-; finish_meas.
  - (* PU1 *) brk_hyp Hs; injection Hs as <-; finish_meas.
  - (* PU2 *) brk_hyp Hs; injection Hs as <-; finish_meas.
  - (* PRecvO *) destruct c; try discriminate Hs; brk_hyp Hs; injection Hs as <-; finish_meas.
  - (* PRecvN: disabled under the invariant *)
    destruct c; try discriminate Hs; brk_hyp Hs; injection Hs as <-; finish_meas.
  - (* PAbsorb *) destruct c; try discriminate Hs; brk_hyp Hs; injection Hs as <-; finish_meas.
  - (* PWait *) brk_hyp Hs; injection Hs as <-; finish_meas.
  - (* PUnsubO *) brk_hyp Hs; injection Hs as <-; finish_meas.
  - (* PUnsubN *) brk_hyp Hs; injection Hs as <-; finish_meas.
  - (* PSpinO *) brk_hyp Hs; injection Hs as <-; finish_meas.
  - (* PSpinN *) brk_hyp Hs; injection Hs as <-; finish_meas.
  - (* PN2KO *) brk_hyp Hs; injection Hs as <-; finish_meas.
  - (* PN2KN *) brk_hyp Hs; injection Hs as <-; finish_meas.
  - (* PN3K *) brk_hyp Hs; injection Hs as <-; finish_meas.
  - (* PN2FO *) brk_hyp Hs; injection Hs as <-; finish_meas.
  - (* PN2FN *) brk_hyp Hs; injection Hs as <-; finish_meas.
  - (* PN4O *) brk_hyp Hs; injection Hs as <-; finish_meas.
  - (* PN4N *) brk_hyp Hs; injection Hs as <-; finish_meas.
Qed.

(* The hypothesis [Inv s] cannot be dropped: in an (unreachable) delivery state with a not-owed idle subscriber,
   PRecvN moves it into Wait, which costs it nothing. *)
Example measure_needs_inv : exists s p s', step s p = Some s' /\ measure s < measure s'.
Proof.
  exists (mk S6 (fun x => match x with k => 1 | b0n => 1 | _ => 0 end)), PRecvN. eexists.
  split; [reflexivity | vm_compute; lia].
Qed.

(* Number of enabled (non-stutter) picks of a schedule. *)
Fixpoint moves (s : st) (sched : list pick) : nat :=
  match sched with
  | [] => 0
  | p :: rest => match step s p with Some s' => S (moves s' rest) | None => moves s rest end
  end.

Lemma moves_bounded_from : forall sched s, Inv s -> moves s sched + measure (run s sched) <= measure s.
Proof.
  induction sched as [|p rest IH]; intros s HI; [cbn; lia|].
  unfold run in *. cbn [run_gen moves]. fold (step s p).
  destruct (step s p) as [s'|] eqn:Hs.
  - pose proof (measure_decreases s p s' HI Hs). pose proof (IH s' (Inv_step s p s' HI Hs)). lia.
  - apply IH, HI.
Qed.

Lemma measure_init : forall senders subscribers,
  measure (init senders subscribers) = 11 * senders + 8 * subscribers + 2 * (senders * subscribers).
Proof.
  intros senders subscribers. unfold measure, lin, rounds, live, init. cbn [mk sp v sp_w sp_pre]. lia.
Qed.

(* Every run is finite: no schedule makes more than 11*senders + 8*subscribers + 2*senders*subscribers moves. *)
Theorem every_run_finite : forall senders subscribers sched,
  moves (init senders subscribers) sched <= 11 * senders + 8 * subscribers + 2 * (senders * subscribers).
Proof.
  intros senders subscribers sched.
  pose proof (moves_bounded_from sched (init senders subscribers) (Inv_init senders subscribers)) as H.
  rewrite measure_init in H. lia.
Qed.

(* ------------------------------------------------------------------------------------------------------- *)
(* Mutation sensitivity: each protocol variant is refuted on the SAME step function                          *)

Definition no_wlock_flags : flags := {| fl_wlock := false; fl_route := true |}.
Definition no_route_flags : flags := {| fl_wlock := true; fl_route := false |}.

(* (a) Send does not exclude subscribes while it reads [subscribers] and delivers: a late joiner steals a copy.
   One subscriber joins; a Send counts it (cnt = 1) and arms the caster; a second subscriber joins during
   delivery and takes the copy. *)
Definition sched_steal : list pick :=
  [PU0; PU1; PU2; PSendStart; PSendLock; PS; PS; PS; PS; PU0; PU1; PU2; PRecvN].

Theorem no_wlock_refuted : exists sched,
  v (run_gen no_wlock_flags (init 1 2) sched) steal = 1.
Proof. exists sched_steal. vm_compute. reflexivity. Qed.

(* the same schedule is harmless for the real protocol: the late joiner blocks in RLock *)
Example sched_steal_good : let s := run (init 1 2) sched_steal in v s steal = 0 /\ v s u0 = 1 /\ sp s = S6.
Proof. vm_compute. auto. Qed.

(* (b) An unsubscribe that did not get the read lock does not absorb a copy of an armed caster: the Send hangs
   in delivery (S6, one copy nobody will take) and nothing else is enabled. *)
Definition sched_hang : list pick :=
  [PU0; PU1; PU2; PSendStart; PSendLock; PS; PS; PS; PUnsubO; PSpinO; PN2FO; PS; PN4O].

Theorem no_route_refuted : exists sched,
  let s := run_gen no_route_flags (init 1 1) sched in
  terminalb_gen no_route_flags s = true /\ sp s <> SNone.
Proof. exists sched_hang. vm_compute. split; [reflexivity | discriminate]. Qed.

(* the same schedule on the real protocol: the unsubscriber is at n5 and its absorb step is enabled *)
Example sched_hang_good :
  let s := run (init 1 1) sched_hang in
  terminalb s = false /\ v s n5 = 1 /\ sp (run s [PAbsorb; PS; PS; PS; PS]) = SNone.
Proof. vm_compute. auto. Qed.

(* ------------------------------------------------------------------------------------------------------- *)
(* Non-vacuity                                                                                               *)

(* Three subscribers join; a Send counts 3, arms the caster; one subscriber unsubscribes in the middle of the
   delivery (spin -> subs-1 -> caster Add(-1) on the armed caster -> absorbs one copy); the other two receive.
   Send reaches S10 with sent = 2 and waits for two pongs. *)
Definition sched_demo : list pick :=
  [PU0; PU1; PU2; PU0; PU1; PU2; PU0; PU1; PU2;
   PSendStart; PSendLock; PS; PS; PS; PS;
   PUnsubO; PSpinO; PN2FO; PN4O;
   PRecvO; PRecvO; PAbsorb;
   PS; PS; PS; PS].

Example demo_reaches_S10 :
  let s := run (init 2 3) sched_demo in
  sp s = S10 /\ v s sent = 2 /\ v s pongN = 2 /\ v s b1 = 2 /\ v s fin = 1 /\ v s subs = 2 /\
  v s nsend = 1 /\ v s bad = 0 /\ v s steal = 0.
Proof. vm_compute. repeat split. Qed.

(* the n5 path was really taken *)
Example demo_n5_used :
  let s := run (init 2 3) (firstn 19 sched_demo) in sp s = S6 /\ v s n5 = 1 /\ v s k = 3 /\ v s cnt = 2.
Proof. vm_compute. repeat split. Qed.

(* S9 is reachable with sent = b1 = 2 (send_count_exact is not vacuous) *)
Example demo_S9 :
  let s := run (init 2 3) (firstn 25 sched_demo) in sp s = S9 /\ v s sent = 2 /\ v s b1 = 2.
Proof. vm_compute. repeat split. Qed.

(* Completing the run: both Waits return, the Send returns, the second Send does a full round with the two
   standing subscribers, then they stay.  Quiescent, with subs = b0n = 2 and fin = 1. *)
Definition sched_demo_full : list pick :=
  sched_demo ++ [PWait; PWait; PS;
                 PSendStart; PSendLock; PS; PS; PS; PS; PRecvO; PRecvO; PS; PS; PS; PS; PWait; PWait; PS].

Example demo_quiescent :
  let s := run (init 2 3) sched_demo_full in
  quiescentb s = true /\ terminalb s = false /\
  sp s = SNone /\ v s subs = 2 /\ v s b0n = 2 /\ v s fin = 1 /\ v s nsend = 0.
Proof. vm_compute. repeat split. Qed.

(* ... and if the two standing subscribers leave as well, the state is terminal with subs = 0 *)
Example demo_terminal :
  let s := run (init 2 3) (sched_demo_full ++ [PUnsubN; PUnsubN; PN2KN; PN2KN; PN3K; PN3K]) in
  terminalb s = true /\ sp s = SNone /\ v s subs = 0 /\ v s b0n = 0 /\ v s fin = 3.
Proof. vm_compute. repeat split. Qed.

Example demo_moves :
  moves (init 2 3) sched_demo_full = length sched_demo_full /\
  length sched_demo_full = 44 /\ measure (init 2 3) = 58.
Proof. vm_compute. repeat split. Qed.

(* ------------------------------------------------------------------------------------------------------- *)

Print Assumptions Inv_init.
Print Assumptions Inv_step.
Print Assumptions Inv_run.
Print Assumptions core_no_false_panic_no_steal.
Print Assumptions send_count_exact.
Print Assumptions quiescent_all_returned.
Print Assumptions terminal_all_returned.
Print Assumptions terminal_all_returned_run.
Print Assumptions final_count_quiescent.
Print Assumptions final_count.
Print Assumptions final_count_threads.
Print Assumptions measure_decreases.
Print Assumptions every_run_finite.
Print Assumptions no_wlock_refuted.
Print Assumptions no_route_refuted.
Print Assumptions demo_reaches_S10.
