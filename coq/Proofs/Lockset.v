(* C11 — lockset soundness: a disciplined program has no data race in any schedule.

   This is the standard lockset argument, self-contained: for ANY number of threads running ANY programs over the
   lock-state machine of Model/Lockset.v, if every access of every thread is performed while the thread holds the
   location's guard lock in an adequate mode (write mode for writes, any mode for reads) — as computed by the
   semantics itself ([check_prog] is a symbolic execution of the thread's own actions) — or the location is
   atomic-only / never written, then in no reachable state of any schedule are two different threads simultaneously
   about to perform conflicting accesses.

   What it does NOT cover, and what is trusted instead: that the held-sets which harness/cmd/lockx computes from Go
   syntax are the ones the program really has (the translator), the "fresh"/owned/exempt entries of the guard table
   (justified one by one in Model/Lockset.v), and the Go memory model's reading of mutexes, atomics, channels. *)
From Coq Require Import List Arith Lia Bool String.
From BB Require Import Model.Lockset.
Import ListNotations.

Section Soundness.
  Variable lock : Type.
  Variable loc : Type.
  Variable lock_eqb : lock -> lock -> bool.
  Hypothesis lock_eqb_spec : forall a b, lock_eqb a b = true <-> a = b.
  Variable g : loc -> lguard lock.

  Notation action := (action lock loc).
  Notation thread := (thread lock loc).
  Notation state := (state lock loc).
  Notation holds_any := (holds_any lock lock_eqb).
  Notation holds_w := (holds_w lock lock_eqb).
  Notation holds_for := (holds_for lock lock_eqb).
  Notation release := (release lock lock_eqb).
  Notation step := (step lock loc lock_eqb).
  Notation run := (run lock loc lock_eqb).
  Notation check_prog := (check_prog lock loc lock_eqb g).
  Notation action_ok := (action_ok lock loc lock_eqb g).

  (* Two actions conflict: same location, and a plain write is involved, or a plain access meets an atomic one. *)
  Definition conflict (a b : action) : Prop :=
    match a, b with
    | Access x k, Access y k' => x = y /\ (k = W \/ k' = W)
    | Access x _, AtomicOp y => x = y
    | AtomicOp x, Access y _ => x = y
    | _, _ => False
    end.

  (* A data race: two DIFFERENT threads whose next actions conflict (both are about to be performed: plain
     accesses are always enabled). *)
  Definition race (s : state) : Prop :=
    exists i j ti tj a b,
      i <> j /\ nth_error s i = Some ti /\ nth_error s j = Some tj /\
      hd_error (t_prog ti) = Some a /\ hd_error (t_prog tj) = Some b /\ conflict a b.

  (* Invariant of the lock-state machine: a lock held in write mode by one thread is held by no other thread
     (writer-held => exactly one holder; some reader => no writer). *)
  Definition lock_inv (s : state) : Prop :=
    forall i j ti tj l, i <> j -> nth_error s i = Some ti -> nth_error s j = Some tj ->
      holds_w (t_held ti) l = true -> holds_any (t_held tj) l = false.

  Definition disc (s : state) : Prop :=
    forall i t, nth_error s i = Some t -> check_prog (t_held t) (t_prog t) = true.

  (* ---- held sets ---- *)
  Lemma holds_w_any : forall h l, holds_w h l = true -> holds_any h l = true.
  Proof.
    intros h l H. unfold Lockset.holds_w, Lockset.holds_any in *.
    apply existsb_exists in H. destruct H as [p [Hin Hp]]. apply andb_true_iff in Hp.
    apply existsb_exists. exists p. tauto.
  Qed.

  Lemma holds_for_any : forall h l k, holds_for h l k = true -> holds_any h l = true.
  Proof.
    intros h l k H. unfold Lockset.holds_for in H. destruct (rw_is_w k); auto using holds_w_any.
  Qed.

  Lemma holds_any_cons : forall p h l, holds_any (p :: h) l = lock_eqb (fst p) l || holds_any h l.
  Proof. reflexivity. Qed.
  Lemma holds_w_cons : forall p h l,
      holds_w (p :: h) l = (lock_eqb (fst p) l && mode_is_w (snd p)) || holds_w h l.
  Proof. reflexivity. Qed.
  Lemma release_cons : forall p h l,
      release (p :: h) l = if lock_eqb (fst p) l then h else p :: release h l.
  Proof. reflexivity. Qed.

  Lemma release_any : forall h l' l, holds_any (release h l') l = true -> holds_any h l = true.
  Proof.
    induction h as [|p h IH]; intros l' l H; [discriminate|].
    rewrite release_cons in H. rewrite holds_any_cons. destruct (lock_eqb (fst p) l') eqn:E.
    - rewrite H. apply orb_true_r.
    - rewrite holds_any_cons in H. apply orb_true_iff in H. destruct H as [H|H].
      + rewrite H. reflexivity.
      + rewrite (IH _ _ H). apply orb_true_r.
  Qed.

  Lemma release_w : forall h l' l, holds_w (release h l') l = true -> holds_w h l = true.
  Proof.
    induction h as [|p h IH]; intros l' l H; [discriminate|].
    rewrite release_cons in H. rewrite holds_w_cons. destruct (lock_eqb (fst p) l') eqn:E.
    - rewrite H. apply orb_true_r.
    - rewrite holds_w_cons in H. apply orb_true_iff in H. destruct H as [H|H].
      + rewrite H. reflexivity.
      + rewrite (IH _ _ H). apply orb_true_r.
  Qed.

  Lemma can_acq_w : forall (s : state) l j tj,
      can_acq lock loc lock_eqb s l MW = true -> nth_error s j = Some tj -> holds_any (t_held tj) l = false.
  Proof.
    intros s l j tj H Hn. cbn in H. apply negb_true_iff in H.
    destruct (holds_any (t_held tj) l) eqn:E; [|reflexivity].
    assert (X : existsb (fun t => holds_any (t_held t) l) s = true).
    { apply existsb_exists. exists tj. split; [eapply nth_error_In; eauto | exact E]. }
    congruence.
  Qed.

  Lemma can_acq_r : forall (s : state) l j tj,
      can_acq lock loc lock_eqb s l MR = true -> nth_error s j = Some tj -> holds_w (t_held tj) l = false.
  Proof.
    intros s l j tj H Hn. cbn in H. apply negb_true_iff in H.
    destruct (holds_w (t_held tj) l) eqn:E; [|reflexivity].
    assert (X : existsb (fun t => holds_w (t_held t) l) s = true).
    { apply existsb_exists. exists tj. split; [eapply nth_error_In; eauto | exact E]. }
    congruence.
  Qed.

  (* ---- thread table ---- *)
  Lemma nth_set_eq : forall (s : state) i u t, nth_error s i = Some u -> nth_error (set_nth lock loc s i t) i = Some t.
  Proof.
    induction s as [|x s IH]; intros [|i] u t H; cbn in *; try discriminate; eauto.
  Qed.

  Lemma nth_set_neq : forall (s : state) i j t, i <> j -> nth_error (set_nth lock loc s i t) j = nth_error s j.
  Proof.
    induction s as [|x s IH]; intros [|i] [|j] t H; cbn; try reflexivity; try congruence.
    apply IH. congruence.
  Qed.

  (* ---- one step of thread i performing action a ---- *)
  Lemma lock_inv_update : forall (s : state) i t a p,
      lock_inv s -> nth_error s i = Some t -> t_prog t = a :: p ->
      enabled lock loc lock_eqb s t a = true ->
      lock_inv (set_nth lock loc s i (mkThread p (held_after lock loc lock_eqb (t_held t) a))).
  Proof.
    intros s i t a p Hinv Hi Hp Hen i1 i2 t1 t2 l Hne H1 H2 Hw.
    destruct (Nat.eq_dec i1 i) as [E1|N1]; destruct (Nat.eq_dec i2 i) as [E2|N2].
    - congruence.
    - (* the stepping thread is the writer of the pair *)
      subst i1. rewrite (nth_set_eq _ _ _ _ Hi) in H1. injection H1 as <-.
      rewrite nth_set_neq in H2 by congruence. cbn [t_held] in Hw.
      destruct a as [l' m|l'|x k|x|]; cbn [held_after] in Hw;
        try (eapply (Hinv i i2 t t2 l); eauto; fail).
      + rewrite holds_w_cons in Hw. cbn [fst snd] in Hw. apply orb_true_iff in Hw. destruct Hw as [Hw|Hw].
        * apply andb_true_iff in Hw. destruct Hw as [El Hm]. apply lock_eqb_spec in El. subst l'.
          destruct m; [discriminate|]. cbn [enabled] in Hen. eapply can_acq_w; eauto.
        * eapply (Hinv i i2 t t2 l); eauto.
      + apply release_w in Hw. eapply (Hinv i i2 t t2 l); eauto.
    - (* the stepping thread is the other one of the pair *)
      subst i2. rewrite (nth_set_eq _ _ _ _ Hi) in H2. injection H2 as <-.
      rewrite nth_set_neq in H1 by congruence. cbn [t_held].
      assert (Hold : holds_any (t_held t) l = false) by (eapply (Hinv i1 i t1 t l); eauto).
      destruct a as [l' m|l'|x k|x|]; cbn [held_after]; try exact Hold.
      + rewrite holds_any_cons. cbn [fst]. rewrite Hold, orb_false_r. destruct (lock_eqb l' l) eqn:El; [|reflexivity].
        apply lock_eqb_spec in El. subst l'. cbn [enabled] in Hen. exfalso. destruct m.
        * pose proof (can_acq_r _ _ _ _ Hen H1). congruence.
        * pose proof (can_acq_w _ _ _ _ Hen H1) as X. apply holds_w_any in Hw. congruence.
      + destruct (holds_any (release (t_held t) l') l) eqn:E; [|reflexivity].
        apply release_any in E. congruence.
    - rewrite nth_set_neq in H1 by congruence. rewrite nth_set_neq in H2 by congruence.
      exact (Hinv i1 i2 t1 t2 l Hne H1 H2 Hw).
  Qed.

  Lemma disc_update : forall (s : state) i t a p,
      disc s -> nth_error s i = Some t -> t_prog t = a :: p ->
      disc (set_nth lock loc s i (mkThread p (held_after lock loc lock_eqb (t_held t) a))).
  Proof.
    intros s i t a p Hd Hi Hp j u Hj.
    destruct (Nat.eq_dec j i) as [E|N].
    - subst j. rewrite (nth_set_eq _ _ _ _ Hi) in Hj. injection Hj as <-. cbn [t_held t_prog].
      pose proof (Hd _ _ Hi) as C. rewrite Hp in C. cbn in C. apply andb_true_iff in C. tauto.
    - rewrite nth_set_neq in Hj by congruence. eauto.
  Qed.

  Lemma step_preserves : forall s i, lock_inv s /\ disc s -> lock_inv (step s i) /\ disc (step s i).
  Proof.
    intros s i [Hinv Hd]. unfold Lockset.step.
    destruct (nth_error s i) as [t|] eqn:Hi; [|tauto].
    destruct (t_prog t) as [|a p] eqn:Hp; [tauto|].
    destruct (enabled lock loc lock_eqb s t a) eqn:Hen; [|tauto].
    split; [eapply lock_inv_update; eauto | eapply disc_update; eauto].
  Qed.

  Lemma run_preserves : forall sched s, lock_inv s /\ disc s -> lock_inv (run s sched) /\ disc (run s sched).
  Proof.
    induction sched as [|i sched IH]; intros s H; cbn; [exact H|].
    apply IH. apply step_preserves. exact H.
  Qed.

  Lemma disciplined_disc : forall s, disciplined lock loc lock_eqb g s = true -> disc s.
  Proof.
    intros s H i t Hi. unfold disciplined in H. rewrite forallb_forall in H.
    apply H. eapply nth_error_In; eauto.
  Qed.

  Lemma inv_no_race : forall s, lock_inv s -> disc s -> ~ race s.
  Proof.
    intros s Hinv Hd (i & j & ti & tj & a & b & Hne & Hi & Hj & Ha & Hb & Hc).
    pose proof (Hd _ _ Hi) as Ci. pose proof (Hd _ _ Hj) as Cj.
    destruct (t_prog ti) as [|a' pi] eqn:Epi; [discriminate|]. injection Ha as ->.
    destruct (t_prog tj) as [|b' pj] eqn:Epj; [discriminate|]. injection Hb as ->.
    cbn in Ci, Cj. apply andb_true_iff in Ci. apply andb_true_iff in Cj.
    destruct Ci as [Ci _]. destruct Cj as [Cj _].
    destruct a as [?|?|x k|x|]; destruct b as [?|?|y k'|y|]; cbn in Hc; try contradiction.
    - destruct Hc as [<- Hk]. cbn in Ci, Cj. destruct (g x) as [l| |].
      + destruct Hk as [-> | ->].
        * cbn in Ci. pose proof (Hinv i j ti tj l Hne Hi Hj Ci) as X.
          apply holds_for_any in Cj. congruence.
        * cbn in Cj. assert (Hne' : j <> i) by congruence.
          pose proof (Hinv j i tj ti l Hne' Hj Hi Cj) as X.
          apply holds_for_any in Ci. congruence.
      + discriminate.
      + destruct Hk as [-> | ->]; discriminate.
    - subst y. cbn in Ci, Cj. destruct (g x); discriminate.
    - subst y. cbn in Ci, Cj. destruct (g x); discriminate.
  Qed.

  (* THE generic theorem. *)
  Theorem disciplined_no_race : forall (s0 : state),
      lock_inv s0 ->
      disciplined lock loc lock_eqb g s0 = true ->
      forall sched, ~ race (run s0 sched).
  Proof.
    intros s0 Hinv Hd sched.
    destruct (run_preserves sched s0 (conj Hinv (disciplined_disc _ Hd))) as [I D].
    apply inv_no_race; assumption.
  Qed.

  (* The usual initial condition: nobody holds anything. *)
  Lemma lock_inv_init : forall (s : state), (forall t, In t s -> t_held t = []) -> lock_inv s.
  Proof.
    intros s H i j ti tj l _ Hi _ Hw. rewrite (H ti) in Hw by (eapply nth_error_In; eauto). discriminate.
  Qed.

  Corollary disciplined_no_race_init : forall (s0 : state),
      (forall t, In t s0 -> t_held t = []) ->
      disciplined lock loc lock_eqb g s0 = true ->
      forall sched, ~ race (run s0 sched).
  Proof. intros. apply disciplined_no_race; auto using lock_inv_init. Qed.
End Soundness.

(* ---- the bridge between the translator's facts and the abstract discipline ---- *)

(* For a mutex-guarded field, [guard_ok] on a non-fresh fact says exactly what [action_ok] asks of an Access: the
   guard lock OF THE SAME OBJECT is in the held set, in write mode if the access is a write. *)
Lemma guard_ok_mutex : forall t fa lf,
    lookup t (f_struct fa) (f_field fa) = Some (GMutex lf) ->
    f_fresh fa = false ->
    guard_ok t fa = true ->
    f_atomic fa = false /\
    held_lock (f_held fa) (f_struct fa) lf (rw_is_w (f_kind fa)) = true.
Proof.
  intros t fa lf Hl Hf H. unfold guard_ok in H. rewrite Hl, Hf in H. cbn in H.
  apply andb_true_iff in H. destruct H as [Ha Hh]. apply negb_true_iff in Ha. tauto.
Qed.

Lemma guard_ok_atomic : forall t fa,
    lookup t (f_struct fa) (f_field fa) = Some GAtomic -> guard_ok t fa = true ->
    f_atomic fa = true \/ f_fresh fa = true.
Proof.
  intros t fa Hl H. unfold guard_ok in H. rewrite Hl in H. cbn in H.
  apply orb_true_iff in H. destruct H as [H|H]; [|tauto].
  apply andb_true_iff in H. tauto.
Qed.

Lemma guard_ok_immutable : forall t fa,
    lookup t (f_struct fa) (f_field fa) = Some GImmutable -> guard_ok t fa = true ->
    f_fresh fa = true \/ f_kind fa = R.
Proof.
  intros t fa Hl H. unfold guard_ok in H. rewrite Hl in H. cbn in H.
  apply orb_true_iff in H. destruct H as [H|H].
  - apply andb_true_iff in H. tauto.
  - apply andb_true_iff in H. destruct H as [_ H]. destruct (f_kind fa); [tauto|discriminate].
Qed.

(* ---- examples: the hypotheses are satisfiable, the interesting cases occur, and the discipline is needed ---- *)
Section Examples.
  Let lk := nat. Let lc := nat.
  Let gd (x : lc) : lguard lk := match x with 0 => LMutex 7 | 1 => LAtomic | _ => LImmutable end.

  (* a writer, two readers (one waits on a cond in between), all touching location 0 under lock 7; an atomic word 1;
     a read-only location 2 *)
  Let good : state lk lc := [
    mkThread [Acq 7 MW; Access 0 W; AtomicOp 1; Rel 7; Access 2 R] [];
    mkThread ([Acq 7 MR; Access 0 R] ++ [Rel 7]) [];
    mkThread ([Acq 7 MW; Access 0 R] ++ CondWait nat nat 7 MW ++ [Access 0 W; Rel 7; AtomicOp 1; Access 2 R]) []
  ].

  Example good_disciplined : disciplined lk lc Nat.eqb gd good = true.
  Proof. vm_compute. reflexivity. Qed.

  Example good_no_race : forall sched, ~ race lk lc (run lk lc Nat.eqb good sched).
  Proof.
    apply (disciplined_no_race_init lk lc Nat.eqb Nat.eqb_eq gd).
    - intros t H. cbn in H. intuition (subst; reflexivity).
    - exact good_disciplined.
  Qed.

  (* the lock really excludes: with the writer inside its critical section the reader's RLock is not enabled *)
  Example good_blocks :
    let s := run lk lc Nat.eqb good [0] in step lk lc Nat.eqb s 1 = s.
  Proof. vm_compute. reflexivity. Qed.

  (* drop the reader's lock: not disciplined, and a schedule reaches a state with a write/read race on location 0 *)
  Let bad : state lk lc := [
    mkThread [Acq 7 MW; Access 0 W; Rel 7] [];
    mkThread [Access 0 R] []
  ].
  Example bad_not_disciplined : disciplined lk lc Nat.eqb gd bad = false.
  Proof. vm_compute. reflexivity. Qed.
  Example bad_races : exists sched, race lk lc (run lk lc Nat.eqb bad sched).
  Proof.
    exists [0]. exists 0, 1. do 4 eexists. repeat split; try (vm_compute; reflexivity); auto.
  Qed.

  (* Finding F5 in the abstract model: SetCleanerConfig (lock 0 = b.mutex, location 0 = b.cleaner) against the
     unlocked double-checked read of Buffer.ensure at the start of any other call. *)
  Definition f5_prog : state nat nat := [
    mkThread [Acq 0 MW; Access 0 W; Rel 0] [];     (* Buffer.SetCleanerConfig *)
    mkThread [Access 0 R; Acq 0 MR; Rel 0] []      (* Buffer.ensure; then e.g. Buffer.Size *)
  ].
  Lemma f5_races : exists sched, race nat nat (run nat nat Nat.eqb f5_prog sched).
  Proof.
    exists [0]. exists 0, 1. do 4 eexists. repeat split; try (vm_compute; reflexivity); auto.
  Qed.
End Examples.
