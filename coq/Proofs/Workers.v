(* Proofs about Model/Workers.v: exactly-once, bound, no strand, Wait, termination measure; refutations of four mutations. *)
From Coq Require Import List Arith Lia Bool ZifyBool.
From BB.Model Require Import Workers.
Import ListNotations.
Arguments Nat.sub : simpl never.
Arguments Nat.ltb : simpl never.
Arguments Nat.leb : simpl never.
Arguments Nat.eqb : simpl never.
Arguments Nat.max : simpl never.
Arguments Nat.mul : simpl never.

(* ------------------------------------------------------------------------------------------------ lists *)
Section Lists.
Context {A : Type}.

Lemma countp_app (P : A -> bool) (l l' : list A) : countp P (l ++ l') = countp P l + countp P l'.
Proof. induction l as [|x r IH]; cbn; [reflexivity | rewrite IH; lia]. Qed.

Lemma countp_repeat (P : A -> bool) (x : A) (n : nat) : countp P (repeat x n) = n * b2n (P x).
Proof. induction n as [|n IH]; cbn; [lia | rewrite IH; lia]. Qed.

Lemma countp_upd (P : A -> bool) (l : list A) (n : nat) (x y : A) :
  nth_error l n = Some x -> countp P (upd l n y) + b2n (P x) = countp P l + b2n (P y).
Proof.
  revert n; induction l as [|a r IH]; intros [|n] Hn; cbn in *; try discriminate.
  - injection Hn as ->. lia.
  - specialize (IH n Hn). lia.
Qed.

Lemma sumf_app (f : A -> nat) (l l' : list A) : sumf f (l ++ l') = sumf f l + sumf f l'.
Proof. induction l as [|x r IH]; cbn; [reflexivity | rewrite IH; lia]. Qed.

Lemma sumf_repeat (f : A -> nat) (x : A) (n : nat) : sumf f (repeat x n) = n * f x.
Proof. induction n as [|n IH]; cbn; [lia | rewrite IH; lia]. Qed.

Lemma sumf_upd (f : A -> nat) (l : list A) (n : nat) (x y : A) :
  nth_error l n = Some x -> sumf f (upd l n y) + f x = sumf f l + f y.
Proof.
  revert n; induction l as [|a r IH]; intros [|n] Hn; cbn in *; try discriminate.
  - injection Hn as ->. lia.
  - specialize (IH n Hn). lia.
Qed.

Lemma length_upd (l : list A) (n : nat) (y : A) : length (upd l n y) = length l.
Proof. revert n; induction l as [|a r IH]; intros [|n]; cbn; auto. Qed.

Lemma length_updf (l : list A) (n : nat) (f : A -> A) : length (updf l n f) = length l.
Proof. revert n; induction l as [|a r IH]; intros [|n]; cbn; auto. Qed.

Lemma nth_error_upd_same (l : list A) (n : nat) (x y : A) :
  nth_error l n = Some x -> nth_error (upd l n y) n = Some y.
Proof. revert n; induction l as [|a r IH]; intros [|n] Hn; cbn in *; try discriminate; auto. Qed.

Lemma nth_error_upd_other (l : list A) (n m : nat) (y : A) : m <> n -> nth_error (upd l n y) m = nth_error l m.
Proof.
  revert n m; induction l as [|a r IH]; intros [|n] [|m] Hne; cbn; try reflexivity; try lia.
  apply IH; lia.
Qed.

Lemma nth_error_updf_same (l : list A) (n : nat) (f : A -> A) :
  nth_error (updf l n f) n = option_map f (nth_error l n).
Proof. revert n; induction l as [|a r IH]; intros [|n]; cbn; auto. Qed.

Lemma nth_error_updf_other (l : list A) (n m : nat) (f : A -> A) : m <> n -> nth_error (updf l n f) m = nth_error l m.
Proof.
  revert n m; induction l as [|a r IH]; intros [|n] [|m] Hne; cbn; try reflexivity; try lia.
  apply IH; lia.
Qed.

Lemma countp_le (P Q : A -> bool) (l : list A) : (forall x, P x = true -> Q x = true) -> countp P l <= countp Q l.
Proof.
  intros HPQ; induction l as [|x r IH]; cbn; [lia|].
  specialize (HPQ x). destruct (P x); destruct (Q x); cbn; try lia; discriminate (HPQ eq_refl).
Qed.

Lemma countp_zero_nth (P : A -> bool) (l : list A) :
  countp P l = 0 -> forall n x, nth_error l n = Some x -> P x = false.
Proof.
  induction l as [|a r IH]; intros H0 [|n] x Hn; cbn in *; try discriminate.
  - injection Hn as ->. destruct (P x); cbn in H0; [lia | reflexivity].
  - apply (IH ltac:(lia) n x Hn).
Qed.

Lemma countp_all_false (P : A -> bool) (l : list A) :
  (forall n x, nth_error l n = Some x -> P x = false) -> countp P l = 0.
Proof.
  induction l as [|a r IH]; intros H; cbn; [reflexivity|].
  rewrite (H 0 a eq_refl). cbn. apply IH. intros n x Hn. exact (H (S n) x Hn).
Qed.

Lemma countp_pos_ex (P : A -> bool) (l : list A) :
  0 < countp P l -> exists n x, nth_error l n = Some x /\ P x = true.
Proof.
  induction l as [|a r IH]; cbn; intros Hpos; [lia|].
  destruct (P a) eqn:Ha.
  - exists 0, a. auto.
  - cbn in Hpos. destruct (IH Hpos) as (n & x & Hn & Hx). exists (S n), x. auto.
Qed.

Lemma Forall_upd (P : A -> Prop) (l : list A) (n : nat) (y : A) : Forall P l -> P y -> Forall P (upd l n y).
Proof.
  intros Hl Hy. revert n; induction Hl as [|a r Ha Hr IH]; intros [|n]; cbn; constructor; auto.
Qed.

Lemma Forall_nth_error (P : A -> Prop) (l : list A) (n : nat) (x : A) : Forall P l -> nth_error l n = Some x -> P x.
Proof. intros Hl Hn. rewrite Forall_forall in Hl. apply Hl. eapply nth_error_In; eauto. Qed.

End Lists.

(* ------------------------------------------------------------------------- the steps of the faithful protocol *)
Inductive Step (s : st) : pick -> st -> Prop :=
| S_exit w : nth_error (ws s) w = Some WIdle -> (queue s = [] \/ target s < count s) ->
    Step s (PW w) (mk (count s - 1) (target s) (queue s) (upd (ws s) w WDead) (calls s) (callers s) (maxreq s))
| S_deq w i rest : nth_error (ws s) w = Some WIdle -> queue s = i :: rest -> count s <= target s ->
    Step s (PW w) (mk (count s) (target s) rest (upd (ws s) w (WGot i)) (calls s) (callers s) (maxreq s))
| S_start w i : nth_error (ws s) w = Some (WGot i) ->
    Step s (PW w) (mk (count s) (target s) (queue s) (upd (ws s) w (WRun i)) (updf (calls s) i call_start) (callers s) (maxreq s))
| S_end w i : nth_error (ws s) w = Some (WRun i) ->
    Step s (PW w) (mk (count s) (target s) (queue s) (upd (ws s) w WIdle) (updf (calls s) i (call_finish i)) (callers s) (maxreq s))
| S_panic t c rest : nth_error (callers s) t = Some c -> pc c = PReady -> script c = CCall 0 :: rest ->
    Step s (PC t) (mk (count s) (target s) (queue s) (ws s) (calls s)
                     (upd (callers s) t {| script := rest; pc := PReady; outs := outs c ++ [RPanic] |}) (maxreq s))
| S_call t c k' rest : nth_error (callers s) t = Some c -> pc c = PReady -> script c = CCall (S k') :: rest ->
    Step s (PC t) (mk (count s + (S k' - count s)) (S k') (queue s ++ [length (calls s)]) (ws s ++ repeat WIdle (S k' - count s))
                     (calls s ++ [{| cs := SQueued; cx := 0; ce := 0; cown := t; cidx := length (outs c) |}])
                     (upd (callers s) t {| script := rest; pc := PBlocked (length (calls s)); outs := outs c |})
                     (Nat.max (maxreq s) (S k')))
| S_waitinv t c rest : nth_error (callers s) t = Some c -> pc c = PReady -> script c = CWait :: rest ->
    Step s (PC t) (mk (count s) (target s) (queue s) (ws s) (calls s)
                     (upd (callers s) t {| script := rest; pc := PWaiting; outs := outs c |}) (maxreq s))
| S_count t c rest : nth_error (callers s) t = Some c -> pc c = PReady -> script c = CCount :: rest ->
    Step s (PC t) (mk (count s) (target s) (queue s) (ws s) (calls s)
                     (upd (callers s) t {| script := rest; pc := PReady; outs := outs c ++ [RCount (count s)] |}) (maxreq s))
| S_ret t c i cl r : nth_error (callers s) t = Some c -> pc c = PBlocked i -> nth_error (calls s) i = Some cl -> cs cl = SReplied r ->
    Step s (PC t) (mk (count s) (target s) (queue s) (ws s) (updf (calls s) i (call_return r))
                     (upd (callers s) t {| script := script c; pc := PReady; outs := outs c ++ [RCall i r] |}) (maxreq s))
| S_waitret t c : nth_error (callers s) t = Some c -> pc c = PWaiting -> count s = 0 ->
    Step s (PC t) (mk (count s) (target s) (queue s) (ws s) (calls s)
                     (upd (callers s) t {| script := script c; pc := PReady; outs := outs c ++ [RWait] |}) (maxreq s)).

Lemma step_inv (s : st) (x : pick) (s' : st) : step Faithful s x = Some s' -> Step s x s'.
Proof.
  destruct x as [t|w]; cbn [step]; intros H.
  - unfold cstep in H. destruct (nth_error (callers s) t) as [c|] eqn:Hc; [|discriminate].
    destruct (pc c) as [|i|] eqn:Hpc.
    + destruct (script c) as [|[k| |] rest] eqn:Hs; [discriminate| | |].
      * destruct k as [|k']; injection H as <-.
        -- eapply S_panic; eauto.
        -- cbn [spawn_n]. eapply S_call; eauto.
      * injection H as <-. eapply S_waitinv; eauto.
      * injection H as <-. eapply S_count; eauto.
    + destruct (nth_error (calls s) i) as [cl|] eqn:Hcl; [|discriminate].
      destruct (cs cl) as [| |r|r] eqn:Hcs; try discriminate.
      injection H as <-. eapply S_ret; eauto.
    + destruct (count s =? 0) eqn:H0; [|discriminate].
      injection H as <-. eapply S_waitret; eauto. lia.
  - unfold wstep in H. destruct (nth_error (ws s) w) as [[|i|i|]|] eqn:Hw; try discriminate.
    + cbn [exit_test dec_on_exit pop] in H.
      destruct (is_nil (queue s) || (target s <? count s)) eqn:Hex.
      * injection H as <-. eapply S_exit; eauto.
        destruct (queue s); cbn in Hex; [left; reflexivity | right; lia].
      * destruct (queue s) as [|i rest] eqn:Hq; [discriminate|].
        injection H as <-. cbn in Hex. eapply S_deq; eauto. lia.
    + injection H as <-. eapply S_start; eauto.
    + injection H as <-. eapply S_end; eauto.
Qed.

(* every Step is a step (so the relation describes exactly the faithful protocol) *)
Lemma step_complete (s : st) (x : pick) (s' : st) : Step s x s' -> step Faithful s x = Some s'.
Proof.
  intros H; destruct H as [w Hw Hex|w i rest Hw Hq Hle|w i Hw|w i Hw|t c rest Hc Hpc Hs|t c k' rest Hc Hpc Hs
                           |t c rest Hc Hpc Hs|t c rest Hc Hpc Hs|t c i cl r Hc Hpc Hcl Hcs|t c Hc Hpc H0];
    cbn [step]; unfold cstep, wstep; try rewrite Hw; try rewrite Hc; try rewrite Hpc; try rewrite Hs; try reflexivity.
  - cbn [exit_test dec_on_exit]. destruct Hex as [Hq|Hlt].
    + rewrite Hq. reflexivity.
    + replace (target s <? count s) with true by lia. rewrite orb_true_r. reflexivity.
  - cbn [exit_test pop]. rewrite Hq. cbn [is_nil]. replace (target s <? count s) with false by lia. reflexivity.
  - rewrite Hcl, Hcs. reflexivity.
  - rewrite H0. reflexivity.
Qed.

Lemma step_iff (s : st) (x : pick) (s' : st) : step Faithful s x = Some s' <-> Step s x s'.
Proof. split; [apply step_inv | apply step_complete]. Qed.

(* ------------------------------------------------------------------------------------------------ invariants *)
(* global part: count is the number of live workers, never above the largest request, and a non-empty queue has a worker *)
Definition InvG (s : st) : Prop :=
  count s = countp live (ws s) /\ count s <= maxreq s /\ (0 < length (queue s) -> 1 <= count s /\ 1 <= target s).

Lemma invG_step (s : st) (x : pick) (s' : st) : InvG s -> Step s x s' -> InvG s'.
Proof.
  intros (Hc & Hm & Hq) H.
  destruct H as [w Hw Hex|w i rest Hw Hqe Hle|w i Hw|w i Hw|t c rest Hc' Hpc Hs|t c k' rest Hc' Hpc Hs
                 |t c rest Hc' Hpc Hs|t c rest Hc' Hpc Hs|t c i cl r Hc' Hpc Hcl Hcs|t c Hc' Hpc H0];
    unfold InvG; cbn; try (repeat split; solve [assumption | lia]).
  - pose proof (countp_upd live _ _ _ WDead Hw) as Hl. cbn in Hl.
    destruct Hex as [Hqe|Hlt]; [rewrite Hqe in *; cbn in *; lia | lia].
  - pose proof (countp_upd live _ _ _ (WGot i) Hw) as Hl. cbn in Hl.
    rewrite Hqe in Hq. cbn in Hq. lia.
  - pose proof (countp_upd live _ _ _ (WRun i) Hw) as Hl. cbn in Hl. lia.
  - pose proof (countp_upd live _ _ _ WIdle Hw) as Hl. cbn in Hl. lia.
  - rewrite countp_app, countp_repeat, app_length. cbn. lia.
Qed.

(* per call i: where it is (queue / a worker's hands / running / reply channel / returned), how often it ran, what it yields *)
Definition InvC (i : nat) (s : st) : Prop :=
  match nth_error (calls s) i with
  | None => countp (fun j => j =? i) (queue s) = 0 /\ countp (is_got i) (ws s) = 0 /\ countp (is_run i) (ws s) = 0 /\
            countp (is_blk i) (callers s) = 0
  | Some c =>
      match cs c with
      | SQueued => countp (fun j => j =? i) (queue s) + countp (is_got i) (ws s) = 1 /\ countp (is_run i) (ws s) = 0 /\
                   countp (is_blk i) (callers s) = 1 /\ cx c = 0 /\ ce c = 0
      | SRunning => countp (fun j => j =? i) (queue s) = 0 /\ countp (is_got i) (ws s) = 0 /\ countp (is_run i) (ws s) = 1 /\
                    countp (is_blk i) (callers s) = 1 /\ cx c = 1 /\ ce c = 0
      | SReplied v => countp (fun j => j =? i) (queue s) = 0 /\ countp (is_got i) (ws s) = 0 /\ countp (is_run i) (ws s) = 0 /\
                      countp (is_blk i) (callers s) = 1 /\ cx c = 1 /\ ce c = 1 /\ v = i
      | SReturned v => countp (fun j => j =? i) (queue s) = 0 /\ countp (is_got i) (ws s) = 0 /\ countp (is_run i) (ws s) = 0 /\
                       countp (is_blk i) (callers s) = 0 /\ cx c = 1 /\ ce c = 1 /\ v = i
      end
  end.

Ltac wk_facts i Hw y :=
  let Hg := fresh "Hg" in let Hr := fresh "Hr" in
  pose proof (countp_upd (is_got i) _ _ _ y Hw) as Hg; pose proof (countp_upd (is_run i) _ _ _ y Hw) as Hr;
  cbn [is_got is_run b2n] in Hg, Hr.

Ltac cr_facts i c Hc Hpc y :=
  let Hb := fresh "Hb" in let Hx := fresh "Hx" in let Hy := fresh "Hy" in
  pose proof (countp_upd (is_blk i) _ _ _ y Hc) as Hb;
  assert (Hx : is_blk i c = match pc c with PBlocked j => j =? i | _ => false end) by reflexivity;
  rewrite Hpc in Hx; rewrite Hx in Hb; clear Hx;
  assert (Hy : is_blk i y = match pc y with PBlocked j => j =? i | _ => false end) by reflexivity;
  cbn [pc] in Hy; rewrite Hy in Hb; clear Hy; cbn [b2n] in Hb.

Ltac split_status c := destruct c as [[| |?v|?v] ?x ?e ?o ?d]; cbn [cs cx ce call_start call_finish call_return] in *.

Lemma invC_step (i : nat) (s : st) (x : pick) (s' : st) : InvC i s -> Step s x s' -> InvC i s'.
Proof.
  intros HI H.
  destruct H as [w Hw Hex|w j rest Hw Hqe Hle|w j Hw|w j Hw|t c rest Hc Hpc Hs|t c k' rest Hc Hpc Hs
                 |t c rest Hc Hpc Hs|t c rest Hc Hpc Hs|t c j cl r Hc Hpc Hcl Hcs|t c Hc Hpc H0];
    unfold InvC in *; cbn [count target queue ws calls callers maxreq mk].
  - (* exit *) wk_facts i Hw WDead.
    destruct (nth_error (calls s) i) as [c|]; [split_status c|]; lia.
  - (* dequeue *) wk_facts i Hw (WGot j). rewrite Hqe in HI. cbn [countp] in HI.
    destruct (nth_error (calls s) i) as [c|]; [split_status c|]; lia.
  - (* start *) wk_facts i Hw (WRun j).
    destruct (Nat.eq_dec i j) as [->|Hne].
    + rewrite nth_error_updf_same. rewrite Nat.eqb_refl in *. cbn [b2n] in *.
      destruct (nth_error (calls s) j) as [c|]; [split_status c|]; cbn [option_map cs cx ce call_start]; lia.
    + rewrite nth_error_updf_other by exact Hne. replace (j =? i) with false in * by lia. cbn [b2n] in *.
      destruct (nth_error (calls s) i) as [c|]; [split_status c|]; lia.
  - (* end *) wk_facts i Hw WIdle.
    destruct (Nat.eq_dec i j) as [->|Hne].
    + rewrite nth_error_updf_same. rewrite Nat.eqb_refl in *. cbn [b2n] in *.
      destruct (nth_error (calls s) j) as [c|]; [split_status c|]; cbn [option_map cs cx ce call_finish]; lia.
    + rewrite nth_error_updf_other by exact Hne. replace (j =? i) with false in * by lia. cbn [b2n] in *.
      destruct (nth_error (calls s) i) as [c|]; [split_status c|]; lia.
  - (* Call 0 panics *) cr_facts i c Hc Hpc {| script := rest; pc := PReady; outs := outs c ++ [RPanic] |}.
    destruct (nth_error (calls s) i) as [c0|]; [split_status c0|]; lia.
  - (* Call *)
    cr_facts i c Hc Hpc {| script := rest; pc := PBlocked (length (calls s)); outs := outs c |}.
    rewrite !countp_app, !countp_repeat. cbn [countp is_got is_run b2n].
    destruct (lt_eq_lt_dec i (length (calls s))) as [[Hlt|Heq]|Hgt].
    + rewrite nth_error_app1 by exact Hlt. replace (length (calls s) =? i) with false in * by lia. cbn [b2n] in *.
      destruct (nth_error (calls s) i) as [c0|]; [split_status c0|]; lia.
    + subst i. rewrite nth_error_app2 by lia. rewrite Nat.sub_diag. cbn [nth_error cs cx ce].
      rewrite Nat.eqb_refl in *. cbn [b2n] in *.
      pose proof (proj2 (nth_error_None (calls s) (length (calls s))) (le_n _)) as Hnone. rewrite Hnone in HI. lia.
    + assert (Hn1 : nth_error (calls s) i = None) by (apply nth_error_None; lia).
      assert (Hn2 : nth_error (calls s ++ [{| cs := SQueued; cx := 0; ce := 0; cown := t; cidx := length (outs c) |}]) i = None)
        by (apply nth_error_None; rewrite app_length; cbn; lia).
      rewrite Hn1 in HI. rewrite Hn2. replace (length (calls s) =? i) with false in * by lia. cbn [b2n] in *. lia.
  - (* Wait invoked *) cr_facts i c Hc Hpc {| script := rest; pc := PWaiting; outs := outs c |}.
    destruct (nth_error (calls s) i) as [c0|]; [split_status c0|]; lia.
  - (* Count *) cr_facts i c Hc Hpc {| script := rest; pc := PReady; outs := outs c ++ [RCount (count s)] |}.
    destruct (nth_error (calls s) i) as [c0|]; [split_status c0|]; lia.
  - (* Call returns *) cr_facts i c Hc Hpc {| script := script c; pc := PReady; outs := outs c ++ [RCall j r] |}.
    destruct (Nat.eq_dec i j) as [->|Hne].
    + rewrite nth_error_updf_same. rewrite Hcl in *. rewrite Nat.eqb_refl in *. cbn [b2n option_map] in *.
      split_status cl; try discriminate. injection Hcs as ->. lia.
    + rewrite nth_error_updf_other by exact Hne. replace (j =? i) with false in * by lia. cbn [b2n] in *.
      destruct (nth_error (calls s) i) as [c0|]; [split_status c0|]; lia.
  - (* Wait returns *) cr_facts i c Hc Hpc {| script := script c; pc := PReady; outs := outs c ++ [RWait] |}.
    destruct (nth_error (calls s) i) as [c0|]; [split_status c0|]; lia.
Qed.

(* what callers have been handed: every completed Call i reports value i, and that call is marked returned *)
Definition out_ok (o : out) : Prop := match o with RCall i v => v = i | _ => True end.
Definition InvO (s : st) : Prop := Forall (fun c => Forall out_ok (outs c)) (callers s).

Lemma invO_step (s : st) (x : pick) (s' : st) : (forall i, InvC i s) -> InvO s -> Step s x s' -> InvO s'.
Proof.
  intros HC HO H.
  destruct H as [w Hw Hex|w j rest Hw Hqe Hle|w j Hw|w j Hw|t c rest Hc Hpc Hs|t c k' rest Hc Hpc Hs
                 |t c rest Hc Hpc Hs|t c rest Hc Hpc Hs|t c j cl r Hc Hpc Hcl Hcs|t c Hc Hpc H0];
    unfold InvO in *; cbn [callers mk]; try exact HO;
    pose proof (Forall_nth_error _ _ _ _ HO Hc) as Hoc; apply Forall_upd; try exact HO; cbn [outs]; try exact Hoc;
    apply Forall_app; split; try exact Hoc; constructor; cbn; auto.
  specialize (HC j). unfold InvC in HC. rewrite Hcl, Hcs in HC. lia.
Qed.

Definition Inv (s : st) : Prop := InvG s /\ (forall i, InvC i s) /\ InvO s.

Lemma inv_init (progs : list (list cop)) : Inv (init progs).
Proof.
  split; [|split].
  - unfold InvG; cbn. repeat split; lia.
  - intros i. unfold InvC; cbn. destruct i; cbn; repeat split; try reflexivity;
      apply countp_all_false; intros n x Hn; apply nth_error_In in Hn; apply in_map_iff in Hn;
      destruct Hn as (p & <- & _); reflexivity.
  - unfold InvO; cbn. apply Forall_forall. intros c Hin. apply in_map_iff in Hin. destruct Hin as (p & <- & _). constructor.
Qed.

Lemma inv_step (s : st) (x : pick) (s' : st) : Inv s -> step Faithful s x = Some s' -> Inv s'.
Proof.
  intros (HG & HC & HO) H. apply step_inv in H. split; [|split].
  - eapply invG_step; eauto.
  - intros i. eapply invC_step; eauto.
  - eapply invO_step; eauto.
Qed.

Lemma inv_run (sched : list pick) : forall s, Inv s -> Inv (run Faithful s sched).
Proof.
  induction sched as [|x rest IH]; intros s HI; cbn; [exact HI|].
  destruct (step Faithful s x) as [s'|] eqn:Hst; [apply IH; eapply inv_step; eauto | apply IH; exact HI].
Qed.

Lemma inv_reach (progs : list (list cop)) (sched : list pick) : Inv (run Faithful (init progs) sched).
Proof. apply inv_run, inv_init. Qed.

Lemma run_app (v : variant) (a b : list pick) : forall s, run v s (a ++ b) = run v (run v s a) b.
Proof. induction a as [|x r IH]; intros s; cbn; [reflexivity|]. destruct (step v s x); apply IH. Qed.

(* ------------------------------------------------------------------------------------------- C14: exactly once *)
(* For every program and schedule, for every call i that exists: its function has started cx and finished ce times with
   cx <= 1; a reply is in the channel, or the Call has returned, only after exactly one complete execution, and the value
   is the one its own function produced (v = i); every value a caller has been handed satisfies the same. *)
Definition once_ok (i : nat) (c : call) : Prop :=
  match cs c with
  | SQueued => cx c = 0 /\ ce c = 0
  | SRunning => cx c = 1 /\ ce c = 0
  | SReplied v => cx c = 1 /\ ce c = 1 /\ v = i
  | SReturned v => cx c = 1 /\ ce c = 1 /\ v = i
  end.

Lemma exactly_once (progs : list (list cop)) (sched : list pick) :
  let s := run Faithful (init progs) sched in
  (forall i c, nth_error (calls s) i = Some c -> once_ok i c) /\
  (forall t c, nth_error (callers s) t = Some c -> Forall out_ok (outs c)) /\
  (forall t c i, nth_error (callers s) t = Some c -> pc c = PBlocked i ->
     exists cl, nth_error (calls s) i = Some cl /\ forall v, cs cl <> SReturned v).
Proof.
  intros s. destruct (inv_reach progs sched) as (HG & HC & HO). fold s in HG, HC, HO. split; [|split].
  - intros i c Hc. specialize (HC i). unfold InvC in HC. rewrite Hc in HC. unfold once_ok. destruct (cs c); lia.
  - intros t c Hc. exact (Forall_nth_error _ _ _ _ HO Hc).
  - intros t c i Hc Hpc. specialize (HC i). unfold InvC in HC.
    assert (Hb : 0 < countp (is_blk i) (callers s)).
    { pose proof (countp_upd (is_blk i) _ _ _ c Hc) as Hu.
      assert (Hx : is_blk i c = true) by (unfold is_blk; rewrite Hpc; apply Nat.eqb_refl).
      destruct (countp (is_blk i) (callers s)) eqn:H0; [|lia].
      rewrite (countp_zero_nth _ _ H0 t c Hc) in Hx. discriminate. }
    destruct (nth_error (calls s) i) as [cl|]; [|lia].
    exists cl. split; [reflexivity|]. intros v Hv. rewrite Hv in HC. lia.
Qed.

(* ------------------------------------------------------------------------------------------------- C14: bound *)
Lemma bound (progs : list (list cop)) (sched : list pick) :
  let s := run Faithful (init progs) sched in
  countp running (ws s) <= count s /\ count s = countp live (ws s) /\ count s <= maxreq s.
Proof.
  intros s. destruct (inv_reach progs sched) as ((Hc & Hm & _) & _ & _). fold s in Hc, Hm.
  repeat split; try assumption. rewrite Hc. apply countp_le. intros [| | |]; cbn; auto.
Qed.

(* maxreq is bounded by the largest count argument of the program: "never more than N when every caller passes N" *)
Definition opk (o : cop) : nat := match o with CCall k => k | _ => 0 end.
Definition progs_le (N : nat) (progs : list (list cop)) : Prop := Forall (Forall (fun o => opk o <= N)) progs.
Definition InvM (N : nat) (s : st) : Prop :=
  maxreq s <= N /\ Forall (fun c => Forall (fun o => opk o <= N) (script c)) (callers s).

Lemma invM_step (N : nat) (s : st) (x : pick) (s' : st) : InvM N s -> Step s x s' -> InvM N s'.
Proof.
  intros (Hm & HF) H.
  destruct H as [w Hw Hex|w j rest Hw Hqe Hle|w j Hw|w j Hw|t c rest Hc Hpc Hs|t c k' rest Hc Hpc Hs
                 |t c rest Hc Hpc Hs|t c rest Hc Hpc Hs|t c j cl r Hc Hpc Hcl Hcs|t c Hc Hpc H0];
    unfold InvM; cbn [maxreq callers mk]; try (split; assumption);
    pose proof (Forall_nth_error _ _ _ _ HF Hc) as Hsc; cbn beta in Hsc; try rewrite Hs in Hsc;
    try (inversion Hsc as [|o l Ho Hl]; subst; cbn [opk] in Ho);
    (split; [try lia | apply Forall_upd; [exact HF | cbn [script]; auto]]).
Qed.

Lemma bound_uniform (N : nat) (progs : list (list cop)) (sched : list pick) :
  progs_le N progs ->
  let s := run Faithful (init progs) sched in countp running (ws s) <= N /\ count s <= N /\ maxreq s <= N.
Proof.
  intros Hle s.
  assert (HM : InvM N s).
  { subst s. assert (H0 : InvM N (init progs)).
    { split; cbn; [lia|]. unfold progs_le in Hle. rewrite Forall_forall in *. intros c Hin.
      apply in_map_iff in Hin. destruct Hin as (p & <- & Hp). cbn. apply Hle, Hp. }
    generalize dependent (init progs). induction sched as [|x rest IH]; intros s0 H0; cbn; [exact H0|].
    destruct (step Faithful s0 x) as [s'|] eqn:Hst; [|apply IH; exact H0].
    apply IH. eapply invM_step; eauto. apply step_inv; exact Hst. }
  destruct (bound progs sched) as (Hr & _ & Hc). fold s in Hr, Hc. destruct HM as (Hm & _). lia.
Qed.

(* --------------------------------------------------------------------------------------------- C14: no strand *)
Definition terminal (v : variant) (s : st) : Prop := forall x, step v s x = None.

Lemma terminalb_ok (v : variant) (s : st) : terminalb v s = true -> terminal v s.
Proof.
  unfold terminalb, terminal. intros H x. rewrite forallb_forall in H.
  destruct (step v s x) as [s'|] eqn:Hst; [|reflexivity]. exfalso.
  assert (Hin : In x (picks s)).
  { unfold picks. apply in_or_app. destruct x as [t|w]; cbn in Hst.
    - left. apply in_map, in_seq. unfold cstep in Hst.
      destruct (nth_error (callers s) t) eqn:Hn; [|discriminate].
      assert (t < length (callers s)) by (apply nth_error_Some; congruence). lia.
    - right. apply in_map, in_seq. unfold wstep in Hst.
      destruct (nth_error (ws s) w) eqn:Hn; [|discriminate].
      assert (w < length (ws s)) by (apply nth_error_Some; congruence). lia. }
  specialize (H x Hin). unfold enabled in H. rewrite Hst in H. discriminate.
Qed.

Lemma terminal_terminalb (v : variant) (s : st) : terminal v s -> terminalb v s = true.
Proof.
  unfold terminalb, terminal. intros H. apply forallb_forall. intros x _. unfold enabled. rewrite H. reflexivity.
Qed.

Definition finished (c : caller) : Prop := pc c = PReady /\ script c = [].

Lemma terminal_all_done (s : st) : Inv s -> terminal Faithful s ->
  queue s = [] /\ count s = 0 /\
  (forall w x, nth_error (ws s) w = Some x -> x = WDead) /\
  (forall t c, nth_error (callers s) t = Some c -> finished c) /\
  (forall i c, nth_error (calls s) i = Some c -> exists v, cs c = SReturned v).
Proof.
  intros (HG & HC & HO) HT. destruct HG as (Hcnt & Hmax & Hq).
  assert (Hdead : forall w x, nth_error (ws s) w = Some x -> x = WDead).
  { intros w x Hw. specialize (HT (PW w)). cbn in HT. unfold wstep in HT. rewrite Hw in HT.
    destruct x as [|i|i|]; try discriminate; [|reflexivity].
    destruct (exit_test Faithful (is_nil (queue s)) (count s) (target s)) eqn:Hex; [discriminate|].
    cbn in Hex. destruct (queue s); [discriminate Hex | discriminate HT]. }
  assert (Hlive0 : countp live (ws s) = 0).
  { apply countp_all_false. intros n x Hn. rewrite (Hdead n x Hn). reflexivity. }
  assert (Hgot0 : forall i, countp (is_got i) (ws s) = 0).
  { intros i. apply countp_all_false. intros n x Hn. rewrite (Hdead n x Hn). reflexivity. }
  assert (Hrun0 : forall i, countp (is_run i) (ws s) = 0).
  { intros i. apply countp_all_false. intros n x Hn. rewrite (Hdead n x Hn). reflexivity. }
  assert (Hc0 : count s = 0) by lia.
  assert (Hq0 : queue s = []).
  { destruct (queue s) as [|a r] eqn:Hqe; [reflexivity|]. cbn in Hq. lia. }
  assert (Hfin : forall t c, nth_error (callers s) t = Some c -> finished c).
  { intros t c Hc. specialize (HT (PC t)). cbn in HT. unfold cstep in HT. rewrite Hc in HT.
    unfold finished. destruct (pc c) as [|i|] eqn:Hpc.
    - split; [reflexivity|]. destruct (script c) as [|[[|k]| |] rest]; [reflexivity|discriminate..].
    - exfalso. specialize (HC i). unfold InvC in HC. specialize (Hgot0 i). specialize (Hrun0 i).
      rewrite Hq0 in HC. cbn [countp] in HC.
      assert (Hb : 0 < countp (is_blk i) (callers s)).
      { destruct (countp (is_blk i) (callers s)) eqn:H0; [|lia].
        pose proof (countp_zero_nth _ _ H0 t c Hc) as Hx. unfold is_blk in Hx. rewrite Hpc, Nat.eqb_refl in Hx. discriminate. }
      destruct (nth_error (calls s) i) as [cl|]; [|lia].
      destruct (cs cl) as [| |v|v]; try discriminate; lia.
    - exfalso. rewrite Hc0 in HT. cbn in HT. discriminate. }
  split; [exact Hq0|]. split; [exact Hc0|]. split; [exact Hdead|]. split; [exact Hfin|].
  intros i c Hc. specialize (HC i). unfold InvC in HC. rewrite Hc, Hq0 in HC. cbn [countp] in HC.
  specialize (Hgot0 i). specialize (Hrun0 i).
  destruct (cs c) as [| |v|v]; try lia; [|exists v; reflexivity].
  exfalso. assert (Hpos : 0 < countp (is_blk i) (callers s)) by lia.
  destruct (countp_pos_ex _ _ Hpos) as (t & cr & Hcr & Hb). destruct (Hfin t cr Hcr) as (Hpc & _).
  unfold is_blk in Hb. rewrite Hpc in Hb. discriminate.
Qed.

Lemma no_strand (progs : list (list cop)) (sched : list pick) :
  let s := run Faithful (init progs) sched in
  (queue s <> [] -> 1 <= count s /\ 1 <= countp live (ws s)) /\
  (terminal Faithful s ->
     queue s = [] /\ count s = 0 /\
     (forall t c, nth_error (callers s) t = Some c -> finished c) /\
     (forall i c, nth_error (calls s) i = Some c -> exists v, cs c = SReturned v)).
Proof.
  intros s. pose proof (inv_reach progs sched) as HI. fold s in HI. split.
  - destruct HI as ((Hc & _ & Hq) & _). intros Hne. destruct (queue s); [congruence|]. cbn in Hq. lia.
  - intros HT. destruct (terminal_all_done s HI HT) as (H1 & H2 & _ & H4 & H5). auto.
Qed.

(* --------------------------------------------------------------------------------------- termination measure *)
Lemma measure_step (s : st) (x : pick) (s' : st) : step Faithful s x = Some s' -> measure s' < measure s.
Proof.
  intros H. apply step_inv in H.
  destruct H as [w Hw Hex|w j rest Hw Hqe Hle|w j Hw|w j Hw|t c rest Hc Hpc Hs|t c k' rest Hc Hpc Hs
                 |t c rest Hc Hpc Hs|t c rest Hc Hpc Hs|t c j cl r Hc Hpc Hcl Hcs|t c Hc Hpc H0];
    unfold measure; cbn [queue ws callers mk].
  - pose proof (sumf_upd wcost _ _ _ WDead Hw) as Hu. cbn in Hu. lia.
  - pose proof (sumf_upd wcost _ _ _ (WGot j) Hw) as Hu. cbn in Hu. rewrite Hqe. cbn [length]. lia.
  - pose proof (sumf_upd wcost _ _ _ (WRun j) Hw) as Hu. cbn in Hu. lia.
  - pose proof (sumf_upd wcost _ _ _ WIdle Hw) as Hu. cbn in Hu. lia.
  - pose proof (sumf_upd ccost _ _ _ {| script := rest; pc := PReady; outs := outs c ++ [RPanic] |} Hc) as Hu.
    unfold ccost in *. rewrite Hpc, Hs in Hu. cbn in Hu. lia.
  - pose proof (sumf_upd ccost _ _ _ {| script := rest; pc := PBlocked (length (calls s)); outs := outs c |} Hc) as Hu.
    unfold ccost in *. rewrite Hpc, Hs in Hu. cbn in Hu.
    rewrite sumf_app, sumf_repeat, app_length. cbn [length wcost]. lia.
  - pose proof (sumf_upd ccost _ _ _ {| script := rest; pc := PWaiting; outs := outs c |} Hc) as Hu.
    unfold ccost in *. rewrite Hpc, Hs in Hu. cbn in Hu. lia.
  - pose proof (sumf_upd ccost _ _ _ {| script := rest; pc := PReady; outs := outs c ++ [RCount (count s)] |} Hc) as Hu.
    unfold ccost in *. rewrite Hpc, Hs in Hu. cbn in Hu. lia.
  - pose proof (sumf_upd ccost _ _ _ {| script := script c; pc := PReady; outs := outs c ++ [RCall j r] |} Hc) as Hu.
    unfold ccost in *. rewrite Hpc in Hu. cbn in Hu. lia.
  - pose proof (sumf_upd ccost _ _ _ {| script := script c; pc := PReady; outs := outs c ++ [RWait] |} Hc) as Hu.
    unfold ccost in *. rewrite Hpc in Hu. cbn in Hu. lia.
Qed.

(* the number of steps actually taken by ANY schedule is bounded by the measure of the start state *)
Lemma taken_bound (sched : list pick) : forall s, taken Faithful s sched + measure (run Faithful s sched) <= measure s.
Proof.
  induction sched as [|x rest IH]; intros s; cbn; [lia|].
  destruct (step Faithful s x) as [s'|] eqn:Hst; [|apply IH].
  pose proof (measure_step _ _ _ Hst). specialize (IH s'). lia.
Qed.

Lemma first_enabled_none (v : variant) (s : st) : first_enabled v s = None -> terminal v s.
Proof.
  intros H. apply terminalb_ok. unfold terminalb. apply forallb_forall. intros x Hin.
  unfold first_enabled in H. rewrite (find_none _ _ H x Hin). reflexivity.
Qed.

Lemma first_enabled_some (v : variant) (s : st) (x : pick) : first_enabled v s = Some x -> exists s', step v s x = Some s'.
Proof.
  intros H. apply find_some in H. destruct H as (_ & He). unfold enabled in He.
  destruct (step v s x) as [s'|]; [exists s'; reflexivity | discriminate].
Qed.

Lemma run_fuel_terminal (n : nat) : forall s, measure s <= n -> terminal Faithful (run_fuel Faithful n s).
Proof.
  induction n as [|n IH]; intros s Hm; cbn.
  - destruct (first_enabled Faithful s) as [x|] eqn:Hf; [|apply first_enabled_none; exact Hf].
    destruct (first_enabled_some _ _ _ Hf) as (s' & Hst). pose proof (measure_step _ _ _ Hst). lia.
  - destruct (first_enabled Faithful s) as [x|] eqn:Hf; [|apply first_enabled_none; exact Hf].
    destruct (first_enabled_some _ _ _ Hf) as (s' & Hst). rewrite Hst. apply IH.
    pose proof (measure_step _ _ _ Hst). lia.
Qed.

Lemma run_fuel_is_run (v : variant) (n : nat) : forall s, exists sched, run_fuel v n s = run v s sched.
Proof.
  induction n as [|n IH]; intros s; cbn; [exists []; reflexivity|].
  destruct (first_enabled v s) as [x|]; [|exists []; reflexivity].
  destruct (step v s x) as [s'|] eqn:Hst; [|exists []; reflexivity].
  destruct (IH s') as (sc & Hsc). exists (x :: sc). cbn. rewrite Hst. exact Hsc.
Qed.

(* every run can be extended to a terminal one (so the "terminal" clause of no_strand is not vacuous) *)
Lemma extends_to_terminal (progs : list (list cop)) (sched : list pick) :
  exists sched', terminal Faithful (run Faithful (init progs) (sched ++ sched')).
Proof.
  set (s := run Faithful (init progs) sched).
  destruct (run_fuel_is_run Faithful (measure s) s) as (sc & Hsc).
  exists sc. rewrite run_app. fold s. rewrite <- Hsc. apply run_fuel_terminal. lia.
Qed.

(* --------------------------------------------------------------------------------------------------- C14: Wait *)
(* A Wait returns only in a state with count = 0, in which no worker is live (hence none running), and it leaves
   count = 0. *)
Lemma wait_returns_at_zero (progs : list (list cop)) (sched : list pick) (t : nat) (c : caller) (s' : st) :
  let s := run Faithful (init progs) sched in
  nth_error (callers s) t = Some c -> pc c = PWaiting -> step Faithful s (PC t) = Some s' ->
  count s = 0 /\ countp live (ws s) = 0 /\ countp running (ws s) = 0 /\ count s' = 0 /\
  exists c', nth_error (callers s') t = Some c' /\ pc c' = PReady /\ outs c' = outs c ++ [RWait].
Proof.
  intros s Hc Hpc Hst. destruct (bound progs sched) as (Hr & Hl & _). fold s in Hr, Hl.
  cbn in Hst. unfold cstep in Hst. rewrite Hc, Hpc in Hst.
  destruct (count s =? 0) eqn:H0; [|discriminate]. injection Hst as <-. cbn.
  repeat split; try lia. eexists. split; [eapply nth_error_upd_same; exact Hc|]. split; reflexivity.
Qed.

(* From a state with count = 0, as long as no Call is invoked, count stays 0 (whatever else is scheduled) and a Count
   operation reports 0. *)
Lemma nocall_step_keeps_zero (s : st) (x : pick) (s' : st) :
  Inv s -> count s = 0 -> is_call s x = false -> step Faithful s x = Some s' -> count s' = 0.
Proof.
  intros ((Hl & _) & _) H0 Hnc Hst. apply step_inv in Hst.
  destruct Hst as [w Hw Hex|w j rest Hw Hqe Hle|w j Hw|w j Hw|t c rest Hc Hpc Hs|t c k' rest Hc Hpc Hs
                 |t c rest Hc Hpc Hs|t c rest Hc Hpc Hs|t c j cl r Hc Hpc Hcl Hcs|t c Hc Hpc Hz]; cbn [count mk]; try lia.
  cbn in Hnc. rewrite Hc, Hpc, Hs in Hnc. discriminate.
Qed.

Lemma count_zero_stable (progs : list (list cop)) (sched sched2 : list pick) :
  let s := run Faithful (init progs) sched in
  count s = 0 -> nocall Faithful s sched2 = true ->
  let s2 := run Faithful s sched2 in
  count s2 = 0 /\
  forall t c rest, nth_error (callers s2) t = Some c -> pc c = PReady -> script c = CCount :: rest ->
    exists s3 c3, step Faithful s2 (PC t) = Some s3 /\ nth_error (callers s3) t = Some c3 /\
                  outs c3 = outs c ++ [RCount 0] /\ count s3 = 0.
Proof.
  intros s H0 Hnc s2.
  assert (Hz : count s2 = 0).
  { subst s2. pose proof (inv_reach progs sched) as HI. fold s in HI.
    generalize dependent s. intros s. revert s. induction sched2 as [|x rest IH]; intros s H0 Hnc HI; cbn; [exact H0|].
    cbn in Hnc. apply andb_true_iff in Hnc. destruct Hnc as (Hx & Hrest). apply negb_true_iff in Hx.
    destruct (step Faithful s x) as [s'|] eqn:Hst; [|apply IH; assumption].
    apply IH; [eapply nocall_step_keeps_zero; eauto | exact Hrest | eapply inv_step; eauto]. }
  split; [exact Hz|]. intros t c rest Hc Hpc Hs.
  eexists. eexists. cbn [step]. unfold cstep. rewrite Hc, Hpc, Hs. split; [reflexivity|].
  cbn [callers count mk]. split; [eapply nth_error_upd_same; exact Hc|]. cbn [outs]. rewrite Hz. auto.
Qed.

(* ------------------------------------------------------------------------------------------------ refutations *)
(* (a) exit test `count >= target`: Call(1) spawns one worker, which sees count = target = 1 and leaves; the queue is
       stranded: a terminal state with a queued call, no worker, the caller blocked forever. *)
Lemma ge_exit_strands : exists progs sched,
  let s := run GeExit (init progs) sched in
  terminal GeExit s /\ queue s = [0] /\ count s = 0 /\ countp live (ws s) = 0 /\
  exists c, nth_error (callers s) 0 = Some c /\ pc c = PBlocked 0.
Proof.
  exists [[CCall 1]], [PC 0; PW 0]. cbn zeta. split; [apply terminalb_ok; vm_compute; reflexivity|].
  vm_compute. repeat split; auto. eexists; split; reflexivity.
Qed.

(* (b) `count--` missing on exit: after the first Call completes and its worker has gone, count is still 1: a Wait never
       returns although no worker exists, and the next Call(1) spawns nobody, so its function is never run. *)
Lemma no_dec_hangs : exists progs sched,
  let s := run NoDec (init progs) sched in
  terminal NoDec s /\ countp live (ws s) = 0 /\ count s = 1 /\ queue s = [1] /\
  (exists c, nth_error (callers s) 0 = Some c /\ pc c = PBlocked 1) /\
  (exists c, nth_error (callers s) 1 = Some c /\ pc c = PWaiting).
Proof.
  exists [[CCall 1; CCall 1]; [CWait]], [PC 0; PW 0; PW 0; PW 0; PW 0; PC 0; PC 1; PC 0]. cbn zeta.
  split; [apply terminalb_ok; vm_compute; reflexivity|].
  vm_compute. repeat split; auto; eexists; split; reflexivity.
Qed.

(* (c) top-up loop `count <= k`: Count() exceeds every count ever requested *)
Lemma le_spawn_exceeds : exists progs sched,
  let s := run LeSpawn (init progs) sched in maxreq s = 1 /\ count s = 2 /\ countp live (ws s) = 2.
Proof. exists [[CCall 1]], [PC 0]. vm_compute. auto. Qed.

(* (d) the dequeue does not shorten the queue: the same function is executed twice (and a second reply is sent) *)
Lemma no_pop_runs_twice : exists progs sched,
  let s := run NoPop (init progs) sched in
  exists c, nth_error (calls s) 0 = Some c /\ cx c = 2.
Proof. exists [[CCall 1]], [PC 0; PW 0; PW 0; PW 0; PW 0; PW 0]. vm_compute. eexists; split; reflexivity. Qed.

(* -------------------------------------------------------------------------------------------------- examples *)
(* Three callers ask for 3 workers, their functions start (3 running = count = maxreq); a fourth caller then asks for 1
   while the queue holds its item: target drops to 1 with count = 3.  When function 0 ends its worker leaves although the
   queue is NOT empty (count 3 > target 1); so does the next; the last worker serves the queue. *)
Definition ex_progs : list (list cop) := [[CCall 3]; [CCall 3]; [CCall 3]; [CCall 1; CCount]; [CWait; CCount]].
Definition ex_sched1 : list pick :=
  [PC 0; PC 1; PC 2; PW 0; PW 1; PW 2; PW 0; PW 1; PW 2; PC 3; PC 4].
Definition ex_s1 : st := run Faithful (init ex_progs) ex_sched1.

Example ex_three_running :
  countp running (ws ex_s1) = 3 /\ count ex_s1 = 3 /\ maxreq ex_s1 = 3 /\ target ex_s1 = 1 /\ queue ex_s1 = [3].
Proof. vm_compute. auto. Qed.

(* function 0 ends; its worker exits with the queue non-empty *)
Example ex_exit_with_nonempty_queue :
  let s := run Faithful ex_s1 [PW 0; PW 0] in
  nth_error (ws s) 0 = Some WDead /\ queue s = [3] /\ count s = 2 /\ 1 <= countp live (ws s).
Proof. vm_compute. auto. Qed.

Definition ex_final : st := run_fuel Faithful (measure ex_s1) ex_s1.

Example ex_all_served :
  terminal Faithful ex_final /\ queue ex_final = [] /\ count ex_final = 0 /\
  map (fun c => (cs c, cx c, ce c)) (calls ex_final) =
    [(SReturned 0, 1, 1); (SReturned 1, 1, 1); (SReturned 2, 1, 1); (SReturned 3, 1, 1)] /\
  map outs (callers ex_final) = [[RCall 0 0]; [RCall 1 1]; [RCall 2 2]; [RCall 3 3; RCount 1]; [RWait; RCount 0]].
Proof. split; [apply terminalb_ok; vm_compute; reflexivity|]. vm_compute. auto. Qed.

(* the Wait of thread 4 is pending while workers live, and returns at count = 0 *)
Example ex_wait_blocked_then_returns :
  step Faithful ex_s1 (PC 4) = None /\
  exists sched s', let s := run Faithful (init ex_progs) sched in
    (exists c, nth_error (callers s) 4 = Some c /\ pc c = PWaiting) /\ step Faithful s (PC 4) = Some s' /\ count s = 0.
Proof.
  split; [vm_compute; reflexivity|].
  exists (ex_sched1 ++ [PW 0; PW 0; PW 1; PW 1; PW 2; PW 2; PW 2; PW 2; PW 2]). eexists. cbn zeta.
  split; [eexists; split; vm_compute; reflexivity|]. split; vm_compute; reflexivity.
Qed.

Example ex_nocall : nocall Faithful ex_final [PC 0; PW 1; PC 4; PW 0] = true.
Proof. vm_compute. reflexivity. Qed.

Example ex_measure : measure (init ex_progs) = 34 /\ taken Faithful (init ex_progs) ex_sched1 = 11.
Proof. vm_compute. auto. Qed.

Example ex_progs_le : progs_le 3 ex_progs.
Proof. repeat constructor. Qed.

Example ex_burst : burst_result [2; 1; 3; 1] = (4, 4, 0, [RWait; RCount 0]).
Proof. vm_compute. reflexivity. Qed.
