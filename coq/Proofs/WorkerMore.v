(* More proofs about Model/Worker.v (C17), closing the liveness gaps left by Proofs/Worker.v:

   1. wind-down: from EVERY reachable state there is a schedule without a new Do (and without the instance function
      returning on its own) of at most `measure s` enabled steps that ends in a state where nothing but a new Do can
      move; which steps are the library's and which are the environment's obligations is stated precisely (`progress`);
      `quiescent` is decidable (it is `xinst s = None`);
   2. a Do that finds the mutex taken (the watcher keeps it from its decision to stop until the instance has exited) is
      served after at most 7 further steps of that instance's watcher / do goroutine, and then starts a FRESH instance;
   3. the literal reading "held => an instance function is executing" is refuted twice (goroutine not yet scheduled;
      function returned on its own), which is why C17_held_means_running says IReady \/ IRun under early = false.

   The persistent-waiter variant of the model (a caller parked on x.mu is part of the state) is Model/WorkerWait.v with
   Proofs/WorkerWait.v. *)
From Coq Require Import List Arith Bool Lia.
From BB.Model Require Import Worker.
From BB.Proofs Require Import Worker.
Import ListNotations.

Arguments Nat.sub : simpl never.
Arguments Nat.eqb : simpl never.
Arguments Nat.ltb : simpl never.
Arguments Nat.leb : simpl never.
Arguments measure : simpl never.

(* ------------------------------------------------------------------------------------------------------------ *)
(* runs *)
(* ------------------------------------------------------------------------------------------------------------ *)
(* number of picks of a schedule that were enabled (a disabled pick is a stutter) *)
Fixpoint taken (fl : flags) (s : st) (sched : list label) : nat :=
  match sched with
  | [] => 0
  | l :: t => match step fl s l with Some s' => S (taken fl s' t) | None => taken fl s t end
  end.

Lemma run_cons fl s l t : run fl s (l :: t) = run fl (step_or_stay fl s l) t.
Proof. reflexivity. Qed.

Lemma run_app fl s a b : run fl s (a ++ b) = run fl (run fl s a) b.
Proof. unfold run. apply fold_left_app. Qed.

Lemma reachable_run s sched : reachable s -> reachable (run faithful s sched).
Proof. intros (s0 & E). exists (s0 ++ sched). rewrite run_app, <- E. reflexivity. Qed.

(* every schedule without a new Do takes at most `measure s` steps (for every variant, from every state) *)
Theorem taken_bound fl : forall sched s,
  (forall l, In l sched -> l <> LDo) -> taken fl s sched + measure (run fl s sched) <= measure s.
Proof.
  induction sched as [|l t IH]; intros s Hn; [cbn; lia|].
  rewrite run_cons. cbn [taken]. unfold step_or_stay.
  assert (Hl : l <> LDo) by (apply Hn; left; reflexivity).
  assert (Ht : forall l', In l' t -> l' <> LDo) by (intros l' Hin; apply Hn; right; exact Hin).
  destruct (step fl s l) as [s'|] eqn:Hs.
  - pose proof (measure_decreases fl s l s' Hs Hl). specialize (IH s' Ht). lia.
  - apply IH. exact Ht.
Qed.

(* ------------------------------------------------------------------------------------------------------------ *)
(* frame facts *)
(* ------------------------------------------------------------------------------------------------------------ *)
Lemma modi_mu s k f : mu (modi s k f) = mu s.
Proof. unfold modi. destruct (nth_error (insts s) k); reflexivity. Qed.
Lemma modi_xwg s k f : xwg (modi s k f) = xwg s.
Proof. unfold modi. destruct (nth_error (insts s) k); reflexivity. Qed.
Lemma modi_xinst s k f : xinst (modi s k f) = xinst s.
Proof. unfold modi. destruct (nth_error (insts s) k); reflexivity. Qed.
Lemma modi_holders s k f : holders (modi s k f) = holders s.
Proof. unfold modi. destruct (nth_error (insts s) k); reflexivity. Qed.
Lemma modi_gens s k f : gens (modi s k f) = gens s.
Proof. unfold modi. destruct (nth_error (insts s) k); reflexivity. Qed.
Lemma modi_insts_length s k f : length (insts (modi s k f)) = length (insts s).
Proof. unfold modi. destruct (nth_error (insts s) k); cbn; [apply upd_length|reflexivity]. Qed.

Ltac mframe := rewrite ?modi_mu, ?modi_xwg, ?modi_xinst, ?modi_holders, ?modi_gens, ?modi_insts_length;
               cbn [mu xwg xinst holders gens insts st_lock panic].

Lemma i_step_frame s k s' : i_step s k = Some s' ->
  mu s' = mu s /\ xwg s' = xwg s /\ xinst s' = xinst s /\ holders s' = holders s.
Proof.
  unfold i_step. intros H.
  destruct (nth_error (insts s) k) as [i|]; [|discriminate].
  destruct (ip i).
  - inversion H; subst s'. mframe. auto.
  - destruct (isc i) as [j|]; [|discriminate]. destruct (nth_error (insts s) j) as [ij|]; [|discriminate].
    destruct (stopc ij); [|discriminate]. inversion H; subst s'. mframe. auto.
  - inversion H; subst s'. mframe. auto.
  - destruct (xinst s) as [j|] eqn:Ex; [|inversion H; subst s'; cbn; auto].
    destruct (nth_error (insts s) j) as [ij|]; [|inversion H; subst s'; cbn; auto].
    destruct (donec ij); inversion H; subst s'; [cbn; auto|]. mframe. auto.
  - discriminate.
Qed.

(* a watcher step taken while mu is held either keeps mu and x.stop/x.done, or is the final clear-and-unlock *)
Lemma w_step_locked s k s' : w_step faithful s k = Some s' -> mu s = true ->
  (mu s' = true /\ xinst s' = xinst s) \/ (xinst s' = None /\ mu s' = false).
Proof.
  unfold w_step. intros H Hm.
  destruct (nth_error (insts s) k) as [i|]; [|discriminate].
  destruct (wp i).
  - rewrite Hm in H. discriminate.
  - destruct (nth g (gens s) 0 =? 0); [|discriminate]. inversion H; subst s'. left. mframe. auto.
  - rewrite Hm in H. discriminate.
  - left. destruct (xinst s) as [j|] eqn:Ex; [|inversion H; subst s'; cbn; auto].
    destruct (nth_error (insts s) j) as [ij|]; [|inversion H; subst s'; cbn; auto].
    destruct (stopc ij); [inversion H; subst s'; cbn; auto|].
    cbn [f_early faithful] in H. inversion H; subst s'. mframe. auto.
  - left. destruct (xinst s) as [j|] eqn:Ex; [|discriminate].
    destruct (nth_error (insts s) j) as [ij|]; [|discriminate]. destruct (donec ij); [|discriminate].
    inversion H; subst s'. mframe. auto.
  - left. destruct (nth_error (insts s) d) as [ij|]; [|discriminate]. destruct (donec ij); [|discriminate].
    inversion H; subst s'. mframe. auto.
  - right. inversion H; subst s'. mframe. auto.
  - discriminate.
Qed.

(* ------------------------------------------------------------------------------------------------------------ *)
(* progress: which step is enabled while an instance exists, and whose obligation it is *)
(* ------------------------------------------------------------------------------------------------------------ *)
Lemma enabled_ne (s : st) (l : label) : step faithful s l <> None -> exists s', step faithful s l = Some s'.
Proof. destruct (step faithful s l) as [s'|]; [eauto|congruence]. Qed.

(* While x.stop/x.done are set (instance k exists) one of the following steps is enabled:
     (L1) the watcher of k          -- library
     (L2) the do goroutine of k starting the function (IReady) or closing x.done after it returned (IRet) -- library
     (E1) the done function of an outstanding holder   -- the callers' obligation ("which must be called")
     (E2) the instance function, whose stop channel IS closed, noticing it (IRun) or returning (ISaw)
                                                       -- the instance function's obligation
   and while mu is held by the watcher (a Do is locked out) it is (L1), (L2) or (E2): no done() is outstanding. *)
Lemma progress_Inv s k : Inv s -> xinst s = Some k ->
  exists ik, nth_error (insts s) k = Some ik /\
   ( step faithful s (LW k) <> None
     \/ ((ip ik = IReady \/ ip ik = IRet) /\ step faithful s (LI k) <> None)
     \/ (mu s = false /\ exists h hh, nth_error (holders s) h = Some hh /\ hdone hh = false /\ step faithful s (LDone h) <> None)
     \/ (stopc ik = true /\ (ip ik = IRun \/ ip ik = ISaw) /\ step faithful s (LI k) <> None) ).
Proof.
  intros (HP & HG & HW & HD & HC) Ex. rewrite Ex in HC. destruct HC as (Hlen & i & Hi & Hisc & Hdi & Hct & Hok).
  exists i. split; [exact Hi|].
  destruct (wp i) eqn:Ewp; try contradiction.
  - left. unfold step, w_step. rewrite HP, Hi, Ewp. destruct Hok as (Hm & _). rewrite Hm. destruct (xwg s); discriminate.
  - destruct (nth g (gens s) 0 =? 0) eqn:Ez.
    + left. unfold step, w_step. rewrite HP, Hi, Ewp, Ez. discriminate.
    + right. right. left. destruct Hok as (Hm & _). split; [exact Hm|].
      apply Nat.eqb_neq in Ez. rewrite HG in Ez. destruct (cnt_pos_exists g _ Ez) as (h & hh & Hn & Hd).
      exists h, hh. split; [exact Hn|]. split; [exact Hd|]. unfold step, done_step. rewrite HP, Hn, Hd.
      destruct (nth (hgen hh) (gens s) 0); discriminate.
  - left. unfold step, w_step. rewrite HP, Hi, Ewp, Ex, Hi. destruct Hok as (_ & Hsc & _). rewrite Hsc. cbn. discriminate.
  - destruct Hok as (_ & Hsc & _).
    destruct (donec i) eqn:Edc.
    + left. unfold step, w_step. rewrite HP, Hi, Ewp, Ex, Hi, Edc. discriminate.
    + destruct (ip i) eqn:Eip.
      * right. left. split; [left; reflexivity|]. unfold step, i_step. rewrite HP, Hi, Eip. discriminate.
      * right. right. right. split; [exact Hsc|]. split; [left; reflexivity|].
        unfold step, i_step. rewrite HP, Hi, Eip. rewrite (Hisc ltac:(discriminate)), Hi, Hsc. discriminate.
      * right. right. right. split; [exact Hsc|]. split; [right; reflexivity|].
        unfold step, i_step. rewrite HP, Hi, Eip. discriminate.
      * right. left. split; [right; reflexivity|]. unfold step, i_step. rewrite HP, Hi, Eip, Ex, Hi, Edc. discriminate.
      * destruct Hdi as (_ & Hdi). specialize (Hdi eq_refl). discriminate.
  - left. unfold step, w_step. rewrite HP, Hi, Ewp. discriminate.
Qed.

Theorem progress s k : reachable s -> xinst s = Some k ->
  exists ik, nth_error (insts s) k = Some ik /\
   ( step faithful s (LW k) <> None
     \/ ((ip ik = IReady \/ ip ik = IRet) /\ step faithful s (LI k) <> None)
     \/ (mu s = false /\ exists h hh, nth_error (holders s) h = Some hh /\ hdone hh = false /\ step faithful s (LDone h) <> None)
     \/ (stopc ik = true /\ (ip ik = IRun \/ ip ik = ISaw) /\ step faithful s (LI k) <> None) ).
Proof. intros HR. apply progress_Inv. apply reachable_Inv. exact HR. Qed.

(* the label form used by the drain constructions *)
Lemma progress_label s k : Inv s -> xinst s = Some k ->
  exists l s', step faithful s l = Some s' /\
               (l = LW k \/ l = LI k \/ (mu s = false /\ exists h, l = LDone h)).
Proof.
  intros HI Ex. destruct (progress_Inv s k HI Ex) as (ik & _ & [H|[(_ & H)|[(Hm & h & hh & _ & _ & H)|(_ & _ & H)]]]);
    destruct (enabled_ne _ _ H) as (s' & Hs).
  - exists (LW k), s'. auto.
  - exists (LI k), s'. auto.
  - exists (LDone h), s'. split; [exact Hs|]. right. right. split; [exact Hm|]. exists h. reflexivity.
  - exists (LI k), s'. auto.
Qed.

(* ------------------------------------------------------------------------------------------------------------ *)
(* quiescence is decidable: nothing but a new Do can move  <->  no instance exists *)
(* ------------------------------------------------------------------------------------------------------------ *)
Lemma quiescent_of_none s : Inv s -> xinst s = None -> quiescent s.
Proof.
  intros (HP & HG & HW & HD & HC) Ex l Hl. rewrite Ex in HC. destruct HC as (Hm & Hw & Hnd).
  unfold step. rewrite HP. destruct l as [|h|k|k|k]; [contradiction| | | |].
  - unfold done_step. destruct (nth_error (holders s) h) as [hh|] eqn:Hn; [|reflexivity].
    destruct (hdone hh) eqn:Hd; [reflexivity|]. exfalso. apply nth_error_In in Hn. exact (Hnd hh Hn Hd).
  - unfold w_step. destruct (nth_error (insts s) k) as [i|] eqn:Hn; [|reflexivity].
    assert (Hdead : dead i) by (apply (HD k i Hn); rewrite Ex; discriminate).
    destruct Hdead as (E & _). rewrite E. reflexivity.
  - unfold i_step. destruct (nth_error (insts s) k) as [i|] eqn:Hn; [|reflexivity].
    assert (Hdead : dead i) by (apply (HD k i Hn); rewrite Ex; discriminate).
    destruct Hdead as (_ & E & _). rewrite E. reflexivity.
  - unfold i_early_step. destruct (nth_error (insts s) k) as [i|] eqn:Hn; [|reflexivity].
    assert (Hdead : dead i) by (apply (HD k i Hn); rewrite Ex; discriminate).
    destruct Hdead as (_ & E & _). rewrite E. reflexivity.
Qed.

Definition quiescentb (s : st) : bool := match xinst s with None => true | Some _ => false end.

Theorem quiescent_decidable s : reachable s -> (quiescent s <-> quiescentb s = true).
Proof.
  intros HR. unfold quiescentb. split.
  - intros HQ. destruct (every_instance_stopped s HR HQ) as (E & _). rewrite E. reflexivity.
  - intros H. apply quiescent_of_none; [apply reachable_Inv; exact HR|]. destruct (xinst s); [discriminate|reflexivity].
Qed.

(* ------------------------------------------------------------------------------------------------------------ *)
(* drain: from every reachable state, boundedly many steps without a new Do reach a quiescent state *)
(* ------------------------------------------------------------------------------------------------------------ *)
(* the labels a wind-down needs: watcher and do-goroutine steps (library; the LI steps out of IRun / ISaw are the
   instance function reacting to its closed stop channel) and done() calls of outstanding holders.  Never LDo, never
   LIE (the function returning on its own). *)
Definition drain_label (l : label) : Prop := (exists k, l = LW k) \/ (exists k, l = LI k) \/ (exists h, l = LDone h).

Lemma drain_Inv : forall n s, measure s <= n -> Inv s ->
  exists sched,
    (forall l, In l sched -> drain_label l) /\
    taken faithful s sched = length sched /\
    length sched + measure (run faithful s sched) <= measure s /\
    xinst (run faithful s sched) = None.
Proof.
  induction n as [|n IH]; intros s Hle HI.
  - pose proof (measure_pos s (proj1 HI)). lia.
  - destruct (xinst s) as [k|] eqn:Ex.
    + destruct (progress_label s k HI Ex) as (l & s' & Hs & Hl).
      assert (Hne : l <> LDo) by (destruct Hl as [E|[E|(_ & h & E)]]; subst l; discriminate).
      pose proof (measure_decreases faithful s l s' Hs Hne) as Hdec.
      destruct (IH s' ltac:(lia) (Inv_step s l s' HI Hs)) as (sc & Hlab & Htk & Hlen & Hq).
      exists (l :: sc). rewrite run_cons. unfold step_or_stay. cbn [taken length]. rewrite Hs.
      split; [|split; [|split]].
      * intros l' [E|Hin]; [|apply Hlab; exact Hin]. subst l'. unfold drain_label.
        destruct Hl as [E|[E|(_ & h & E)]]; subst l; eauto.
      * rewrite Htk. reflexivity.
      * lia.
      * exact Hq.
    + exists []. cbn. split; [intros l []|]. split; [reflexivity|]. split; [lia|exact Ex].
Qed.

Theorem drain s : reachable s ->
  exists sched,
    (forall l, In l sched -> drain_label l) /\
    (forall l, In l sched -> l <> LDo) /\
    taken faithful s sched = length sched /\
    length sched + measure (run faithful s sched) <= measure s /\
    quiescent (run faithful s sched).
Proof.
  intros HR. destruct (drain_Inv (measure s) s (le_n _) (reachable_Inv s HR)) as (sc & Hlab & Htk & Hlen & Hq).
  exists sc. split; [exact Hlab|]. split; [|split; [exact Htk|split; [exact Hlen|]]].
  - intros l Hin. destruct (Hlab l Hin) as [(k & E)|[(k & E)|(h & E)]]; subst l; discriminate.
  - apply quiescent_of_none; [|exact Hq]. apply reachable_Inv. apply reachable_run. exact HR.
Qed.

(* the form asked for by the audit: no new Do, at most `measure s` steps, then only a new Do is enabled *)
Corollary drain_simple s : reachable s ->
  exists sched, (forall l, In l sched -> l <> LDo) /\ length sched <= measure s /\
                forall l, l <> LDo -> step faithful (run faithful s sched) l = None.
Proof.
  intros HR. destruct (drain s HR) as (sc & _ & Hn & _ & Hlen & Hq). exists sc. split; [exact Hn|]. split; [lia|exact Hq].
Qed.

(* ------------------------------------------------------------------------------------------------------------ *)
(* a Do that is locked out is served after at most 7 steps of the stopping instance, and starts a fresh instance *)
(* ------------------------------------------------------------------------------------------------------------ *)
Lemma do_blocked_iff_mu s : reachable s -> (step faithful s LDo = None <-> mu s = true).
Proof.
  intros HR. pose proof (never_panics s HR) as HP. unfold step, do_step. rewrite HP. split.
  - destruct (mu s); [reflexivity|].
    destruct (xinst s); destruct (xwg s); cbn [f_nonewgen faithful andb]; discriminate.
  - intros E. rewrite E. reflexivity.
Qed.

Lemma sum_all_zero (A : Type) (f : A -> nat) : forall l, (forall x, In x l -> f x = 0) -> sum (map f l) = 0.
Proof.
  induction l as [|a t IH]; intros H; cbn; [reflexivity|].
  rewrite (H a (or_introl eq_refl)). apply IH. intros x Hin. apply H. right. exact Hin.
Qed.

Lemma sum_single (A : Type) (f : A -> nat) : forall l k x,
  nth_error l k = Some x -> (forall j y, nth_error l j = Some y -> j <> k -> f y = 0) -> sum (map f l) = f x.
Proof.
  induction l as [|a t IH]; intros [|k] x Hn Hz; cbn in Hn; try discriminate.
  - inversion Hn; subst a. cbn. rewrite sum_all_zero; [lia|].
    intros y Hin. apply In_nth_error in Hin. destruct Hin as (j & Hj). apply (Hz (S j) y Hj). discriminate.
  - cbn. rewrite (Hz 0 a eq_refl) by discriminate. rewrite (IH k x Hn); [lia|].
    intros j y Hj Hne. apply (Hz (S j) y Hj). congruence.
Qed.

(* what a locked-out Do sees: the watcher of the current instance is between its decision to stop and the clearing of
   stop/done, every done function has been called, x.wg is nil, and at most 7 steps remain before nothing can move *)
Theorem blocked_do_profile s : reachable s -> step faithful s LDo = None ->
  exists k ik, xinst s = Some k /\ nth_error (insts s) k = Some ik /\ mu s = true /\
    (wp ik = WClose \/ wp ik = WRecv \/ wp ik = WClear) /\
    (forall hh, In hh (holders s) -> hdone hh = true) /\ xwg s = None /\ measure s <= 8.
Proof.
  intros HR Hb. apply (do_blocked_iff_mu s HR) in Hb. pose proof (reachable_Inv s HR) as (HP & HG & HW & HD & HC).
  destruct (xinst s) as [k|] eqn:Ex; [|destruct HC as (Hm & _); congruence].
  destruct HC as (Hlen & i & Hi & Hisc & Hdi & Hct & Hok). exists k, i.
  assert (Hcore : (wp i = WClose \/ wp i = WRecv \/ wp i = WClear) /\ xwg s = None /\ nd_all (holders s) (fun _ => False)).
  { destruct (wp i); try contradiction.
    - destruct Hok as (Hm & _). congruence.
    - destruct Hok as (Hm & _). congruence.
    - destruct Hok as (_ & _ & Hw & Hnd). auto.
    - destruct Hok as (_ & _ & Hw & Hnd). auto 6.
    - destruct Hok as (_ & _ & _ & Hw & Hnd). auto 6. }
  destruct Hcore as (Hwp & Hw & Hnd).
  assert (Hall : forall hh, In hh (holders s) -> hdone hh = true).
  { intros hh Hin. destruct (hdone hh) eqn:Hd; [reflexivity|]. exfalso. exact (Hnd hh Hin Hd). }
  repeat (split; [assumption || reflexivity|]).
  rewrite (measure_unfold s HP), Hw. cbn [wgw].
  rewrite (sum_all_zero _ holder_weight (holders s)).
  2:{ intros hh Hin. unfold holder_weight. rewrite (Hall hh Hin). reflexivity. }
  rewrite (sum_single _ inst_weight (insts s) k i Hi).
  2:{ intros j y Hj Hne. assert (Hdead : dead y) by (apply (HD j y Hj); congruence).
      destruct Hdead as (E1 & E2 & _). unfold inst_weight. rewrite E1, E2. reflexivity. }
  unfold inst_weight. destruct Hwp as [E|[E|E]]; rewrite E; destruct (ip i); cbn; lia.
Qed.

Lemma stop_completes : forall n s k, measure s <= n -> Inv s -> xinst s = Some k -> mu s = true ->
  exists sched,
    (forall l, In l sched -> l = LW k \/ l = LI k) /\
    taken faithful s sched = length sched /\
    length sched + measure (run faithful s sched) <= measure s /\
    xinst (run faithful s sched) = None.
Proof.
  induction n as [|n IH]; intros s k Hle HI Ex Hm.
  - pose proof (measure_pos s (proj1 HI)). lia.
  - destruct (progress_label s k HI Ex) as (l & s' & Hs & Hl).
    assert (Hl' : l = LW k \/ l = LI k).
    { destruct Hl as [E|[E|(Hmf & _)]]; auto. congruence. }
    assert (Hne : l <> LDo) by (destruct Hl' as [E|E]; subst l; discriminate).
    pose proof (measure_decreases faithful s l s' Hs Hne) as Hdec.
    pose proof (Inv_step s l s' HI Hs) as HI'.
    assert (Hnext : (mu s' = true /\ xinst s' = Some k) \/ xinst s' = None).
    { pose proof Hs as Hs0. unfold step in Hs0. rewrite (proj1 HI) in Hs0. destruct Hl' as [E|E]; subst l.
      - destruct (w_step_locked s k s' Hs0 Hm) as [(A & B)|(A & _)]; [left; split; congruence|right; exact A].
      - destruct (i_step_frame s k s' Hs0) as (A & _ & B & _). left. split; congruence. }
    destruct Hnext as [(Hm' & Ex')|Ex'].
    + destruct (IH s' k ltac:(lia) HI' Ex' Hm') as (sc & Hlab & Htk & Hlen & Hq).
      exists (l :: sc). rewrite run_cons. unfold step_or_stay. cbn [taken length]. rewrite Hs.
      split; [|split; [|split]].
      * intros l' [E|Hin]; [subst l'; exact Hl'|apply Hlab; exact Hin].
      * rewrite Htk. reflexivity.
      * lia.
      * exact Hq.
    + exists [l]. rewrite run_cons. unfold step_or_stay. cbn [taken length]. rewrite Hs. cbn [run fold_left].
      split; [|split; [|split]].
      * intros l' [E|[]]. subst l'. exact Hl'.
      * reflexivity.
      * lia.
      * exact Ex'.
Qed.

(* A Do that arrives while an instance is stopping (and therefore finds mu taken): after at most 7 further enabled
   steps, all of them steps of that instance's watcher or do goroutine (no done() call and no other Do is needed), the
   stop has completed; in that state the Do gets through, STARTS A FRESH INSTANCE (new goroutines, new channels, stop
   open, not yet returned), holds it, and every earlier instance has exited with its stop channel closed. *)
Theorem blocked_do_served s : reachable s -> step faithful s LDo = None ->
  exists k sched,
    xinst s = Some k /\
    (forall l, In l sched -> l = LW k \/ l = LI k) /\
    taken faithful s sched = length sched /\ 1 <= length sched <= 7 /\
    let s1 := run faithful s sched in
    xinst s1 = None /\
    exists s2 g, step faithful s1 LDo = Some s2 /\
      xinst s2 = Some (length (insts s1)) /\ insts s2 = insts s1 ++ [new_inst] /\
      holders s2 = holders s1 ++ [{| hgen := g; hdone := false |}] /\
      forall j ij, nth_error (insts s1) j = Some ij -> ip ij = IExit /\ wp ij = WExit /\ stopc ij = true /\ donec ij = true.
Proof.
  intros HR Hb. destruct (blocked_do_profile s HR Hb) as (k & ik & Ex & Hi & Hm & _ & _ & _ & Hms).
  destruct (stop_completes (measure s) s k (le_n _) (reachable_Inv s HR) Ex Hm) as (sc & Hlab & Htk & Hlen & Hq).
  exists k, sc. split; [exact Ex|]. split; [exact Hlab|]. split; [exact Htk|].
  pose proof (reachable_run s sc HR) as HR1.
  pose proof (measure_pos _ (never_panics _ HR1)) as Hpos.
  split.
  { split; [|lia]. destruct sc as [|l t]; [|cbn; lia]. cbn in Hq. congruence. }
  cbn zeta. split; [exact Hq|].
  pose proof (quiescent_of_none _ (reachable_Inv _ HR1) Hq) as HQ.
  destruct (every_instance_stopped _ HR1 HQ) as (_ & _ & _ & _ & _ & Hdo).
  destruct (enabled_ne _ _ Hdo) as (s2 & Hs2). exists s2.
  destruct (do_starts_fresh_instance _ s2 HR1 Hs2) as (k' & ik' & g & Ex2 & Hn2 & _ & _ & Hh & Hcase).
  rewrite Hq in Hcase. destruct Hcase as (Ek & _ & Eins & Hold).
  exists g. split; [exact Hs2|]. split; [congruence|]. split; [exact Eins|]. split; [exact Hh|exact Hold].
Qed.

(* ------------------------------------------------------------------------------------------------------------ *)
(* the literal reading of clause 2 ("held => an instance function is executing") fails *)
(* ------------------------------------------------------------------------------------------------------------ *)
(* (a) Do returns as soon as it has ISSUED `go x.do(fn)`: the holder exists, the goroutine has not been scheduled, no
       function is executing yet (a scheduling artefact: it will start; C17_held_means_running says IReady \/ IRun) *)
Theorem held_before_function_starts_refuted :
  exists sched, let s := run faithful init sched in
    held s = true /\ countb running (insts s) = 0 /\ map ip (insts s) = [IReady] /\ map stopc (insts s) = [false].
Proof. exists [LDo]. vm_compute. auto. Qed.

(* (b) the instance function returns ON ITS OWN while it is held (it ignores its stop channel): the holder is
       outstanding, x.stop/x.done still point to that instance, its stop channel is open, but no function is executing
       and the do goroutine has exited; a further Do does NOT start a new instance (it joins the dead one: two
       outstanding holders, one instance ever started, none running).  Nothing in worker.go can prevent this: the
       library never learns that fn returned except through x.done, which it reads only after close(x.stop). *)
Theorem held_but_function_returned_refuted :
  exists sched, let s := run faithful init sched in
    held s = true /\ countb running (insts s) = 0 /\ countb alive (insts s) = 0 /\
    xinst s = Some 0 /\ map stopc (insts s) = [false] /\ map early (insts s) = [true] /\
    exists s', step faithful s LDo = Some s' /\ length (insts s') = 1 /\ countb running (insts s') = 0 /\
               map hdone (holders s') = [false; false].
Proof.
  exists [LDo; LI 0; LIE 0; LI 0]. cbn zeta. vm_compute. repeat split; try reflexivity. eexists. repeat split; reflexivity.
Qed.

(* the same schedules without the early return keep the function running while held *)
Example held_running_on_contract :
  let s := run faithful init [LDo; LI 0] in held s = true /\ countb running (insts s) = 1 /\ map early (insts s) = [false].
Proof. vm_compute. auto. Qed.

(* ------------------------------------------------------------------------------------------------------------ *)
(* non-vacuity *)
(* ------------------------------------------------------------------------------------------------------------ *)
(* a state with two outstanding holders and a running function: measure 13; a drain of 12 enabled steps (the bound
   `length sched + measure (end) <= measure s` is tight here: 12 + 1 = 13) *)
Example drain_example :
  let s := run faithful init [LDo; LW 0; LI 0; LDo] in
  let sc := [LDone 0; LDone 1; LW 0; LW 0; LW 0; LW 0; LW 0; LI 0; LI 0; LI 0; LW 0; LW 0] in
  measure s = 13 /\ taken faithful s sc = length sc /\ quiescentb (run faithful s sc) = true /\
  measure (run faithful s sc) = 1.
Proof. vm_compute. auto. Qed.

(* a locked-out Do: the watcher has decided to stop, the function is still running *)
Example blocked_example :
  let s := run faithful init [LDo; LW 0; LI 0; LDone 0; LW 0; LW 0] in
  step faithful s LDo = None /\ mu s = true /\ map wp (insts s) = [WClose] /\ map ip (insts s) = [IRun] /\ measure s = 7 /\
  let s1 := run faithful s [LW 0; LI 0; LI 0; LI 0; LW 0; LW 0] in
  xinst s1 = None /\ exists s2, step faithful s1 LDo = Some s2 /\ xinst s2 = Some 1 /\ map ip (insts s2) = [IExit; IReady].
Proof. vm_compute. repeat split; try reflexivity. eexists. repeat split; reflexivity. Qed.
