(* The abstraction function of Model/BufferSrc.v against the functions of Model/Buffer.v: what a lookup in, a store into and
   an iteration over [cmap s] are in terms of the model's consumer list, what indexing and re-slicing [map Some (skipn base
   log)] are in terms of the log - and the closed forms [get_spec], [commit_spec], [cleanup_spec] of Model/BufferSrc.v on
   [abs s] as the model's [get_attempt], [step _ (OCommit _)], [clean_with].  Nothing here depends on the translated
   source; Proofs/BufferGen.v composes these lemmas with the theorems about coq/Gen/ImplBuffer.v.

   Also: the model's cleaner functions do not depend on the ORDER of the offsets (Go iterates over Buffer.consumers in an
   unspecified order). *)
From Coq Require Import List Arith ZArith Bool String Lia Permutation.
From BB.Model Require Import GoFrag GoFrag3 Cleaner Buffer BufferSrc.
Import ListNotations.
Local Open Scope Z_scope.

(* ---- the consumers map ---- *)

Lemma mget_cmap_from : forall l i c,
  mget c (cmap_from i l)
  = if (c <? i)%nat then None
    else match nth_error l (c - i) with
         | Some k => if creg k then Some (Z.of_nat (ccommit k)) else None
         | None => None
         end.
Proof.
  induction l as [|h l IH]; intros i c.
  - cbn [cmap_from mget]. destruct (c <? i)%nat; [reflexivity|]. destruct (c - i)%nat; reflexivity.
  - cbn [cmap_from].
    assert (REST : mget c (cmap_from (S i) l)
                   = if (c <? S i)%nat then None
                     else match nth_error l (c - S i) with
                          | Some k => if creg k then Some (Z.of_nat (ccommit k)) else None
                          | None => None
                          end) by apply IH.
    destruct (Nat.ltb_spec c i) as [Lt|Ge].
    + destruct (Nat.ltb_spec c (S i)) as [_|Ge']; [|lia].
      destruct (creg h); [cbn [mget]; destruct (Nat.eqb_spec i c); [lia|]|]; exact REST.
    + destruct (Nat.eq_dec c i) as [->|Ne].
      * rewrite Nat.sub_diag. cbn [nth_error].
        destruct (creg h).
        -- cbn [mget]. rewrite Nat.eqb_refl. reflexivity.
        -- rewrite REST. destruct (Nat.ltb_spec i (S i)); [reflexivity|lia].
      * destruct (Nat.ltb_spec c (S i)) as [Lt'|_]; [lia|].
        replace (c - i)%nat with (S (c - S i)) by lia. cbn [nth_error].
        destruct (creg h); [cbn [mget]; destruct (Nat.eqb_spec i c); [lia|]|]; exact REST.
Qed.

(* a lookup in Buffer.consumers finds exactly the registered consumers, with their committed offsets *)
Lemma mget_cmap s c :
  mget c (cmap s) = match getc s c with
                    | Some k => if creg k then Some (Z.of_nat (ccommit k)) else None
                    | None => None
                    end.
Proof. unfold cmap, getc. rewrite mget_cmap_from. cbn [Nat.ltb Nat.leb]. rewrite Nat.sub_0_r. reflexivity. Qed.

Lemma mset_cmap_from : forall l i c k k',
  (i <= c)%nat -> nth_error l (c - i) = Some k -> creg k = true -> creg k' = true ->
  mset c (Z.of_nat (ccommit k')) (cmap_from i l) = cmap_from i (upd l (c - i) k').
Proof.
  induction l as [|h l IH]; intros i c k k' Hic Hn Hk Hk'.
  - destruct (c - i)%nat; discriminate Hn.
  - destruct (Nat.eq_dec c i) as [->|Ne].
    + rewrite Nat.sub_diag in *. cbn [nth_error] in Hn. injection Hn as ->.
      cbn [upd cmap_from]. rewrite Hk, Hk'. cbn [mset]. rewrite Nat.eqb_refl. reflexivity.
    + replace (c - i)%nat with (S (c - S i)) in * by lia. cbn [nth_error] in Hn. cbn [upd cmap_from].
      destruct (creg h).
      * cbn [mset]. destruct (Nat.eqb_spec i c); [lia|]. f_equal. apply (IH (S i) c k k'); auto; lia.
      * apply (IH (S i) c k k'); auto; lia.
Qed.

(* a store of a registered consumer's new committed offset is the model's update of that consumer *)
Lemma mset_cmap s c k k' d :
  getc s c = Some k -> creg k = true -> creg k' = true ->
  mset c (Z.of_nat (ccommit k')) (cmap s) = cmap (set_cs s (upd (cs s) c k') d).
Proof.
  intros Hg Hk Hk'. unfold cmap, getc in *. cbn [cs set_cs].
  rewrite <- (Nat.sub_0_r c) at 2. apply (mset_cmap_from (cs s) 0 c k k'); auto; [lia|]. rewrite Nat.sub_0_r. exact Hg.
Qed.

Lemma offsets_cmap_from b : forall l i,
  offsets_spec (cmap_from i l) b = map (fun c => Z.of_nat (ccommit c) - b) (filter creg l).
Proof.
  induction l as [|h l IH]; intros i; [reflexivity|].
  cbn [cmap_from filter]. destruct (creg h); [cbn [offsets_spec map snd]; f_equal|]; apply IH.
Qed.

(* iterating over Buffer.consumers in the order of the consumer ids gives the model's [rel_offsets] *)
Lemma offsets_cmap s : offsets_spec (cmap s) (Z.of_nat (base s)) = rel_offsets s.
Proof. unfold cmap, rel_offsets. apply offsets_cmap_from. Qed.

Lemma offsets_spec_perm l l' b : Permutation l l' -> Permutation (offsets_spec l b) (offsets_spec l' b).
Proof. intros P. unfold offsets_spec. apply Permutation_map, P. Qed.

(* ---- the buffer slice ---- *)

Lemma buffer_length s : List.length (map Some (skipn (base s) (log s))) = size s.
Proof. rewrite map_length, skipn_length. reflexivity. Qed.

Lemma nth_error_skipn {A} : forall b (l : list A) i, nth_error (skipn b l) i = nth_error l (b + i).
Proof.
  induction b as [|b IH]; intros l i; [reflexivity|]. destruct l as [|h l]; [destruct i; reflexivity|]. apply IH.
Qed.

Lemma buffer_nth s p : (base s <= p)%nat ->
  nth_error (map Some (skipn (base s) (log s))) (p - base s)
  = match nth_error (log s) p with Some v => Some (Some v) | None => None end.
Proof.
  intros Hp. rewrite nth_error_map, nth_error_skipn. replace (base s + (p - base s))%nat with p by lia.
  destruct (nth_error (log s) p); reflexivity.
Qed.

Lemma skipn_skipn' {A} : forall a b (l : list A), skipn a (skipn b l) = skipn (b + a) l.
Proof.
  intros a b. revert a. induction b as [|b IH]; intros a l; [reflexivity|].
  destruct l as [|h l]; [rewrite !skipn_nil; reflexivity|]. apply IH.
Qed.

Lemma buffer_skipn s n :
  skipn n (map Some (skipn (base s) (log s))) = map Some (skipn (base s + n) (log s)).
Proof. rewrite skipn_map, skipn_skipn'. reflexivity. Qed.

(* ---- get ---- *)

(* the closed form of Buffer.get on the image of a model state, called as consumer.Get does (with the consumer's reads
   since its last commit, after the consumer's own context check), is the model's [get_attempt] *)
Lemma get_spec_abs s c delta :
  (forall k, getc s c = Some k -> ccancel k = false /\ delta = Z.of_nat (cdelta k)) ->
  get_spec (bclosed s) (cmap s) (Z.of_nat (base s)) (map Some (skipn (base s) (log s))) c delta = get_expected s c.
Proof.
  intros Hk. unfold get_spec, get_expected, get_attempt, get_err. rewrite mget_cmap.
  destruct (getc s c) as [k|]; [|destruct (bclosed s); reflexivity].
  destruct (Hk k eq_refl) as [Hc ->]. rewrite Hc. destruct (bclosed s); [reflexivity|].
  destruct (creg k); cbn [negb]; [|reflexivity].
  destruct (Nat.ltb_spec (ccommit k + cdelta k) (base s)) as [Lt|Ge]; cbn [fst].
  - destruct (Z.ltb_spec (Z.of_nat (cdelta k) + Z.of_nat (ccommit k) - Z.of_nat (base s)) 0); [reflexivity|lia].
  - destruct (Z.ltb_spec (Z.of_nat (cdelta k) + Z.of_nat (ccommit k) - Z.of_nat (base s)) 0); [lia|].
    replace (Z.to_nat (Z.of_nat (cdelta k) + Z.of_nat (ccommit k) - Z.of_nat (base s)))
      with (ccommit k + cdelta k - base s)%nat by lia.
    rewrite buffer_nth by exact Ge. destruct (nth_error (log s) (ccommit k + cdelta k)); reflexivity.
Qed.

(* ---- commit ---- *)

Lemma commit_spec_abs s c delta :
  (forall k, getc s c = Some k -> cdelta k <> 0%nat /\ delta = Z.of_nat (cdelta k)) ->
  commit_spec (bclosed s) (cmap s) (Z.of_nat (base s)) (map Some (skipn (base s) (log s))) c delta
  = Returned3 (abs (fst (step s (OCommit c)))) (commit_expected (snd (step s (OCommit c))))
              (commit_log (snd (step s (OCommit c)))).
Proof.
  intros Hk. unfold commit_spec. rewrite mget_cmap. cbn [step].
  destruct (getc s c) as [k|] eqn:G; [|reflexivity].
  destruct (Hk k eq_refl) as [Hd ->]. destruct (Nat.eqb_spec (cdelta k) 0) as [E|_]; [contradiction|].
  destruct (creg k) eqn:R; cbn [negb fst snd commit_expected commit_log]; [|reflexivity].
  unfold abs. cbn [bclosed base log set_cs].
  replace (Z.of_nat (cdelta k) + Z.of_nat (ccommit k)) with (Z.of_nat (ccommit (c_commit k)))
    by (cbn [c_commit ccommit]; lia).
  rewrite (mset_cmap s c k (c_commit k) true G R) by (cbn [c_commit creg]; exact R). reflexivity.
Qed.

(* ---- the cleaner's argument does not depend on the order of the offsets ---- *)

Definition perm_invariant (f : Z -> list Z -> Z) : Prop :=
  forall size l l', Permutation l l' -> f size l = f size l'.

Lemma default_loop_perm : forall l l', Permutation l l' ->
  forall lowest active, default_loop l lowest active = default_loop l' lowest active.
Proof.
  induction 1 as [|x l l' P IH|x y l|l l' l'' P1 IH1 P2 IH2]; intros lowest active.
  - reflexivity.
  - cbn [default_loop]. destruct (x =? 0); [reflexivity|]. destruct (x <? 0); apply IH.
  - cbn [default_loop].
    destruct (Z.eqb_spec x 0), (Z.eqb_spec y 0); try reflexivity;
      destruct (Z.ltb_spec x 0), (Z.ltb_spec y 0); try reflexivity.
    f_equal. destruct (Z.ltb_spec y lowest), (Z.ltb_spec x lowest);
      repeat match goal with |- context [?a <? ?b] => destruct (Z.ltb_spec a b) end; lia.
  - rewrite IH1. apply IH2.
Qed.

Lemma default_cleaner_perm : perm_invariant default_cleaner.
Proof. intros size l l' P. unfold default_cleaner. apply default_loop_perm, P. Qed.

(* every cleaner of the model (Buffer.cleaner_of): DefaultCleaner, FixedBufferCleaner, the two custom ones *)
Lemma cleaner_of_perm k : perm_invariant (cleaner_of k).
Proof.
  destruct k as [|mx tg| |]; intros size l l' P; cbn [cleaner_of]; try reflexivity.
  - apply default_cleaner_perm, P.
  - unfold fixed_cleaner. destruct (size >? mx); [reflexivity|]. apply default_cleaner_perm, P.
Qed.

(* ---- cleanupLogic ---- *)

Lemma clamp_shift_range len r : 0 <= len -> 0 <= clamp_shift len r <= len.
Proof.
  intros Hl. unfold clamp_shift. rewrite Z.gtb_ltb.
  destruct (Z.ltb_spec len r); destruct (Z.leb_spec (if true then len else r) 0); cbn in *;
    repeat match goal with |- context [?a <=? ?b] => destruct (Z.leb_spec a b) end; lia.
Qed.

(* the closed form of cleanupLogic on the image of a model state, whatever the order in which Buffer.consumers is iterated,
   is the model's [clean_with] - for a cleaner that does not depend on the order of its offsets *)
Lemma cleanup_spec_abs f s order :
  perm_invariant f -> Permutation order (cmap s) ->
  cleanup_spec f order (bclosed s) (cmap s) (Z.of_nat (base s)) (map Some (skipn (base s) (log s)))
  = Returned3 (abs (clean_with f s)) [W (VBool (cleanup_moved f s))] (cleanup_log (cleanup_moved f s)).
Proof.
  intros PI P. unfold cleanup_spec, cleanup_moved, clean_with. rewrite buffer_length.
  rewrite (PI _ _ _ (offsets_spec_perm _ _ (Z.of_nat (base s)) P)), offsets_cmap.
  cbn [base set_base].
  pose proof (clamp_shift_range (Z.of_nat (size s)) (f (Z.of_nat (size s)) (rel_offsets s)) ltac:(lia)) as R.
  set (shift := clamp_shift (Z.of_nat (size s)) (f (Z.of_nat (size s)) (rel_offsets s))) in *.
  unfold abs. cbn [bclosed base log cs set_base cmap].
  destruct (Z.leb_spec shift 0) as [Le|Gt].
  - replace shift with 0 by lia. cbn [Z.to_nat]. rewrite Nat.add_0_r, Nat.eqb_refl. reflexivity.
  - destruct (Nat.eqb_spec (base s + Z.to_nat shift) (base s)) as [E|_]; [lia|].
    cbn [negb cleanup_log]. rewrite buffer_skipn. replace (Z.of_nat (base s + Z.to_nat shift)) with (Z.of_nat (base s) + shift) by lia.
    reflexivity.
Qed.
