(* Proofs about the split-granularity variant of the ChanPubSub counter abstraction (Model/PubSubSplit.v).

   The invariant of Proofs/PubSubAbs.v is re-established with one conjunct per new sender pc (what the sender's stale local
   values still guarantee), and the same consequences are drawn: no invariant panic (bad = 0), no copy to a subscriber the Send
   did not count (steal = 0), Send's return value = receivers blocked in Wait, deadlock freedom, final count.  The two windows
   that the split opens (X4a/X4b and X7a/X7b) are shown to be real: without the write lock a subscriber gets into each of them
   and the stale local value is wrong (refutations at the end).  Termination, including the CAS retry loop X5a/X5b, is in
   Proofs/PubSubSplitTerm.v. *)
From Coq Require Import List Arith Lia Bool ZifyBool.
From BB.Model Require Import PubSubAbs PubSubSplit.
From BB.Proofs Require Import PubSubAbs.
Import ListNotations.
Arguments Nat.sub : simpl never. Arguments Nat.ltb : simpl never. Arguments Nat.leb : simpl never.
Arguments Nat.eqb : simpl never. Arguments Nat.mul : simpl never. Arguments Nat.add : simpl never.

(* ------------------------------------------------------------------------------------------------------- *)
(* The invariant                                                                                             *)

Definition xlock_inv (c : xpc) (f : var -> nat) : Prop :=
  match c with
  | X4a | X4b | X5a | X5b | X6 | X7a | X7b | X8 => f w = 1 /\ f wp = 0 /\ f r = 0
  | X3 => f w = 0 /\ f wp = 1
  | XNone | X2 | X9 | X10 => f w = 0 /\ f wp = 0
  end.

Definition xphase_inv (s : xst) : Prop :=
  let f := xv s in
  match xp s with
  | XNone | X2 | X3 | X4a => idle f /\ f b1 = 0 /\ f pongN = 0
  | X4b => (* the count has been read into l4 and nobody can change `subscribers` or touch the caster before it is added *)
           f cnt = 0 /\ f armed = 0 /\ f n5 = 0 /\ f b1 = 0 /\ f pongN = 0 /\ f b0n = 0 /\ f n1n = 0 /\
           f n2fo = 0 /\ f n4o = 0 /\ l4 s = f subs /\ 0 < l4 s
  | X5a => f armed = 0 /\ f n5 = 0 /\ f b1 = 0 /\ f pongN = 0 /\ f b0n = 0 /\ f n1n = 0 /\
           f cnt = f b0o + f n1o + f n2fo + f n4o
  | X5b => f armed = 0 /\ f n5 = 0 /\ f b1 = 0 /\ f pongN = 0 /\ f b0n = 0 /\ f n1n = 0 /\
           f cnt = f b0o + f n1o + f n2fo + f n4o /\ f cnt <= l5 s /\ 0 < l5 s
  | X6 => f armed = 1 /\ f pongN = 0 /\ f b0n = 0 /\ f n1n = 0 /\
          f k = f b0o + f n1o + f n2fo + f n4o + f n5 /\
          f cnt = f b0o + f n1o + f n2fo + f n4o + f rcv /\ f b1 = f rcv /\ f cnt <= rc0 s
  | X7a => f armed = 1 /\ f pongN = 0 /\ f b0n = 0 /\ f n1n = 0 /\ f k = 0 /\
           f b0o = 0 /\ f n1o = 0 /\ f n2fo = 0 /\ f n4o = 0 /\ f n5 = 0 /\
           f cnt = f rcv /\ f b1 = f rcv /\ f cnt <= rc0 s
  | X7b => (* nobody is left who could change the caster word between the load and the CAS *)
           f armed = 1 /\ f pongN = 0 /\ f b0n = 0 /\ f n1n = 0 /\ f k = 0 /\
           f b0o = 0 /\ f n1o = 0 /\ f n2fo = 0 /\ f n4o = 0 /\ f n5 = 0 /\
           f cnt = f rcv /\ f b1 = f rcv /\ l7 s = f cnt /\ l7a s = 1
  | X8 | X9 => idle f /\ f b1 = f sent /\ f pongN = 0
  | X10 => idle f /\ f b1 = f pongN
  end.

Definition XInv (s : xst) : Prop :=
  common (xv s) /\ xlock_inv (xp s) (xv s) /\ xphase_inv s.

(* ------------------------------------------------------------------------------------------------------- *)
(* Tactics (as in Proofs/PubSubAbs.v)                                                                        *)

Ltac xbrk_in H :=
  repeat match type of H with
         | context [if ?b then _ else _] => let E := fresh "E" in destruct b eqn:E; try discriminate H
         end.

Ltac xbrk_goal :=
  repeat match goal with
         | |- context [if ?b then _ else _] => let E := fresh "E" in destruct b eqn:E
         end.

Ltac xred := cbn [set var_beq xp xv l4 l5 rc0 l7 l7a xmk sp v mk proj].

Ltac xfinish c :=
  unfold XInv; xred;
  split; [ unfold common in *; xred; xbrk_goal;
           first [ lia | destruct c; unfold xlock_inv, xphase_inv, idle in *; xred; lia ]
         | split; [ destruct c; unfold xlock_inv, common in *; xred; xbrk_goal; lia
                  | destruct c; unfold xphase_inv, xlock_inv, idle, common in *; xred; xbrk_goal; lia ] ].

Ltac xfinish_moved :=
  unfold XInv, common, xlock_inv, xphase_inv, idle in *; xred; xbrk_goal; lia.

(* unfold a delegated (PubSubAbs) step *)
Ltac xdeleg Hs :=
  unfold step_gen in Hs; cbn [sp v mk fl_wlock fl_route good_flags] in Hs; unfold pos, rlockable in Hs.

Lemma XInv_init : forall senders subscribers, XInv (xinit senders subscribers).
Proof.
  intros a b. unfold XInv, xinit, init, common, xlock_inv, xphase_inv, idle. cbn. repeat split; lia.
Qed.

Lemma XInv_step : forall s p s', XInv s -> xstep s p = Some s' -> XInv s'.
Proof.
  intros [c f a4 a5 a0 a7 a7a] p s' (HC & HL & HP) Hs. unfold xphase_inv in HP. cbn [xp xv l4 l5 rc0 l7 l7a] in HC, HL, HP.
  unfold xstep, xstep_gen in Hs. cbn [xp xv l4 l5 rc0 l7 l7a] in Hs. cbv zeta in Hs.
  destruct p.
  - (* PSendStart *) xdeleg Hs. xbrk_in Hs; injection Hs as <-; xfinish c.
  - (* PSendLock *) unfold pos in Hs. destruct c; try discriminate Hs. xbrk_in Hs. injection Hs as <-. xfinish_moved.
  - (* PS *) destruct c; try discriminate Hs; xbrk_in Hs; injection Hs as <-; xfinish_moved.
  - (* PU0 *) xdeleg Hs. xbrk_in Hs; injection Hs as <-; xfinish c.
  - (* PU1 *) xdeleg Hs. xbrk_in Hs; injection Hs as <-; xfinish c.
  - (* PU2 *) xdeleg Hs. xbrk_in Hs; injection Hs as <-; xfinish c.
  - (* PRecvO *) xdeleg Hs. destruct c; cbn [proj] in Hs; try discriminate Hs. xbrk_in Hs. injection Hs as <-. xfinish_moved.
  - (* PRecvN *) xdeleg Hs. destruct c; cbn [proj] in Hs; try discriminate Hs. xbrk_in Hs. injection Hs as <-. xfinish_moved.
  - (* PAbsorb *) xdeleg Hs. destruct c; cbn [proj] in Hs; try discriminate Hs. xbrk_in Hs. injection Hs as <-. xfinish_moved.
  - (* PWait *) xdeleg Hs. xbrk_in Hs; injection Hs as <-; xfinish c.
  - (* PUnsubO *) xdeleg Hs. xbrk_in Hs; injection Hs as <-; xfinish c.
  - (* PUnsubN *) xdeleg Hs. xbrk_in Hs; injection Hs as <-; xfinish c.
  - (* PSpinO *) xdeleg Hs. xbrk_in Hs; injection Hs as <-; xfinish c.
  - (* PSpinN *) xdeleg Hs. xbrk_in Hs; injection Hs as <-; xfinish c.
  - (* PN2KO *) xdeleg Hs. xbrk_in Hs; injection Hs as <-; xfinish c.
  - (* PN2KN *) xdeleg Hs. xbrk_in Hs; injection Hs as <-; xfinish c.
  - (* PN3K *) xdeleg Hs. xbrk_in Hs; injection Hs as <-; xfinish c.
  - (* PN2FO *) xdeleg Hs. xbrk_in Hs; injection Hs as <-; xfinish c.
  - (* PN2FN *) xdeleg Hs. xbrk_in Hs; injection Hs as <-; xfinish c.
  - (* PN4O *) xdeleg Hs. xbrk_in Hs; injection Hs as <-; xfinish c.
  - (* PN4N *) xdeleg Hs. xbrk_in Hs; injection Hs as <-; xfinish c.
Qed.

Lemma XInv_run_from : forall sched s, XInv s -> XInv (xrun s sched).
Proof.
  induction sched as [|p rest IH]; intros s HI; [exact HI|].
  unfold xrun in *. cbn [xrun_gen]. apply IH. fold (xstep s p).
  destruct (xstep s p) as [s'|] eqn:Hs; [eapply XInv_step; eassumption | exact HI].
Qed.

Lemma XInv_run : forall senders subscribers sched, XInv (xrun (xinit senders subscribers) sched).
Proof. intros a b sched. apply XInv_run_from, XInv_init. Qed.

(* ------------------------------------------------------------------------------------------------------- *)
(* No false invariant panic (none of the checks made on stale local values fires), no stolen copy            *)

Theorem split_no_false_panic_no_steal : forall senders subscribers sched,
  let s := xrun (xinit senders subscribers) sched in xv s bad = 0 /\ xv s steal = 0.
Proof.
  intros a b sched s. destruct (XInv_run a b sched) as ((Hb & Hst & _) & _). fold s in Hb, Hst. auto.
Qed.

(* From the Load of `subscribers` until the caster word is reset there is no subscribed-but-not-counted subscriber that
   could take a copy, and the step "a not-counted subscriber receives" is never enabled. *)
Definition delivering (c : xpc) : bool :=
  match c with X4b | X5a | X5b | X6 | X7a | X7b => true | _ => false end.

Theorem split_delivery_only_to_counted : forall senders subscribers sched,
  let s := xrun (xinit senders subscribers) sched in
  delivering (xp s) = true -> xv s b0n = 0 /\ xv s n1n = 0.
Proof.
  intros a b sched s Hd. destruct (XInv_run a b sched) as (_ & _ & HP). fold s in HP.
  unfold xphase_inv in HP. destruct (xp s); try discriminate Hd; lia.
Qed.

Theorem split_uncounted_receive_never_enabled : forall senders subscribers sched,
  xstep (xrun (xinit senders subscribers) sched) PRecvN = None.
Proof.
  intros a b sched. pose proof (XInv_run a b sched) as HI.
  destruct (xrun (xinit a b) sched) as [c f a4 a5 a0 a7 a7a]. destruct HI as (_ & _ & HP).
  unfold xphase_inv in HP. cbn [xp xv] in HP.
  unfold xstep, xstep_gen. cbn [xp xv]. unfold step_gen. cbn [sp v mk]. destruct c; cbn [proj]; try reflexivity.
  unfold pos. destruct (negb (f k =? 0) && negb (f b0n =? 0)) eqn:E; [lia | reflexivity].
Qed.

(* ------------------------------------------------------------------------------------------------------- *)
(* Send's return value = number of receivers, all of them inside Wait; it waits for exactly their pongs       *)

Definition xrcv_inv (s : xst) : Prop :=
  match xp s with X8 | X9 | X10 => xv s rcv = xv s sent | _ => True end.

Lemma xrcv_inv_step : forall s p s', XInv s -> xrcv_inv s -> xstep s p = Some s' -> xrcv_inv s'.
Proof.
  intros [c f a4 a5 a0 a7 a7a] p s' (HC & HL & HP) HR Hs. unfold xrcv_inv in *. unfold xphase_inv in HP.
  cbn [xp xv l4 l5 rc0 l7 l7a] in *.
  unfold xstep, xstep_gen in Hs. cbn [xp xv l4 l5 rc0 l7 l7a] in Hs. cbv zeta in Hs.
  destruct p; try xdeleg Hs; unfold pos in Hs; destruct c; cbn [proj] in Hs; try discriminate Hs;
    xbrk_in Hs; injection Hs as <-; xred; try exact I; try exact HR; lia.
Qed.

Lemma xrcv_inv_run : forall senders subscribers sched, xrcv_inv (xrun (xinit senders subscribers) sched).
Proof.
  intros a b sched.
  assert (H : forall sc s, XInv s -> xrcv_inv s -> xrcv_inv (xrun s sc)).
  { induction sc as [|p rest IH]; intros s HI HR; [exact HR|].
    unfold xrun in *. cbn [xrun_gen]. fold (xstep s p).
    destruct (xstep s p) as [s'|] eqn:Hs; [|apply IH; assumption].
    apply IH; [eapply XInv_step; eassumption | eapply xrcv_inv_step; eassumption]. }
  apply H; [apply XInv_init | exact I].
Qed.

Theorem split_send_count_is_receipts : forall senders subscribers sched,
  let s := xrun (xinit senders subscribers) sched in
  (xp s = X9 -> xv s sent = xv s rcv /\ xv s sent = xv s b1) /\
  (xp s = X10 -> xv s sent = xv s rcv /\ xv s pongN = xv s b1).
Proof.
  intros a b sched s. pose proof (xrcv_inv_run a b sched) as HR. destruct (XInv_run a b sched) as (_ & _ & HP).
  fold s in HR, HP. unfold xrcv_inv in HR. unfold xphase_inv, idle in HP.
  split; intros Hc; rewrite Hc in HR, HP; lia.
Qed.

(* ------------------------------------------------------------------------------------------------------- *)
(* Deadlock freedom                                                                                          *)

Ltac xnone_hyps :=
  repeat match goal with
         | H : context [if ?b then _ else _] |- _ =>
             match type of H with _ = None =>
               let E := fresh "E" in destruct b eqn:E; cbv beta iota in H; try discriminate H end
         | H : None = None |- _ => clear H
         | H : Some _ = None |- _ => discriminate H
         end.

Definition xall_returned (s : xst) : Prop :=
  xp s = XNone /\ xv s nsend = 0 /\ xv s sq = 0 /\
  xv s u0 = 0 /\ xv s u1 = 0 /\ xv s u2 = 0 /\ xv s b1 = 0 /\
  xv s n1o = 0 /\ xv s n1n = 0 /\ xv s n2ko = 0 /\ xv s n2kn = 0 /\ xv s n3k = 0 /\
  xv s n2fo = 0 /\ xv s n2fn = 0 /\ xv s n4o = 0 /\ xv s n4n = 0 /\ xv s n5 = 0 /\ xv s b0o = 0.

Theorem split_quiescent_all_returned : forall s, XInv s -> (forall p, voluntary p = false -> xstep s p = None) ->
  xall_returned s.
Proof.
  intros [c f a4 a5 a0 a7 a7a] (HC & HL & HP) HT. unfold xall_returned. unfold xphase_inv in HP.
  cbn [xp xv l4 l5 rc0 l7 l7a] in *.
  pose proof (HT PSendStart eq_refl) as T1. pose proof (HT PSendLock eq_refl) as T2.
  pose proof (HT PS eq_refl) as T3.
  pose proof (HT PU0 eq_refl) as T4. pose proof (HT PU1 eq_refl) as T5. pose proof (HT PU2 eq_refl) as T6.
  pose proof (HT PRecvO eq_refl) as T7. pose proof (HT PAbsorb eq_refl) as T9.
  pose proof (HT PWait eq_refl) as T10.
  pose proof (HT PSpinO eq_refl) as T13. pose proof (HT PSpinN eq_refl) as T14.
  pose proof (HT PN2KO eq_refl) as T15. pose proof (HT PN2KN eq_refl) as T16.
  pose proof (HT PN3K eq_refl) as T17.
  pose proof (HT PN2FO eq_refl) as T18. pose proof (HT PN2FN eq_refl) as T19.
  pose proof (HT PN4O eq_refl) as T20. pose proof (HT PN4N eq_refl) as T21. clear HT.
  unfold xstep, xstep_gen, step_gen in *. cbn [xp xv l4 l5 rc0 l7 l7a sp v mk fl_wlock fl_route good_flags] in *.
  cbv zeta in *. unfold pos, rlockable, common in *.
  destruct c; cbn [proj] in *; unfold xlock_inv, idle in *; xnone_hyps;
    repeat split; try reflexivity; lia.
Qed.

Lemma xquiescentb_spec : forall s, xquiescentb s = true <-> (forall p, voluntary p = false -> xstep s p = None).
Proof.
  intros s. unfold xquiescentb. rewrite forallb_forall. split.
  - intros H p Hv. specialize (H p (all_picks_complete p)). rewrite Hv in H.
    destruct (xstep s p); [discriminate H | reflexivity].
  - intros H p _. destruct (voluntary p) eqn:Hv; [reflexivity|]. rewrite (H p Hv). reflexivity.
Qed.

Lemma xterminalb_spec : forall s, xterminalb s = true <-> (forall p, xstep s p = None).
Proof.
  intros s. unfold xterminalb. rewrite forallb_forall. split.
  - intros H p. specialize (H p (all_picks_complete p)). destruct (xstep s p); congruence.
  - intros H p _. rewrite H. reflexivity.
Qed.

Theorem split_deadlock_free : forall senders subscribers sched,
  let s := xrun (xinit senders subscribers) sched in xquiescentb s = true -> xall_returned s.
Proof.
  intros a b sched s HT. apply split_quiescent_all_returned; [apply XInv_run | apply xquiescentb_spec, HT].
Qed.

Theorem split_final_count : forall senders subscribers sched,
  let s := xrun (xinit senders subscribers) sched in
  xquiescentb s = true ->
  xv s subs = xv s b0n /\ xv s cnt = 0 /\ xv s armed = 0 /\ xv s pongN = 0 /\ xv s w = 0 /\ xv s r = 0.
Proof.
  intros a b sched s HT. pose proof (split_deadlock_free a b sched HT) as HR. pose proof (XInv_run a b sched) as HI.
  fold s in HR, HI. unfold xall_returned in HR. destruct HI as (HC & HL & HP). unfold xphase_inv in HP.
  destruct HR as (E & HR). rewrite E in HL, HP. unfold common, xlock_inv, idle in *. repeat split; lia.
Qed.

(* ------------------------------------------------------------------------------------------------------- *)
(* The windows are real: without the write lock the stale local values ARE wrong (same step function)         *)

(* (a) The window X7a/X7b.  Without the write lock a subscriber joins during delivery and leaves again between the final
   Load of the caster word and the CAS that resets it: the CAS fails, which is the "unregistered receivers" panic.  PubSubAbs,
   which fuses the Load and the CAS, cannot show this. *)
Definition xsched_cas_window : list pick :=
  [PU0; PU1; PU2; PSendStart; PSendLock; PS; PS; PS; PS; PS; PS; PRecvO; PS;
   PU0; PU1; PU2; PS; PUnsubN; PSpinN; PN2FN; PN4N; PS].

Theorem split_cas_window_without_wlock_refuted : exists sched,
  xv (xrun_gen no_wlock_flags (xinit 1 2) sched) bad = 1.
Proof. exists xsched_cas_window. vm_compute. reflexivity. Qed.

(* the same schedule on the real protocol: the second subscriber blocks in RLock, the CAS succeeds, Send returns 1 *)
Example xsched_cas_window_good :
  let s := xrun (xinit 1 2) xsched_cas_window in xv s bad = 0 /\ xp s = X8 /\ xv s sent = 1 /\ xv s u0 = 1.
Proof. vm_compute. auto. Qed.

(* (b) The window X4a/X4b.  Without the write lock a subscriber joins between the Load of `subscribers` and ping.Add: the
   count that is added is stale, and the newcomer takes the copy of the counted subscriber. *)
Definition xsched_count_window : list pick :=
  [PU0; PU1; PU2; PSendStart; PSendLock; PS; PS; PS; PU0; PU1; PU2; PS; PS; PS; PRecvN].

Theorem split_count_window_without_wlock_refuted : exists sched,
  let s := xrun_gen no_wlock_flags (xinit 1 2) sched in
  xv s steal = 1 /\ l4 s = 1 /\ xv s subs = 2.
Proof. exists xsched_count_window. vm_compute. auto. Qed.

Example xsched_count_window_good :
  let s := xrun (xinit 1 2) xsched_count_window in xv s steal = 0 /\ xp s = X6 /\ l4 s = 1 /\ xv s subs = 1.
Proof. vm_compute. auto. Qed.

(* (c) An unsubscribe that does not absorb a copy of an armed caster still hangs the Send (in X6). *)
Definition xsched_hang : list pick :=
  [PU0; PU1; PU2; PSendStart; PSendLock; PS; PS; PS; PS; PUnsubO; PSpinO; PN2FO; PS; PS; PS; PN4O].

Theorem split_no_route_refuted : exists sched,
  let s := xrun_gen no_route_flags (xinit 1 1) sched in
  forallb (fun p => match xstep_gen no_route_flags s p with Some _ => false | None => true end) all_picks = true /\
  xp s <> XNone.
Proof. exists xsched_hang. vm_compute. split; [reflexivity | discriminate]. Qed.

(* ------------------------------------------------------------------------------------------------------- *)
(* Non-vacuity: a run through every new pc, including a failed CAS in the arming loop                         *)

(* Two subscribers join; a Send loads subscribers = 2 (X4a), adds it to the caster (X4b), loads the caster word (X5a, l5 = 2);
   one subscriber unsubscribes through the (not yet armed) caster, so the CAS fails (X5b -> X5a); the loop loads 1, arms, sends
   one copy; the final Load (X7a) and CAS (X7b) succeed; Send returns 1 after the pong. *)
Definition xsched_demo : list pick :=
  [PU0; PU1; PU2; PU0; PU1; PU2; PSendStart; PSendLock; PS; PS; PS; PS; PS;
   PUnsubO; PSpinO; PN2FO; PN4O;
   PS; PS; PS; PRecvO; PS; PS; PS; PS; PS; PWait; PS].

Example xdemo_cas_retry :
  let s := xrun (xinit 1 2) (firstn 18 xsched_demo) in
  xp s = X5a /\ l5 s = 2 /\ xv s cnt = 1 /\ xv s armed = 0 /\ xv s fin = 1.
Proof. vm_compute. repeat split. Qed.

Example xdemo_X7b :
  let s := xrun (xinit 1 2) (firstn 23 xsched_demo) in
  xp s = X7b /\ l7 s = 1 /\ l7a s = 1 /\ rc0 s = 1 /\ xv s cnt = 1 /\ xv s b1 = 1.
Proof. vm_compute. repeat split. Qed.

Example xdemo_quiescent :
  let s := xrun (xinit 1 2) xsched_demo in
  xquiescentb s = true /\ xp s = XNone /\ xv s subs = 1 /\ xv s b0n = 1 /\ xv s fin = 1 /\ xv s sent = 1 /\
  xv s bad = 0 /\ xv s steal = 0.
Proof. vm_compute. repeat split. Qed.

Print Assumptions XInv_step.
Print Assumptions XInv_run.
Print Assumptions split_no_false_panic_no_steal.
Print Assumptions split_delivery_only_to_counted.
Print Assumptions split_uncounted_receive_never_enabled.
Print Assumptions split_send_count_is_receipts.
Print Assumptions split_quiescent_all_returned.
Print Assumptions split_deadlock_free.
Print Assumptions split_final_count.
Print Assumptions split_cas_window_without_wlock_refuted.
Print Assumptions split_count_window_without_wlock_refuted.
Print Assumptions split_no_route_refuted.
