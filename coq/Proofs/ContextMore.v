(* More about the two context models:
   A. the ATOMIC model (Model/Context.v) reaches quiescence: from every reachable state of each of the three machines,
      running the internal labels (settle) ends, after finitely many steps, in a quiescent state (or, for
      ConflatedContext(), in the immediate panic);
   B. the SPLIT model (Model/ContextSplit.v): delayed work stays enabled until it is done -- a propagation step or a
      registration's once can be postponed past any other step (this is how the goroutine-based propagation of the std
      package for non-std parent contexts is covered: it is a later SPropg / SFire step). *)
From Coq Require Import List Arith Bool Lia.
From BB.Model Require Import Context ContextSplit.
From BB.Proofs Require Import Context ContextSplit ContextSplitCombine ContextSplitConfl.
Import ListNotations.

Arguments Nat.sub : simpl never.
Arguments Nat.eqb : simpl never.
Arguments Nat.ltb : simpl never.
Arguments Nat.leb : simpl never.

(* ------------------------------------------------------------------------------------------------------------ *)
(* A. atomic model                                                                                              *)
(* ------------------------------------------------------------------------------------------------------------ *)
Lemma first_enabled_g {T : Type} (step : T -> lbl -> option T) s cs : first_enabled step s cs = gfirst_enabled step s cs.
Proof. induction cs as [|l t IH]; cbn [first_enabled gfirst_enabled]; [reflexivity|]. destruct (step s l); [reflexivity|exact IH]. Qed.

Lemma settle_g {T : Type} (step : T -> lbl -> option T) cands fuel s : settle step cands fuel s = gsettle step cands fuel s.
Proof.
  revert s. induction fuel as [|k IH]; intros s; cbn [settle gsettle]; [reflexivity|]. rewrite first_enabled_g.
  destruct (gfirst_enabled step s (cands s)); [apply IH|reflexivity].
Qed.

Definition lbl_internal (l : lbl) : bool := match l with LCancel _ | LUser => false | _ => true end.

Lemma in_internal_lbls w l : In l (internal_lbls w) -> lbl_internal l = true.
Proof.
  unfold internal_lbls. intros [<-|[<-|H]]; try reflexivity. apply in_map_iff in H. destruct H as (r & <- & _). reflexivity.
Qed.

Lemma in_internal_lbls_hook w r : r < length (regs w) -> In (LHook r) (internal_lbls w).
Proof. intros H. unfold internal_lbls. right; right. apply in_map. apply in_seq. lia. Qed.

Lemma w_hook_enabled w r x f : nth_error (regs w) r = Some x -> rst x = Run f -> w_hook w r <> None.
Proof.
  intros Hx Hr. unfold w_hook. rewrite Hx, Hr. destruct f as [a|c r0 a|[|r0 rs]]; try discriminate.
  destruct (w_stop w r0). discriminate.
Qed.

Lemma running_hook_enabled w : no_running w = false -> exists r, r < length (regs w) /\ w_hook w r <> None.
Proof.
  unfold no_running. intros H. apply forallb_false_ex in H. destruct H as (x & Hin & Hx).
  apply In_nth_error in Hin. destruct Hin as [r Hr]. unfold running in Hx. destruct (rst x) as [| |f|] eqn:E; try discriminate.
  exists r. split; [eapply nth_error_lt; eauto|eapply w_hook_enabled; eauto].
Qed.

Lemma no_running_hook_stuck w r : no_running w = true -> w_hook w r = None.
Proof.
  intros H. destruct (w_hook w r) as [w'|] eqn:E; [|reflexivity]. exfalso. apply w_hook_inv in E. destruct E as (x & Hx & Hc).
  pose proof (proj1 (no_running_spec w) H r x Hx) as Hn.
  destruct Hc as [(a & Ea & _)|[(c & r0 & a & Ea & _)|[(c & r0 & a & Ea & _)|[(Ea & _)|(r0 & rs & Ea & _)]]]]; eapply Hn; eauto.
Qed.

(* ----- ChainAfterFunc ----- *)
Lemma chain_pc_le consult cx other nenv s l s' :
  cpc s <= 2 -> chain_step consult cx other nenv s l = Some s' -> cpc s' <= 2.
Proof.
  intros H Hs. destruct l as [|r|n| |]; cbn [chain_step] in Hs; try discriminate.
  - destruct (cpc s) as [|[|pc]]; try discriminate; inversion Hs; subst s'; cbn; lia.
  - destruct (w_hook (cw s) r); [|discriminate]. inversion Hs; subst s'. exact H.
  - destruct (n <? nenv); [|discriminate]. inversion Hs; subst s'. exact H.
Qed.

Theorem chain_quiescence_reached consult cx other nenv ns sched :
  let s := run (chain_step consult cx other nenv) (chain_init ns) sched in
  exists fuel, chain_quiescent (chain_settle consult cx other nenv fuel s) = true.
Proof.
  cbv zeta. unfold chain_settle.
  destruct (settle_reaches (chain_step consult cx other nenv) (fun s => internal_lbls (cw s)) chain_mu (fun s => cpc s <= 2) chain_quiescent)
    with (s := run (chain_step consult cx other nenv) (chain_init ns) sched) as [fuel Hf].
  - intros s l s'. apply chain_pc_le.
  - intros s l s' Hin Hs. pose proof (chain_progress _ _ _ _ _ _ _ Hs) as H. apply in_internal_lbls in Hin.
    destruct l; try exact H; discriminate.
  - intros s HI Hq. unfold chain_quiescent in Hq. apply andb_false_iff in Hq. destruct Hq as [Hq|Hq].
    + exists LMain. split; [left; reflexivity|]. cbn [chain_step]. apply Nat.eqb_neq in Hq.
      destruct (cpc s) as [|[|[|pc]]]; try discriminate; lia.
    + destruct (running_hook_enabled _ Hq) as (r & Hr & Hh). exists (LHook r). split; [apply in_internal_lbls_hook; exact Hr|].
      cbn [chain_step]. destruct (w_hook (cw s) r); congruence.
  - apply run_inv with (P := fun s => cpc s <= 2); [intros s l s'; apply chain_pc_le|cbn; lia].
  - exists fuel. rewrite settle_g. exact Hf.
Qed.

Theorem chain_quiescent_stuck consult cx other nenv s l :
  chain_quiescent s = true -> lbl_internal l = true -> chain_step consult cx other nenv s l = None.
Proof.
  intros Hq Hl. unfold chain_quiescent in Hq. apply andb_prop in Hq. destruct Hq as [Hpc Hr]. apply Nat.eqb_eq in Hpc.
  destruct l; try discriminate; cbn [chain_step]; try reflexivity.
  - rewrite Hpc. reflexivity.
  - rewrite (no_running_hook_stuck _ r Hr). reflexivity.
Qed.

(* ----- CombineContext: from EVERY state ----- *)
Theorem combine_quiescence_reached regstop primary others nenv s :
  exists fuel, combine_quiescent (combine_settle regstop primary others nenv fuel s) = true.
Proof.
  unfold combine_settle.
  destruct (settle_reaches (combine_step regstop primary others nenv) (fun s => internal_lbls (bw s)) (combine_mu (length others))
                           (fun _ => True) combine_quiescent) with (s := s) as [fuel Hf]; auto.
  - intros s0 l s' Hin Hs. pose proof (combine_progress _ _ _ _ _ _ _ Hs) as H. apply in_internal_lbls in Hin.
    destruct l; try exact H; discriminate.
  - intros s0 _ Hq.
    assert (Hmain : combine_ret s0 = None -> combine_step regstop primary others nenv s0 LMain <> None).
    { cbn [combine_step]. unfold combine_ret, combine_main. destruct (bpcv s0) as [|i n| | | |i| |r|r|r]; try discriminate; intros _.
      - destruct primary as [p|]; [destruct (is_canc (nodes (bw s0)) p)|]; discriminate.
      - destruct (nth_error others i) as [[o|]|]; [destruct (is_canc (nodes (bw s0)) o)| |destruct (n =? 0)]; discriminate.
      - destruct (nth_error others i) as [[o|]|]; discriminate. }
    assert (Hh : no_running (bw s0) = false -> exists l, In l (internal_lbls (bw s0)) /\ combine_step regstop primary others nenv s0 l <> None).
    { intros Hr. destruct (running_hook_enabled _ Hr) as (r & Hlt & Hh). exists (LHook r). split; [apply in_internal_lbls_hook; exact Hlt|].
      cbn [combine_step]. destruct (w_hook (bw s0) r); congruence. }
    unfold combine_quiescent in Hq. unfold combine_ret in Hmain.
    destruct (bpcv s0); try (apply Hh; exact Hq); exists LMain; (split; [left; reflexivity|apply Hmain; reflexivity]).
  - exists fuel. rewrite settle_g. exact Hf.
Qed.

Theorem combine_quiescent_stuck regstop primary others nenv s l :
  combine_quiescent s = true -> lbl_internal l = true -> combine_step regstop primary others nenv s l = None.
Proof.
  intros Hq Hl. unfold combine_quiescent in Hq.
  destruct l; try discriminate; cbn [combine_step]; try reflexivity.
  - unfold combine_main. destruct (bpcv s); try discriminate; reflexivity.
  - assert (Hr : no_running (bw s) = true) by (destruct (bpcv s); try discriminate; exact Hq).
    rewrite (no_running_hook_stuck _ r Hr). reflexivity.
Qed.

(* ----- ConflatedContext ----- *)
Definition confl_panicked (s : fstate) : bool := match fpcv s with FPanic => true | _ => false end.
Definition confl_final (s : fstate) : bool := confl_quiescent s || confl_panicked s.

Definition AInvF (inputs : list nat) (s : fstate) : Prop :=
  match fpcv s with FAdd i | FRegA i | FRegB i _ => i < length inputs | FPanic => inputs = [] | _ => True end.

Lemma AInvF_step detach consult inputs nenv s l s' :
  AInvF inputs s -> confl_step detach consult inputs nenv s l = Some s' -> AInvF inputs s'.
Proof.
  intros HI Hs. unfold AInvF in *. destruct l as [|r|n| |]; cbn [confl_step] in Hs.
  - unfold confl_main in Hs.
    destruct (fpcv s) as [| | |i|i|i|i a| | | | | |] eqn:E; try discriminate.
    + destruct inputs as [|c0 rest]; [|destruct detach]; inversion Hs; subst s'; cbn [fset fpcv]; auto.
    + inversion Hs; subst s'; exact I.
    + inversion Hs; subst s'; exact I.
    + destruct (nth_error inputs i) as [x|] eqn:Ex.
      * apply nth_error_lt in Ex. destruct (is_canc (nodes (fw s)) x); inversion Hs; subst s'; cbn [fset fpcv]; auto.
      * inversion Hs; subst s'; exact I.
    + inversion Hs; subst s'; cbn [fset fpcv]; exact HI.
    + destruct (nth_error inputs i) as [x|] eqn:Ex; [|discriminate]. inversion Hs; subst s'; cbn [fset fpcv]; exact HI.
    + inversion Hs; subst s'; exact I.
    + destruct (fok s); inversion Hs; subst s'; exact I.
    + inversion Hs; subst s'; exact I.
    + inversion Hs; subst s'; exact I.
    + inversion Hs; subst s'; exact I.
  - destruct (w_hook (fw s) r); [|discriminate]. inversion Hs; subst s'. exact HI.
  - destruct (n <? nenv); [|discriminate]. inversion Hs; subst s'. exact HI.
  - destruct (fpcv s) eqn:E; try discriminate. inversion Hs; subst s'. exact I.
  - destruct (fwait s); try discriminate.
    + destruct (wg (fw s) =? 0); [|discriminate]. inversion Hs; subst s'. exact HI.
    + inversion Hs; subst s'. exact HI.
Qed.

Lemma gsettle_inv {T L : Type} (step : T -> L -> option T) (cands : T -> list L) (P : T -> Prop) :
  (forall s l s', P s -> step s l = Some s' -> P s') -> forall fuel s, P s -> P (gsettle step cands fuel s).
Proof.
  intros Hinv fuel. induction fuel as [|k IH]; intros s Hs; cbn [gsettle]; [exact Hs|].
  destruct (gfirst_enabled step s (cands s)) as [s1|] eqn:E1; [|exact Hs].
  destruct (gfirst_enabled_some _ _ _ _ E1) as (l & _ & Hl). apply IH. eapply Hinv; eauto.
Qed.

Theorem confl_quiescence_reached detach consult inputs nenv ns0 sched :
  let s := run (confl_step detach consult inputs nenv) (confl_init ns0) sched in
  exists fuel, let s' := confl_settle detach consult inputs nenv fuel s in
               confl_quiescent s' = true \/ (confl_panicked s' = true /\ inputs = []).
Proof.
  cbv zeta. unfold confl_settle.
  assert (Hreach : AInvF inputs (run (confl_step detach consult inputs nenv) (confl_init ns0) sched)).
  { apply run_inv with (P := AInvF inputs); [intros s l s'; apply AInvF_step|exact I]. }
  destruct (settle_reaches (confl_step detach consult inputs nenv) (fun s => internal_lbls (fw s)) (confl_mu (length inputs))
                           (AInvF inputs) confl_final) with (s := run (confl_step detach consult inputs nenv) (confl_init ns0) sched)
    as [fuel Hf]; auto.
  - intros s l s'. apply AInvF_step.
  - intros s l s' Hin Hs. pose proof (confl_progress _ _ _ _ _ _ _ Hs) as H. apply in_internal_lbls in Hin.
    destruct l; try exact H; discriminate.
  - intros s HI Hq. unfold confl_final in Hq. apply orb_false_iff in Hq. destruct Hq as [Hq Hp].
    assert (Hmain : fpcv s <> FRet -> confl_step detach consult inputs nenv s LMain <> None).
    { cbn [confl_step]. unfold confl_main. unfold confl_panicked in Hp. unfold AInvF in HI.
      destruct (fpcv s) as [| | |i|i|i|i a| | | | | |]; try discriminate; try congruence; intros _.
      - destruct inputs as [|c0 rest]; [|destruct detach]; discriminate.
      - destruct (nth_error inputs i) as [x|]; [destruct (is_canc (nodes (fw s)) x)|]; discriminate.
      - destruct (nth_error inputs i) as [x|] eqn:Ex; [discriminate|]. apply nth_error_None in Ex. lia.
      - destruct (fok s); discriminate. }
    unfold confl_quiescent in Hq.
    destruct (fpcv s) eqn:E; try (exists LMain; split; [left; reflexivity|apply Hmain; discriminate]).
    apply andb_false_iff in Hq. destruct Hq as [Hq|Hq].
    + destruct (running_hook_enabled _ Hq) as (r & Hlt & Hh). exists (LHook r). split; [apply in_internal_lbls_hook; exact Hlt|].
      cbn [confl_step]. destruct (w_hook (fw s) r); congruence.
    + exists LWaiter. split; [right; left; reflexivity|]. cbn [confl_step]. unfold waiter_idle in Hq.
      destruct (fwait s); try discriminate. apply negb_false_iff in Hq. rewrite Hq. discriminate.
  - exists fuel. rewrite settle_g.
    set (s' := gsettle _ _ fuel _) in *.
    assert (HI' : AInvF inputs s') by (unfold s'; apply gsettle_inv; [intros s0 l s1; apply AInvF_step|exact Hreach]).
    unfold confl_final in Hf. apply orb_prop in Hf. destruct Hf as [Hf|Hf]; [left; exact Hf|right].
    split; [exact Hf|]. unfold confl_panicked in Hf. unfold AInvF in HI'. destruct (fpcv s'); try discriminate. exact HI'.
Qed.

Theorem confl_quiescent_stuck detach consult inputs nenv s l :
  confl_quiescent s = true -> lbl_internal l = true -> confl_step detach consult inputs nenv s l = None.
Proof.
  intros Hq Hl. destruct (confl_quiescent_inv s Hq) as (E & Hnr & Hidle).
  destruct l; try discriminate; cbn [confl_step].
  - unfold confl_main. rewrite E. reflexivity.
  - rewrite (no_running_hook_stuck _ r Hnr). reflexivity.
  - unfold waiter_idle in Hidle. destruct (fwait s); try discriminate; try reflexivity.
    apply negb_true_iff in Hidle. rewrite Hidle. reflexivity.
Qed.

(* ------------------------------------------------------------------------------------------------------------ *)
(* B. split model: delayed work can be delayed further                                                          *)
(* ------------------------------------------------------------------------------------------------------------ *)
(* a pending propagation survives every change of the forest: it stays enabled until node c is cancelled *)
Theorem prop_persistent ns ns' c :
  sevol ns ns' -> prop_enabled ns c = true -> prop_enabled ns' c = true \/ is_canc ns' c = true.
Proof.
  intros He Hp. destruct (is_canc ns' c) eqn:Ek; [right; reflexivity|left].
  unfold prop_enabled in *. rewrite Ek. cbn [negb andb]. apply andb_prop in Hp. destruct Hp as [_ Hp].
  destruct (par_of ns c) as [p|] eqn:Epar; [|discriminate].
  pose proof (par_of_lt _ _ _ Epar) as Hlt. destruct (sevol_static _ _ He) as [_ Hs]. destruct (Hs c Hlt) as [_ Ha].
  unfold par_of in *. rewrite Ha, Epar. apply (sevol_mono _ _ He). exact Hp.
Qed.

(* in particular across every system step (hooks, other propagations, onces, environment cancels) *)
Corollary prop_persistent_sys nenv w l w' c :
  s_sys nenv w l = Some w' -> prop_enabled (nodes w) c = true ->
  prop_enabled (nodes w') c = true \/ is_canc (nodes w') c = true.
Proof. intros Hs. apply prop_persistent. eapply s_sys_sevol; eauto. Qed.

(* a registration that can win its once keeps that possibility across every system step until it is fired or stopped *)
Theorem fire_persistent nenv w l w' r x :
  s_sys nenv w l = Some w' -> nth_error (regs w) r = Some x -> fire_enabled (nodes w) x = true ->
  exists x', nth_error (regs w') r = Some x' /\ rnode x' = rnode x /\
             (fire_enabled (nodes w') x' = true \/ rst x' = Run (rfn x) \/ rst x' = Stopped).
Proof.
  intros Hs Hx Hf. pose proof (sevol_mono _ _ (s_sys_sevol _ _ _ _ Hs)) as Hm.
  unfold fire_enabled in Hf. destruct (rst x) eqn:Ep; try discriminate.
  assert (Hkeep : forall x', rnode x' = rnode x -> rst x' = Pending -> fire_enabled (nodes w') x' = true).
  { intros x' Hn Hp. unfold fire_enabled. rewrite Hp, Hn. apply Hm. exact Hf. }
  apply s_sys_inv in Hs. destruct Hs as [r1 Hh|n Hn ->|c p _ _ _ ->|r1 y Hy Hp Hk ->].
  - (* a hook: it may stop r, otherwise r is untouched *)
    pose proof Hh as Hh0. apply s_hook_inv in Hh. destruct Hh as (y & Hy & Hc).
    assert (Hne : r1 <> r) by (intros ->; destruct Hc as [(a & Ea & _)|[(c & r0 & a & Ea & _)|[(c & r0 & a & Ea & _)|[(Ea & _)|(r0 & rs & Ea & _)]]]]; congruence).
    assert (Hset : forall w1 st x1, nth_error (regs w1) r = Some x1 -> nth_error (regs (w_setrst w1 r1 st)) r = Some x1).
    { intros w1 st x1 H1. rewrite (setrst_fwd w1 r1 st r x1 H1). destruct (Nat.eqb_spec r r1); [congruence|reflexivity]. }
    assert (Hstop : forall r0, exists x1, nth_error (regs (fst (w_stop w r0))) r = Some x1 /\ rnode x1 = rnode x /\
                                          (rst x1 = Pending \/ rst x1 = Stopped)).
    { intros r0. unfold w_stop. destruct (is_pending w r0); cbn [fst]; [|exists x; auto].
      rewrite (setrst_fwd w r0 Stopped r x Hx). destruct (r =? r0); [exists (set_rst x Stopped); cbn; auto|exists x; auto]. }
    destruct Hc as [(a & Ea & ->)|[(c & r0 & a & Ea & Epend & ->)|[(c & r0 & a & Ea & Epend & ->)|[(Ea & ->)|(r0 & rs & Ea & ->)]]]].
    + exists x. split; [apply Hset; rewrite regs_s_act; exact Hx|]. split; [reflexivity|left; apply Hkeep; auto].
    + destruct (Hstop r0) as (x1 & Hx1 & Hn1 & Hs1). unfold w_stop in Hx1. rewrite Epend in Hx1. cbn [fst] in Hx1.
      exists x1. split; [apply Hset; exact Hx1|]. split; [exact Hn1|]. destruct Hs1 as [Hs1|Hs1]; [left; apply Hkeep; auto|auto].
    + exists x. split; [apply Hset; exact Hx|]. split; [reflexivity|left; apply Hkeep; auto].
    + exists x. split; [apply Hset; exact Hx|]. split; [reflexivity|left; apply Hkeep; auto].
    + destruct (Hstop r0) as (x1 & Hx1 & Hn1 & Hs1).
      exists x1. split; [apply Hset; exact Hx1|]. split; [exact Hn1|]. destruct Hs1 as [Hs1|Hs1]; [left; apply Hkeep; auto|auto].
  - exists x. split; [exact Hx|]. split; [reflexivity|left; apply Hkeep; auto].
  - exists x. split; [exact Hx|]. split; [reflexivity|left; apply Hkeep; auto].
  - rewrite (setrst_fwd w r1 (Run (rfn y)) r x Hx). destruct (Nat.eqb_spec r r1) as [->|Hne].
    + assert (y = x) by congruence. subst y. exists (set_rst x (Run (rfn x))). cbn [set_rst rnode rst]. auto.
    + exists x. split; [reflexivity|]. split; [reflexivity|left; apply Hkeep; auto].
Qed.

(* ------------------------------------------------------------------------------------------------------------ *)
(* C. every run of internal steps is finite, and a maximal one ends in a quiescent state                        *)
(* ------------------------------------------------------------------------------------------------------------ *)
(* s' is reached from s by one internal step *)
Definition int_rel {T L : Type} (step : T -> L -> option T) (internal : L -> bool) (s' s : T) : Prop :=
  exists l, internal l = true /\ step s l = Some s'.

Lemma int_rel_Acc {T L : Type} (step : T -> L -> option T) (internal : L -> bool) (mu : T -> nat * nat) :
  (forall s l s', internal l = true -> step s l = Some s' -> lexlt (mu s') (mu s)) ->
  forall s, Acc (int_rel step internal) s.
Proof.
  intros Hdec s. induction s as [s IH] using (lex_induction mu). constructor. intros s' (l & Hl & Hs).
  apply IH. eapply Hdec; eauto.
Qed.

(* split model: no infinite run of internal steps from ANY state *)
Theorem schain_internal_terminates consult cx other nenv s :
  Acc (int_rel (schain_step consult cx other nenv) is_internal) s.
Proof.
  apply (int_rel_Acc _ _ schain_mu). intros s0 l s' Hl Hs. pose proof (schain_progress _ _ _ _ _ _ _ Hs) as H.
  destruct l; try exact H; discriminate.
Qed.

Theorem scombine_internal_terminates regstop primary others nenv s :
  Acc (int_rel (scombine_step regstop primary others nenv) is_internal) s.
Proof.
  apply (int_rel_Acc _ _ (scombine_mu (length others))). intros s0 l s' Hl Hs. pose proof (scombine_progress _ _ _ _ _ _ _ Hs) as H.
  destruct l; try exact H; discriminate.
Qed.

Theorem sconfl_internal_terminates detach consult inputs nenv s :
  Acc (int_rel (sconfl_step detach consult inputs nenv) is_internal) s.
Proof.
  apply (int_rel_Acc _ _ (sconfl_mu (length inputs))). intros s0 l s' Hl Hs. pose proof (sconfl_progress _ _ _ _ _ _ _ Hs) as H.
  destruct l; try exact H; discriminate.
Qed.

(* split model: a reachable state in which no internal step is enabled is quiescent *)
Theorem schain_stuck_is_quiescent consult cx other nenv ns sched :
  let s := grun (schain_step consult cx other nenv) (chain_init ns) sched in
  (forall l, is_internal l = true -> schain_step consult cx other nenv s l = None) -> schain_quiescent s = true.
Proof.
  cbv zeta. intros Hstuck.
  destruct (schain_quiescent (grun (schain_step consult cx other nenv) (chain_init ns) sched)) eqn:Eq; [reflexivity|exfalso].
  destruct (schain_enabled consult cx other nenv _ (schain_pc_reach consult cx other nenv ns sched) Eq) as (l & Hin & Hl).
  apply Hl. apply Hstuck. eapply in_internal_is_internal; eauto.
Qed.

Theorem scombine_stuck_is_quiescent regstop primary others nenv s :
  (forall l, is_internal l = true -> scombine_step regstop primary others nenv s l = None) -> scombine_quiescent s = true.
Proof.
  intros Hstuck. destruct (scombine_quiescent s) eqn:Eq; [reflexivity|exfalso].
  destruct (scombine_enabled regstop primary others nenv s Eq) as (l & Hin & Hl).
  apply Hl. apply Hstuck. eapply in_internal_is_internal; eauto.
Qed.

Lemma sconfl_FIdx_reach detach consult inputs nenv ns0 sched :
  FIdx inputs (grun (sconfl_step detach consult inputs nenv) (confl_init ns0) sched).
Proof. apply grun_inv with (P := FIdx inputs); [intros s l s'; apply FIdx_step|exact I]. Qed.

Theorem sconfl_stuck_is_quiescent detach consult inputs nenv ns0 sched :
  let s := grun (sconfl_step detach consult inputs nenv) (confl_init ns0) sched in
  (forall l, is_internal l = true -> sconfl_step detach consult inputs nenv s l = None) ->
  sconfl_quiescent s = true \/ (sconfl_panicked s = true /\ inputs = []).
Proof.
  cbv zeta. intros Hstuck.
  destruct (sconfl_final (grun (sconfl_step detach consult inputs nenv) (confl_init ns0) sched)) eqn:Eq.
  - unfold sconfl_final in Eq. apply orb_prop in Eq. destruct Eq as [Eq|Eq]; [left; exact Eq|right].
    split; [exact Eq|]. eapply sconfl_panics_iff_no_inputs; eauto.
  - exfalso. destruct (sconfl_enabled detach consult inputs nenv _ (sconfl_FIdx_reach detach consult inputs nenv ns0 sched) Eq) as (l & Hin & Hl).
    apply Hl. apply Hstuck. eapply in_internal_is_internal; eauto.
Qed.

(* atomic model: the same two facts *)
Theorem chain_internal_terminates consult cx other nenv s :
  Acc (int_rel (chain_step consult cx other nenv) lbl_internal) s.
Proof.
  apply (int_rel_Acc _ _ chain_mu). intros s0 l s' Hl Hs. pose proof (chain_progress _ _ _ _ _ _ _ Hs) as H.
  destruct l; try exact H; discriminate.
Qed.

Theorem combine_internal_terminates regstop primary others nenv s :
  Acc (int_rel (combine_step regstop primary others nenv) lbl_internal) s.
Proof.
  apply (int_rel_Acc _ _ (combine_mu (length others))). intros s0 l s' Hl Hs. pose proof (combine_progress _ _ _ _ _ _ _ Hs) as H.
  destruct l; try exact H; discriminate.
Qed.

Theorem confl_internal_terminates detach consult inputs nenv s :
  Acc (int_rel (confl_step detach consult inputs nenv) lbl_internal) s.
Proof.
  apply (int_rel_Acc _ _ (confl_mu (length inputs))). intros s0 l s' Hl Hs. pose proof (confl_progress _ _ _ _ _ _ _ Hs) as H.
  destruct l; try exact H; discriminate.
Qed.
