(* Proofs about Range (bigbuff.Range and Buffer.Range) as modelled by [range_loop] / [buffer_range] / [pkg_range] in
   Model/Buffer.v.  The composite is interleaving-free: the theorems below describe one Range call in isolation
   (what other goroutines may do between its sub-operations is covered by the step-wise theorems of Proofs/Buffer.v,
   which hold for every schedule).

   The ORDER of the sub-operations of one iteration,
       Get  ->  callback (its Put, if any)  ->  Diff (Buffer.Range only)  ->  Commit     (Rollback on panic / failure)
   is the definition of [range_loop]; the correspondence check ties that definition to bigbuff.go func Range and
   buffer.go func (b *Buffer) Range.  What is proved here is what follows from that order. *)
From Coq Require Import List ZArith Bool Arith Lia.
From BB.Model Require Import Cleaner Buffer.
From BB.Proofs Require Import Buffer.
Import ListNotations.

Arguments Nat.sub : simpl never.
Arguments Nat.eqb : simpl never.
Arguments Nat.ltb : simpl never.
Arguments Nat.leb : simpl never.
Arguments Nat.max : simpl never.

(* ---------------------------------------------------------------------------------------------------------- *)
(* what one sub-operation of consumer c leaves alone                                                            *)
(* ---------------------------------------------------------------------------------------------------------- *)
Definition frame (c : nat) (s s' : st) (sfx : list Z) : Prop :=
  log s' = log s ++ sfx /\ base s' = base s /\ bclosed s' = bclosed s /\
  (forall c', c' <> c -> getc s' c' = getc s c').

Lemma frame_refl c s : frame c s s [].
Proof. unfold frame. rewrite app_nil_r. auto. Qed.

Lemma frame_trans c s1 s2 s3 a b : frame c s1 s2 a -> frame c s2 s3 b -> frame c s1 s3 (a ++ b).
Proof.
  intros (A1 & A2 & A3 & A4) (B1 & B2 & B3 & B4). unfold frame.
  rewrite B1, A1, B2, A2, B3, A3, app_assoc. repeat split; auto.
  intros c' Hne. rewrite B4, A4; auto.
Qed.

Lemma Inv_step_eq s o s' r : Inv s -> step s o = (s', r) -> Inv s'.
Proof. intros HI H. pose proof (Inv_step s o HI) as H1. rewrite H in H1. exact H1. Qed.

Lemma frame_upd c s x d : frame c s (set_cs s (upd (cs s) c x) d) [].
Proof.
  unfold frame; cbn [set_cs log base bclosed]. rewrite app_nil_r. repeat split; auto.
  intros c' Hne. unfold getc; cbn [cs set_cs]. apply nth_error_upd_other; auto.
Qed.

Lemma getc_upd c s k x d : getc s c = Some k -> getc (set_cs s (upd (cs s) c x) d) c = Some x.
Proof. intros Hk. unfold getc; cbn [cs set_cs]. eapply nth_error_upd_same; eauto. Qed.

(* ---------------------------------------------------------------------------------------------------------- *)
(* the sub-operations, as total equations under their success conditions                                        *)
(* ---------------------------------------------------------------------------------------------------------- *)
(* a Get that returned a value *)
Lemma get_ok_frame s c k s1 v :
  Inv s -> getc s c = Some k -> step s (OGet c) = (s1, RVal v) ->
  frame c s s1 [] /\ Inv s1 /\ getc s1 c = Some (c_get k (ccommit k + cdelta k)) /\
  nth_error (log s) (ccommit k + cdelta k) = Some v /\
  creg k = true /\ ccancel k = false /\ bclosed s = false /\ base s <= ccommit k + cdelta k.
Proof.
  intros HI Hk Hs. pose proof (Inv_step_eq _ _ _ _ HI Hs) as HI1.
  destruct (step_get_val _ _ _ _ Hs) as (k0 & Hk0 & Hn & Hb & Hc & Hbc & Hr & ->).
  rewrite Hk in Hk0. inversion Hk0; subst k0.
  split; [apply frame_upd|]. split; [exact HI1|]. split; [eapply getc_upd; eauto|]. auto.
Qed.

(* conversely: when a Get returns a value *)
Lemma get_succeeds s c k v :
  getc s c = Some k -> ccancel k = false -> bclosed s = false -> creg k = true ->
  base s <= ccommit k + cdelta k -> nth_error (log s) (ccommit k + cdelta k) = Some v ->
  step s (OGet c) = (set_cs s (upd (cs s) c (c_get k (ccommit k + cdelta k))) (dirty s), RVal v).
Proof.
  intros Hk Hc Hb Hr Hle Hn. unfold step, get_attempt. rewrite Hk, Hc, Hb, Hr. cbn [negb].
  replace (ccommit k + cdelta k <? base s) with false by (symmetry; apply Nat.ltb_ge; lia).
  rewrite Hn. reflexivity.
Qed.

Lemma put_frame s c vals :
  Inv s -> bclosed s = false ->
  exists sp, step s (OPut vals) = (sp, ROk) /\ frame c s sp vals /\ Inv sp /\ (forall c', getc sp c' = getc s c').
Proof.
  intros HI Hb.
  assert (Hs : step s (OPut vals) =
               ({| log := log s ++ vals; base := base s; cs := cs s; bclosed := bclosed s; bonce := bonce s;
                   bdone := bdone s; cfg := cfg s; dirty := true |}, ROk)).
  { unfold step. rewrite Hb. reflexivity. }
  eexists. split; [exact Hs|]. split; [|split].
  - unfold frame; cbn [log base bclosed]. repeat split; auto.
  - eapply Inv_step_eq; eauto.
  - intros c'. reflexivity.
Qed.

Lemma commit_ok_frame s c k :
  Inv s -> getc s c = Some k -> cdelta k <> 0 -> creg k = true ->
  exists s2, step s (OCommit c) = (s2, ROk) /\ frame c s s2 [] /\ Inv s2 /\ getc s2 c = Some (c_commit k).
Proof.
  intros HI Hk Hd Hr.
  assert (Hs : step s (OCommit c) = (set_cs s (upd (cs s) c (c_commit k)) true, ROk)).
  { unfold step. rewrite Hk. destruct (cdelta k =? 0) eqn:E; [apply Nat.eqb_eq in E; lia|]. rewrite Hr. reflexivity. }
  eexists. split; [exact Hs|]. split; [apply frame_upd|]. split; [eapply Inv_step_eq; eauto|eapply getc_upd; eauto].
Qed.

Lemma rollback_ok_frame s c k :
  Inv s -> getc s c = Some k -> cdelta k <> 0 ->
  exists s2, step s (ORollback c) = (s2, ROk) /\ frame c s s2 [] /\ Inv s2 /\ getc s2 c = Some (c_rollback k).
Proof.
  intros HI Hk Hd.
  assert (Hs : step s (ORollback c) = (set_cs s (upd (cs s) c (c_rollback k)) (dirty s), ROk)).
  { unfold step. rewrite Hk. destruct (cdelta k =? 0) eqn:E; [apply Nat.eqb_eq in E; lia|]. reflexivity. }
  eexists. split; [exact Hs|]. split; [apply frame_upd|]. split; [eapply Inv_step_eq; eauto|eapply getc_upd; eauto].
Qed.

(* One iteration up to and including its Commit: the Get of a consumer with nothing pending returned v; the callback
   ran in between and changed at most the log (state sp); then the Commit succeeds and moves the cursor by exactly one. *)
Lemma get_then_commit s c k s1 v sp sfx :
  Inv s -> getc s c = Some k -> cdelta k = 0 -> step s (OGet c) = (s1, RVal v) ->
  frame c s1 sp sfx -> Inv sp -> getc sp c = getc s1 c ->
  exists s2 k2, step sp (OCommit c) = (s2, ROk) /\ frame c s s2 sfx /\ Inv s2 /\
    getc s2 c = Some k2 /\ cdelta k2 = 0 /\ ccommit k2 = S (ccommit k) /\ creg k2 = creg k /\ ccancel k2 = ccancel k /\
    nth_error (log s) (ccommit k) = Some v /\
    creg k = true /\ ccancel k = false /\ bclosed s = false /\ base s <= ccommit k.
Proof.
  intros HI Hk Hd Hg Hfp HIp Hkp.
  destruct (get_ok_frame _ _ _ _ _ HI Hk Hg) as (Hf1 & HI1 & Hk1 & Hn & Hr & Hc & Hbc & Hb).
  rewrite Hd, Nat.add_0_r in *. rewrite Hk1 in Hkp.
  destruct (commit_ok_frame sp c _ HIp Hkp) as (s2 & Hs2 & Hf2 & HI2 & Hk2); [cbn; lia|exact Hr|].
  exists s2, (c_commit (c_get k (ccommit k))). split; [exact Hs2|]. split.
  { pose proof (frame_trans _ _ _ _ _ _ Hf1 (frame_trans _ _ _ _ _ _ Hfp Hf2)) as H.
    cbn [app] in H. rewrite app_nil_r in H. exact H. }
  split; [exact HI2|]. split; [exact Hk2|]. cbn [c_commit c_get cdelta ccommit creg ccancel].
  repeat split; auto. lia.
Qed.

(* ---------------------------------------------------------------------------------------------------------- *)
(* one unfolding of range_loop, per case                                                                        *)
(* ---------------------------------------------------------------------------------------------------------- *)
(* Buffer.Range's continuation test (Diff evaluated inside the callback, before the commit) *)
Definition more_of (bounded : bool) (s : st) (c : nat) : bool :=
  if bounded then match snd (step s (ODiff c)) with RDiff n true => (0 <? n)%Z | _ => false end else true.

Lemma range_loop_get_fail f b s c k script visited :
  getc s c = Some k -> cdelta k = 0 -> (forall v, snd (step s (OGet c)) <> RVal v) ->
  range_loop (S f) b s c script visited = (s, visited, ReErr).
Proof.
  intros Hk Hd Hnv. destruct (step s (OGet c)) as [s1 r] eqn:Hg. cbn [snd] in Hnv.
  destruct (step_get_fail _ _ _ _ Hg Hnv) as [-> Hr].
  destruct (commit_rollback_empty_noop _ _ _ Hk Hd) as [_ Hrb].
  cbn [range_loop]. rewrite Hg. destruct Hr as [-> | ->]; cbv beta iota zeta; rewrite Hrb; reflexivity.
Qed.

Lemma range_loop_nil_eq f b s c visited s1 v s2 :
  step s (OGet c) = (s1, RVal v) -> step s1 (OCommit c) = (s2, ROk) ->
  range_loop (S f) b s c [] visited = (s2, visited ++ [v], ReNil).
Proof. intros H1 H2. cbn [range_loop]. rewrite H1. cbv beta iota zeta. rewrite H2. reflexivity. Qed.

Lemma range_loop_false_eq f b s c script' visited s1 v s2 :
  step s (OGet c) = (s1, RVal v) -> step s1 (OCommit c) = (s2, ROk) ->
  range_loop (S f) b s c (CbFalse :: script') visited = (s2, visited ++ [v], ReNil).
Proof. intros H1 H2. cbn [range_loop]. rewrite H1. cbv beta iota zeta. rewrite H2. reflexivity. Qed.

Lemma range_loop_panic_eq f b s c script' visited s1 v s2 r :
  step s (OGet c) = (s1, RVal v) -> step s1 (ORollback c) = (s2, r) ->
  range_loop (S f) b s c (CbPanic :: script') visited = (s2, visited ++ [v], RePanic).
Proof. intros H1 H2. cbn [range_loop]. rewrite H1. cbv beta iota zeta. rewrite H2. reflexivity. Qed.

Lemma range_loop_true_eq f b s c script' visited s1 v s2 :
  step s (OGet c) = (s1, RVal v) -> step s1 (OCommit c) = (s2, ROk) ->
  range_loop (S f) b s c (CbTrue :: script') visited =
  if more_of b s1 c then range_loop f b s2 c script' (visited ++ [v]) else (s2, visited ++ [v], ReNil).
Proof. intros H1 H2. cbn [range_loop]. rewrite H1. cbv beta iota zeta. rewrite H2. reflexivity. Qed.

Lemma range_loop_put_eq f b s c pv script' visited s1 v sp rp s2 :
  step s (OGet c) = (s1, RVal v) -> step s1 (OPut [pv]) = (sp, rp) -> step sp (OCommit c) = (s2, ROk) ->
  range_loop (S f) b s c (CbPutTrue pv :: script') visited =
  if more_of b sp c then range_loop f b s2 c script' (visited ++ [v]) else (s2, visited ++ [v], ReNil).
Proof.
  intros H1 Hp H2. cbn [range_loop]. rewrite H1. cbv beta iota zeta. rewrite Hp. cbn [fst]. rewrite H2. reflexivity.
Qed.

(* ---------------------------------------------------------------------------------------------------------- *)
(* 1. the main specification of range_loop                                                                      *)
(* ---------------------------------------------------------------------------------------------------------- *)
(* the values the callbacks of a script prefix put into the buffer, in order *)
Definition cb_put (x : cb) : list Z := match x with CbPutTrue v => [v] | _ => [] end.
Definition cb_puts (l : list cb) : list Z := flat_map cb_put l.

(* of n visited values, how many are committed at the end *)
Definition committed_of (e : range_end) (n : nat) : nat := match e with RePanic => n - 1 | _ => n end.

Definition range_post (c : nat) (s : st) (k : cons) (script : list cb) (visited0 : list Z)
           (s' : st) (visited : list Z) (e : range_end) : Prop :=
  exists k' vs,
    getc s' c = Some k' /\ cdelta k' = 0 /\
    visited = visited0 ++ vs /\
    (forall i, i < length vs -> nth_error vs i = nth_error (log s') (ccommit k + i)) /\
    ccommit k' = ccommit k + committed_of e (length vs) /\
    (e = RePanic -> 1 <= length vs) /\
    base s' = base s /\
    log s' = log s ++ cb_puts (firstn (length vs) script) /\
    (forall c', c' <> c -> getc s' c' = getc s c') /\
    Inv s' /\
    creg k' = creg k /\ ccancel k' = ccancel k /\ bclosed s' = bclosed s /\
    (1 <= length vs -> creg k = true /\ ccancel k = false /\ bclosed s = false /\ base s <= ccommit k + (length vs - 1)).

Lemma post_nil c s k script visited0 e :
  Inv s -> getc s c = Some k -> cdelta k = 0 -> e <> RePanic -> range_post c s k script visited0 s visited0 e.
Proof.
  intros HI Hk Hd He. exists k, []. cbn [length firstn cb_puts flat_map].
  split; [exact Hk|]. split; [exact Hd|]. split; [rewrite app_nil_r; reflexivity|].
  split; [intros i Hi; lia|]. split; [destruct e; cbn [committed_of]; try lia; congruence|].
  split; [intros E; congruence|]. split; [reflexivity|]. split; [rewrite app_nil_r; reflexivity|].
  split; [auto|]. split; [exact HI|]. split; [reflexivity|]. split; [reflexivity|]. split; [reflexivity|]. intros H; lia.
Qed.

(* the run ends in the iteration that visits v (stop, exhausted script, or panic) *)
Lemma post_one c s k script visited0 s2 k2 v e :
  frame c s s2 (cb_puts (firstn 1 script)) -> Inv s2 -> getc s2 c = Some k2 -> cdelta k2 = 0 ->
  ccommit k2 = ccommit k + committed_of e 1 -> creg k2 = creg k -> ccancel k2 = ccancel k ->
  nth_error (log s) (ccommit k) = Some v ->
  creg k = true -> ccancel k = false -> bclosed s = false -> base s <= ccommit k ->
  range_post c s k script visited0 s2 (visited0 ++ [v]) e.
Proof.
  intros (F1 & F2 & F3 & F4) HI2 Hk2 Hd2 Hc2 Hr2 Hcc2 Hn Hr Hc Hb Hle.
  exists k2, [v]. cbn [length].
  split; [exact Hk2|]. split; [exact Hd2|]. split; [reflexivity|]. split.
  { intros i Hi. assert (i = 0) by lia. subst i. rewrite Nat.add_0_r, F1. cbn [nth_error].
    rewrite nth_error_app1; [auto|]. apply nth_error_Some. rewrite Hn. discriminate. }
  split; [exact Hc2|]. split; [intros _; lia|]. split; [exact F2|]. split; [exact F1|]. split; [exact F4|].
  split; [exact HI2|]. split; [exact Hr2|]. split; [exact Hcc2|]. split; [exact F3|].
  intros _. repeat split; auto. lia.
Qed.

(* the iteration that visits v commits it and the run continues from s2 *)
Lemma post_cons c s k x script' visited0 s2 k2 v s' visited e :
  frame c s s2 (cb_put x) -> getc s2 c = Some k2 -> ccommit k2 = S (ccommit k) ->
  creg k2 = creg k -> ccancel k2 = ccancel k ->
  nth_error (log s) (ccommit k) = Some v ->
  creg k = true -> ccancel k = false -> bclosed s = false -> base s <= ccommit k ->
  range_post c s2 k2 script' (visited0 ++ [v]) s' visited e ->
  range_post c s k (x :: script') visited0 s' visited e.
Proof.
  intros (F1 & F2 & F3 & F4) Hk2 Hc2 Hr2 Hcc2 Hn Hr Hc Hb Hle
         (k' & vs & P1 & P2 & P3 & P4 & P5 & P6 & P7 & P8 & P9 & P10 & P11 & P12 & P13 & P14).
  exists k', (v :: vs). cbn [length].
  split; [exact P1|]. split; [exact P2|]. split; [rewrite P3, <- app_assoc; reflexivity|]. split.
  { intros [|j] Hi.
    - rewrite Nat.add_0_r, P8, F1. cbn [nth_error].
      rewrite nth_error_app1; [rewrite nth_error_app1; [auto|]|].
      + apply nth_error_Some. rewrite Hn. discriminate.
      + rewrite app_length. assert (ccommit k < length (log s)) by (apply nth_error_Some; rewrite Hn; discriminate). lia.
    - cbn [nth_error]. rewrite P4 by lia. f_equal. lia. }
  split.
  { rewrite P5, Hc2. destruct e; cbn [committed_of]; try lia. specialize (P6 eq_refl). lia. }
  split; [intros _; lia|]. split; [congruence|]. split.
  { rewrite P8, F1. cbn [firstn cb_puts flat_map]. rewrite app_assoc. reflexivity. }
  split; [intros c' Hne; rewrite P9, F4; auto|]. split; [exact P10|]. split; [congruence|]. split; [congruence|].
  split; [congruence|]. intros _. repeat split; auto.
  destruct (length vs) as [|n'] eqn:El; [lia|]. destruct P14 as (_ & _ & _ & Q); lia.
Qed.

Lemma range_loop_post : forall fuel b c script s k visited0 s' visited e,
  Inv s -> getc s c = Some k -> cdelta k = 0 ->
  range_loop fuel b s c script visited0 = (s', visited, e) ->
  range_post c s k script visited0 s' visited e.
Proof.
  induction fuel as [|f IH]; intros b c script s k visited0 s' visited e HI Hk Hd Hrun.
  - cbn [range_loop] in Hrun. inversion Hrun; subst. apply post_nil; auto. discriminate.
  - destruct (step s (OGet c)) as [s1 r] eqn:Hg.
    assert (Hcase : (exists v, r = RVal v) \/ (forall v, r <> RVal v))
      by (destruct r; eauto; right; intros v0 E; discriminate E).
    destruct Hcase as [[v ->]|Hnv].
    2:{ rewrite (range_loop_get_fail f b s c k script visited0 Hk Hd) in Hrun by (rewrite Hg; exact Hnv).
        inversion Hrun; subst. apply post_nil; auto. discriminate. }
    destruct script as [|x script'].
    { destruct (get_then_commit s c k s1 v s1 [] HI Hk Hd Hg (frame_refl c s1)) as
        (s2 & k2 & Hs2 & Hf2 & HI2 & Hk2 & Hd2 & Hc2 & Hr2 & Hcc2 & Hn & Hr & Hc & Hb & Hle);
        [eapply Inv_step_eq; eauto|reflexivity|].
      rewrite (range_loop_nil_eq f b s c visited0 s1 v s2 Hg Hs2) in Hrun. inversion Hrun; subst.
      eapply post_one; eauto. cbn [committed_of]. lia. }
    destruct x as [| | |pv].
    + (* CbTrue *)
      destruct (get_then_commit s c k s1 v s1 [] HI Hk Hd Hg (frame_refl c s1)) as
        (s2 & k2 & Hs2 & Hf2 & HI2 & Hk2 & Hd2 & Hc2 & Hr2 & Hcc2 & Hn & Hr & Hc & Hb & Hle);
        [eapply Inv_step_eq; eauto|reflexivity|].
      rewrite (range_loop_true_eq f b s c script' visited0 s1 v s2 Hg Hs2) in Hrun.
      destruct (more_of b s1 c).
      * eapply post_cons with (s2 := s2) (k2 := k2); eauto.
      * inversion Hrun; subst. eapply post_one; eauto. cbn [committed_of]. lia.
    + (* CbFalse *)
      destruct (get_then_commit s c k s1 v s1 [] HI Hk Hd Hg (frame_refl c s1)) as
        (s2 & k2 & Hs2 & Hf2 & HI2 & Hk2 & Hd2 & Hc2 & Hr2 & Hcc2 & Hn & Hr & Hc & Hb & Hle);
        [eapply Inv_step_eq; eauto|reflexivity|].
      rewrite (range_loop_false_eq f b s c script' visited0 s1 v s2 Hg Hs2) in Hrun. inversion Hrun; subst.
      eapply post_one; eauto. cbn [committed_of]. lia.
    + (* CbPanic *)
      destruct (get_ok_frame _ _ _ _ _ HI Hk Hg) as (Hf1 & HI1 & Hk1 & Hn & Hr & Hc & Hbc & Hb).
      rewrite Hd, Nat.add_0_r in *.
      destruct (rollback_ok_frame s1 c _ HI1 Hk1) as (s2 & Hs2 & Hf2 & HI2 & Hk2); [cbn; lia|].
      rewrite (range_loop_panic_eq f b s c script' visited0 s1 v s2 ROk Hg Hs2) in Hrun. inversion Hrun; subst.
      eapply post_one with (k2 := c_rollback (c_get k (ccommit k))); eauto.
      pose proof (frame_trans _ _ _ _ _ _ Hf1 Hf2) as H. exact H.
    + (* CbPutTrue *)
      destruct (get_ok_frame _ _ _ _ _ HI Hk Hg) as (Hf1 & HI1 & Hk1 & _ & _ & _ & Hbc & _).
      assert (Hb1 : bclosed s1 = false) by (destruct Hf1 as (_ & _ & E & _); congruence).
      destruct (put_frame s1 c [pv] HI1 Hb1) as (sp & Hsp & Hfp & HIp & Hkp).
      destruct (get_then_commit s c k s1 v sp [pv] HI Hk Hd Hg Hfp HIp (Hkp c)) as
        (s2 & k2 & Hs2 & Hf2 & HI2 & Hk2 & Hd2 & Hc2 & Hr2 & Hcc2 & Hn & Hr & Hc & Hb & Hle).
      rewrite (range_loop_put_eq f b s c pv script' visited0 s1 v sp ROk s2 Hg Hsp Hs2) in Hrun.
      destruct (more_of b sp c).
      * eapply post_cons with (s2 := s2) (k2 := k2); eauto.
      * inversion Hrun; subst. eapply post_one; eauto. cbn [committed_of]. lia.
Qed.

(* The specification, spelled out.  For a consumer with nothing pending at entry, whatever the end of the run (stop,
   exhausted script, panic, Get error / would-park, fuel):
   - nothing is left uncommitted;
   - the values visited are exactly the n consecutive log entries from the entry commit point (source order, no gap,
     no duplicate);
   - all of them are committed, except the in-flight value of a panicking callback;
   - the base is unchanged, the log grew by exactly the values put by the callbacks that ran, in order;
   - no other consumer is touched; the consumer's own flags and the buffer's closed flag are unchanged. *)
Theorem range_loop_spec : forall fuel bounded s c k script visited0 s' visited e,
  Inv s -> getc s c = Some k -> cdelta k = 0 ->
  range_loop fuel bounded s c script visited0 = (s', visited, e) ->
  exists k' n vs,
    getc s' c = Some k' /\ cdelta k' = 0 /\
    visited = visited0 ++ vs /\ length vs = n /\
    (forall i, i < n -> nth_error vs i = nth_error (log s') (ccommit k + i)) /\
    ccommit k' = ccommit k + (match e with RePanic => n - 1 | _ => n end) /\
    (e = RePanic -> 1 <= n) /\
    base s' = base s /\
    log s' = log s ++ flat_map (fun x => match x with CbPutTrue v => [v] | _ => [] end) (firstn n script) /\
    (forall c', c' <> c -> getc s' c' = getc s c') /\
    Inv s' /\
    creg k' = creg k /\ ccancel k' = ccancel k /\ bclosed s' = bclosed s.
Proof.
  intros fuel bounded s c k script visited0 s' visited e HI Hk Hd Hrun.
  destruct (range_loop_post _ _ _ _ _ _ _ _ _ _ HI Hk Hd Hrun)
    as (k' & vs & P1 & P2 & P3 & P4 & P5 & P6 & P7 & P8 & P9 & P10 & P11 & P12 & P13 & _).
  exists k', (length vs), vs.
  exact (conj P1 (conj P2 (conj P3 (conj eq_refl (conj P4 (conj P5 (conj P6 (conj P7 (conj P8 (conj P9 (conj P10
        (conj P11 (conj P12 P13))))))))))))).
Qed.

(* the fuel of pkg_range / buffer_range is never the reason a run ends *)
Lemma range_loop_fuel_enough : forall fuel b s c script visited0 s' visited e,
  length script < fuel -> range_loop fuel b s c script visited0 = (s', visited, e) -> e <> ReFuel.
Proof.
  induction fuel as [|f IH]; intros b s c script visited0 s' visited e Hlen Hrun; [lia|].
  cbn [range_loop] in Hrun.
  destruct (step s (OGet c)) as [s1 r].
  destruct r; try (destruct (step s1 (ORollback c)); inversion Hrun; subst; discriminate).
  destruct script as [|[| | |pv] script']; cbn [length] in Hlen; cbv zeta in Hrun.
  - destruct (step s1 (OCommit c)) as [s2 r2].
    destruct r2; try (destruct (step s2 (ORollback c)); inversion Hrun; subst; discriminate).
  - destruct (step s1 (OCommit c)) as [s2 r2].
    destruct r2; try (destruct (step s2 (ORollback c)); inversion Hrun; subst; discriminate).
    match type of Hrun with (if ?m then _ else _) = _ => destruct m end.
    + eapply IH; [|exact Hrun]. lia.
    + inversion Hrun; subst; discriminate.
  - destruct (step s1 (OCommit c)) as [s2 r2].
    destruct r2; try (destruct (step s2 (ORollback c)); inversion Hrun; subst; discriminate).
  - destruct (step s1 (ORollback c)); inversion Hrun; subst; discriminate.
  - destruct (step (fst (step s1 (OPut [pv]))) (OCommit c)) as [s2 r2].
    destruct r2; try (destruct (step s2 (ORollback c)); inversion Hrun; subst; discriminate).
    match type of Hrun with (if ?m then _ else _) = _ => destruct m end.
    + eapply IH; [|exact Hrun]. lia.
    + inversion Hrun; subst; discriminate.
Qed.

Corollary pkg_range_not_fuel s c script s' visited e : pkg_range s c script = (s', visited, e) -> e <> ReFuel.
Proof. unfold pkg_range. apply range_loop_fuel_enough. lia. Qed.

Corollary buffer_range_not_fuel s c script s' visited e : buffer_range s c script = (s', visited, e) -> e <> ReFuel.
Proof.
  unfold buffer_range. destruct (getc s c); [|intros H; inversion H; discriminate].
  destruct (snd (step s (ODiff c))) as [| | | | | |n ok| | | |]; try (intros H; inversion H; discriminate).
  destruct ok; [|intros H; inversion H; discriminate].
  destruct (0 <? n)%Z; [|intros H; inversion H; discriminate].
  apply range_loop_fuel_enough. lia.
Qed.

(* ---------------------------------------------------------------------------------------------------------- *)
(* 2. what the consumer reads next                                                                              *)
(* ---------------------------------------------------------------------------------------------------------- *)
(* After a panic the in-flight value was rolled back: it sits at the consumer's (committed) cursor and the very next Get
   returns exactly it.  No side condition is needed: the Get that delivered it succeeded, and Range changes none of the
   flags that Get checks. *)
Theorem range_panic_redelivers : forall fuel bounded s c k script visited0 s' visited d,
  Inv s -> getc s c = Some k -> cdelta k = 0 ->
  range_loop fuel bounded s c script visited0 = (s', visited, RePanic) ->
  visited <> [] /\
  exists k' s'', getc s' c = Some k' /\ cdelta k' = 0 /\
    nth_error (log s') (ccommit k') = Some (last visited d) /\
    step s' (OGet c) = (s'', RVal (last visited d)).
Proof.
  intros fuel bounded s c k script visited0 s' visited d HI Hk Hd Hrun.
  destruct (range_loop_post _ _ _ _ _ _ _ _ _ _ HI Hk Hd Hrun)
    as (k' & vs & P1 & P2 & P3 & P4 & P5 & P6 & P7 & P8 & P9 & P10 & P11 & P12 & P13 & P14).
  specialize (P6 eq_refl). specialize (P14 P6). destruct P14 as (Q1 & Q2 & Q3 & Q4).
  assert (Hne : vs <> []) by (intros E; subst vs; cbn in P6; lia).
  destruct (exists_last Hne) as (vs0 & x & ->).
  rewrite app_length in *. cbn [length committed_of] in *.
  assert (Hx : nth_error (log s') (ccommit k') = Some x).
  { rewrite P5. replace (length vs0 + 1 - 1) with (length vs0) by lia.
    rewrite <- (P4 (length vs0)) by lia. rewrite nth_error_app2 by lia. rewrite Nat.sub_diag. reflexivity. }
  assert (Hl : last visited d = x) by (rewrite P3, app_assoc; apply last_last).
  split; [rewrite P3, app_assoc; intros E; apply app_eq_nil in E; destruct E; discriminate|].
  exists k'. eexists. split; [exact P1|]. split; [exact P2|]. rewrite Hl. split; [exact Hx|].
  pose proof (get_succeeds s' c k' x P1) as Hget. rewrite P2, Nat.add_0_r in Hget.
  apply Hget; try congruence.
Qed.

(* After a failed Get (error, or would-park until the caller's context expired) every visited value is committed and
   nothing is pending: the cursor is the entry commit point plus the number of values visited.  So the next successful
   read of this consumer (in any later state in which its record is unchanged, e.g. after further Puts) returns the log
   entry right after the visited ones: the first value not visited. *)
Theorem range_get_failure_keeps_cursor : forall fuel bounded s c k script visited0 s' visited,
  Inv s -> getc s c = Some k -> cdelta k = 0 ->
  range_loop fuel bounded s c script visited0 = (s', visited, ReErr) ->
  exists k' vs,
    visited = visited0 ++ vs /\
    getc s' c = Some k' /\ cdelta k' = 0 /\ ccommit k' = ccommit k + length vs /\
    (forall i, i < length vs -> nth_error vs i = nth_error (log s') (ccommit k + i)) /\
    (forall s2 s3 v, getc s2 c = Some k' -> step s2 (OGet c) = (s3, RVal v) ->
                     nth_error (log s2) (ccommit k + length vs) = Some v).
Proof.
  intros fuel bounded s c k script visited0 s' visited HI Hk Hd Hrun.
  destruct (range_loop_post _ _ _ _ _ _ _ _ _ _ HI Hk Hd Hrun)
    as (k' & vs & P1 & P2 & P3 & P4 & P5 & _).
  cbn [committed_of] in P5.
  exists k', vs. repeat split; auto.
  intros s2 s3 v Hk2 Hg. destruct (step_get_val _ _ _ _ Hg) as (k0 & Hk0 & Hn & _).
  rewrite Hk2 in Hk0. inversion Hk0; subst k0. rewrite P2, Nat.add_0_r, P5 in Hn. exact Hn.
Qed.

(* ---------------------------------------------------------------------------------------------------------- *)
(* 3. "commits each value only after its callback has returned"                                                 *)
(* ---------------------------------------------------------------------------------------------------------- *)
(* In the model the only effect a callback can have on the buffer is CbPutTrue's Put.  One unfolding of range_loop for
   such an entry: the Commit step is taken in the state sp that already contains the callback's Put, and in sp the value x
   being visited is still uncommitted (cursor at the entry commit point, one read pending); only the Commit moves the
   cursor past x.  (That Get -> callback -> Diff -> Commit is the order of the Go code is the correspondence check's
   business; this lemma pins down what the model's order is.) *)
Theorem range_commit_after_callback : forall f bounded s c k pv rest visited0 s1 x,
  Inv s -> getc s c = Some k -> cdelta k = 0 -> step s (OGet c) = (s1, RVal x) ->
  let sp := fst (step s1 (OPut [pv])) in
  exists s2 k2,
    log sp = log s ++ [pv] /\
    getc sp c = Some (c_get k (ccommit k)) /\
    step sp (OCommit c) = (s2, ROk) /\
    getc s2 c = Some k2 /\ ccommit k2 = S (ccommit k) /\ cdelta k2 = 0 /\ log s2 = log s ++ [pv] /\
    range_loop (S f) bounded s c (CbPutTrue pv :: rest) visited0 =
      if (if bounded then match snd (step sp (ODiff c)) with RDiff n true => (0 <? n)%Z | _ => false end else true)
      then range_loop f bounded s2 c rest (visited0 ++ [x]) else (s2, visited0 ++ [x], ReNil).
Proof.
  intros f bounded s c k pv rest visited0 s1 x HI Hk Hd Hg. cbv zeta.
  destruct (get_ok_frame _ _ _ _ _ HI Hk Hg) as (Hf1 & HI1 & Hk1 & _ & _ & _ & Hbc & _).
  assert (Hb1 : bclosed s1 = false) by (destruct Hf1 as (_ & _ & E & _); congruence).
  destruct (put_frame s1 c [pv] HI1 Hb1) as (sp & Hsp & Hfp & HIp & Hkp).
  destruct (get_then_commit s c k s1 x sp [pv] HI Hk Hd Hg Hfp HIp (Hkp c)) as
    (s2 & k2 & Hs2 & Hf2 & HI2 & Hk2 & Hd2 & Hc2 & _).
  rewrite Hsp. cbn [fst]. exists s2, k2.
  split; [destruct Hfp as (E & _); destruct Hf1 as (E1 & _); rewrite E, E1, app_nil_r; reflexivity|].
  split; [rewrite Hkp, Hk1, Hd, Nat.add_0_r; reflexivity|].
  split; [exact Hs2|]. split; [exact Hk2|]. split; [exact Hc2|]. split; [exact Hd2|].
  split; [destruct Hf2 as (E & _); exact E|].
  exact (range_loop_put_eq f bounded s c pv rest visited0 s1 x sp ROk s2 Hg Hsp Hs2).
Qed.

Lemma In_firstn_nth {A} (l : list A) : forall n i x, i < n -> nth_error l i = Some x -> In x (firstn n l).
Proof.
  induction l as [|a l IH]; intros [|n] [|i] x Hi Hn; cbn in *; try lia; try discriminate.
  - inversion Hn; auto.
  - right. eapply IH; eauto. lia.
Qed.

(* corollary inside (1): the value put by the callback of the i-th visited value is in the final log *)
Theorem range_callback_put_in_log : forall fuel bounded s c k script visited0 s' visited e i pv,
  Inv s -> getc s c = Some k -> cdelta k = 0 ->
  range_loop fuel bounded s c script visited0 = (s', visited, e) ->
  length visited0 + i < length visited -> nth_error script i = Some (CbPutTrue pv) ->
  In pv (log s').
Proof.
  intros fuel bounded s c k script visited0 s' visited e i pv HI Hk Hd Hrun Hi Hs.
  destruct (range_loop_post _ _ _ _ _ _ _ _ _ _ HI Hk Hd Hrun)
    as (k' & vs & P1 & P2 & P3 & P4 & P5 & P6 & P7 & P8 & _).
  rewrite P3, app_length in Hi. rewrite P8. apply in_or_app. right.
  unfold cb_puts. apply in_flat_map. exists (CbPutTrue pv). split; [|cbn; auto].
  eapply In_firstn_nth; [|exact Hs]. lia.
Qed.

(* ---------------------------------------------------------------------------------------------------------- *)
(* 4. Buffer.Range stops at the end of the buffer instead of blocking                                           *)
(* ---------------------------------------------------------------------------------------------------------- *)
Lemma diff_eq s c k :
  getc s c = Some k -> creg k = true ->
  step s (ODiff c) = (s, RDiff (Z.of_nat (length (log s)) - Z.of_nat (ccommit k + cdelta k)) true).
Proof. intros Hk Hr. unfold step. rewrite Hk, Hr. reflexivity. Qed.

(* the continuation test of Buffer.Range: is there still an unread value? *)
Lemma more_of_bounded s c k :
  getc s c = Some k -> creg k = true -> more_of true s c = (ccommit k + cdelta k <? length (log s)).
Proof.
  intros Hk Hr. unfold more_of. rewrite (diff_eq _ _ _ Hk Hr). cbn [snd].
  destruct (Z.ltb_spec 0 (Z.of_nat (length (log s)) - Z.of_nat (ccommit k + cdelta k)));
    destruct (Nat.ltb_spec (ccommit k + cdelta k) (length (log s))); auto; lia.
Qed.

Lemma skipn_nth_cons {A} (l : list A) : forall p v, nth_error l p = Some v -> skipn p l = v :: skipn (S p) l.
Proof.
  induction l as [|a l IH]; intros [|p] v H; cbn [nth_error] in H; try discriminate.
  - inversion H; reflexivity.
  - change (skipn p l = v :: skipn (S p) l). apply IH; auto.
Qed.

(* the bounded loop over callbacks that all continue and put nothing, entered with a non-empty backlog *)
Lemma bounded_true_loop : forall fuel m c s k visited0 s' visited e,
  Inv s -> getc s c = Some k -> cdelta k = 0 -> creg k = true -> ccancel k = false -> bclosed s = false ->
  base s <= ccommit k -> ccommit k < length (log s) ->
  length (log s) - ccommit k <= m -> length (log s) - ccommit k <= fuel ->
  range_loop fuel true s c (repeat CbTrue m) visited0 = (s', visited, e) ->
  e = ReNil /\ visited = visited0 ++ skipn (ccommit k) (log s) /\
  log s' = log s /\ base s' = base s /\ Inv s' /\ (forall c', c' <> c -> getc s' c' = getc s c') /\
  exists k', getc s' c = Some k' /\ ccommit k' = length (log s) /\ cdelta k' = 0.
Proof.
  induction fuel as [|f IH]; intros m c s k visited0 s' visited e HI Hk Hd Hr Hc Hb Hle Hlt Hm Hf Hrun; [lia|].
  destruct (nth_error (log s) (ccommit k)) as [v|] eqn:Hn; [|apply nth_error_None in Hn; lia].
  pose proof (get_succeeds s c k v Hk Hc Hb Hr) as Hg. rewrite Hd, Nat.add_0_r in Hg. specialize (Hg Hle Hn).
  destruct m as [|m']; [lia|]. cbn [repeat] in Hrun.
  match type of Hg with _ = (?x, _) => set (s1 := x) in * end.
  destruct (get_then_commit s c k s1 v s1 [] HI Hk Hd Hg (frame_refl c s1)) as
    (s2 & k2 & Hs2 & Hf2 & HI2 & Hk2 & Hd2 & Hc2 & Hr2 & Hcc2 & _);
    [eapply Inv_step_eq; eauto|reflexivity|].
  rewrite (range_loop_true_eq f true s c (repeat CbTrue m') visited0 s1 v s2 Hg Hs2) in Hrun.
  assert (Hk1 : getc s1 c = Some (c_get k (ccommit k))) by (eapply getc_upd; eauto).
  rewrite (more_of_bounded s1 c _ Hk1 Hr) in Hrun. cbn [c_get ccommit cdelta set_cs log s1] in Hrun.
  destruct Hf2 as (F1 & F2 & F3 & F4). rewrite app_nil_r in F1.
  rewrite (skipn_nth_cons _ _ _ Hn).
  destruct (Nat.ltb_spec (ccommit k + S (cdelta k)) (length (log s))) as [Hmore|Hstop].
  - destruct (IH m' c s2 k2 (visited0 ++ [v]) s' visited e HI2 Hk2 Hd2) as (E1 & E2 & E3 & E4 & E5 & E6 & k' & E7 & E8 & E9);
      try congruence; try (rewrite ?F1, ?F2, ?Hc2; lia).
    split; [exact E1|]. split; [rewrite E2, Hc2, F1, <- app_assoc; reflexivity|]. split; [congruence|].
    split; [congruence|]. split; [exact E5|]. split; [intros c' Hne; rewrite E6, F4; auto|].
    exists k'. rewrite <- F1. auto.
  - inversion Hrun; subst. split; [reflexivity|].
    split; [rewrite skipn_all2 by lia; reflexivity|]. split; [exact F1|]. split; [exact F2|]. split; [exact HI2|].
    split; [exact F4|]. exists k2. repeat split; auto. lia.
Qed.

(* Buffer.Range over a backlog of values, callbacks that all continue (at least as many as the backlog) and put nothing:
   it visits exactly the backlog (everything from the consumer's commit point to the end of the buffer), commits all of
   it, and ends with nil -- it stops by the Diff test and never issues the Get that would park. *)
Theorem buffer_range_stops_at_end : forall s c k m s' visited e,
  Inv s -> getc s c = Some k -> cdelta k = 0 -> creg k = true -> ccancel k = false -> bclosed s = false ->
  base s <= ccommit k -> length (log s) - ccommit k <= m ->
  buffer_range s c (repeat CbTrue m) = (s', visited, e) ->
  e = ReNil /\ visited = skipn (ccommit k) (log s) /\ length visited = length (log s) - ccommit k /\
  log s' = log s /\ base s' = base s /\ (forall c', c' <> c -> getc s' c' = getc s c') /\
  exists k', getc s' c = Some k' /\ ccommit k' = length (log s) /\ cdelta k' = 0.
Proof.
  intros s c k m s' visited e HI Hk Hd Hr Hc Hb Hle Hm Hrun.
  assert (Hhi : ccommit k <= length (log s)).
  { destruct HI as [_ HF]. pose proof (Forall_nth_error _ _ _ _ HF Hk) as (_ & A & B & _). lia. }
  unfold buffer_range in Hrun. rewrite Hk, (diff_eq _ _ _ Hk Hr) in Hrun. cbn [snd] in Hrun.
  rewrite Hd, Nat.add_0_r in Hrun.
  destruct (Z.ltb_spec 0 (Z.of_nat (length (log s)) - Z.of_nat (ccommit k))) as [Hpos|Hzero].
  - destruct (bounded_true_loop (S (length (log s) + length (repeat CbTrue m))) m c s k [] s' visited e
                HI Hk Hd Hr Hc Hb Hle ltac:(lia) Hm ltac:(lia) Hrun)
      as (E1 & E2 & E3 & E4 & E5 & E6 & E7).
    cbn [app] in E2. repeat split; auto. rewrite E2, skipn_length. reflexivity.
  - inversion Hrun; subst. assert (Heq : ccommit k = length (log s')) by lia.
    split; [reflexivity|]. split; [rewrite skipn_all2 by lia; reflexivity|]. split; [cbn; lia|].
    repeat split; auto. exists k. auto.
Qed.

(* with an empty backlog Buffer.Range returns at once, whatever the callbacks would do: no Get at all *)
Theorem buffer_range_empty_backlog : forall s c k script,
  getc s c = Some k -> creg k = true -> cdelta k = 0 -> ccommit k = length (log s) ->
  buffer_range s c script = (s, [], ReNil).
Proof.
  intros s c k script Hk Hr Hd He. unfold buffer_range. rewrite Hk, (diff_eq _ _ _ Hk Hr). cbn [snd].
  rewrite Hd, Nat.add_0_r, He, Z.sub_diag. reflexivity.
Qed.

(* For EVERY script (callbacks may stop, panic, or put values): an open, registered, non-evicted consumer's Buffer.Range
   never ends with an error -- in particular never because a Get would have parked -- and never runs out of fuel: every
   Get it issues finds a value, because the loop is only (re-)entered after a Diff > 0 test that the log, which only
   grows, keeps true. *)
Lemma bounded_loop_never_blocks : forall fuel c script s k visited0 s' visited e,
  Inv s -> getc s c = Some k -> cdelta k = 0 -> creg k = true -> ccancel k = false -> bclosed s = false ->
  base s <= ccommit k -> ccommit k < length (log s) -> length script < fuel ->
  range_loop fuel true s c script visited0 = (s', visited, e) ->
  e = ReNil \/ e = RePanic.
Proof.
  induction fuel as [|f IH]; intros c script s k visited0 s' visited e HI Hk Hd Hr Hc Hb Hle Hlt Hf Hrun; [lia|].
  destruct (nth_error (log s) (ccommit k)) as [v|] eqn:Hn; [|apply nth_error_None in Hn; lia].
  pose proof (get_succeeds s c k v Hk Hc Hb Hr) as Hg. rewrite Hd, Nat.add_0_r in Hg. specialize (Hg Hle Hn).
  match type of Hg with _ = (?x, _) => set (s1 := x) in * end.
  assert (Hk1 : getc s1 c = Some (c_get k (ccommit k))) by (eapply getc_upd; eauto).
  assert (HI1 : Inv s1) by (eapply Inv_step_eq; eauto).
  destruct script as [|[| | |pv] script']; cbn [length] in Hf.
  - destruct (get_then_commit s c k s1 v s1 [] HI Hk Hd Hg (frame_refl c s1) HI1 eq_refl) as (s2 & k2 & Hs2 & _).
    rewrite (range_loop_nil_eq f true s c visited0 s1 v s2 Hg Hs2) in Hrun. inversion Hrun; auto.
  - destruct (get_then_commit s c k s1 v s1 [] HI Hk Hd Hg (frame_refl c s1) HI1 eq_refl) as
      (s2 & k2 & Hs2 & (F1 & F2 & F3 & F4) & HI2 & Hk2 & Hd2 & Hc2 & Hr2 & Hcc2 & _).
    rewrite (range_loop_true_eq f true s c script' visited0 s1 v s2 Hg Hs2) in Hrun.
    rewrite (more_of_bounded s1 c _ Hk1 Hr) in Hrun. cbn [c_get ccommit cdelta set_cs log s1] in Hrun.
    rewrite app_nil_r in F1.
    destruct (Nat.ltb_spec (ccommit k + S (cdelta k)) (length (log s))) as [Hmore|Hstop].
    + eapply (IH c script' s2 k2); try exact Hrun; auto; try congruence; try (rewrite ?F1, ?F2, ?Hc2; lia).
    + inversion Hrun; auto.
  - destruct (get_then_commit s c k s1 v s1 [] HI Hk Hd Hg (frame_refl c s1) HI1 eq_refl) as (s2 & k2 & Hs2 & _).
    rewrite (range_loop_false_eq f true s c script' visited0 s1 v s2 Hg Hs2) in Hrun. inversion Hrun; auto.
  - destruct (step s1 (ORollback c)) as [s2 r2] eqn:Hs2.
    rewrite (range_loop_panic_eq f true s c script' visited0 s1 v s2 r2 Hg Hs2) in Hrun. inversion Hrun; auto.
  - assert (Hb1 : bclosed s1 = false) by exact Hb.
    destruct (put_frame s1 c [pv] HI1 Hb1) as (sp & Hsp & Hfp & HIp & Hkp).
    destruct (get_then_commit s c k s1 v sp [pv] HI Hk Hd Hg Hfp HIp (Hkp c)) as
      (s2 & k2 & Hs2 & (F1 & F2 & F3 & F4) & HI2 & Hk2 & Hd2 & Hc2 & Hr2 & Hcc2 & _).
    rewrite (range_loop_put_eq f true s c pv script' visited0 s1 v sp ROk s2 Hg Hsp Hs2) in Hrun.
    destruct (more_of true sp c).
    + eapply (IH c script' s2 k2); try exact Hrun; auto; try congruence;
        try (rewrite ?F1, ?F2, ?Hc2, ?app_length; cbn [length]; lia).
    + inversion Hrun; auto.
Qed.

Theorem buffer_range_never_blocks : forall s c k script s' visited e,
  Inv s -> getc s c = Some k -> cdelta k = 0 -> creg k = true -> ccancel k = false -> bclosed s = false ->
  base s <= ccommit k ->
  buffer_range s c script = (s', visited, e) -> e = ReNil \/ e = RePanic.
Proof.
  intros s c k script s' visited e HI Hk Hd Hr Hc Hb Hle Hrun.
  unfold buffer_range in Hrun. rewrite Hk, (diff_eq _ _ _ Hk Hr) in Hrun. cbn [snd] in Hrun.
  rewrite Hd, Nat.add_0_r in Hrun.
  destruct (Z.ltb_spec 0 (Z.of_nat (length (log s)) - Z.of_nat (ccommit k))) as [Hpos|Hzero].
  - eapply (bounded_loop_never_blocks _ c script s k); try exact Hrun; auto; lia.
  - inversion Hrun; auto.
Qed.

(* ---------------------------------------------------------------------------------------------------------- *)
(* the two entry points are instances of range_loop                                                             *)
(* ---------------------------------------------------------------------------------------------------------- *)
Theorem pkg_range_is_loop : forall s c script,
  pkg_range s c script = range_loop (S (S (length (log s) + length script))) false s c script [].
Proof. reflexivity. Qed.

Theorem buffer_range_is_loop : forall s c k script,
  getc s c = Some k ->
  buffer_range s c script = (s, [], ReNil) \/
  buffer_range s c script = range_loop (S (length (log s) + length script)) true s c script [].
Proof.
  intros s c k script Hk. unfold buffer_range. rewrite Hk.
  destruct (snd (step s (ODiff c))) as [| | | | | |n ok| | | |]; auto. destruct ok; auto. destruct (0 <? n)%Z; auto.
Qed.

(* ---------------------------------------------------------------------------------------------------------- *)
(* non-vacuity: the interesting cases on concrete states                                                        *)
(* ---------------------------------------------------------------------------------------------------------- *)
(* three values, one consumer at the start *)
Definition ex_state : st := fst (erun (init CDefault) [EOp (OPut [10; 20; 30]%Z); EOp ONew]).

Lemma ex_state_ok : Inv ex_state /\ exists k, getc ex_state 0 = Some k /\ cdelta k = 0 /\ ccommit k = 0 /\
                                             creg k = true /\ ccancel k = false /\ bclosed ex_state = false.
Proof. split; [apply Inv_erun, Inv_init|]. eexists. split; [reflexivity|]. vm_compute. auto. Qed.

(* (1)+(2): package Range over 3 values; the second callback puts 99, the fourth (visiting 99) panics: all four values
   were visited in log order, three are committed, the put landed in the log, and the next Get re-delivers 99. *)
Example range_put_then_panic_example :
  let '(s', visited, e) := pkg_range ex_state 0 [CbTrue; CbPutTrue 99%Z; CbTrue; CbPanic; CbTrue] in
  visited = [10; 20; 30; 99]%Z /\ e = RePanic /\ log s' = [10; 20; 30; 99]%Z /\ base s' = 0 /\
  option_map (fun k => (ccommit k, cdelta k)) (getc s' 0) = Some (3, 0) /\
  snd (step s' (OGet 0)) = RVal 99%Z.
Proof. vm_compute. repeat split. Qed.

(* (2): package Range whose third Get finds nothing (it would park until the caller's context expires): error, both
   visited values committed, nothing pending; after a later Put the next Get returns the first value not visited. *)
Example range_get_failure_example :
  let s := fst (erun (init CDefault) [EOp (OPut [10; 20]%Z); EOp ONew]) in
  let '(s', visited, e) := pkg_range s 0 [CbTrue; CbTrue; CbTrue] in
  visited = [10; 20]%Z /\ e = ReErr /\
  option_map (fun k => (ccommit k, cdelta k)) (getc s' 0) = Some (2, 0) /\
  snd (step s' (OGet 0)) = REmpty /\
  snd (step (fst (step s' (OPut [77]%Z))) (OGet 0)) = RVal 77%Z.
Proof. vm_compute. repeat split. Qed.

(* (3): the callback's Put is in the buffer before the value is committed: with a backlog of ONE value, Buffer.Range's
   Diff test (evaluated after the callback, before the Commit) already sees the value the callback put and continues,
   so the put value is visited by the same Range call. *)
Example range_commit_after_callback_example :
  let s := fst (erun (init CDefault) [EOp (OPut [10]%Z); EOp ONew]) in
  let '(s1, r) := step s (OGet 0) in
  let sp := fst (step s1 (OPut [99]%Z)) in
  r = RVal 10%Z /\ log sp = [10; 99]%Z /\
  option_map (fun k => (ccommit k, cdelta k)) (getc sp 0) = Some (0, 1) /\
  snd (step sp (OCommit 0)) = ROk /\
  (let '(s', visited, e) := buffer_range s 0 [CbPutTrue 99%Z; CbFalse] in
   visited = [10; 99]%Z /\ e = ReNil /\ option_map (fun k => (ccommit k, cdelta k)) (getc s' 0) = Some (2, 0)).
Proof. vm_compute. repeat split. Qed.

(* (4): Buffer.Range with more willing callbacks than values stops at the end of the buffer with nil, where the package
   Range with the same script goes on to a Get that parks; with an empty backlog it does nothing at all. *)
Example buffer_range_stops_example :
  let s := fst (erun (init CDefault) [EOp (OPut [10; 20; 30]%Z); EOp ONew; EOp (OGet 0); EOp (OCommit 0)]) in
  (let '(s', visited, e) := buffer_range s 0 (repeat CbTrue 5) in
   visited = [20; 30]%Z /\ e = ReNil /\ option_map (fun k => (ccommit k, cdelta k)) (getc s' 0) = Some (3, 0) /\
   buffer_range s' 0 (repeat CbTrue 5) = (s', [], ReNil)) /\
  (let '(s', visited, e) := pkg_range s 0 (repeat CbTrue 5) in visited = [20; 30]%Z /\ e = ReErr).
Proof. vm_compute. repeat split. Qed.

(* the hypotheses of the general theorems hold of ex_state, and their conclusions are the computed ones *)
Example range_loop_spec_applies :
  forall s' visited e, pkg_range ex_state 0 [CbTrue; CbPutTrue 99%Z; CbTrue; CbPanic; CbTrue] = (s', visited, e) ->
  e = RePanic /\ visited <> [] /\ exists s'', step s' (OGet 0) = (s'', RVal (last visited 0%Z)).
Proof.
  intros s' visited e H. destruct ex_state_ok as (HI & k & Hk & Hd & _).
  assert (He : e = RePanic) by (vm_compute in H; inversion H; reflexivity). subst e. split; [reflexivity|].
  rewrite pkg_range_is_loop in H.
  destruct (range_panic_redelivers _ _ _ _ _ _ _ _ _ 0%Z HI Hk Hd H) as (Hne & k' & s'' & _ & _ & _ & Hg).
  split; [exact Hne|]. exists s''. exact Hg.
Qed.
