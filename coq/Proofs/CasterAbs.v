(* Proofs about the counter abstraction of ChanCaster (Model/CasterAbs.v): the inductive invariant and its
   consequences (C08, concurrent part): no false panic, no stolen copy, exact return value and accounting of a
   Send, word 0 afterwards, the per-receiver ("tagged") exactly-once clause, late registration, racing
   deregistration, deadlock freedom (every quiescent state has all calls returned), and mutation sensitivity
   of the two protocol variants. *)
From Coq Require Import List Arith Lia Bool ZifyBool.
From BB.Model Require Import CasterAbs.
Import ListNotations.
Arguments Nat.sub : simpl never. Arguments Nat.ltb : simpl never. Arguments Nat.leb : simpl never.
Arguments Nat.eqb : simpl never. Arguments Nat.mul : simpl never. Arguments Nat.add : simpl never.

(* ------------------------------------------------------------------------------------------------------- *)
(* The counter invariant                                                                                     *)

Definition common (f : var -> nat) : Prop :=
  f bad = 0 /\ f stolen = 0 /\ f r = f u1 + f u2.

Definition lock_inv (c : spc) (f : var -> nat) : Prop :=
  match c with
  | S4 | S6 | S7 | S7c | S8 => f w = 1 /\ f wp = 0 /\ f r = 0
  | S3 => f w = 0 /\ f wp = 1
  | SNone => f w = 0 /\ f wp = 0
  end.

Definition phase_inv (c : spc) (f : var -> nat) : Prop :=
  match c with
  | SNone | S3 | S4 =>
      f armed = 0 /\ f cnt = f u2 + f b0n /\ f b0o = 0 /\ f n5 = 0 /\ f got = f retsum
  | S6 =>
      f armed = 1 /\ f b0n = 0 /\ f k = f b0o + f n5 /\ f cnt = f b0o + f dlv /\
      f reg0 = f cnt + f n5 + f absd /\ f got = f retsum + f dlv
  | S7 =>
      f armed = 1 /\ f b0n = 0 /\ f b0o = 0 /\ f n5 = 0 /\ f k = 0 /\ f cnt = f dlv /\
      f reg0 = f dlv + f absd /\ f got = f retsum + f dlv
  | S7c =>
      f armed = 1 /\ f b0n = 0 /\ f b0o = 0 /\ f n5 = 0 /\ f k = 0 /\ f cnt = f dlv /\
      f reg0 = f dlv + f absd /\ f got = f retsum + f dlv /\ f ret = f cnt
  | S8 =>
      f armed = 0 /\ f cnt = 0 /\ f b0n = 0 /\ f b0o = 0 /\ f n5 = 0 /\ f ret = f dlv /\
      f ret + f absd = f reg0 /\ f got = f retsum + f dlv
  end.

Definition CInv (c : spc) (f : var -> nat) : Prop := common f /\ lock_inv c f /\ phase_inv c f.

Ltac brk_hyp H :=
  repeat match type of H with
         | (if ?b then _ else _) = _ => let E := fresh "E" in destruct b eqn:E; try discriminate H
         end.
Ltac red_set := cbn [set var_beq].
Ltac brk_goal :=
  repeat match goal with
         | |- context [if ?b then _ else _] => let E := fresh "E" in destruct b eqn:E
         end.
Ltac fin_c := unfold CInv, common, lock_inv, phase_inv in *; red_set; brk_goal; lia.

Lemma cstep_CInv c f b e c' f' : CInv c f -> cstep good c f b = Some (e, c', f') -> CInv c' f'.
Proof.
  intros HI Hs. unfold cstep, dereg, mk, pos, rlockable in Hs. cbn [fl_absorb fl_rlock good] in Hs.
  destruct b.
  - (* PSendStart *) brk_hyp Hs; injection Hs as <- <- <-; destruct c; fin_c.
  - (* PSendLock *) destruct c; try discriminate Hs. brk_hyp Hs; injection Hs as <- <- <-; fin_c.
  - (* PS *) destruct c; try discriminate Hs; brk_hyp Hs; injection Hs as <- <- <-; fin_c.
  - (* PU0 *) brk_hyp Hs; injection Hs as <- <- <-; destruct c; fin_c.
  - (* PU1 *) brk_hyp Hs; injection Hs as <- <- <-; destruct c; fin_c.
  - (* PU2 *) brk_hyp Hs; injection Hs as <- <- <-; destruct c; fin_c.
  - (* PRecvO *) destruct c; try discriminate Hs. brk_hyp Hs; injection Hs as <- <- <-; fin_c.
  - (* PRecvN *) destruct c; try discriminate Hs. brk_hyp Hs; injection Hs as <- <- <-; fin_c.
  - (* PAbsorb *) destruct c; try discriminate Hs. brk_hyp Hs; injection Hs as <- <- <-; fin_c.
  - (* PDeregO *) brk_hyp Hs; injection Hs as <- <- <-; destruct c; fin_c.
  - (* PDeregN *) brk_hyp Hs; injection Hs as <- <- <-; destruct c; fin_c.
Qed.

(* ------------------------------------------------------------------------------------------------------- *)
(* The tagged receiver's invariant                                                                           *)

(* it sits where its pc says *)
Definition loc_inv (f : var -> nat) (t : tagst) : Prop :=
  match tpc t with
  | TA0 => 1 <= f a0 | TL1 => 1 <= f u1 | TL2 => 1 <= f u2
  | TB0 => if tow t then 1 <= f b0o else 1 <= f b0n
  | TGot => 1 <= f got | TN5 => 1 <= f n5 | TFin => 1 <= f fin
  end.
(* one registration: at most one value, as a receiver or as an absorbing Add(-1), never both *)
Definition tot_inv (t : tagst) : Prop :=
  match tpc t with
  | TGot => trcv t = 1 /\ tabs t = 0
  | TFin => trcv t = 0 /\ tabs t <= 1
  | _ => trcv t = 0 /\ tabs t = 0
  end.
(* what it has taken from the running Send *)
Definition tphase (c : spc) (t : tagst) : Prop :=
  match c with
  | SNone | S3 | S4 => tow t = false
  | S6 | S7 | S7c | S8 =>
      if tow t then
        match tpc t with
        | TB0 | TN5 => trs t = 0 /\ tas t = 0
        | TGot => trs t = 1 /\ tas t = 0
        | TFin => trs t = 0 /\ tas t = 1
        | _ => False
        end
      else trs t = 0 /\ tas t = 0 /\ match tpc t with TN5 => False | _ => True end
  end.
Definition TInv (c : spc) (f : var -> nat) (t : tagst) : Prop := loc_inv f t /\ tot_inv t /\ tphase c t.

Definition Inv (s : st) : Prop := CInv (sp s) (v s) /\ TInv (sp s) (v s) (tg s).

Lemma Inv_init : forall senders receivers, Inv (init senders receivers).
Proof.
  intros senders receivers. unfold Inv, init, CInv, common, lock_inv, phase_inv, TInv, loc_inv, tot_inv, tphase.
  cbn. repeat split; lia.
Qed.

Ltac red_tag := cbn [tpc tow trs tas trcv tabs with_tpc tag_eff] in *.
Ltac fin_t :=
  unfold TInv, loc_inv, tot_inv, tphase, CInv, common, lock_inv, phase_inv in *; red_tag; red_set; brk_goal;
  first [ lia | discriminate ].

(* [Hc] : cstep good c f b = Some (e, c', f') for a concrete b; [t] the (already moved) tag *)
Ltac tag_case Hc c tp tw :=
  unfold cstep, dereg, mk, pos, rlockable in Hc; cbn [fl_absorb fl_rlock good] in Hc;
  destruct c; try discriminate Hc; brk_hyp Hc; injection Hc as <- <- <-;
  destruct tp; try discriminate; destruct tw; try discriminate; fin_t.

Lemma step_TInv_base c f t b e c' f' :
  CInv c f -> TInv c f t -> guard t f b = true -> cstep good c f b = Some (e, c', f') ->
  TInv c' f' (tag_eff e t).
Proof.
  intros HC HT G Hc. destruct t as [tp tw xs xa xr xb]. unfold guard in G. cbn [tpc tow] in G.
  destruct b.
  - tag_case Hc c tp tw.
  - tag_case Hc c tp tw.
  - tag_case Hc c tp tw.
  - tag_case Hc c tp tw.
  - tag_case Hc c tp tw.
  - tag_case Hc c tp tw.
  - tag_case Hc c tp tw.
  - tag_case Hc c tp tw.
  - tag_case Hc c tp tw.
  - tag_case Hc c tp tw.
  - tag_case Hc c tp tw.
Qed.

Ltac tag_case2 Hc c :=
  unfold cstep, dereg, mk, pos, rlockable in Hc; cbn [fl_absorb fl_rlock good] in Hc;
  destruct c; try discriminate Hc; brk_hyp Hc; injection Hc as <- <- <-; fin_t.

Lemma step_TInv_tag c f t tp t1 e c' f' :
  CInv c f -> TInv c f t -> tag_pre good f tp t = Some t1 ->
  cstep good c f (base_of t tp) = Some (e, c', f') ->
  TInv c' f' (tag_eff e t1).
Proof.
  intros HC HT Hp Hc. destruct t as [tq tw xs xa xr xb].
  unfold tag_pre in Hp. cbn [tpc tow trs tas trcv tabs with_tpc fl_absorb fl_rlock good] in Hp.
  unfold base_of in Hc. cbn [tow] in Hc.
  destruct tp; destruct tq; try discriminate Hp.
  - (* TU0 *) injection Hp as <-. destruct tw; tag_case2 Hc c.
  - (* TU1 *) destruct (f armed =? 0) eqn:EA; injection Hp as <-; destruct tw; tag_case2 Hc c.
  - (* TU2 *) injection Hp as <-. destruct tw; tag_case2 Hc c.
  - (* TRecv *) injection Hp as <-. destruct tw; tag_case2 Hc c.
  - (* TDereg *) destruct (f armed =? 0) eqn:EA; injection Hp as <-; destruct tw; tag_case2 Hc c.
  - (* TAbsorb *) injection Hp as <-. destruct tw; tag_case2 Hc c.
Qed.

Lemma Inv_step : forall s p s', Inv s -> step s p = Some s' -> Inv s'.
Proof.
  intros [c f t] p s' [HC HT] Hs. cbn [sp v tg] in HC, HT.
  unfold step, step_gen, lift in Hs. cbn [sp v tg] in Hs.
  destruct p as [b|tp].
  - destruct (guard t f b) eqn:G; [|discriminate Hs].
    destruct (cstep good c f b) as [[[e c'] f']|] eqn:Hc; [|discriminate Hs].
    injection Hs as <-. split; cbn [sp v tg].
    + eapply cstep_CInv; eassumption.
    + eapply step_TInv_base; eassumption.
  - destruct (tag_pre good f tp t) as [t1|] eqn:Hp; [|discriminate Hs].
    destruct (cstep good c f (base_of t tp)) as [[[e c'] f']|] eqn:Hc; [|discriminate Hs].
    injection Hs as <-. split; cbn [sp v tg].
    + eapply cstep_CInv; eassumption.
    + eapply step_TInv_tag; eassumption.
Qed.

Lemma Inv_run_from : forall sched s, Inv s -> Inv (run s sched).
Proof.
  induction sched as [|p rest IH]; intros s HI; [exact HI|].
  unfold run in *. cbn [run_gen]. apply IH. fold (step s p).
  destruct (step s p) as [s'|] eqn:Hs; [eapply Inv_step; eassumption | exact HI].
Qed.

Lemma Inv_run : forall senders receivers sched, Inv (run (init senders receivers) sched).
Proof. intros senders receivers sched. apply Inv_run_from, Inv_init. Qed.

(* ------------------------------------------------------------------------------------------------------- *)
(* Consequences, stated on invariant states and on runs                                                      *)

(* No panic of the code fires under the contract (Add never sees an armed word with delta > 0, never
   decrements below zero; Send's three validations and its CAS to 0 succeed), and nobody that the running Send
   did not count takes a copy. *)
Theorem no_false_panic_no_steal : forall senders receivers sched,
  let s := run (init senders receivers) sched in v s bad = 0 /\ v s stolen = 0.
Proof.
  intros senders receivers sched s.
  destruct (Inv_run senders receivers sched) as (((Hb & Hst & _) & _) & _). fold s in Hb, Hst. auto.
Qed.

(* At S8 the Send has finished (final CAS done, or slow-path zero) and is about to unlock and return [ret].
   ret = copies taken by receivers; ret + copies absorbed by racing Add(-1)s = the count it armed with; the
   word is 0 and nobody is registered. *)
Lemma send_return_exact_inv : forall s, Inv s -> sp s = S8 ->
  v s ret = v s dlv /\ v s ret + v s absd = v s reg0 /\
  v s cnt = 0 /\ v s armed = 0 /\ v s u2 = 0 /\ v s b0o = 0 /\ v s b0n = 0 /\ v s n5 = 0.
Proof.
  intros [c f t] [(HCm & HL & HP) _] E. cbn [sp v] in *. subst c.
  unfold common, lock_inv, phase_inv in *. lia.
Qed.

Theorem send_return_exact : forall senders receivers sched,
  let s := run (init senders receivers) sched in
  sp s = S8 ->
  v s ret = v s dlv /\ v s ret + v s absd = v s reg0 /\
  v s cnt = 0 /\ v s armed = 0 /\ v s u2 = 0 /\ v s b0o = 0 /\ v s b0n = 0 /\ v s n5 = 0.
Proof. intros senders receivers sched s. apply send_return_exact_inv, Inv_run. Qed.

(* While the copies are handed out: every copy still to come has a taker that the Send counted (k = owed idle
   receivers + absorbing Adds), and nobody else is registered. *)
Lemma delivering_inv : forall s, Inv s -> sp s = S6 ->
  v s armed = 1 /\ v s k = v s b0o + v s n5 /\ v s b0n = 0 /\ v s u1 = 0 /\ v s u2 = 0 /\
  v s reg0 = v s dlv + v s absd + v s k.
Proof.
  intros [c f t] [(HCm & HL & HP) _] E. cbn [sp v] in *. subst c.
  unfold common, lock_inv, phase_inv in *. lia.
Qed.

(* Over the whole run: the values received by receivers are exactly the sum of the Sends' return values. *)
Theorem total_delivery : forall senders receivers sched,
  let s := run (init senders receivers) sched in
  sp s = SNone -> v s got = v s retsum.
Proof.
  intros senders receivers sched s E.
  destruct (Inv_run senders receivers sched) as [(_ & _ & HP) _]. fold s in HP. rewrite E in HP.
  unfold phase_inv in HP. lia.
Qed.

(* The per-receiver clause.  [tow] is set by the arming step iff the tagged receiver is registered and idle at
   that instant.  When the Send is about to return: a receiver it counted has received exactly one value from
   it, unless it deregistered, in which case its Add(-1) absorbed exactly one; a receiver it did not count got
   nothing from it. *)
Lemma tagged_exact_inv : forall s, Inv s -> sp s = S8 ->
  if tow (tg s)
  then (tpc (tg s) = TGot /\ trs (tg s) = 1 /\ tas (tg s) = 0) \/
       (tpc (tg s) = TFin /\ trs (tg s) = 0 /\ tas (tg s) = 1)
  else trs (tg s) = 0 /\ tas (tg s) = 0.
Proof.
  intros [c f [tp tw xs xa xr xb]] [(HCm & HL & HP) (HLoc & HTot & HPh)] E. cbn [sp v tg] in *. subst c.
  unfold common, lock_inv, phase_inv, loc_inv, tot_inv, tphase in *. red_tag.
  destruct tw; [|lia].
  destruct tp; try lia; [left|right]; (split; [reflexivity|lia]).
Qed.

Theorem tagged_exact_delivery : forall senders receivers sched,
  let s := run (init senders receivers) sched in
  sp s = S8 ->
  if tow (tg s)
  then (tpc (tg s) = TGot /\ trs (tg s) = 1 /\ tas (tg s) = 0) \/
       (tpc (tg s) = TFin /\ trs (tg s) = 0 /\ tas (tg s) = 1)
  else trs (tg s) = 0 /\ tas (tg s) = 0.
Proof. intros senders receivers sched s. apply tagged_exact_inv, Inv_run. Qed.

(* one registration yields at most one value in total, ever *)
Theorem tagged_at_most_once : forall senders receivers sched,
  let s := run (init senders receivers) sched in
  trcv (tg s) + tabs (tg s) <= 1 /\ (trcv (tg s) = 1 <-> tpc (tg s) = TGot).
Proof.
  intros senders receivers sched s.
  destruct (Inv_run senders receivers sched) as [_ (_ & HTot & _)]. fold s in HTot.
  unfold tot_inv in HTot. destruct (tpc (tg s)); split; try lia; split; intros; try lia; try discriminate;
    try reflexivity.
Qed.

(* Late registration.  From the moment a Send has announced itself on the mutex until it unlocks, no Add(+1)
   can pass RLock; while the write lock is held nobody is inside Add(+1); while copies are handed out nobody is
   registered un-owed.  A receiver the Send did not count is not registered at all during the Send (it sits
   before RLock, or is done) and receives nothing from it. *)
Definition locked (c : spc) : bool := match c with S4 | S6 | S7 | S7c | S8 => true | _ => false end.
Definition counted (c : spc) : bool := match c with S6 | S7 | S7c | S8 => true | _ => false end.

Lemma rlock_blocked : forall s, Inv s -> sp s <> SNone ->
  step s (PB PU0) = None /\ step s (PT TU0) = None.
Proof.
  intros [c f [tp tw xs xa xr xb]] [(HCm & HL & HP) _] E. cbn [sp v tg] in *.
  unfold step, step_gen, lift, guard, tag_pre, base_of, cstep, pos, rlockable.
  cbn [sp v tg tpc tow fl_rlock good with_tpc].
  assert (Hrl : (f w =? 0) && (f wp =? 0) = false).
  { unfold lock_inv in HL. destruct c; try lia. congruence. }
  rewrite Hrl, andb_false_r. split; destruct tp; try destruct (1 <? f a0); reflexivity.
Qed.

Lemma nobody_inside_add : forall s, Inv s -> locked (sp s) = true ->
  v s u1 = 0 /\ v s u2 = 0 /\ tpc (tg s) <> TL1 /\ tpc (tg s) <> TL2.
Proof.
  intros [c f [tp tw xs xa xr xb]] [(HCm & HL & HP) (HLoc & _)] E. cbn [sp v tg tpc] in *.
  unfold common, lock_inv, loc_inv in *. red_tag.
  assert (H0 : f u1 = 0 /\ f u2 = 0) by (destruct c; try discriminate E; lia).
  destruct H0 as [H1 H2]. repeat split; try assumption; intros ->; lia.
Qed.

Lemma uncounted_gets_nothing : forall s, Inv s -> counted (sp s) = true ->
  v s b0n = 0 /\ step s (PB PRecvN) = None /\
  (tow (tg s) = false ->
     trs (tg s) = 0 /\ tas (tg s) = 0 /\
     (tpc (tg s) = TA0 \/ tpc (tg s) = TGot \/ tpc (tg s) = TFin) /\ step s (PT TRecv) = None).
Proof.
  intros [c f [tp tw xs xa xr xb]] HI E.
  destruct (nobody_inside_add _ HI) as (H1 & H2 & H3 & H4); [destruct c; try discriminate E; reflexivity|].
  destruct HI as [(HCm & HL & HP) (HLoc & HTot & HPh)]. cbn [sp v tg tpc tow trs tas] in *.
  unfold common, lock_inv, phase_inv, loc_inv, tot_inv, tphase in *. red_tag.
  assert (Hb : f b0n = 0) by (destruct c; try discriminate E; lia).
  split; [assumption|]. split.
  - unfold step, step_gen, lift, guard, cstep, pos. cbn [sp v tg tpc tow].
    replace (negb (f b0n =? 0)) with false by lia. rewrite andb_false_r.
    destruct tp; try destruct tw; try destruct (1 <? f b0n); destruct c; reflexivity.
  - intros ->.
    assert (Hx : xs = 0 /\ xa = 0 /\ (tp = TA0 \/ tp = TGot \/ tp = TFin)).
    { destruct c; try discriminate E; (destruct tp; try congruence; try lia; repeat split; try lia; auto). }
    destruct Hx as (A & B & C). repeat split; try assumption.
    unfold step, step_gen, lift, tag_pre, base_of, cstep, pos. cbn [sp v tg tpc tow].
    destruct C as [-> | [-> | ->]]; reflexivity.
Qed.

(* ... and a receiver that was before RLock stays there for as long as that Send has not unlocked. *)
Lemma late_registration_stable : forall s p s', Inv s -> locked (sp s) = true -> tpc (tg s) = TA0 ->
  step s p = Some s' -> tpc (tg s') = TA0.
Proof.
  intros s p s' HI Hin HA Hs.
  destruct (rlock_blocked s HI) as (_ & HT0); [intros E; rewrite E in Hin; discriminate Hin|].
  destruct s as [c f [tp tw xs xa xr xb]]. cbn [sp v tg tpc] in *. subst tp.
  unfold step, step_gen, lift in Hs. cbn [sp v tg] in Hs.
  destruct p as [b|t'].
  - destruct (guard _ f b); [|discriminate Hs].
    destruct (cstep good c f b) as [[[e c'] f']|]; [|discriminate Hs]. injection Hs as <-.
    cbn [tg]. destruct e; reflexivity.
  - destruct t'; try discriminate Hs.
    unfold step, step_gen, lift in HT0. cbn [sp v tg tag_pre tpc] in HT0, Hs.
    rewrite HT0 in Hs. discriminate Hs.
Qed.

(* Racing deregistration (counter level; anonymous and tagged receivers both step through [cstep]).  An Add(-1)
   by a receiver the running Send did not count happens outside the delivery phase, sees an unarmed word and
   returns without touching the channel: the receiver is removed before it is counted.  An Add(-1) by a counted
   receiver happens while armed: the count drops, the copy stays pending (k unchanged) and the Add owes exactly
   one receive ([n5]), which [PAbsorb] then performs, taking exactly one of the k copies. *)
Lemma dereg_uncounted : forall c f e c' f', CInv c f -> cstep good c f PDeregN = Some (e, c', f') ->
  e = ENone /\ counted c = false /\ f armed = 0 /\ c' = c /\ 1 <= f cnt /\ f' cnt = f cnt - 1 /\
  f' b0n = f b0n - 1 /\ f' fin = S (f fin) /\ f' n5 = f n5 /\ f' k = f k /\ f' absd = f absd.
Proof.
  intros c f e c' f' (HCm & HL & HP) Hs.
  unfold cstep, dereg, mk, pos in Hs. cbn [fl_absorb good] in Hs.
  unfold common, lock_inv, phase_inv in *.
  destruct c; brk_hyp Hs; injection Hs as <- <- <-; red_set; cbn [counted]; try lia; repeat split; lia.
Qed.

Lemma dereg_counted : forall c f e c' f', CInv c f -> cstep good c f PDeregO = Some (e, c', f') ->
  e = ENone /\ c = S6 /\ c' = S6 /\ f armed = 1 /\ 1 <= f cnt /\ f' cnt = f cnt - 1 /\
  f' b0o = f b0o - 1 /\ f' n5 = S (f n5) /\ f' fin = f fin /\ f' k = f k /\ f' reg0 = f reg0.
Proof.
  intros c f e c' f' (HCm & HL & HP) Hs.
  unfold cstep, dereg, mk, pos in Hs. cbn [fl_absorb good] in Hs.
  unfold common, lock_inv, phase_inv in *.
  destruct c; brk_hyp Hs; injection Hs as <- <- <-; red_set; try lia; repeat split; lia.
Qed.

Lemma absorb_exactly_one : forall c f e c' f', cstep good c f PAbsorb = Some (e, c', f') ->
  e = ENone /\ c = S6 /\ c' = S6 /\ 1 <= f n5 /\ 1 <= f k /\ f' n5 = f n5 - 1 /\ f' k = f k - 1 /\
  f' absd = S (f absd) /\ f' fin = S (f fin) /\ f' cnt = f cnt.
Proof.
  intros c f e c' f' Hs. unfold cstep, mk, pos in Hs.
  destruct c; try discriminate Hs. brk_hyp Hs. injection Hs as <- <- <-. red_set. repeat split; lia.
Qed.

Lemma tagged_dereg : forall s s', Inv s -> step s (PT TDereg) = Some s' ->
  (tow (tg s) = false /\ counted (sp s) = false /\ tpc (tg s') = TFin /\ tabs (tg s') = 0 /\ tas (tg s') = tas (tg s))
  \/ (tow (tg s) = true /\ sp s = S6 /\ tpc (tg s') = TN5).
Proof.
  intros [c f [tp tw xs xa xr xb]] s' [HC (HLoc & HTot & HPh)] Hs. cbn [sp v tg] in HC, HLoc, HTot, HPh.
  unfold step, step_gen, lift, tag_pre, base_of in Hs. cbn [sp v tg tpc tow fl_absorb good with_tpc] in Hs.
  destruct tp; try discriminate Hs. cbn [sp v tg tpc tow fl_absorb good with_tpc] in Hs.
  unfold tot_inv in HTot. red_tag.
  destruct tw.
  - right. destruct (cstep good c f PDeregO) as [[[e c'] f']|] eqn:Hc; [|destruct (f armed =? 0); discriminate Hs].
    destruct (dereg_counted _ _ _ _ _ HC Hc) as (-> & -> & -> & HA & _).
    replace (f armed =? 0) with false in Hs by lia. injection Hs as <-. cbn [tg sp tow tag_eff with_tpc tpc]. auto.
  - left. destruct (cstep good c f PDeregN) as [[[e c'] f']|] eqn:Hc; [|destruct (f armed =? 0); discriminate Hs].
    destruct (dereg_uncounted _ _ _ _ _ HC Hc) as (-> & Hcnt & HA & _).
    replace (f armed =? 0) with true in Hs by lia. injection Hs as <-.
    cbn [tg sp tow tag_eff with_tpc tpc tabs tas]. repeat split; auto; lia.
Qed.

(* ------------------------------------------------------------------------------------------------------- *)
(* Deadlock freedom: whatever blocks is matched by someone who can move                                      *)

Ltac open_step :=
  unfold step, step_gen, lift, guard, tag_pre, base_of, cstep, dereg, mk, pos, rlockable;
  cbn [sp v tg tpc tow fl_absorb fl_rlock good with_tpc].
Ltac solve_en := open_step; brk_goal; first [ discriminate | exfalso; lia ].

Lemma en_sendstart : forall s, 0 < v s nsend -> step s (PB PSendStart) <> None.
Proof. intros [c f [tp tw xs xa xr xb]] H. cbn [v] in H. solve_en. Qed.

Lemma en_sendlock : forall s, sp s = SNone -> 0 < v s sq -> step s (PB PSendLock) <> None.
Proof. intros [c f [tp tw xs xa xr xb]] E H. cbn [v sp] in *. subst c. solve_en. Qed.

Lemma en_ps : forall s,
  match sp s with
  | SNone => False | S3 => v s r = 0 | S6 => v s k = 0 | _ => True
  end -> step s (PB PS) <> None.
Proof. intros [c f [tp tw xs xa xr xb]] H. cbn [v sp] in *. destruct c; try contradiction; solve_en. Qed.

Lemma en_u0 : forall s, Inv s -> 0 < v s a0 -> v s w = 0 -> v s wp = 0 ->
  step s (PB PU0) <> None \/ step s (PT TU0) <> None.
Proof.
  intros [c f [tp tw xs xa xr xb]] _ H Hw Hwp. cbn [v] in *.
  destruct tp; [right|left|left|left|left|left|left]; solve_en.
Qed.

Lemma en_u1 : forall s, 0 < v s u1 -> step s (PB PU1) <> None \/ step s (PT TU1) <> None.
Proof.
  intros [c f [tp tw xs xa xr xb]] H. cbn [v] in *.
  destruct tp; [left|right|left|left|left|left|left]; solve_en.
Qed.

Lemma en_u2 : forall s, 0 < v s u2 -> step s (PB PU2) <> None \/ step s (PT TU2) <> None.
Proof.
  intros [c f [tp tw xs xa xr xb]] H. cbn [v] in *.
  destruct tp; [left|left|right|left|left|left|left]; solve_en.
Qed.

Lemma en_recvo : forall s, sp s = S6 -> 0 < v s k -> 0 < v s b0o ->
  step s (PB PRecvO) <> None \/ step s (PT TRecv) <> None.
Proof.
  intros [c f [tp tw xs xa xr xb]] E Hk H. cbn [v sp] in *. subst c.
  destruct tp; try (left; solve_en). destruct tw; [right|left]; solve_en.
Qed.

Lemma en_absorb : forall s, sp s = S6 -> 0 < v s k -> 0 < v s n5 ->
  step s (PB PAbsorb) <> None \/ step s (PT TAbsorb) <> None.
Proof.
  intros [c f [tp tw xs xa xr xb]] E Hk H. cbn [v sp] in *. subst c.
  destruct tp; [left|left|left|left|left|right|left]; solve_en.
Qed.

Lemma en_deregn : forall s, 0 < v s b0n -> tow (tg s) = false ->
  step s (PB PDeregN) <> None \/ step s (PT TDereg) <> None.
Proof.
  intros [c f [tp tw xs xa xr xb]] H E. cbn [v tg tow] in *. subst tw.
  destruct tp; [left|left|left|right|left|left|left]; solve_en.
Qed.

Lemma quiescentb_spec : forall s, quiescentb s = true ->
  forall p, In p all_picks -> voluntary p = false -> step s p = None.
Proof.
  intros s H p Hin Hv. unfold quiescentb, quiescentb_gen in H. rewrite forallb_forall in H.
  specialize (H p Hin). rewrite Hv in H. cbn [orb] in H. fold (step s p) in H.
  destruct (step s p); [discriminate H | reflexivity].
Qed.

(* Nothing can move except idle receivers that might still choose to deregister: then no Send is in progress
   or pending, no Add is in progress or pending, nobody owes a receive, and nobody is owed a copy.  In
   particular a Send blocked in `x.C <- value` (S6, k > 0) always has a taker, a Send blocked in Lock (S3) always
   has a reader that can leave, and an Add(+1) blocked in RLock always has a Send that can proceed. *)
Theorem quiescent_all_returned : forall s, Inv s -> quiescentb s = true ->
  sp s = SNone /\ v s nsend = 0 /\ v s sq = 0 /\ v s a0 = 0 /\ v s u1 = 0 /\ v s u2 = 0 /\
  v s n5 = 0 /\ v s b0o = 0 /\ v s cnt = v s b0n /\ v s armed = 0 /\
  (tpc (tg s) = TB0 \/ tpc (tg s) = TGot \/ tpc (tg s) = TFin).
Proof.
  intros s HI HQ. pose proof (quiescentb_spec s HQ) as Q.
  assert (QB : forall b, In (PB b) all_picks -> voluntary (PB b) = false -> step s (PB b) = None) by (intros; auto).
  assert (Hns : v s nsend = 0).
  { destruct (Nat.eq_dec (v s nsend) 0) as [E|E]; [assumption|]. exfalso.
    apply (en_sendstart s); [lia|]. apply Q; [cbn; tauto | reflexivity]. }
  assert (Hu1 : v s u1 = 0).
  { destruct (Nat.eq_dec (v s u1) 0) as [E|E]; [assumption|]. exfalso.
    destruct (en_u1 s) as [H|H]; [lia| |]; apply H; apply Q; cbn; tauto. }
  assert (Hu2 : v s u2 = 0).
  { destruct (Nat.eq_dec (v s u2) 0) as [E|E]; [assumption|]. exfalso.
    destruct (en_u2 s) as [H|H]; [lia| |]; apply H; apply Q; cbn; tauto. }
  assert (Hsp : sp s = SNone).
  { destruct (sp s) eqn:Ec; [reflexivity|exfalso..].
    - apply (en_ps s); [rewrite Ec|apply Q; cbn; tauto].
      destruct HI as [((_ & _ & Hr) & _) _]. lia.
    - apply (en_ps s); [rewrite Ec; exact I|apply Q; cbn; tauto].
    - destruct (Nat.eq_dec (v s k) 0) as [Ek|Ek].
      + apply (en_ps s); [rewrite Ec; exact Ek|apply Q; cbn; tauto].
      + destruct (delivering_inv s HI Ec) as (_ & Hk & _).
        destruct (Nat.eq_dec (v s b0o) 0) as [Eb|Eb].
        * destruct (en_absorb s Ec) as [H|H]; [lia|lia| |]; apply H; apply Q; cbn; tauto.
        * destruct (en_recvo s Ec) as [H|H]; [lia|lia| |]; apply H; apply Q; cbn; tauto.
    - apply (en_ps s); [rewrite Ec; exact I|apply Q; cbn; tauto].
    - apply (en_ps s); [rewrite Ec; exact I|apply Q; cbn; tauto].
    - apply (en_ps s); [rewrite Ec; exact I|apply Q; cbn; tauto]. }
  assert (Hsq : v s sq = 0).
  { destruct (Nat.eq_dec (v s sq) 0) as [E|E]; [assumption|]. exfalso.
    apply (en_sendlock s Hsp); [lia|]. apply Q; [cbn; tauto | reflexivity]. }
  destruct HI as [(HCm & HL & HP) (HLoc & HTot & HPh)] eqn:EI. clear EI.
  rewrite Hsp in HL, HP, HPh. unfold common, lock_inv, phase_inv, tphase in *.
  assert (Ha0 : v s a0 = 0).
  { destruct (Nat.eq_dec (v s a0) 0) as [E|E]; [assumption|]. exfalso.
    destruct (en_u0 s HI) as [H|H]; [lia|lia|lia| |]; apply H; apply Q; cbn; tauto. }
  repeat split; try assumption; try lia.
  unfold loc_inv in HLoc. destruct (tpc (tg s)); auto; lia.
Qed.

(* A terminal state (not even a voluntary deregistration possible) has nobody registered: the word is 0. *)
Theorem terminal_all_returned : forall s, Inv s -> terminalb s = true ->
  sp s = SNone /\ v s nsend = 0 /\ v s sq = 0 /\ v s a0 = 0 /\ v s u1 = 0 /\ v s u2 = 0 /\
  v s n5 = 0 /\ v s b0o = 0 /\ v s b0n = 0 /\ v s cnt = 0 /\ v s armed = 0 /\
  (tpc (tg s) = TGot \/ tpc (tg s) = TFin).
Proof.
  intros s HI HT.
  assert (T : forall p, In p all_picks -> step s p = None).
  { intros p Hin. unfold terminalb, terminalb_gen in HT. rewrite forallb_forall in HT.
    specialize (HT p Hin). fold (step s p) in HT. destruct (step s p); [discriminate HT|reflexivity]. }
  assert (HQ : quiescentb s = true).
  { unfold quiescentb, quiescentb_gen. apply forallb_forall. intros p Hin.
    fold (step s p). rewrite (T p Hin). apply orb_true_r. }
  destruct (quiescent_all_returned s HI HQ) as (A & B & C & D & E & F & G & H & I1 & J & K).
  assert (Hb : v s b0n = 0).
  { destruct (Nat.eq_dec (v s b0n) 0) as [E0|E0]; [assumption|]. exfalso.
    destruct (en_deregn s) as [X|X]; [lia| |apply X, T; cbn; tauto|apply X, T; cbn; tauto].
    destruct HI as [_ (_ & _ & HPh)]. unfold tphase in HPh. rewrite A in HPh. exact HPh. }
  repeat split; try assumption; try lia.
  destruct K as [K|K]; [|assumption]. exfalso.
  destruct HI as [_ (HLoc & _ & HPh)]. unfold loc_inv, tphase in *. rewrite K in HLoc. rewrite A in HPh.
  rewrite HPh in HLoc. lia.
Qed.

Theorem run_quiescent_all_returned : forall senders receivers sched,
  let s := run (init senders receivers) sched in
  quiescentb s = true ->
  sp s = SNone /\ v s nsend = 0 /\ v s sq = 0 /\ v s a0 = 0 /\ v s u1 = 0 /\ v s u2 = 0 /\
  v s n5 = 0 /\ v s b0o = 0 /\ v s cnt = v s b0n /\ v s armed = 0 /\
  (tpc (tg s) = TB0 \/ tpc (tg s) = TGot \/ tpc (tg s) = TFin).
Proof. intros senders receivers sched s. apply quiescent_all_returned, Inv_run. Qed.

(* ------------------------------------------------------------------------------------------------------- *)
(* Termination: every step (of every protocol variant) strictly decreases a measure, so a run takes at most   *)
(* 8 * senders + 5 * (receivers + 1) effective steps; with quiescent_all_returned: no call blocks for ever.   *)

Definition spw (c : spc) : nat :=
  match c with SNone => 0 | S3 => 6 | S4 => 5 | S6 => 4 | S7 => 3 | S7c => 2 | S8 => 1 end.
Definition cmeasure (c : spc) (f : var -> nat) : nat :=
  8 * f nsend + 7 * f sq + spw c + 5 * f a0 + 4 * f u1 + 3 * f u2 + 2 * (f b0o + f b0n) + f n5.
Definition measure (s : st) : nat := cmeasure (sp s) (v s).

Lemma cstep_decreases : forall fl c f b e c' f',
  cstep fl c f b = Some (e, c', f') -> cmeasure c' f' < cmeasure c f.
Proof.
  intros fl c f b e c' f' Hs. unfold cstep, dereg, mk, pos, rlockable in Hs. unfold cmeasure.
  destruct b; destruct c; try discriminate Hs; brk_hyp Hs; injection Hs as <- <- <-;
    cbn [spw]; red_set; lia.
Qed.

Theorem step_decreases : forall fl s p s', step_gen fl s p = Some s' -> measure s' < measure s.
Proof.
  intros fl [c f t] p s' Hs. unfold step_gen, lift in Hs. cbn [sp v tg] in Hs. unfold measure.
  destruct p as [b|tp].
  - destruct (guard t f b); [|discriminate Hs].
    destruct (cstep fl c f b) as [[[e c'] f']|] eqn:Hc; [|discriminate Hs]. injection Hs as <-.
    cbn [sp v]. eapply cstep_decreases; eassumption.
  - destruct (tag_pre fl f tp t) as [t1|]; [|discriminate Hs].
    destruct (cstep fl c f (base_of t tp)) as [[[e c'] f']|] eqn:Hc; [|discriminate Hs]. injection Hs as <-.
    cbn [sp v]. eapply cstep_decreases; eassumption.
Qed.

Example measure_init : forall senders receivers,
  measure (init senders receivers) = 8 * senders + 5 * S receivers.
Proof. intros. unfold measure, cmeasure, init. cbn [sp v spw]. lia. Qed.

(* ------------------------------------------------------------------------------------------------------- *)
(* The interesting cases occur                                                                               *)

(* two registered receivers, one Send: one receiver deregisters while the Send is armed and absorbs a copy, the
   tagged one receives; the Send returns 1 = 2 - 1, the word is 0, and the final state is terminal. *)
Definition sched_race : list pick :=
  [PB PU0; PB PU1; PB PU2; PT TU0; PT TU1; PT TU2; PB PSendStart; PB PSendLock; PB PS; PB PS;
   PB PDeregO; PT TRecv; PB PAbsorb; PB PS; PB PS; PB PS].
Example ex_race_at_return :
  let s := run (init 1 1) sched_race in
  sp s = S8 /\ v s reg0 = 2 /\ v s ret = 1 /\ v s dlv = 1 /\ v s absd = 1 /\ v s cnt = 0 /\ v s armed = 0 /\
  tow (tg s) = true /\ tpc (tg s) = TGot /\ trs (tg s) = 1.
Proof. vm_compute. repeat split. Qed.
Example ex_race_terminal :
  let s := run (init 1 1) (sched_race ++ [PB PS]) in
  terminalb s = true /\ sp s = SNone /\ v s got = 1 /\ v s retsum = 1 /\ v s fin = 1 /\ v s nret = 1.
Proof. vm_compute. repeat split. Qed.

(* the tagged receiver calls Add(+1) while a Send is armed: its RLock attempts are stutters, it is still before
   RLock when the Send returns, got nothing from it, and registers afterwards (count 1, quiescent, not
   terminal: it may still deregister). *)
Definition sched_late : list pick :=
  [PB PU0; PB PU1; PB PU2; PB PSendStart; PB PSendLock; PT TU0; PB PS; PT TU0; PB PS; PT TU0;
   PB PRecvO; PT TU0; PB PS; PB PS; PT TU0; PB PS].
Example ex_late_at_return :
  let s := run (init 1 1) sched_late in
  sp s = S8 /\ v s ret = 1 /\ v s reg0 = 1 /\ tpc (tg s) = TA0 /\ tow (tg s) = false /\ trs (tg s) = 0.
Proof. vm_compute. repeat split. Qed.
Example ex_late_registers_afterwards :
  let s := run (init 1 1) (sched_late ++ [PB PS; PT TU0; PT TU1; PT TU2]) in
  sp s = SNone /\ tpc (tg s) = TB0 /\ v s cnt = 1 /\ v s b0n = 1 /\ quiescentb s = true /\ terminalb s = false.
Proof. vm_compute. repeat split. Qed.

(* a deregistration that wins the race against the arming CAS is simply not counted *)
Example ex_dereg_before_arm :
  let s := run (init 1 1)
             [PB PU0; PB PU1; PB PU2; PT TU0; PT TU1; PT TU2; PB PSendStart; PB PSendLock; PB PS;
              PT TDereg; PB PS; PB PRecvO; PB PS; PB PS; PB PS] in
  sp s = S8 /\ v s reg0 = 1 /\ v s ret = 1 /\ v s absd = 0 /\ tpc (tg s) = TFin /\ tow (tg s) = false /\
  tabs (tg s) = 0.
Proof. vm_compute. repeat split. Qed.

(* ------------------------------------------------------------------------------------------------------- *)
(* Mutation sensitivity: the same transition function with one mechanism removed                             *)

(* (a) a negative Add that does not receive when it sees the armed word: the Send hangs in `x.C <- value`
   for ever (terminal state with the sender at S6, one copy undelivered, nobody left to take it). *)
Definition no_absorb : flags := {| fl_absorb := false; fl_rlock := true |}.
Theorem no_absorb_deadlock_refuted :
  exists sched, let s := run_gen no_absorb (init 1 0) sched in
  terminalb_gen no_absorb s = true /\ sp s = S6 /\ v s k = 1 /\ v s bad = 0.
Proof.
  exists [PT TU0; PT TU1; PT TU2; PB PSendStart; PB PSendLock; PB PS; PB PS; PT TDereg].
  vm_compute. repeat split.
Qed.

(* (b) a positive Add that does not take the read lock: it can add to an armed word, and then itself panics
   ("receivers != tracker"); the Send's final validation (hi <= receivers) panics as well. *)
Definition no_rlock : flags := {| fl_absorb := true; fl_rlock := false |}.
Theorem no_rlock_refuted :
  exists sched, let s := run_gen no_rlock (init 1 1) sched in v s bad = 1.
Proof.
  exists [PB PU0; PB PU1; PB PSendStart; PB PSendLock; PB PS; PB PS; PT TU0; PT TU1].
  vm_compute. reflexivity.
Qed.
(* the same schedules are harmless for the code as written *)
Example no_rlock_schedule_is_fine_with_lock :
  let s := run (init 1 1) [PB PU0; PB PU1; PB PSendStart; PB PSendLock; PB PS; PB PS; PT TU0; PT TU1] in
  v s bad = 0 /\ tpc (tg s) = TA0.
Proof. vm_compute. split; reflexivity. Qed.

Print Assumptions Inv_step.
Print Assumptions no_false_panic_no_steal.
Print Assumptions send_return_exact.
Print Assumptions total_delivery.
Print Assumptions tagged_exact_delivery.
Print Assumptions tagged_at_most_once.
Print Assumptions rlock_blocked.
Print Assumptions nobody_inside_add.
Print Assumptions uncounted_gets_nothing.
Print Assumptions late_registration_stable.
Print Assumptions dereg_uncounted.
Print Assumptions dereg_counted.
Print Assumptions absorb_exactly_one.
Print Assumptions tagged_dereg.
Print Assumptions quiescent_all_returned.
Print Assumptions terminal_all_returned.
Print Assumptions step_decreases.
Print Assumptions no_absorb_deadlock_refuted.
Print Assumptions no_rlock_refuted.
