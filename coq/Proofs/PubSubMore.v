(* More about the tagged-subscriber model (Model/PubSubTag.v), closing two gaps of Proofs/PubSubTag.v:

   1. [standing_included] there has the ghost hypothesis [towed t = true] ("the running Send counted the tagged subscription").
      Here that hypothesis is DERIVED: the invariant [EInv] ties [towed] to the two history counters [tsub] (value of [round] when
      the tagged subscriber incremented `subscribers`) and [round] (number of Sends that have counted so far): a subscription
      that incremented `subscribers` before the latest count ([tsub t < round t]) and is still standing has [towed t = true].
        established_included              tsub < round, standing, Send past delivery  =>  newest receipt = this round
        established_before_count_included the same without any ghost in the hypotheses, over a split schedule pre ++ post:
                                          standing after [pre], at least one count in [post], standing at the end.
        established_counted_during_delivery   during delivery such a subscription is waiting for its copy or has it.
   2. The fast path: [subscribers = 0] really means that there is no subscription a Send could miss. *)
From Coq Require Import List Arith Lia Bool ZifyBool.
From BB.Model Require Import PubSubAbs PubSubTag.
From BB.Proofs Require Import PubSubAbs PubSubTag.
Import ListNotations.
Arguments Nat.sub : simpl never. Arguments Nat.ltb : simpl never. Arguments Nat.leb : simpl never.
Arguments Nat.eqb : simpl never. Arguments Nat.mul : simpl never. Arguments Nat.add : simpl never.

(* ------------------------------------------------------------------------------------------------------- *)
(* The invariant linking [towed] to [tsub] and [round]                                                       *)

Definition EInv (t : tst) : Prop :=
  match tp t with
  | u2 => tsub t = round t                      (* holding the read lock: no Send can count *)
  | b0n => towed t = false -> tsub t = round t  (* idle and not counted by any round since it subscribed *)
  | _ => True
  end.

Lemma EInv_init : forall senders others, EInv (tinit senders others).
Proof. intros a b. exact I. Qed.

Lemma EInv_step : forall t q t', Inv (base t) -> TInv t -> EInv t -> tstep t q = Some t' -> EInv t'.
Proof.
  intros [[c f] x rd ow ts lg] q t' HI (T1 & T2 & T3 & T4 & T5 & T6) HE Hq.
  cbn [base tp round towed tsub tlog v sp] in *. unfold EInv in HE. cbn [tp round towed tsub] in HE.
  unfold tstep, tstep_gen in Hq. cbn [base tp round towed tsub tlog] in Hq.
  change {| sp := c; v := f |} with (mk c f) in *.
  destruct q as [p|p].
  - destruct (step_gen good_flags (mk c f) p) as [b'|] eqn:Hb; [|discriminate Hq]. fold (step (mk c f) p) in Hb.
    destruct (src p) as [a|] eqn:Ha.
    + destruct (pos _); [|discriminate Hq]. injection Hq as <-. exact HE.
    + destruct (is_count (mk c f) p) eqn:Hc; injection Hq as <-; unfold EInv; cbn [tp round towed tsub]; [|exact HE].
      (* the count *)
      destruct (count_keeps_thread c f p b' x Hc Hb T1) as (_ & _ & -> & _).
      destruct HI as (HC & HL & _). cbn [sp v mk] in HC, HL. unfold common, lock_inv in *.
      destruct x; cbn [relabel]; try exact I. exfalso. lia.
  - destruct (src p) as [a|] eqn:Ha; [|discriminate Hq].
    destruct (var_beq x a) eqn:Hx; [|discriminate Hq].
    destruct (step_gen good_flags (mk c f) p) as [b'|] eqn:Hb; [|discriminate Hq].
    injection Hq as <-. unfold EInv. cbn [tp round towed tsub v mk].
    destruct p; try discriminate Ha; injection Ha as <-; destruct x; try discriminate Hx; cbn [dst fl_route good_flags];
      repeat match goal with |- context [if ?b then _ else _] => destruct b end; try exact I.
    + (* PU1 *) reflexivity.
    + (* PU2 *) intros _. exact HE.
    + (* PWait *) intros Hw. destruct T6 as (Hw' & _). congruence.
Qed.

Lemma EInv_run_from : forall sched t, Inv (base t) -> TInv t -> EInv t -> EInv (trun t sched).
Proof.
  induction sched as [|q rest IH]; intros t HI HT HE; [exact HE|].
  unfold trun in *. cbn [trun_gen]. fold (tstep t q).
  destruct (tstep t q) as [t'|] eqn:Hq; [|apply IH; assumption].
  apply IH; [eapply Inv_step; [exact HI | eapply tstep_base; exact Hq] | eapply TInv_step; eassumption
            | eapply EInv_step; eassumption].
Qed.

Lemma EInv_run : forall senders others sched, EInv (trun (tinit senders others) sched).
Proof. intros a b sched. apply EInv_run_from; [apply Inv_init | apply TInv_init | apply EInv_init]. Qed.

(* The derived fact: established before the latest count and still standing => counted by it. *)
Theorem established_is_counted : forall senders others sched,
  let t := trun (tinit senders others) sched in
  standing (tp t) = true -> tsub t < round t -> towed t = true.
Proof.
  intros a b sched t Hs Hlt.
  destruct (tagged_inv a b sched) as (_ & (_ & _ & _ & _ & _ & T6)). pose proof (EInv_run a b sched) as HE.
  fold t in T6, HE. unfold EInv in HE.
  destruct (tp t); try discriminate Hs.
  - apply T6.
  - destruct (towed t); [reflexivity | specialize (HE eq_refl); lia].
  - apply T6.
Qed.

(* Every subscription established (its `subscribers` increment made) before the Send counted, and not withdrawn (Add(-1) not
   invoked) when that Send is past delivery, has this round as its newest receipt.  No ghost hypothesis: [tsub] and [round] are
   plain history counters of the model (set at PU1 and at the count). *)
Theorem established_included : forall senders others sched,
  let t := trun (tinit senders others) sched in
  (sp (base t) = S8 \/ sp (base t) = S9 \/ sp (base t) = S10) ->
  standing (tp t) = true -> tsub t < round t ->
  hd_error (tlog t) = Some (round t).
Proof.
  intros a b sched t Hc Hs Hlt.
  apply (standing_included a b sched Hc); [apply (established_is_counted a b sched Hs Hlt) | exact Hs].
Qed.

Theorem established_counted_during_delivery : forall senders others sched,
  let t := trun (tinit senders others) sched in
  (sp (base t) = S5 \/ sp (base t) = S6 \/ sp (base t) = S7) -> standing (tp t) = true ->
  tsub t < round t /\ (tp t = b0o \/ (tp t = b1 /\ hd_error (tlog t) = Some (round t))).
Proof.
  intros a b sched t Hc Hs.
  destruct (counted_during_delivery a b sched Hc Hs) as (Hw & Hcase). fold t in Hw, Hcase.
  split; [|exact Hcase].
  destruct (tagged_inv a b sched) as (_ & (_ & _ & _ & T4 & _ & T6)). fold t in T4, T6.
  destruct Hcase as [E | [E Hhd]]; rewrite E in T6.
  - apply T6.
  - destruct (tlog t) as [|n rest]; [discriminate Hhd|]. cbn in Hhd. injection Hhd as ->.
    inversion T4 as [|? ? Hn _]. lia.
Qed.

(* ------------------------------------------------------------------------------------------------------- *)
(* The same over a split schedule, with no ghost in the hypotheses                                           *)

Lemma trun_app : forall s1 s2 t, trun t (s1 ++ s2) = trun (trun t s1) s2.
Proof.
  induction s1 as [|q rest IH]; intros s2 t; [reflexivity|].
  unfold trun in *. cbn [app trun_gen]. apply IH.
Qed.

Definition subscribed_pc (x : var) : bool := match x with u0 | u1 => false | _ => true end.

(* once the tagged subscriber has made its increment, [tsub] is never written again; [round] never decreases *)
Lemma tsub_stable_step : forall t q t', tstep t q = Some t' -> subscribed_pc (tp t) = true ->
  tsub t' = tsub t /\ subscribed_pc (tp t') = true /\ round t <= round t'.
Proof.
  intros [[c f] x rd ow ts lg] q t' Hq Hx. cbn [tp tsub round] in *.
  unfold tstep, tstep_gen in Hq. cbn [base tp round towed tsub tlog] in Hq.
  destruct q as [p|p].
  - destruct (step_gen good_flags _ p) as [b'|]; [|discriminate Hq].
    destruct (src p) as [a|].
    + destruct (pos _); [|discriminate Hq]. injection Hq as <-. cbn [tp tsub round]. auto.
    + destruct (is_count _ p); injection Hq as <-; cbn [tp tsub round]; (split; [reflexivity|split; [|lia]]);
        [destruct x; try discriminate Hx; reflexivity | exact Hx].
  - destruct (src p) as [a|] eqn:Ha; [|discriminate Hq].
    destruct (var_beq x a) eqn:Hxa; [|discriminate Hq].
    destruct (step_gen good_flags _ p) as [b'|]; [|discriminate Hq]. injection Hq as <-. cbn [tp tsub round v].
    destruct p; try discriminate Ha; injection Ha as <-; destruct x; try discriminate Hxa; try discriminate Hx;
      cbn [dst fl_route good_flags]; (split; [reflexivity|split; [|lia]]);
      repeat match goal with |- context [if ?b then _ else _] => destruct b end; reflexivity.
Qed.

Lemma tsub_stable_run : forall sched t, subscribed_pc (tp t) = true ->
  tsub (trun t sched) = tsub t /\ round t <= round (trun t sched).
Proof.
  induction sched as [|q rest IH]; intros t Hx; [unfold trun; cbn [trun_gen]; split; [reflexivity | lia]|].
  unfold trun in *. cbn [trun_gen]. fold (tstep t q).
  destruct (tstep t q) as [t'|] eqn:Hq; [|apply IH, Hx].
  destruct (tsub_stable_step t q t' Hq Hx) as (E & Hx' & Hr). destruct (IH t' Hx') as (E' & Hr'). split; [congruence | lia].
Qed.

(* Run [pre]: the tagged subscription is established (Add(+1) returned, Add(-1) not invoked).  Run [post], in which at least
   one Send takes its count (the round number grows); at the end that Send is past delivery and the subscription has still not
   invoked Add(-1).  Then the subscription's newest receipt is this Send's message. *)
Theorem established_before_count_included : forall senders others pre post,
  let t1 := trun (tinit senders others) pre in
  let t2 := trun t1 post in
  standing (tp t1) = true ->
  round t1 < round t2 ->
  (sp (base t2) = S8 \/ sp (base t2) = S9 \/ sp (base t2) = S10) ->
  standing (tp t2) = true ->
  hd_error (tlog t2) = Some (round t2).
Proof.
  intros a b pre post t1 t2 Hs1 Hr Hc Hs2.
  assert (Hsub : subscribed_pc (tp t1) = true) by (destruct (tp t1); try discriminate Hs1; reflexivity).
  destruct (tsub_stable_run post t1 Hsub) as (E & _). fold t2 in E.
  destruct (tagged_inv a b pre) as (_ & (_ & _ & _ & _ & T5 & _)). fold t1 in T5.
  assert (Ht2 : t2 = trun (tinit a b) (pre ++ post)) by (unfold t2, t1; rewrite trun_app; reflexivity).
  rewrite Ht2 in *. apply established_included; [exact Hc | exact Hs2 | lia].
Qed.

(* ------------------------------------------------------------------------------------------------------- *)
(* The fast path is correct: subscribers = 0 => nobody is subscribed                                         *)

(* no thread is between its `subscribers` increment and its `subscribers` decrement *)
Lemma zero_subscribers_nobody_subscribed : forall s, Inv s -> v s subs = 0 ->
  v s u2 = 0 /\ v s b0o = 0 /\ v s b0n = 0 /\ v s b1 = 0 /\ v s n1o = 0 /\ v s n1n = 0 /\
  v s n2ko = 0 /\ v s n2kn = 0 /\ v s n2fo = 0 /\ v s n2fn = 0.
Proof.
  intros [c f] (HC & _ & _) Hz. cbn [sp v] in *. unfold common in HC. repeat split; lia.
Qed.

Theorem zero_subscribers_nobody_subscribed_run : forall senders subscribers sched,
  let s := run (init senders subscribers) sched in
  v s subs = 0 -> v s b0o = 0 /\ v s b0n = 0 /\ v s b1 = 0.
Proof.
  intros a b sched s Hz. destruct (zero_subscribers_nobody_subscribed s (Inv_run a b sched) Hz) as (_ & A & B & C & _).
  auto.
Qed.

(* ... in particular the tracked (arbitrary) subscription is not standing *)
Theorem zero_subscribers_not_standing : forall senders others sched,
  let t := trun (tinit senders others) sched in
  v (base t) subs = 0 -> standing (tp t) = false.
Proof.
  intros a b sched t Hz. destruct (tagged_inv a b sched) as (HI & (_ & T2 & _)). fold t in HI, T2.
  destruct (zero_subscribers_nobody_subscribed (base t) HI Hz) as (_ & A & B & C & _).
  destruct (tp t); try reflexivity; lia.
Qed.

(* ------------------------------------------------------------------------------------------------------- *)
(* Non-vacuity                                                                                               *)

(* the late joiner of Proofs/PubSubTag.tagged_late_joiner: subscribed during the acknowledgement phase of round 1
   (tsub = round = 1: NOT established before that count, and indeed it has nothing), then counted by round 2 *)
Definition pre_late : list tpick :=
  [Anon PU0; Anon PU1; Anon PU2; Anon PSendStart; Anon PSendLock; Anon PS; Anon PS; Anon PS; Anon PS; Anon PRecvO;
   Anon PS; Anon PS; Anon PS; Anon PS; Tag PU0; Tag PU1; Tag PU2].
Definition post_late : list tpick :=
  [Anon PWait; Anon PS; Anon PSendStart; Anon PSendLock; Anon PS; Anon PS; Anon PS; Anon PS; Tag PRecvO; Anon PRecvO;
   Anon PS; Anon PS; Anon PS].

Example established_hyps_satisfiable :
  let t1 := trun (tinit 2 1) pre_late in
  let t2 := trun t1 post_late in
  sp (base t1) = S10 /\ standing (tp t1) = true /\ tsub t1 = 1 /\ round t1 = 1 /\ tlog t1 = [] /\
  round t2 = 2 /\ sp (base t2) = S9 /\ standing (tp t2) = true /\ tsub t2 < round t2 /\ tlog t2 = [2].
Proof. vm_compute. repeat split; lia. Qed.

(* the hypothesis tsub < round cannot be dropped: t1 above is standing at S10 with an empty log *)
Example established_needs_tsub_lt_round :
  let t1 := trun (tinit 2 1) pre_late in
  sp (base t1) = S10 /\ standing (tp t1) = true /\ hd_error (tlog t1) <> Some (round t1).
Proof. vm_compute. repeat split. discriminate. Qed.

Print Assumptions established_is_counted.
Print Assumptions established_included.
Print Assumptions established_counted_during_delivery.
Print Assumptions established_before_count_included.
Print Assumptions zero_subscribers_nobody_subscribed.
Print Assumptions zero_subscribers_nobody_subscribed_run.
Print Assumptions zero_subscribers_not_standing.
