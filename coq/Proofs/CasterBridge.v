(* The bridge between the state word (Model/Caster.v) and the protocol's (cnt, armed) (Model/CasterAbs.v), see
   Model/CasterBridge.v for the definitions.

   1. word_of / absw are inverse on valid words (absw_word_of, word_of_absw), word_of n a = 0 iff n = 0, a = 0.
   2. One commuting equation per word operation a protocol step performs (wadd_ok with ANY delta, and its +-1
      instances; wadd_pos_armed_panics; wadd_neg_zero_panics; wsend_begin_*; wsend_end_*; wsend_cas).
   3. cstep_word_refines: for EVERY step of the protocol, running the operation of Model/Caster.v that the step
      stands for on the word of the pre-state panics iff the step raises the protocol's [bad] flag, and otherwise
      yields exactly the word of the post-state.
   4. word_tracks_run: along every schedule from the initial state, the real word driven only by the operations of
      Model/Caster.v is, at every point, word_of (cnt, armed), and none of those operations panics (for fewer than
      MaxInt32 receivers). *)
From Coq Require Import List ZArith Lia Bool ZifyBool Arith.
From BB.Model Require Import Caster CasterBridge.
From BB.Model Require CasterAbs.
From BB.Proofs Require Import Caster.
From BB.Proofs Require CasterAbs.
Import ListNotations.
Module MA := BB.Model.CasterAbs.
Module PA := BB.Proofs.CasterAbs.
Local Open Scope Z_scope.
Ltac Zify.zify_post_hook ::= Z.div_mod_to_equations.
Arguments Nat.sub : simpl never.

(* ---------------------------------------------------------------------------------------------------------- *)
(* 1. the abstraction                                                                                         *)

Definition off (a : nat) : Z := if Nat.eqb a 0 then 0 else maxi.

Lemma word_of_eq n a : word_of n a = mkword (Z.of_nat n) (Z.of_nat n + off a).
Proof. reflexivity. Qed.

Lemma off_0 : off 0 = 0.  Proof. reflexivity. Qed.
Lemma off_1 : off 1 = maxi.  Proof. reflexivity. Qed.
Lemma eqb00 : Nat.eqb 0 0 = true.  Proof. reflexivity. Qed.
Lemma eqb10 : Nat.eqb 1 0 = false.  Proof. reflexivity. Qed.
Ltac nred := rewrite ?off_0, ?off_1, ?eqb00, ?eqb10.

Lemma off_range a : 0 <= off a <= maxi.
Proof. unfold off. destruct (Nat.eqb a 0); consts; lia. Qed.

Lemma word_of_parts n a : Z.of_nat n <= maxi ->
  hi (word_of n a) = Z.of_nat n /\ lo (word_of n a) = Z.of_nat n + off a /\ 0 <= word_of n a < two64.
Proof.
  intros Hn. rewrite word_of_eq. pose proof (off_range a) as Ho.
  assert (Hl : 0 <= Z.of_nat n + off a < two32) by (revert Hn Ho; consts; lia).
  assert (Hh : 0 <= Z.of_nat n < two32) by (revert Hn; consts; lia).
  rewrite hi_mkword, lo_mkword by assumption. repeat split; try apply mkword_range; assumption.
Qed.

Lemma word_of_valid n a : Z.of_nat n <= maxi -> valid (word_of n a).
Proof.
  intros Hn. destruct (word_of_parts n a Hn) as (H1 & H2 & _). unfold valid. rewrite H1, H2.
  unfold off. destruct (Nat.eqb a 0); lia.
Qed.

Lemma word_of_armed n a : Z.of_nat n <= maxi -> (armed (word_of n a) <-> a <> 0%nat).
Proof.
  intros Hn. destruct (word_of_parts n a Hn) as (H1 & H2 & _). unfold armed. rewrite H1, H2.
  unfold off. destruct (Nat.eqb a 0) eqn:E; consts; lia.
Qed.

Theorem absw_word_of n a : (a <= 1)%nat -> Z.of_nat n <= maxi -> absw (word_of n a) = (n, a).
Proof.
  intros Ha Hn. destruct (word_of_parts n a Hn) as (H1 & H2 & _). unfold absw. rewrite H1, H2.
  rewrite Nat2Z.id. f_equal. unfold off. destruct (Nat.eqb a 0) eqn:E.
  - replace (Z.of_nat n + 0 =? Z.of_nat n + maxi) with false by (consts; lia). lia.
  - rewrite Z.eqb_refl. lia.
Qed.

Theorem word_of_absw x : 0 <= x < two64 -> valid x -> word_of (fst (absw x)) (snd (absw x)) = x.
Proof.
  intros Hx [Hv1 Hv2]. pose proof (hi_range x Hx) as Hh. pose proof (lo_range x) as Hl.
  unfold absw. cbn [fst snd]. rewrite word_of_eq, Z2Nat.id by lia. rewrite (word_split x) at 5.
  f_equal. unfold off. destruct (lo x =? hi x + maxi) eqn:E; nred; lia.
Qed.

Lemma absw_armed_le x : (snd (absw x) <= 1)%nat.
Proof. unfold absw. cbn [snd]. destruct (lo x =? hi x + maxi); lia. Qed.

(* the fast path of Send, `x.state.Load() == 0`, is the protocol's test (cnt = 0) && (armed = 0) *)
Theorem word_of_zero n a : Z.of_nat n <= maxi -> (word_of n a = 0 <-> n = 0%nat /\ a = 0%nat).
Proof.
  intros Hn. pose proof (off_range a) as Ho. rewrite word_of_eq. unfold mkword. split.
  - intros H. assert (Hz : Z.of_nat n = 0 /\ off a = 0) by (revert H Hn Ho; consts; lia).
    split; [lia|]. unfold off in Hz. destruct (Nat.eqb a 0) eqn:E; [lia|]. revert Hz; consts; lia.
  - intros [-> ->]. reflexivity.
Qed.

Lemma word_of_inj n a n' a' : (a <= 1)%nat -> (a' <= 1)%nat -> Z.of_nat n <= maxi -> Z.of_nat n' <= maxi ->
  word_of n a = word_of n' a' -> n = n' /\ a = a'.
Proof.
  intros Ha Ha' Hn Hn' E. pose proof (absw_word_of n a Ha Hn) as H1. rewrite E, absw_word_of in H1 by assumption.
  injection H1 as -> ->. split; reflexivity.
Qed.

(* ---------------------------------------------------------------------------------------------------------- *)
(* 2. one equation per word operation                                                                         *)

(* Add(delta), any delta, on a word the protocol can be in: count moves by delta, armedness is kept, the count is
   returned, and -delta receives are owed iff armed *)
Theorem wadd_ok n a d : (a <= 1)%nat -> Z.of_nat n <= maxi -> - maxi <= d <= maxi ->
  0 <= Z.of_nat n + d <= maxi -> (a = 1%nat -> d <= 0) ->
  add (word_of n a) d
  = (word_of (Z.to_nat (Z.of_nat n + d)) a, AddRet (Z.of_nat n + d) (if Nat.eqb a 0 then 0 else - d)).
Proof.
  intros Ha Hn Hd Hs Hp. pose proof (off_range a) as Ho. rewrite !word_of_eq.
  assert (Hl : 0 <= Z.of_nat n + off a < two32) by (revert Hn Ho; consts; lia).
  assert (Hh : 0 <= Z.of_nat n < two32) by (revert Hn; consts; lia).
  destruct (add_spec (Z.of_nat n) (Z.of_nat n + off a) d Hh Hl) as [HG _].
  rewrite HG.
  - rewrite Z2Nat.id by lia. f_equal; [f_equal; lia|]. f_equal.
    unfold off. destruct (Nat.eqb a 0) eqn:E.
    + replace (Z.of_nat n + 0 =? Z.of_nat n) with true by lia. reflexivity.
    + replace (Z.of_nat n + maxi =? Z.of_nat n) with false by (consts; lia). reflexivity.
  - unfold good. unfold off in *. destruct (Nat.eqb a 0) eqn:E; [lia|].
    assert (a = 1%nat) by lia. lia.
Qed.

Corollary wadd_plus1 n : Z.of_nat n < maxi ->
  add (word_of n 0) 1 = (word_of (S n) 0, AddRet (Z.of_nat (S n)) 0).
Proof.
  intros Hn. rewrite wadd_ok by (consts; lia). nred.
  replace (Z.to_nat (Z.of_nat n + 1)) with (S n) by lia. do 2 f_equal. lia.
Qed.

Corollary wadd_minus1 n a : (a <= 1)%nat -> Z.of_nat n < maxi ->
  add (word_of (S n) a) (-1) = (word_of n a, AddRet (Z.of_nat n) (if Nat.eqb a 0 then 0 else 1)).
Proof.
  intros Ha Hn. rewrite wadd_ok by (consts; lia).
  replace (Z.to_nat (Z.of_nat (S n) + -1)) with n by lia. do 2 f_equal. lia.
Qed.

(* a positive Add on an armed word panics - after having moved the word *)
Theorem wadd_pos_armed_panics n : Z.of_nat n < maxi -> add (word_of n 1) 1 = (word_of (S n) 1, AddPanic).
Proof.
  intros Hn. destruct (word_of_parts n 1 ltac:(lia)) as (H1 & H2 & H3).
  rewrite (surjective_pairing (add (word_of n 1) 1)). f_equal.
  - rewrite add_word by assumption. replace ((- maxi <=? 1) && (1 <=? maxi)) with true by (consts; lia).
    rewrite !word_of_eq. nred. unfold mkword. revert Hn; consts; lia.
  - apply (add_spec_word _ 1 H3). unfold good_word. rewrite H1, H2. nred. consts; lia.
Qed.

(* Add(-1) at count 0 panics (the `maxReceivers-receivers >= delta` test, after the subtraction wrapped) *)
Theorem wadd_neg_zero_panics a : snd (add (word_of 0 a) (-1)) = AddPanic.
Proof.
  destruct (word_of_parts 0 a ltac:(consts; lia)) as (H1 & _ & H3).
  apply add_oob_panics; [assumption|]. rewrite H1. lia.
Qed.

Theorem wsend_begin_zero : send_begin (word_of 0 0) = (word_of 0 0, SbZero).
Proof. reflexivity. Qed.

Theorem wsend_begin_arms n : (0 < n)%nat -> Z.of_nat n <= maxi ->
  send_begin (word_of n 0) = (word_of n 1, SbArmed (Z.of_nat n)).
Proof.
  intros Hp Hn. destruct (word_of_parts n 0 Hn) as (H1 & H2 & H3).
  destruct (send_begin_spec _ H3) as (_ & HA & _). rewrite HA.
  - rewrite H1. reflexivity.
  - intros E. apply word_of_zero in E; lia.
  - rewrite H1, H2. nred. lia.
  - lia.
Qed.

Theorem wsend_begin_armed_panics n : Z.of_nat n <= maxi -> send_begin (word_of n 1) = (word_of n 1, SbPanic).
Proof.
  intros Hn. destruct (word_of_parts n 1 Hn) as (H1 & H2 & H3).
  destruct (send_begin_spec _ H3) as (_ & _ & HP). apply HP.
  - intros E. apply word_of_zero in E; lia.
  - rewrite H1, H2. nred. consts; lia.
Qed.

Theorem wsend_end_ok r n : 0 <= r <= maxi -> Z.of_nat n <= r -> send_end r (word_of n 1) = (0, SeRet (Z.of_nat n)).
Proof.
  intros Hr Hn. destruct (word_of_parts n 1 ltac:(lia)) as (H1 & H2 & H3).
  destruct (send_end_spec r _ Hr H3) as [HO _]. rewrite HO; [rewrite H1; reflexivity|].
  rewrite H1, H2. nred. lia.
Qed.

Theorem wsend_end_panics r n a : 0 <= r <= maxi -> Z.of_nat n <= maxi -> a = 0%nat \/ r < Z.of_nat n ->
  send_end r (word_of n a) = (word_of n a, SePanic).
Proof.
  intros Hr Hn Hc. destruct (word_of_parts n a Hn) as (H1 & H2 & H3).
  destruct (send_end_spec r _ Hr H3) as [_ HP]. apply HP. rewrite H1, H2.
  destruct Hc as [-> | Hc]; [nred; consts|]; lia.
Qed.

(* the final CAS: it succeeds iff the word found is the armed word loaded at S7, i.e. iff the count is still the
   loaded one and the word is still armed - the protocol's test at S7c *)
Theorem wsend_cas r m n a : 0 <= r <= maxi -> Z.of_nat m <= r -> (a <= 1)%nat -> Z.of_nat n <= maxi ->
  send_end_cas r (word_of m 1) (word_of n a)
  = if (Nat.eqb n m && Nat.eqb a 1)%bool then (0, SeRet (Z.of_nat m)) else (word_of n a, SePanic).
Proof.
  intros Hr Hm Ha Hn. destruct (word_of_parts m 1 ltac:(lia)) as (H1 & H2 & H3).
  destruct (send_end_cas_spec r (word_of m 1) (word_of n a) Hr H3) as [HO HP].
  destruct (Nat.eqb n m && Nat.eqb a 1)%bool eqn:E.
  - assert (n = m /\ a = 1%nat) as [-> ->] by lia. rewrite HO; [rewrite H1; reflexivity|].
    rewrite H1, H2. nred. repeat split; lia.
  - apply HP. intros (_ & _ & E'). apply word_of_inj in E'; try lia.
Qed.

(* The same read from the word's side: for ANY valid 64-bit word [x] (absw x = (n, a)), what the operations used by
   the protocol's steps do, in the protocol's terms. *)

Lemma valid_absw x : 0 <= x < two64 -> valid x ->
  x = word_of (fst (absw x)) (snd (absw x)) /\ Z.of_nat (fst (absw x)) = hi x /\ hi x <= maxi /\
  (snd (absw x) <= 1)%nat.
Proof.
  intros Hx Hv. pose proof (hi_range x Hx) as Hh. split; [symmetry; apply word_of_absw; assumption|].
  unfold absw. cbn [fst snd]. rewrite Z2Nat.id by lia. destruct Hv as [Hv _].
  repeat split; try lia. destruct (lo x =? hi x + maxi); lia.
Qed.

(* Add(-1): panics iff the count is 0; otherwise the count drops by one, armedness is kept, the new count is
   returned and exactly one receive is owed iff the word is armed (the protocol's [dereg]) *)
Theorem add_minus1_on_valid x : 0 <= x < two64 -> valid x ->
  (hi x = 0 -> snd (add x (-1)) = AddPanic) /\
  (0 < hi x -> add x (-1) = (word_of (fst (absw x) - 1) (snd (absw x)),
                              AddRet (hi x - 1) (Z.of_nat (snd (absw x))))).
Proof.
  intros Hx Hv. destruct (valid_absw x Hx Hv) as (E & Hn & Hm & Ha).
  set (n := fst (absw x)) in *. set (a := snd (absw x)) in *. split.
  - intros H0. rewrite E. replace n with 0%nat by lia. apply wadd_neg_zero_panics.
  - intros Hp. rewrite E at 1. destruct n as [|m]; [lia|].
    rewrite wadd_minus1 by lia. replace (S m - 1)%nat with m by lia. do 2 f_equal; [lia|].
    destruct a as [|[|a]]; [reflexivity|reflexivity|lia].
Qed.

(* Add(+1): on an unarmed word below MaxInt32 the count grows by one and is returned; on an armed word the Add
   panics after having moved the word (the protocol's PU1) *)
Theorem add_plus1_on_valid x : 0 <= x < two64 -> valid x -> hi x < maxi ->
  (snd (absw x) = 0%nat -> add x 1 = (word_of (S (fst (absw x))) 0, AddRet (hi x + 1) 0)) /\
  (snd (absw x) = 1%nat -> add x 1 = (word_of (S (fst (absw x))) 1, AddPanic)).
Proof.
  intros Hx Hv Hlt. destruct (valid_absw x Hx Hv) as (E & Hn & Hm & Ha).
  set (n := fst (absw x)) in *. set (a := snd (absw x)) in *. split; intros Ea; rewrite E at 1; rewrite Ea.
  - rewrite wadd_plus1 by lia. do 2 f_equal. lia.
  - apply wadd_pos_armed_panics. lia.
Qed.

(* Send up to the arming CAS: returns 0 iff count 0 and unarmed; arms an unarmed word with count > 0 (same count,
   `receivers` = the count); panics on an armed word (the protocol's S4) *)
Theorem send_begin_on_valid x : 0 <= x < two64 -> valid x ->
  (fst (absw x) = 0%nat -> snd (absw x) = 0%nat -> send_begin x = (x, SbZero)) /\
  ((0 < fst (absw x))%nat -> snd (absw x) = 0%nat ->
     send_begin x = (word_of (fst (absw x)) 1, SbArmed (hi x))) /\
  (snd (absw x) = 1%nat -> send_begin x = (x, SbPanic)).
Proof.
  intros Hx Hv. destruct (valid_absw x Hx Hv) as (E & Hn & Hm & Ha).
  set (n := fst (absw x)) in *. set (a := snd (absw x)) in *. repeat split.
  - intros En Ea. rewrite E, En, Ea. apply wsend_begin_zero.
  - intros En Ea. rewrite E at 1. rewrite Ea. rewrite wsend_begin_arms by lia. rewrite Hn. reflexivity.
  - intros Ea. rewrite E, Ea. apply wsend_begin_armed_panics. lia.
Qed.

(* Send's final load + validation + CAS, [r] the `receivers` it armed with, [xl] the word loaded, [xc] the word the
   CAS finds: it returns iff the loaded word is armed with a count <= r (the protocol's S7) and the word found has
   the same count and is still armed (the protocol's S7c); it then returns the count and leaves the word 0 *)
Theorem send_end_on_valid r xl xc : 0 <= r <= maxi -> 0 <= xl < two64 -> valid xl -> 0 <= xc < two64 -> valid xc ->
  send_end_cas r xl xc =
  if ((fst (absw xl) <=? Z.to_nat r)%nat && Nat.eqb (snd (absw xl)) 1 &&
      Nat.eqb (fst (absw xc)) (fst (absw xl)) && Nat.eqb (snd (absw xc)) 1)%bool
  then (0, SeRet (hi xl)) else (xc, SePanic).
Proof.
  intros Hr Hxl Hvl Hxc Hvc.
  destruct (valid_absw xl Hxl Hvl) as (El & Hnl & Hml & Hal).
  destruct (valid_absw xc Hxc Hvc) as (Ec & Hnc & Hmc & Hac).
  set (nl := fst (absw xl)) in *. set (al := snd (absw xl)) in *.
  set (nc := fst (absw xc)) in *. set (ac := snd (absw xc)) in *.
  destruct ((nl <=? Z.to_nat r)%nat && Nat.eqb al 1)%bool eqn:E1.
  - assert (al = 1%nat /\ Z.of_nat nl <= r) as [Ea Hle] by lia.
    rewrite El at 1. rewrite Ec at 1. rewrite Ea. rewrite wsend_cas by lia.
    cbn [andb]. rewrite Hnl. rewrite <- Ec. reflexivity.
  - cbn [andb].
    destruct (send_end_cas_spec r xl xc Hr Hxl) as [_ HP]. apply HP. intros (A & B & _).
    destruct (word_of_parts nl al ltac:(lia)) as (P1 & P2 & _). rewrite <- El in P1, P2.
    assert (al = 1%nat).
    { unfold off in P2. destruct (Nat.eqb al 0) eqn:E0; [revert B P2 P1; consts; lia|lia]. }
    lia.
Qed.

(* ---------------------------------------------------------------------------------------------------------- *)
(* 3. every protocol step commutes with the word operation it stands for                                       *)

Ltac brk_hyp H :=
  repeat match type of H with
         | (if ?b then _ else _) = _ => let E := fresh "E" in destruct b eqn:E; try discriminate H
         end.
Ltac red_set := cbn [MA.set MA.var_beq].

Definition panicked_of (f' : MA.var -> nat) : bool := negb (Nat.eqb (f' MA.bad) 0).

Lemma wnone_case (f f' : MA.var -> nat) :
  f' MA.bad = f MA.bad -> f' MA.cnt = f MA.cnt -> f' MA.armed = f MA.armed -> f MA.bad = 0%nat ->
  let r := wexec WNone (word_of (f MA.cnt) (f MA.armed)) in
  snd r = panicked_of f' /\ (f' MA.bad = 0%nat -> fst r = word_of (f' MA.cnt) (f' MA.armed)).
Proof.
  intros Hb Hc Ha H0. cbn [wexec fst snd]. unfold panicked_of. rewrite Hb, Hc, Ha, H0. split; reflexivity.
Qed.

Theorem cstep_word_refines : forall c f p e c' f',
  MA.cstep MA.good c f p = Some (e, c', f') ->
  f MA.bad = 0%nat -> (f MA.armed <= 1)%nat -> Z.of_nat (f MA.cnt) < maxi ->
  (c = MA.S7 \/ c = MA.S7c -> Z.of_nat (f MA.reg0) <= maxi) ->
  (c = MA.S7c -> (f MA.ret <= f MA.reg0)%nat) ->
  let r := wexec (wop_of c f p) (word_of (f MA.cnt) (f MA.armed)) in
  snd r = panicked_of f' /\ (f' MA.bad = 0%nat -> fst r = word_of (f' MA.cnt) (f' MA.armed)).
Proof.
  intros c f p e c' f' Hs H0 Ha Hc Hr Hret.
  unfold MA.cstep, MA.dereg, MA.mk, MA.pos, MA.rlockable in Hs. cbn [MA.fl_absorb MA.fl_rlock MA.good] in Hs.
  destruct p.
  - (* PSendStart *) brk_hyp Hs; injection Hs as <- <- <-; apply wnone_case; red_set; auto.
  - (* PSendLock *) destruct c; try discriminate Hs. brk_hyp Hs; injection Hs as <- <- <-; apply wnone_case; red_set; auto.
  - (* PS *)
    destruct c; try discriminate Hs.
    + (* S3 *) brk_hyp Hs; injection Hs as <- <- <-; apply wnone_case; red_set; auto.
    + (* S4 *) cbn [wop_of wexec]. unfold panicked_of.
      brk_hyp Hs; injection Hs as <- <- <-; red_set.
      * assert (f MA.cnt = 0%nat /\ f MA.armed = 0%nat) as [Ec Ea] by lia. rewrite Ec, Ea, H0.
        rewrite wsend_begin_zero. split; reflexivity.
      * assert (Ea : f MA.armed = 0%nat) by lia. rewrite Ea, H0.
        rewrite wsend_begin_arms by lia. split; reflexivity.
      * assert (Ea : f MA.armed = 1%nat) by lia. rewrite Ea.
        rewrite wsend_begin_armed_panics by lia. split; [reflexivity|discriminate].
    + (* S6 *) brk_hyp Hs; injection Hs as <- <- <-; apply wnone_case; red_set; auto.
    + (* S7 *) cbn [wop_of wexec]. unfold panicked_of. specialize (Hr (or_introl eq_refl)).
      brk_hyp Hs; injection Hs as <- <- <-; red_set.
      * assert (Ea : f MA.armed = 1%nat) by lia. rewrite Ea, H0.
        rewrite wsend_end_ok by lia. split; reflexivity.
      * rewrite wsend_end_panics by lia. split; [reflexivity|discriminate].
    + (* S7c *) cbn [wop_of wexec]. unfold panicked_of. specialize (Hret eq_refl). specialize (Hr (or_intror eq_refl)).
      rewrite wsend_cas by lia.
      brk_hyp Hs; injection Hs as <- <- <-; red_set.
      * rewrite H0. split; reflexivity.
      * split; [reflexivity|discriminate].
    + (* S8 *) injection Hs as <- <- <-; apply wnone_case; red_set; auto.
  - (* PU0 *) brk_hyp Hs; injection Hs as <- <- <-; apply wnone_case; red_set; auto.
  - (* PU1 *) cbn [wop_of wexec]. unfold panicked_of.
    brk_hyp Hs; injection Hs as <- <- <-; red_set.
    + assert (Ea : f MA.armed = 0%nat) by lia. rewrite Ea, H0. rewrite wadd_plus1 by lia. split; reflexivity.
    + assert (Ea : f MA.armed = 1%nat) by lia. rewrite Ea. rewrite wadd_pos_armed_panics by lia.
      split; [reflexivity|discriminate].
  - (* PU2 *) brk_hyp Hs; injection Hs as <- <- <-; apply wnone_case; red_set; auto.
  - (* PRecvO *) destruct c; try discriminate Hs. brk_hyp Hs; injection Hs as <- <- <-; apply wnone_case; red_set; auto.
  - (* PRecvN *) destruct c; try discriminate Hs. brk_hyp Hs; injection Hs as <- <- <-; apply wnone_case; red_set; auto.
  - (* PAbsorb *) destruct c; try discriminate Hs. brk_hyp Hs; injection Hs as <- <- <-; apply wnone_case; red_set; auto.
  - (* PDeregO *) cbn [wop_of wexec]. unfold panicked_of.
    brk_hyp Hs; injection Hs as <- <- <-; red_set.
    all: destruct (Nat.eqb (f MA.cnt) 0) eqn:Hz;
      [ assert (Ec : f MA.cnt = 0%nat) by lia; rewrite Ec, wadd_neg_zero_panics; split; [reflexivity|discriminate]
      | destruct (f MA.cnt) as [|n] eqn:Ec; [lia|]; rewrite H0, wadd_minus1 by lia;
        replace (S n - 1)%nat with n by lia; split; reflexivity ].
  - (* PDeregN *) cbn [wop_of wexec]. unfold panicked_of.
    brk_hyp Hs; injection Hs as <- <- <-; red_set.
    all: destruct (Nat.eqb (f MA.cnt) 0) eqn:Hz;
      [ assert (Ec : f MA.cnt = 0%nat) by lia; rewrite Ec, wadd_neg_zero_panics; split; [reflexivity|discriminate]
      | destruct (f MA.cnt) as [|n] eqn:Ec; [lia|]; rewrite H0, wadd_minus1 by lia;
        replace (S n - 1)%nat with n by lia; split; reflexivity ].
Qed.

(* ---------------------------------------------------------------------------------------------------------- *)
(* 4. along every run                                                                                          *)

Local Close Scope Z_scope.

(* the receivers are conserved, and a copy absorbed by an Add(-1) is a finished Add(-1) *)
Definition popsum (f : MA.var -> nat) : nat :=
  f MA.a0 + f MA.u1 + f MA.u2 + f MA.b0o + f MA.b0n + f MA.got + f MA.n5 + f MA.fin.
Definition AuxInv (N : nat) (f : MA.var -> nat) : Prop := popsum f = N /\ f MA.absd <= f MA.fin.

Lemma cstep_aux N c f p e c' f' : MA.cstep MA.good c f p = Some (e, c', f') -> AuxInv N f -> AuxInv N f'.
Proof.
  intros Hs [HP HA]. unfold AuxInv, popsum in *.
  unfold MA.cstep, MA.dereg, MA.mk, MA.pos, MA.rlockable in Hs. cbn [MA.fl_absorb MA.fl_rlock MA.good] in Hs.
  destruct p; destruct c; try discriminate Hs; brk_hyp Hs; injection Hs as <- <- <-; red_set; lia.
Qed.

Lemma inv_bounds N c f : PA.CInv c f -> AuxInv N f ->
  f MA.bad = 0 /\ f MA.armed <= 1 /\ f MA.cnt <= N /\ (c = MA.S7 \/ c = MA.S7c -> f MA.reg0 <= N) /\
  (c = MA.S7c -> f MA.ret <= f MA.reg0).
Proof.
  intros ((Hb & _ & _) & _ & HP) [HS HA]. unfold popsum in HS. unfold PA.phase_inv in HP.
  destruct c; repeat split; try lia; intros E; first [ lia | discriminate E | destruct E as [E|E]; discriminate E ].
Qed.

Lemma step_cstep s p s' : MA.step s p = Some s' ->
  exists e, MA.cstep MA.good (MA.sp s) (MA.v s) (pick_base s p) = Some (e, MA.sp s', MA.v s').
Proof.
  unfold MA.step, MA.step_gen, MA.lift, pick_base. intros Hs. destruct p as [b|t].
  - destruct (MA.guard (MA.tg s) (MA.v s) b); [|discriminate Hs].
    destruct (MA.cstep MA.good (MA.sp s) (MA.v s) b) as [[[e c'] f']|]; [|discriminate Hs].
    injection Hs as <-. exists e. reflexivity.
  - destruct (MA.tag_pre MA.good (MA.v s) t (MA.tg s)) as [t1|]; [|discriminate Hs].
    destruct (MA.cstep MA.good (MA.sp s) (MA.v s) (MA.base_of (MA.tg s) t)) as [[[e c'] f']|]; [|discriminate Hs].
    injection Hs as <-. exists e. reflexivity.
Qed.

Definition word_of_st (s : MA.st) : Z := word_of (MA.v s MA.cnt) (MA.v s MA.armed).

Lemma step_word_refines N s p s' : PA.Inv s -> AuxInv N (MA.v s) -> (Z.of_nat N < maxi)%Z ->
  MA.step s p = Some s' ->
  wexec (wop_of (MA.sp s) (MA.v s) (pick_base s p)) (word_of_st s) = (word_of_st s', false) /\
  AuxInv N (MA.v s').
Proof.
  intros HI HA HN Hs. pose proof (PA.Inv_step s p s' HI Hs) as HI'.
  destruct (step_cstep s p s' Hs) as [e Hc].
  destruct HI as [HC _]. destruct (inv_bounds N _ _ HC HA) as (B1 & B2 & B3 & B4 & B5).
  destruct HI' as [((Hb' & _) & _) _].
  split; [|eapply cstep_aux; eassumption].
  assert (P3 : (Z.of_nat (MA.v s MA.cnt) < maxi)%Z) by lia.
  assert (P4 : MA.sp s = MA.S7 \/ MA.sp s = MA.S7c -> (Z.of_nat (MA.v s MA.reg0) <= maxi)%Z)
    by (intros E; specialize (B4 E); lia).
  pose proof (cstep_word_refines _ _ _ _ _ _ Hc B1 B2 P3 P4 B5) as R. cbv zeta in R. destruct R as [R1 R2].
  unfold panicked_of in R1. rewrite Hb' in R1. unfold word_of_st.
  rewrite (surjective_pairing (wexec _ _)). f_equal; [apply R2; exact Hb' | exact R1].
Qed.

Lemma word_tracks_run_from N : (Z.of_nat N < maxi)%Z -> forall sched s, PA.Inv s -> AuxInv N (MA.v s) ->
  wrun s (word_of_st s) false sched = (MA.run s sched, word_of_st (MA.run s sched), false).
Proof.
  intros HN. induction sched as [|p rest IH]; intros s HI HA; [reflexivity|].
  cbn [wrun]. unfold MA.run. cbn [MA.run_gen]. fold (MA.step s p). fold (MA.run).
  destruct (MA.step s p) as [s'|] eqn:Hs.
  - destruct (step_word_refines N s p s' HI HA HN Hs) as [HW HA']. rewrite HW. cbn [fst snd orb].
    apply IH; [eapply PA.Inv_step; eassumption | exact HA'].
  - apply IH; assumption.
Qed.

(* The real 64-bit word, starting at 0 and driven along ANY schedule only by the operations of Model/Caster.v that
   the protocol steps stand for (Add(+1), Add(-1), Send's arming, final validation and final CAS, with the
   arguments the Go code passes), is at every point the packing of the protocol's (cnt, armed), and none of those
   operations panics. *)
Theorem word_tracks_run : forall senders receivers sched, (Z.of_nat (S receivers) < maxi)%Z ->
  wrun (MA.init senders receivers) 0%Z false sched
  = (MA.run (MA.init senders receivers) sched, word_of_st (MA.run (MA.init senders receivers) sched), false).
Proof.
  intros senders receivers sched HN.
  apply (word_tracks_run_from (S receivers) HN sched (MA.init senders receivers)).
  - apply PA.Inv_init.
  - unfold AuxInv, popsum, MA.init. cbn [MA.v]. lia.
Qed.

Lemma aux_run_from N : forall sched s, AuxInv N (MA.v s) -> AuxInv N (MA.v (MA.run s sched)).
Proof.
  induction sched as [|p rest IH]; intros s HA; [exact HA|].
  unfold MA.run. cbn [MA.run_gen]. fold (MA.step s p). fold MA.run.
  destruct (MA.step s p) as [s'|] eqn:Hs; [|apply IH; exact HA].
  apply IH. destruct (step_cstep s p s' Hs) as [e Hc]. eapply cstep_aux; eassumption.
Qed.

(* consequently the word of every reachable state is valid, armed exactly while the protocol says so, its high half
   is the protocol's count, and it is 0 exactly when the protocol's fast-path test says so *)
Corollary reachable_word_valid : forall senders receivers sched, (Z.of_nat (S receivers) < maxi)%Z ->
  let s := MA.run (MA.init senders receivers) sched in
  valid (word_of_st s) /\ absw (word_of_st s) = (MA.v s MA.cnt, MA.v s MA.armed) /\
  (word_of_st s = 0%Z <-> MA.v s MA.cnt = 0 /\ MA.v s MA.armed = 0).
Proof.
  intros senders receivers sched HN s.
  pose proof (PA.Inv_run senders receivers sched) as [HC _]. fold s in HC.
  assert (HA : AuxInv (S receivers) (MA.v s)).
  { apply aux_run_from. unfold AuxInv, popsum, MA.init. cbn [MA.v]. lia. }
  destruct (inv_bounds _ _ _ HC HA) as (_ & B2 & B3 & _).
  assert (Hn : (Z.of_nat (MA.v s MA.cnt) <= maxi)%Z) by lia.
  unfold word_of_st. split; [apply word_of_valid; exact Hn|].
  split; [apply absw_word_of; assumption | apply word_of_zero; exact Hn].
Qed.

Example ex_word_tracks_race :
  wrun (MA.init 1 1) 0%Z false PA.sched_race
  = (MA.run (MA.init 1 1) PA.sched_race, 0%Z, false).
Proof. vm_compute. reflexivity. Qed.

Print Assumptions absw_word_of.
Print Assumptions word_of_absw.
Print Assumptions wadd_ok.
Print Assumptions wsend_cas.
Print Assumptions add_minus1_on_valid.
Print Assumptions add_plus1_on_valid.
Print Assumptions send_begin_on_valid.
Print Assumptions send_end_on_valid.
Print Assumptions cstep_word_refines.
Print Assumptions word_tracks_run.
Print Assumptions reachable_word_valid.
