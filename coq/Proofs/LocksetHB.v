(* C11 — soundness of the lock-state machine with ownership-carrying happens-before edges (Model/LocksetHB.v).

   h_disciplined_no_race   a disciplined program (every access under its location's lock/token in an adequate mode,
                           every send by the owner of the channel's token) has no data race in any schedule;
   h_access_exclusive      "published with a happens-before edge": whenever a disciplined thread is about to WRITE a
                           token-guarded location (resp. read it), no other thread holds the token at all (resp. in
                           write mode) and it is not in flight — the supplier has given the value up before the
                           receiver touches it, and gets at it again only by receiving the token back;
   h_recv_after_send       a receive is only ever executed for a message that an earlier send put in flight
                           (messages in flight + receives executed = sends executed, for every channel);
   examples                the three hand-over patterns of the library (GChanSync, lock hand-off through `go`,
                           ExGoOrdered with completion signal) are disciplined, hence race free; dropping the
                           completion signal is caught. *)
From Coq Require Import List Arith Lia Bool.
From BB Require Import Model.Lockset Proofs.Lockset Model.LocksetHB.
Import ListNotations.

Section HBSoundness.
  Variable lock : Type.
  Variable loc : Type.
  Variable chan : Type.
  Variable lock_eqb : lock -> lock -> bool.
  Variable chan_eqb : chan -> chan -> bool.
  Hypothesis lock_eqb_spec : forall a b, lock_eqb a b = true <-> a = b.
  Hypothesis chan_eqb_spec : forall a b, chan_eqb a b = true <-> a = b.
  Variable pay : chan -> lock.
  Variable g : loc -> lguard lock.

  Notation haction := (haction lock loc chan).
  Notation hthread := (hthread lock loc chan).
  Notation hstate := (hstate lock loc chan).
  Notation holds_any := (holds_any lock lock_eqb).
  Notation holds_w := (holds_w lock lock_eqb).
  Notation holds_for := (holds_for lock lock_eqb).
  Notation release := (release lock lock_eqb).
  Notation release_all := (release_all lock lock_eqb).
  Notation in_flight := (in_flight lock chan lock_eqb pay).
  Notation has_msg := (has_msg chan chan_eqb).
  Notation remove_msg := (remove_msg chan chan_eqb).
  Notation no_dup_pay := (no_dup_pay lock chan lock_eqb pay).
  Notation h_held_after := (h_held_after lock loc chan lock_eqb pay).
  Notation h_flight_after := (h_flight_after lock loc chan chan_eqb).
  Notation h_enabled := (h_enabled lock loc chan lock_eqb chan_eqb pay).
  Notation h_step := (h_step lock loc chan lock_eqb chan_eqb pay).
  Notation h_run := (h_run lock loc chan lock_eqb chan_eqb pay).
  Notation h_action_ok := (h_action_ok lock loc chan lock_eqb pay g).
  Notation h_check_prog := (h_check_prog lock loc chan lock_eqb pay g).
  Notation h_disciplined := (h_disciplined lock loc chan lock_eqb pay g).
  Notation h_set_nth := (h_set_nth lock loc chan).

  Lemma lock_eqb_refl : forall a, lock_eqb a a = true.
  Proof. intro a. apply lock_eqb_spec. reflexivity. Qed.

  Lemma lock_eqb_false : forall a b, lock_eqb a b = false <-> a <> b.
  Proof.
    intros a b. split.
    - intros H E. apply lock_eqb_spec in E. congruence.
    - intro N. destruct (lock_eqb a b) eqn:E; [|reflexivity]. apply lock_eqb_spec in E. contradiction.
  Qed.

  (* ---- conflicts and races: as in Proofs/Lockset.v ---- *)
  Definition h_conflict (a b : haction) : Prop :=
    match a, b with
    | HAccess x k, HAccess y k' => x = y /\ (k = W \/ k' = W)
    | HAccess x _, HAtomic y => x = y
    | HAtomic x, HAccess y _ => x = y
    | _, _ => False
    end.

  Definition h_race (s : hstate) : Prop :=
    exists i j ti tj a b,
      i <> j /\ nth_error (hs_threads s) i = Some ti /\ nth_error (hs_threads s) j = Some tj /\
      hd_error (ht_prog ti) = Some a /\ hd_error (ht_prog tj) = Some b /\ h_conflict a b.

  (* ---- the invariant ---- *)
  Definition hI1 (ts : list hthread) : Prop :=
    forall i j ti tj l, i <> j -> nth_error ts i = Some ti -> nth_error ts j = Some tj ->
      holds_w (ht_held ti) l = true -> holds_any (ht_held tj) l = false.
  Definition hI2 (ts : list hthread) (fl : list chan) : Prop :=
    forall c j tj, In c fl -> nth_error ts j = Some tj -> holds_any (ht_held tj) (pay c) = false.
  Definition h_inv (s : hstate) : Prop :=
    hI1 (hs_threads s) /\ hI2 (hs_threads s) (hs_flight s) /\ no_dup_pay (hs_flight s) = true.

  Definition h_disc (s : hstate) : Prop :=
    forall i t, nth_error (hs_threads s) i = Some t -> h_check_prog (ht_held t) (ht_prog t) = true.

  (* ---- held sets ---- *)
  Lemma release_all_any : forall h l' l, holds_any (release_all h l') l = true -> holds_any h l = true.
  Proof.
    intros h l' l H. unfold Lockset.holds_any in *. apply existsb_exists in H. destruct H as [p [Hin Hp]].
    unfold LocksetHB.release_all in Hin. apply filter_In in Hin. apply existsb_exists. exists p. tauto.
  Qed.

  Lemma release_all_w : forall h l' l, holds_w (release_all h l') l = true -> holds_w h l = true.
  Proof.
    intros h l' l H. unfold Lockset.holds_w in *. apply existsb_exists in H. destruct H as [p [Hin Hp]].
    unfold LocksetHB.release_all in Hin. apply filter_In in Hin. apply existsb_exists. exists p. tauto.
  Qed.

  Lemma release_all_self : forall h l, holds_any (release_all h l) l = false.
  Proof.
    intros h l. destruct (holds_any (release_all h l) l) eqn:E; [|reflexivity].
    unfold Lockset.holds_any in E. apply existsb_exists in E. destruct E as [p [Hin Hp]].
    unfold LocksetHB.release_all in Hin. apply filter_In in Hin. destruct Hin as [_ Hn].
    rewrite Hp in Hn. discriminate.
  Qed.

  Lemma any_false_of_release_all : forall h l' l, holds_any h l = false -> holds_any (release_all h l') l = false.
  Proof.
    intros h l' l H. destruct (holds_any (release_all h l') l) eqn:E; [|reflexivity].
    apply release_all_any in E. congruence.
  Qed.

  Lemma any_false_of_release : forall h l' l, holds_any h l = false -> holds_any (release h l') l = false.
  Proof.
    intros h l' l H. destruct (holds_any (release h l') l) eqn:E; [|reflexivity].
    apply (release_any lock lock_eqb) in E. congruence.
  Qed.

  (* ---- messages in flight ---- *)
  Lemma in_flight_In : forall fl l, in_flight fl l = false -> forall c, In c fl -> pay c <> l.
  Proof.
    intros fl l H c Hin E. unfold LocksetHB.in_flight in H.
    assert (X : existsb (fun c => lock_eqb (pay c) l) fl = true).
    { apply existsb_exists. exists c. split; [exact Hin|]. rewrite E. apply lock_eqb_refl. }
    congruence.
  Qed.

  Lemma in_flight_intro : forall fl l, (forall c, In c fl -> pay c <> l) -> in_flight fl l = false.
  Proof.
    intros fl l H. destruct (in_flight fl l) eqn:E; [|reflexivity].
    unfold LocksetHB.in_flight in E. apply existsb_exists in E. destruct E as [c [Hin Hc]].
    apply lock_eqb_spec in Hc. exfalso. exact (H c Hin Hc).
  Qed.

  Lemma has_msg_In : forall fl c, has_msg fl c = true -> In c fl.
  Proof.
    intros fl c H. unfold LocksetHB.has_msg in H. apply existsb_exists in H. destruct H as [c' [Hin Hc]].
    apply chan_eqb_spec in Hc. subst. exact Hin.
  Qed.

  Lemma remove_msg_In : forall fl c c', In c' (remove_msg fl c) -> In c' fl.
  Proof.
    induction fl as [|c0 fl IH]; intros c c' H; [exact H|].
    cbn [LocksetHB.remove_msg] in H. destruct (chan_eqb c c0).
    - right. exact H.
    - destruct H as [H|H]; [left; exact H|right; eapply IH; eauto].
  Qed.

  Lemma no_dup_pay_app : forall fl c,
      no_dup_pay fl = true -> in_flight fl (pay c) = false -> no_dup_pay (fl ++ [c]) = true.
  Proof.
    induction fl as [|c0 fl IH]; intros c Hnd Hnf; [reflexivity|].
    cbn [LocksetHB.no_dup_pay app] in *. apply andb_true_iff in Hnd. destruct Hnd as [H0 Hnd].
    apply negb_true_iff in H0.
    assert (Hc0 : pay c0 <> pay c).
    { apply (in_flight_In (c0 :: fl) (pay c) Hnf). left. reflexivity. }
    assert (Hfl : in_flight fl (pay c) = false).
    { apply in_flight_intro. intros c' Hin. apply (in_flight_In (c0 :: fl) (pay c) Hnf). right. exact Hin. }
    apply andb_true_iff. split; [|apply IH; assumption].
    apply negb_true_iff. apply in_flight_intro. intros c' Hin. apply in_app_or in Hin. destruct Hin as [Hin|[<-|[]]].
    - exact (in_flight_In fl (pay c0) H0 c' Hin).
    - congruence.
  Qed.

  Lemma no_dup_pay_remove : forall fl c, no_dup_pay fl = true -> no_dup_pay (remove_msg fl c) = true.
  Proof.
    induction fl as [|c0 fl IH]; intros c H; [reflexivity|].
    cbn [LocksetHB.no_dup_pay LocksetHB.remove_msg] in *. apply andb_true_iff in H. destruct H as [H0 H].
    destruct (chan_eqb c c0); [exact H|].
    cbn [LocksetHB.no_dup_pay]. apply andb_true_iff. split; [|apply IH; exact H].
    apply negb_true_iff in H0. apply negb_true_iff. apply in_flight_intro. intros c' Hin.
    apply remove_msg_In in Hin. exact (in_flight_In fl (pay c0) H0 c' Hin).
  Qed.

  (* the message taken out was the only one carrying its token *)
  Lemma no_dup_pay_removed : forall fl c c',
      no_dup_pay fl = true -> has_msg fl c = true -> In c' (remove_msg fl c) -> pay c' <> pay c.
  Proof.
    induction fl as [|c0 fl IH]; intros c c' Hnd Hm Hin; [discriminate|].
    cbn [LocksetHB.no_dup_pay] in Hnd. apply andb_true_iff in Hnd. destruct Hnd as [H0 Hnd].
    apply negb_true_iff in H0. cbn [LocksetHB.remove_msg] in Hin.
    unfold LocksetHB.has_msg in Hm. cbn [existsb] in Hm.
    destruct (chan_eqb c c0) eqn:E.
    - apply chan_eqb_spec in E. subst c0. exact (in_flight_In fl (pay c) H0 c' Hin).
    - cbn [orb] in Hm. destruct Hin as [<-|Hin].
      + intro Heq. apply (in_flight_In fl (pay c0) H0 c (has_msg_In fl c Hm)). congruence.
      + exact (IH c c' Hnd Hm Hin).
  Qed.

  (* ---- thread table ---- *)
  Lemma h_nth_set_eq : forall (ts : list hthread) i u t,
      nth_error ts i = Some u -> nth_error (h_set_nth ts i t) i = Some t.
  Proof. induction ts as [|x ts IH]; intros [|i] u t H; cbn in *; try discriminate; eauto. Qed.

  Lemma h_nth_set_neq : forall (ts : list hthread) i j t, i <> j -> nth_error (h_set_nth ts i t) j = nth_error ts j.
  Proof.
    induction ts as [|x ts IH]; intros [|i] [|j] t H; cbn; try reflexivity; try congruence.
    apply IH. congruence.
  Qed.

  Lemma can_acq_held_w : forall (ts : list hthread) l j tj,
      can_acq lock loc lock_eqb (h_threads_held lock loc chan ts) l MW = true ->
      nth_error ts j = Some tj -> holds_any (ht_held tj) l = false.
  Proof.
    intros ts l j tj H Hj.
    apply (can_acq_w lock loc lock_eqb (h_threads_held lock loc chan ts) l j (mkThread [] (ht_held tj)) H).
    unfold h_threads_held. rewrite nth_error_map, Hj. reflexivity.
  Qed.

  Lemma can_acq_held_r : forall (ts : list hthread) l j tj,
      can_acq lock loc lock_eqb (h_threads_held lock loc chan ts) l MR = true ->
      nth_error ts j = Some tj -> holds_w (ht_held tj) l = false.
  Proof.
    intros ts l j tj H Hj.
    apply (can_acq_r lock loc lock_eqb (h_threads_held lock loc chan ts) l j (mkThread [] (ht_held tj)) H).
    unfold h_threads_held. rewrite nth_error_map, Hj. reflexivity.
  Qed.

  (* ---- one step ---- *)
  Lemma h_inv_update : forall (s : hstate) i t a p,
      h_inv s -> nth_error (hs_threads s) i = Some t -> ht_prog t = a :: p ->
      h_action_ok (ht_held t) a = true ->
      h_enabled s t a = true ->
      h_inv (mkHState (h_set_nth (hs_threads s) i (mkHThread p (h_held_after (ht_held t) a)))
                      (h_flight_after (hs_flight s) a)).
  Proof.
    intros s i t a p [H1 [H2 H3]] Hi Hp Hok Hen. unfold h_inv. cbn [hs_threads hs_flight].
    (* facts about the old state at thread i *)
    assert (Hother : forall j tj, j <> i ->
               nth_error (h_set_nth (hs_threads s) i (mkHThread p (h_held_after (ht_held t) a))) j = Some tj ->
               nth_error (hs_threads s) j = Some tj).
    { intros j tj N Hj. rewrite h_nth_set_neq in Hj by congruence. exact Hj. }
    assert (Hself : forall ti,
               nth_error (h_set_nth (hs_threads s) i (mkHThread p (h_held_after (ht_held t) a))) i = Some ti ->
               ti = mkHThread p (h_held_after (ht_held t) a)).
    { intros ti Hti. rewrite (h_nth_set_eq _ _ _ _ Hi) in Hti. congruence. }
    split; [|split].
    - (* I1 *)
      intros i1 i2 t1 t2 l Hne Ht1 Ht2 Hw.
      destruct (Nat.eq_dec i1 i) as [E1|N1]; destruct (Nat.eq_dec i2 i) as [E2|N2].
      + congruence.
      + (* the stepping thread is the writer *)
        subst i1. apply Hself in Ht1. subst t1. apply (Hother _ _ N2) in Ht2. cbn [ht_held] in Hw.
        destruct a as [l' m|l'|x k|x| |c|c]; cbn [LocksetHB.h_held_after] in Hw;
          try (eapply (H1 i i2 t t2 l); eauto; fail).
        * rewrite (holds_w_cons lock lock_eqb) in Hw. cbn [fst snd] in Hw. apply orb_true_iff in Hw.
          destruct Hw as [Hw|Hw]; [|eapply (H1 i i2 t t2 l); eauto].
          apply andb_true_iff in Hw. destruct Hw as [El Hm]. apply lock_eqb_spec in El. subst l'.
          destruct m; [discriminate|]. cbn [LocksetHB.h_enabled] in Hen. apply andb_true_iff in Hen.
          eapply can_acq_held_w; [exact (proj1 Hen)|exact Ht2].
        * apply (release_w lock lock_eqb) in Hw. eapply (H1 i i2 t t2 l); eauto.
        * apply release_all_w in Hw. eapply (H1 i i2 t t2 l); eauto.
        * rewrite (holds_w_cons lock lock_eqb) in Hw. cbn [fst snd] in Hw. apply orb_true_iff in Hw.
          destruct Hw as [Hw|Hw]; [|eapply (H1 i i2 t t2 l); eauto].
          apply andb_true_iff in Hw. destruct Hw as [El _]. apply lock_eqb_spec in El. subst l.
          cbn [LocksetHB.h_enabled] in Hen. eapply (H2 c i2 t2); [apply has_msg_In; exact Hen|exact Ht2].
      + (* the stepping thread is the other one *)
        subst i2. apply Hself in Ht2. subst t2. apply (Hother _ _ N1) in Ht1. cbn [ht_held].
        assert (Hold : holds_any (ht_held t) l = false) by (eapply (H1 i1 i t1 t l); eauto).
        destruct a as [l' m|l'|x k|x| |c|c]; cbn [LocksetHB.h_held_after]; try exact Hold.
        * rewrite (holds_any_cons lock lock_eqb). cbn [fst]. rewrite Hold, orb_false_r.
          destruct (lock_eqb l' l) eqn:El; [|reflexivity]. apply lock_eqb_spec in El. subst l'.
          cbn [LocksetHB.h_enabled] in Hen. apply andb_true_iff in Hen. destruct Hen as [Hen _]. exfalso. destruct m.
          -- pose proof (can_acq_held_r _ _ _ _ Hen Ht1). congruence.
          -- pose proof (can_acq_held_w _ _ _ _ Hen Ht1) as X. apply (holds_w_any lock lock_eqb) in Hw. congruence.
        * apply any_false_of_release. exact Hold.
        * apply any_false_of_release_all. exact Hold.
        * rewrite (holds_any_cons lock lock_eqb). cbn [fst]. rewrite Hold, orb_false_r.
          destruct (lock_eqb (pay c) l) eqn:El; [|reflexivity]. apply lock_eqb_spec in El. subst l.
          cbn [LocksetHB.h_enabled] in Hen. apply has_msg_In in Hen.
          pose proof (H2 c i1 t1 Hen Ht1) as X. apply (holds_w_any lock lock_eqb) in Hw. congruence.
      + apply (Hother _ _ N1) in Ht1. apply (Hother _ _ N2) in Ht2. exact (H1 i1 i2 t1 t2 l Hne Ht1 Ht2 Hw).
    - (* I2 *)
      intros c0 j tj Hin Hj.
      destruct (Nat.eq_dec j i) as [E|N].
      + subst j. apply Hself in Hj. subst tj. cbn [ht_held].
        destruct a as [l' m|l'|x k|x| |c|c]; cbn [LocksetHB.h_held_after LocksetHB.h_flight_after] in *;
          try (exact (H2 c0 i t Hin Hi)).
        * rewrite (holds_any_cons lock lock_eqb). cbn [fst]. rewrite (H2 c0 i t Hin Hi), orb_false_r.
          apply andb_true_iff in Hen. destruct Hen as [_ Hen]. apply negb_true_iff in Hen.
          apply lock_eqb_false. intro E. exact (in_flight_In _ _ Hen c0 Hin (eq_sym E)).
        * apply any_false_of_release. exact (H2 c0 i t Hin Hi).
        * apply in_app_or in Hin. destruct Hin as [Hin|[<-|[]]].
          -- apply any_false_of_release_all. exact (H2 c0 i t Hin Hi).
          -- apply release_all_self.
        * rewrite (holds_any_cons lock lock_eqb). cbn [fst].
          rewrite (H2 c0 i t (remove_msg_In _ _ _ Hin) Hi), orb_false_r.
          apply lock_eqb_false. intro E. exact (no_dup_pay_removed _ _ _ H3 Hen Hin (eq_sym E)).
      + apply (Hother _ _ N) in Hj.
        destruct a as [l' m|l'|x k|x| |c|c]; cbn [LocksetHB.h_flight_after] in Hin; try (exact (H2 c0 j tj Hin Hj)).
        * apply in_app_or in Hin. destruct Hin as [Hin|[<-|[]]]; [exact (H2 c0 j tj Hin Hj)|].
          cbn [LocksetHB.h_action_ok] in Hok. assert (Nij : i <> j) by congruence.
          exact (H1 i j t tj (pay c) Nij Hi Hj Hok).
        * exact (H2 c0 j tj (remove_msg_In _ _ _ Hin) Hj).
    - (* I3 *)
      destruct a as [l' m|l'|x k|x| |c|c]; cbn [LocksetHB.h_flight_after]; try exact H3.
      + apply no_dup_pay_app; [exact H3|]. cbn [LocksetHB.h_action_ok] in Hok.
        apply in_flight_intro. intros c' Hin E.
        pose proof (H2 c' i t Hin Hi) as X. rewrite E in X. apply (holds_w_any lock lock_eqb) in Hok. congruence.
      + apply no_dup_pay_remove. exact H3.
  Qed.

  Lemma h_step_preserves : forall s i, h_inv s /\ h_disc s -> h_inv (h_step s i) /\ h_disc (h_step s i).
  Proof.
    intros s i [Hinv Hd]. unfold LocksetHB.h_step.
    destruct (nth_error (hs_threads s) i) as [t|] eqn:Hi; [|tauto].
    destruct (ht_prog t) as [|a p] eqn:Hp; [tauto|].
    destruct (h_enabled s t a) eqn:Hen; [|tauto].
    pose proof (Hd _ _ Hi) as C. rewrite Hp in C. cbn [LocksetHB.h_check_prog] in C.
    apply andb_true_iff in C. destruct C as [Cok Crest].
    split; [eapply h_inv_update; eauto|].
    intros j u Hj. cbn [hs_threads] in Hj. destruct (Nat.eq_dec j i) as [E|N].
    - subst j. rewrite (h_nth_set_eq _ _ _ _ Hi) in Hj. injection Hj as <-. exact Crest.
    - rewrite h_nth_set_neq in Hj by congruence. eauto.
  Qed.

  Lemma h_run_preserves : forall sched s, h_inv s /\ h_disc s -> h_inv (h_run s sched) /\ h_disc (h_run s sched).
  Proof.
    induction sched as [|i sched IH]; intros s H; cbn; [exact H|]. apply IH. apply h_step_preserves. exact H.
  Qed.

  Lemma h_disciplined_disc : forall s, h_disciplined s = true -> h_disc s.
  Proof.
    intros s H i t Hi. unfold LocksetHB.h_disciplined in H. rewrite forallb_forall in H.
    apply H. eapply nth_error_In; eauto.
  Qed.

  Lemma h_inv_no_race : forall s, h_inv s -> h_disc s -> ~ h_race s.
  Proof.
    intros s [H1 _] Hd (i & j & ti & tj & a & b & Hne & Hi & Hj & Ha & Hb & Hc).
    pose proof (Hd _ _ Hi) as Ci. pose proof (Hd _ _ Hj) as Cj.
    destruct (ht_prog ti) as [|a' pi] eqn:Epi; [discriminate|]. injection Ha as ->.
    destruct (ht_prog tj) as [|b' pj] eqn:Epj; [discriminate|]. injection Hb as ->.
    cbn [LocksetHB.h_check_prog] in Ci, Cj. apply andb_true_iff in Ci. apply andb_true_iff in Cj.
    destruct Ci as [Ci _]. destruct Cj as [Cj _].
    destruct a as [?|?|x k|x| |?|?]; destruct b as [?|?|y k'|y| |?|?]; cbn in Hc; try contradiction.
    - destruct Hc as [<- Hk]. cbn [LocksetHB.h_action_ok] in Ci, Cj. destruct (g x) as [l| |].
      + destruct Hk as [-> | ->].
        * cbn in Ci. pose proof (H1 i j ti tj l Hne Hi Hj Ci) as X.
          apply (holds_for_any lock lock_eqb) in Cj. congruence.
        * cbn in Cj. assert (Hne' : j <> i) by congruence.
          pose proof (H1 j i tj ti l Hne' Hj Hi Cj) as X.
          apply (holds_for_any lock lock_eqb) in Ci. congruence.
      + discriminate.
      + destruct Hk as [-> | ->]; discriminate.
    - subst y. cbn [LocksetHB.h_action_ok] in Ci, Cj. destruct (g x); discriminate.
    - subst y. cbn [LocksetHB.h_action_ok] in Ci, Cj. destruct (g x); discriminate.
  Qed.

  Theorem h_disciplined_no_race : forall s0 : hstate,
      h_inv s0 -> h_disciplined s0 = true -> forall sched, ~ h_race (h_run s0 sched).
  Proof.
    intros s0 Hinv Hd sched.
    destruct (h_run_preserves sched s0 (conj Hinv (h_disciplined_disc _ Hd))) as [I D].
    apply h_inv_no_race; assumption.
  Qed.

  (* "Published with a happens-before edge": in every reachable state of a disciplined system, the thread that is
     about to access a lock/token-guarded location holds the token; if it writes, nobody else holds it in any mode;
     if it reads, nobody else holds it in write mode; and in either case the token is not in flight. So the supplier
     of a value gave the token up (its HSend, which follows its own accesses in program order) before the receiver
     touches the value, and can touch it again only after receiving the token back. *)
  Theorem h_access_exclusive : forall s0 : hstate,
      h_inv s0 -> h_disciplined s0 = true ->
      forall sched i ti x k p l,
        nth_error (hs_threads (h_run s0 sched)) i = Some ti ->
        ht_prog ti = HAccess x k :: p -> g x = LMutex l ->
        holds_for (ht_held ti) l k = true /\
        in_flight (hs_flight (h_run s0 sched)) l = false /\
        forall j tj, j <> i -> nth_error (hs_threads (h_run s0 sched)) j = Some tj ->
                     (if rw_is_w k then holds_any (ht_held tj) l else holds_w (ht_held tj) l) = false.
  Proof.
    intros s0 Hinv Hd sched i ti x k p l Hi Hp Hg.
    destruct (h_run_preserves sched s0 (conj Hinv (h_disciplined_disc _ Hd))) as [[H1 [H2 H3]] D].
    pose proof (D _ _ Hi) as C. rewrite Hp in C. cbn [LocksetHB.h_check_prog LocksetHB.h_action_ok] in C.
    rewrite Hg in C. apply andb_true_iff in C. destruct C as [C _].
    split; [exact C|]. split.
    - apply in_flight_intro. intros c Hin E. pose proof (H2 c i ti Hin Hi) as X. rewrite E in X.
      apply (holds_for_any lock lock_eqb) in C. congruence.
    - intros j tj Hne Hj. unfold Lockset.holds_for in C. destruct (rw_is_w k).
      + assert (N : i <> j) by congruence. exact (H1 i j ti tj l N Hi Hj C).
      + destruct (holds_w (ht_held tj) l) eqn:E; [|reflexivity].
        pose proof (H1 j i tj ti l Hne Hj Hi E). congruence.
  Qed.

  (* the usual initial condition: nothing in flight; every lock initially held is held by one thread only (decided by
     computation on concrete states through [h_init_ok]) *)
  Definition h_init_ok (s : hstate) : bool :=
    match hs_flight s with
    | [] => forallb (fun t => match ht_held t with [] => true | _ => false end) (hs_threads s)
    | _ => false
    end.

  Lemma h_inv_init : forall s, h_init_ok s = true -> h_inv s.
  Proof.
    intros s H. unfold h_init_ok in H. destruct (hs_flight s) eqn:Ef; [|discriminate].
    rewrite forallb_forall in H. unfold h_inv. rewrite Ef. split; [|split].
    - intros i j ti tj l _ Hi _ Hw. pose proof (H ti (nth_error_In _ _ Hi)) as X.
      destruct (ht_held ti); [discriminate Hw|discriminate X].
    - intros c j tj [].
    - reflexivity.
  Qed.

  (* initial owners: each thread may start owning tokens nobody else holds *)
  Fixpoint owners_disjoint (ts : list hthread) : bool :=
    match ts with
    | [] => true
    | t :: ts' => forallb (fun p => forallb (fun u => negb (holds_any (ht_held u) (fst p))) ts') (ht_held t)
                  && forallb (fun u => forallb (fun p => negb (holds_any (ht_held t) (fst p))) (ht_held u)) ts'
                  && owners_disjoint ts'
    end.

  Lemma holds_any_In : forall h l, holds_any h l = true -> exists p, In p h /\ fst p = l.
  Proof.
    intros h l H. unfold Lockset.holds_any in H. apply existsb_exists in H. destruct H as [p [Hin Hp]].
    apply lock_eqb_spec in Hp. eauto.
  Qed.

  Lemma owners_disjoint_spec : forall ts, owners_disjoint ts = true ->
      forall i j ti tj l, i <> j -> nth_error ts i = Some ti -> nth_error ts j = Some tj ->
                          holds_any (ht_held ti) l = true -> holds_any (ht_held tj) l = false.
  Proof.
    induction ts as [|t ts IH]; intros H i j ti tj l Hne Hi Hj Ha; [destruct i; discriminate|].
    cbn [owners_disjoint] in H. apply andb_true_iff in H. destruct H as [H Hrest].
    apply andb_true_iff in H. destruct H as [Hfwd Hbwd].
    destruct i as [|i]; destruct j as [|j]; cbn [nth_error] in Hi, Hj.
    - congruence.
    - injection Hi as <-. destruct (holds_any_In _ _ Ha) as [p [Hp <-]].
      rewrite forallb_forall in Hfwd. pose proof (Hfwd p Hp) as X. rewrite forallb_forall in X.
      pose proof (X tj (nth_error_In _ _ Hj)) as Y. apply negb_true_iff in Y. exact Y.
    - injection Hj as <-. destruct (holds_any_In _ _ Ha) as [p [Hp <-]].
      rewrite forallb_forall in Hbwd. pose proof (Hbwd ti (nth_error_In _ _ Hi)) as X. rewrite forallb_forall in X.
      pose proof (X p Hp) as Y. apply negb_true_iff in Y. exact Y.
    - apply (IH Hrest i j ti tj l); auto.
  Qed.

  Lemma h_inv_owners : forall s, hs_flight s = [] -> owners_disjoint (hs_threads s) = true -> h_inv s.
  Proof.
    intros s Ef Ho. unfold h_inv. rewrite Ef. split; [|split].
    - intros i j ti tj l Hne Hi Hj Hw. apply (holds_w_any lock lock_eqb) in Hw.
      exact (owners_disjoint_spec _ Ho i j ti tj l Hne Hi Hj Hw).
    - intros c j tj [].
    - reflexivity.
  Qed.

  (* ---- a receive only ever takes a message that a send put in flight ---- *)
  Fixpoint count_chan (c : chan) (l : list chan) : nat :=
    match l with [] => 0 | c' :: l' => (if chan_eqb c c' then 1 else 0) + count_chan c l' end.

  (* the trace of executed sends / receives along a schedule *)
  Fixpoint h_trace (s : hstate) (sched : list nat) : list (bool * chan) :=   (* true = send, false = receive *)
    match sched with
    | [] => []
    | i :: sched' =>
        match nth_error (hs_threads s) i with
        | Some t => match ht_prog t with
                    | a :: _ => if h_enabled s t a
                                then match a with
                                     | HSend c => [(true, c)]
                                     | HRecv c => [(false, c)]
                                     | _ => []
                                     end
                                else []
                    | [] => []
                    end
        | None => []
        end ++ h_trace (h_step s i) sched'
    end.

  Definition sends (c : chan) (tr : list (bool * chan)) : nat :=
    count_chan c (map snd (filter (fun e => fst e) tr)).
  Definition recvs (c : chan) (tr : list (bool * chan)) : nat :=
    count_chan c (map snd (filter (fun e => negb (fst e)) tr)).

  Lemma count_chan_app : forall c l1 l2, count_chan c (l1 ++ l2) = count_chan c l1 + count_chan c l2.
  Proof. induction l1 as [|x l1 IH]; intros l2; cbn [count_chan app]; [reflexivity|]. rewrite IH. lia. Qed.

  Lemma count_chan_remove : forall fl c c',
      has_msg fl c' = true ->
      count_chan c (remove_msg fl c') + (if chan_eqb c c' then 1 else 0) = count_chan c fl.
  Proof.
    induction fl as [|c0 fl IH]; intros c c' H; [discriminate|].
    unfold LocksetHB.has_msg in H. cbn [existsb] in H. cbn [LocksetHB.remove_msg count_chan].
    destruct (chan_eqb c' c0) eqn:E.
    - apply chan_eqb_spec in E. subst c0. lia.
    - cbn [orb] in H. cbn [count_chan]. pose proof (IH c c' H). lia.
  Qed.

  Lemma sends_app : forall c t1 t2, sends c (t1 ++ t2) = sends c t1 + sends c t2.
  Proof. intros. unfold sends. rewrite filter_app, map_app, count_chan_app. reflexivity. Qed.
  Lemma recvs_app : forall c t1 t2, recvs c (t1 ++ t2) = recvs c t1 + recvs c t2.
  Proof. intros. unfold recvs. rewrite filter_app, map_app, count_chan_app. reflexivity. Qed.

  (* conservation: in flight at the end + received = in flight at the start + sent *)
  Theorem h_flight_conservation : forall sched s c,
      count_chan c (hs_flight (h_run s sched)) + recvs c (h_trace s sched)
      = count_chan c (hs_flight s) + sends c (h_trace s sched).
  Proof.
    induction sched as [|i sched IH]; intros s c; [cbn; lia|].
    cbn [LocksetHB.h_run h_trace]. rewrite sends_app, recvs_app. specialize (IH (h_step s i) c).
    unfold LocksetHB.h_step in *.
    destruct (nth_error (hs_threads s) i) as [t|] eqn:Hi; [|cbn in *; lia].
    destruct (ht_prog t) as [|a p] eqn:Hp; [cbn in *; lia|].
    destruct (h_enabled s t a) eqn:Hen; [|cbn in *; lia].
    cbn [hs_flight] in IH.
    destruct a as [l' m|l'|x k|x| |c'|c']; cbn [LocksetHB.h_flight_after] in IH;
      try (unfold sends, recvs in *; cbn in *; lia).
    - rewrite count_chan_app in IH. unfold sends, recvs in *. cbn in *. lia.
    - cbn [LocksetHB.h_enabled] in Hen. pose proof (count_chan_remove (hs_flight s) c c' Hen).
      unfold sends, recvs in *. cbn in *. destruct (chan_eqb c c'); lia.
  Qed.

  (* Starting with nothing in flight, at every point of every schedule the receives executed on a channel are at most
     the sends executed on it: each value handed over was handed over BY a send that precedes the receive. *)
  Corollary h_recv_after_send : forall sched s c,
      hs_flight s = [] -> recvs c (h_trace s sched) <= sends c (h_trace s sched).
  Proof.
    intros sched s c Ef. pose proof (h_flight_conservation sched s c) as H. rewrite Ef in H. cbn [count_chan] in H. lia.
  Qed.
End HBSoundness.

(* ---- the hand-over patterns of the library ---- *)
Section HBExamples.
  (* tokens/locks: 0 = the result value's ownership, 1 = item.mutex, 2 = ownership of x.stop/x.done
     locations: 0 = result struct (getAsync / worker), 1 = item.running, 2 = Worker.stop
     channels: 0 = out (carries token 0), 1 = start of Exclusive's goroutine (carries lock 1),
               2 = start of Worker.do (carries token 2), 3 = x.done closed by do (carries token 2 back) *)
  Definition hb_pay (c : nat) : nat := match c with 0 => 0 | 1 => 1 | _ => 2 end.
  Definition hb_guard (x : nat) : lguard nat := match x with 0 => LMutex 0 | 1 => LMutex 1 | _ => LMutex 2 end.
  Notation pay := hb_pay.
  Notation gd := hb_guard.
  Notation T := (mkHThread (lock:=nat) (loc:=nat) (chan:=nat)).

  (* GChanSync — Buffer.getAsync's goroutine fills `result` and sends it; consumer.Get receives and reads it. *)
  Definition chansync : hstate nat nat nat := mkHState [
    T [HAccess 0 W; HAccess 0 R; HAccess 0 W; HSend 0] [(0, MW)];      (* the sender owns its local result *)
    T [HRecv 0; HAccess 0 R; HAccess 0 R] []
  ] [].

  Example chansync_disciplined : h_disciplined nat nat nat Nat.eqb pay gd chansync = true.
  Proof. vm_compute. reflexivity. Qed.

  Example chansync_no_race : forall sched, ~ h_race nat nat nat (h_run nat nat nat Nat.eqb Nat.eqb pay chansync sched).
  Proof.
    apply (h_disciplined_no_race nat nat nat Nat.eqb Nat.eqb Nat.eqb_eq Nat.eqb_eq pay gd).
    - apply h_inv_owners; [exact Nat.eqb_eq|reflexivity|vm_compute; reflexivity].
    - exact chansync_disciplined.
  Qed.

  (* the receiver really waits: before the send its HRecv is not enabled *)
  Example chansync_blocks : h_step nat nat nat Nat.eqb Nat.eqb pay chansync 1 = chansync.
  Proof. vm_compute. reflexivity. Qed.

  (* reading the result WITHOUT receiving it: not disciplined, and a schedule exhibits the race *)
  Definition chansync_bad : hstate nat nat nat := mkHState [
    T [HAccess 0 W; HSend 0] [(0, MW)];
    T [HAccess 0 R] []
  ] [].
  Example chansync_bad_not_disciplined : h_disciplined nat nat nat Nat.eqb pay gd chansync_bad = false.
  Proof. vm_compute. reflexivity. Qed.
  Example chansync_bad_races : exists sched, h_race nat nat nat (h_run nat nat nat Nat.eqb Nat.eqb pay chansync_bad sched).
  Proof. exists []. exists 0, 1. do 4 eexists. repeat split; try (vm_compute; reflexivity); auto. Qed.

  (* Lock hand-off (gostmt_ok) — Exclusive.call locks item.mutex (lock 1), writes item fields, starts the goroutine,
     which starts OWNING the lock, reads item.running and unlocks; a second caller locks normally. *)
  Definition handoff : hstate nat nat nat := mkHState [
    T [HAcq 1 MW; HAccess 1 W; HGo 1] [];
    T [HStart 1; HAccess 1 R; HAccess 1 W; HRel 1] [];
    T [HAcq 1 MW; HAccess 1 W; HRel 1] []
  ] [].

  Example handoff_disciplined : h_disciplined nat nat nat Nat.eqb pay gd handoff = true.
  Proof. vm_compute. reflexivity. Qed.

  Example handoff_no_race : forall sched, ~ h_race nat nat nat (h_run nat nat nat Nat.eqb Nat.eqb pay handoff sched).
  Proof.
    apply (h_disciplined_no_race nat nat nat Nat.eqb Nat.eqb Nat.eqb_eq Nat.eqb_eq pay gd).
    - apply h_inv_init. reflexivity.
    - exact handoff_disciplined.
  Qed.

  (* while the lock is in flight between the go statement and the goroutine's start nobody can take it *)
  Example handoff_in_flight_blocks :
    let s := h_run nat nat nat Nat.eqb Nat.eqb pay handoff [0; 0; 0] in
    h_step nat nat nat Nat.eqb Nat.eqb pay s 2 = s.
  Proof. vm_compute. reflexivity. Qed.

  (* ExGoOrdered — Worker: Do writes stop (owning token 2), `go x.do` hands the token over, do reads stop and closes
     done (token back), wait receives from done and only then resets stop. *)
  Definition goordered : hstate nat nat nat := mkHState [
    T [HAccess 2 W; HGo 2] [(2, MW)];                     (* Worker.Do: x.stop = make(..); go x.do(fn) *)
    T [HStart 2; HAccess 2 R; HSend 3] [];                (* Worker.do: fn(x.stop); close(x.done) *)
    T [HRecv 3; HAccess 2 W] []                           (* Worker.wait: <-x.done; x.stop = nil *)
  ] [].

  Example goordered_disciplined : h_disciplined nat nat nat Nat.eqb pay gd goordered = true.
  Proof. vm_compute. reflexivity. Qed.

  Example goordered_no_race : forall sched, ~ h_race nat nat nat (h_run nat nat nat Nat.eqb Nat.eqb pay goordered sched).
  Proof.
    apply (h_disciplined_no_race nat nat nat Nat.eqb Nat.eqb Nat.eqb_eq Nat.eqb_eq pay gd).
    - apply h_inv_owners; [exact Nat.eqb_eq|reflexivity|vm_compute; reflexivity].
    - exact goordered_disciplined.
  Qed.

  (* without the completion signal (wait resets stop without receiving from done): caught, and it races *)
  Definition goordered_bad : hstate nat nat nat := mkHState [
    T [HAccess 2 W; HGo 2] [(2, MW)];
    T [HStart 2; HAccess 2 R] [];
    T [HAccess 2 W] []
  ] [].
  Example goordered_bad_not_disciplined : h_disciplined nat nat nat Nat.eqb pay gd goordered_bad = false.
  Proof. vm_compute. reflexivity. Qed.
  Example goordered_bad_races :
    exists sched, h_race nat nat nat (h_run nat nat nat Nat.eqb Nat.eqb pay goordered_bad sched).
  Proof. exists [0; 0; 1]. exists 1, 2. do 4 eexists. repeat split; try (vm_compute; reflexivity); auto. Qed.
End HBExamples.
