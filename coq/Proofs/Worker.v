(* Proofs about Model/Worker.v: the inductive invariant of the faithful model, the five clauses of C17, the
   termination measure, and refutations on the defective variants. *)
From Coq Require Import List Arith Bool Lia.
From BB.Model Require Import Worker.
Import ListNotations.

Arguments Nat.sub : simpl never.
Arguments Nat.eqb : simpl never.
Arguments Nat.ltb : simpl never.
Arguments Nat.leb : simpl never.

(* ------------------------------------------------------------------------------------------------------------ *)
(* list update *)
(* ------------------------------------------------------------------------------------------------------------ *)
Lemma upd_length (A : Type) (l : list A) : forall n x, length (upd l n x) = length l.
Proof. induction l as [|a t IH]; intros [|n] x; cbn; auto. Qed.

Lemma nth_error_upd_eq (A : Type) (l : list A) : forall n x, n < length l -> nth_error (upd l n x) n = Some x.
Proof.
  induction l as [|a t IH]; intros [|n] x Hlt; cbn in *; try lia; auto. apply IH. lia.
Qed.

Lemma nth_error_upd_neq (A : Type) (l : list A) : forall n m x, n <> m -> nth_error (upd l n x) m = nth_error l m.
Proof.
  induction l as [|a t IH]; intros [|n] [|m] x Hne; cbn; auto; try congruence.
Qed.

Lemma nth_upd_eq (l : list nat) : forall n x d, n < length l -> nth n (upd l n x) d = x.
Proof.
  induction l as [|a t IH]; intros [|n] x d Hlt; cbn in *; try lia; auto. apply IH. lia.
Qed.

Lemma nth_upd_neq (l : list nat) : forall n m x d, n <> m -> nth m (upd l n x) d = nth m l d.
Proof.
  induction l as [|a t IH]; intros [|n] [|m] x d Hne; cbn; auto; try congruence.
Qed.

Lemma In_upd (A : Type) (l : list A) : forall n x y, In y (upd l n x) -> y = x \/ In y l.
Proof.
  induction l as [|a t IH]; intros [|n] x y Hin; cbn in *; auto.
  - destruct Hin as [E|Hin]; auto.
  - destruct Hin as [E|Hin]; auto. destruct (IH _ _ _ Hin); auto.
Qed.

Lemma nth_app_zero (l : list nat) (g : nat) : nth g (l ++ [0]) 0 = nth g l 0.
Proof.
  destruct (Nat.lt_ge_cases g (length l)) as [Hlt|Hge].
  - apply app_nth1; assumption.
  - rewrite (nth_overflow l) by assumption. rewrite app_nth2 by assumption.
    destruct (g - length l) as [|[|n]]; reflexivity.
Qed.

Lemma nth_error_some_lt (A : Type) (l : list A) n x : nth_error l n = Some x -> n < length l.
Proof. intros H. apply nth_error_Some. congruence. Qed.

Lemma nth_error_app_last (A : Type) (l : list A) x : nth_error (l ++ [x]) (length l) = Some x.
Proof. rewrite nth_error_app2 by lia. rewrite Nat.sub_diag. reflexivity. Qed.

(* ------------------------------------------------------------------------------------------------------------ *)
(* counting the outstanding holders of a WaitGroup object *)
(* ------------------------------------------------------------------------------------------------------------ *)
Definition outst (g : nat) (h : holder) : nat := if (hgen h =? g) && negb (hdone h) then 1 else 0.
Fixpoint cnt (g : nat) (hs : list holder) : nat :=
  match hs with [] => 0 | h :: t => outst g h + cnt g t end.

Lemma cnt_app g hs1 hs2 : cnt g (hs1 ++ hs2) = cnt g hs1 + cnt g hs2.
Proof. induction hs1 as [|h t IH]; cbn [cnt app]; lia. Qed.

Lemma cnt_upd_done g : forall hs h hh,
  nth_error hs h = Some hh -> hdone hh = false ->
  cnt g (upd hs h {| hgen := hgen hh; hdone := true |}) + (if hgen hh =? g then 1 else 0) = cnt g hs.
Proof.
  induction hs as [|a t IH]; intros [|h] hh Hn Hd; cbn in Hn; try discriminate.
  - inversion Hn; subst a. cbn [upd cnt]. unfold outst at 1 2. cbn [hgen hdone]. rewrite Hd.
    destruct (hgen hh =? g); cbn; lia.
  - cbn [upd cnt]. specialize (IH h hh Hn Hd). lia.
Qed.

Lemma cnt_zero_done g : forall hs hh, cnt g hs = 0 -> In hh hs -> hgen hh = g -> hdone hh = true.
Proof.
  induction hs as [|a t IH]; intros hh Hc Hin Hg; cbn in *; [contradiction|].
  destruct Hin as [E|Hin].
  - subst a. unfold outst in Hc. rewrite Hg, Nat.eqb_refl in Hc. destruct (hdone hh); auto. cbn in Hc. lia.
  - apply IH; auto. lia.
Qed.

Lemma cnt_pos_exists g : forall hs, cnt g hs <> 0 -> exists h hh, nth_error hs h = Some hh /\ hdone hh = false.
Proof.
  induction hs as [|a t IH]; intros Hc; cbn in Hc; [congruence|].
  destruct (outst g a) eqn:Eo.
  - destruct (IH Hc) as (h & hh & Hn & Hd). exists (S h), hh. auto.
  - exists 0, a. split; [reflexivity|]. unfold outst in Eo.
    destruct (hdone a); auto. rewrite andb_false_r in Eo. discriminate.
Qed.

Lemma cnt_ge1 : forall hs h hh, nth_error hs h = Some hh -> hdone hh = false -> cnt (hgen hh) hs <> 0.
Proof.
  induction hs as [|a t IH]; intros [|h] hh Hn Hd; cbn in Hn; try discriminate.
  - inversion Hn; subst a. cbn [cnt]. unfold outst. rewrite Nat.eqb_refl, Hd. cbn. lia.
  - cbn [cnt]. specialize (IH h hh Hn Hd). lia.
Qed.

(* ------------------------------------------------------------------------------------------------------------ *)
(* the invariant of the faithful model *)
(* ------------------------------------------------------------------------------------------------------------ *)
Definition nd_all (hs : list holder) (Q : holder -> Prop) : Prop :=
  forall hh, In hh hs -> hdone hh = false -> Q hh.

Definition dead (i : inst) : Prop := wp i = WExit /\ ip i = IExit /\ stopc i = true /\ donec i = true.

(* what holds of the instance x.stop/x.done point to (index k), given mu, x.wg and the holders.
   The third conjunct is the user's side of the contract: a function that has not returned on its own (`early` false)
   is still to be started or running for as long as its stop channel is open. *)
Definition cur_ok (m : bool) (w : option nat) (hs : list holder) (k : nat) (i : inst) : Prop :=
  (ip i <> IReady -> isc i = Some k) /\
  (donec i = true <-> ip i = IExit) /\
  (early i = false -> stopc i = false -> ip i = IReady \/ ip i = IRun) /\
  match wp i with
  | WLoop => m = false /\ stopc i = false /\ nd_all hs (fun hh => w = Some (hgen hh))
  | WWait g => m = false /\ stopc i = false /\ nd_all hs (fun hh => w = Some (hgen hh) \/ hgen hh = g)
  | WClose => m = true /\ stopc i = false /\ w = None /\ nd_all hs (fun _ => False)
  | WRecv => m = true /\ stopc i = true /\ w = None /\ nd_all hs (fun _ => False)
  | WClear => m = true /\ stopc i = true /\ donec i = true /\ w = None /\ nd_all hs (fun _ => False)
  | WLock | WRecvL _ | WExit => False
  end.

Definition Inv (s : st) : Prop :=
  panicked s = false /\
  (forall g, nth g (gens s) 0 = cnt g (holders s)) /\
  (forall g, xwg s = Some g -> g < length (gens s)) /\
  (forall j i, nth_error (insts s) j = Some i -> xinst s <> Some j -> dead i) /\
  match xinst s with
  | None => mu s = false /\ xwg s = None /\ nd_all (holders s) (fun _ => False)
  | Some k => S k = length (insts s) /\
              exists i, nth_error (insts s) k = Some i /\ cur_ok (mu s) (xwg s) (holders s) k i
  end.

Lemma Inv_init : Inv init.
Proof.
  unfold Inv, init; cbn.
  split; [reflexivity|]. split; [intros [|g]; reflexivity|]. split; [intros g H; discriminate|].
  split; [intros [|j] i H; discriminate|].
  split; [reflexivity|]. split; [reflexivity|]. intros hh [].
Qed.

Lemma upd_upd (A : Type) (l : list A) : forall n x y, upd (upd l n x) n y = upd l n y.
Proof. induction l as [|a t IH]; intros [|n] x y; cbn; auto. rewrite IH. reflexivity. Qed.

Lemma modi_some s k f i : nth_error (insts s) k = Some i -> modi s k f = st_insts s (upd (insts s) k (f i)).
Proof. intros H. unfold modi. rewrite H. reflexivity. Qed.

(* a watcher or do goroutine that can still move belongs to the instance x.stop/x.done point to *)
Lemma live_is_current s j i :
  Inv s -> nth_error (insts s) j = Some i -> (wp i <> WExit \/ ip i <> IExit) ->
  xinst s = Some j /\ S j = length (insts s) /\ cur_ok (mu s) (xwg s) (holders s) j i.
Proof.
  intros (HP & HG & HW & HD & HC) Hn Hlive.
  destruct (xinst s) as [k|] eqn:Ex.
  - destruct (Nat.eq_dec k j) as [E|NE].
    + subst k. destruct HC as (Hlen & i' & Hn' & Hok). rewrite Hn in Hn'. inversion Hn'; subst i'. auto.
    + exfalso. assert (Hd : dead i) by (apply (HD j i Hn); congruence).
      destruct Hd as (H1 & H2 & _). destruct Hlive; contradiction.
  - exfalso. assert (Hd : dead i) by (apply (HD j i Hn); congruence).
    destruct Hd as (H1 & H2 & _). destruct Hlive; contradiction.
Qed.

(* re-establishing the invariant after a step that changes only mu, x.wg and the current instance *)
Lemma Inv_upd_cur s k i' s' :
  Inv s -> xinst s = Some k -> k < length (insts s) ->
  xinst s' = Some k -> gens s' = gens s -> insts s' = upd (insts s) k i' -> holders s' = holders s ->
  panicked s' = false ->
  (forall g, xwg s' = Some g -> g < length (gens s)) ->
  cur_ok (mu s') (xwg s') (holders s) k i' ->
  Inv s'.
Proof.
  intros (HP & HG & HW & HD & HC) Ex Hlt Ex' Eg Ei Eh Ep Hw' Hok.
  rewrite Ex in HC. destruct HC as (Hlen & _).
  unfold Inv. rewrite Ex', Eg, Ei, Eh, Ep.
  split; [reflexivity|]. split; [exact HG|]. split; [exact Hw'|]. split.
  - intros j i Hn Hne. assert (k <> j) by congruence.
    rewrite nth_error_upd_neq in Hn by assumption. apply (HD j i Hn). congruence.
  - rewrite upd_length. split; [exact Hlen|]. exists i'. split; [|exact Hok].
    apply nth_error_upd_eq. exact Hlt.
Qed.

Ltac fin_cur HI Ex Hlt i' :=
  eapply (Inv_upd_cur _ _ i' _ HI Ex Hlt); cbn; try reflexivity; try assumption; try exact (proj1 HI).

Lemma Inv_w s k s' : Inv s -> w_step faithful s k = Some s' -> Inv s'.
Proof.
  intros HI Hs. unfold w_step in Hs.
  destruct (nth_error (insts s) k) as [i|] eqn:Hn; [|discriminate].
  assert (Hlt : k < length (insts s)) by (eapply nth_error_some_lt; eauto).
  destruct (wp i) eqn:Ewp.
  8: discriminate.
  all: destruct (live_is_current s k i HI Hn) as (Ex & Hlen & Hok); [left; rewrite Ewp; discriminate|].
  all: destruct Hok as (Hisc & Hdi & Hct & Hok); rewrite Ewp in Hok.
  - (* WLoop *)
    destruct Hok as (Hm & Hsc & Hnd). rewrite Hm in Hs.
    destruct (xwg s) as [g|] eqn:Exw; inversion Hs; subst s'; clear Hs.
    + rewrite (modi_some _ k _ i) by exact Hn.
      fin_cur HI Ex Hlt (set_wp (WWait g) i).
      * intros g0 H; discriminate.
      * split; [exact Hisc|]. split; [exact Hdi|]. split; [exact Hct|]. repeat split; auto.
        intros hh Hin Hd. right. specialize (Hnd hh Hin Hd). cbn in Hnd. congruence.
    + rewrite (modi_some _ k _ i) by exact Hn.
      fin_cur HI Ex Hlt (set_wp WClose i).
      * intros g0 H; discriminate.
      * split; [exact Hisc|]. split; [exact Hdi|]. split; [exact Hct|]. repeat split; auto.
        intros hh Hin Hd. specialize (Hnd hh Hin Hd). cbn in Hnd. discriminate.
  - (* WWait g *)
    destruct Hok as (Hm & Hsc & Hnd).
    destruct (nth g (gens s) 0 =? 0) eqn:Ez; [|discriminate].
    apply Nat.eqb_eq in Ez. inversion Hs; subst s'; clear Hs. cbn [f_norecheck faithful].
    rewrite (modi_some _ k _ i) by exact Hn.
    pose proof HI as (HP & HG & HW & HD & HC).
    fin_cur HI Ex Hlt (set_wp WLoop i).
    split; [exact Hisc|]. split; [exact Hdi|]. split; [exact Hct|]. repeat split; auto.
    intros hh Hin Hd. destruct (Hnd hh Hin Hd) as [E|E]; [exact E|].
    exfalso. rewrite HG in Ez. pose proof (cnt_zero_done g _ hh Ez Hin E). congruence.
  - (* WLock *) contradiction.
  - (* WClose *)
    destruct Hok as (Hm & Hsc & Hw & Hnd).
    rewrite Ex, Hn, Hsc in Hs. cbn [f_early faithful] in Hs. inversion Hs; subst s'; clear Hs.
    rewrite (modi_some s k _ i) by exact Hn.
    erewrite (modi_some _ k _ (set_stopc i)) by (cbn; apply nth_error_upd_eq; exact Hlt).
    cbn [insts st_insts]. rewrite upd_upd.
    fin_cur HI Ex Hlt (set_wp WRecv (set_stopc i)).
    + rewrite Hw. intros g0 H; discriminate.
    + split; [exact Hisc|]. split; [exact Hdi|]. split; [intros _ E; discriminate E|]. repeat split; auto.
  - (* WRecv *)
    destruct Hok as (Hm & Hsc & Hw & Hnd).
    rewrite Ex, Hn in Hs. destruct (donec i) eqn:Edc; [|discriminate].
    inversion Hs; subst s'; clear Hs.
    rewrite (modi_some s k _ i) by exact Hn.
    fin_cur HI Ex Hlt (set_wp WClear i).
    + rewrite Hw. intros g0 H; discriminate.
    + split; [exact Hisc|]. split; [cbn; rewrite Edc; exact Hdi|]. split; [exact Hct|]. repeat split; auto.
  - (* WRecvL *) contradiction.
  - (* WClear *)
    destruct Hok as (Hm & Hsc & Hdc & Hw & Hnd).
    inversion Hs; subst s'; clear Hs.
    rewrite (modi_some _ k _ i) by exact Hn.
    destruct HI as (HP & HG & HW & HD & HC).
    unfold Inv; cbn.
    split; [exact HP|]. split; [exact HG|]. split; [exact HW|]. split.
    + intros j i0 Hj _. destruct (Nat.eq_dec k j) as [E|NE].
      * subst j. rewrite nth_error_upd_eq in Hj by exact Hlt. inversion Hj; subst i0.
        unfold dead; cbn. repeat split; auto. apply Hdi. exact Hdc.
      * rewrite nth_error_upd_neq in Hj by exact NE. apply (HD j i0 Hj). congruence.
    + auto.
Qed.

(* the finite part of cur_ok after a step of the do goroutine: case analysis on the watcher pc *)
Ltac wp_cases Hok := cbn; destruct (wp _); try contradiction; intuition (try discriminate; try congruence).

Lemma Inv_i s k s' : Inv s -> i_step s k = Some s' -> Inv s'.
Proof.
  intros HI Hs. unfold i_step in Hs.
  destruct (nth_error (insts s) k) as [i|] eqn:Hn; [|discriminate].
  assert (Hlt : k < length (insts s)) by (eapply nth_error_some_lt; eauto).
  destruct (ip i) eqn:Eip.
  5: discriminate.
  all: destruct (live_is_current s k i HI Hn) as (Ex & Hlen & Hok); [right; rewrite Eip; discriminate|].
  all: destruct Hok as (Hisc & Hdi & Hct & Hok); rewrite Eip in Hdi, Hct.
  all: assert (Hdc : donec i = false)
         by (destruct (donec i); [destruct Hdi as (Hdi & _); specialize (Hdi eq_refl); discriminate|reflexivity]).
  - (* IReady: the goroutine starts and reads x.stop *)
    inversion Hs; subst s'; clear Hs. rewrite (modi_some s k _ i) by exact Hn.
    fin_cur HI Ex Hlt (set_ip IRun (xinst s) i).
    + apply HI.
    + split; [intros _; exact Ex|]. split; [cbn; rewrite Hdc; split; discriminate|]. split; [auto|]. exact Hok.
  - (* IRun: the function sees stop closed *)
    assert (Hk : isc i = Some k) by (apply Hisc; rewrite Eip; discriminate).
    rewrite Hk, Hn in Hs.
    destruct (stopc i) eqn:Esc; [|discriminate].
    inversion Hs; subst s'; clear Hs. rewrite (modi_some s k _ i) by exact Hn.
    fin_cur HI Ex Hlt (set_ip ISaw (Some k) i).
    + apply HI.
    + split; [intros _; reflexivity|]. split; [cbn; rewrite Hdc; split; discriminate|].
      split; [cbn; rewrite Esc; intros _ E; discriminate E|]. cbn. rewrite Esc. exact Hok.
  - (* ISaw: the function returns *)
    inversion Hs; subst s'; clear Hs. rewrite (modi_some s k _ i) by exact Hn.
    fin_cur HI Ex Hlt (set_ip IRet (isc i) i).
    + apply HI.
    + split; [intros _; apply Hisc; rewrite Eip; discriminate|]. split; [cbn; rewrite Hdc; split; discriminate|].
      split; [|exact Hok]. intros E1 E2. destruct (Hct E1 E2); discriminate.
  - (* IRet: close(x.done) *)
    rewrite Ex, Hn, Hdc in Hs. inversion Hs; subst s'; clear Hs.
    rewrite (modi_some s k _ i) by exact Hn.
    erewrite (modi_some _ k _ (set_donec i)) by (cbn; apply nth_error_upd_eq; exact Hlt).
    cbn [insts st_insts]. rewrite upd_upd.
    fin_cur HI Ex Hlt (set_ip IExit (isc i) (set_donec i)).
    + apply HI.
    + split; [intros _; apply Hisc; rewrite Eip; discriminate|]. split; [split; reflexivity|].
      split; [intros E1 E2; destruct (Hct E1 E2); discriminate|].
      cbn. destruct (wp i); try contradiction; intuition (try discriminate; try congruence).
Qed.

(* the function returns on its own while stop is open: allowed, the instance stays current until the watcher clears it *)
Lemma Inv_ie s k s' : Inv s -> i_early_step s k = Some s' -> Inv s'.
Proof.
  intros HI Hs. unfold i_early_step in Hs.
  destruct (nth_error (insts s) k) as [i|] eqn:Hn; [|discriminate].
  assert (Hlt : k < length (insts s)) by (eapply nth_error_some_lt; eauto).
  destruct (ip i) eqn:Eip; try discriminate.
  destruct (live_is_current s k i HI Hn) as (Ex & Hlen & Hok); [right; rewrite Eip; discriminate|].
  destruct Hok as (Hisc & Hdi & Hct & Hok); rewrite Eip in Hdi.
  assert (Hdc : donec i = false)
    by (destruct (donec i); [destruct Hdi as (Hdi & _); specialize (Hdi eq_refl); discriminate|reflexivity]).
  inversion Hs; subst s'; clear Hs. rewrite (modi_some s k _ i) by exact Hn.
  fin_cur HI Ex Hlt (set_early i).
  - apply HI.
  - split; [intros _; apply Hisc; rewrite Eip; discriminate|]. split; [cbn; rewrite Hdc; split; discriminate|].
    split; [intros E; discriminate E|]. exact Hok.
Qed.

Lemma cur_ok_mono m w hs hs' k i :
  (forall y, In y hs' -> hdone y = false -> In y hs) -> cur_ok m w hs k i -> cur_ok m w hs' k i.
Proof.
  intros Hsub (Hisc & Hdi & Hct & Hok). split; [exact Hisc|]. split; [exact Hdi|]. split; [exact Hct|].
  unfold nd_all in *. destruct (wp i); try contradiction; intuition eauto.
Qed.

Lemma Inv_done s h s' : Inv s -> done_step s h = Some s' -> Inv s'.
Proof.
  intros (HP & HG & HW & HD & HC) Hs. unfold done_step in Hs.
  destruct (nth_error (holders s) h) as [hh|] eqn:Hn; [|discriminate].
  destruct (hdone hh) eqn:Hd; [discriminate|].
  destruct (nth (hgen hh) (gens s) 0) as [|c] eqn:Eg.
  - exfalso. rewrite HG in Eg. exact (cnt_ge1 _ _ _ Hn Hd Eg).
  - inversion Hs; subst s'; clear Hs.
    assert (Hglt : hgen hh < length (gens s)).
    { destruct (Nat.lt_ge_cases (hgen hh) (length (gens s))) as [L|G]; [exact L|].
      rewrite nth_overflow in Eg by exact G. discriminate. }
    assert (Hsub : forall y, In y (upd (holders s) h {| hgen := hgen hh; hdone := true |}) -> hdone y = false ->
                             In y (holders s)).
    { intros y Hin Hy. destruct (In_upd _ _ _ _ _ Hin) as [E|Hin']; [|exact Hin'].
      subst y. discriminate. }
    unfold Inv; cbn.
    split; [exact HP|]. split.
    { intros g. pose proof (cnt_upd_done g _ _ _ Hn Hd) as Hc. specialize (HG g).
      destruct (Nat.eq_dec (hgen hh) g) as [E|NE].
      - subst g. rewrite nth_upd_eq by exact Hglt. rewrite Nat.eqb_refl in Hc. lia.
      - rewrite nth_upd_neq by exact NE. apply Nat.eqb_neq in NE. rewrite NE in Hc. lia. }
    split; [intros g Hg; rewrite upd_length; auto|].
    split; [exact HD|].
    destruct (xinst s) as [k|].
    + destruct HC as (Hlen & i & Hi & Hok). split; [exact Hlen|]. exists i. split; [exact Hi|].
      eapply cur_ok_mono; eauto.
    + destruct HC as (Hm & Hw & Hnd). repeat split; auto. intros y Hin Hy. eapply Hnd; eauto.
Qed.

Lemma do_gens gs hs g :
  (forall g', nth g' gs 0 = cnt g' hs) -> g < length gs ->
  forall g', nth g' (upd gs g (S (nth g gs 0))) 0 = cnt g' (hs ++ [{| hgen := g; hdone := false |}]).
Proof.
  intros HG Hlt g'. rewrite cnt_app. cbn [cnt]. unfold outst; cbn [hgen hdone negb]. rewrite andb_true_r.
  destruct (Nat.eq_dec g g') as [E|NE].
  - subst g'. rewrite nth_upd_eq by exact Hlt. rewrite Nat.eqb_refl, HG. lia.
  - rewrite nth_upd_neq by exact NE. apply Nat.eqb_neq in NE. rewrite NE, HG. lia.
Qed.

(* the holder clauses after Do: every old outstanding holder keeps its clause, the new one is in the published object *)
Lemma cur_ok_do w g hs k i :
  (w = Some g \/ w = None) ->
  cur_ok false w hs k i -> cur_ok false (Some g) (hs ++ [{| hgen := g; hdone := false |}]) k i.
Proof.
  intros Hw (Hisc & Hdi & Hct & Hok). split; [exact Hisc|]. split; [exact Hdi|]. split; [exact Hct|].
  unfold nd_all in *. destruct (wp i); try contradiction.
  - destruct Hok as (H1 & H2 & H5). repeat split; auto.
    intros hh Hin Hd. apply in_app_or in Hin. destruct Hin as [Hin|[E|[]]].
    + specialize (H5 hh Hin Hd). destruct Hw as [E|E]; rewrite E in H5; [exact H5|discriminate].
    + subst hh. reflexivity.
  - destruct Hok as (H1 & H2 & H5). repeat split; auto.
    intros hh Hin Hd. apply in_app_or in Hin. destruct Hin as [Hin|[E|[]]].
    + destruct (H5 hh Hin Hd) as [H|H]; [|right; exact H].
      left. destruct Hw as [E|E]; rewrite E in H; [exact H|discriminate].
    + subst hh. left. reflexivity.
  - destruct Hok as (H1 & _). discriminate.
  - destruct Hok as (H1 & _). discriminate.
  - destruct Hok as (H1 & _). discriminate.
Qed.

Lemma Inv_do s s' : Inv s -> do_step faithful s = Some s' -> Inv s'.
Proof.
  intros (HP & HG & HW & HD & HC) Hs. unfold do_step in Hs.
  destruct (mu s) eqn:Hm; [discriminate|]. cbn [f_nonewgen faithful andb] in Hs.
  destruct (xinst s) as [k|] eqn:Ex.
  - destruct HC as (Hlen & i & Hi & Hok).
    destruct (xwg s) as [g|] eqn:Ew; inversion Hs; subst s'; clear Hs; unfold Inv; cbn.
    + assert (Hg : g < length (gens s)) by (apply HW; reflexivity).
      split; [exact HP|]. split; [apply do_gens; assumption|].
      split; [intros g0 E; inversion E; subst g0; rewrite upd_length; exact Hg|].
      split; [exact HD|]. split; [exact Hlen|]. exists i. split; [exact Hi|].
      apply cur_ok_do with (w := Some g); auto.
    + assert (HG' : forall g', nth g' (gens s ++ [0]) 0 = cnt g' (holders s))
        by (intros g'; rewrite nth_app_zero; apply HG).
      assert (Hg : length (gens s) < length (gens s ++ [0])) by (rewrite app_length; cbn; lia).
      split; [exact HP|]. split; [apply do_gens; assumption|].
      split; [intros g0 E; inversion E; subst g0; rewrite upd_length; exact Hg|].
      split; [exact HD|]. split; [exact Hlen|]. exists i. split; [exact Hi|].
      apply cur_ok_do with (w := None); auto.
  - destruct HC as (_ & Hw & Hnd). rewrite Hw in Hs. inversion Hs; subst s'; clear Hs; unfold Inv; cbn.
    assert (HG' : forall g', nth g' (gens s ++ [0]) 0 = cnt g' (holders s))
      by (intros g'; rewrite nth_app_zero; apply HG).
    assert (Hg : length (gens s) < length (gens s ++ [0])) by (rewrite app_length; cbn; lia).
    split; [exact HP|]. split; [apply do_gens; assumption|].
    split; [intros g0 E; inversion E; subst g0; rewrite upd_length; exact Hg|].
    split.
    { intros j i Hj Hne. assert (Hjl : j < length (insts s ++ [new_inst])) by (eapply nth_error_some_lt; eauto).
      rewrite app_length in Hjl; cbn in Hjl.
      assert (j <> length (insts s)) by congruence.
      rewrite nth_error_app1 in Hj by lia. apply (HD j i Hj). discriminate. }
    split; [rewrite app_length; cbn; lia|].
    exists new_inst. split; [apply nth_error_app_last|].
    split; [intros H; exfalso; apply H; reflexivity|]. cbn.
    split; [split; discriminate|]. split; [auto|].
    repeat split; auto.
    intros hh Hin Hd. apply in_app_or in Hin. destruct Hin as [Hin|[E|[]]].
    + exfalso. exact (Hnd hh Hin Hd).
    + subst hh. reflexivity.
Qed.

Theorem Inv_step s l s' : Inv s -> step faithful s l = Some s' -> Inv s'.
Proof.
  intros HI Hs. unfold step in Hs. destruct (panicked s); [discriminate|].
  destruct l as [|h|k|k|k].
  - eapply Inv_do; eauto.
  - eapply Inv_done; eauto.
  - eapply Inv_w; eauto.
  - eapply Inv_i; eauto.
  - eapply Inv_ie; eauto.
Qed.

Lemma Inv_step_or_stay s l : Inv s -> Inv (step_or_stay faithful s l).
Proof.
  intros HI. unfold step_or_stay. destruct (step faithful s l) eqn:E; [eapply Inv_step; eauto|exact HI].
Qed.

Theorem Inv_run sched : forall s, Inv s -> Inv (run faithful s sched).
Proof.
  induction sched as [|l t IH]; intros s HI; cbn; [exact HI|]. apply IH. apply Inv_step_or_stay. exact HI.
Qed.

Definition reachable (s : st) : Prop := exists sched, s = run faithful init sched.

Corollary reachable_Inv s : reachable s -> Inv s.
Proof. intros (sched & E). subst s. apply Inv_run, Inv_init. Qed.

Lemma reachable_step s l s' : reachable s -> step faithful s l = Some s' -> reachable s'.
Proof.
  intros (sched & E) Hs. exists (sched ++ [l]). unfold run. rewrite fold_left_app. cbn.
  unfold run in E. rewrite <- E. unfold step_or_stay. rewrite Hs. reflexivity.
Qed.

(* ------------------------------------------------------------------------------------------------------------ *)
(* clause 1: never two instances *)
(* ------------------------------------------------------------------------------------------------------------ *)
Theorem single_instance s :
  reachable s ->
  forall i j ii ij, nth_error (insts s) i = Some ii -> nth_error (insts s) j = Some ij ->
                    ip ii <> IExit -> ip ij <> IExit -> i = j.
Proof.
  intros HR i j ii ij Hi Hj Ai Aj. apply reachable_Inv in HR.
  destruct (live_is_current s i ii HR Hi (or_intror Ai)) as (E1 & _).
  destruct (live_is_current s j ij HR Hj (or_intror Aj)) as (E2 & _). congruence.
Qed.

Lemma countb_le1 (A : Type) (p : A -> bool) : forall l,
  (forall i j x y, nth_error l i = Some x -> nth_error l j = Some y -> p x = true -> p y = true -> i = j) ->
  countb p l <= 1.
Proof.
  unfold countb. induction l as [|a t IH]; intros H; cbn; [lia|].
  destruct (p a) eqn:Pa.
  - cbn. assert (E : filter p t = []).
    { destruct (filter p t) as [|b r] eqn:Ef; [reflexivity|]. exfalso.
      assert (Hin : In b (filter p t)) by (rewrite Ef; left; reflexivity).
      apply filter_In in Hin. destruct Hin as (Hin & Pb). apply In_nth_error in Hin. destruct Hin as (n & Hn).
      specialize (H 0 (S n) a b eq_refl Hn Pa Pb). discriminate. }
    rewrite E. cbn. lia.
  - apply IH. intros i j x y Hi Hj Px Py. specialize (H (S i) (S j) x y Hi Hj Px Py). lia.
Qed.

Corollary at_most_one_alive s : reachable s -> countb alive (insts s) <= 1 /\ countb running (insts s) <= 1.
Proof.
  intros HR. split; apply countb_le1; intros i j x y Hi Hj Px Py; apply (single_instance s HR i j x y Hi Hj).
  - unfold alive in Px. destruct (ip x); congruence.
  - unfold alive in Py. destruct (ip y); congruence.
  - unfold running in Px. destruct (ip x); congruence.
  - unfold running in Py. destruct (ip y); congruence.
Qed.

(* ------------------------------------------------------------------------------------------------------------ *)
(* clause 2: held means running, stop open *)
(* ------------------------------------------------------------------------------------------------------------ *)
Theorem held_means_running s :
  reachable s ->
  forall h hh, nth_error (holders s) h = Some hh -> hdone hh = false ->
  exists k ik, xinst s = Some k /\ nth_error (insts s) k = Some ik /\
               stopc ik = false /\
               (wp ik = WLoop \/ exists g, wp ik = WWait g) /\
               (ip ik <> IReady -> isc ik = Some k) /\
               (early ik = false -> donec ik = false /\ (ip ik = IReady \/ ip ik = IRun)).
Proof.
  intros HR h hh Hn Hd. apply reachable_Inv in HR. destruct HR as (HP & HG & HW & HD & HC).
  apply nth_error_In in Hn.
  destruct (xinst s) as [k|].
  - destruct HC as (Hlen & i & Hi & Hisc & Hdi & Hct & Hok). exists k, i. split; [reflexivity|]. split; [exact Hi|].
    assert (Hgoal : stopc i = false -> (wp i = WLoop \/ exists g, wp i = WWait g) ->
              stopc i = false /\ (wp i = WLoop \/ exists g, wp i = WWait g) /\ (ip i <> IReady -> isc i = Some k) /\
              (early i = false -> donec i = false /\ (ip i = IReady \/ ip i = IRun))).
    { intros Hs Hw. split; [exact Hs|]. split; [exact Hw|]. split; [exact Hisc|]. intros He. split.
      - destruct (donec i); [|reflexivity]. destruct Hdi as (Hdi & _). specialize (Hdi eq_refl).
        destruct (Hct He Hs) as [E|E]; rewrite E in Hdi; discriminate.
      - apply Hct; assumption. }
    destruct (wp i) eqn:Ewp; try contradiction.
    + destruct Hok as (H1 & H2 & H5). apply Hgoal; auto.
    + destruct Hok as (H1 & H2 & H5). apply Hgoal; eauto.
    + destruct Hok as (_ & _ & _ & Hnd). exfalso. exact (Hnd hh Hn Hd).
    + destruct Hok as (_ & _ & _ & Hnd). exfalso. exact (Hnd hh Hn Hd).
    + destruct Hok as (_ & _ & _ & _ & Hnd). exfalso. exact (Hnd hh Hn Hd).
  - destruct HC as (_ & _ & Hnd). exfalso. exact (Hnd hh Hn Hd).
Qed.

(* ------------------------------------------------------------------------------------------------------------ *)
(* clause 3: stop is closed only after every outstanding done function has been called *)
(* ------------------------------------------------------------------------------------------------------------ *)
Lemma modi_nth s k0 f k ik :
  nth_error (insts s) k = Some ik ->
  exists ik1, nth_error (insts (modi s k0 f)) k = Some ik1 /\ (ik1 = ik \/ (k = k0 /\ ik1 = f ik)).
Proof.
  intros Hn. unfold modi. destruct (nth_error (insts s) k0) as [i0|] eqn:E0; [|eauto].
  cbn. destruct (Nat.eq_dec k0 k) as [E|NE].
  - subst k0. rewrite nth_error_upd_eq by (eapply nth_error_some_lt; eauto).
    rewrite E0 in Hn. inversion Hn; subst i0. eauto.
  - rewrite nth_error_upd_neq by exact NE. eauto.
Qed.

Ltac same Hn :=
  match goal with
  | Hn' : nth_error (insts (modi ?S0 ?k0 ?f)) ?k = Some ?ik' |- _ =>
      let x := fresh "x" in let Hx := fresh "Hx" in let E := fresh "E" in
      destruct (modi_nth S0 k0 f k _ Hn) as (x & Hx & [E | [_ E]]);
      rewrite Hx in Hn'; inversion Hn'; subst; cbn in *; congruence
  | Hn' : nth_error (insts (panic _)) _ = Some _ |- _ =>
      cbn in Hn'; rewrite Hn in Hn'; inversion Hn'; subst; congruence
  end.

(* the only step that closes a stop channel is a watcher at worker.go:67 *)
Lemma stopc_step s l s' k ik ik' :
  step faithful s l = Some s' ->
  nth_error (insts s) k = Some ik -> nth_error (insts s') k = Some ik' ->
  stopc ik = false -> stopc ik' = true ->
  exists kw iw, l = LW kw /\ nth_error (insts s) kw = Some iw /\ wp iw = WClose /\ xinst s = Some k.
Proof.
  intros Hs Hn Hn' Ho Hc. unfold step in Hs. destruct (panicked s); [discriminate|].
  assert (Hlt : k < length (insts s)) by (eapply nth_error_some_lt; eauto).
  destruct l as [|h|kw|ki|ke].
  5: { exfalso. unfold i_early_step in Hs. destruct (nth_error (insts s) ke) as [ii|] eqn:Hi; [|discriminate].
       destruct (ip ii); try discriminate. inversion Hs; subst s'; same Hn. }
  - exfalso. unfold do_step in Hs. destruct (mu s); [discriminate|]. cbn [f_nonewgen faithful andb] in Hs.
    destruct (xinst s); destruct (xwg s); inversion Hs; subst s'; cbn in Hn';
      rewrite ?nth_error_app1 in Hn' by exact Hlt; rewrite Hn in Hn'; inversion Hn'; subst; congruence.
  - exfalso. unfold done_step in Hs. destruct (nth_error (holders s) h) as [hh|]; [|discriminate].
    destruct (hdone hh); [discriminate|]. destruct (nth (hgen hh) (gens s) 0); inversion Hs; subst s'; cbn in Hn';
      rewrite Hn in Hn'; inversion Hn'; subst; congruence.
  - unfold w_step in Hs. destruct (nth_error (insts s) kw) as [iw|] eqn:Hw; [|discriminate].
    destruct (wp iw) eqn:Ewp.
    + exfalso. destruct (mu s); [discriminate|]. destruct (xwg s); inversion Hs; subst s'; same Hn.
    + exfalso. destruct (nth g (gens s) 0 =? 0); [|discriminate]. inversion Hs; subst s'; same Hn.
    + exfalso. destruct (mu s); [discriminate|]. inversion Hs; subst s'; same Hn.
    + destruct (xinst s) as [j|] eqn:Ex; [|exfalso; inversion Hs; subst s'; same Hn].
      destruct (nth_error (insts s) j) as [ij|] eqn:Hj; [|exfalso; inversion Hs; subst s'; same Hn].
      destruct (stopc ij) eqn:Esj; [exfalso; inversion Hs; subst s'; same Hn|].
      cbn [f_early faithful] in Hs. inversion Hs; subst s'; clear Hs.
      exists kw, iw. split; [reflexivity|]. split; [exact Hw|]. split; [exact Ewp|].
      destruct (Nat.eq_dec j k) as [E|NE]; [congruence|]. exfalso.
      destruct (modi_nth s j set_stopc k ik Hn) as (x1 & Hx1 & [E1 | [E1 _]]); [|congruence].
      subst x1. same Hx1.
    + exfalso. destruct (xinst s) as [j|]; [|discriminate]. destruct (nth_error (insts s) j) as [ij|]; [|discriminate].
      destruct (donec ij); [|discriminate]. inversion Hs; subst s'; same Hn.
    + exfalso. destruct (nth_error (insts s) d) as [ij|]; [|discriminate].
      destruct (donec ij); [|discriminate]. inversion Hs; subst s'; same Hn.
    + exfalso. inversion Hs; subst s'; same Hn.
    + discriminate.
  - exfalso. unfold i_step in Hs. destruct (nth_error (insts s) ki) as [ii|] eqn:Hi; [|discriminate].
    destruct (ip ii) eqn:Eip.
    + inversion Hs; subst s'; same Hn.
    + destruct (isc ii) as [j|]; [|discriminate]. destruct (nth_error (insts s) j) as [ij|]; [|discriminate].
      destruct (stopc ij); [|discriminate]. inversion Hs; subst s'; same Hn.
    + inversion Hs; subst s'; same Hn.
    + destruct (xinst s) as [j|]; [|inversion Hs; subst s'; same Hn].
      destruct (nth_error (insts s) j) as [ij|] eqn:Hj; [|inversion Hs; subst s'; same Hn].
      destruct (donec ij); [inversion Hs; subst s'; same Hn|].
      inversion Hs; subst s'; clear Hs.
      destruct (modi_nth s j set_donec k ik Hn) as (x1 & Hx1 & [E1 | [_ E1]]); subst x1.
      * same Hx1.
      * destruct (modi_nth _ ki (set_ip IExit (isc ii)) k _ Hx1) as (x2 & Hx2 & [E2 | [_ E2]]);
          rewrite Hx2 in Hn'; inversion Hn'; subst; cbn in *; congruence.
    + discriminate.
Qed.

Theorem stop_after_all_done s l s' :
  reachable s -> step faithful s l = Some s' ->
  forall k ik ik', nth_error (insts s) k = Some ik -> nth_error (insts s') k = Some ik' ->
                   stopc ik = false -> stopc ik' = true ->
  l = LW k /\ wp ik = WClose /\ xinst s = Some k /\ mu s = true /\
  (forall hh, In hh (holders s) -> hdone hh = true).
Proof.
  intros HR Hs k ik ik' Hn Hn' Ho Hc. apply reachable_Inv in HR.
  destruct (stopc_step s l s' k ik ik' Hs Hn Hn' Ho Hc) as (kw & iw & El & Hw & Ewp & Ex).
  destruct (live_is_current s kw iw HR Hw) as (Ex' & _ & _ & Hok); [left; rewrite Ewp; discriminate|].
  assert (kw = k) by congruence. subst kw. rewrite Hn in Hw. inversion Hw; subst iw.
  destruct Hok as (_ & _ & Hok). rewrite Ewp in Hok. destruct Hok as (Hm & _ & _ & Hnd).
  repeat split; auto. intros hh Hin. destruct (hdone hh) eqn:Hd; [reflexivity|]. exfalso. exact (Hnd hh Hin Hd).
Qed.

(* ------------------------------------------------------------------------------------------------------------ *)
(* clause 4: a Do that arrives while an instance is stopping waits for it to exit, then starts a fresh one *)
(* ------------------------------------------------------------------------------------------------------------ *)
Theorem do_blocked_while_stopping s :
  reachable s ->
  forall k ik, xinst s = Some k -> nth_error (insts s) k = Some ik ->
               (wp ik = WClose \/ stopc ik = true) ->
  step faithful s LDo = None.
Proof.
  intros HR k ik Ex Hn Hst. apply reachable_Inv in HR. destruct HR as (HP & _ & _ & _ & HC).
  rewrite Ex in HC. destruct HC as (_ & i & Hi & _ & _ & _ & Hok). rewrite Hn in Hi. inversion Hi; subst i.
  assert (Hm : mu s = true).
  { destruct (wp ik); try contradiction; destruct Hst as [E|E]; try discriminate; try (destruct Hok as (H1 & _); exact H1);
      destruct Hok as (_ & H2 & _); congruence. }
  unfold step. rewrite HP. unfold do_step. rewrite Hm. reflexivity.
Qed.

Theorem do_starts_fresh_instance s s' :
  reachable s -> step faithful s LDo = Some s' ->
  exists k ik g,
    xinst s' = Some k /\ nth_error (insts s') k = Some ik /\
    stopc ik = false /\
    (early ik = false -> donec ik = false /\ (ip ik = IReady \/ ip ik = IRun)) /\
    holders s' = holders s ++ [{| hgen := g; hdone := false |}] /\
    match xinst s with
    | Some k0 => k = k0 /\ insts s' = insts s
    | None => k = length (insts s) /\ ik = new_inst /\ insts s' = insts s ++ [new_inst] /\
              forall j ij, nth_error (insts s) j = Some ij ->
                           ip ij = IExit /\ wp ij = WExit /\ stopc ij = true /\ donec ij = true
    end.
Proof.
  intros HR Hs. pose proof (reachable_step _ _ _ HR Hs) as HR'.
  pose proof (reachable_Inv _ HR) as (HP & HG & HW & HD & HC).
  assert (Hshape : exists g, holders s' = holders s ++ [{| hgen := g; hdone := false |}] /\
            match xinst s with
            | Some k0 => xinst s' = Some k0 /\ insts s' = insts s
            | None => xinst s' = Some (length (insts s)) /\ insts s' = insts s ++ [new_inst]
            end).
  { unfold step in Hs. rewrite HP in Hs. unfold do_step in Hs. destruct (mu s); [discriminate|].
    cbn [f_nonewgen faithful andb] in Hs.
    destruct (xinst s); destruct (xwg s); inversion Hs; subst s'; cbn; eauto. }
  destruct Hshape as (g & Hh & Hx).
  destruct (held_means_running s' HR' (length (holders s)) {| hgen := g; hdone := false |})
    as (k & ik & Ex' & Hn' & Hso & _ & _ & Hct).
  { rewrite Hh. apply nth_error_app_last. }
  { reflexivity. }
  exists k, ik, g. repeat (split; [assumption|]).
  destruct (xinst s) as [k0|] eqn:Ex.
  - destruct Hx as (E1 & E2). split; congruence.
  - destruct Hx as (E1 & E2). assert (k = length (insts s)) by congruence. subst k.
    rewrite E2, nth_error_app_last in Hn'. inversion Hn'; subst ik.
    repeat split; auto; assert (Hd : dead ij) by (apply (HD j ij H); discriminate); apply Hd.
Qed.

(* ------------------------------------------------------------------------------------------------------------ *)
(* clause 5: every started instance is stopped once nobody holds it (terminal states + measure) *)
(* ------------------------------------------------------------------------------------------------------------ *)
Definition quiescent (s : st) : Prop := forall l, l <> LDo -> step faithful s l = None.

Theorem every_instance_stopped s :
  reachable s -> quiescent s ->
  xinst s = None /\ mu s = false /\ xwg s = None /\
  (forall hh, In hh (holders s) -> hdone hh = true) /\
  (forall j ij, nth_error (insts s) j = Some ij -> dead ij) /\
  step faithful s LDo <> None.
Proof.
  intros HR HQ. apply reachable_Inv in HR. destruct HR as (HP & HG & HW & HD & HC).
  destruct (xinst s) as [k|] eqn:Ex.
  - exfalso. destruct HC as (Hlen & i & Hi & Hisc & Hdi & Hct & Hok).
    assert (Hen : exists l, l <> LDo /\ step faithful s l <> None).
    { destruct (wp i) eqn:Ewp; try contradiction.
      - exists (LW k). split; [discriminate|]. unfold step, w_step. rewrite HP, Hi, Ewp.
        destruct Hok as (Hm & _). rewrite Hm. destruct (xwg s); discriminate.
      - destruct (nth g (gens s) 0 =? 0) eqn:Ez.
        + exists (LW k). split; [discriminate|]. unfold step, w_step. rewrite HP, Hi, Ewp, Ez. discriminate.
        + apply Nat.eqb_neq in Ez. rewrite HG in Ez. destruct (cnt_pos_exists g _ Ez) as (h & hh & Hn & Hd).
          exists (LDone h). split; [discriminate|]. unfold step, done_step. rewrite HP, Hn, Hd.
          destruct (nth (hgen hh) (gens s) 0); discriminate.
      - exists (LW k). split; [discriminate|]. unfold step, w_step. rewrite HP, Hi, Ewp, Ex, Hi.
        destruct Hok as (_ & Hsc & _). rewrite Hsc. cbn. discriminate.
      - destruct Hok as (_ & Hsc & _).
        destruct (donec i) eqn:Edc.
        + exists (LW k). split; [discriminate|]. unfold step, w_step. rewrite HP, Hi, Ewp, Ex, Hi, Edc. discriminate.
        + exists (LI k). split; [discriminate|]. unfold step, i_step. rewrite HP, Hi.
          destruct (ip i) eqn:Eip.
          * discriminate.
          * rewrite (Hisc ltac:(discriminate)), Hi, Hsc. discriminate.
          * discriminate.
          * rewrite Ex, Hi, Edc. discriminate.
          * destruct Hdi as (_ & Hdi). specialize (Hdi eq_refl). discriminate.
      - exists (LW k). split; [discriminate|]. unfold step, w_step. rewrite HP, Hi, Ewp. discriminate. }
    destruct Hen as (l & Hl & Hne). apply Hne, HQ, Hl.
  - destruct HC as (Hm & Hw & Hnd).
    split; [reflexivity|]. split; [exact Hm|]. split; [exact Hw|]. split; [|split].
    + intros hh Hin. destruct (hdone hh) eqn:Hd; [reflexivity|]. exfalso. exact (Hnd hh Hin Hd).
    + intros j ij Hj. apply (HD j ij Hj). discriminate.
    + unfold step, do_step. rewrite HP, Hm, Ex, Hw. discriminate.
Qed.

(* ---- the measure: every step except a new Do strictly decreases it (for every variant, from every state) ---- *)
Definition wgw (w : option nat) : nat := match w with Some _ => 2 | None => 0 end.

Lemma sum_upd (A : Type) (f : A -> nat) : forall l k x y,
  nth_error l k = Some x -> sum (map f (upd l k y)) + f x = sum (map f l) + f y.
Proof.
  induction l as [|a t IH]; intros [|k] x y Hn; cbn in Hn; try discriminate.
  - inversion Hn; subst a. cbn. lia.
  - cbn. specialize (IH k x y Hn). lia.
Qed.

Lemma measure_unfold s :
  panicked s = false ->
  measure s = 1 + wgw (xwg s) + sum (map inst_weight (insts s)) + sum (map holder_weight (holders s)).
Proof. intros HP. unfold measure. rewrite HP. reflexivity. Qed.

Lemma measure_panic s : measure (panic s) = 0.
Proof. reflexivity. Qed.

Lemma measure_pos s : panicked s = false -> 1 <= measure s.
Proof. intros HP. rewrite measure_unfold by exact HP. lia. Qed.

Lemma panicked_modi s k f : panicked (modi s k f) = panicked s.
Proof. unfold modi. destruct (nth_error (insts s) k); reflexivity. Qed.

Lemma measure_modi s k f i :
  panicked s = false -> nth_error (insts s) k = Some i ->
  measure (modi s k f) + inst_weight i = measure s + inst_weight (f i).
Proof.
  intros HP Hn. rewrite (measure_unfold s HP).
  rewrite measure_unfold by (rewrite panicked_modi; exact HP).
  unfold modi. rewrite Hn. cbn [xwg insts holders st_insts].
  pose proof (sum_upd _ inst_weight _ _ _ (f i) Hn). lia.
Qed.

Lemma measure_modi_same s k f :
  panicked s = false -> (forall x, inst_weight (f x) = inst_weight x) -> measure (modi s k f) = measure s.
Proof.
  intros HP Hf. destruct (nth_error (insts s) k) as [i|] eqn:Hn.
  - pose proof (measure_modi s k f i HP Hn). rewrite Hf in H. lia.
  - unfold modi. rewrite Hn. reflexivity.
Qed.

Lemma measure_lock s m w x :
  panicked s = false -> measure (st_lock s m w x) + wgw (xwg s) = measure s + wgw w.
Proof.
  intros HP. rewrite (measure_unfold s HP). rewrite measure_unfold by exact HP. cbn [xwg insts holders st_lock]. lia.
Qed.

Arguments measure : simpl never.

Ltac wts Ewp := unfold inst_weight in *; cbn [wp ip set_wp set_ip set_stopc set_donec set_early] in *; rewrite ?Ewp in *;
                cbn [wweight iweight wgw] in *.

Theorem measure_decreases fl s l s' : step fl s l = Some s' -> l <> LDo -> measure s' < measure s.
Proof.
  intros Hs Hl. unfold step in Hs. destruct (panicked s) eqn:HP; [discriminate|].
  pose proof (measure_pos s HP) as Hpos.
  destruct l as [|h|k|k|k]; [contradiction| | | |].
  4: { unfold i_early_step in Hs. destruct (nth_error (insts s) k) as [i|] eqn:Hn; [|discriminate].
       destruct (ip i) eqn:Eip; try discriminate. inversion Hs; subst s'; clear Hs.
       pose proof (measure_modi s k set_early i HP Hn) as H1. wts Eip. lia. }
  - unfold done_step in Hs. destruct (nth_error (holders s) h) as [hh|] eqn:Hn; [|discriminate].
    destruct (hdone hh) eqn:Hd; [discriminate|].
    destruct (nth (hgen hh) (gens s) 0); inversion Hs; subst s'; clear Hs.
    + rewrite measure_panic. lia.
    + rewrite (measure_unfold s HP). rewrite measure_unfold by exact HP. cbn [xwg insts holders].
      pose proof (sum_upd _ holder_weight _ _ _ {| hgen := hgen hh; hdone := true |} Hn) as H.
      unfold holder_weight at 2 4 in H. cbn [hdone] in H. rewrite Hd in H. lia.
  - unfold w_step in Hs. destruct (nth_error (insts s) k) as [i|] eqn:Hn; [|discriminate].
    destruct (wp i) eqn:Ewp.
    + destruct (mu s); [discriminate|].
      destruct (xwg s) as [g|] eqn:Ew; inversion Hs; subst s'; clear Hs.
      * pose proof (measure_modi (st_lock s false None (xinst s)) k (set_wp (WWait g)) i HP Hn) as H1.
        pose proof (measure_lock s false None (xinst s) HP) as H2. rewrite Ew in H2. wts Ewp. lia.
      * pose proof (measure_modi (st_lock s true None (xinst s)) k (set_wp WClose) i HP Hn) as H1.
        pose proof (measure_lock s true None (xinst s) HP) as H2. rewrite Ew in H2. wts Ewp. lia.
    + destruct (nth g (gens s) 0 =? 0); [|discriminate]. inversion Hs; subst s'; clear Hs.
      pose proof (measure_modi s k (set_wp (if f_norecheck fl then WLock else WLoop)) i HP Hn) as H1.
      destruct (f_norecheck fl); wts Ewp; lia.
    + destruct (mu s); [discriminate|]. inversion Hs; subst s'; clear Hs.
      pose proof (measure_modi (st_lock s true (xwg s) (xinst s)) k (set_wp WClose) i HP Hn) as H1.
      pose proof (measure_lock s true (xwg s) (xinst s) HP) as H2. wts Ewp. lia.
    + destruct (xinst s) as [j|]; [|inversion Hs; subst s'; rewrite measure_panic; lia].
      destruct (nth_error (insts s) j) as [ij|] eqn:Hj; [|inversion Hs; subst s'; rewrite measure_panic; lia].
      destruct (stopc ij); [inversion Hs; subst s'; rewrite measure_panic; lia|].
      assert (HP1 : panicked (modi s j set_stopc) = false) by (rewrite panicked_modi; exact HP).
      pose proof (measure_modi_same s j set_stopc HP (fun x => eq_refl)) as H0.
      destruct (modi_nth s j set_stopc k i Hn) as (i1 & Hn1 & Hi1).
      assert (Hw1 : inst_weight i1 = inst_weight i) by (destruct Hi1 as [E|[_ E]]; subst i1; reflexivity).
      assert (Hp1 : ip i1 = ip i) by (destruct Hi1 as [E|[_ E]]; subst i1; reflexivity).
      destruct (f_early fl); inversion Hs; subst s'; clear Hs.
      * pose proof (measure_modi (st_lock (modi s j set_stopc) false (xwg (modi s j set_stopc)) None) k
                                 (set_wp (WRecvL j)) i1 HP1 Hn1) as H1.
        pose proof (measure_lock (modi s j set_stopc) false (xwg (modi s j set_stopc)) None HP1) as H2.
        wts Ewp. rewrite Hp1 in *. lia.
      * pose proof (measure_modi (modi s j set_stopc) k (set_wp WRecv) i1 HP1 Hn1) as H1.
        wts Ewp. rewrite Hp1 in *. lia.
    + destruct (xinst s) as [j|]; [|discriminate]. destruct (nth_error (insts s) j) as [ij|]; [|discriminate].
      destruct (donec ij); [|discriminate]. inversion Hs; subst s'; clear Hs.
      pose proof (measure_modi s k (set_wp WClear) i HP Hn) as H1. wts Ewp. lia.
    + destruct (nth_error (insts s) d) as [ij|]; [|discriminate].
      destruct (donec ij); [|discriminate]. inversion Hs; subst s'; clear Hs.
      pose proof (measure_modi s k (set_wp WExit) i HP Hn) as H1. wts Ewp. lia.
    + inversion Hs; subst s'; clear Hs.
      pose proof (measure_modi (st_lock s false (xwg s) None) k (set_wp WExit) i HP Hn) as H1.
      pose proof (measure_lock s false (xwg s) None HP) as H2. wts Ewp. lia.
    + discriminate.
  - unfold i_step in Hs. destruct (nth_error (insts s) k) as [i|] eqn:Hn; [|discriminate].
    destruct (ip i) eqn:Eip.
    + inversion Hs; subst s'; clear Hs.
      pose proof (measure_modi s k (set_ip IRun (xinst s)) i HP Hn) as H1. wts Eip. lia.
    + destruct (isc i) as [j|]; [|discriminate]. destruct (nth_error (insts s) j) as [ij|]; [|discriminate].
      destruct (stopc ij); [|discriminate]. inversion Hs; subst s'; clear Hs.
      pose proof (measure_modi s k (set_ip ISaw (Some j)) i HP Hn) as H1. wts Eip. lia.
    + inversion Hs; subst s'; clear Hs.
      pose proof (measure_modi s k (set_ip IRet (isc i)) i HP Hn) as H1. wts Eip. lia.
    + destruct (xinst s) as [j|]; [|inversion Hs; subst s'; rewrite measure_panic; lia].
      destruct (nth_error (insts s) j) as [ij|] eqn:Hj; [|inversion Hs; subst s'; rewrite measure_panic; lia].
      destruct (donec ij); [inversion Hs; subst s'; rewrite measure_panic; lia|].
      inversion Hs; subst s'; clear Hs.
      assert (HP1 : panicked (modi s j set_donec) = false) by (rewrite panicked_modi; exact HP).
      pose proof (measure_modi_same s j set_donec HP (fun x => eq_refl)) as H0.
      destruct (modi_nth s j set_donec k i Hn) as (i1 & Hn1 & Hi1).
      assert (Hw1 : wp i1 = wp i) by (destruct Hi1 as [E|[_ E]]; subst i1; reflexivity).
      assert (Hp1 : ip i1 = ip i) by (destruct Hi1 as [E|[_ E]]; subst i1; reflexivity).
      pose proof (measure_modi (modi s j set_donec) k (set_ip IExit (isc i)) i1 HP1 Hn1) as H1.
      wts Eip. rewrite ?Hp1 in H1. cbn [iweight] in H1. lia.
    + discriminate.
Qed.

(* ------------------------------------------------------------------------------------------------------------ *)
(* boolean monitors of clauses 1 and 2, true of every reachable state of the faithful model ... *)
(* ------------------------------------------------------------------------------------------------------------ *)
Definition held (s : st) : bool := existsb (fun h => negb (hdone h)) (holders s).

Definition held_okb (s : st) : bool :=
  if held s then
    match xinst s with
    | Some k => match nth_error (insts s) k with
                | Some ik => negb (stopc ik) &&
                             (early ik || (negb (donec ik) && (match ip ik with IReady | IRun => true | _ => false end)))
                | None => false
                end
    | None => false
    end
  else true.

Definition single_okb (s : st) : bool := countb running (insts s) <=? 1.

Theorem monitors_hold s : reachable s -> held_okb s = true /\ single_okb s = true.
Proof.
  intros HR. split.
  - unfold held_okb. destruct (held s) eqn:Eh; [|reflexivity].
    unfold held in Eh. apply existsb_exists in Eh. destruct Eh as (hh & Hin & Hd).
    apply In_nth_error in Hin. destruct Hin as (h & Hn).
    destruct (held_means_running s HR h hh Hn) as (k & ik & Ex & Hi & Hso & _ & _ & Hct).
    { destruct (hdone hh); [discriminate|reflexivity]. }
    rewrite Ex, Hi, Hso. destruct (early ik); [reflexivity|].
    destruct (Hct eq_refl) as (Hdo & [E|E]); rewrite Hdo, E; reflexivity.
  - unfold single_okb. apply Nat.leb_le. apply (at_most_one_alive s HR).
Qed.

(* ... and false of some reachable state of each defective variant (same step function, one flag set) *)
Definition early_unlock : flags := {| f_early := true; f_norecheck := false; f_nonewgen := false |}.
Definition norecheck : flags := {| f_early := false; f_norecheck := true; f_nonewgen := false |}.
Definition nonewgen : flags := {| f_early := false; f_norecheck := false; f_nonewgen := true |}.

(* Do; watcher takes the WaitGroup; the function starts; done; watcher wakes, finds no new WaitGroup, closes stop and
   RELEASES mu without waiting; a second Do starts instance 1 while instance 0 has not even noticed stop yet *)
Definition sched_overlap : list label := [LDo; LW 0; LI 0; LDone 0; LW 0; LW 0; LW 0; LDo; LI 1].

Theorem early_unlock_two_instances_refuted :
  exists sched, countb running (insts (run early_unlock init sched)) = 2 /\ single_okb (run early_unlock init sched) = false.
Proof. exists sched_overlap. vm_compute. auto. Qed.

(* Do; watcher takes WaitGroup 0 and waits; a second Do publishes WaitGroup 1; first done; the watcher wakes and,
   without looking at x.wg again, stops the instance although holder 1 is outstanding *)
Definition sched_norecheck : list label := [LDo; LW 0; LI 0; LDo; LDone 0; LW 0; LW 0; LW 0].

Theorem no_recheck_stops_while_held_refuted :
  exists sched, held (run norecheck init sched) = true /\ held_okb (run norecheck init sched) = false.
Proof. exists sched_norecheck. vm_compute. auto. Qed.

(* Do; take; done; the watcher's Wait returns; a second Do adds itself to the OLD WaitGroup object and leaves x.wg nil;
   the watcher finds x.wg nil and stops the instance although holder 1 is outstanding *)
Definition sched_nonewgen : list label := [LDo; LW 0; LI 0; LDone 0; LW 0; LDo; LW 0; LW 0].

Theorem no_new_waitgroup_stops_while_held_refuted :
  exists sched, held (run nonewgen init sched) = true /\ held_okb (run nonewgen init sched) = false.
Proof. exists sched_nonewgen. vm_compute. auto. Qed.

(* the same three schedules are harmless on the code as it is *)
Example faithful_on_refutation_schedules :
  map (fun sc => (held_okb (run faithful init sc), single_okb (run faithful init sc)))
      [sched_overlap; sched_norecheck; sched_nonewgen] = [(true, true); (true, true); (true, true)].
Proof. vm_compute. reflexivity. Qed.

(* ------------------------------------------------------------------------------------------------------------ *)
(* non-vacuity: the interesting cases occur *)
(* ------------------------------------------------------------------------------------------------------------ *)
(* two holders, the second registered in a second WaitGroup object while the watcher waits on the first *)
Definition sched_two_holders : list label := [LDo; LW 0; LI 0; LDo; LDone 0; LW 0; LW 0].
Example held_example :
  let s := run faithful init sched_two_holders in
  map hdone (holders s) = [true; false] /\ gens s = [0; 1] /\ xinst s = Some 0 /\
  map wp (insts s) = [WWait 1] /\ map ip (insts s) = [IRun] /\ map stopc (insts s) = [false].
Proof. vm_compute. repeat split; reflexivity. Qed.

(* ... then the last done, the watcher decides to stop (keeps mu), closes stop: a new Do is blocked; the function sees
   stop, returns, close(done); the watcher clears and unlocks; now Do goes through and starts instance 1 *)
Definition sched_stopping : list label := sched_two_holders ++ [LDone 1; LW 0; LW 0; LW 0].
Definition sched_restart : list label := sched_stopping ++ [LDo; LI 0; LDo; LI 0; LI 0; LDo; LW 0; LW 0; LDo; LI 1].
Example stopping_example :
  let s := run faithful init sched_stopping in
  mu s = true /\ map stopc (insts s) = [true] /\ map ip (insts s) = [IRun] /\ step faithful s LDo = None.
Proof. vm_compute. repeat split; reflexivity. Qed.
Example restart_example :
  let s := run faithful init sched_restart in
  length (holders s) = 3 /\ xinst s = Some 1 /\ map ip (insts s) = [IExit; IRun] /\ map wp (insts s) = [WExit; WLoop] /\
  map stopc (insts s) = [true; false] /\ map isc (insts s) = [Some 0; Some 1] /\ held_okb s = true.
Proof. vm_compute. repeat split; reflexivity. Qed.

(* the function returns on its own while two holders are outstanding: stop stays open (and Do still joins the same
   instance) until the last done; then the watcher closes stop, clears, and a later Do starts a fresh instance *)
Definition sched_early : list label := [LDo; LW 0; LI 0; LDo; LIE 0; LI 0; LDone 0; LW 0; LW 0; LDo].
Example early_return_example :
  let s := run faithful init sched_early in
  let s2 := run faithful s [LDone 1; LDone 2; LW 0; LW 0; LW 0; LW 0; LW 0] in
  let s3 := run faithful s2 [LW 0; LW 0; LDo; LI 1] in
  (map ip (insts s), map early (insts s), map stopc (insts s), map donec (insts s), length (holders s), xinst s)
    = ([IExit], [true], [false], [true], 3, Some 0) /\
  held_okb s = true /\
  (map stopc (insts s2), map wp (insts s2), mu s2) = ([true], [WRecv], true) /\
  (map ip (insts s3), map stopc (insts s3), xinst s3) = ([IExit; IRun], [true; false], Some 1).
Proof. vm_compute. repeat split; reflexivity. Qed.

(* a quiescent state after two generations of instances: the harness-level view *)
Example kstep_example :
  let '(k1, o1) := kstep kinit KDo in
  let '(k2, o2) := kstep k1 (KDone 0) in
  let '(k3, o3) := kstep k2 KDo in
  let '(k4, o4) := kstep k3 (KRelease 0) in
  let '(k5, o5) := kstep k4 (KDone 1) in
  let '(k6, o6) := kstep k5 (KRelease 1) in
  [o1; o2; o3; o4; o5; o6] =
  [[1; 1; 0; 0; 2; 0; 0; 0]; [1; 1; 1; 0; 2; 0; 1; 0]; [1; 1; 1; 0; 3; 1; 1; 0]; [2; 2; 1; 1; 2; 0; 1; 0];
   [2; 2; 2; 1; 2; 0; 2; 0]; [2; 2; 2; 2; 0; 0; 2; 0]].
Proof. vm_compute. reflexivity. Qed.

(* ------------------------------------------------------------------------------------------------------------ *)
(* the harness-level oracle only ever visits reachable states of the model, and the model never panics *)
(* ------------------------------------------------------------------------------------------------------------ *)
Theorem never_panics s : reachable s -> panicked s = false.
Proof. intros HR. apply reachable_Inv in HR. apply HR. Qed.

Lemma first_some_step (f : nat -> option st) (mk : nat -> label) s :
  (forall k s', f k = Some s' -> step faithful s (mk k) = Some s') ->
  forall ks s', first_some f ks = Some s' -> exists l, step faithful s l = Some s'.
Proof.
  intros Hf. induction ks as [|k t IH]; intros s' H; cbn in H; [discriminate|].
  destruct (f k) as [x|] eqn:E.
  - inversion H; subst x. exists (mk k). apply Hf. exact E.
  - apply IH. exact H.
Qed.

Lemma auto_step_is_step s s' : auto_step s = Some s' -> exists l, step faithful s l = Some s'.
Proof.
  unfold auto_step. intros H.
  destruct (first_some (fun k => step faithful s (LW k)) (seq 0 (length (insts s)))) as [x|] eqn:E1.
  - inversion H; subst x. eapply (first_some_step _ LW); [|exact E1]. auto.
  - eapply (first_some_step _ LI); [|exact H]. intros k x Hx. unfold auto_i in Hx.
    destruct (nth_error (insts s) k) as [i|]; [|discriminate]. destruct (ip i); try exact Hx. discriminate.
Qed.

Lemma settle_reachable : forall fuel s p, reachable s -> reachable (ws (settle fuel s p)).
Proof.
  induction fuel as [|f IH]; intros s p HR; cbn [settle]; [exact HR|].
  destruct (auto_step s) as [s'|] eqn:Ea.
  - destruct (auto_step_is_step s s' Ea) as (l & Hl). apply IH. eapply reachable_step; eauto.
  - destruct p as [|p']; [exact HR|].
    destruct (step faithful s LDo) as [s'|] eqn:Ed; [|exact HR].
    apply IH. eapply reachable_step; eauto.
Qed.

Lemma step_or_stay_reachable s l : reachable s -> reachable (step_or_stay faithful s l).
Proof.
  intros HR. unfold step_or_stay. destruct (step faithful s l) eqn:E; [eapply reachable_step; eauto|exact HR].
Qed.

Theorem kstep_reachable k o : reachable (ws k) -> reachable (ws (fst (kstep k o))).
Proof.
  intros HR. unfold kstep. cbn [fst]. destruct o as [|h|i|i].
  - apply settle_reachable. exact HR.
  - apply settle_reachable. apply step_or_stay_reachable. exact HR.
  - destruct (nth_error (insts (ws k)) i) as [ii|]; [|exact HR].
    destruct (ip ii); try exact HR. apply settle_reachable. apply step_or_stay_reachable. exact HR.
  - destruct (step faithful (ws k) (LIE i)) as [s'|] eqn:E; [|exact HR].
    apply settle_reachable. eapply reachable_step; eauto.
Qed.
