(* Proofs about Model/PubSubIter.v: SubscribeContext's AfterFunc/stop pairing unsubscribes exactly once.

   Main results (all for every program = {context cancelled or never} x {what each of two invocations of the iterator does:
   never called, nil yield, run until ctx.Done(), run and leave early by break / panic / Goexit / closed channel}, and for
   EVERY schedule of the canceller, the AfterFunc goroutine and the invocations):
     iter_at_most_once            x.Unsubscribe() is called at most once, in every reachable state
     iter_no_receive_after_unsub  while an invocation is inside the receive loop no Unsubscribe has happened (contract clause 7)
     iter_terminal_count          in every terminal state the number of Unsubscribe calls is 1 if (the context was cancelled or
                                  the iterator function was called) and no invocation is still inside the loop, else 0
     iter_no_leak                 the "= 1" half of it; iter_in_use_is_live: the only terminal states with an invocation
                                  inside the loop are those with a live context and a loop body that never stops early
     iter_every_run_finite        at most 11 moves
     iter_ignoring_stop_refuted / iter_without_afterfunc_refuted   the two wrong variants, on the same step function
   Method: boolean invariant over the finite control, preservation and consequences by reflective sweep. *)
From Coq Require Import List Arith Lia Bool ZifyBool.
From BB.Model Require Import PubSubIter.
Import ListNotations.
Arguments Nat.sub : simpl never. Arguments Nat.ltb : simpl never. Arguments Nat.leb : simpl never.
Arguments Nat.eqb : simpl never.

(* ------------------------------------------------------------------------------------------------------- *)
(* Enumerations                                                                                              *)

Definition all_bool : list bool := [true; false].
Definition all_once : list once_st := [OOpen; OStopped; OFired].
Definition all_cpc : list cpc := [CIdle; CDone; CFin].
Definition all_apc : list apc := [ANone; ARun; AFin].
Definition all_ipc : list ipc := [IIdle; IStopNil; IUnsubNil; IPanNil; IStop; IRet; ILoop; IDefer; IFin].
Definition all_use : list use :=
  [UNever; UNil; URun None; URun (Some EBreak); URun (Some EPanic); URun (Some EGoexit); URun (Some EClosed)].

Ltac fin_ok :=
  let P := fresh "P" in let H := fresh "H" in let x := fresh "x" in
  intros P H x; cbn [forallb] in H;
  repeat (let H0 := fresh "H0" in apply andb_true_iff in H; destruct H as [H0 H]);
  destruct x; assumption.

Lemma all_bool_ok : forall P : bool -> bool, forallb P all_bool = true -> forall x, P x = true.
Proof. unfold all_bool. fin_ok. Qed.
Lemma all_once_ok : forall P : once_st -> bool, forallb P all_once = true -> forall x, P x = true.
Proof. unfold all_once. fin_ok. Qed.
Lemma all_cpc_ok : forall P : cpc -> bool, forallb P all_cpc = true -> forall x, P x = true.
Proof. unfold all_cpc. fin_ok. Qed.
Lemma all_apc_ok : forall P : apc -> bool, forallb P all_apc = true -> forall x, P x = true.
Proof. unfold all_apc. fin_ok. Qed.
Lemma all_ipc_ok : forall P : ipc -> bool, forallb P all_ipc = true -> forall x, P x = true.
Proof. unfold all_ipc. fin_ok. Qed.
Lemma all_ipick_ok : forall P : ipick -> bool, forallb P all_ipick = true -> forall x, P x = true.
Proof. unfold all_ipick. fin_ok. Qed.
Lemma all_use_ok : forall P : use -> bool, forallb P all_use = true -> forall x, P x = true.
Proof.
  unfold all_use. intros P H x. cbn [forallb] in H.
  repeat (let H0 := fresh "H0" in apply andb_true_iff in H; destruct H as [H0 H]).
  destruct x as [| |[e|]]; [| |destruct e|]; assumption.
Qed.

(* all 2 * 7 * 7 = 98 programs *)
Definition forall_prog (P : prog -> bool) : bool :=
  forallb (fun c => forallb (fun a => forallb (fun b => P {| cancels := c; use1 := a; use2 := b |}) all_use) all_use) all_bool.

Lemma forall_prog_ok : forall P, forall_prog P = true -> forall pg, P pg = true.
Proof.
  intros P H [c a b]. unfold forall_prog in H.
  pose proof (all_bool_ok _ H c) as H1; cbv beta in H1.
  pose proof (all_use_ok _ H1 a) as H2; cbv beta in H2.
  exact (all_use_ok _ H2 b).
Qed.

(* all 2 * 3 * 3 * 3 * 9 * 9 = 1458 control states *)
Definition forall_ctl (P : ictl -> bool) : bool :=
  forallb (fun d => forallb (fun o => forallb (fun c => forallb (fun a => forallb (fun x => forallb (fun y =>
    P {| ctxd := d; once := o; cp := c; ap := a; i1 := x; i2 := y |})
  all_ipc) all_ipc) all_apc) all_cpc) all_once) all_bool.

Lemma forall_ctl_ok : forall P, forall_ctl P = true -> forall c, P c = true.
Proof.
  intros P H [d o c a x y]. unfold forall_ctl in H.
  pose proof (all_bool_ok _ H d) as H1; cbv beta in H1.
  pose proof (all_once_ok _ H1 o) as H2; cbv beta in H2.
  pose proof (all_cpc_ok _ H2 c) as H3; cbv beta in H3.
  pose proof (all_apc_ok _ H3 a) as H4; cbv beta in H4.
  pose proof (all_ipc_ok _ H4 x) as H5; cbv beta in H5.
  exact (all_ipc_ok _ H5 y).
Qed.

(* ------------------------------------------------------------------------------------------------------- *)
(* The invariant                                                                                             *)

Definition b2n (b : bool) : nat := if b then 1 else 0.

(* a thread that has won the arbitration and has not yet made its x.Unsubscribe() call *)
Definition owes_pc (i : ipc) : bool := match i with IUnsubNil | ILoop | IDefer => true | _ => false end.
Definition owed (c : ictl) : nat :=
  b2n (match ap c with ARun => true | _ => false end) + b2n (owes_pc (i1 c)) + b2n (owes_pc (i2 c)).
(* the Once has been used *)
Definition fired (c : ictl) : nat := match once c with OOpen => 0 | _ => 1 end.

(* an invocation that is past its stop() call *)
Definition past_stop (i : ipc) : bool := match i with IIdle | IStopNil | IStop => false | _ => true end.

Definition use_pc_ok (u : use) (i : ipc) : bool :=
  match u, i with
  | _, IIdle => true
  | UNil, (IStopNil | IUnsubNil | IPanNil) => true
  | URun _, (IStop | IRet | ILoop | IDefer | IFin) => true
  | _, _ => false
  end.

Definition Invb (pg : prog) (s : ist) : bool :=
  let c := ic s in
  (* every use of the Once is matched by exactly one Unsubscribe, made or still owed by exactly one thread *)
  (unsubs s + owed c =? fired c)
  (* the AfterFunc goroutine exists iff the cancellation won the Once, and then the canceller is done *)
  && eqb (match once c with OFired => true | _ => false end) (match ap c with ANone => false | _ => true end)
  && (match once c with OFired => match cp c with CFin => true | _ => false end | _ => true end)
  (* an iterator invocation won the Once iff ... some invocation is past stop(); nobody is past stop() with the Once open *)
  && (match once c with OOpen => negb (past_stop (i1 c)) && negb (past_stop (i2 c)) | _ => true end)
  && (match once c with OStopped => past_stop (i1 c) || past_stop (i2 c) | _ => true end)
  (* Done() is closed iff the canceller has started; a program that does not cancel never starts it *)
  && eqb (ctxd c) (match cp c with CIdle => false | _ => true end)
  && (cancels pg || match cp c with CIdle => true | _ => false end)
  (* a finished cancellation has used the Once, or found it used *)
  && (match cp c with CFin => negb (match once c with OOpen => true | _ => false end) | _ => true end)
  (* each invocation is at a pc of its program *)
  && use_pc_ok (use1 pg) (i1 c) && use_pc_ok (use2 pg) (i2 c).

Lemma fired_le_1 : forall c, fired c <= 1.
Proof. intros c. unfold fired. destruct (once c); lia. Qed.

Lemma Invb_unsubs_le_1 : forall pg s, Invb pg s = true -> unsubs s <= 1.
Proof.
  intros pg s H. unfold Invb in H.
  repeat (apply andb_true_iff in H; destruct H as [H _]).
  pose proof (fired_le_1 (ic s)). apply Nat.eqb_eq in H. lia.
Qed.

(* Generic sweep: programs x control states x unsubs in {0,1} (Invb fails for unsubs >= 2) x picks. *)
Definition forall_st (P : ist -> bool) : bool :=
  forall_ctl (fun c => P {| ic := c; unsubs := 0 |} && P {| ic := c; unsubs := 1 |}).

Lemma forall_st_ok : forall pg P, forall_st (fun s => negb (Invb pg s) || P s) = true ->
  forall s, Invb pg s = true -> P s = true.
Proof.
  intros pg P H [c n] HI. pose proof (Invb_unsubs_le_1 _ _ HI) as Hn. cbn [unsubs] in Hn.
  unfold forall_st in H. pose proof (forall_ctl_ok _ H c) as H1; cbv beta in H1.
  apply andb_true_iff in H1. destruct H1 as [H0 H1].
  destruct n as [|[|n]]; [rewrite HI in H0; exact H0 | rewrite HI in H1; exact H1 | lia].
Qed.

Definition state_chk (Q : prog -> ist -> bool) : bool :=
  forall_prog (fun pg => forall_st (fun s => negb (Invb pg s) || Q pg s)).

Lemma state_chk_ok : forall Q, state_chk Q = true -> forall pg s, Invb pg s = true -> Q pg s = true.
Proof.
  intros Q H pg s HI. unfold state_chk in H.
  pose proof (forall_prog_ok _ H pg) as H1; cbv beta in H1.
  exact (forall_st_ok pg (Q pg) H1 s HI).
Qed.

Definition step_chk (Q : prog -> ist -> ipick -> ist -> bool) : bool :=
  state_chk (fun pg s => forallb (fun p => match istep pg s p with Some s' => Q pg s p s' | None => true end) all_ipick).

Lemma step_chk_ok : forall Q, step_chk Q = true ->
  forall pg s p s', Invb pg s = true -> istep pg s p = Some s' -> Q pg s p s' = true.
Proof.
  intros Q H pg s p s' HI Hs. unfold step_chk in H.
  pose proof (state_chk_ok _ H pg s HI) as H1; cbv beta in H1.
  pose proof (all_ipick_ok _ H1 p) as H2; cbv beta in H2. rewrite Hs in H2. exact H2.
Qed.

(* --- Invb is inductive --- *)

Lemma Invb_step_sweep : step_chk (fun pg _ _ s' => Invb pg s') = true.
Proof. vm_compute. reflexivity. Qed.

Lemma Invb_init : forall pg, Invb pg iinit = true.
Proof. intros [c a b]. destruct c, a, b; reflexivity. Qed.

Lemma Invb_step : forall pg s p s', Invb pg s = true -> istep pg s p = Some s' -> Invb pg s' = true.
Proof. intros pg s p s' HI Hs. exact (step_chk_ok _ Invb_step_sweep pg s p s' HI Hs). Qed.

Lemma Invb_run_from : forall pg sched s, Invb pg s = true -> Invb pg (irun pg s sched) = true.
Proof.
  intros pg. induction sched as [|p rest IH]; intros s HI; [exact HI|].
  unfold irun in *. cbn [irun_gen]. apply IH. fold (istep pg s p).
  destruct (istep pg s p) as [s'|] eqn:Hs; [eapply Invb_step; eassumption | exact HI].
Qed.

Lemma Invb_run : forall pg sched, Invb pg (irun pg iinit sched) = true.
Proof. intros pg sched. apply Invb_run_from, Invb_init. Qed.

(* ------------------------------------------------------------------------------------------------------- *)
(* Consequences                                                                                              *)

(* No double Unsubscribe: in every reachable state at most one x.Unsubscribe() call has been made. *)
Theorem iter_at_most_once : forall pg sched, unsubs (irun pg iinit sched) <= 1.
Proof. intros pg sched. eapply Invb_unsubs_le_1, Invb_run. Qed.

(* Contract clause 7 (after unsubscribing, values MUST NOT be received): while an invocation is inside the receive loop, no
   Unsubscribe call has been made, by anybody. *)
Lemma no_receive_after_unsub_sweep : state_chk (fun _ s => negb (in_use (ic s)) || (unsubs s =? 0)) = true.
Proof. vm_compute. reflexivity. Qed.

Theorem iter_no_receive_after_unsub : forall pg sched,
  let s := irun pg iinit sched in in_use (ic s) = true -> unsubs s = 0.
Proof.
  intros pg sched s Hu.
  pose proof (state_chk_ok _ no_receive_after_unsub_sweep pg s (Invb_run pg sched)) as H. cbv beta in H.
  rewrite Hu in H. cbn [negb orb] in H. apply Nat.eqb_eq, H.
Qed.

(* ... and at most one invocation is inside the loop *)
Lemma one_in_loop_sweep : state_chk (fun _ s => negb (in_loop (i1 (ic s)) && in_loop (i2 (ic s)))) = true.
Proof. vm_compute. reflexivity. Qed.

Theorem iter_one_invocation_in_loop : forall pg sched,
  let s := irun pg iinit sched in in_loop (i1 (ic s)) = true -> in_loop (i2 (ic s)) = true -> False.
Proof.
  intros pg sched s H1 H2.
  pose proof (state_chk_ok _ one_in_loop_sweep pg s (Invb_run pg sched)) as H. cbv beta in H.
  rewrite H1, H2 in H. discriminate H.
Qed.

(* The count in a terminal state. *)
Definition final_unsubs (c : ictl) : nat := b2n ((ctxd c || invoked c) && negb (in_use c)).

Lemma terminal_count_sweep :
  state_chk (fun pg s => negb (iterminalb pg s) || (unsubs s =? final_unsubs (ic s))) = true.
Proof. vm_compute. reflexivity. Qed.

Theorem iter_terminal_count : forall pg sched,
  let s := irun pg iinit sched in
  iterminalb pg s = true -> unsubs s = final_unsubs (ic s).
Proof.
  intros pg sched s HT.
  pose proof (state_chk_ok _ terminal_count_sweep pg s (Invb_run pg sched)) as H. cbv beta in H.
  rewrite HT in H. cbn [negb orb] in H. apply Nat.eqb_eq, H.
Qed.

(* No leak: once everything that can run has run, if the context was cancelled, or the iterator function was called at all
   (with or without a yield function, and however its loop was left), and the subscription is not still being consumed, then
   x.Unsubscribe() HAS been called, exactly once. *)
Theorem iter_no_leak : forall pg sched,
  let s := irun pg iinit sched in
  iterminalb pg s = true -> (ctxd (ic s) = true \/ invoked (ic s) = true) -> in_use (ic s) = false ->
  unsubs s = 1.
Proof.
  intros pg sched s HT Hc Hu. pose proof (iter_terminal_count pg sched HT) as E. fold s in E. rewrite E.
  unfold final_unsubs. rewrite Hu.
  destruct Hc as [-> | ->]; [reflexivity | rewrite orb_true_r; reflexivity].
Qed.

(* Nothing is unsubscribed behind the user's back: not cancelled and never called => still subscribed (the documented
   "MUST be used immediately OR the context MUST be cancelled" case), and a subscription that is being consumed is not
   unsubscribed. *)
Theorem iter_untouched_or_in_use_not_unsubscribed : forall pg sched,
  let s := irun pg iinit sched in
  iterminalb pg s = true -> (ctxd (ic s) = false /\ invoked (ic s) = false) \/ in_use (ic s) = true ->
  unsubs s = 0.
Proof.
  intros pg sched s HT Hc. pose proof (iter_terminal_count pg sched HT) as E. fold s in E. rewrite E.
  unfold final_unsubs.
  destruct Hc as [[-> ->] | ->]; [reflexivity | rewrite andb_false_r; reflexivity].
Qed.

(* The only terminal states with an invocation still inside the loop are the legitimate ones: the context is live and that
   invocation's loop body never stops early (the subscriber is simply still subscribed and receiving). *)
Lemma in_use_is_live_sweep :
  state_chk (fun pg s => negb (iterminalb pg s) ||
     ((negb (in_loop (i1 (ic s))) || (negb (ctxd (ic s)) && negb (early (use1 pg)))) &&
      (negb (in_loop (i2 (ic s))) || (negb (ctxd (ic s)) && negb (early (use2 pg)))))) = true.
Proof. vm_compute. reflexivity. Qed.

Theorem iter_in_use_is_live : forall pg sched,
  let s := irun pg iinit sched in
  iterminalb pg s = true ->
  (in_loop (i1 (ic s)) = true -> ctxd (ic s) = false /\ early (use1 pg) = false) /\
  (in_loop (i2 (ic s)) = true -> ctxd (ic s) = false /\ early (use2 pg) = false).
Proof.
  intros pg sched s HT.
  pose proof (state_chk_ok _ in_use_is_live_sweep pg s (Invb_run pg sched)) as H. cbv beta in H.
  rewrite HT in H. cbn [negb orb] in H. apply andb_true_iff in H. destruct H as [H1 H2].
  split; intros Hl; [rewrite Hl in H1; cbn [negb orb] in H1; apply andb_true_iff in H1
                    | rewrite Hl in H2; cbn [negb orb] in H2; apply andb_true_iff in H2];
    [destruct H1 as [A B] | destruct H2 as [A B]]; split;
    first [apply negb_true_iff, A | apply negb_true_iff, B].
Qed.

(* ------------------------------------------------------------------------------------------------------- *)
(* Termination: every step decreases a rank; at most 11 moves.                                               *)

Definition rank_i (i : ipc) : nat :=
  match i with IIdle => 4 | IStopNil => 3 | IUnsubNil => 2 | IStop => 3 | ILoop => 2 | IDefer => 1 | IPanNil | IRet | IFin => 0 end.
Definition rank (c : ictl) : nat :=
  match cp c with CIdle => 3 | CDone => 2 | CFin => 0 end + match ap c with ARun => 1 | _ => 0 end + rank_i (i1 c) + rank_i (i2 c).

Lemma rank_sweep : step_chk (fun _ s _ s' => rank (ic s') <? rank (ic s)) = true.
Proof. vm_compute. reflexivity. Qed.

Fixpoint imoves (pg : prog) (s : ist) (sched : list ipick) : nat :=
  match sched with
  | [] => 0
  | p :: rest => match istep pg s p with Some s' => S (imoves pg s' rest) | None => imoves pg s rest end
  end.

Lemma imoves_bounded_from : forall pg sched s, Invb pg s = true -> imoves pg s sched + rank (ic (irun pg s sched)) <= rank (ic s).
Proof.
  intros pg. induction sched as [|p rest IH]; intros s HI; [cbn; lia|].
  unfold irun in *. cbn [irun_gen imoves]. fold (istep pg s p).
  destruct (istep pg s p) as [s'|] eqn:Hs.
  - pose proof (step_chk_ok _ rank_sweep pg s p s' HI Hs) as Hr. cbv beta in Hr. apply Nat.ltb_lt in Hr.
    pose proof (IH s' (Invb_step pg s p s' HI Hs)). lia.
  - apply IH, HI.
Qed.

Theorem iter_every_run_finite : forall pg sched, imoves pg iinit sched <= 11.
Proof.
  intros pg sched. pose proof (imoves_bounded_from pg sched iinit (Invb_init pg)) as H.
  change (rank (ic iinit)) with 11 in H. lia.
Qed.

(* ------------------------------------------------------------------------------------------------------- *)
(* Mutation sensitivity (same step function, variant flag)                                                   *)

Definition ignore_stop_flags : iflags := {| fl_consult := false; fl_after := true |}.
Definition no_after_flags : iflags := {| fl_consult := true; fl_after := false |}.

(* (a) An iterator that defers Unsubscribe without looking at what stop() returned: the context is cancelled before the
   iterator is entered, the AfterFunc goroutine unsubscribes, the iterator enters, sees Done() and unsubscribes AGAIN. *)
Theorem iter_ignoring_stop_refuted : exists pg sched,
  unsubs (irun_gen ignore_stop_flags pg iinit sched) = 2.
Proof.
  exists {| cancels := true; use1 := URun None; use2 := UNever |},
         [PCancel; PCancel; PAf; PIt1; PIt1; PIt1; PIt1].
  vm_compute. reflexivity.
Qed.

(* the same program and schedule on the real protocol: the invocation returns at once, one Unsubscribe *)
Example iter_ignoring_stop_good :
  let s := irun {| cancels := true; use1 := URun None; use2 := UNever |} iinit [PCancel; PCancel; PAf; PIt1; PIt1; PIt1; PIt1] in
  unsubs s = 1 /\ i1 (ic s) = IRet /\ iterminalb {| cancels := true; use1 := URun None; use2 := UNever |} s = true.
Proof. vm_compute. auto. Qed.

(* (b) No AfterFunc: the context is cancelled, the iterator is never run, nothing ever unsubscribes (leak). *)
Theorem iter_without_afterfunc_refuted : exists pg sched,
  let s := irun_gen no_after_flags pg iinit sched in
  iterminalb_gen no_after_flags pg s = true /\ ctxd (ic s) = true /\ unsubs s = 0.
Proof.
  exists {| cancels := true; use1 := UNever; use2 := UNever |}, [PCancel; PCancel].
  vm_compute. auto.
Qed.

(* ------------------------------------------------------------------------------------------------------- *)
(* Non-vacuity: each case of the property text occurs                                                        *)

Definition pg_run (c : bool) (e : option exitk) : prog := {| cancels := c; use1 := URun e; use2 := UNever |}.

(* cancelling the context of a running iterator: the invocation won stop(), observes Done(), its deferred call unsubscribes;
   the cancellation finds the Once used and starts nothing *)
Example ex_cancel_running :
  let s := irun (pg_run true None) iinit [PIt1; PIt1; PCancel; PCancel; PIt1; PIt1] in
  iterminalb (pg_run true None) s = true /\ unsubs s = 1 /\ i1 (ic s) = IFin /\ ap (ic s) = ANone /\ once (ic s) = OStopped.
Proof. vm_compute. repeat split. Qed.

(* the race: Done() is already closed but the Once is still open when the invocation calls stop(): the invocation wins *)
Example ex_cancel_race_iterator_wins :
  let s := irun (pg_run true None) iinit [PIt1; PCancel; PIt1; PCancel; PIt1; PIt1] in
  iterminalb (pg_run true None) s = true /\ unsubs s = 1 /\ i1 (ic s) = IFin /\ ap (ic s) = ANone.
Proof. vm_compute. repeat split. Qed.

(* ... and the other outcome: the cancellation wins, the AfterFunc goroutine unsubscribes, the invocation returns at once *)
Example ex_cancel_race_afterfunc_wins :
  let s := irun (pg_run true None) iinit [PIt1; PCancel; PCancel; PIt1; PAf] in
  iterminalb (pg_run true None) s = true /\ unsubs s = 1 /\ i1 (ic s) = IRet /\ ap (ic s) = AFin.
Proof. vm_compute. repeat split. Qed.

(* leaving early (break / panic / Goexit / closed channel) with a live context *)
Example ex_leave_early : forall k,
  let s := irun (pg_run false (Some k)) iinit [PIt1; PIt1; PIt1; PIt1] in
  iterminalb (pg_run false (Some k)) s = true /\ unsubs s = 1 /\ i1 (ic s) = IFin /\ ctxd (ic s) = false.
Proof. intros k. destruct k; vm_compute; repeat split. Qed.

(* never running the iterator, context cancelled: the AfterFunc goroutine unsubscribes *)
Example ex_never_run_cancelled :
  let pg := {| cancels := true; use1 := UNever; use2 := UNever |} in
  let s := irun pg iinit [PCancel; PCancel; PAf] in
  iterminalb pg s = true /\ unsubs s = 1 /\ invoked (ic s) = false.
Proof. vm_compute. repeat split. Qed.

(* never run, never cancelled: still subscribed (the documented misuse) *)
Example ex_never_run_never_cancelled :
  let pg := {| cancels := false; use1 := UNever; use2 := UNever |} in
  iterminalb pg iinit = true /\ unsubs iinit = 0.
Proof. vm_compute. repeat split. Qed.

(* running, never cancelled, never leaving: terminal inside the loop, not unsubscribed *)
Example ex_in_use :
  let s := irun (pg_run false None) iinit [PIt1; PIt1] in
  iterminalb (pg_run false None) s = true /\ unsubs s = 0 /\ in_use (ic s) = true.
Proof. vm_compute. repeat split. Qed.

(* nil yield: unsubscribes before panicking *)
Example ex_nil_yield :
  let pg := {| cancels := false; use1 := UNil; use2 := UNever |} in
  let s := irun pg iinit [PIt1; PIt1; PIt1] in
  iterminalb pg s = true /\ unsubs s = 1 /\ i1 (ic s) = IPanNil.
Proof. vm_compute. repeat split. Qed.

(* called twice, concurrently: one invocation wins stop(), the other returns at once; one Unsubscribe *)
Example ex_two_invocations :
  let pg := {| cancels := false; use1 := URun (Some EBreak); use2 := URun (Some EBreak) |} in
  let s := irun pg iinit [PIt1; PIt2; PIt2; PIt1; PIt2; PIt2] in
  iterminalb pg s = true /\ unsubs s = 1 /\ i1 (ic s) = IRet /\ i2 (ic s) = IFin.
Proof. vm_compute. repeat split. Qed.

Print Assumptions iter_at_most_once.
Print Assumptions iter_no_receive_after_unsub.
Print Assumptions iter_one_invocation_in_loop.
Print Assumptions iter_terminal_count.
Print Assumptions iter_no_leak.
Print Assumptions iter_untouched_or_in_use_not_unsubscribed.
Print Assumptions iter_in_use_is_live.
Print Assumptions iter_every_run_finite.
Print Assumptions iter_ignoring_stop_refuted.
Print Assumptions iter_without_afterfunc_refuted.
