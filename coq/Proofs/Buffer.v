(* Proofs about Model/Buffer.v: invariants over every schedule of operations, cleaner runs and shutdown steps. *)
From Coq Require Import List ZArith Bool Arith Lia.
From BB.Model Require Import Cleaner Buffer.
From BB.Proofs Require Cleaner.
Import ListNotations.

Arguments Nat.sub : simpl never.
Arguments Nat.eqb : simpl never.
Arguments Nat.ltb : simpl never.
Arguments Nat.max : simpl never.

(* ---------------------------------------------------------------------------------------------------------- *)
(* list update                                                                                                  *)
(* ---------------------------------------------------------------------------------------------------------- *)
Lemma upd_length {A} (l : list A) i x : length (upd l i x) = length l.
Proof. revert i; induction l as [|h t IH]; intros [|i]; cbn; auto. Qed.

Lemma nth_error_upd_same {A} (l : list A) i x y : nth_error l i = Some y -> nth_error (upd l i x) i = Some x.
Proof. revert i; induction l as [|h t IH]; intros [|i] H; cbn in *; try discriminate; auto. Qed.

Lemma nth_error_upd_other {A} (l : list A) i j x : i <> j -> nth_error (upd l i x) j = nth_error l j.
Proof. revert i j; induction l as [|h t IH]; intros [|i] [|j] H; cbn; auto; try lia; try (apply IH; lia). Qed.

Lemma Forall_upd {A} (P : A -> Prop) (l : list A) i x : Forall P l -> P x -> Forall P (upd l i x).
Proof.
  revert i; induction l as [|h t IH]; intros [|i] Hl Hx; cbn; auto; inversion Hl; subst; constructor; auto.
Qed.

Lemma Forall_nth_error {A} (P : A -> Prop) (l : list A) i x : Forall P l -> nth_error l i = Some x -> P x.
Proof. intros Hl Hn. rewrite Forall_forall in Hl. apply Hl. eapply nth_error_In; eauto. Qed.

(* ---------------------------------------------------------------------------------------------------------- *)
(* the invariant                                                                                                *)
(* ---------------------------------------------------------------------------------------------------------- *)
(* per consumer, relative to the current length of the log *)
Definition CInv (len : nat) (c : cons) : Prop :=
  cstart c <= ccommit c /\
  ccommit c + cdelta c <= chigh c /\
  chigh c <= len /\
  (forall p, In p (chist c) <-> cstart c <= p < chigh c) /\
  firstn (cdelta c) (chist c) = rev (seq (ccommit c) (cdelta c)) /\
  (cdone c = true -> creg c = false /\ conce c = true).

Definition Inv (s : st) : Prop :=
  base s <= length (log s) /\ Forall (CInv (length (log s))) (cs s).

Lemma CInv_mono len len' c : len <= len' -> CInv len c -> CInv len' c.
Proof. intros Hl (H1 & H2 & H3 & H4 & H5 & H6). repeat split; auto; try lia; try (apply H4; auto); apply H6; auto. Qed.

Lemma Inv_init k : Inv (init k).
Proof. split; cbn; auto. Qed.

Lemma CInv_new len b : b <= len -> CInv len (c_new b).
Proof.
  intros Hb. unfold CInv, c_new; cbn. repeat split; auto; try lia; try (intros []); try (intros [H1 H2]; lia); discriminate.
Qed.

Lemma seq_snoc a n : seq a (S n) = seq a n ++ [a + n].
Proof. rewrite seq_S. reflexivity. Qed.

Lemma CInv_get len c : CInv len c -> ccommit c + cdelta c < len -> CInv len (c_get c (ccommit c + cdelta c)).
Proof.
  intros (H1 & H2 & H3 & H4 & H5 & H6) Hp. unfold CInv, c_get; cbn [cstart ccommit cdelta chigh chist cdone creg conce].
  split; [lia|]. split; [lia|]. split; [lia|]. split; [|split; [|exact H6]].
  - intros p. split.
    + intros [E|Hin]; [subst; lia|]. apply H4 in Hin. lia.
    + intros [Ha Hb].
      destruct (Nat.eq_dec p (ccommit c + cdelta c)) as [E|NE]; [left; auto|right].
      apply H4. lia.
  - cbn [firstn]. rewrite H5, seq_snoc, rev_app_distr. reflexivity.
Qed.

Lemma CInv_commit len c : CInv len c -> CInv len (c_commit c).
Proof.
  intros (H1 & H2 & H3 & H4 & H5 & H6). unfold CInv, c_commit; cbn [cstart ccommit cdelta chigh chist cdone creg conce].
  repeat split; auto; try lia; try (apply H4; auto); apply H6; auto.
Qed.

Lemma CInv_rollback len c : CInv len c -> CInv len (c_rollback c).
Proof.
  intros (H1 & H2 & H3 & H4 & H5 & H6). unfold CInv, c_rollback; cbn [cstart ccommit cdelta chigh chist cdone creg conce].
  repeat split; auto; try lia; try (apply H4; auto); apply H6; auto.
Qed.

Lemma CInv_close_begin len c : CInv len c -> CInv len (c_close_begin c).
Proof.
  intros (H1 & H2 & H3 & H4 & H5 & H6). unfold CInv, c_close_begin; cbn [cstart ccommit cdelta chigh chist cdone creg conce].
  repeat split; auto; try (apply H4; auto). apply H6; auto.
Qed.
Lemma CInv_cancel len c : CInv len c -> CInv len (c_cancel c).
Proof. intros H; exact H. Qed.
Lemma CInv_finish len c : CInv len c -> conce c = true -> CInv len (c_finish c).
Proof.
  intros (H1 & H2 & H3 & H4 & H5 & H6) Ho. unfold CInv, c_finish; cbn [cstart ccommit cdelta chigh chist cdone creg conce].
  repeat split; auto; try (apply H4; auto).
Qed.

Lemma CInv_settle_c len c : CInv len c -> CInv len (settle_c c).
Proof.
  intros H. unfold settle_c.
  destruct (ccancel c && negb (conce c)).
  - destruct (conce (c_close_begin c) && negb (cdone (c_close_begin c)) && (cdelta (c_close_begin c) =? 0)).
    + apply CInv_finish; [apply CInv_close_begin; auto|reflexivity].
    + apply CInv_close_begin; auto.
  - destruct (conce c) eqn:Ho; cbn [andb]; [|exact H].
    destruct (negb (cdone c) && (cdelta c =? 0)); [apply CInv_finish; auto|exact H].
Qed.

Lemma Forall_map_same {A} (P : A -> Prop) (f : A -> A) l : (forall x, P x -> P (f x)) -> Forall P l -> Forall P (map f l).
Proof. intros Hf Hl. induction Hl; cbn; constructor; auto. Qed.

Lemma Inv_settle s : Inv s -> Inv (settle s).
Proof.
  intros [H1 H2]. split; cbn; auto. apply Forall_map_same; auto. intros; apply CInv_settle_c; auto.
Qed.

(* cleanupLogic with ANY cleaner function keeps the invariant: the shift is clamped to [0, size] *)
Lemma clean_with_base f s :
  base s <= length (log s) ->
  base s <= base (clean_with f s) <= length (log s) /\ log (clean_with f s) = log s /\ cs (clean_with f s) = cs s /\
  bclosed (clean_with f s) = bclosed s /\ cfg (clean_with f s) = cfg s.
Proof.
  intros Hb. unfold clean_with, set_base; cbn [base log cs bclosed cfg].
  pose proof (Proofs.Cleaner.clamp_shift_spec (Z.of_nat (size s)) (f (Z.of_nat (size s)) (rel_offsets s))) as Hc.
  cbv zeta in Hc. destruct Hc as [Hr _]; [lia|]. unfold size in *. repeat split; auto; lia.
Qed.

Lemma Inv_clean_with f s : Inv s -> Inv (clean_with f s).
Proof.
  intros [H1 H2]. destruct (clean_with_base f s H1) as ([Ha Hb] & Hl & Hc & _). split; rewrite Hl, ?Hc; auto.
Qed.

Lemma Inv_clean s : Inv s -> Inv (clean s).
Proof. intros H. unfold clean. destruct (bclosed s); auto. apply Inv_clean_with; auto. Qed.

Lemma get_attempt_val s c v p :
  get_attempt s c = (RVal v, Some p) ->
  exists k, getc s c = Some k /\ p = ccommit k + cdelta k /\ nth_error (log s) p = Some v /\ base s <= p /\
            ccancel k = false /\ bclosed s = false /\ creg k = true.
Proof.
  unfold get_attempt. destruct (getc s c) as [k|]; [|discriminate].
  destruct (ccancel k) eqn:E1; [discriminate|]. destruct (bclosed s) eqn:E2; [discriminate|].
  destruct (creg k) eqn:E3; cbn [negb]; [|discriminate].
  destruct (ccommit k + cdelta k <? base s) eqn:E4; [discriminate|].
  destruct (nth_error (log s) (ccommit k + cdelta k)) eqn:E5; [|discriminate].
  intros H; inversion H; subst. exists k. apply Nat.ltb_ge in E4. repeat split; auto.
Qed.

Lemma get_attempt_shape s c : forall r q, get_attempt s c = (r, q) ->
  (exists v p, r = RVal v /\ q = Some p) \/ ((r = REmpty \/ r = RErr) /\ q = None).
Proof.
  intros r q. unfold get_attempt. destruct (getc s c) as [k|]; [|intros H; inversion H; auto].
  destruct (ccancel k); [intros H; inversion H; auto|]. destruct (bclosed s); [intros H; inversion H; auto|].
  destruct (negb (creg k)); [intros H; inversion H; auto|].
  destruct (ccommit k + cdelta k <? base s); [intros H; inversion H; auto|].
  destruct (nth_error (log s) (ccommit k + cdelta k)); intros H; inversion H; eauto.
Qed.

(* the step of a successful Get, spelled out *)
Lemma step_get_val s c s' v :
  step s (OGet c) = (s', RVal v) ->
  exists k, getc s c = Some k /\ let p := ccommit k + cdelta k in
    nth_error (log s) p = Some v /\ base s <= p /\ ccancel k = false /\ bclosed s = false /\ creg k = true /\
    s' = set_cs s (upd (cs s) c (c_get k p)) (dirty s).
Proof.
  unfold step. destruct (get_attempt s c) as [r q] eqn:Ha.
  destruct (get_attempt_shape _ _ _ _ Ha) as [(v0 & p & -> & ->)|[[-> | ->] ->]].
  - destruct (get_attempt_val _ _ _ _ Ha) as (k & Hk & Hp & Hn & Hb & Hc & Hbc & Hr).
    rewrite Hk. intros H; inversion H; subst. exists k. cbv zeta. repeat split; auto.
  - destruct (getc s c); intros H; inversion H.
  - destruct (getc s c); intros H; inversion H.
Qed.

(* a Get that does not return a value changes nothing (C05: a failed Get consumes nothing) *)
Lemma step_get_fail s c s' r :
  step s (OGet c) = (s', r) -> (forall v, r <> RVal v) -> s' = s /\ (r = REmpty \/ r = RErr).
Proof.
  unfold step. destruct (get_attempt s c) as [r0 q] eqn:Ha.
  destruct (get_attempt_shape _ _ _ _ Ha) as [(v0 & p & -> & ->)|[Hr ->]].
  - destruct (get_attempt_val _ _ _ _ Ha) as (k & Hk & _). rewrite Hk.
    intros H Hn; inversion H; subst. exfalso. eapply Hn; reflexivity.
  - intros H Hn. destruct r0; destruct (getc s c); inversion H; subst; auto.
Qed.

Lemma Inv_step s o : Inv s -> Inv (fst (step s o)).
Proof.
  intros HI. pose proof HI as [H1 H2].
  destruct o; unfold step; cbn [fst]; try exact HI.
  - (* Put *)
    destruct (bclosed s); cbn [fst]; [exact HI|]. split; cbn [base log cs].
    + rewrite app_length. lia.
    + eapply Forall_impl; [|exact H2]. intros c. apply CInv_mono. rewrite app_length. lia.
  - (* New *)
    destruct (bclosed s); cbn [fst]; [exact HI|]. split; cbn [base log cs set_cs]; auto.
    apply Forall_app. split; auto. constructor; [apply CInv_new; auto|constructor].
  - (* Get *)
    destruct (step s (OGet c)) as [s' r] eqn:Hs. unfold step in Hs. rewrite Hs. cbn [fst].
    destruct r; try (destruct (step_get_fail _ _ _ _ Hs) as [-> _]; [intros v0 E; discriminate E|exact HI]).
    destruct (step_get_val _ _ _ _ Hs) as (k & Hk & Hn & Hb & _ & _ & _ & ->).
    split; cbn [base log cs set_cs]; auto. apply Forall_upd; auto.
    apply CInv_get.
    + eapply Forall_nth_error; eauto.
    + apply nth_error_Some. rewrite Hn. discriminate.
  - (* Commit *)
    destruct (getc s c) as [k|] eqn:Hk; cbn [fst]; [|exact HI].
    destruct (cdelta k =? 0); cbn [fst]; [exact HI|]. destruct (negb (creg k)); cbn [fst]; [exact HI|].
    split; cbn [base log cs set_cs]; auto. apply Forall_upd; auto. apply CInv_commit. eapply Forall_nth_error; eauto.
  - (* Rollback *)
    destruct (getc s c) as [k|] eqn:Hk; cbn [fst]; [|exact HI].
    destruct (cdelta k =? 0); cbn [fst]; [exact HI|].
    split; cbn [base log cs set_cs]; auto. apply Forall_upd; auto. apply CInv_rollback. eapply Forall_nth_error; eauto.
  - (* Diff *)
    destruct (getc s c) as [k|]; [destruct (creg k)|]; exact HI.
  - (* CloseC *)
    destruct (getc s c) as [k|] eqn:Hk; cbn [fst]; [|exact HI].
    destruct (conce k); cbn [fst]; [exact HI|].
    assert (Hck : CInv (length (log s)) k) by (eapply Forall_nth_error; eauto).
    destruct (cdelta k =? 0); cbn [fst]; split; cbn [base log cs set_cs]; auto; apply Forall_upd; auto.
    + apply CInv_finish; [apply CInv_close_begin; auto|reflexivity].
    + apply CInv_close_begin; auto.
  - (* CloseB *)
    destruct (bonce s); cbn [fst]; [exact HI|]. apply Inv_settle. split; cbn [base log cs]; auto.
    apply Forall_map_same; auto.
  - (* DoneC *) destruct (getc s c); exact HI.
  - (* Settled *) match goal with |- Inv (fst (if ?b then _ else _)) => destruct b end; exact HI.
  - (* ProbeCloseC *) destruct (getc s c); exact HI.
Qed.

Lemma Inv_estep s e : Inv s -> Inv (fst (estep s e)).
Proof.
  intros HI. destruct e as [o| |]; cbn [estep].
  - pose proof (Inv_step s o HI) as H. destruct (step s o); exact H.
  - apply Inv_clean; auto.
  - apply Inv_settle; auto.
Qed.

Lemma erun_cons s e rest :
  erun s (e :: rest) =
  (fst (erun (fst (estep s e)) rest),
   match snd (estep s e) with Some x => x :: snd (erun (fst (estep s e)) rest) | None => snd (erun (fst (estep s e)) rest) end).
Proof.
  cbn [erun]. destruct (estep s e) as [s1 r]. cbn [fst snd]. destruct (erun s1 rest) as [s2 rs]. reflexivity.
Qed.

Theorem Inv_erun evs : forall s, Inv s -> Inv (fst (erun s evs)).
Proof.
  induction evs as [|e rest IH]; intros s HI; [exact HI|].
  rewrite erun_cons. cbn [fst]. apply IH. apply Inv_estep; auto.
Qed.

(* ---------------------------------------------------------------------------------------------------------- *)
(* C01: the put order is append-only; each successful Put appends its whole batch, in argument order            *)
(* ---------------------------------------------------------------------------------------------------------- *)
Definition appended (s : st) (e : ev) : list Z :=
  match e with
  | EOp (OPut vals) => if bclosed s then [] else vals
  | _ => []
  end.

Lemma settle_log s : log (settle s) = log s /\ base (settle s) = base s /\ bclosed (settle s) = bclosed s /\ cfg (settle s) = cfg s.
Proof. cbn. auto. Qed.

Ltac break_match :=
  repeat match goal with
         | |- context [match ?x with _ => _ end] =>
             match x with
             | context [match _ with _ => _ end] => fail 1
             | _ => destruct x
             end
         end.

Lemma step_log s o : log (fst (step s o)) = log s ++ appended s (EOp o).
Proof.
  destruct o; unfold step, appended; break_match; cbn [fst log set_cs settle]; rewrite ?app_nil_r; reflexivity.
Qed.

Theorem estep_log s e : Inv s -> log (fst (estep s e)) = log s ++ appended s e.
Proof.
  intros [H1 _]. destruct e as [o| |]; cbn [estep].
  - pose proof (step_log s o) as H. destruct (step s o). exact H.
  - cbn [appended]. rewrite app_nil_r. unfold clean. cbn [fst]. destruct (bclosed s); [reflexivity|]. apply clean_with_base; auto.
  - cbn [appended]. rewrite app_nil_r. reflexivity.
Qed.

(* the whole run: the log is the initial log followed by the batches of the successful Puts in schedule order *)
Fixpoint batches (s : st) (evs : list ev) : list Z :=
  match evs with
  | [] => []
  | e :: rest => appended s e ++ batches (fst (estep s e)) rest
  end.

Theorem erun_log evs : forall s, Inv s -> log (fst (erun s evs)) = log s ++ batches s evs.
Proof.
  induction evs as [|e rest IH]; intros s HI; cbn [batches].
  - cbn. rewrite app_nil_r. reflexivity.
  - rewrite erun_cons. cbn [fst]. rewrite IH by (apply Inv_estep; auto). rewrite estep_log by auto.
    rewrite app_assoc. reflexivity.
Qed.

(* values at existing positions never change *)
Corollary erun_log_stable evs s p v : Inv s -> nth_error (log s) p = Some v -> nth_error (log (fst (erun s evs))) p = Some v.
Proof.
  intros HI Hn. rewrite erun_log by auto. rewrite nth_error_app1; auto. apply nth_error_Some. rewrite Hn. discriminate.
Qed.

(* ---------------------------------------------------------------------------------------------------------- *)
(* C01/C02: what a successful Get returns and how the cursor moves                                              *)
(* ---------------------------------------------------------------------------------------------------------- *)
Theorem get_returns_log_at_cursor s c s' v :
  Inv s -> step s (OGet c) = (s', RVal v) ->
  exists k, getc s c = Some k /\
    let p := ccommit k + cdelta k in
    nth_error (log s) p = Some v /\ base s <= p /\ cstart k <= p <= chigh k /\
    getc s' c = Some (c_get k p) /\
    log s' = log s /\ base s' = base s /\ (forall c', c' <> c -> getc s' c' = getc s c').
Proof.
  intros [H1 H2] Hs. destruct (step_get_val _ _ _ _ Hs) as (k & Hk & Hn & Hb & _ & _ & _ & ->).
  exists k. cbv zeta. pose proof (Forall_nth_error _ _ _ _ H2 Hk) as (Ha & Hb2 & _).
  repeat split; auto; try lia.
  - unfold getc, set_cs; cbn [cs]. eapply nth_error_upd_same; eauto.
  - intros c' Hne. unfold getc, set_cs; cbn [cs]. apply nth_error_upd_other; auto.
Qed.

(* Commit and Rollback *)
Theorem commit_spec s c s' r :
  step s (OCommit c) = (s', r) ->
  (r = RErr /\ s' = s) \/
  (r = ROk /\ exists k, getc s c = Some k /\ cdelta k <> 0 /\ creg k = true /\
     getc s' c = Some (c_commit k) /\ log s' = log s /\ base s' = base s /\ (forall c', c' <> c -> getc s' c' = getc s c')).
Proof.
  unfold step. destruct (getc s c) as [k|] eqn:Hk; [|intros H; inversion H; auto].
  destruct (cdelta k =? 0) eqn:Ed; [intros H; inversion H; auto|].
  destruct (creg k) eqn:Er; cbn [negb]; [|intros H; inversion H; auto].
  intros H; inversion H; subst. right. split; auto. exists k. apply Nat.eqb_neq in Ed. repeat split; auto.
  - unfold getc, set_cs; cbn [cs]. eapply nth_error_upd_same; eauto.
  - intros c' Hne. unfold getc, set_cs; cbn [cs]. apply nth_error_upd_other; auto.
Qed.

Theorem rollback_spec s c s' r :
  step s (ORollback c) = (s', r) ->
  (r = RErr /\ s' = s) \/
  (r = ROk /\ exists k, getc s c = Some k /\ cdelta k <> 0 /\
     getc s' c = Some (c_rollback k) /\ log s' = log s /\ base s' = base s /\ (forall c', c' <> c -> getc s' c' = getc s c')).
Proof.
  unfold step. destruct (getc s c) as [k|] eqn:Hk; [|intros H; inversion H; auto].
  destruct (cdelta k =? 0) eqn:Ed; [intros H; inversion H; auto|].
  intros H; inversion H; subst. right. split; auto. exists k. apply Nat.eqb_neq in Ed. repeat split; auto.
  - unfold getc, set_cs; cbn [cs]. eapply nth_error_upd_same; eauto.
  - intros c' Hne. unfold getc, set_cs; cbn [cs]. apply nth_error_upd_other; auto.
Qed.

(* with nothing pending both are errors that change nothing *)
Corollary commit_rollback_empty_noop s c k :
  getc s c = Some k -> cdelta k = 0 ->
  step s (OCommit c) = (s, RErr) /\ step s (ORollback c) = (s, RErr).
Proof. intros Hk Hd. unfold step. rewrite Hk, Hd. auto. Qed.


(* ---------------------------------------------------------------------------------------------------------- *)
(* monotonicity: the base and every committed offset never decrease (a Commit is permanent)                     *)
(* ---------------------------------------------------------------------------------------------------------- *)
Definition cle (a b : cons) : Prop :=
  ccommit a <= ccommit b /\ cstart a = cstart b /\ chigh a <= chigh b.

Lemma cle_refl a : cle a a. Proof. unfold cle; auto. Qed.
Lemma cle_trans a b c : cle a b -> cle b c -> cle a c.
Proof. unfold cle; intros (A1 & A2 & A3) (B1 & B2 & B3); repeat split; try lia; congruence. Qed.

Definition sle (s s' : st) : Prop :=
  base s <= base s' /\
  (forall c k, getc s c = Some k -> exists k', getc s' c = Some k' /\ cle k k').

Lemma sle_refl s : sle s s.
Proof. split; auto. intros c k H. exists k; split; auto. apply cle_refl. Qed.

Lemma sle_trans a b c : sle a b -> sle b c -> sle a c.
Proof.
  intros [A1 A2] [B1 B2]. split; [lia|]. intros i k H. destruct (A2 _ _ H) as (k1 & H1 & L1).
  destruct (B2 _ _ H1) as (k2 & H2 & L2). exists k2. split; auto. eapply cle_trans; eauto.
Qed.

Lemma sle_upd s c k x d : getc s c = Some k -> cle k x -> sle s (set_cs s (upd (cs s) c x) d).
Proof.
  intros Hk Hl. split; [cbn; lia|]. intros i ki Hi. unfold getc, set_cs in *; cbn [cs].
  destruct (Nat.eq_dec c i) as [->|Hne].
  - exists x. split; [eapply nth_error_upd_same; eauto|]. congruence.
  - exists ki. split; [rewrite nth_error_upd_other; auto|apply cle_refl].
Qed.

Lemma sle_map s (f : cons -> cons) s' :
  (forall k, cle k (f k)) -> base s <= base s' -> cs s' = map f (cs s) -> sle s s'.
Proof.
  intros Hf Hb Hc. split; auto. intros i k Hi. unfold getc in *. rewrite Hc, nth_error_map, Hi. cbn.
  exists (f k). auto.
Qed.

Lemma cle_settle_c k : cle k (settle_c k).
Proof.
  unfold settle_c. destruct (ccancel k && negb (conce k));
    match goal with |- cle _ (if ?b then _ else _) => destruct b end; unfold cle; cbn; auto.
Qed.

Lemma sle_settle s : sle s (settle s).
Proof. eapply sle_map with (f := settle_c); [apply cle_settle_c| |]; cbn; auto. Qed.

Lemma sle_clean s : Inv s -> sle s (clean s).
Proof.
  intros [H1 _]. unfold clean. destruct (bclosed s); [apply sle_refl|].
  destruct (clean_with_base (cleaner_of (cfg s)) s H1) as ([Ha _] & _ & Hc & _).
  split; auto. intros i k Hi. exists k. unfold getc in *. rewrite Hc. split; auto. apply cle_refl.
Qed.

Lemma sle_step s o : Inv s -> sle s (fst (step s o)).
Proof.
  intros HI. destruct o; unfold step; cbn [fst]; try apply sle_refl.
  - destruct (bclosed s); cbn [fst]; [apply sle_refl|]. split; cbn; auto. intros i k Hi. exists k. split; auto. apply cle_refl.
  - destruct (bclosed s); cbn [fst]; [apply sle_refl|]. split; cbn; auto. intros i k Hi. exists k. split; [|apply cle_refl].
    unfold getc in *; cbn [cs set_cs]. rewrite nth_error_app1; auto. apply nth_error_Some. rewrite Hi. discriminate.
  - destruct (step s (OGet c)) as [s' r] eqn:Hs. unfold step in Hs. rewrite Hs. cbn [fst].
    destruct r; try (destruct (step_get_fail _ _ _ _ Hs) as [-> _]; [intros v0 E; discriminate E|apply sle_refl]).
    destruct (step_get_val _ _ _ _ Hs) as (k & Hk & _ & _ & _ & _ & _ & ->).
    eapply sle_upd; eauto. unfold cle, c_get; cbn. repeat split; auto. lia.
  - destruct (getc s c) as [k|] eqn:Hk; cbn [fst]; [|apply sle_refl].
    destruct (cdelta k =? 0); cbn [fst]; [apply sle_refl|]. destruct (negb (creg k)); cbn [fst]; [apply sle_refl|].
    eapply sle_upd; eauto. unfold cle, c_commit; cbn. repeat split; auto. lia.
  - destruct (getc s c) as [k|] eqn:Hk; cbn [fst]; [|apply sle_refl].
    destruct (cdelta k =? 0); cbn [fst]; [apply sle_refl|].
    eapply sle_upd; eauto. unfold cle; cbn; auto.
  - destruct (getc s c) as [k|]; [destruct (creg k)|]; apply sle_refl.
  - destruct (getc s c) as [k|] eqn:Hk; cbn [fst]; [|apply sle_refl].
    destruct (conce k); cbn [fst]; [apply sle_refl|].
    destruct (cdelta k =? 0); cbn [fst]; eapply sle_upd; eauto; unfold cle; cbn; auto.
  - destruct (bonce s); cbn [fst]; [apply sle_refl|].
    eapply sle_trans; [|apply sle_settle]. eapply sle_map with (f := c_cancel); cbn; auto. intros; unfold cle; cbn; auto.
  - destruct (getc s c); apply sle_refl.
  - match goal with |- sle _ (fst (if ?b then _ else _)) => destruct b end; apply sle_refl.
  - destruct (getc s c); apply sle_refl.
Qed.

Lemma sle_estep s e : Inv s -> sle s (fst (estep s e)).
Proof.
  intros HI. destruct e as [o| |]; cbn [estep].
  - pose proof (sle_step s o HI) as H. destruct (step s o); exact H.
  - apply sle_clean; auto.
  - apply sle_settle.
Qed.

Theorem sle_erun evs : forall s, Inv s -> sle s (fst (erun s evs)).
Proof.
  induction evs as [|e rest IH]; intros s HI; [apply sle_refl|].
  rewrite erun_cons. cbn [fst]. eapply sle_trans; [apply sle_estep; auto|]. apply IH. apply Inv_estep; auto.
Qed.

(* Commit is permanent: after any further schedule, every value a consumer receives lies at or beyond the offset it had
   committed (so committed positions are never returned to it again), and at or beyond its start. *)
Theorem committed_never_returned_again evs s c k s1 s2 v :
  Inv s -> getc s c = Some k ->
  s1 = fst (erun s evs) -> step s1 (OGet c) = (s2, RVal v) ->
  exists k1, getc s1 c = Some k1 /\ ccommit k <= ccommit k1 /\
             nth_error (log s1) (ccommit k1 + cdelta k1) = Some v /\ cstart k <= ccommit k1 + cdelta k1.
Proof.
  intros HI Hk -> Hs. destruct (sle_erun evs s HI) as [_ Hc]. destruct (Hc _ _ Hk) as (k1 & Hk1 & (L1 & L2 & L3)).
  destruct (step_get_val _ _ _ _ Hs) as (k1' & Hk1' & Hn & _). rewrite Hk1 in Hk1'. inversion Hk1'; subst k1'.
  exists k1. repeat split; auto.
  pose proof (Inv_erun evs s HI) as [_ HF]. pose proof (Forall_nth_error _ _ _ _ HF Hk1) as (Ha & _). lia.
Qed.

(* ---------------------------------------------------------------------------------------------------------- *)
(* C03: under the default cleaner nothing an open consumer has not committed past is ever evicted               *)
(* ---------------------------------------------------------------------------------------------------------- *)
Definition DInv (s : st) : Prop := Forall (fun c => creg c = true -> base s <= ccommit c) (cs s).

Lemma rel_offsets_in s c : In c (cs s) -> creg c = true -> In (Z.of_nat (ccommit c) - Z.of_nat (base s))%Z (rel_offsets s).
Proof.
  intros Hin Hr. unfold rel_offsets. apply in_map_iff. exists c. split; auto. apply filter_In. auto.
Qed.

Lemma default_clean_keeps s :
  Inv s -> DInv s -> DInv (clean_with default_cleaner s) /\
  (filter creg (cs s) = [] -> base (clean_with default_cleaner s) = base s).
Proof.
  intros [H1 _] HD.
  pose proof (Proofs.Cleaner.default_cleaner_spec (Z.of_nat (size s)) (rel_offsets s)) as Hspec.
  cbv zeta in Hspec. destruct Hspec as (Hr & Hle & Hneg & _); [lia|].
  pose proof (Proofs.Cleaner.clamp_shift_spec (Z.of_nat (size s)) (default_cleaner (Z.of_nat (size s)) (rel_offsets s))) as Hc.
  cbv zeta in Hc. destruct Hc as (_ & Hid & _); [lia|]. specialize (Hid Hr).
  split.
  - unfold DInv in *. unfold clean_with, set_base; cbn [base cs]. rewrite Hid.
    rewrite Forall_forall in *. intros c Hin Hreg. specialize (HD c Hin Hreg).
    pose proof (rel_offsets_in s c Hin Hreg) as Hio. specialize (Hle _ Hio). lia.
  - intros Hnone. unfold clean_with, set_base; cbn [base]. rewrite Hid.
    unfold rel_offsets in *. rewrite Hnone in *. cbn [map] in *. rewrite Hneg; [lia|constructor].
Qed.

Lemma DInv_settle s : DInv s -> DInv (settle s).
Proof.
  unfold DInv; cbn [cs base settle]. intros H. rewrite Forall_forall in *. intros c Hin Hr.
  apply in_map_iff in Hin. destruct Hin as (c0 & <- & Hin0). specialize (H c0 Hin0).
  unfold settle_c in *. destruct (ccancel c0 && negb (conce c0));
    match type of Hr with creg (if ?b then _ else _) = true => destruct b end; cbn in *; auto; discriminate.
Qed.

Lemma DInv_upd s c k x d :
  DInv s -> getc s c = Some k -> (creg x = true -> creg k = true /\ ccommit k <= ccommit x) -> DInv (set_cs s (upd (cs s) c x) d).
Proof.
  intros HD Hk Hx. unfold DInv, set_cs; cbn [cs base]. apply Forall_upd; auto.
  intros Hr. destruct (Hx Hr) as [Hrk Hle]. pose proof (Forall_nth_error _ _ _ _ HD Hk Hrk). lia.
Qed.

Lemma DInv_step s o : Inv s -> DInv s -> DInv (fst (step s o)).
Proof.
  intros HI HD. destruct o; unfold step; cbn [fst]; try exact HD.
  - destruct (bclosed s); cbn [fst]; exact HD.
  - destruct (bclosed s); cbn [fst]; [exact HD|]. unfold DInv, set_cs; cbn [cs base].
    apply Forall_app. split; [exact HD|]. constructor; [cbn; lia|constructor].
  - destruct (step s (OGet c)) as [s' r] eqn:Hs. unfold step in Hs. rewrite Hs. cbn [fst].
    destruct r; try (destruct (step_get_fail _ _ _ _ Hs) as [-> _]; [intros v0 E; discriminate E|exact HD]).
    destruct (step_get_val _ _ _ _ Hs) as (k & Hk & _ & _ & _ & _ & _ & ->).
    eapply DInv_upd; eauto; cbn; auto.
  - destruct (getc s c) as [k|] eqn:Hk; cbn [fst]; [|exact HD].
    destruct (cdelta k =? 0); cbn [fst]; [exact HD|]. destruct (negb (creg k)); cbn [fst]; [exact HD|].
    eapply DInv_upd; eauto; cbn; intros; split; auto; lia.
  - destruct (getc s c) as [k|] eqn:Hk; cbn [fst]; [|exact HD].
    destruct (cdelta k =? 0); cbn [fst]; [exact HD|]. eapply DInv_upd; eauto; cbn; auto.
  - destruct (getc s c) as [k|]; [destruct (creg k)|]; exact HD.
  - destruct (getc s c) as [k|] eqn:Hk; cbn [fst]; [|exact HD].
    destruct (conce k); cbn [fst]; [exact HD|].
    destruct (cdelta k =? 0); cbn [fst]; eapply DInv_upd; eauto; cbn; auto; discriminate.
  - destruct (bonce s); cbn [fst]; [exact HD|]. apply DInv_settle. unfold DInv in *; cbn [cs base].
    rewrite Forall_forall in *. intros c Hin Hr. apply in_map_iff in Hin. destruct Hin as (c0 & <- & Hin0).
    exact (HD c0 Hin0 Hr).
  - destruct (getc s c); exact HD.
  - match goal with |- DInv (fst (if ?b then _ else _)) => destruct b end; exact HD.
  - destruct (getc s c); exact HD.
Qed.

Lemma cfg_estep s e : cfg (fst (estep s e)) = cfg s.
Proof.
  destruct e as [o| |]; cbn [estep].
  - destruct o; unfold step; break_match; reflexivity.
  - unfold clean. cbn [fst]. destruct (bclosed s); auto.
  - reflexivity.
Qed.

Lemma DInv_estep s e : cfg s = CDefault -> Inv s -> DInv s -> DInv (fst (estep s e)).
Proof.
  intros Hc HI HD. destruct e as [o| |]; cbn [estep].
  - pose proof (DInv_step s o HI HD) as H. destruct (step s o); exact H.
  - unfold clean. cbn [fst]. destruct (bclosed s); auto. rewrite Hc. cbn [cleaner_of]. apply default_clean_keeps; auto.
  - apply DInv_settle; auto.
Qed.

Theorem default_never_evicts_unread evs : forall s,
  cfg s = CDefault -> Inv s -> DInv s -> DInv (fst (erun s evs)).
Proof.
  induction evs as [|e rest IH]; intros s Hc HI HD; [exact HD|].
  rewrite erun_cons. cbn [fst]. apply IH; [rewrite cfg_estep; auto|apply Inv_estep; auto|apply DInv_estep; auto].
Qed.

(* hence: a registered, open consumer of an open buffer never gets the past-offset error, however far ahead others are *)
Corollary default_get_never_offset_error evs c k :
  let s := fst (erun (init CDefault) evs) in
  getc s c = Some k -> creg k = true -> ccancel k = false -> bclosed s = false ->
  snd (step s (OGet c)) <> RErr.
Proof.
  cbv zeta. intros Hk Hr Hc Hb.
  assert (HD : DInv (fst (erun (init CDefault) evs))).
  { apply default_never_evicts_unread; [reflexivity|apply Inv_init|constructor]. }
  pose proof (Forall_nth_error _ _ _ _ HD Hk Hr) as Hle.
  unfold step, get_attempt. rewrite Hk, Hc, Hb, Hr. cbn [negb].
  replace (ccommit k + cdelta k <? base (fst (erun (init CDefault) evs))) with false
    by (symmetry; apply Nat.ltb_ge; lia).
  destruct (nth_error _ _); cbn; discriminate.
Qed.

(* nothing is removed while no consumer is registered *)
Theorem default_no_consumer_no_eviction s :
  cfg s = CDefault -> Inv s -> DInv s -> filter creg (cs s) = [] -> base (clean s) = base s.
Proof.
  intros Hc HI HD Hn. unfold clean. destruct (bclosed s); auto. rewrite Hc. cbn [cleaner_of].
  apply default_clean_keeps; auto.
Qed.

(* ---------------------------------------------------------------------------------------------------------- *)
(* C03: under ANY cleaner, a consumer whose next value was evicted fails on every later Get                      *)
(* ---------------------------------------------------------------------------------------------------------- *)
Definition lagging (s : st) (c : nat) : Prop :=
  exists k, getc s c = Some k /\ ccommit k + cdelta k < base s.

Lemma lagging_get_errs s c : lagging s c -> step s (OGet c) = (s, RErr).
Proof.
  intros (k & Hk & Hl). unfold step, get_attempt. rewrite Hk.
  destruct (ccancel k); auto. destruct (bclosed s); auto. destruct (negb (creg k)); auto.
  replace (ccommit k + cdelta k <? base s) with true by (symmetry; apply Nat.ltb_lt; lia). reflexivity.
Qed.

Lemma lagging_upd s c k x d i :
  lagging s i -> getc s c = Some k -> ccommit x + cdelta x <= ccommit k + cdelta k -> lagging (set_cs s (upd (cs s) c x) d) i.
Proof.
  intros (ki & Hki & Hl) Hk Hx. unfold lagging, getc, set_cs in *; cbn [cs base].
  destruct (Nat.eq_dec c i) as [->|Hne].
  - exists x. split; [eapply nth_error_upd_same; eauto|]. rewrite Hk in Hki. inversion Hki; subst. lia.
  - exists ki. split; [rewrite nth_error_upd_other; auto|auto].
Qed.

Lemma lagging_map s f s' i :
  (forall k, ccommit (f k) + cdelta (f k) = ccommit k + cdelta k) -> base s <= base s' -> cs s' = map f (cs s) ->
  lagging s i -> lagging s' i.
Proof.
  intros Hf Hb Hc (k & Hk & Hl). exists (f k). unfold getc in *. rewrite Hc, nth_error_map, Hk. cbn. split; auto.
  rewrite Hf. lia.
Qed.

Lemma settle_c_pos k : ccommit (settle_c k) + cdelta (settle_c k) = ccommit k + cdelta k.
Proof.
  unfold settle_c. destruct (ccancel k && negb (conce k));
    match goal with |- context [if ?b then _ else _] => destruct b end; reflexivity.
Qed.

Lemma lagging_step s o i : Inv s -> lagging s i -> lagging (fst (step s o)) i.
Proof.
  intros HI HL. destruct o; unfold step; cbn [fst]; try exact HL.
  - destruct (bclosed s); cbn [fst]; [exact HL|]. destruct HL as (k & Hk & Hl). exists k. split; auto.
  - destruct (bclosed s); cbn [fst]; [exact HL|]. destruct HL as (k & Hk & Hl). exists k. split; auto.
    unfold getc in *; cbn [cs set_cs]. rewrite nth_error_app1; auto. apply nth_error_Some. rewrite Hk. discriminate.
  - destruct (step s (OGet c)) as [s' r] eqn:Hs. unfold step in Hs. rewrite Hs. cbn [fst].
    destruct r; try (destruct (step_get_fail _ _ _ _ Hs) as [-> _]; [intros v0 E; discriminate E|exact HL]).
    destruct (step_get_val _ _ _ _ Hs) as (k & Hk & _ & Hb & _ & _ & _ & ->).
    (* the reading consumer itself is not lagging (base <= its position); others are untouched *)
    destruct HL as (ki & Hki & Hl). unfold lagging, getc, set_cs in *; cbn [cs base].
    destruct (Nat.eq_dec c i) as [->|Hne].
    + rewrite Hk in Hki. inversion Hki; subst. lia.
    + exists ki. split; [rewrite nth_error_upd_other; auto|auto].
  - destruct (getc s c) as [k|] eqn:Hk; cbn [fst]; [|exact HL].
    destruct (cdelta k =? 0); cbn [fst]; [exact HL|]. destruct (negb (creg k)); cbn [fst]; [exact HL|].
    eapply lagging_upd; eauto. cbn. lia.
  - destruct (getc s c) as [k|] eqn:Hk; cbn [fst]; [|exact HL].
    destruct (cdelta k =? 0); cbn [fst]; [exact HL|]. eapply lagging_upd; eauto. cbn. lia.
  - destruct (getc s c) as [k|]; [destruct (creg k)|]; exact HL.
  - destruct (getc s c) as [k|] eqn:Hk; cbn [fst]; [|exact HL].
    destruct (conce k); cbn [fst]; [exact HL|].
    destruct (cdelta k =? 0); cbn [fst]; eapply lagging_upd; eauto; cbn; lia.
  - destruct (bonce s); cbn [fst]; [exact HL|].
    eapply lagging_map with (f := settle_c); [apply settle_c_pos| |reflexivity|]; [cbn; lia|].
    eapply lagging_map with (f := c_cancel); [reflexivity| |reflexivity|exact HL]. cbn; lia.
  - destruct (getc s c); exact HL.
  - match goal with |- lagging (fst (if ?b then _ else _)) _ => destruct b end; exact HL.
  - destruct (getc s c); exact HL.
Qed.

Lemma lagging_estep s e i : Inv s -> lagging s i -> lagging (fst (estep s e)) i.
Proof.
  intros HI HL. destruct e as [o| |]; cbn [estep].
  - pose proof (lagging_step s o i HI HL) as H. destruct (step s o); exact H.
  - cbn [fst]. destruct (sle_clean s HI) as [Hb _]. destruct HL as (k & Hk & Hl). exists k. split; [|lia].
    unfold clean, getc in *. destruct (bclosed s); auto.
    all: try (destruct HI as [H1 _]; destruct (clean_with_base (cleaner_of (cfg s)) s H1) as (_ & _ & Hc & _); rewrite Hc; auto).
  - eapply lagging_map with (f := settle_c); [apply settle_c_pos| |reflexivity|exact HL]. cbn; lia.
Qed.

Theorem evicted_fails_forever evs : forall s i,
  Inv s -> lagging s i ->
  let s' := fst (erun s evs) in lagging s' i /\ step s' (OGet i) = (s', RErr).
Proof.
  induction evs as [|e rest IH]; intros s i HI HL; cbv zeta.
  - cbn. split; auto. apply lagging_get_errs; auto.
  - rewrite erun_cons. cbn [fst]. apply IH; [apply Inv_estep; auto|apply lagging_estep; auto].
Qed.

(* the forced trim of ANY cleaner function only moves the base forward and leaves log and consumers alone: consumers
   at or beyond the new base are unaffected (their next Get reads the same position of the same log) *)
Theorem any_cleaner_only_advances_base f s :
  Inv s -> let s' := clean_with f s in
  base s <= base s' <= length (log s) /\ log s' = log s /\ cs s' = cs s.
Proof. intros [H1 _]. cbv zeta. destruct (clean_with_base f s H1) as (Ha & Hb & Hc & _). auto. Qed.

(* ---------------------------------------------------------------------------------------------------------- *)
(* C03: Slice / Size / Diff                                                                                     *)
(* ---------------------------------------------------------------------------------------------------------- *)
Theorem slice_size_diff s c k :
  Inv s -> getc s c = Some k -> creg k = true ->
  step s OSlice = (s, RBuf (skipn (base s) (log s))) /\
  step s OSize = (s, RInt (length (log s) - base s)) /\
  length (skipn (base s) (log s)) = length (log s) - base s /\
  step s (ODiff c) = (s, RDiff (Z.of_nat (length (log s)) - Z.of_nat (ccommit k + cdelta k)) true) /\
  ((Z.of_nat (length (log s)) - Z.of_nat (ccommit k + cdelta k) > Z.of_nat (length (log s) - base s))%Z
     <-> ccommit k + cdelta k < base s).
Proof.
  intros [H1 _] Hk Hr. unfold step, size. rewrite Hk, Hr, skipn_length. repeat split; auto; lia.
Qed.

(* ---------------------------------------------------------------------------------------------------------- *)
(* C12: closing                                                                                                 *)
(* ---------------------------------------------------------------------------------------------------------- *)
Theorem after_close_calls_fail s :
  bclosed s = true ->
  (forall vals, step s (OPut vals) = (s, RErr)) /\ step s ONew = (s, RErr) /\
  (forall c, step s (OGet c) = (s, RErr)) /\
  (forall c k, getc s c = Some k -> cdelta k = 0 -> step s (OCommit c) = (s, RErr)).
Proof.
  intros Hb. repeat split.
  - intros vals. unfold step. rewrite Hb. reflexivity.
  - unfold step. rewrite Hb. reflexivity.
  - intros c. unfold step, get_attempt. rewrite Hb. destruct (getc s c) as [k|]; auto. destruct (ccancel k); auto.
  - intros c k Hk Hd. unfold step. rewrite Hk, Hd. reflexivity.
Qed.

Lemma bclosed_estep s e : bclosed s = true -> bclosed (fst (estep s e)) = true.
Proof.
  intros Hb. destruct e as [o| |]; cbn [estep].
  - destruct o; unfold step, get_attempt; rewrite ?Hb; break_match; cbn [fst bclosed set_cs settle]; auto.
  - unfold clean. rewrite Hb. auto.
  - cbn. auto.
Qed.

Theorem closed_stays_closed evs : forall s, bclosed s = true -> bclosed (fst (erun s evs)) = true.
Proof.
  induction evs as [|e rest IH]; intros s Hb; [exact Hb|]. rewrite erun_cons. cbn [fst]. apply IH, bclosed_estep; auto.
Qed.

(* Buffer.Close, when no consumer has uncommitted reads: terminates at once, Done closed, every consumer closed and
   deregistered, contents untouched; a second Close does not succeed. *)
Theorem buffer_close_terminates s :
  Inv s -> bonce s = false -> Forall (fun c => cdelta c = 0) (cs s) ->
  let s' := fst (step s OCloseB) in
  snd (step s OCloseB) = ROk /\ bdone s' = true /\ bclosed s' = true /\
  Forall (fun c => creg c = false /\ cdone c = true) (cs s') /\
  log s' = log s /\ base s' = base s /\
  snd (step s' OCloseB) = RErr.
Proof.
  intros [_ HF] Ho Hd. cbv zeta. unfold step. rewrite Ho. cbn [fst snd].
  set (l := map settle_c (map c_cancel (cs s))).
  assert (Hall : Forall (fun c => creg c = false /\ cdone c = true) l).
  { unfold l. rewrite Forall_forall in *. intros c Hin. apply in_map_iff in Hin. destruct Hin as (c1 & <- & Hin1).
    apply in_map_iff in Hin1. destruct Hin1 as (c0 & <- & Hin0).
    specialize (Hd c0 Hin0). specialize (HF c0 Hin0). destruct HF as (_ & _ & _ & _ & _ & Hfl).
    unfold settle_c, c_cancel; cbn [ccancel conce cdone cdelta creg]. rewrite Hd.
    destruct (conce c0) eqn:E1; cbn [negb andb].
    - destruct (cdone c0) eqn:E2; cbn [negb andb].
      + cbn. destruct (Hfl eq_refl). auto.
      + cbn. auto.
    - destruct (cdone c0) eqn:E2; [destruct (Hfl eq_refl); congruence|]. cbn. auto. }
  assert (Hnone : existsb creg l = false).
  { clear -Hall. induction Hall as [|c l0 [Hc _] _ IH]; cbn; auto. rewrite Hc, IH. reflexivity. }
  cbn [settle bdone bonce cs log base bclosed]. fold l. rewrite Hnone. cbn [negb andb orb].
  rewrite orb_true_r. repeat split; auto.
Qed.

(* consumer.Close with nothing uncommitted: terminates, Done closed, deregistered; a second Close fails *)
Theorem consumer_close_terminates s c k :
  getc s c = Some k -> conce k = false -> cdelta k = 0 ->
  let s' := fst (step s (OCloseC c)) in
  snd (step s (OCloseC c)) = ROk /\
  (exists k', getc s' c = Some k' /\ creg k' = false /\ cdone k' = true /\ ccancel k' = true) /\
  log s' = log s /\ base s' = base s /\ snd (step s' (OCloseC c)) = RErr.
Proof.
  intros Hk Ho Hd. cbv zeta.
  assert (Hstep : step s (OCloseC c) = (set_cs s (upd (cs s) c (c_finish (c_close_begin k))) true, ROk)).
  { unfold step. rewrite Hk, Ho, Hd. reflexivity. }
  rewrite Hstep. cbn [fst snd].
  assert (Hg : getc (set_cs s (upd (cs s) c (c_finish (c_close_begin k))) true) c = Some (c_finish (c_close_begin k))).
  { unfold getc, set_cs; cbn [cs]. eapply nth_error_upd_same; eauto. }
  split; [reflexivity|]. split; [eexists; split; [exact Hg|cbn; auto]|].
  split; [reflexivity|]. split; [reflexivity|].
  unfold step. rewrite Hg. reflexivity.
Qed.

(* a consumer closed while it has uncommitted reads is released by the next Rollback or Commit (settle then finishes) *)
Theorem blocked_close_released s c k :
  getc s c = Some k -> conce k = true -> cdone k = false -> cdelta k = 0 ->
  exists k', getc (settle s) c = Some k' /\ creg k' = false /\ cdone k' = true.
Proof.
  intros Hk Ho Hdn Hd. unfold getc, settle in *; cbn [cs]. rewrite nth_error_map, Hk. cbn [option_map].
  eexists. split; [reflexivity|]. unfold settle_c. rewrite Ho. cbn [negb]. rewrite andb_false_r, Ho, Hdn, Hd. cbn. auto.
Qed.

(* ---------------------------------------------------------------------------------------------------------- *)
(* non-vacuity                                                                                                  *)
(* ---------------------------------------------------------------------------------------------------------- *)
Example buffer_run_example :
  snd (erun (init CDefault)
         [EOp (OPut [1; 2]%Z); EOp ONew; EOp (OGet 0); EOp (OGet 0); EOp (ORollback 0); EOp (OGet 0); EOp (OCommit 0);
          EClean; EOp OSlice; EOp ONew; EOp (OPut [3]%Z); EOp (OGet 1); EOp (OGet 0); EOp (OGet 0); EOp (OGet 0);
          EOp (ODiff 1); EOp (OCloseC 0); EOp (ORollback 0); ESettle; EOp (ODoneC 0); EOp OCloseB; EOp (OPut [4]%Z)])
  = [ROk; RId 0; RVal 1; RVal 2; ROk; RVal 1; ROk; RBuf [2]; RId 1; ROk; RVal 2; RVal 2; RVal 3; REmpty;
     RDiff 1 true; RBlocked; ROk; RBool true; RBlocked; RErr]%Z.
Proof. vm_compute. reflexivity. Qed.

Example lagging_example :
  let s := fst (erun (init (CFixed 2 1)) [EOp ONew; EOp (OPut [1; 2; 3; 4]%Z); EClean]) in
  lagging s 0 /\ step s (OGet 0) = (s, RErr) /\ base s = 3.
Proof. vm_compute. split; [exists (c_new 0); split; [reflexivity|repeat constructor]|split; reflexivity]. Qed.
