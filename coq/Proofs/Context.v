(* Proofs about Model/Context.v: the std-context primitives, then ChainAfterFunc, CombineContext, ConflatedContext. *)
From Coq Require Import List Arith Bool Lia.
From BB.Model Require Import Context.
Import ListNotations.

Arguments Nat.sub : simpl never.
Arguments Nat.eqb : simpl never.
Arguments Nat.ltb : simpl never.
Arguments Nat.leb : simpl never.

(* ------------------------------------------------------------------------------------------------------------ *)
(* A. lists                                                                                                     *)
(* ------------------------------------------------------------------------------------------------------------ *)
Lemma nth_updf {A : Type} (f : A -> A) (l : list A) (i j : nat) :
  nth_error (updf l i f) j = if j =? i then option_map f (nth_error l j) else nth_error l j.
Proof.
  revert i j. induction l as [|x t IH]; intros i j.
  - cbn. destruct (j =? i); destruct j; reflexivity.
  - destruct i as [|i]; destruct j as [|j]; cbn [updf nth_error]; try reflexivity.
    rewrite IH. destruct (Nat.eqb_spec j i); destruct (Nat.eqb_spec (S j) (S i)); try lia; reflexivity.
Qed.

Lemma length_updf {A : Type} (f : A -> A) (l : list A) (i : nat) : length (updf l i f) = length l.
Proof. revert i. induction l as [|x t IH]; intros [|i]; cbn; auto. Qed.

Lemma nth_error_snoc_old {A : Type} (l : list A) (x : A) (i : nat) :
  i < length l -> nth_error (l ++ [x]) i = nth_error l i.
Proof. intros H. apply nth_error_app1. exact H. Qed.

Lemma nth_error_snoc_new {A : Type} (l : list A) (x : A) : nth_error (l ++ [x]) (length l) = Some x.
Proof. rewrite nth_error_app2 by lia. rewrite Nat.sub_diag. reflexivity. Qed.

Lemma nth_error_snoc_inv {A : Type} (l : list A) (x y : A) (i : nat) :
  nth_error (l ++ [x]) i = Some y -> (i < length l /\ nth_error l i = Some y) \/ (i = length l /\ y = x).
Proof.
  intros H. destruct (Nat.lt_ge_cases i (length l)) as [Hlt|Hge].
  - left. split; [exact Hlt|]. rewrite nth_error_app1 in H by exact Hlt. exact H.
  - right. assert (Hlen : i < length (l ++ [x])) by (apply nth_error_Some; congruence).
    rewrite app_length in Hlen. cbn in Hlen. assert (i = length l) by lia. subst i.
    rewrite nth_error_snoc_new in H. split; congruence.
Qed.

Lemma nth_error_lt {A : Type} (l : list A) (i : nat) (x : A) : nth_error l i = Some x -> i < length l.
Proof. intros H. apply nth_error_Some. congruence. Qed.

Lemma memb_In (n : nat) (l : list nat) : memb n l = true <-> In n l.
Proof.
  unfold memb. rewrite existsb_exists. split.
  - intros (x & Hin & Heq). apply Nat.eqb_eq in Heq. subst. exact Hin.
  - intros H. exists n. split; [exact H|apply Nat.eqb_refl].
Qed.

(* ------------------------------------------------------------------------------------------------------------ *)
(* B. nodes                                                                                                     *)
(* ------------------------------------------------------------------------------------------------------------ *)
Lemma is_canc_mark (ns : list node) (n x : nat) :
  is_canc (map (mark n) ns) x = is_canc ns x || memb n (anc_of ns x).
Proof.
  unfold is_canc, anc_of. rewrite nth_error_map. destruct (nth_error ns x) as [y|]; cbn; [|reflexivity].
  unfold mark. destruct (memb n (anc y)); cbn; [rewrite orb_true_r|rewrite orb_false_r]; reflexivity.
Qed.

Lemma anc_of_mark (ns : list node) (n x : nat) : anc_of (map (mark n) ns) x = anc_of ns x.
Proof.
  unfold anc_of. rewrite nth_error_map. destruct (nth_error ns x) as [y|]; cbn; [|reflexivity].
  unfold mark. destruct (memb n (anc y)); reflexivity.
Qed.

Lemma vals_of_mark (ns : list node) (n x : nat) : vals_of (map (mark n) ns) x = vals_of ns x.
Proof.
  unfold vals_of. rewrite nth_error_map. destruct (nth_error ns x) as [y|]; cbn; [|reflexivity].
  unfold mark. destruct (memb n (anc y)); reflexivity.
Qed.

Lemma is_canc_mark_mono (ns : list node) (n x : nat) : is_canc ns x = true -> is_canc (map (mark n) ns) x = true.
Proof. intros H. rewrite is_canc_mark, H. reflexivity. Qed.

Lemma is_canc_snoc_old ns y x : x < length ns -> is_canc (ns ++ [y]) x = is_canc ns x.
Proof. intros H. unfold is_canc. rewrite nth_error_snoc_old by exact H. reflexivity. Qed.
Lemma anc_of_snoc_old ns y x : x < length ns -> anc_of (ns ++ [y]) x = anc_of ns x.
Proof. intros H. unfold anc_of. rewrite nth_error_snoc_old by exact H. reflexivity. Qed.
Lemma vals_of_snoc_old ns y x : x < length ns -> vals_of (ns ++ [y]) x = vals_of ns x.
Proof. intros H. unfold vals_of. rewrite nth_error_snoc_old by exact H. reflexivity. Qed.
Lemma is_canc_snoc_new ns y : is_canc (ns ++ [y]) (length ns) = canc y.
Proof. unfold is_canc. rewrite nth_error_snoc_new. reflexivity. Qed.
Lemma anc_of_snoc_new ns y : anc_of (ns ++ [y]) (length ns) = anc y.
Proof. unfold anc_of. rewrite nth_error_snoc_new. reflexivity. Qed.
Lemma vals_of_snoc_new ns y : vals_of (ns ++ [y]) (length ns) = vals y.
Proof. unfold vals_of. rewrite nth_error_snoc_new. reflexivity. Qed.

Lemma is_canc_lt ns x : is_canc ns x = true -> x < length ns.
Proof. unfold is_canc. destruct (nth_error ns x) eqn:E; [intros _; eapply nth_error_lt; eauto|discriminate]. Qed.

Lemma is_canc_snoc_mono ns y x : is_canc ns x = true -> is_canc (ns ++ [y]) x = true.
Proof. intros H. rewrite is_canc_snoc_old; [exact H|apply is_canc_lt; exact H]. Qed.

(* ------------------------------------------------------------------------------------------------------------ *)
(* C. registrations: what each primitive does to the registration at index i                                    *)
(* ------------------------------------------------------------------------------------------------------------ *)
Lemma fire_static ns r : rnode (fire ns r) = rnode r /\ rfn (fire ns r) = rfn r.
Proof. unfold fire. destruct (rst r); try (split; reflexivity). destruct (is_canc ns (rnode r)); split; reflexivity. Qed.

Lemma fire_cases ns r :
  (rst r = Pending /\ is_canc ns (rnode r) = true /\ fire ns r = set_rst r (Run (rfn r))) \/
  (rst r = Pending /\ is_canc ns (rnode r) = false /\ fire ns r = r) \/
  (rst r <> Pending /\ fire ns r = r).
Proof.
  unfold fire. destruct (rst r) eqn:E.
  - destruct (is_canc ns (rnode r)); [left|right; left]; auto.
  - right; right; split; [discriminate|reflexivity].
  - right; right; split; [discriminate|reflexivity].
  - right; right; split; [discriminate|reflexivity].
Qed.

Lemma regs_cancel_nth w n i r' :
  nth_error (regs (w_cancel w n)) i = Some r' ->
  exists r, nth_error (regs w) i = Some r /\ r' = fire (map (mark n) (nodes w)) r.
Proof.
  cbn [w_cancel regs]. rewrite nth_error_map. destruct (nth_error (regs w) i) as [r|]; cbn; [|discriminate].
  intros H. exists r. split; [reflexivity|congruence].
Qed.

Lemma regs_setrst_nth w r s i x' :
  nth_error (regs (w_setrst w r s)) i = Some x' ->
  exists x, nth_error (regs w) i = Some x /\ ((i = r /\ x' = set_rst x s) \/ (i <> r /\ x' = x)).
Proof.
  cbn [w_setrst w_setregs regs]. rewrite nth_updf. destruct (Nat.eqb_spec i r) as [->|Hne].
  - destruct (nth_error (regs w) r) as [x|]; cbn; [|discriminate]. intros H. exists x. split; [reflexivity|left; split; congruence].
  - intros H. exists x'. split; [exact H|right; split; [exact Hne|reflexivity]].
Qed.

Lemma nodes_setrst w r s : nodes (w_setrst w r s) = nodes w.
Proof. reflexivity. Qed.

Lemma is_pending_spec w r : is_pending w r = true <-> exists x, nth_error (regs w) r = Some x /\ rst x = Pending.
Proof.
  unfold is_pending. destruct (nth_error (regs w) r) as [x|].
  - destruct (rst x) eqn:E; split; try discriminate; try (intros (y & Hy & Hp); inversion Hy; subst; congruence).
    intros _. exists x. auto.
  - split; [discriminate|intros (y & Hy & _); discriminate].
Qed.

(* inversion of one hook-goroutine step *)
Lemma w_hook_inv w r w' :
  w_hook w r = Some w' ->
  exists x, nth_error (regs w) r = Some x /\
    ((exists a, rst x = Run (FAct a) /\ w' = w_setrst (w_act w a) r Done) \/
     (exists c r0 a, rst x = Run (FChain c r0 a) /\ is_pending w r0 = true /\
                     w' = w_setrst (w_setrst w r0 Stopped) r (Run (FAct a))) \/
     (exists c r0 a, rst x = Run (FChain c r0 a) /\ is_pending w r0 = false /\
                     w' = w_setrst w r (if negb c then Run (FAct a) else Done)) \/
     (rst x = Run (FStopAll []) /\ w' = w_setrst w r Done) \/
     (exists r0 rs, rst x = Run (FStopAll (r0 :: rs)) /\ w' = w_setrst (fst (w_stop w r0)) r (Run (FStopAll rs)))).
Proof.
  unfold w_hook. destruct (nth_error (regs w) r) as [x|]; [|discriminate].
  intros H. exists x. split; [reflexivity|].
  destruct (rst x) as [| |f|]; try discriminate.
  destruct f as [a|c r0 a|rs].
  - left. exists a. split; [reflexivity|congruence].
  - unfold w_stop in H. destruct (is_pending w r0) eqn:Ep.
    + right; left. exists c, r0, a. split; [reflexivity|]. split; [exact Ep|]. cbn in H. congruence.
    + right; right; left. exists c, r0, a. split; [reflexivity|]. split; [exact Ep|]. cbn in H. congruence.
  - destruct rs as [|r0 rs].
    + right; right; right; left. split; [reflexivity|congruence].
    + right; right; right; right. exists r0, rs. split; [reflexivity|congruence].
Qed.

(* generic reachability *)
Lemma run_inv {T : Type} (step : T -> lbl -> option T) (P : T -> Prop) :
  (forall s l s', P s -> step s l = Some s' -> P s') ->
  forall sched s, P s -> P (run step s sched).
Proof.
  intros Hstep sched. induction sched as [|l t IH]; intros s Hs; cbn [run]; [exact Hs|].
  apply IH. unfold step_or_stutter. destruct (step s l) as [s'|] eqn:E; [eapply Hstep; eauto|exact Hs].
Qed.

Lemma no_running_spec w : no_running w = true <-> forall i x, nth_error (regs w) i = Some x -> forall f, rst x <> Run f.
Proof.
  unfold no_running. rewrite forallb_forall. split.
  - intros H i x Hx f Hf. apply nth_error_In in Hx. apply H in Hx. unfold running in Hx. rewrite Hf in Hx. discriminate.
  - intros H x Hin. apply In_nth_error in Hin. destruct Hin as [i Hi]. unfold running.
    destruct (rst x) eqn:E; try reflexivity. exfalso. eapply H; eauto.
Qed.

(* ------------------------------------------------------------------------------------------------------------ *)
Ltac wsimp := cbn [w_setrst w_setregs w_act w_afterfunc w_wgadd w_addnode regs nodes calls wg wgneg updf set_rst rnode rfn rst
                     cw cpc bw fw].

(* D. ChainAfterFunc                                                                                            *)
(* ------------------------------------------------------------------------------------------------------------ *)
Definition I0 (w : world) (other : nat) (r0 : reg) : Prop :=
  match rst r0 with
  | Pending => calls w = 0 /\ is_canc (nodes w) other = false
  | Run f => f = FAct ACall /\ calls w = 0 /\ is_canc (nodes w) other = true
  | Done => calls w = 1 /\ is_canc (nodes w) other = true
  | Stopped => False
  end.

Definition I1 (w : world) (cx other : nat) (r0 r1 : reg) : Prop :=
  match rst r1 with
  | Pending => is_canc (nodes w) cx = false /\ I0 w other r0
  | Run f => is_canc (nodes w) cx = true /\
             ((f = FChain true 0 ACall /\ I0 w other r0) \/ (f = FAct ACall /\ rst r0 = Stopped /\ calls w = 0))
  | Done => is_canc (nodes w) cx = true /\
            ((rst r0 = Stopped /\ calls w = 1) \/ (I0 w other r0 /\ rst r0 <> Pending))
  | Stopped => False
  end.

Definition chain_Inv (cx other : nat) (s : cst) : Prop :=
  let w := cw s in
  match cpc s, regs w with
  | 0, [] => calls w = 0
  | 1, [r0] => rnode r0 = other /\ rfn r0 = FAct ACall /\ I0 w other r0
  | 2, [r0; r1] => rnode r0 = other /\ rfn r0 = FAct ACall /\ rnode r1 = cx /\ rfn r1 = FChain true 0 ACall /\
                   I1 w cx other r0 r1
  | _, _ => False
  end.

Lemma I0_cancel w other r0 n :
  rnode r0 = other -> rfn r0 = FAct ACall -> I0 w other r0 ->
  I0 (w_cancel w n) other (fire (map (mark n) (nodes w)) r0).
Proof.
  intros Hn Hf H. unfold I0 in *. unfold fire. destruct (rst r0) eqn:E.
  - rewrite Hn. cbn [w_cancel nodes calls]. destruct H as [Hc Hk].
    destruct (is_canc (map (mark n) (nodes w)) other) eqn:E2; cbn [set_rst rst].
    + rewrite Hf. auto.
    + rewrite E. auto.
  - contradiction.
  - rewrite E. cbn [w_cancel nodes calls]. destruct H as (Hf' & Hc & Hk). rewrite is_canc_mark_mono by exact Hk. auto.
  - rewrite E. cbn [w_cancel nodes calls]. destruct H as (Hc & Hk). rewrite is_canc_mark_mono by exact Hk. auto.
Qed.

Lemma fire_rst_np ns r : rst r <> Pending -> fire ns r = r.
Proof. intros H. unfold fire. destruct (rst r); try reflexivity. congruence. Qed.

Lemma I1_cancel w cx other r0 r1 n :
  rnode r0 = other -> rfn r0 = FAct ACall -> rnode r1 = cx -> rfn r1 = FChain true 0 ACall ->
  I1 w cx other r0 r1 ->
  I1 (w_cancel w n) cx other (fire (map (mark n) (nodes w)) r0) (fire (map (mark n) (nodes w)) r1).
Proof.
  intros Hn0 Hf0 Hn1 Hf1 H. unfold I1 in *.
  pose proof (I0_cancel w other r0 n Hn0 Hf0) as HI0.
  destruct (rst r1) eqn:E1.
  - destruct H as [Hk H0].
    destruct (fire_cases (map (mark n) (nodes w)) r1) as [(_ & Ek & ->)|[(_ & Ek & ->)|(Hnp & _)]]; [| |congruence];
      rewrite Hn1 in Ek; cbn [set_rst rst w_cancel nodes].
    + rewrite Hf1. split; [exact Ek|]. left. split; [reflexivity|]. apply HI0. exact H0.
    + rewrite E1. split; [exact Ek|]. apply HI0. exact H0.
  - contradiction.
  - rewrite (fire_rst_np _ r1) by congruence. rewrite E1.
    destruct H as [Hk H]. split; [apply is_canc_mark_mono; exact Hk|].
    destruct H as [[Hf H0]|(Hf & Hs & Hc)].
    + left. split; [exact Hf|]. apply HI0. exact H0.
    + right. rewrite (fire_rst_np _ r0) by congruence. auto.
  - rewrite (fire_rst_np _ r1) by congruence. rewrite E1.
    destruct H as [Hk H]. split; [apply is_canc_mark_mono; exact Hk|].
    destruct H as [[Hs Hc]|[H0 Hnp]].
    + left. rewrite (fire_rst_np _ r0) by congruence. auto.
    + right. split; [apply HI0; exact H0|]. rewrite (fire_rst_np _ r0) by exact Hnp. exact Hnp.
Qed.

Lemma chain_step_inv cx other nenv s l s' :
  chain_Inv cx other s -> chain_step true cx other nenv s l = Some s' -> chain_Inv cx other s'.
Proof.
  intros HI Hstep. destruct s as [w pc]. unfold chain_Inv in HI. cbn [cw cpc] in HI.
  destruct l as [|r|n| |]; cbn [chain_step cw cpc] in Hstep; try discriminate.
  - (* LMain *)
    destruct pc as [|[|[|pc]]]; try discriminate.
    + destruct (regs w) as [|? ?] eqn:Er; [|contradiction].
      inversion Hstep; subst s'; clear Hstep. unfold chain_Inv. cbn [cw cpc w_afterfunc regs]. rewrite Er. cbn [app].
      cbn [rnode rfn]. split; [reflexivity|]. split; [reflexivity|]. unfold I0. cbn [rst nodes calls].
      destruct (is_canc (nodes w) other) eqn:E; auto.
    + destruct (regs w) as [|r0 [|? ?]] eqn:Er; try contradiction.
      destruct HI as (Hn0 & Hf0 & H0).
      inversion Hstep; subst s'; clear Hstep. unfold chain_Inv. cbn [cw cpc w_afterfunc regs]. rewrite Er. cbn [app].
      cbn [rnode rfn]. repeat (split; [first [assumption|reflexivity]|]). unfold I1, I0 in *. cbn [rst nodes calls w_afterfunc].
      destruct (is_canc (nodes w) cx) eqn:E.
      * split; [reflexivity|]. left. split; [reflexivity|exact H0].
      * split; [reflexivity|exact H0].
  - (* LHook *)
    destruct (w_hook w r) as [w'|] eqn:Eh; [|discriminate]. inversion Hstep; subst s'; clear Hstep.
    unfold chain_Inv. cbn [cw cpc]. unfold w_hook in Eh.
    destruct pc as [|[|[|pc]]]; try contradiction.
    + destruct (regs w) as [|? ?] eqn:Er; [|contradiction]. destruct r; discriminate.
    + destruct (regs w) as [|r0 [|? ?]] eqn:Er; try contradiction.
      destruct HI as (Hn0 & Hf0 & H0).
      destruct r as [|r]; [|destruct r; discriminate]. cbn [nth_error] in Eh. unfold I0 in H0.
      destruct (rst r0) as [| |f|] eqn:E0; try discriminate.
      destruct H0 as (-> & Hc & Hk). inversion Eh; subst w'; clear Eh.
      cbn [w_setrst w_setregs w_act regs nodes calls]. rewrite Er. cbn [updf set_rst rnode rfn].
      split; [exact Hn0|]. split; [exact Hf0|]. unfold I0. wsimp. split; [lia|exact Hk].
    + destruct (regs w) as [|r0 [|r1 [|? ?]]] eqn:Er; try contradiction.
      destruct HI as (Hn0 & Hf0 & Hn1 & Hf1 & H1).
      destruct r as [|[|r]]; [| |destruct r; discriminate]; cbn [nth_error] in Eh.
      * (* hook of r0 *)
        destruct (rst r0) as [| |f|] eqn:E0; try discriminate.
        assert (Hf : f = FAct ACall /\ calls w = 0 /\ is_canc (nodes w) other = true /\
                     (rst r1 = Pending \/ rst r1 = Run (FChain true 0 ACall) \/ rst r1 = Done)).
        { unfold I1, I0 in H1. rewrite E0 in H1. destruct (rst r1) as [| |f1|] eqn:E1.
          - destruct H1 as (_ & -> & ? & ?). auto.
          - contradiction.
          - destruct H1 as (_ & [(-> & -> & ? & ?)|(_ & ? & _)]); [auto 6|discriminate].
          - destruct H1 as (_ & [(? & _)|((-> & ? & ?) & _)]); [discriminate|auto 6]. }
        destruct Hf as (-> & Hc & Hk & Hr1). inversion Eh; subst w'; clear Eh.
        cbn [w_setrst w_setregs w_act regs nodes calls]. rewrite Er. cbn [updf set_rst rnode rfn].
        repeat (split; [assumption|]). unfold I1, I0 in *. wsimp. rewrite E0 in H1.
        destruct Hr1 as [E1|[E1|E1]]; rewrite E1 in *.
        -- split; [tauto|]. split; [lia|exact Hk].
        -- split; [tauto|]. left. split; [reflexivity|]. split; [lia|exact Hk].
        -- split; [tauto|]. right. split; [split; [lia|exact Hk]|discriminate].
      * (* hook of r1 *)
        destruct (rst r1) as [| |f|] eqn:E1; try discriminate.
        unfold I1 in H1. rewrite E1 in H1. destruct H1 as (Hk1 & [(-> & H0)|(-> & Hs0 & Hc)]).
        -- (* if stop() ... *)
           unfold w_stop, is_pending in Eh. rewrite Er in Eh. cbn [nth_error] in Eh. unfold I0 in H0.
           destruct (rst r0) eqn:E0; try contradiction; cbn in Eh; inversion Eh; subst w'; clear Eh;
             wsimp; rewrite Er; wsimp;
             repeat (split; [assumption|]); unfold I1, I0; wsimp.
           ++ destruct H0 as [Hc Hk]. right. auto.
           ++ rewrite E0. destruct H0 as (-> & Hc & Hk). right. split; [auto|discriminate].
           ++ rewrite E0. right. split; [exact H0|discriminate].
        -- (* f() *)
           inversion Eh; subst w'; clear Eh.
           cbn [w_setrst w_setregs w_act regs nodes calls]. rewrite Er. cbn [updf set_rst rnode rfn].
           repeat (split; [assumption|]). unfold I1. wsimp. left. split; [exact Hs0|lia].
  - (* LCancel *)
    destruct (n <? nenv); [|discriminate]. inversion Hstep; subst s'; clear Hstep.
    unfold chain_Inv. cbn [cw cpc]. cbn [w_cancel regs].
    destruct pc as [|[|[|pc]]]; try contradiction.
    + destruct (regs w) as [|? ?] eqn:Er; [|contradiction]. cbn. exact HI.
    + destruct (regs w) as [|r0 [|? ?]] eqn:Er; try contradiction. cbn [map].
      destruct HI as (Hn0 & Hf0 & H0). destruct (fire_static (map (mark n) (nodes w)) r0) as [-> ->].
      split; [exact Hn0|]. split; [exact Hf0|]. apply (I0_cancel w other r0 n Hn0 Hf0 H0).
    + destruct (regs w) as [|r0 [|r1 [|? ?]]] eqn:Er; try contradiction. cbn [map].
      destruct HI as (Hn0 & Hf0 & Hn1 & Hf1 & H1).
      destruct (fire_static (map (mark n) (nodes w)) r0) as [-> ->].
      destruct (fire_static (map (mark n) (nodes w)) r1) as [-> ->].
      repeat (split; [assumption|]). apply (I1_cancel w cx other r0 r1 n Hn0 Hf0 Hn1 Hf1 H1).
Qed.

Lemma chain_reach cx other nenv ns sched :
  chain_Inv cx other (run (chain_step true cx other nenv) (chain_init ns) sched).
Proof.
  apply run_inv with (P := chain_Inv cx other).
  - intros s l s'. apply chain_step_inv.
  - unfold chain_Inv. cbn. reflexivity.
Qed.

Theorem chain_never_twice cx other nenv ns sched :
  calls (cw (run (chain_step true cx other nenv) (chain_init ns) sched)) <= 1.
Proof.
  pose proof (chain_reach cx other nenv ns sched) as HI.
  destruct (run (chain_step true cx other nenv) (chain_init ns) sched) as [w pc]. unfold chain_Inv in HI. cbn [cw cpc] in *.
  destruct pc as [|[|[|pc]]]; try contradiction.
  - destruct (regs w); [lia|contradiction].
  - destruct (regs w) as [|r0 [|? ?]]; try contradiction. destruct HI as (_ & _ & H0). unfold I0 in H0.
    destruct (rst r0); try contradiction; lia.
  - destruct (regs w) as [|r0 [|r1 [|? ?]]]; try contradiction. destruct HI as (_ & _ & _ & _ & H1). unfold I1, I0 in H1.
    destruct (rst r1); try contradiction; destruct (rst r0); intuition (try discriminate; lia).
Qed.

Theorem chain_never_if_neither cx other nenv ns sched :
  let s := run (chain_step true cx other nenv) (chain_init ns) sched in
  calls (cw s) <> 0 -> is_canc (nodes (cw s)) cx = true \/ is_canc (nodes (cw s)) other = true.
Proof.
  cbv zeta. pose proof (chain_reach cx other nenv ns sched) as HI.
  destruct (run (chain_step true cx other nenv) (chain_init ns) sched) as [w pc]. unfold chain_Inv in HI. cbn [cw cpc] in *.
  intros Hc.
  destruct pc as [|[|[|pc]]]; try contradiction.
  - destruct (regs w); [lia|contradiction].
  - destruct (regs w) as [|r0 [|? ?]]; try contradiction. destruct HI as (_ & _ & H0). unfold I0 in H0.
    destruct (rst r0); try contradiction; intuition lia.
  - destruct (regs w) as [|r0 [|r1 [|? ?]]]; try contradiction. destruct HI as (_ & _ & _ & _ & H1). unfold I1, I0 in H1.
    destruct (rst r1); try contradiction; destruct (rst r0); intuition (try discriminate; try lia).
Qed.

Theorem chain_exactly_once cx other nenv ns sched :
  let s := run (chain_step true cx other nenv) (chain_init ns) sched in
  chain_quiescent s = true ->
  is_canc (nodes (cw s)) cx = true \/ is_canc (nodes (cw s)) other = true ->
  calls (cw s) = 1.
Proof.
  cbv zeta. pose proof (chain_reach cx other nenv ns sched) as HI.
  destruct (run (chain_step true cx other nenv) (chain_init ns) sched) as [w pc]. unfold chain_Inv in HI.
  unfold chain_quiescent. cbn [cw cpc] in *. intros Hq Hk. apply andb_prop in Hq. destruct Hq as [Hpc Hq].
  apply Nat.eqb_eq in Hpc. subst pc. unfold no_running in Hq.
  destruct (regs w) as [|r0 [|r1 [|? ?]]]; try contradiction. destruct HI as (_ & _ & _ & _ & H1).
  cbn [forallb] in Hq. unfold running in Hq. unfold I1, I0 in H1.
  destruct (rst r1); try contradiction; destruct (rst r0); try discriminate;
    intuition (try discriminate; try congruence; try lia).
Qed.

(* a hook of a quiescent state cannot fire without a further cancellation: the two registrations are final *)
Theorem chain_registrations_final cx other nenv ns sched :
  let s := run (chain_step true cx other nenv) (chain_init ns) sched in
  chain_quiescent s = true -> is_canc (nodes (cw s)) cx = true ->
  forall i x, nth_error (regs (cw s)) i = Some x -> rst x = Stopped \/ rst x = Done.
Proof.
  cbv zeta. pose proof (chain_reach cx other nenv ns sched) as HI.
  destruct (run (chain_step true cx other nenv) (chain_init ns) sched) as [w pc]. unfold chain_Inv in HI.
  unfold chain_quiescent. cbn [cw cpc] in *. intros Hq Hk. apply andb_prop in Hq. destruct Hq as [Hpc Hq].
  apply Nat.eqb_eq in Hpc. subst pc. unfold no_running in Hq.
  destruct (regs w) as [|r0 [|r1 [|? ?]]]; try contradiction. destruct HI as (_ & _ & _ & _ & H1).
  cbn [forallb] in Hq. unfold running in Hq. unfold I1, I0 in H1.
  intros i x Hx. destruct i as [|[|i]]; cbn in Hx; [| |destruct i; discriminate]; inversion Hx; subst x; clear Hx;
  destruct (rst r1); try contradiction; destruct (rst r0); try discriminate;
    intuition (try discriminate; try congruence; try lia).
Qed.

(* DEFECT variant (consult = false): the primary's hook calls f without consulting stop(): f runs twice *)
Theorem chain_noconsult_refuted :
  exists ns sched, calls (cw (run (chain_step false 0 1 2) (chain_init ns) sched)) = 2.
Proof.
  exists (build_env [ {| eparent := None; ekv := None |}; {| eparent := None; ekv := None |} ] []).
  exists [LMain; LMain; LCancel 0; LCancel 1; LHook 0; LHook 1; LHook 1]. vm_compute. reflexivity.
Qed.

Example chain_both_cancelled_once :
  let s := run (chain_step true 0 1 2) (chain_init (build_env [ {| eparent := None; ekv := None |}; {| eparent := None; ekv := None |} ] []))
               [LMain; LMain; LCancel 0; LCancel 1; LHook 1; LHook 0; LHook 1] in
  chain_quiescent s = true /\ is_canc (nodes (cw s)) 0 = true /\ is_canc (nodes (cw s)) 1 = true /\ calls (cw s) = 1.
Proof. vm_compute. auto. Qed.

(* simultaneous: other is a child of ctx, one cancel step cancels both *)
Example chain_same_instant_once :
  let s := run (chain_step true 0 1 2) (chain_init (build_env [ {| eparent := None; ekv := None |}; {| eparent := Some 0; ekv := None |} ] []))
               [LMain; LMain; LCancel 0; LHook 1; LHook 0; LHook 1] in
  chain_quiescent s = true /\ is_canc (nodes (cw s)) 0 = true /\ is_canc (nodes (cw s)) 1 = true /\ calls (cw s) = 1.
Proof. vm_compute. auto. Qed.

(* ------------------------------------------------------------------------------------------------------------ *)
(* E. generic facts about worlds (any program over the primitives)                                              *)
(* ------------------------------------------------------------------------------------------------------------ *)
Definition fired (x : reg) : Prop := (exists f, rst x = Run f) \/ rst x = Done.

(* a pending registration sits on a live node; a fired one on a cancelled node *)
Definition WInv (w : world) : Prop :=
  forall i x, nth_error (regs w) i = Some x ->
    rnode x < length (nodes w) /\
    (rst x = Pending -> is_canc (nodes w) (rnode x) = false) /\
    (fired x -> is_canc (nodes w) (rnode x) = true).

Lemma WInv_init ns : WInv (init_world ns).
Proof. intros i x H. destruct i; discriminate. Qed.

Lemma WInv_cancel w n : WInv w -> WInv (w_cancel w n).
Proof.
  intros HW i x' Hx'. apply regs_cancel_nth in Hx'. destruct Hx' as (x & Hx & ->).
  destruct (HW i x Hx) as (Hlt & Hp & Hf). cbn [w_cancel nodes]. rewrite map_length.
  destruct (fire_static (map (mark n) (nodes w)) x) as [-> _].
  split; [exact Hlt|].
  destruct (fire_cases (map (mark n) (nodes w)) x) as [(Ep & Ek & ->)|[(Ep & Ek & ->)|(Hnp & ->)]].
  - split; [cbn; discriminate|]. intros _. exact Ek.
  - split; [intros _; exact Ek|]. intros [[f Hf']|Hf']; congruence.
  - split; [intros; congruence|]. intros Hfd. apply is_canc_mark_mono. apply Hf. exact Hfd.
Qed.

Lemma WInv_setrst w r s :
  WInv w ->
  (forall x, nth_error (regs w) r = Some x -> s = Stopped \/ (s <> Pending /\ is_canc (nodes w) (rnode x) = true)) ->
  WInv (w_setrst w r s).
Proof.
  intros HW Hs i x' Hx'. apply regs_setrst_nth in Hx'. destruct Hx' as (x & Hx & [[-> ->]|[Hne ->]]).
  - destruct (HW r x Hx) as (Hlt & Hp & Hf). cbn [set_rst rnode rst]. rewrite nodes_setrst.
    split; [exact Hlt|]. destruct (Hs x Hx) as [->|[Hnp Hk]].
    + split; [discriminate|]. intros [[f Hf']|Hf']; discriminate.
    + split; [intros; congruence|]. intros _. exact Hk.
  - rewrite nodes_setrst. apply (HW i x Hx).
Qed.

Lemma WInv_afterfunc w n f : WInv w -> n < length (nodes w) -> WInv (w_afterfunc w n f).
Proof.
  intros HW Hn i x' Hx'. cbn [w_afterfunc regs nodes] in *.
  apply nth_error_snoc_inv in Hx'. destruct Hx' as [[_ Hx]|[_ ->]].
  - apply (HW i x' Hx).
  - cbn [rnode rst]. split; [exact Hn|]. destruct (is_canc (nodes w) n) eqn:E.
    + split; [discriminate|reflexivity].
    + split; [reflexivity|]. intros [[f' Hf']|Hf']; discriminate.
Qed.

Lemma WInv_addnode w y : WInv w -> WInv (w_addnode w y).
Proof.
  intros HW i x Hx. cbn [w_addnode regs nodes] in *. destruct (HW i x Hx) as (Hlt & Hp & Hf).
  rewrite app_length. cbn [length]. split; [lia|]. rewrite is_canc_snoc_old by exact Hlt. auto.
Qed.

Lemma WInv_nodes_eq w w' : nodes w' = nodes w -> regs w' = regs w -> WInv w -> WInv w'.
Proof. intros Hn Hr HW i x Hx. rewrite Hn. rewrite Hr in Hx. apply (HW i x Hx). Qed.

Lemma WInv_act w a : WInv w -> WInv (w_act w a).
Proof.
  intros HW. destruct a as [|n|]; cbn [w_act].
  - eapply WInv_nodes_eq; [| |exact HW]; reflexivity.
  - apply WInv_cancel. exact HW.
  - destruct (wg w); (eapply WInv_nodes_eq; [| |exact HW]; reflexivity).
Qed.

Lemma regs_act_nth w a i x' :
  nth_error (regs (w_act w a)) i = Some x' ->
  exists x, nth_error (regs w) i = Some x /\ rnode x' = rnode x /\ rfn x' = rfn x /\
            (x' = x \/ (rst x = Pending /\ rst x' = Run (rfn x) /\ exists n, a = ACancel n)).
Proof.
  destruct a as [|n|]; cbn [w_act].
  - intros H. exists x'. cbn [regs] in H. auto.
  - intros H. apply regs_cancel_nth in H. destruct H as (x & Hx & ->). exists x. split; [exact Hx|].
    destruct (fire_static (map (mark n) (nodes w)) x) as [Hn Hf]. split; [exact Hn|]. split; [exact Hf|].
    destruct (fire_cases (map (mark n) (nodes w)) x) as [(Ep & Ek & ->)|[(Ep & Ek & ->)|(Hnp & ->)]]; auto.
    right. split; [exact Ep|]. split; [reflexivity|eauto].
  - destruct (wg w); cbn [regs]; intros H; exists x'; auto.
Qed.

Lemma WInv_hook w r w' : WInv w -> w_hook w r = Some w' -> WInv w'.
Proof.
  intros HW Hh. apply w_hook_inv in Hh. destruct Hh as (x & Hx & Hc).
  destruct (HW r x Hx) as (Hlt & Hp & Hf).
  assert (Hk : is_canc (nodes w) (rnode x) = true ->
               forall w1 s, WInv w1 -> s <> Pending ->
                 (forall n, is_canc (nodes w) n = true -> is_canc (nodes w1) n = true) ->
                 (forall y, nth_error (regs w1) r = Some y -> rnode y = rnode x) ->
                 WInv (w_setrst w1 r s)).
  { intros Hk w1 s HW1 Hs Hm Hr. apply WInv_setrst; [exact HW1|]. intros y Hy. right. split; [exact Hs|].
    rewrite (Hr y Hy). apply Hm. exact Hk. }
  destruct Hc as [(a & Ea & ->)|[(c & r0 & a & Ea & Epend & ->)|[(c & r0 & a & Ea & Epend & ->)|[(Ea & ->)|(r0 & rs & Ea & ->)]]]];
    (assert (Hkx : is_canc (nodes w) (rnode x) = true) by (apply Hf; left; eauto)).
  - apply (Hk Hkx); [apply WInv_act; exact HW|discriminate| |].
    + intros n Hn. destruct a as [|m|]; cbn [w_act nodes]; try exact Hn; [apply is_canc_mark_mono; exact Hn|destruct (wg w); exact Hn].
    + intros y Hy. apply regs_act_nth in Hy. destruct Hy as (x0 & Hx0 & Hn & _). congruence.
  - apply (Hk Hkx); [apply WInv_setrst; [exact HW|auto]|discriminate|auto|].
    intros y Hy. apply regs_setrst_nth in Hy. destruct Hy as (x0 & Hx0 & [[_ ->]|[_ ->]]); cbn [set_rst rnode]; congruence.
  - apply (Hk Hkx); [exact HW|destruct (negb c); discriminate|auto|]. intros y Hy. congruence.
  - apply (Hk Hkx); [exact HW|discriminate|auto|]. intros y Hy. congruence.
  - unfold w_stop. destruct (is_pending w r0); cbn [fst].
    + apply (Hk Hkx); [apply WInv_setrst; [exact HW|auto]|discriminate|auto|].
      intros y Hy. apply regs_setrst_nth in Hy. destruct Hy as (x0 & Hx0 & [[_ ->]|[_ ->]]); cbn [set_rst rnode]; congruence.
    + apply (Hk Hkx); [exact HW|discriminate|auto|]. intros y Hy. congruence.
Qed.

(* what a hook step does to the nodes: nothing, or one cancel *)
Lemma nodes_hook w r w' :
  w_hook w r = Some w' ->
  nodes w' = nodes w \/
  (exists x n, nth_error (regs w) r = Some x /\ rst x = Run (FAct (ACancel n)) /\ nodes w' = map (mark n) (nodes w)).
Proof.
  intros Hh. apply w_hook_inv in Hh. destruct Hh as (x & Hx & Hc).
  destruct Hc as [(a & Ea & ->)|[(c & r0 & a & Ea & Epend & ->)|[(c & r0 & a & Ea & Epend & ->)|[(Ea & ->)|(r0 & rs & Ea & ->)]]]];
    rewrite ?nodes_setrst; auto.
  - destruct a as [|n|]; cbn [w_act nodes]; auto.
    + right. exists x, n. auto.
    + destruct (wg w); auto.
  - unfold w_stop. destruct (is_pending w r0); cbn [fst]; rewrite ?nodes_setrst; auto.
Qed.

Lemma hook_canc_mono w r w' n : w_hook w r = Some w' -> is_canc (nodes w) n = true -> is_canc (nodes w') n = true.
Proof.
  intros Hh Hn. apply nodes_hook in Hh. destruct Hh as [->|(x & m & _ & _ & ->)]; [exact Hn|apply is_canc_mark_mono; exact Hn].
Qed.

Lemma hook_nodes_static w r w' :
  w_hook w r = Some w' ->
  length (nodes w') = length (nodes w) /\ (forall n, anc_of (nodes w') n = anc_of (nodes w) n) /\
  (forall n, vals_of (nodes w') n = vals_of (nodes w) n).
Proof.
  intros Hh. apply nodes_hook in Hh. destruct Hh as [->|(x & m & _ & _ & ->)]; [auto|].
  rewrite map_length. split; [reflexivity|]. split; intros n; [apply anc_of_mark|apply vals_of_mark].
Qed.

(* what a hook step does to the registrations (static part never changes; indices never change) *)
Lemma regs_hook_back w r w' i y' :
  w_hook w r = Some w' -> nth_error (regs w') i = Some y' ->
  exists y, nth_error (regs w) i = Some y /\ rnode y' = rnode y /\ rfn y' = rfn y.
Proof.
  intros Hh Hy'. apply w_hook_inv in Hh. destruct Hh as (x & Hx & Hc).
  assert (Hset : forall w1 r1 s y', nth_error (regs (w_setrst w1 r1 s)) i = Some y' ->
                 exists y1, nth_error (regs w1) i = Some y1 /\ rnode y' = rnode y1 /\ rfn y' = rfn y1).
  { intros w1 r1 s y2 H. apply regs_setrst_nth in H. destruct H as (y1 & Hy1 & [[_ ->]|[_ ->]]); exists y1; auto. }
  destruct Hc as [(a & Ea & ->)|[(c & r0 & a & Ea & Epend & ->)|[(c & r0 & a & Ea & Epend & ->)|[(Ea & ->)|(r0 & rs & Ea & ->)]]]];
    apply Hset in Hy'; destruct Hy' as (y1 & Hy1 & Hn1 & Hf1).
  - apply regs_act_nth in Hy1. destruct Hy1 as (y & Hy & Hn & Hf & _). exists y. split; [exact Hy|]. split; congruence.
  - apply Hset in Hy1. destruct Hy1 as (y & Hy & Hn & Hf). exists y. split; [exact Hy|]. split; congruence.
  - exists y1. auto.
  - exists y1. auto.
  - unfold w_stop in Hy1. destruct (is_pending w r0); cbn [fst] in Hy1.
    + apply Hset in Hy1. destruct Hy1 as (y & Hy & Hn & Hf). exists y. split; [exact Hy|]. split; congruence.
    + exists y1. auto.
Qed.

Lemma regs_hook_length w r w' : w_hook w r = Some w' -> length (regs w') = length (regs w).
Proof.
  intros Hh. apply w_hook_inv in Hh. destruct Hh as (x & Hx & Hc).
  assert (Hset : forall w1 r1 s, length (regs (w_setrst w1 r1 s)) = length (regs w1))
    by (intros; cbn [w_setrst w_setregs regs]; apply length_updf).
  assert (Hact : forall a, length (regs (w_act w a)) = length (regs w)).
  { intros [|n|]; cbn [w_act regs w_cancel]; [reflexivity|apply map_length|destruct (wg w); reflexivity]. }
  destruct Hc as [(a & Ea & ->)|[(c & r0 & a & Ea & Epend & ->)|[(c & r0 & a & Ea & Epend & ->)|[(Ea & ->)|(r0 & rs & Ea & ->)]]]];
    rewrite ?Hset, ?Hact; auto.
  unfold w_stop. destruct (is_pending w r0); cbn [fst]; rewrite ?Hset; reflexivity.
Qed.

Lemma regs_hook_fwd w r w' i y :
  w_hook w r = Some w' -> nth_error (regs w) i = Some y ->
  exists y', nth_error (regs w') i = Some y' /\ rnode y' = rnode y /\ rfn y' = rfn y.
Proof.
  intros Hh Hy. pose proof (regs_hook_length w r w' Hh) as Hl.
  destruct (nth_error (regs w') i) as [y'|] eqn:E.
  - destruct (regs_hook_back w r w' i y' Hh E) as (y0 & Hy0 & Hn & Hf). exists y'. split; [reflexivity|]. split; congruence.
  - apply nth_error_None in E. apply nth_error_lt in Hy. lia.
Qed.

Lemma regs_cancel_fwd w n i y :
  nth_error (regs w) i = Some y -> nth_error (regs (w_cancel w n)) i = Some (fire (map (mark n) (nodes w)) y).
Proof. intros H. cbn [w_cancel regs]. rewrite nth_error_map, H. reflexivity. Qed.

(* ------------------------------------------------------------------------------------------------------------ *)
(* F. CombineContext                                                                                            *)
(* ------------------------------------------------------------------------------------------------------------ *)
Definition src (primary : option nat) (others : list (option nat)) (ns : list node) : Prop :=
  (exists p, primary = Some p /\ is_canc ns p = true) \/ (exists o, In (Some o) others /\ is_canc ns o = true).

Definition mono (ns ns' : list node) : Prop := forall x, is_canc ns x = true -> is_canc ns' x = true.

Lemma src_mono primary others ns ns' : mono ns ns' -> src primary others ns -> src primary others ns'.
Proof. intros Hm [(p & Hp & Hk)|(o & Ho & Hk)]; [left|right]; eauto. Qed.

Lemma mono_mark ns n : mono ns (map (mark n) ns).
Proof. intros x. apply is_canc_mark_mono. Qed.
Lemma mono_snoc ns y : mono ns (ns ++ [y]).
Proof. intros x. apply is_canc_snoc_mono. Qed.
Lemma mono_refl ns : mono ns ns.
Proof. intros x H. exact H. Qed.

Definition Pdef (primary : option nat) (nenv : nat) (ns : list node) (P : nat) : Prop :=
  nenv <= length ns /\
  match primary with
  | Some p => P = p /\ p < nenv
  | None => P = nenv /\ nenv < length ns /\ anc_of ns nenv = [nenv] /\ is_canc ns nenv = false /\ vals_of ns nenv = []
  end.

Definition Rdef (nenv : nat) (ns : list node) (P R : nat) : Prop :=
  R < length ns /\ nenv <= R /\ P < R /\ anc_of ns R = R :: anc_of ns P /\ vals_of ns R = vals_of ns P /\
  (is_canc ns P = true -> is_canc ns R = true).

Lemma Pdef_lt primary nenv ns P : Pdef primary nenv ns P -> P < length ns.
Proof. intros [Hl H]. destruct primary as [p|]; [destruct H as [-> Hp]; lia|destruct H as (-> & Hlt & _); exact Hlt]. Qed.

(* cancelling an input node, or any node above P in id order that is not the background node *)
Lemma Pdef_cancel primary nenv ns P n : n <> nenv \/ primary <> None -> Pdef primary nenv ns P -> Pdef primary nenv (map (mark n) ns) P.
Proof.
  intros Hn [Hl H]. split; [rewrite map_length; exact Hl|]. destruct primary as [p|]; [exact H|].
  destruct H as (HP & Hlt & Ha & Hk & Hv). rewrite map_length, anc_of_mark, vals_of_mark, is_canc_mark, Ha, Hk.
  split; [exact HP|]. split; [exact Hlt|]. split; [reflexivity|]. split; [|exact Hv].
  cbn. destruct (Nat.eqb_spec n nenv); [|reflexivity].
  destruct Hn as [Hn|Hn]; congruence.
Qed.

Lemma Rdef_cancel nenv ns P R n : Rdef nenv ns P R -> Rdef nenv (map (mark n) ns) P R.
Proof.
  intros (Hlt & Hge & HPR & Ha & Hv & Hk). unfold Rdef. rewrite map_length, !anc_of_mark, !vals_of_mark, !is_canc_mark, Ha.
  split; [exact Hlt|]. split; [exact Hge|]. split; [exact HPR|]. split; [reflexivity|]. split; [exact Hv|].
  intros H. apply orb_prop in H. destruct H as [H|H].
  - rewrite Hk by exact H. reflexivity.
  - cbn [memb existsb]. fold (memb n (anc_of ns P)). rewrite H. rewrite !orb_true_r. reflexivity.
Qed.

Lemma Pdef_snoc primary nenv ns P y : Pdef primary nenv ns P -> Pdef primary nenv (ns ++ [y]) P.
Proof.
  intros [Hl H]. split; [rewrite app_length; lia|]. destruct primary as [p|]; [exact H|].
  destruct H as (HP & Hlt & Ha & Hk & Hv). rewrite app_length, anc_of_snoc_old, is_canc_snoc_old, vals_of_snoc_old by exact Hlt.
  repeat (split; [assumption|]). split; [lia|auto].
Qed.

(* WithCancel(P) *)
Lemma Rdef_child primary nenv ns P : Pdef primary nenv ns P -> Rdef nenv (nodes (w_child (init_world ns) P)) P (length ns).
Proof.
  intros HP. pose proof (Pdef_lt _ _ _ _ HP) as Hlt. destruct HP as [Hl _].
  cbn [w_child w_addnode init_world nodes]. unfold Rdef.
  rewrite app_length, anc_of_snoc_new, vals_of_snoc_new, is_canc_snoc_new. cbn [length anc vals canc].
  rewrite anc_of_snoc_old, vals_of_snoc_old, is_canc_snoc_old by exact Hlt.
  repeat (split; [first [lia|reflexivity]|]). auto.
Qed.

Lemma is_canc_self ns R l : anc_of ns R = R :: l -> is_canc (map (mark R) ns) R = true.
Proof. intros Ha. rewrite is_canc_mark, Ha. cbn. rewrite Nat.eqb_refl. apply orb_true_r. Qed.

Definition is_retN (pc : bpc) : bool := match pc with BRetN _ => true | _ => false end.

Definition Cover (others : list (option nat)) (R : nat) (rs : list reg) (i : nat) : Prop :=
  forall j o, j < i -> nth_error others j = Some (Some o) ->
    exists k x, nth_error rs k = Some x /\ rfn x = FAct (ACancel R) /\ rnode x = o.

Definition NInv (primary : option nat) (others : list (option nat)) (nenv : nat) (s : bst) : Prop :=
  let ns := nodes (bw s) in
  match bpcv s with
  | BStart => length ns = nenv
  | BCheck i n => Pdef primary nenv ns (bP s) /\ (n = 0 -> forall j o, j < i -> nth_error others j <> Some (Some o))
  | BEarlyNew => Pdef primary nenv ns (bP s) /\ src primary others ns
  | BNew => Pdef primary nenv ns (bP s)
  | BRetP r => (exists p, primary = Some p /\ r = p /\ is_canc ns r = true) \/
               (r = bP s /\ Pdef primary nenv ns (bP s) /\ forall o, ~ In (Some o) others)
  | BEarlyCancel => Pdef primary nenv ns (bP s) /\ Rdef nenv ns (bP s) (bR s) /\ src primary others ns
  | BRetE r => r = bR s /\ Pdef primary nenv ns (bP s) /\ Rdef nenv ns (bP s) (bR s) /\ src primary others ns /\
               is_canc ns r = true
  | BReg _ | BStop => Pdef primary nenv ns (bP s) /\ Rdef nenv ns (bP s) (bR s) /\
                      (is_canc ns (bR s) = true -> src primary others ns)
  | BRetN r => r = bR s /\ Pdef primary nenv ns (bP s) /\ Rdef nenv ns (bP s) (bR s) /\
               (is_canc ns (bR s) = true -> src primary others ns)
  end.

Definition GInv (others : list (option nat)) (s : bst) : Prop :=
  let rs := regs (bw s) in
  match bpcv s with
  | BStart | BCheck _ _ | BEarlyNew | BNew => rs = [] /\ bstops s = []
  | BRetP _ | BEarlyCancel | BRetE _ => rs = []
  | BReg i => length rs = length (bstops s) /\ Cover others (bR s) rs i
  | BStop => length rs = length (bstops s) /\ Cover others (bR s) rs (length others)
  | BRetN _ => length rs = S (length (bstops s)) /\ Cover others (bR s) rs (length others) /\
               exists q, nth_error rs (length (bstops s)) = Some q /\ rfn q = FStopAll (bstops s) /\ rnode q = bR s
  end.

(* per registration: either one of the hooks on the others (cancels R), or the deregistration hook on R *)
Definition RC1 (others : list (option nat)) (s : bst) (k : nat) (x : reg) : Prop :=
  (rfn x = FAct (ACancel (bR s)) /\ In (Some (rnode x)) others /\ In k (bstops s) /\
   (forall f, rst x = Run f -> f = FAct (ACancel (bR s))) /\
   (rst x = Done \/ rst x = Stopped -> is_canc (nodes (bw s)) (bR s) = true))
  \/
  (rfn x = FStopAll (bstops s) /\ rnode x = bR s /\ k = length (bstops s) /\ is_retN (bpcv s) = true /\
   rst x <> Stopped /\
   (forall f, rst x = Run f -> exists rest, f = FStopAll rest /\
        forall j y, nth_error (regs (bw s)) j = Some y -> rst y = Pending -> In j rest) /\
   (rst x = Done -> forall j y, nth_error (regs (bw s)) j = Some y -> rst y <> Pending)).

Definition RC (others : list (option nat)) (s : bst) : Prop :=
  forall k x, nth_error (regs (bw s)) k = Some x -> RC1 others s k x.

Definition CInv primary others nenv (s : bst) : Prop :=
  WInv (bw s) /\ NInv primary others nenv s /\ GInv others s /\ RC others s.

Definition phaseR (pc : bpc) : bool :=
  match pc with BEarlyCancel | BRetE _ | BReg _ | BStop | BRetN _ => true | _ => false end.

Lemma fire_pending ns y : rst (fire ns y) = Pending -> rst y = Pending.
Proof.
  destruct (fire_cases ns y) as [(Ep & Ek & ->)|[(Ep & Ek & ->)|(Hnp & ->)]]; cbn [set_rst rst]; auto.
Qed.

Lemma fire_run ns y f : rst (fire ns y) = Run f -> rst y = Run f \/ (rst y = Pending /\ f = rfn y).
Proof.
  destruct (fire_cases ns y) as [(Ep & Ek & ->)|[(Ep & Ek & ->)|(Hnp & ->)]]; cbn [set_rst rst]; auto.
  intros H. right. split; [exact Ep|congruence].
Qed.

Lemma fire_final ns y : rst (fire ns y) = Done \/ rst (fire ns y) = Stopped -> rst (fire ns y) = rst y.
Proof.
  destruct (fire_cases ns y) as [(Ep & Ek & ->)|[(Ep & Ek & ->)|(Hnp & ->)]]; cbn [set_rst rst]; auto.
  intros [H|H]; discriminate.
Qed.

Lemma RC_cancel others s n : RC others s -> RC others (bset s (w_cancel (bw s) n) (bpcv s)).
Proof.
  intros HR k x' Hx'. cbn [bset bw] in Hx'. apply regs_cancel_nth in Hx'. destruct Hx' as (x & Hx & ->).
  set (ns' := map (mark n) (nodes (bw s))).
  destruct (fire_static ns' x) as [Hsn Hsf].
  unfold RC1. cbn [bset bw bR bstops bpcv]. rewrite Hsn, Hsf.
  destruct (HR k x Hx) as [(Hf & Hin & Hk & Hrun & Hfin)|(Hf & Hn & Hk & Hret & Hns & Hrun & Hdone)].
  - left. repeat (split; [assumption|]). split.
    + intros f Hr. apply fire_run in Hr. destruct Hr as [Hr|[_ ->]]; [apply Hrun; exact Hr|exact Hf].
    + intros Hd. pose proof (fire_final ns' x Hd) as He. rewrite He in Hd. cbn [w_cancel nodes].
      apply is_canc_mark_mono. apply Hfin. exact Hd.
  - right. repeat (split; [assumption|]).
    assert (Hpend : forall j y', nth_error (regs (w_cancel (bw s) n)) j = Some y' -> rst y' = Pending ->
                    exists y, nth_error (regs (bw s)) j = Some y /\ rst y = Pending /\ y' = fire ns' y).
    { intros j y' Hy' Hp. apply regs_cancel_nth in Hy'. destruct Hy' as (y & Hy & ->). exists y.
      split; [exact Hy|]. split; [apply (fire_pending _ _ Hp)|reflexivity]. }
    split; [|split].
    + intros Hs. apply Hns. rewrite <- Hs. symmetry. apply fire_final. auto.
    + intros f Hr. pose proof Hr as Hr0. apply fire_run in Hr. destruct Hr as [Hr|[Hp ->]].
      * destruct (Hrun f Hr) as (rest & -> & Hall). exists rest. split; [reflexivity|].
        intros j y' Hy' Hyp. destruct (Hpend j y' Hy' Hyp) as (y & Hy & Hp & _). eapply Hall; eauto.
      * exists (bstops s). split; [exact Hf|]. intros j y' Hy' Hyp. destruct (Hpend j y' Hy' Hyp) as (y & Hy & Hpy & ->).
        destruct (HR j y Hy) as [(_ & _ & Hjk & _)|(_ & _ & Hjk & _)]; [exact Hjk|].
        exfalso. subst j k. assert (y = x) by congruence. subst y. congruence.
    + intros Hd. pose proof (fire_final ns' x (or_introl Hd)) as He. rewrite He in Hd.
      intros j y' Hy' Hyp. destruct (Hpend j y' Hy' Hyp) as (y & Hy & Hp & _). eapply Hdone; eauto.
Qed.

Lemma Cover_static others R rs rs' i :
  (forall k x, nth_error rs k = Some x -> exists x', nth_error rs' k = Some x' /\ rnode x' = rnode x /\ rfn x' = rfn x) ->
  Cover others R rs i -> Cover others R rs' i.
Proof.
  intros Hs Hc j o Hj Ho. destruct (Hc j o Hj Ho) as (k & x & Hx & Hf & Hn).
  destruct (Hs k x Hx) as (x' & Hx' & Hn' & Hf'). exists k, x'. split; [exact Hx'|]. split; congruence.
Qed.

Lemma cancel_static w n k x :
  nth_error (regs w) k = Some x ->
  exists x', nth_error (regs (w_cancel w n)) k = Some x' /\ rnode x' = rnode x /\ rfn x' = rfn x.
Proof.
  intros Hx. exists (fire (map (mark n) (nodes w)) x). split; [apply regs_cancel_fwd; exact Hx|apply fire_static].
Qed.

Lemma GInv_static others s w' :
  length (regs w') = length (regs (bw s)) ->
  (forall k x, nth_error (regs (bw s)) k = Some x -> exists x', nth_error (regs w') k = Some x' /\ rnode x' = rnode x /\ rfn x' = rfn x) ->
  GInv others s -> GInv others (bset s w' (bpcv s)).
Proof.
  intros Hl Hs HG. unfold GInv in *. cbn [bset bw bpcv bR bstops].
  assert (Hnil : regs (bw s) = [] -> regs w' = []).
  { intros H. rewrite H in Hl. destruct (regs w'); [reflexivity|discriminate]. }
  destruct (bpcv s); try (destruct HG as [H1 H2]; split; [auto|exact H2]); auto.
  - destruct HG as [H1 H2]. split; [congruence|]. eapply Cover_static; eauto.
  - destruct HG as [H1 H2]. split; [congruence|]. eapply Cover_static; eauto.
  - destruct HG as (H1 & H2 & q & Hq & Hqf & Hqn). split; [congruence|]. split; [eapply Cover_static; eauto|].
    destruct (Hs _ _ Hq) as (q' & Hq' & Hn' & Hf'). exists q'. split; [exact Hq'|]. split; congruence.
Qed.

Lemma NInv_cancel primary others nenv s n :
  NInv primary others nenv s ->
  (n < nenv \/ (n = bR s /\ phaseR (bpcv s) = true /\ src primary others (nodes (bw s)))) ->
  NInv primary others nenv (bset s (w_cancel (bw s) n) (bpcv s)).
Proof.
  intros HN Hn. unfold NInv in *. cbn [bset bw bpcv bP bR w_cancel nodes].
  set (ns := nodes (bw s)) in *. set (ns' := map (mark n) ns).
  assert (Hm : mono ns ns') by apply mono_mark.
  assert (HPc : phaseR (bpcv s) = false -> forall P, Pdef primary nenv ns P -> Pdef primary nenv ns' P).
  { intros Hph P HP. apply Pdef_cancel; [|exact HP]. destruct Hn as [Hn|(_ & Hn & _)]; [left; lia|congruence]. }
  assert (HPr : forall P, Pdef primary nenv ns P -> Rdef nenv ns P (bR s) -> Pdef primary nenv ns' P).
  { intros P HP HR. apply Pdef_cancel; [|exact HP]. destruct Hn as [Hn|(Hn & _)]; [left; lia|].
    destruct primary as [p|]; [right; discriminate|left]. destruct HP as (_ & -> & _). destruct HR as (_ & _ & Hlt & _). lia. }
  assert (HK : forall P, Pdef primary nenv ns P -> Rdef nenv ns P (bR s) ->
               (is_canc ns (bR s) = true -> src primary others ns) ->
               is_canc ns' (bR s) = true -> src primary others ns').
  { intros P HP HR HK Hk. destruct Hn as [Hn|(_ & _ & Hsrc)]; [|eapply src_mono; eauto].
    unfold ns' in Hk. rewrite is_canc_mark in Hk. apply orb_prop in Hk. destruct Hk as [Hk|Hk]; [eapply src_mono; eauto|].
    destruct HR as (_ & Hge & _ & Ha & _). rewrite Ha in Hk. cbn [memb existsb] in Hk. apply orb_prop in Hk.
    destruct Hk as [Hk|Hk]; [apply Nat.eqb_eq in Hk; lia|]. fold (memb n (anc_of ns P)) in Hk.
    destruct HP as [_ HP]. destruct primary as [p|].
    - destruct HP as [-> _]. left. exists p. split; [reflexivity|]. unfold ns'. rewrite is_canc_mark, Hk. apply orb_true_r.
    - destruct HP as (-> & _ & Ha' & _). rewrite Ha' in Hk. cbn in Hk. rewrite orb_false_r in Hk. apply Nat.eqb_eq in Hk. lia. }
  destruct (bpcv s) eqn:Epc; cbn [phaseR] in *.
  - unfold ns'. rewrite map_length. exact HN.
  - destruct HN as [HP Hz]. split; [apply HPc; auto|exact Hz].
  - destruct HN as [HP Hs]. split; [apply HPc; auto|eapply src_mono; eauto].
  - destruct HN as (HP & HR & Hs). split; [eapply HPr; eauto|]. split; [apply Rdef_cancel; exact HR|eapply src_mono; eauto].
  - apply HPc; auto.
  - destruct HN as (HP & HR & HK0). split; [eapply HPr; eauto|]. split; [apply Rdef_cancel; exact HR|eapply HK; eauto].
  - destruct HN as (HP & HR & HK0). split; [eapply HPr; eauto|]. split; [apply Rdef_cancel; exact HR|eapply HK; eauto].
  - destruct HN as [(p & Hp & -> & Hk)|(-> & HP & Hno)].
    + left. exists p. auto.
    + right. split; [reflexivity|]. split; [apply HPc; auto|exact Hno].
  - destruct HN as (-> & HP & HR & Hs & Hk). split; [reflexivity|]. split; [eapply HPr; eauto|].
    split; [apply Rdef_cancel; exact HR|]. split; [eapply src_mono; eauto|apply Hm; exact Hk].
  - destruct HN as (-> & HP & HR & HK0). split; [reflexivity|]. split; [eapply HPr; eauto|].
    split; [apply Rdef_cancel; exact HR|eapply HK; eauto].
Qed.

Lemma cinv_cancel primary others nenv s n :
  CInv primary others nenv s ->
  (n < nenv \/ (n = bR s /\ phaseR (bpcv s) = true /\ src primary others (nodes (bw s)))) ->
  CInv primary others nenv (bset s (w_cancel (bw s) n) (bpcv s)).
Proof.
  intros (HW & HN & HG & HR) Hn. split; [|split; [|split]].
  - cbn [bset bw]. apply WInv_cancel. exact HW.
  - apply NInv_cancel; assumption.
  - apply GInv_static; [cbn [w_cancel regs]; apply map_length|intros k x; apply cancel_static|exact HG].
  - apply RC_cancel. exact HR.
Qed.

Lemma setrst_fwd w r st k x :
  nth_error (regs w) k = Some x ->
  nth_error (regs (w_setrst w r st)) k = Some (if k =? r then set_rst x st else x).
Proof. intros Hx. cbn [w_setrst w_setregs regs]. rewrite nth_updf, Hx. destruct (k =? r); reflexivity. Qed.

Lemma setrst_static w r st k x :
  nth_error (regs w) k = Some x ->
  exists x', nth_error (regs (w_setrst w r st)) k = Some x' /\ rnode x' = rnode x /\ rfn x' = rfn x.
Proof.
  intros Hx. eexists. split; [apply setrst_fwd; exact Hx|]. destruct (k =? r); cbn [set_rst rnode rfn]; auto.
Qed.

Lemma NInv_nodes_eq primary others nenv s w' :
  nodes w' = nodes (bw s) -> NInv primary others nenv s -> NInv primary others nenv (bset s w' (bpcv s)).
Proof. intros Hn HN. unfold NInv in *. cbn [bset bw bpcv bP bR]. rewrite Hn. exact HN. Qed.

Lemma cinv_setrst primary others nenv s r st' :
  st' <> Pending -> CInv primary others nenv s -> WInv (w_setrst (bw s) r st') ->
  (forall x, nth_error (regs (bw s)) r = Some x ->
             RC1 others (bset s (w_setrst (bw s) r st') (bpcv s)) r (set_rst x st')) ->
  CInv primary others nenv (bset s (w_setrst (bw s) r st') (bpcv s)).
Proof.
  intros Hst (HW & HN & HG & HR) HW' Hr. split; [exact HW'|]. split; [apply NInv_nodes_eq; [reflexivity|exact HN]|].
  split; [apply GInv_static; [cbn [w_setrst w_setregs regs]; apply length_updf|intros k x; apply setrst_static|exact HG]|].
  intros k x' Hx'. cbn [bset bw] in Hx'. apply regs_setrst_nth in Hx'. destruct Hx' as (x & Hx & [[-> ->]|[Hne ->]]).
  - apply Hr. exact Hx.
  - assert (Hpend : forall j y', nth_error (regs (w_setrst (bw s) r st')) j = Some y' -> rst y' = Pending ->
                    nth_error (regs (bw s)) j = Some y').
    { intros j y' Hy' Hp. apply regs_setrst_nth in Hy'. destruct Hy' as (y & Hy & [[-> ->]|[_ ->]]); [|exact Hy].
      cbn [set_rst rst] in Hp. congruence. }
    unfold RC1. cbn [bset bw bR bstops bpcv w_setrst w_setregs nodes].
    destruct (HR k x Hx) as [HC|(Hf & Hn & Hk & Hret & Hns & Hrun & Hdone)]; [left; exact HC|right].
    repeat (split; [assumption|]). split.
    + intros f Hf'. destruct (Hrun f Hf') as (rest & -> & Hall). exists rest. split; [reflexivity|].
      intros j y' Hy' Hp. eapply Hall; [apply (Hpend j y' Hy' Hp)|exact Hp].
    + intros Hd j y' Hy' Hp. eapply Hdone; [exact Hd|apply (Hpend j y' Hy' Hp)|exact Hp].
Qed.

Lemma GInv_regs_nonempty others s k x :
  GInv others s -> nth_error (regs (bw s)) k = Some x -> phaseR (bpcv s) = true.
Proof.
  intros HG Hx. unfold GInv in HG. destruct (bpcv s); try reflexivity;
    (assert (Hnil : regs (bw s) = []) by (first [exact HG|exact (proj1 HG)]); rewrite Hnil in Hx; destruct k; discriminate).
Qed.

Lemma NInv_R primary others nenv s :
  NInv primary others nenv s -> phaseR (bpcv s) = true ->
  Pdef primary nenv (nodes (bw s)) (bP s) /\ Rdef nenv (nodes (bw s)) (bP s) (bR s).
Proof.
  intros HN Hph. unfold NInv in HN. destruct (bpcv s); try discriminate; intuition.
Qed.

Lemma cinv_hook primary others nenv s r w' :
  CInv primary others nenv s -> w_hook (bw s) r = Some w' -> CInv primary others nenv (bset s w' (bpcv s)).
Proof.
  intros HI Hh. pose proof HI as (HW & HN & HG & HR).
  pose proof (WInv_hook _ _ _ HW Hh) as HW'.
  apply w_hook_inv in Hh. destruct Hh as (x & Hx & Hc).
  pose proof (GInv_regs_nonempty _ _ _ _ HG Hx) as Hph.
  destruct (NInv_R _ _ _ _ HN Hph) as [HP HRd].
  destruct (HW r x Hx) as (_ & _ & Hfired).
  destruct (HR r x Hx) as [(Hf & Hin & Hk & Hrun & Hfin)|(Hf & Hn & Hk & Hret & Hns & Hrun & Hdone)].
  - (* a hook on one of the others: cancel R *)
    destruct Hc as [(a & Ea & ->)|[(c & r0 & a & Ea & _)|[(c & r0 & a & Ea & _)|[(Ea & _)|(r0 & rs & Ea & _)]]]];
      try (specialize (Hrun _ Ea); discriminate).
    pose proof (Hrun _ Ea) as Ha. inversion Ha; subst a; clear Ha. cbn [w_act] in *.
    assert (Hsrc : src primary others (nodes (bw s))).
    { right. exists (rnode x). split; [exact Hin|]. apply Hfired. left. eauto. }
    pose proof (cinv_cancel primary others nenv s (bR s) HI (or_intror (conj eq_refl (conj Hph Hsrc)))) as HI1.
    set (s1 := bset s (w_cancel (bw s) (bR s)) (bpcv s)) in *.
    change (CInv primary others nenv (bset s1 (w_setrst (bw s1) r Done) (bpcv s1))).
    apply cinv_setrst; [discriminate|exact HI1|exact HW'|].
    intros x1 Hx1. unfold s1 in Hx1. cbn [bset bw] in Hx1. apply regs_cancel_nth in Hx1. destruct Hx1 as (x0 & Hx0 & ->).
    assert (x0 = x) by congruence. subst x0. rewrite fire_rst_np by congruence.
    left. cbn [set_rst rfn rnode rst bset bw bR bstops s1 w_setrst w_setregs nodes w_cancel].
    repeat (split; [assumption|]). split; [intros; discriminate|]. intros _.
    destruct HRd as (_ & _ & _ & Ha & _). eapply is_canc_self. exact Ha.
  - (* the deregistration hook *)
    assert (Hkr : is_canc (nodes (bw s)) (bR s) = true).
    { rewrite <- Hn. apply Hfired. destruct Hc as [(a & Ea & _)|[(c & r0 & a & Ea & _)|[(c & r0 & a & Ea & _)|[(Ea & _)|(r0 & rs & Ea & _)]]]]; left; eauto. }
    destruct Hc as [(a & Ea & ->)|[(c & r0 & a & Ea & _)|[(c & r0 & a & Ea & _)|[(Ea & ->)|(r0 & rs & Ea & ->)]]]];
      try (destruct (Hrun _ Ea) as (rest & Hrest & _); discriminate).
    + (* nothing left to stop *)
      destruct (Hrun _ Ea) as (rest & Hrest & Hall). inversion Hrest; subst rest; clear Hrest.
      apply cinv_setrst; [discriminate|exact HI|exact HW'|].
      intros x0 Hx0. assert (x0 = x) by congruence. subst x0. right.
      cbn [set_rst rfn rnode rst bset bw bR bstops bpcv].
      repeat (split; [assumption|]). split; [discriminate|]. split; [intros; discriminate|].
      intros _ j y' Hy' Hp. apply regs_setrst_nth in Hy'. destruct Hy' as (y & Hy & [[-> ->]|[_ ->]]).
      * cbn in Hp. discriminate.
      * apply (Hall j y Hy Hp).
    + (* stop r0 *)
      destruct (Hrun _ Ea) as (rest & Hrest & Hall). inversion Hrest; subst rest; clear Hrest.
      (* state after stop_r0() *)
      assert (H1 : exists w1, w1 = fst (w_stop (bw s) r0) /\ CInv primary others nenv (bset s w1 (bpcv s)) /\
                   nth_error (regs w1) r = Some x /\
                   (forall j y, nth_error (regs w1) j = Some y -> rst y = Pending -> In j rs)).
      { unfold w_stop. destruct (is_pending (bw s) r0) eqn:Ep; cbn [fst].
        - apply is_pending_spec in Ep. destruct Ep as (x0 & Hx0 & Hp0).
          assert (Hne : r0 <> r) by (intros ->; congruence).
          exists (w_setrst (bw s) r0 Stopped). split; [reflexivity|]. split; [|split].
          + apply cinv_setrst; [discriminate|exact HI|apply WInv_setrst; [exact HW|auto]|].
            intros x0' Hx0'. assert (x0' = x0) by congruence. subst x0'.
            destruct (HR r0 x0 Hx0) as [(Hf0 & Hin0 & Hk0 & Hrun0 & Hfin0)|(_ & _ & Hk0 & _)]; [|exfalso; apply Hne; congruence].
            left. cbn [set_rst rfn rnode rst bset bw bR bstops w_setrst w_setregs nodes].
            repeat (split; [assumption|]). split; [intros; discriminate|]. intros _. exact Hkr.
          + rewrite (setrst_fwd _ r0 Stopped r x Hx). destruct (Nat.eqb_spec r r0); [congruence|reflexivity].
          + intros j y Hy Hp. apply regs_setrst_nth in Hy. destruct Hy as (y0 & Hy0 & [[-> ->]|[Hj ->]]).
            * cbn in Hp. discriminate.
            * destruct (Hall j y0 Hy0 Hp) as [->|Hin']; [congruence|exact Hin'].
        - exists (bw s). split; [reflexivity|]. split; [|split].
          + destruct s; exact HI.
          + exact Hx.
          + intros j y Hy Hp. destruct (Hall j y Hy Hp) as [->|Hin']; [|exact Hin'].
            exfalso. assert (is_pending (bw s) j = true) by (apply is_pending_spec; eauto). congruence. }
      destruct H1 as (w1 & Ew1 & HI1 & Hx1 & Hall1). rewrite <- Ew1 in *.
      set (s1 := bset s w1 (bpcv s)) in *.
      change (CInv primary others nenv (bset s1 (w_setrst (bw s1) r (Run (FStopAll rs))) (bpcv s1))).
      apply cinv_setrst; [discriminate|exact HI1|exact HW'|].
      intros x0 Hx0. unfold s1 in Hx0. cbn [bset bw] in Hx0. assert (x0 = x) by congruence. subst x0. right.
      cbn [set_rst rfn rnode rst bset bw bR bstops bpcv s1].
      repeat (split; [assumption|]). split; [discriminate|]. split; [|intros; discriminate].
      intros f Hf'. inversion Hf'; subst f. exists rs. split; [reflexivity|].
      intros j y' Hy' Hp. apply regs_setrst_nth in Hy'. destruct Hy' as (y & Hy & [[-> ->]|[_ ->]]).
      * cbn in Hp. discriminate.
      * apply (Hall1 j y Hy Hp).
Qed.

Definition wfc (primary : option nat) (others : list (option nat)) (nenv : nat) : Prop :=
  (forall p, primary = Some p -> p < nenv) /\ (forall o, In (Some o) others -> o < nenv).

Lemma RC_nil others s : regs (bw s) = [] -> RC others s.
Proof. intros H k x Hx. rewrite H in Hx. destruct k; discriminate. Qed.

Lemma cinv_main primary others nenv s s' :
  wfc primary others nenv -> CInv primary others nenv s ->
  combine_main true primary others s = Some s' -> CInv primary others nenv s'.
Proof.
  intros [Hwp Hwo] HI Hm. pose proof HI as (HW & HN & HG & HR).
  destruct s as [w pc P R stops]. unfold combine_main in Hm. cbn [bw bpcv bP bR bstops] in *.
  unfold NInv, GInv in HN, HG. cbn [bw bpcv bP bR bstops] in HN, HG.
  destruct pc as [|i n| | | |i| |r|r|r]; try discriminate.
  - (* BStart *)
    destruct HG as [Hnil Hst]. destruct primary as [p|].
    + destruct (is_canc (nodes w) p) eqn:Ek; inversion Hm; subst s'; clear Hm.
      * split; [exact HW|]. split; [left; exists p; auto|]. split; [exact Hnil|apply RC_nil; exact Hnil].
      * split; [exact HW|]. split; [|split; [split; [exact Hnil|reflexivity]|apply RC_nil; exact Hnil]].
        unfold NInv. cbn [bw bpcv bP]. split; [|intros _ j o Hj; lia]. split; [lia|]. split; [reflexivity|apply Hwp; reflexivity].
    + inversion Hm; subst s'; clear Hm. split; [apply WInv_addnode; exact HW|].
      split; [|split; [split; [exact Hnil|reflexivity]|apply RC_nil; exact Hnil]].
      unfold NInv. cbn [bw bpcv bP w_detached w_addnode nodes]. split; [|intros _ j o Hj; lia].
      unfold Pdef. rewrite app_length. cbn [length]. rewrite <- HN.
      rewrite anc_of_snoc_new, is_canc_snoc_new, vals_of_snoc_new. cbn. repeat (split; [first [lia|reflexivity]|]). reflexivity.
  - (* BCheck *)
    destruct HN as [HP Hz]. destruct HG as [Hnil Hst].
    assert (HRC : forall pc', RC others {| bw := w; bpcv := pc'; bP := P; bR := R; bstops := stops |})
      by (intros; apply RC_nil; exact Hnil).
    destruct (nth_error others i) as [[o|]|] eqn:Eo.
    + destruct (is_canc (nodes w) o) eqn:Ek; inversion Hm; subst s'; clear Hm; (split; [exact HW|]); (split; [|split; [split; assumption|apply HRC]]).
      * unfold NInv. cbn. split; [exact HP|]. right. exists o. split; [eapply nth_error_In; eauto|exact Ek].
      * unfold NInv. cbn. split; [exact HP|]. intros; discriminate.
    + inversion Hm; subst s'; clear Hm. split; [exact HW|]. split; [|split; [split; assumption|apply HRC]].
      unfold NInv. cbn. split; [exact HP|]. intros Hn0 j o Hj. destruct (Nat.eq_dec j i) as [->|Hne]; [congruence|apply Hz; [exact Hn0|lia]].
    + destruct (Nat.eqb_spec n 0) as [->|Hn0]; inversion Hm; subst s'; clear Hm; (split; [exact HW|]).
      * split; [|split; [exact Hnil|apply HRC]]. unfold NInv. cbn. right. split; [reflexivity|]. split; [exact HP|].
        intros o Hin. apply In_nth_error in Hin. destruct Hin as [j Hj]. apply nth_error_None in Eo.
        apply (Hz eq_refl j o); [apply nth_error_lt in Hj; lia|exact Hj].
      * split; [|split; [split; assumption|apply HRC]]. exact HP.
  - (* BEarlyNew *)
    destruct HN as [HP Hs]. destruct HG as [Hnil Hst]. inversion Hm; subst s'; clear Hm.
    split; [apply WInv_addnode; exact HW|]. split; [|split; [exact Hnil|apply RC_nil; exact Hnil]].
    unfold NInv. cbn [bw bpcv bP bR w_child w_addnode nodes].
    split; [apply Pdef_snoc; exact HP|]. split; [exact (Rdef_child primary nenv (nodes w) P HP)|].
    eapply src_mono; [apply mono_snoc|exact Hs].
  - (* BEarlyCancel *)
    destruct HN as (HP & HRd & Hs). inversion Hm; subst s'; clear Hm.
    pose proof (cinv_cancel primary others nenv _ R HI (or_intror (conj eq_refl (conj eq_refl Hs)))) as (HW1 & HN1 & HG1 & HR1).
    cbn [bset bw bpcv bP bR bstops] in *. unfold NInv, GInv in HN1, HG1. cbn [bw bpcv bP bR bstops] in HN1, HG1.
    destruct HN1 as (HP1 & HRd1 & Hs1).
    split; [exact HW1|]. split; [|split; [exact HG1|apply RC_nil; exact HG1]].
    unfold NInv. cbn [bw bpcv bP bR]. repeat (split; [first [reflexivity|assumption]|]).
    destruct HRd as (_ & _ & _ & Ha & _). cbn [w_cancel nodes]. eapply is_canc_self; exact Ha.
  - (* BNew *)
    rename HN into HP. destruct HG as [Hnil Hst]. inversion Hm; subst s'; clear Hm.
    split; [apply WInv_addnode; exact HW|]. split; [|split; [|apply RC_nil; exact Hnil]].
    + unfold NInv. cbn [bw bpcv bP bR w_child w_addnode nodes].
      split; [apply Pdef_snoc; exact HP|]. split; [exact (Rdef_child primary nenv (nodes w) P HP)|].
      rewrite is_canc_snoc_new. cbn [canc]. intros Hk. destruct HP as [_ HP]. destruct primary as [p|].
      * destruct HP as [-> Hp]. left. exists p. split; [reflexivity|]. apply is_canc_snoc_mono. exact Hk.
      * destruct HP as (-> & _ & _ & Hk' & _). congruence.
    + unfold GInv. cbn [bw bpcv bR bstops w_child w_addnode regs]. rewrite Hnil, Hst. split; [reflexivity|]. intros j o Hj. lia.
  - (* BReg *)
    destruct HN as (HP & HRd & HK). destruct HG as [Hlen Hcov].
    assert (Hallc : forall k x, nth_error (regs w) k = Some x ->
              rfn x = FAct (ACancel R) /\ In (Some (rnode x)) others /\ In k stops /\
              (forall f, rst x = Run f -> f = FAct (ACancel R)) /\ (rst x = Done \/ rst x = Stopped -> is_canc (nodes w) R = true)).
    { intros k x Hx. destruct (HR k x Hx) as [HC|(_ & _ & _ & Hret & _)]; [exact HC|discriminate]. }
    destruct (nth_error others i) as [[o|]|] eqn:Eo; inversion Hm; subst s'; clear Hm; unfold bset; cbn [bw bpcv bP bR bstops].
    + (* register on o *)
      assert (Hin : In (Some o) others) by (eapply nth_error_In; eauto).
      split; [apply WInv_afterfunc; [exact HW|destruct HP as [Hl _]; specialize (Hwo o Hin); lia]|].
      split; [unfold NInv; cbn [bw bpcv bP bR w_afterfunc nodes]; auto|]. split.
      * unfold GInv. cbn [bw bpcv bR bstops w_afterfunc regs]. rewrite !app_length. cbn [length]. split; [lia|].
        intros j o' Hj Ho'. destruct (Nat.eq_dec j i) as [->|Hne].
        -- exists (length (regs w)). eexists. split; [apply nth_error_snoc_new|]. cbn. split; [reflexivity|congruence].
        -- destruct (Hcov j o' ltac:(lia) Ho') as (k & x & Hx & Hf & Hn). exists k, x.
           split; [rewrite nth_error_snoc_old; [exact Hx|eapply nth_error_lt; eauto]|auto].
      * intros k x Hx. cbn [bw w_afterfunc regs] in Hx. apply nth_error_snoc_inv in Hx. left.
        cbn [bw bR bstops w_afterfunc nodes]. destruct Hx as [[_ Hx]|[-> ->]].
        -- destruct (Hallc k x Hx) as (Hf & Hi & Hk & Hrun & Hfin). repeat (split; [first [assumption|apply in_or_app; left; assumption]|]). exact Hfin.
        -- cbn [rfn rnode rst]. split; [reflexivity|]. split; [exact Hin|]. split; [apply in_or_app; right; left; reflexivity|].
           destruct (is_canc (nodes w) o); split; try (intros f Hf; congruence); intros [Hf|Hf]; discriminate.
    + (* nil other *)
      split; [exact HW|]. split; [unfold NInv; cbn; auto|]. split.
      * unfold GInv. cbn [bw bpcv bR bstops]. split; [exact Hlen|]. intros j o Hj Ho.
        destruct (Nat.eq_dec j i) as [->|Hne]; [congruence|apply (Hcov j o); [lia|exact Ho]].
      * intros k x Hx. left. apply (Hallc k x Hx).
    + (* end of loop *)
      split; [exact HW|]. split; [unfold NInv; cbn; auto|]. split.
      * unfold GInv. cbn [bw bpcv bR bstops]. split; [exact Hlen|]. intros j o Hj Ho.
        apply nth_error_None in Eo. apply (Hcov j o); [apply nth_error_lt in Ho; lia|exact Ho].
      * intros k x Hx. left. apply (Hallc k x Hx).
  - (* BStop *)
    destruct HN as (HP & HRd & HK). destruct HG as [Hlen Hcov].
    assert (Hallc : forall k x, nth_error (regs w) k = Some x ->
              rfn x = FAct (ACancel R) /\ In (Some (rnode x)) others /\ In k stops /\
              (forall f, rst x = Run f -> f = FAct (ACancel R)) /\ (rst x = Done \/ rst x = Stopped -> is_canc (nodes w) R = true)).
    { intros k x Hx. destruct (HR k x Hx) as [HC|(_ & _ & _ & Hret & _)]; [exact HC|discriminate]. }
    inversion Hm; subst s'; clear Hm. unfold bset; cbn [bw bpcv bP bR bstops].
    split; [apply WInv_afterfunc; [exact HW|destruct HRd as [Hlt _]; exact Hlt]|].
    split; [unfold NInv; cbn [bw bpcv bP bR w_afterfunc nodes]; auto|]. split.
    + unfold GInv. cbn [bw bpcv bR bstops w_afterfunc regs]. rewrite app_length. cbn [length]. split; [lia|]. split.
      * intros j o Hj Ho. destruct (Hcov j o Hj Ho) as (k & x & Hx & Hf & Hn). exists k, x.
        split; [rewrite nth_error_snoc_old; [exact Hx|eapply nth_error_lt; eauto]|auto].
      * eexists. split; [rewrite <- Hlen; apply nth_error_snoc_new|]. cbn. auto.
    + intros k x Hx. cbn [bw w_afterfunc regs] in Hx. apply nth_error_snoc_inv in Hx.
      destruct Hx as [[_ Hx]|[-> ->]].
      * left. apply (Hallc k x Hx).
      * right. cbn [rfn rnode rst bw bR bstops bpcv is_retN w_afterfunc regs nodes].
        split; [reflexivity|]. split; [reflexivity|]. split; [exact Hlen|]. split; [reflexivity|].
        destruct (is_canc (nodes w) R) eqn:Ek.
        -- split; [discriminate|]. split; [|intros; discriminate]. intros f Hf. inversion Hf; subst f. exists stops. split; [reflexivity|].
           intros j y Hy Hp. apply nth_error_snoc_inv in Hy. destruct Hy as [[_ Hy]|[_ ->]].
           ++ apply (Hallc j y Hy).
           ++ cbn in Hp. discriminate.
        -- split; [discriminate|]. split; intros; discriminate.
Qed.

Lemma combine_step_inv primary others nenv s l s' :
  wfc primary others nenv -> CInv primary others nenv s ->
  combine_step true primary others nenv s l = Some s' -> CInv primary others nenv s'.
Proof.
  intros Hwf HI Hs. destruct l as [|r|n| |]; cbn [combine_step] in Hs; try discriminate.
  - eapply cinv_main; eauto.
  - destruct (w_hook (bw s) r) as [w'|] eqn:Eh; [|discriminate]. inversion Hs; subst s'. eapply cinv_hook; eauto.
  - destruct (Nat.ltb_spec n nenv) as [Hn|Hn]; [|discriminate]. inversion Hs; subst s'. apply cinv_cancel; auto.
Qed.

Lemma combine_reach primary others ns sched :
  wfc primary others (length ns) ->
  CInv primary others (length ns) (run (combine_step true primary others (length ns)) (combine_init ns) sched).
Proof.
  intros Hwf. apply run_inv with (P := CInv primary others (length ns)).
  - intros s l s'. apply combine_step_inv. exact Hwf.
  - split; [apply WInv_init|]. split; [reflexivity|]. split; [split; reflexivity|apply RC_nil; reflexivity].
Qed.

(* the result is cancelled only if the primary or one of the non-nil others is *)
Theorem combine_cancelled_only_if primary others ns sched :
  wfc primary others (length ns) ->
  let s := run (combine_step true primary others (length ns)) (combine_init ns) sched in
  forall r, combine_ret s = Some r -> is_canc (nodes (bw s)) r = true -> src primary others (nodes (bw s)).
Proof.
  intros Hwf s r Hr Hk. destruct (combine_reach primary others ns sched Hwf) as (HW & HN & HG & HR). fold s in HW, HN, HG, HR.
  unfold combine_ret in Hr. unfold NInv in HN. destruct (bpcv s); try discriminate; inversion Hr; subst r0; clear Hr.
  - destruct HN as [(p & Hp & -> & Hkp)|(-> & [_ HP] & _)].
    + left. eauto.
    + destruct primary as [p|].
      * destruct HP as [HP _]. left. exists p. split; [reflexivity|]. rewrite <- HP. exact Hk.
      * destruct HP as (HP & _ & _ & Hk' & _). rewrite HP in Hk. congruence.
  - destruct HN as (_ & _ & _ & Hs & _). exact Hs.
  - destruct HN as (-> & _ & _ & HK). apply HK. exact Hk.
Qed.

(* once every hook goroutine has run: cancelled exactly when the primary or some non-nil other is *)
Theorem combine_quiescent_iff primary others ns sched :
  wfc primary others (length ns) ->
  let s := run (combine_step true primary others (length ns)) (combine_init ns) sched in
  combine_quiescent s = true ->
  exists r, combine_ret s = Some r /\ (is_canc (nodes (bw s)) r = true <-> src primary others (nodes (bw s))).
Proof.
  intros Hwf s Hq. pose proof (combine_cancelled_only_if primary others ns sched Hwf) as Honly. fold s in Honly. cbv zeta in Honly.
  destruct (combine_reach primary others ns sched Hwf) as (HW & HN & HG & HR). fold s in HW, HN, HG, HR.
  unfold combine_quiescent in Hq. unfold combine_ret in *. unfold NInv in HN. unfold GInv in HG.
  destruct (bpcv s) eqn:Epc; try discriminate; exists r; (split; [reflexivity|]); (split; [apply Honly; reflexivity|]).
  - intros Hs. destruct HN as [(p & Hp & -> & Hkp)|(-> & [_ HP] & Hno)]; [exact Hkp|].
    destruct Hs as [(p & Hp & Hk)|(o & Ho & _)]; [|exfalso; eapply Hno; eauto].
    rewrite Hp in HP. destruct HP as [-> _]. exact Hk.
  - intros _. destruct HN as (_ & _ & _ & _ & Hk). exact Hk.
  - intros Hs. destruct HN as (-> & [_ HP] & HRd & _). destruct HRd as (_ & _ & _ & _ & _ & HPR).
    destruct Hs as [(p & Hp & Hk)|(o & Ho & Hk)].
    + rewrite Hp in HP. destruct HP as [HPp _]. rewrite HPp in HPR. apply HPR. exact Hk.
    + destruct HG as (_ & Hcov & _). apply In_nth_error in Ho. destruct Ho as [j Hj].
      destruct (Hcov j o (nth_error_lt _ _ _ Hj) Hj) as (k & x & Hx & Hf & Hn).
      destruct (HW k x Hx) as (_ & Hpend & _). rewrite Hn in Hpend.
      pose proof (proj1 (no_running_spec (bw s)) Hq k x Hx) as Hq2.
      destruct (HR k x Hx) as [(_ & _ & _ & _ & Hfin)|(Hf' & _)]; [|congruence].
      apply Hfin. destruct (rst x) eqn:Er; auto.
      * specialize (Hpend eq_refl). congruence.
      * exfalso. eapply (Hq2 f). reflexivity.
Qed.

(* no leak: once the result is cancelled and the hooks have run, no registration on any other context is left pending *)
Theorem combine_no_leak primary others ns sched :
  wfc primary others (length ns) ->
  let s := run (combine_step true primary others (length ns)) (combine_init ns) sched in
  combine_quiescent s = true ->
  forall r, combine_ret s = Some r -> is_canc (nodes (bw s)) r = true ->
  forall k x, nth_error (regs (bw s)) k = Some x -> rst x = Stopped \/ rst x = Done.
Proof.
  intros Hwf s Hq r Hr Hk k x Hx.
  destruct (combine_reach primary others ns sched Hwf) as (HW & HN & HG & HR). fold s in HW, HN, HG, HR.
  unfold combine_quiescent in Hq. unfold combine_ret in *. unfold NInv in HN. unfold GInv in HG.
  destruct (bpcv s) eqn:Epc; try discriminate; inversion Hr; subst r0; clear Hr;
    try (rewrite HG in Hx; destruct k; discriminate).
  destruct HN as (-> & _). destruct HG as (_ & _ & q & Hq' & Hqf & Hqn).
  pose proof (proj1 (no_running_spec (bw s)) Hq) as Hnr.
  assert (Hnp : forall j y, nth_error (regs (bw s)) j = Some y -> rst y <> Pending).
  { destruct (HW _ q Hq') as (_ & Hpend & _). rewrite Hqn in Hpend.
    destruct (HR _ q Hq') as [(Hf' & _)|(_ & _ & _ & _ & Hns & _ & Hdone)]; [congruence|].
    apply Hdone. destruct (rst q) eqn:Er; auto.
    - specialize (Hpend eq_refl). congruence.
    - congruence.
    - exfalso. eapply (Hnr _ q Hq' f). exact Er. }
  destruct (rst x) eqn:Er; auto.
  - exfalso. exact (Hnp k x Hx Er).
  - exfalso. exact (Hnr k x Hx f Er).
Qed.

Definition evol (ns ns' : list node) : Prop :=
  ns' = ns \/ (exists n, ns' = map (mark n) ns) \/ (exists y, ns' = ns ++ [y]).

Lemma evol_mono ns ns' : evol ns ns' -> mono ns ns'.
Proof. intros [->|[(n & ->)|(y & ->)]]; [apply mono_refl|apply mono_mark|apply mono_snoc]. Qed.

Lemma evol_static ns ns' : evol ns ns' ->
  length ns <= length ns' /\ forall x, x < length ns -> vals_of ns' x = vals_of ns x /\ anc_of ns' x = anc_of ns x.
Proof.
  intros [->|[(n & ->)|(y & ->)]].
  - auto.
  - rewrite map_length. split; [lia|]. intros x _. split; [apply vals_of_mark|apply anc_of_mark].
  - rewrite app_length. split; [lia|]. intros x Hx. split; [apply vals_of_snoc_old|apply anc_of_snoc_old]; exact Hx.
Qed.

Lemma hook_evol w r w' : w_hook w r = Some w' -> evol (nodes w) (nodes w').
Proof. intros H. apply nodes_hook in H. destruct H as [->|(x & n & _ & _ & ->)]; [left; reflexivity|right; left; eauto]. Qed.

Lemma combine_evol regstop primary others nenv s l s' :
  combine_step regstop primary others nenv s l = Some s' -> evol (nodes (bw s)) (nodes (bw s')).
Proof.
  intros Hs. destruct l as [|r|n| |]; cbn [combine_step] in Hs; try discriminate.
  - unfold combine_main in Hs. destruct (bpcv s) as [|i n| | | |i| |r|r|r]; try discriminate.
    + destruct primary as [p|]; [destruct (is_canc (nodes (bw s)) p)|]; inversion Hs; subst s'; cbn; [left; reflexivity|left; reflexivity|right; right; eauto].
    + destruct (nth_error others i) as [[o|]|]; [destruct (is_canc (nodes (bw s)) o)| |destruct (n =? 0)]; inversion Hs; subst s'; left; reflexivity.
    + inversion Hs; subst s'. right; right. cbn. eauto.
    + inversion Hs; subst s'. right; left. cbn. eauto.
    + inversion Hs; subst s'. right; right. cbn. eauto.
    + destruct (nth_error others i) as [[o|]|]; inversion Hs; subst s'; left; reflexivity.
    + inversion Hs; subst s'. left. destruct regstop; reflexivity.
  - destruct (w_hook (bw s) r) as [w'|] eqn:Eh; [|discriminate]. inversion Hs; subst s'. cbn. eapply hook_evol; eauto.
  - destruct (n <? nenv); [|discriminate]. inversion Hs; subst s'. right; left. cbn. eauto.
Qed.

Definition VInv (ns : list node) (ns' : list node) : Prop :=
  length ns <= length ns' /\ forall x, x < length ns -> vals_of ns' x = vals_of ns x.

Lemma VInv_evol ns ns1 ns2 : VInv ns ns1 -> evol ns1 ns2 -> VInv ns ns2.
Proof.
  intros [Hl Hv] He. apply evol_static in He. destruct He as [Hl2 Hs]. split; [lia|].
  intros x Hx. rewrite <- (Hv x Hx). apply Hs. lia.
Qed.

Lemma combine_vinv regstop primary others nenv ns sched :
  VInv ns (nodes (bw (run (combine_step regstop primary others nenv) (combine_init ns) sched))).
Proof.
  apply run_inv with (P := fun s => VInv ns (nodes (bw s))).
  - intros s l s' HV Hs. eapply VInv_evol; [exact HV|eapply combine_evol; eauto].
  - split; [cbn; lia|auto].
Qed.

(* the result carries the primary's values (and no others) *)
Theorem combine_values primary others ns sched :
  wfc primary others (length ns) ->
  let s := run (combine_step true primary others (length ns)) (combine_init ns) sched in
  forall r, combine_ret s = Some r ->
  vals_of (nodes (bw s)) r = match primary with Some p => vals_of ns p | None => [] end.
Proof.
  intros Hwf s r Hr. destruct (combine_reach primary others ns sched Hwf) as (HW & HN & HG & HR). fold s in HW, HN, HG, HR.
  destruct (combine_vinv true primary others (length ns) ns sched) as [_ HV]. fold s in HV.
  assert (HPv : Pdef primary (length ns) (nodes (bw s)) (bP s) ->
                vals_of (nodes (bw s)) (bP s) = match primary with Some p => vals_of ns p | None => [] end).
  { intros [_ HP]. destruct primary as [p|].
    - destruct HP as [-> Hp]. apply HV. exact Hp.
    - destruct HP as (-> & _ & _ & _ & Hv). exact Hv. }
  unfold combine_ret in Hr. unfold NInv in HN. destruct (bpcv s); try discriminate; inversion Hr; subst r0; clear Hr.
  - destruct HN as [(p & Hp & -> & Hkp)|(-> & HP & _)]; [|apply HPv; exact HP].
    rewrite Hp. apply HV. destruct Hwf as [Hwp _]. apply Hwp. exact Hp.
  - destruct HN as (-> & HP & HRd & _). destruct HRd as (_ & _ & _ & _ & Hv & _). rewrite Hv. apply HPv. exact HP.
  - destruct HN as (-> & HP & HRd & _). destruct HRd as (_ & _ & _ & _ & Hv & _). rewrite Hv. apply HPv. exact HP.
Qed.

(* "already cancelled if any input already is": whatever happens during the call, if the primary or a non-nil other was
   cancelled before the call, the context that CombineContext returns is cancelled at the moment it is returned *)
Definition PreA (p : nat) (s : bst) : Prop :=
  is_canc (nodes (bw s)) p = true /\
  (bpcv s = BStart \/ exists r, bpcv s = BRetP r /\ is_canc (nodes (bw s)) r = true).

Definition PreB (k o : nat) (s : bst) : Prop :=
  is_canc (nodes (bw s)) o = true /\
  match bpcv s with
  | BStart | BEarlyNew | BEarlyCancel | BRetE _ => True
  | BCheck i _ => i <= k
  | BRetP r => is_canc (nodes (bw s)) r = true
  | _ => False
  end.

Lemma preA_step regstop p others nenv s l s' :
  PreA p s -> combine_step regstop (Some p) others nenv s l = Some s' -> PreA p s'.
Proof.
  intros [Hk Hpc] Hs. pose proof (evol_mono _ _ (combine_evol _ _ _ _ _ _ _ Hs)) as Hm.
  split; [apply Hm; exact Hk|].
  destruct l as [|r|n| |]; cbn [combine_step] in Hs; try discriminate.
  - destruct Hpc as [Hpc|(r & Hpc & Hkr)]; unfold combine_main in Hs; rewrite Hpc in Hs; [|discriminate].
    rewrite Hk in Hs. inversion Hs; subst s'. right. exists p. cbn. auto.
  - destruct (w_hook (bw s) r) as [w'|] eqn:Eh; [|discriminate]. inversion Hs; subst s'. cbn [bset bpcv bw] in *.
    destruct Hpc as [Hpc|(r0 & Hpc & Hkr)]; [left; exact Hpc|right; exists r0; split; [exact Hpc|apply Hm; exact Hkr]].
  - destruct (n <? nenv); [|discriminate]. inversion Hs; subst s'. cbn [bset bpcv bw] in *.
    destruct Hpc as [Hpc|(r0 & Hpc & Hkr)]; [left; exact Hpc|right; exists r0; split; [exact Hpc|apply Hm; exact Hkr]].
Qed.

Lemma preB_step regstop primary others nenv k o s l s' :
  nth_error others k = Some (Some o) ->
  PreB k o s -> combine_step regstop primary others nenv s l = Some s' -> PreB k o s'.
Proof.
  intros Hko [Hk Hpc] Hs. pose proof (evol_mono _ _ (combine_evol _ _ _ _ _ _ _ Hs)) as Hm.
  split; [apply Hm; exact Hk|].
  destruct l as [|r|n| |]; cbn [combine_step] in Hs; try discriminate.
  - unfold combine_main in Hs. destruct (bpcv s) as [|i n| | | |i| |r|r|r]; try contradiction; try discriminate.
    + destruct primary as [p|]; [destruct (is_canc (nodes (bw s)) p) eqn:Ep|]; inversion Hs; subst s'; cbn; [exact Ep|lia|lia].
    + destruct (nth_error others i) as [[o'|]|] eqn:Eo.
      * destruct (is_canc (nodes (bw s)) o') eqn:Eo'; inversion Hs; subst s'; cbn; [exact I|].
        destruct (Nat.eq_dec i k) as [->|Hne]; [|lia]. congruence.
      * inversion Hs; subst s'; cbn. destruct (Nat.eq_dec i k) as [->|Hne]; [congruence|lia].
      * apply nth_error_None in Eo. apply nth_error_lt in Hko. lia.
    + inversion Hs; subst s'. exact I.
    + inversion Hs; subst s'. exact I.
  - destruct (w_hook (bw s) r) as [w'|] eqn:Eh; [|discriminate]. inversion Hs; subst s'. cbn [bset bpcv bw] in *.
    destruct (bpcv s); auto.
  - destruct (n <? nenv); [|discriminate]. inversion Hs; subst s'. cbn [bset bpcv bw] in *.
    destruct (bpcv s); auto.
Qed.

Theorem combine_already_cancelled primary others ns sched :
  wfc primary others (length ns) ->
  src primary others ns ->
  let s := run (combine_step true primary others (length ns)) (combine_init ns) sched in
  forall r, combine_ret s = Some r -> is_canc (nodes (bw s)) r = true.
Proof.
  intros Hwf Hsrc s r Hr.
  destruct (combine_reach primary others ns sched Hwf) as (_ & HN & _ & _). fold s in HN.
  destruct Hsrc as [(p & -> & Hk)|(o & Ho & Hk)].
  - assert (HA : PreA p s).
    { apply run_inv with (P := PreA p); [intros s0 l s1; apply preA_step|]. split; [exact Hk|left; reflexivity]. }
    destruct HA as [_ [Hpc|(r0 & Hpc & Hkr)]]; unfold combine_ret in Hr; rewrite Hpc in Hr; [discriminate|]. congruence.
  - apply In_nth_error in Ho. destruct Ho as [k Hko].
    assert (HB : PreB k o s).
    { apply run_inv with (P := PreB k o); [intros s0 l s1; apply preB_step; exact Hko|]. split; [exact Hk|exact I]. }
    destruct HB as [_ HB]. unfold combine_ret in Hr. unfold NInv in HN.
    destruct (bpcv s); try discriminate; try contradiction; inversion Hr; subst r0.
    + exact HB.
    + destruct HN as (_ & _ & _ & _ & Hkr). exact Hkr.
Qed.

(* DEFECT variant (regstop = false): stops.Stop is never registered: after the primary is cancelled the hook on the
   other context stays registered (Pending) for ever *)
Theorem combine_nostop_refuted :
  exists ns sched,
    let s := run (combine_step false (Some 0) [Some 1] 2) (combine_init ns) sched in
    combine_quiescent s = true /\ combine_ret s = Some 2 /\ is_canc (nodes (bw s)) 2 = true /\
    exists x, nth_error (regs (bw s)) 0 = Some x /\ rst x = Pending.
Proof.
  exists (build_env [ {| eparent := None; ekv := None |}; {| eparent := None; ekv := None |} ] []).
  exists [LMain; LMain; LMain; LMain; LMain; LMain; LMain; LCancel 0]. vm_compute.
  repeat split; eauto.
Qed.

Example combine_other_cancels_and_deregisters :
  let ns := build_env [ {| eparent := None; ekv := Some (7, 70) |}; {| eparent := None; ekv := Some (7, 71) |};
                        {| eparent := None; ekv := None |} ] [] in
  let step := combine_step true (Some 0) [None; Some 1; Some 2] 3 in
  let s0 := combine_settle true (Some 0) [None; Some 1; Some 2] 3 50 (combine_init ns) in
  let s1 := combine_settle true (Some 0) [None; Some 1; Some 2] 3 50 (run step s0 [LCancel 2]) in
  combine_ret s0 = Some 3 /\ is_canc (nodes (bw s0)) 3 = false /\ lookup (vals_of (nodes (bw s0)) 3) 7 = Some 70 /\
  combine_quiescent s1 = true /\ is_canc (nodes (bw s1)) 3 = true /\
  map rst (regs (bw s1)) = [Stopped; Done; Done].
Proof. vm_compute. repeat split; reflexivity. Qed.

Example wfc_example : wfc (Some 0) [None; Some 1; Some 2] 3.
Proof. split; [intros p H; inversion H; lia|]. intros o [H|[H|[H|[]]]]; inversion H; lia. Qed.

(* a cancellation that lands between the Err() check and the AfterFunc registration is not lost *)
Example combine_cancel_during_construction :
  let ns := build_env [ {| eparent := None; ekv := None |}; {| eparent := None; ekv := None |} ] [] in
  let step := combine_step true (Some 0) [Some 1] 2 in
  let s := combine_settle true (Some 0) [Some 1] 2 50 (run step (combine_init ns) [LMain; LMain; LMain; LCancel 1]) in
  combine_quiescent s = true /\ combine_ret s = Some 2 /\ is_canc (nodes (bw s)) 2 = true.
Proof. vm_compute. repeat split; reflexivity. Qed.

(* ------------------------------------------------------------------------------------------------------------ *)
(* G. ConflatedContext                                                                                          *)
(* ------------------------------------------------------------------------------------------------------------ *)
Lemma sum_snoc {A : Type} (g : A -> nat) (l : list A) (x : A) : list_sum (map g (l ++ [x])) = list_sum (map g l) + g x.
Proof. rewrite map_app, list_sum_app. unfold list_sum at 2. cbn [map fold_right]. lia. Qed.

Lemma list_sum_cons (a : nat) (l : list nat) : list_sum (a :: l) = a + list_sum l.
Proof. reflexivity. Qed.

Lemma sum_updf {A : Type} (g : A -> nat) (f : A -> A) (l : list A) (i : nat) (x : A) :
  nth_error l i = Some x -> list_sum (map g (updf l i f)) + g x = list_sum (map g l) + g (f x).
Proof.
  revert i. induction l as [|y t IH]; intros [|i] H; cbn in H; try discriminate.
  - inversion H; subst y. cbn [updf map]. rewrite !list_sum_cons. lia.
  - cbn [updf map]. rewrite !list_sum_cons. specialize (IH i H). lia.
Qed.

Lemma sum_map_ext {A : Type} (g : A -> nat) (h : A -> A) (l : list A) :
  (forall x, In x l -> g (h x) = g x) -> list_sum (map g (map h l)) = list_sum (map g l).
Proof.
  induction l as [|y t IH]; intros H; [reflexivity|]. cbn [map]. rewrite !list_sum_cons. rewrite H by (left; reflexivity).
  rewrite IH; [reflexivity|]. intros x Hx. apply H. right. exact Hx.
Qed.

Lemma sum_ge {A : Type} (g : A -> nat) (l : list A) (i : nat) (x : A) :
  nth_error l i = Some x -> g x <= list_sum (map g l).
Proof.
  revert i. induction l as [|y t IH]; intros [|i] H; cbn in H; try discriminate.
  - inversion H; subst y. cbn [map]. rewrite list_sum_cons. lia.
  - cbn [map]. rewrite list_sum_cons. specialize (IH i H). lia.
Qed.

Definition is_done_act (f : fn) : bool := match f with FAct AWgDone => true | _ => false end.

(* a registration that still owes one wg.Done *)
Definition tok (x : reg) : nat :=
  match rst x with
  | Pending => if is_done_act (rfn x) then 1 else 0
  | Run f => if is_done_act f then 1 else 0
  | _ => 0
  end.

Lemma tok_fire ns x : tok (fire ns x) = tok x.
Proof.
  destruct (fire_cases ns x) as [(Ep & Ek & ->)|[(Ep & Ek & ->)|(Hnp & ->)]]; try reflexivity.
  unfold tok. cbn [set_rst rst rfn]. rewrite Ep. reflexivity.
Qed.

Definition kR (s : fstate) : bool := is_canc (nodes (fw s)) (fR s).
Definition hasR (pc : fpc) : bool := match pc with F0 | F1 | FPanic => false | _ => true end.
Definition is_FRet (pc : fpc) : bool := match pc with FRet => true | _ => false end.

Definition FN (ns0 : list node) (inputs : list nat) (s : fstate) : Prop :=
  let ns := nodes (fw s) in let nenv := length ns0 in
  (forall x, x < nenv -> vals_of ns x = vals_of ns0 x) /\
  match fpcv s with
  | F0 => length ns = nenv
  | FPanic => True
  | F1 => length ns = S nenv /\ fD s = nenv /\ anc_of ns nenv = [nenv] /\ is_canc ns nenv = false /\
          (forall c0, hd_error inputs = Some c0 -> vals_of ns nenv = vals_of ns0 c0)
  | _ => length ns = S (S nenv) /\ fD s = nenv /\ fR s = S nenv /\ anc_of ns nenv = [nenv] /\ is_canc ns nenv = false /\
         anc_of ns (S nenv) = [S nenv; nenv] /\
         (forall c0, hd_error inputs = Some c0 -> vals_of ns (S nenv) = vals_of ns0 c0)
  end.

Definition guard (s : fstate) : nat :=
  match fpcv s with
  | F0 | F1 | F2 | FPanic | FSpawn => 0
  | FRet => if fok s then 0 else 1
  | _ => 1
  end.
Definition inflight (s : fstate) : nat := match fpcv s with FRegA _ => 1 | _ => 0 end.

Definition FW (s : fstate) : Prop :=
  wgneg (fw s) = false /\ wg (fw s) = guard s + inflight s + list_sum (map tok (regs (fw s))).

Definition FR1 (s : fstate) (k : nat) (x : reg) : Prop :=
  (rfn x = FAct AWgDone /\ In (rnode x) (flives s) /\ (forall f, rst x = Run f -> f = FAct AWgDone) /\
   (rst x = Stopped -> kR s = true) /\
   ((exists i, fpcv s = FRegB i k) \/ exists b y, nth_error (regs (fw s)) b = Some y /\ rfn y = FChain true k AWgDone))
  \/
  (exists a, rfn x = FChain true a AWgDone /\ rnode x = fR s /\ rst x <> Stopped /\
     (exists xa, nth_error (regs (fw s)) a = Some xa /\ rfn xa = FAct AWgDone) /\
     (forall f, rst x = Run f -> f = rfn x \/ f = FAct AWgDone) /\
     (rst x = Run (FAct AWgDone) \/ rst x = Done -> is_pending (fw s) a = false)).

Definition FR (s : fstate) : Prop := forall k x, nth_error (regs (fw s)) k = Some x -> FR1 s k x.

Definition idx (inputs : list nat) (pc : fpc) : nat :=
  match pc with
  | F0 | F1 | F2 | FPanic => 0
  | FLoop i => i
  | FAdd i | FRegA i | FRegB i _ => S i
  | _ => length inputs
  end.

Definition FL (inputs : list nat) (s : fstate) : Prop :=
  let rs := regs (fw s) in
  (fok s = false -> flives s = []) /\
  (forall x, In x (flives s) -> In x inputs) /\
  (forall x, In x (flives s) ->
     (exists k y, nth_error rs k = Some y /\ rfn y = FAct AWgDone /\ rnode y = x) \/
     (exists i, (fpcv s = FAdd i \/ fpcv s = FRegA i) /\ nth_error inputs i = Some x)) /\
  (forall j x, j < idx inputs (fpcv s) -> nth_error inputs j = Some x ->
     is_canc (nodes (fw s)) x = true \/ In x (flives s)) /\
  match fpcv s with
  | F0 | F1 | F2 | FPanic => rs = [] /\ flives s = []
  | FAdd i | FRegA i => exists x, nth_error inputs i = Some x /\ In x (flives s)
  | FRegB i a => (exists x, nth_error inputs i = Some x /\ In x (flives s)) /\
                 exists xa, nth_error rs a = Some xa /\ rfn xa = FAct AWgDone
  | FDoneG | FSpawn => fok s = true
  | FDefer => fok s = false
  | _ => True
  end.

Definition AllDead (s : fstate) : Prop := forall x, In x (flives s) -> is_canc (nodes (fw s)) x = true.

Definition FK (s : fstate) : Prop :=
  (is_FRet (fpcv s) = false -> fwait s = WNone /\ fucancel s = false /\ (hasR (fpcv s) = true -> kR s = false)) /\
  (is_FRet (fpcv s) = true -> kR s = true \/ fwait s = WCancel \/ fwait s = WExit -> fucancel s = true \/ AllDead s) /\
  (fucancel s = true -> kR s = true) /\ (fwait s = WExit -> kR s = true) /\
  (is_FRet (fpcv s) = true -> fok s = false -> kR s = true /\ fwait s = WNone) /\
  (is_FRet (fpcv s) = true -> fok s = true -> fwait s <> WNone).

Definition FInv (ns0 : list node) (inputs : list nat) (s : fstate) : Prop :=
  WInv (fw s) /\ FN ns0 inputs s /\ FW s /\ FR s /\ FL inputs s /\ FK s.

Lemma is_pending_cancel w n a : is_pending w a = false -> is_pending (w_cancel w n) a = false.
Proof.
  intros H. destruct (is_pending (w_cancel w n) a) eqn:E; [|reflexivity].
  apply is_pending_spec in E. destruct E as (x' & Hx' & Hp). apply regs_cancel_nth in Hx'. destruct Hx' as (x & Hx & ->).
  apply fire_pending in Hp. assert (is_pending w a = true) by (apply is_pending_spec; eauto). congruence.
Qed.

Lemma fset_id s : fset s (fw s) (fpcv s) = s.
Proof. destruct s; reflexivity. Qed.

Lemma fcancel_parts ns0 inputs s n :
  WInv (fw s) -> FN ns0 inputs s -> FW s -> FR s -> FL inputs s ->
  (n < length ns0 \/ (n = S (length ns0) /\ hasR (fpcv s) = true)) ->
  let s' := fset s (w_cancel (fw s) n) (fpcv s) in
  WInv (fw s') /\ FN ns0 inputs s' /\ FW s' /\ FR s' /\ FL inputs s' /\
  mono (nodes (fw s)) (nodes (fw s')) /\
  (n < length ns0 -> hasR (fpcv s) = true -> kR s' = kR s) /\
  (n = S (length ns0) -> hasR (fpcv s) = true -> kR s' = true).
Proof.
  intros HW HN HFW HFR HFL Hn s'. subst s'.
  set (ns' := map (mark n) (nodes (fw s))).
  assert (Hm : mono (nodes (fw s)) ns') by apply mono_mark.
  assert (Hkm : kR s = true -> kR (fset s (w_cancel (fw s) n) (fpcv s)) = true) by (unfold kR, fset; cbn [fw fR w_cancel nodes]; apply Hm).
  assert (Hne : n <> length ns0) by (destruct Hn as [Hn|[Hn _]]; lia).
  assert (Hk0 : memb n [length ns0] = false).
  { cbn. destruct (Nat.eqb_spec n (length ns0)); [contradiction|reflexivity]. }
  split; [apply WInv_cancel; exact HW|]. split; [|split; [|split; [|split; [|split; [exact Hm|split]]]]].
  - (* FN *)
    unfold FN in *. unfold fset; cbn [fw fpcv fD fR w_cancel nodes]. fold ns'. destruct HN as [HV HN].
    split; [intros x Hx; unfold ns'; rewrite vals_of_mark; apply HV; exact Hx|].
    unfold ns'. rewrite map_length, ?anc_of_mark, ?is_canc_mark.
    destruct (fpcv s); auto;
      try (destruct HN as (H1 & H2 & H3 & H4 & H5 & H6 & H7); rewrite H4, H5, Hk0; repeat (split; [first [assumption|reflexivity]|]);
           intros c0 Hc0; rewrite vals_of_mark; apply H7; exact Hc0).
    destruct HN as (H1 & H2 & H3 & H4 & H5). rewrite H3, H4, Hk0. repeat (split; [first [assumption|reflexivity]|]).
    intros c0 Hc0; rewrite vals_of_mark; apply H5; exact Hc0.
  - (* FW *)
    unfold FW in *. unfold fset; cbn [fw w_cancel wgneg wg regs]. destruct HFW as [H1 H2]. split; [exact H1|].
    rewrite sum_map_ext; [exact H2|]. intros x _. apply tok_fire.
  - (* FR *)
    intros k x' Hx'. unfold fset in Hx'; cbn [fw] in Hx'. apply regs_cancel_nth in Hx'. destruct Hx' as (x & Hx & ->). fold ns'.
    destruct (fire_static ns' x) as [Hsn Hsf]. unfold FR1. rewrite Hsn, Hsf.
    unfold fset; cbn [fw fpcv fR flives].
    destruct (HFR k x Hx) as [(Hf & Hin & Hrun & Hst & Hpart)|(a & Hf & Hrn & Hns & Hxa & Hrun & Hfin)]; [left|right].
    + repeat (split; [assumption|]). split; [|split].
      * intros f Hr. apply fire_run in Hr. destruct Hr as [Hr|[_ ->]]; [apply Hrun; exact Hr|exact Hf].
      * intros Hs. apply Hkm. apply Hst. rewrite <- Hs. symmetry. apply fire_final. auto.
      * destruct Hpart as [Hpc|(b & y & Hy & Hyf)]; [left; exact Hpc|right].
        destruct (cancel_static (fw s) n b y Hy) as (y' & Hy' & _ & Hyf'). exists b, y'. split; [exact Hy'|congruence].
    + exists a. repeat (split; [assumption|]). split; [|split; [|split]].
      * intros Hs. apply Hns. rewrite <- Hs. symmetry. apply fire_final. auto.
      * destruct Hxa as (xa & Hxa & Hxaf). destruct (cancel_static (fw s) n a xa Hxa) as (xa' & Hxa' & _ & Hf'). exists xa'. split; [exact Hxa'|congruence].
      * intros f Hr. apply fire_run in Hr. destruct Hr as [Hr|[_ ->]]; [apply Hrun; exact Hr|left; reflexivity].
      * intros Hd. apply is_pending_cancel. apply Hfin. destruct Hd as [Hd|Hd].
        -- apply fire_run in Hd. destruct Hd as [Hd|[_ Hd]]; [left; exact Hd|]. rewrite Hf in Hd. discriminate.
        -- right. rewrite <- Hd. symmetry. apply fire_final. auto.
  - (* FL *)
    unfold FL in *. unfold fset; cbn [fw fpcv fok flives w_cancel nodes]. destruct HFL as (H1 & H2 & H3 & H4 & H5).
    split; [exact H1|]. split; [exact H2|]. split; [|split].
    + intros x Hx. destruct (H3 x Hx) as [(k & y & Hy & Hyf & Hyn)|Hip]; [left|right; exact Hip].
      destruct (cancel_static (fw s) n k y Hy) as (y' & Hy' & Hn' & Hf'). exists k, y'. split; [exact Hy'|]. split; congruence.
    + intros j x Hj Hx. destruct (H4 j x Hj Hx) as [Hk|Hl]; [left; apply Hm; exact Hk|right; exact Hl].
    + destruct (fpcv s); auto.
      * destruct H5 as [Hnil Hl]. split; [cbn [w_cancel regs]; rewrite Hnil; reflexivity|exact Hl].
      * destruct H5 as [Hnil Hl]. split; [cbn [w_cancel regs]; rewrite Hnil; reflexivity|exact Hl].
      * destruct H5 as [Hnil Hl]. split; [cbn [w_cancel regs]; rewrite Hnil; reflexivity|exact Hl].
      * destruct H5 as [Hi (xa & Hxa & Hxaf)]. split; [exact Hi|].
        destruct (cancel_static (fw s) n a xa Hxa) as (xa' & Hxa' & _ & Hf'). exists xa'. split; [exact Hxa'|congruence].
      * destruct H5 as [Hnil Hl]. split; [cbn [w_cancel regs]; rewrite Hnil; reflexivity|exact Hl].
  - (* input cancel leaves R alone *)
    intros Hlt Hh. unfold kR. unfold fset; cbn [fw fR w_cancel nodes]. rewrite is_canc_mark.
    unfold FN in HN. destruct HN as [_ HN].
    assert (Ha : fR s = S (length ns0) /\ anc_of (nodes (fw s)) (S (length ns0)) = [S (length ns0); length ns0]).
    { destruct (fpcv s); try discriminate; destruct HN as (_ & _ & H3 & _ & _ & H6 & _); auto. }
    destruct Ha as [-> ->]. cbn. destruct (Nat.eqb_spec n (S (length ns0))); [lia|]. destruct (Nat.eqb_spec n (length ns0)); [lia|].
    cbn. rewrite orb_false_r. reflexivity.
  - (* cancelling R *)
    intros -> Hh. unfold kR. unfold fset; cbn [fw fR w_cancel nodes]. unfold FN in HN. destruct HN as [_ HN].
    assert (Ha : fR s = S (length ns0) /\ anc_of (nodes (fw s)) (S (length ns0)) = [S (length ns0); length ns0]).
    { destruct (fpcv s); try discriminate; destruct HN as (_ & _ & H3 & _ & _ & H6 & _); auto. }
    destruct Ha as [-> Ha]. eapply is_canc_self. exact Ha.
Qed.

Lemma hasR_FRet pc : is_FRet pc = true -> hasR pc = true.
Proof. destruct pc; cbn; congruence. Qed.

Lemma FK_transfer s s' :
  fpcv s' = fpcv s -> fok s' = fok s -> fwait s' = fwait s -> fucancel s' = fucancel s -> flives s' = flives s ->
  mono (nodes (fw s)) (nodes (fw s')) -> (hasR (fpcv s) = true -> kR s' = kR s) ->
  FK s -> FK s'.
Proof.
  intros Hpc Hok Hw Hu Hl Hm Hk (K1 & K2 & K3 & K4 & K5 & K6). unfold FK. rewrite Hpc, Hok, Hw, Hu.
  assert (HA : AllDead s -> AllDead s') by (intros HA x Hx; apply Hm; apply HA; rewrite <- Hl; exact Hx).
  split; [|split; [|split; [|split; [|split]]]].
  - intros Hf. destruct (K1 Hf) as (A & B & C). repeat (split; [assumption|]). intros Hh. rewrite Hk by exact Hh. apply C. exact Hh.
  - intros Hf Hp. rewrite Hk in Hp by (apply hasR_FRet; exact Hf). destruct (K2 Hf Hp); auto.
  - intros Hu'. destruct (is_FRet (fpcv s)) eqn:Ef.
    + rewrite Hk by (apply hasR_FRet; exact Ef). apply K3. exact Hu'.
    + destruct (K1 eq_refl) as (_ & B & _). congruence.
  - intros Hw'. destruct (is_FRet (fpcv s)) eqn:Ef.
    + rewrite Hk by (apply hasR_FRet; exact Ef). apply K4. exact Hw'.
    + destruct (K1 eq_refl) as (A & _ & _). congruence.
  - intros Hf Hok'. rewrite Hk by (apply hasR_FRet; exact Hf). apply K5; assumption.
  - intros Hf Hok'. apply K6; assumption.
Qed.

Lemma finv_envcancel ns0 inputs s n :
  FInv ns0 inputs s -> n < length ns0 -> FInv ns0 inputs (fset s (w_cancel (fw s) n) (fpcv s)).
Proof.
  intros (HW & HN & HFW & HFR & HFL & HFK) Hn.
  destruct (fcancel_parts ns0 inputs s n HW HN HFW HFR HFL (or_introl Hn)) as (A & B & C & D & E & Hm & Hk & _).
  repeat (split; [assumption|]). eapply FK_transfer; try exact HFK; try reflexivity; [exact Hm|]. intros Hh. apply Hk; assumption.
Qed.

(* transfer along a change of the world that keeps nodes and registrations *)
Lemma FR_ext s s1 :
  regs (fw s1) = regs (fw s) -> nodes (fw s1) = nodes (fw s) -> fR s1 = fR s -> flives s1 = flives s ->
  (forall i k, fpcv s = FRegB i k -> fpcv s1 = FRegB i k) -> FR s -> FR s1.
Proof.
  intros Hr Hn HR Hl Hpc H k x Hx. rewrite Hr in Hx. unfold FR1, kR, is_pending. rewrite Hr, Hn, HR, Hl.
  destruct (H k x Hx) as [(A & B & C & D & E)|HB]; [left|right; exact HB].
  repeat (split; [assumption|]). destruct E as [(i & E)|E]; [left; exists i; apply Hpc; exact E|right; exact E].
Qed.

Lemma FL_ext inputs s s1 :
  regs (fw s1) = regs (fw s) -> nodes (fw s1) = nodes (fw s) -> fok s1 = fok s -> flives s1 = flives s ->
  fpcv s1 = fpcv s -> FL inputs s -> FL inputs s1.
Proof. intros Hr Hn Hok Hl Hpc H. unfold FL in *. rewrite Hr, Hn, Hok, Hl, Hpc. exact H. Qed.

Lemma FN_ext ns0 inputs s s1 :
  nodes (fw s1) = nodes (fw s) -> fpcv s1 = fpcv s -> fD s1 = fD s -> fR s1 = fR s -> FN ns0 inputs s -> FN ns0 inputs s1.
Proof. intros Hn Hpc HD HR H. unfold FN in *. rewrite Hn, Hpc, HD, HR. exact H. Qed.

Lemma FK_ext s s1 :
  nodes (fw s1) = nodes (fw s) -> fpcv s1 = fpcv s -> fok s1 = fok s -> fwait s1 = fwait s -> fucancel s1 = fucancel s ->
  flives s1 = flives s -> fR s1 = fR s -> FK s -> FK s1.
Proof.
  intros Hn Hpc Hok Hw Hu Hl HR H. eapply FK_transfer; eauto.
  - rewrite Hn. apply mono_refl.
  - intros _. unfold kR. rewrite Hn, HR. reflexivity.
Qed.

Lemma is_pending_setrst w r st a :
  st <> Pending -> is_pending w a = false -> is_pending (w_setrst w r st) a = false.
Proof.
  intros Hst H. destruct (is_pending (w_setrst w r st) a) eqn:E; [|reflexivity].
  apply is_pending_spec in E. destruct E as (x' & Hx' & Hp). apply regs_setrst_nth in Hx'.
  destruct Hx' as (x & Hx & [[-> ->]|[_ ->]]).
  - cbn in Hp. congruence.
  - assert (is_pending w a = true) by (apply is_pending_spec; eauto). congruence.
Qed.

Lemma FR_setrst s r st' :
  st' <> Pending -> FR s ->
  (forall x, nth_error (regs (fw s)) r = Some x -> FR1 (fset s (w_setrst (fw s) r st') (fpcv s)) r (set_rst x st')) ->
  FR (fset s (w_setrst (fw s) r st') (fpcv s)).
Proof.
  intros Hst HFR Hr k x' Hx'. unfold fset in Hx'; cbn [fw] in Hx'. apply regs_setrst_nth in Hx'.
  destruct Hx' as (x & Hx & [[-> ->]|[Hne ->]]); [apply Hr; exact Hx|].
  unfold FR1, kR. unfold fset; cbn [fw fpcv fR flives]. rewrite nodes_setrst.
  destruct (HFR k x Hx) as [(A & B & C & D & E)|(a & A & B & C & D & E & F)]; [left|right].
  - repeat (split; [assumption|]). destruct E as [E|(b & y & Hy & Hyf)]; [left; exact E|right].
    destruct (setrst_static (fw s) r st' b y Hy) as (y' & Hy' & _ & Hf'). exists b, y'. split; [exact Hy'|congruence].
  - exists a. repeat (split; [assumption|]). split; [|split; [exact E|]].
    + destruct D as (xa & Hxa & Hxaf). destruct (setrst_static (fw s) r st' a xa Hxa) as (xa' & Hxa' & _ & Hf'). exists xa'. split; [exact Hxa'|congruence].
    + intros Hd. apply is_pending_setrst; [exact Hst|apply F; exact Hd].
Qed.

Lemma FL_static inputs s w' :
  nodes w' = nodes (fw s) -> length (regs w') = length (regs (fw s)) ->
  (forall k x, nth_error (regs (fw s)) k = Some x -> exists x', nth_error (regs w') k = Some x' /\ rnode x' = rnode x /\ rfn x' = rfn x) ->
  FL inputs s -> FL inputs (fset s w' (fpcv s)).
Proof.
  intros Hn Hlen Hs (H1 & H2 & H3 & H4 & H5). unfold FL. unfold fset; cbn [fw fpcv fok flives]. rewrite Hn.
  split; [exact H1|]. split; [exact H2|]. split; [|split; [exact H4|]].
  - intros x Hx. destruct (H3 x Hx) as [(k & y & Hy & Hyf & Hyn)|Hip]; [left|right; exact Hip].
    destruct (Hs k y Hy) as (y' & Hy' & Hn' & Hf'). exists k, y'. split; [exact Hy'|]. split; congruence.
  - assert (Hnil : regs (fw s) = [] -> regs w' = []).
    { intros H. rewrite H in Hlen. destruct (regs w'); [reflexivity|discriminate]. }
    destruct (fpcv s); auto; try (destruct H5 as [Hx Hl]; split; [auto|exact Hl]).
    destruct H5 as [Hi (xa & Hxa & Hxaf)]. split; [exact Hi|].
    destruct (Hs a xa Hxa) as (xa' & Hxa' & _ & Hf'). exists xa'. split; [exact Hxa'|congruence].
Qed.

Definition FP (ns0 : list node) (inputs : list nat) (s : fstate) : Prop :=
  FN ns0 inputs s /\ FR s /\ FL inputs s /\ FK s.

Lemma FP_setrst ns0 inputs s r st' :
  st' <> Pending -> FP ns0 inputs s ->
  (forall x, nth_error (regs (fw s)) r = Some x -> FR1 (fset s (w_setrst (fw s) r st') (fpcv s)) r (set_rst x st')) ->
  FP ns0 inputs (fset s (w_setrst (fw s) r st') (fpcv s)).
Proof.
  intros Hst (HN & HFR & HFL & HFK) Hr. split; [|split; [|split]].
  - eapply FN_ext; try exact HN; reflexivity.
  - apply FR_setrst; assumption.
  - apply FL_static; [reflexivity|cbn [w_setrst w_setregs regs]; apply length_updf|intros k x; apply setrst_static|exact HFL].
  - eapply FK_ext; try exact HFK; reflexivity.
Qed.

Lemma FP_wg ns0 inputs s w1 :
  regs w1 = regs (fw s) -> nodes w1 = nodes (fw s) -> FP ns0 inputs s -> FP ns0 inputs (fset s w1 (fpcv s)).
Proof.
  intros Hr Hn (HN & HFR & HFL & HFK). split; [|split; [|split]].
  - eapply FN_ext; try exact HN; auto.
  - eapply FR_ext; try exact HFR; auto.
  - eapply FL_ext; try exact HFL; auto.
  - eapply FK_ext; try exact HFK; auto.
Qed.

Lemma FR1_A_of_fn s k x : FR1 s k x -> rfn x = FAct AWgDone ->
  In (rnode x) (flives s) /\ (forall f, rst x = Run f -> f = FAct AWgDone) /\ (rst x = Stopped -> kR s = true) /\
  ((exists i, fpcv s = FRegB i k) \/ exists b y, nth_error (regs (fw s)) b = Some y /\ rfn y = FChain true k AWgDone).
Proof. intros [(A & B)|(a & A & _)] Hf; [exact B|congruence]. Qed.

Lemma regs_act_done w : regs (w_act w AWgDone) = regs w.
Proof. cbn [w_act]. destruct (wg w); reflexivity. Qed.
Lemma is_pending_act_done w a : is_pending (w_act w AWgDone) a = is_pending w a.
Proof. unfold is_pending. rewrite regs_act_done. reflexivity. Qed.

Lemma finv_hook ns0 inputs s r w' :
  FInv ns0 inputs s -> w_hook (fw s) r = Some w' -> FInv ns0 inputs (fset s w' (fpcv s)).
Proof.
  intros (HW & HN & HFW & HFR & HFL & HFK) Hh.
  pose proof (WInv_hook _ _ _ HW Hh) as HW'.
  assert (HP : FP ns0 inputs s) by exact (conj HN (conj HFR (conj HFL HFK))).
  apply w_hook_inv in Hh. destruct Hh as (x & Hx & Hc).
  destruct (HW r x Hx) as (_ & _ & Hfired).
  destruct HFW as [Hneg Hwg].
  (* the common "call wg.Done, finish" step *)
  assert (Hdone : rst x = Run (FAct AWgDone) -> WInv (w_setrst (w_act (fw s) AWgDone) r Done) ->
            (forall s1, s1 = fset s (w_act (fw s) AWgDone) (fpcv s) ->
               FR1 (fset s1 (w_setrst (fw s1) r Done) (fpcv s1)) r (set_rst x Done)) ->
            FInv ns0 inputs (fset s (w_setrst (w_act (fw s) AWgDone) r Done) (fpcv s))).
  { intros Ex HWd Hnew.
    assert (Htok : tok x = 1) by (unfold tok; rewrite Ex; reflexivity).
    pose proof (sum_ge tok _ _ _ Hx) as Hge. rewrite Htok in Hge.
    destruct (wg (fw s)) as [|k] eqn:Ewg; [lia|].
    set (w1 := w_act (fw s) AWgDone). assert (Ew1 : w1 = {| nodes := nodes (fw s); regs := regs (fw s); calls := calls (fw s); wg := k; wgneg := wgneg (fw s) |})
      by (unfold w1; cbn [w_act]; rewrite Ewg; reflexivity).
    assert (HP1 : FP ns0 inputs (fset s w1 (fpcv s))) by (apply FP_wg; [rewrite Ew1; reflexivity|rewrite Ew1; reflexivity|exact HP]).
    set (s1 := fset s w1 (fpcv s)) in *.
    assert (HP2 : FP ns0 inputs (fset s1 (w_setrst (fw s1) r Done) (fpcv s1))).
    { apply FP_setrst; [discriminate|exact HP1|]. intros x0 Hx0. unfold s1, fset in Hx0; cbn [fw] in Hx0. rewrite Ew1 in Hx0. cbn [regs] in Hx0.
      assert (x0 = x) by congruence. subst x0. apply Hnew. reflexivity. }
    destruct HP2 as (A & B & C & D). split; [exact HWd|]. split; [exact A|]. split; [|split; [exact B|split; [exact C|exact D]]].
    unfold FW, guard, inflight. unfold s1, fset; cbn [fw fpcv fok w_setrst w_setregs wgneg wg regs]. rewrite Ew1. cbn [wgneg wg regs].
    split; [exact Hneg|]. pose proof (sum_updf tok (fun x0 => set_rst x0 Done) _ _ _ Hx) as Hs. rewrite Htok in Hs.
    unfold tok at 3 in Hs. cbn [set_rst rst] in Hs. unfold guard, inflight in Hwg. lia. }
  destruct (HFR r x Hx) as [(Hf & Hin & Hrun & Hst & Hpart)|(a & Hf & Hrn & Hns & (xa & Hxa & Hxaf) & Hrun & Hfin)].
  - (* a hook on an input: wg.Done *)
    destruct Hc as [(a & Ea & ->)|[(c & r0 & a & Ea & _)|[(c & r0 & a & Ea & _)|[(Ea & _)|(r0 & rs & Ea & _)]]]];
      try (specialize (Hrun _ Ea); discriminate).
    pose proof (Hrun _ Ea) as Ha. inversion Ha; subst a; clear Ha. apply Hdone; [exact Ea|exact HW'|].
    intros s1 ->. left. unfold fset; cbn [fw fpcv fR flives set_rst rfn rnode rst].
    repeat (split; [first [assumption|intros; discriminate]|]).
    destruct Hpart as [Hpc|(b & y & Hy & Hyf)]; [left; exact Hpc|right].
    destruct (setrst_static (w_act (fw s) AWgDone) r Done b y) as (y' & Hy' & _ & Hf').
    { rewrite regs_act_done. exact Hy. }
    exists b, y'. split; [exact Hy'|congruence].
  - (* the primary-side hook of a chain *)
    assert (HkR : kR s = true).
    { unfold kR. rewrite <- Hrn. apply Hfired. destruct Hc as [(a0 & Ea & _)|[(c & r0 & a0 & Ea & _)|[(c & r0 & a0 & Ea & _)|[(Ea & _)|(r0 & rs & Ea & _)]]]]; left; eauto. }
    destruct Hc as [(a0 & Ea & ->)|[(c & r0 & a0 & Ea & Ep & ->)|[(c & r0 & a0 & Ea & Ep & ->)|[(Ea & _)|(r0 & rs & Ea & _)]]]].
    + (* f() after a successful stop *)
      destruct (Hrun _ Ea) as [Hr|Hr]; [congruence|]. inversion Hr; subst a0; clear Hr. apply Hdone; [exact Ea|exact HW'|].
      intros s1 ->. right. exists a. unfold fset; cbn [fw fpcv fR flives set_rst rfn rnode rst].
      split; [exact Hf|]. split; [exact Hrn|]. split; [discriminate|]. split; [|split; [intros; discriminate|]].
      * destruct (setrst_static (w_act (fw s) AWgDone) r Done a xa) as (xa' & Hxa' & _ & Hf').
        { rewrite regs_act_done. exact Hxa. }
        exists xa'. split; [exact Hxa'|congruence].
      * intros _. apply is_pending_setrst; [discriminate|].
        rewrite is_pending_act_done. apply Hfin; left; exact Ea.
    + (* stop() succeeded *)
      destruct (Hrun _ Ea) as [Hr|Hr]; [|discriminate]. rewrite Hf in Hr. inversion Hr; subst c r0 a0; clear Hr.
      apply is_pending_spec in Ep. destruct Ep as (xa0 & Hxa0 & Hpa). assert (xa0 = xa) by congruence. subst xa0.
      assert (Hne : a <> r) by (intros ->; congruence).
      destruct (FR1_A_of_fn s a xa (HFR a xa Hxa) Hxaf) as (HinA & HrunA & HstA & HpartA).
      set (s1 := fset s (w_setrst (fw s) a Stopped) (fpcv s)).
      assert (HP1 : FP ns0 inputs s1).
      { apply FP_setrst; [discriminate|exact HP|]. intros x0 Hx0. assert (x0 = xa) by congruence. subst x0.
        left. unfold fset; cbn [fw fpcv fR flives set_rst rfn rnode rst]. unfold kR. cbn [fw fR]. rewrite nodes_setrst.
        repeat (split; [first [assumption|intros; discriminate]|]). split; [intros _; exact HkR|].
        destruct HpartA as [Hpc|(b & y & Hy & Hyf)]; [left; exact Hpc|right].
        destruct (setrst_static (fw s) a Stopped b y Hy) as (y' & Hy' & _ & Hf'). exists b, y'. split; [exact Hy'|congruence]. }
      assert (Hx1 : nth_error (regs (fw s1)) r = Some x).
      { unfold s1, fset; cbn [fw]. rewrite (setrst_fwd _ a Stopped r x Hx). destruct (Nat.eqb_spec r a); [congruence|reflexivity]. }
      assert (HP2 : FP ns0 inputs (fset s1 (w_setrst (fw s1) r (Run (FAct AWgDone))) (fpcv s1))).
      { apply FP_setrst; [discriminate|exact HP1|]. intros x0 Hx0. assert (x0 = x) by congruence. subst x0.
        right. exists a. unfold s1, fset; cbn [fw fpcv fR flives set_rst rfn rnode rst].
        split; [exact Hf|]. split; [exact Hrn|]. split; [discriminate|]. split; [|split; [intros f Hf'; right; congruence|]].
        - destruct (setrst_static (fw s) a Stopped a xa Hxa) as (xa1 & Hxa1 & _ & Hf1).
          destruct (setrst_static (w_setrst (fw s) a Stopped) r (Run (FAct AWgDone)) a xa1 Hxa1) as (xa2 & Hxa2 & _ & Hf2).
          exists xa2. split; [exact Hxa2|congruence].
        - intros _. apply is_pending_setrst; [discriminate|].
          destruct (is_pending (w_setrst (fw s) a Stopped) a) eqn:E; [|reflexivity].
          apply is_pending_spec in E. destruct E as (y & Hy & Hp). rewrite (setrst_fwd _ a Stopped a xa Hxa), Nat.eqb_refl in Hy.
          inversion Hy; subst y. cbn in Hp. discriminate. }
      destruct HP2 as (A & B & C & D). split; [exact HW'|]. split; [exact A|]. split; [|split; [exact B|split; [exact C|exact D]]].
      unfold FW, guard, inflight. unfold s1, fset; cbn [fw fpcv fok w_setrst w_setregs wgneg wg regs].
      split; [exact Hneg|].
      pose proof (sum_updf tok (fun x0 => set_rst x0 Stopped) _ _ _ Hxa) as Hs1.
      assert (Hx1' : nth_error (updf (regs (fw s)) a (fun x0 => set_rst x0 Stopped)) r = Some x).
      { rewrite nth_updf, Hx. destruct (Nat.eqb_spec r a); [congruence|reflexivity]. }
      pose proof (sum_updf tok (fun x0 => set_rst x0 (Run (FAct AWgDone))) _ _ _ Hx1') as Hs2.
      assert (T1 : tok xa = 1) by (unfold tok; rewrite Hpa, Hxaf; reflexivity).
      assert (T2 : tok x = 0) by (unfold tok; rewrite Ea; reflexivity).
      rewrite T1 in Hs1. rewrite T2 in Hs2. unfold tok at 3 in Hs1. unfold tok at 3 in Hs2. cbn [set_rst rst is_done_act] in Hs1, Hs2.
      unfold guard, inflight in Hwg. lia.
    + (* stop() failed: nothing to do *)
      destruct (Hrun _ Ea) as [Hr|Hr]; [|discriminate]. rewrite Hf in Hr. inversion Hr; subst c r0 a0; clear Hr. cbn [negb].
      assert (HP2 : FP ns0 inputs (fset s (w_setrst (fw s) r Done) (fpcv s))).
      { apply FP_setrst; [discriminate|exact HP|]. intros x0 Hx0. assert (x0 = x) by congruence. subst x0.
        right. exists a. unfold fset; cbn [fw fpcv fR flives set_rst rfn rnode rst].
        split; [exact Hf|]. split; [exact Hrn|]. split; [discriminate|]. split; [|split; [intros; discriminate|]].
        - destruct (setrst_static (fw s) r Done a xa Hxa) as (xa' & Hxa' & _ & Hf'). exists xa'. split; [exact Hxa'|congruence].
        - intros _. apply is_pending_setrst; [discriminate|exact Ep]. }
      destruct HP2 as (A & B & C & D). split; [exact HW'|]. split; [exact A|]. split; [|split; [exact B|split; [exact C|exact D]]].
      unfold FW, guard, inflight. unfold fset; cbn [fw fpcv fok w_setrst w_setregs wgneg wg regs].
      split; [exact Hneg|]. pose proof (sum_updf tok (fun x0 => set_rst x0 Done) _ _ _ Hx) as Hs.
      assert (T2 : tok x = 0) by (unfold tok; rewrite Ea; reflexivity). rewrite T2 in Hs. unfold tok at 3 in Hs. cbn [set_rst rst] in Hs.
      unfold guard, inflight in Hwg. lia.
    + destruct (Hrun _ Ea) as [Hr|Hr]; [rewrite Hf in Hr|]; discriminate.
    + destruct (Hrun _ Ea) as [Hr|Hr]; [rewrite Hf in Hr|]; discriminate.
Qed.

Definition wfi (inputs : list nat) (nenv : nat) : Prop := forall x, In x inputs -> x < nenv.

Lemma FW_ext s s1 :
  wg (fw s1) = wg (fw s) -> wgneg (fw s1) = wgneg (fw s) -> regs (fw s1) = regs (fw s) ->
  guard s1 + inflight s1 = guard s + inflight s -> FW s -> FW s1.
Proof. intros H1 H2 H3 H4 [A B]. unfold FW. rewrite H1, H2, H3. split; [exact A|lia]. Qed.

Lemma FK_nonret s :
  is_FRet (fpcv s) = false -> fwait s = WNone -> fucancel s = false -> (hasR (fpcv s) = true -> kR s = false) -> FK s.
Proof.
  intros H1 H2 H3 H4. unfold FK. rewrite H1, H2, H3. split; [auto|]. split; [discriminate|]. split; [discriminate|].
  split; [discriminate|]. split; discriminate.
Qed.

Lemma FK_nonret_inv s : FK s -> is_FRet (fpcv s) = false ->
  fwait s = WNone /\ fucancel s = false /\ (hasR (fpcv s) = true -> kR s = false).
Proof. intros (K1 & _) H. apply K1. exact H. Qed.

Lemma FR_nil s : regs (fw s) = [] -> FR s.
Proof. intros H k x Hx. rewrite H in Hx. destruct k; discriminate. Qed.

Ltac fl_tac := repeat split; try assumption; try reflexivity;
  try (let j := fresh in let x := fresh in let Hj := fresh in intros j x Hj; cbn in Hj; lia);
  try (let x := fresh in let H := fresh in intros x H; solve [destruct H]).

Lemma finv_main_a ns0 inputs s s' :
  wfi inputs (length ns0) -> FInv ns0 inputs s ->
  (fpcv s = F0 \/ fpcv s = F1 \/ fpcv s = F2) ->
  confl_main true true inputs s = Some s' -> FInv ns0 inputs s'.
Proof.
  intros Hwf (HW & HN & HFW & HFR & HFL & HFK) Hpc Hm.
  destruct s as [w pc D R ok lives wt uc]. cbn [fpcv] in Hpc. unfold confl_main in Hm. cbn [fw fpcv fD fR fok flives fwait fucancel] in Hm.
  destruct (FK_nonret_inv _ HFK) as (Hwt & Huc & HkR); [cbn [fpcv]; destruct Hpc as [E|[E|E]]; rewrite E; reflexivity|].
  cbn [fwait fucancel fpcv] in Hwt, Huc, HkR. subst wt uc.
  unfold FN in HN. cbn [fw fpcv fD fR] in HN. destruct HN as [HV HN].
  unfold FL in HFL. cbn [fw fpcv fok flives] in HFL. destruct HFL as (L1 & L2 & L3 & L4 & L5).
  unfold FW, guard, inflight in HFW. cbn [fw fpcv fok] in HFW. destruct HFW as [Hneg Hwg].
  destruct Hpc as [E|[E|E]]; subst pc; destruct L5 as [Hnil Hl0]; subst lives.
  - (* F0 *)
    destruct inputs as [|c0 rest].
    + inversion Hm; subst s'; clear Hm. unfold fset; cbn [fw fpcv fD fR fok flives fwait fucancel].
      split; [exact HW|]. split; [split; [exact HV|exact I]|]. split; [split; [exact Hneg|exact Hwg]|].
      split; [apply FR_nil; exact Hnil|]. split; [|apply FK_nonret; cbn; auto; discriminate].
      unfold FL. cbn [fw fpcv fok flives]. fl_tac.
    + inversion Hm; subst s'; clear Hm.
      split; [apply WInv_addnode; exact HW|]. unfold w_detached, w_addnode; cbn [fw fpcv fD fR fok flives fwait fucancel nodes regs wg wgneg].
      split; [|split; [split; [exact Hneg|exact Hwg]|split; [apply FR_nil; exact Hnil|split; [|apply FK_nonret; cbn; auto; discriminate]]]].
      * unfold FN. cbn [fw fpcv fD fR nodes]. rewrite app_length, <- HN. cbn [length].
        split; [intros x Hx; rewrite vals_of_snoc_old by lia; apply HV; lia|].
        rewrite anc_of_snoc_new, is_canc_snoc_new, vals_of_snoc_new. cbn [anc canc vals].
        repeat (split; [first [lia|reflexivity]|]). intros c Hc. cbn in Hc. inversion Hc; subst c.
        apply HV. apply Hwf. left. reflexivity.
      * unfold FL. cbn [fw fpcv fok flives regs nodes]. fl_tac.
  - (* F1 *)
    destruct HN as (Hlen & HD & Ha & Hk & Hv). subst D. inversion Hm; subst s'; clear Hm.
    split; [apply WInv_addnode; exact HW|]. unfold w_child, w_addnode; cbn [fw fpcv fD fR fok flives fwait fucancel nodes regs wg wgneg].
    split; [|split; [split; [exact Hneg|exact Hwg]|split; [apply FR_nil; exact Hnil|split]]].
    + unfold FN. cbn [fw fpcv fD fR nodes]. rewrite app_length. cbn [length].
      split; [intros x Hx; rewrite vals_of_snoc_old by lia; apply HV; lia|].
      assert (Hlt : length ns0 < length (nodes w)) by lia.
      rewrite (anc_of_snoc_old _ _ _ Hlt), (is_canc_snoc_old _ _ _ Hlt). rewrite <- Hlen.
      rewrite anc_of_snoc_new, vals_of_snoc_new. cbn [anc canc vals]. rewrite Ha.
      repeat (split; [first [lia|reflexivity|assumption]|]). exact Hv.
    + unfold FL. cbn [fw fpcv fok flives regs nodes]. fl_tac.
    + apply FK_nonret; cbn [fpcv fwait fucancel is_FRet hasR]; auto. intros _. unfold kR. cbn [fw fR nodes].
      rewrite is_canc_snoc_new. cbn [canc]. exact Hk.
  - (* F2 *)
    inversion Hm; subst s'; clear Hm. unfold fset; cbn [fw fpcv fD fR fok flives fwait fucancel].
    split; [eapply WInv_nodes_eq; [| |exact HW]; reflexivity|].
    split; [unfold FN; cbn [fw fpcv fD fR w_wgadd nodes]; split; [exact HV|exact HN]|].
    split; [unfold FW, guard, inflight; cbn [fw fpcv fok w_wgadd wg wgneg regs]; split; [exact Hneg|lia]|].
    split; [apply FR_nil; exact Hnil|]. split.
    + unfold FL. cbn [fw fpcv fok flives w_wgadd regs nodes]. fl_tac.
    + apply FK_nonret; cbn [fpcv fwait fucancel is_FRet hasR]; auto.
Qed.

Definition FNR (ns0 : list node) (inputs : list nat) (ns : list node) (D R : nat) : Prop :=
  let nenv := length ns0 in
  (forall x, x < nenv -> vals_of ns x = vals_of ns0 x) /\
  length ns = S (S nenv) /\ D = nenv /\ R = S nenv /\ anc_of ns nenv = [nenv] /\ is_canc ns nenv = false /\
  anc_of ns (S nenv) = [S nenv; nenv] /\
  (forall c0, hd_error inputs = Some c0 -> vals_of ns (S nenv) = vals_of ns0 c0).

Lemma FN_R_iff ns0 inputs s :
  hasR (fpcv s) = true -> (FN ns0 inputs s <-> FNR ns0 inputs (nodes (fw s)) (fD s) (fR s)).
Proof. intros H. unfold FN, FNR. destruct (fpcv s); try discriminate; tauto. Qed.

Lemma FR_ext2 s s1 :
  regs (fw s1) = regs (fw s) -> nodes (fw s1) = nodes (fw s) -> fR s1 = fR s -> incl (flives s) (flives s1) ->
  (forall i k, fpcv s = FRegB i k -> fpcv s1 = FRegB i k) -> FR s -> FR s1.
Proof.
  intros Hr Hn HR Hl Hpc H k x Hx. rewrite Hr in Hx. unfold FR1, kR, is_pending. rewrite Hr, Hn, HR.
  destruct (H k x Hx) as [(A & B & C & D & E)|HB]; [left|right; exact HB].
  split; [exact A|]. split; [apply Hl; exact B|]. split; [exact C|]. split; [exact D|].
  destruct E as [(i & E)|E]; [left; exists i; apply Hpc; exact E|right; exact E].
Qed.

Lemma finv_main_b ns0 inputs s s' :
  wfi inputs (length ns0) -> FInv ns0 inputs s ->
  ((exists i, fpcv s = FLoop i) \/ (exists i, fpcv s = FAdd i) \/ fpcv s = FEnd) ->
  confl_main true true inputs s = Some s' -> FInv ns0 inputs s'.
Proof.
  intros Hwf (HW & HN & HFW & HFR & HFL & HFK) Hpc Hm.
  assert (HhR : hasR (fpcv s) = true) by (destruct Hpc as [[i E]|[[i E]|E]]; rewrite E; reflexivity).
  assert (HnR : is_FRet (fpcv s) = false) by (destruct Hpc as [[i E]|[[i E]|E]]; rewrite E; reflexivity).
  destruct (FK_nonret_inv _ HFK HnR) as (Hwt & Huc & HkR). specialize (HkR HhR).
  apply (FN_R_iff ns0 inputs s HhR) in HN.
  destruct s as [w pc D R ok lives wt uc]. cbn [fpcv] in Hpc. unfold confl_main in Hm. cbn [fw fpcv fD fR fok flives fwait fucancel] in *.
  subst wt uc. unfold kR in HkR. cbn [fw fR] in HkR.
  unfold FL in HFL. cbn [fw fpcv fok flives] in HFL. destruct HFL as (L1 & L2 & L3 & L4 & L5).
  unfold FW, guard, inflight in HFW. cbn [fw fpcv fok] in HFW. destruct HFW as [Hneg Hwg].
  assert (HFN' : forall s1, hasR (fpcv s1) = true -> nodes (fw s1) = nodes w -> fD s1 = D -> fR s1 = R -> FN ns0 inputs s1).
  { intros s1 H1 H2 H3 H4. apply (FN_R_iff ns0 inputs s1 H1). rewrite H2, H3, H4. exact HN. }
  assert (HFK' : forall s1, is_FRet (fpcv s1) = false -> hasR (fpcv s1) = true -> nodes (fw s1) = nodes w -> fR s1 = R ->
                            fwait s1 = WNone -> fucancel s1 = false -> FK s1).
  { intros s1 H1 H2 H3 H4 H5 H6. apply FK_nonret; auto. intros _. unfold kR. rewrite H3, H4. exact HkR. }
  destruct Hpc as [[i E]|[[i E]|E]]; subst pc.
  - (* FLoop i *)
    destruct (nth_error inputs i) as [x|] eqn:Ex.
    + destruct (is_canc (nodes w) x) eqn:Ek; inversion Hm; subst s'; clear Hm.
      * (* already cancelled: skip *)
        unfold fset; cbn [fw fpcv fD fR fok flives fwait fucancel].
        split; [exact HW|]. split; [apply HFN'; reflexivity|]. split; [split; [exact Hneg|exact Hwg]|].
        split; [eapply FR_ext; try exact HFR; try reflexivity; intros; discriminate|]. split; [|apply HFK'; reflexivity].
        unfold FL. cbn [fw fpcv fok flives idx]. split; [exact L1|]. split; [exact L2|]. split; [|split; [|exact I]].
        -- intros x' Hx'. destruct (L3 x' Hx') as [Hl|(i0 & [Hp|Hp] & _)]; [left; exact Hl|discriminate|discriminate].
        -- intros j x' Hj Hx'. destruct (Nat.eq_dec j i) as [->|Hne]; [left; congruence|apply (L4 j x'); [cbn; lia|exact Hx']].
      * (* live: remember it *)
        split; [exact HW|]. split; [apply HFN'; reflexivity|]. split; [split; [exact Hneg|exact Hwg]|].
        split; [eapply FR_ext2; try exact HFR; try reflexivity; [cbn; apply incl_appl, incl_refl|intros; discriminate]|].
        split; [|apply HFK'; reflexivity].
        unfold FL. cbn [fw fpcv fok flives idx]. split; [discriminate|]. split; [|split; [|split]].
        -- intros x' Hx'. apply in_app_or in Hx'. destruct Hx' as [Hx'|[<-|[]]]; [apply L2; exact Hx'|eapply nth_error_In; eauto].
        -- intros x' Hx'. apply in_app_or in Hx'. destruct Hx' as [Hx'|[<-|[]]].
           ++ destruct (L3 x' Hx') as [Hl|(i0 & [Hp|Hp] & _)]; [left; exact Hl|discriminate|discriminate].
           ++ right. exists i. auto.
        -- intros j x' Hj Hx'. destruct (Nat.eq_dec j i) as [->|Hne].
           ++ right. apply in_or_app. right. left. congruence.
           ++ destruct (L4 j x') as [Hl|Hl]; [cbn; lia|exact Hx'|left; exact Hl|right; apply in_or_app; left; exact Hl].
        -- exists x. split; [exact Ex|apply in_or_app; right; left; reflexivity].
    + (* end of loop *)
      inversion Hm; subst s'; clear Hm. unfold fset; cbn [fw fpcv fD fR fok flives fwait fucancel].
      split; [exact HW|]. split; [apply HFN'; reflexivity|]. split; [split; [exact Hneg|exact Hwg]|].
      split; [eapply FR_ext; try exact HFR; try reflexivity; intros; discriminate|]. split; [|apply HFK'; reflexivity].
      unfold FL. cbn [fw fpcv fok flives idx]. split; [exact L1|]. split; [exact L2|]. split; [|split; [|exact I]].
      * intros x' Hx'. destruct (L3 x' Hx') as [Hl|(i0 & [Hp|Hp] & _)]; [left; exact Hl|discriminate|discriminate].
      * intros j x' Hj Hx'. apply nth_error_None in Ex. apply (L4 j x'); [cbn; apply nth_error_lt in Hx'; lia|exact Hx'].
  - (* FAdd i *)
    inversion Hm; subst s'; clear Hm. unfold fset; cbn [fw fpcv fD fR fok flives fwait fucancel].
    split; [eapply WInv_nodes_eq; [| |exact HW]; reflexivity|]. split; [apply HFN'; reflexivity|].
    split; [unfold FW, guard, inflight; cbn [fw fpcv fok w_wgadd wg wgneg regs]; split; [exact Hneg|lia]|].
    split; [eapply FR_ext; try exact HFR; try reflexivity; intros; discriminate|]. split; [|apply HFK'; reflexivity].
    unfold FL. cbn [fw fpcv fok flives idx w_wgadd regs nodes]. split; [exact L1|]. split; [exact L2|]. split; [|split; [exact L4|exact L5]].
    intros x' Hx'. destruct (L3 x' Hx') as [Hl|(i0 & [Hp|Hp] & Hi0)]; [left; exact Hl| |discriminate].
    inversion Hp; subst i0. right. exists i. auto.
  - (* FEnd *)
    destruct ok eqn:Eok; inversion Hm; subst s'; clear Hm; unfold fset; cbn [fw fpcv fD fR fok flives fwait fucancel];
      (split; [exact HW|]); (split; [apply HFN'; reflexivity|]); (split; [split; [exact Hneg|exact Hwg]|]);
      (split; [eapply FR_ext; try exact HFR; try reflexivity; intros; discriminate|]); (split; [|apply HFK'; reflexivity]);
      unfold FL; cbn [fw fpcv fok flives idx]; (split; [exact L1|]); (split; [exact L2|]); (split; [|split; [exact L4|reflexivity]]);
      intros x' Hx'; (destruct (L3 x' Hx') as [Hl|(i0 & [Hp|Hp] & _)]; [left; exact Hl|discriminate|discriminate]).
Qed.

Lemma is_pending_afterfunc_old w n f a :
  a < length (regs w) -> is_pending (w_afterfunc w n f) a = is_pending w a.
Proof. intros H. unfold is_pending. cbn [w_afterfunc regs]. rewrite nth_error_snoc_old by exact H. reflexivity. Qed.

Lemma finv_main_c ns0 inputs s s' :
  wfi inputs (length ns0) -> FInv ns0 inputs s ->
  ((exists i, fpcv s = FRegA i) \/ (exists i a, fpcv s = FRegB i a)) ->
  confl_main true true inputs s = Some s' -> FInv ns0 inputs s'.
Proof.
  intros Hwf (HW & HN & HFW & HFR & HFL & HFK) Hpc Hm.
  assert (HhR : hasR (fpcv s) = true) by (destruct Hpc as [[i E]|[i [a E]]]; rewrite E; reflexivity).
  assert (HnR : is_FRet (fpcv s) = false) by (destruct Hpc as [[i E]|[i [a E]]]; rewrite E; reflexivity).
  destruct (FK_nonret_inv _ HFK HnR) as (Hwt & Huc & HkR). specialize (HkR HhR).
  apply (FN_R_iff ns0 inputs s HhR) in HN.
  destruct s as [w pc D R ok lives wt uc]. cbn [fpcv] in Hpc. unfold confl_main in Hm. cbn [fw fpcv fD fR fok flives fwait fucancel] in *.
  subst wt uc. unfold kR in HkR. cbn [fw fR] in HkR.
  unfold FL in HFL. cbn [fw fpcv fok flives] in HFL. destruct HFL as (L1 & L2 & L3 & L4 & L5).
  unfold FW, guard, inflight in HFW. cbn [fw fpcv fok] in HFW. destruct HFW as [Hneg Hwg].
  assert (HFN' : forall s1, hasR (fpcv s1) = true -> nodes (fw s1) = nodes w -> fD s1 = D -> fR s1 = R -> FN ns0 inputs s1).
  { intros s1 H1 H2 H3 H4. apply (FN_R_iff ns0 inputs s1 H1). rewrite H2, H3, H4. exact HN. }
  assert (HFK' : forall s1, is_FRet (fpcv s1) = false -> hasR (fpcv s1) = true -> nodes (fw s1) = nodes w -> fR s1 = R ->
                            fwait s1 = WNone -> fucancel s1 = false -> FK s1).
  { intros s1 H1 H2 H3 H4 H5 H6. apply FK_nonret; auto. intros _. unfold kR. rewrite H3, H4. exact HkR. }
  destruct HN as (HV & Hlen & HD & HRr & _).
  (* an old registration keeps its invariant when one more registration is appended *)
  assert (Hold : forall n f pc' k y, nth_error (regs w) k = Some y ->
            (forall i0, pc = FRegB i0 k -> exists b yb, nth_error (regs (w_afterfunc w n f)) b = Some yb /\ rfn yb = FChain true k AWgDone) ->
            FR1 {| fw := w_afterfunc w n f; fpcv := pc'; fD := D; fR := R; fok := ok; flives := lives; fwait := WNone; fucancel := false |} k y).
  { intros n f pc' k y Hy Hp. unfold FR1, kR. cbn [fw fpcv fR flives w_afterfunc nodes].
    destruct (HFR k y Hy) as [(A & B & C & D' & E)|(a & A & B & C & (xa & Hxa & Hxaf) & E & F)]; [left|right].
    - repeat (split; [assumption|]). right. destruct E as [(i0 & E)|(b & yb & Hyb & Hybf)].
      + cbn [fpcv] in E. apply (Hp i0 E).
      + exists b, yb. split; [cbn [fw w_afterfunc regs]; rewrite nth_error_snoc_old; [exact Hyb|eapply nth_error_lt; eauto]|exact Hybf].
    - exists a. repeat (split; [assumption|]). split; [|split; [exact E|]].
      + exists xa. split; [cbn [fw w_afterfunc regs]; rewrite nth_error_snoc_old; [exact Hxa|eapply nth_error_lt; eauto]|exact Hxaf].
      + intros Hd. change (is_pending (w_afterfunc w n f) a = false).
        rewrite is_pending_afterfunc_old by (eapply nth_error_lt; eauto). apply F. exact Hd. }
  destruct Hpc as [[i E]|[i [a E]]]; subst pc.
  - (* FRegA i *)
    destruct L5 as (x0 & Hx0 & Hx0l). rewrite Hx0 in Hm. inversion Hm; subst s'; clear Hm.
    unfold fset; cbn [fw fpcv fD fR fok flives fwait fucancel].
    assert (Hxlt : x0 < length (nodes w)) by (specialize (Hwf x0 (nth_error_In _ _ Hx0)); lia).
    split; [apply WInv_afterfunc; assumption|]. split; [apply HFN'; reflexivity|]. split; [|split; [|split; [|apply HFK'; reflexivity]]].
    + unfold FW, guard, inflight. cbn [fw fpcv fok w_afterfunc wg wgneg regs]. split; [exact Hneg|]. rewrite sum_snoc.
      assert (Ht : tok {| rnode := x0; rfn := FAct AWgDone; rst := if is_canc (nodes w) x0 then Run (FAct AWgDone) else Pending |} = 1)
        by (unfold tok; cbn [rst rfn]; destruct (is_canc (nodes w) x0); reflexivity).
      rewrite Ht. lia.
    + intros k y Hy. cbn [fw w_afterfunc regs] in Hy. apply nth_error_snoc_inv in Hy. destruct Hy as [[_ Hy]|[-> ->]].
      * apply Hold; [exact Hy|]. intros; discriminate.
      * left. unfold kR. cbn [fw fpcv fR flives rfn rnode rst].
        split; [reflexivity|]. split; [exact Hx0l|]. split; [|split; [|left; exists i; reflexivity]].
        -- intros f Hf. destruct (is_canc (nodes w) x0); congruence.
        -- intros Hs. destruct (is_canc (nodes w) x0); discriminate.
    + unfold FL. cbn [fw fpcv fok flives idx w_afterfunc regs nodes]. split; [exact L1|]. split; [exact L2|]. split; [|split; [exact L4|]].
      * intros x' Hx'. left. destruct (L3 x' Hx') as [(k & y & Hy & Hyf & Hyn)|(i0 & [Hp|Hp] & Hi0)]; [|discriminate|].
        -- exists k, y. split; [rewrite nth_error_snoc_old; [exact Hy|eapply nth_error_lt; eauto]|auto].
        -- inversion Hp; subst i0. exists (length (regs w)). eexists. split; [apply nth_error_snoc_new|]. cbn. split; [reflexivity|congruence].
      * split; [exists x0; auto|]. eexists. split; [apply nth_error_snoc_new|reflexivity].
  - (* FRegB i a *)
    destruct L5 as ((x0 & Hx0 & Hx0l) & xa & Hxa & Hxaf). inversion Hm; subst s'; clear Hm.
    unfold fset; cbn [fw fpcv fD fR fok flives fwait fucancel].
    split; [apply WInv_afterfunc; [exact HW|lia]|]. split; [apply HFN'; reflexivity|]. split; [|split; [|split; [|apply HFK'; reflexivity]]].
    + unfold FW, guard, inflight. cbn [fw fpcv fok w_afterfunc wg wgneg regs]. split; [exact Hneg|]. rewrite sum_snoc, HkR.
      unfold tok at 2. cbn [rst rfn is_done_act]. lia.
    + intros k y Hy. cbn [fw w_afterfunc regs] in Hy. apply nth_error_snoc_inv in Hy. destruct Hy as [[_ Hy]|[-> ->]].
      * apply Hold; [exact Hy|]. intros i0 Hp. inversion Hp; subst i0 k.
        exists (length (regs w)). eexists. split; [cbn [w_afterfunc regs]; apply nth_error_snoc_new|reflexivity].
      * right. exists a. cbn [fw fpcv fR flives rfn rnode rst w_afterfunc regs]. rewrite HkR.
        split; [reflexivity|]. split; [reflexivity|]. split; [discriminate|]. split; [|split; [intros; discriminate|intros [H|H]; discriminate]].
        exists xa. split; [rewrite nth_error_snoc_old; [exact Hxa|eapply nth_error_lt; eauto]|exact Hxaf].
    + unfold FL. cbn [fw fpcv fok flives idx w_afterfunc regs nodes]. split; [exact L1|]. split; [exact L2|]. split; [|split; [exact L4|exact I]].
      intros x' Hx'. left. destruct (L3 x' Hx') as [(k & y & Hy & Hyf & Hyn)|(i0 & [Hp|Hp] & Hi0)]; [|discriminate|discriminate].
      exists k, y. split; [rewrite nth_error_snoc_old; [exact Hy|eapply nth_error_lt; eauto]|auto].
Qed.

Lemma FN_fR ns0 inputs s : FN ns0 inputs s -> hasR (fpcv s) = true -> fR s = S (length ns0).
Proof. intros HN Hh. apply (FN_R_iff _ _ _ Hh) in HN. destruct HN as (_ & _ & _ & H & _). exact H. Qed.

Lemma FN_hasR_transfer ns0 inputs s s1 :
  hasR (fpcv s) = true -> hasR (fpcv s1) = true -> nodes (fw s1) = nodes (fw s) -> fD s1 = fD s -> fR s1 = fR s ->
  FN ns0 inputs s -> FN ns0 inputs s1.
Proof. intros H H1 Hn HD HR HN. apply (FN_R_iff ns0 inputs s1 H1). rewrite Hn, HD, HR. apply (FN_R_iff ns0 inputs s H). exact HN. Qed.

Lemma FL_pc inputs s s1 :
  regs (fw s1) = regs (fw s) -> nodes (fw s1) = nodes (fw s) -> fok s1 = fok s -> flives s1 = flives s ->
  idx inputs (fpcv s1) = idx inputs (fpcv s) ->
  (forall i, fpcv s <> FAdd i /\ fpcv s <> FRegA i) ->
  match fpcv s1 with FEnd | FRet | FLoop _ => True | FDoneG | FSpawn => fok s = true | FDefer => fok s = false | _ => False end ->
  FL inputs s -> FL inputs s1.
Proof.
  intros Hw Hw2 Hok Hl Hidx Hno Hpc (L1 & L2 & L3 & L4 & L5). unfold FL. rewrite Hw, Hw2, Hok, Hl, Hidx.
  split; [exact L1|]. split; [exact L2|]. split; [|split; [exact L4|]].
  - intros x Hx. destruct (L3 x Hx) as [Hleft|(i & [Hp|Hp] & _)]; [left; exact Hleft| |]; exfalso; destruct (Hno i); auto.
  - destruct (fpcv s1); try contradiction; auto.
Qed.

Lemma finv_main_d ns0 inputs s s' :
  FInv ns0 inputs s -> (fpcv s = FDefer \/ fpcv s = FDoneG \/ fpcv s = FSpawn) ->
  confl_main true true inputs s = Some s' -> FInv ns0 inputs s'.
Proof.
  intros HI Hpc Hm. pose proof HI as (HW & HN & HFW & HFR & HFL & HFK).
  assert (HhR : hasR (fpcv s) = true) by (destruct Hpc as [E|[E|E]]; rewrite E; reflexivity).
  assert (HnR : is_FRet (fpcv s) = false) by (destruct Hpc as [E|[E|E]]; rewrite E; reflexivity).
  destruct (FK_nonret_inv _ HFK HnR) as (Hwt & Huc & HkR). specialize (HkR HhR).
  pose proof (FN_fR _ _ _ HN HhR) as HRr.
  unfold confl_main in Hm. destruct Hpc as [E|[E|E]]; rewrite E in Hm; inversion Hm; subst s'; clear Hm.
  - (* FDefer: the deferred cancel of the early return *)
    destruct (fcancel_parts ns0 inputs s (fR s) HW HN HFW HFR HFL (or_intror (conj HRr HhR))) as (A & B & C & D & F & Hm & _ & Hk).
    specialize (Hk HRr HhR). set (s1 := fset s (w_cancel (fw s) (fR s)) (fpcv s)) in *.
    assert (Hok : fok s = false) by (destruct HFL as (_ & _ & _ & _ & L5); rewrite E in L5; exact L5).
    split; [exact A|]. split; [|split; [|split; [|split]]].
    + eapply (FN_hasR_transfer ns0 inputs s1); try exact B; try reflexivity; exact HhR.
    + eapply FW_ext; try exact C; try reflexivity. unfold guard, inflight, s1, fset. cbn [fpcv fok]. rewrite E, Hok. reflexivity.
    + eapply FR_ext; try exact D; try reflexivity. intros i k Hp. unfold s1, fset in Hp. cbn [fpcv] in Hp. congruence.
    + apply (FL_pc inputs s1); [reflexivity|reflexivity|reflexivity|reflexivity| | | |exact F].
      * unfold s1, fset. cbn [fpcv]. rewrite E. reflexivity.
      * intros i. unfold s1, fset. cbn [fpcv]. rewrite E. split; discriminate.
      * exact I.
    + unfold FK, fset. cbn [fpcv fok fwait fucancel is_FRet]. unfold kR in *. unfold s1, fset in Hk. cbn [fw fR] in *.
      split; [discriminate|]. split; [|split; [intros _; exact Hk|split; [intros _; exact Hk|split; [intros _ _; auto|intros _ Hc; congruence]]]].
      intros _ _. right. intros x Hx. destruct HFL as (L1 & _). rewrite (L1 Hok) in Hx. destruct Hx.
  - (* FDoneG: release the guard count *)
    destruct HFW as [Hneg Hwg]. unfold guard, inflight in Hwg. rewrite E in Hwg.
    destruct (wg (fw s)) as [|k] eqn:Ewg; [lia|].
    assert (Ew1 : w_act (fw s) AWgDone = {| nodes := nodes (fw s); regs := regs (fw s); calls := calls (fw s); wg := k; wgneg := wgneg (fw s) |})
      by (cbn [w_act]; rewrite Ewg; reflexivity).
    assert (Hok : fok s = true) by (destruct HFL as (_ & _ & _ & _ & L5); rewrite E in L5; exact L5).
    split; [eapply WInv_nodes_eq; [| |exact HW]; reflexivity|]. split; [|split; [|split; [|split]]].
    + eapply (FN_hasR_transfer ns0 inputs s); try exact HN; try reflexivity; exact HhR.
    + unfold FW, guard, inflight, fset. cbn [fw fpcv fok wg wgneg regs]. split; [exact Hneg|lia].
    + eapply FR_ext; try exact HFR; try reflexivity. intros i k' Hp. congruence.
    + apply (FL_pc inputs s); [reflexivity|reflexivity|reflexivity|reflexivity| | | |exact HFL].
      * unfold fset. cbn [fpcv]. rewrite E. reflexivity.
      * intros i. rewrite E. split; discriminate.
      * exact Hok.
    + apply FK_nonret; unfold fset; cbn [fpcv fwait fucancel is_FRet hasR]; auto.
  - (* FSpawn: start the waiter *)
    assert (Hok : fok s = true) by (destruct HFL as (_ & _ & _ & _ & L5); rewrite E in L5; exact L5).
    split; [exact HW|]. split; [|split; [|split; [|split]]].
    + eapply (FN_hasR_transfer ns0 inputs s); try exact HN; try reflexivity; exact HhR.
    + eapply FW_ext; try exact HFW; try reflexivity. unfold guard, inflight. cbn [fpcv fok]. rewrite E, Hok. reflexivity.
    + eapply FR_ext; try exact HFR; try reflexivity. intros i k' Hp. congruence.
    + apply (FL_pc inputs s); [reflexivity|reflexivity|reflexivity|reflexivity| | | |exact HFL].
      * cbn [fpcv]. rewrite E. reflexivity.
      * intros i. rewrite E. split; discriminate.
      * exact I.
    + unfold FK. cbn [fpcv fok fwait fucancel is_FRet]. unfold kR in *. cbn [fw fR].
      split; [discriminate|]. split; [|split; [intros Hc; congruence|split; [discriminate|split; [intros _ Hc; congruence|intros _ _; discriminate]]]].
      intros _ [Hc|[Hc|Hc]]; [congruence|discriminate|discriminate].
Qed.

Lemma finv_user ns0 inputs s :
  FInv ns0 inputs s -> fpcv s = FRet ->
  FInv ns0 inputs {| fw := w_cancel (fw s) (fR s); fpcv := FRet; fD := fD s; fR := fR s; fok := fok s;
                     flives := flives s; fwait := fwait s; fucancel := true |}.
Proof.
  intros (HW & HN & HFW & HFR & HFL & HFK) E.
  assert (HhR : hasR (fpcv s) = true) by (rewrite E; reflexivity).
  pose proof (FN_fR _ _ _ HN HhR) as HRr.
  destruct (fcancel_parts ns0 inputs s (fR s) HW HN HFW HFR HFL (or_intror (conj HRr HhR))) as (A & B & C & D & F & Hm & _ & Hk).
  specialize (Hk HRr HhR). set (s1 := fset s (w_cancel (fw s) (fR s)) (fpcv s)) in *.
  split; [exact A|]. split; [|split; [|split; [|split]]].
  - eapply (FN_hasR_transfer ns0 inputs s1); try exact B; try reflexivity; exact HhR.
  - eapply FW_ext; try exact C; try reflexivity. unfold guard, inflight, s1, fset. cbn [fpcv fok]. rewrite E. reflexivity.
  - eapply FR_ext; try exact D; try reflexivity. intros i k Hp. unfold s1, fset in Hp. cbn [fpcv] in Hp. congruence.
  - eapply FL_ext; try exact F; try reflexivity. unfold s1, fset. cbn [fpcv]. exact (eq_sym E).
  - destruct HFK as (K1 & K2 & K3 & K4 & K5 & K6). rewrite E in *. cbn [is_FRet] in *.
    unfold FK. cbn [fpcv fok fwait fucancel is_FRet]. unfold kR in *. unfold s1, fset in Hk. cbn [fw fR] in *.
    split; [discriminate|]. split; [intros _ _; left; reflexivity|]. split; [intros _; exact Hk|]. split; [intros _; exact Hk|].
    split; [intros _ Hok; split; [exact Hk|apply (K5 eq_refl Hok)]|exact K6].
Qed.

Lemma finv_waiter ns0 inputs s s' :
  FInv ns0 inputs s -> confl_step true true inputs (length ns0) s LWaiter = Some s' -> FInv ns0 inputs s'.
Proof.
  intros (HW & HN & HFW & HFR & HFL & HFK) Hs. cbn [confl_step] in Hs.
  destruct HFK as (K1 & K2 & K3 & K4 & K5 & K6).
  assert (E : fwait s <> WNone -> fpcv s = FRet).
  { intros Hne. destruct (is_FRet (fpcv s)) eqn:Ef; [destruct (fpcv s); try discriminate; reflexivity|].
    destruct (K1 eq_refl) as (Hc & _). congruence. }
  destruct (fwait s) eqn:Ewt; try discriminate.
  - (* wg.Wait() returns *)
    destruct (Nat.eqb_spec (wg (fw s)) 0) as [Hz|Hz]; [|discriminate]. inversion Hs; subst s'; clear Hs.
    specialize (E ltac:(discriminate)). rewrite E in *. cbn [is_FRet] in *.
    split; [exact HW|]. split; [|split; [|split; [|split]]].
    + eapply (FN_hasR_transfer ns0 inputs s); try exact HN; try reflexivity; rewrite E; reflexivity.
    + eapply FW_ext; try exact HFW; try reflexivity. unfold guard, inflight. cbn [fpcv fok]. rewrite E. reflexivity.
    + eapply FR_ext; try exact HFR; try reflexivity. intros i k Hp. congruence.
    + eapply FL_ext; try exact HFL; try reflexivity. cbn [fpcv]. exact (eq_sym E).
    + unfold FK. cbn [fpcv fok fwait fucancel is_FRet]. unfold kR in *. cbn [fw fR].
      split; [discriminate|]. split; [|split; [exact K3|split; [discriminate|split; [|intros _ _; discriminate]]]].
      * intros _ _. destruct (is_canc (nodes (fw s)) (fR s)) eqn:EkR; [apply (K2 eq_refl); left; reflexivity|].
        right. intros x Hx. destruct HFW as [_ Hwg]. unfold guard, inflight in Hwg. rewrite E in Hwg.
        destruct HFL as (_ & _ & L3 & _). destruct (L3 x Hx) as [(k & y & Hy & Hyf & Hyn)|(i & [Hp|Hp] & _)]; [|congruence|congruence].
        pose proof (sum_ge tok _ _ _ Hy) as Hge. assert (Ht : tok y = 0) by lia.
        destruct (FR1_A_of_fn s k y (HFR k y Hy) Hyf) as (_ & Hrun & Hst & _).
        destruct (HW k y Hy) as (_ & _ & Hf). rewrite <- Hyn. apply Hf.
        unfold tok in Ht. destruct (rst y) eqn:Er.
        -- rewrite Hyf in Ht. discriminate.
        -- specialize (Hst eq_refl). unfold kR in Hst. congruence.
        -- rewrite (Hrun f eq_refl) in Ht. discriminate.
        -- right. exact Er.
      * intros _ Hok. destruct (K5 eq_refl Hok) as [_ Hc]. discriminate.
  - (* combined cancel *)
    inversion Hs; subst s'; clear Hs. specialize (E ltac:(discriminate)).
    assert (HhR : hasR (fpcv s) = true) by (rewrite E; reflexivity).
    pose proof (FN_fR _ _ _ HN HhR) as HRr.
    destruct (fcancel_parts ns0 inputs s (fR s) HW HN HFW HFR HFL (or_intror (conj HRr HhR))) as (A & B & C & D & F & Hm & _ & Hk).
    specialize (Hk HRr HhR). set (s1 := fset s (w_cancel (fw s) (fR s)) (fpcv s)) in *.
    rewrite E in K1, K2, K5, K6. cbn [is_FRet] in *.
    split; [exact A|]. split; [|split; [|split; [|split]]].
    + eapply (FN_hasR_transfer ns0 inputs s1); try exact B; try reflexivity; exact HhR.
    + eapply FW_ext; try exact C; try reflexivity.
    + eapply FR_ext; try exact D; try reflexivity. intros i k Hp; exact Hp.
    + eapply FL_ext; try exact F; try reflexivity.
    + unfold FK. cbn [fpcv fok fwait fucancel]. rewrite E. cbn [is_FRet]. unfold kR in *. unfold s1, fset in Hk. cbn [fw fR] in *.
      split; [discriminate|]. split; [|split; [intros _; exact Hk|split; [intros _; exact Hk|split; [|intros _ _; discriminate]]]].
      * intros _ _. destruct (K2 eq_refl (or_intror (or_introl eq_refl))) as [Hu|Hd]; [left; exact Hu|right].
        intros x Hx. apply Hm. apply Hd. exact Hx.
      * intros _ Hok. destruct (K5 eq_refl Hok) as [_ Hc]. discriminate.
Qed.

Lemma confl_step_inv ns0 inputs s l s' :
  wfi inputs (length ns0) -> FInv ns0 inputs s ->
  confl_step true true inputs (length ns0) s l = Some s' -> FInv ns0 inputs s'.
Proof.
  intros Hwf HI Hs. destruct l as [|r|n| |].
  - cbn [confl_step] in Hs. destruct (fpcv s) eqn:E.
    + eapply finv_main_a; eauto.
    + eapply finv_main_a; eauto.
    + eapply finv_main_a; eauto.
    + eapply finv_main_b; eauto.
    + eapply finv_main_b; eauto.
    + eapply finv_main_c; eauto.
    + eapply finv_main_c; eauto.
    + eapply finv_main_b; eauto.
    + eapply finv_main_d; eauto.
    + eapply finv_main_d; eauto.
    + eapply finv_main_d; eauto.
    + unfold confl_main in Hs. rewrite E in Hs. discriminate.
    + unfold confl_main in Hs. rewrite E in Hs. discriminate.
  - cbn [confl_step] in Hs. destruct (w_hook (fw s) r) as [w'|] eqn:Eh; [|discriminate]. inversion Hs; subst s'.
    eapply finv_hook; eauto.
  - cbn [confl_step] in Hs. destruct (Nat.ltb_spec n (length ns0)) as [Hn|Hn]; [|discriminate]. inversion Hs; subst s'.
    apply finv_envcancel; assumption.
  - cbn [confl_step] in Hs. destruct (fpcv s) eqn:E; try discriminate. inversion Hs; subst s'. apply finv_user; assumption.
  - eapply finv_waiter; eauto.
Qed.

Lemma confl_reach ns0 inputs sched :
  wfi inputs (length ns0) ->
  FInv ns0 inputs (run (confl_step true true inputs (length ns0)) (confl_init ns0) sched).
Proof.
  intros Hwf. apply run_inv with (P := FInv ns0 inputs).
  - intros s l s'. apply confl_step_inv. exact Hwf.
  - split; [apply WInv_init|]. split; [split; [auto|reflexivity]|]. split; [split; reflexivity|]. split; [apply FR_nil; reflexivity|].
    split; [|apply FK_nonret; cbn; auto; discriminate].
    unfold FL. cbn. fl_tac.
Qed.

(* wg.Done is never called on a zero counter (Go would panic: "sync: negative WaitGroup counter") *)
Theorem confl_wg_never_negative ns0 inputs sched :
  wfi inputs (length ns0) ->
  wgneg (fw (run (confl_step true true inputs (length ns0)) (confl_init ns0) sched)) = false.
Proof. intros Hwf. destruct (confl_reach ns0 inputs sched Hwf) as (_ & _ & [H _] & _). exact H. Qed.

Lemma lives_inputs ns0 inputs s :
  FInv ns0 inputs s -> fpcv s = FRet ->
  ((forall x, In x (flives s) -> is_canc (nodes (fw s)) x = true) <-> (forall x, In x inputs -> is_canc (nodes (fw s)) x = true)).
Proof.
  intros (_ & _ & _ & _ & (_ & L2 & _ & L4 & _) & _) E. split.
  - intros H x Hx. apply In_nth_error in Hx. destruct Hx as [j Hj].
    destruct (L4 j x) as [Hk|Hl]; [rewrite E; cbn; eapply nth_error_lt; eauto|exact Hj|exact Hk|apply H; exact Hl].
  - intros H x Hx. apply H. apply L2. exact Hx.
Qed.

(* the result is never cancelled during construction, and after return it is cancelled only if the returned cancel was
   called or every input is cancelled: it stays live while at least one input is live *)
Theorem confl_live_while_any_live ns0 inputs sched :
  wfi inputs (length ns0) ->
  let s := run (confl_step true true inputs (length ns0)) (confl_init ns0) sched in
  hasR (fpcv s) = true -> kR s = true ->
  fpcv s = FRet /\ (fucancel s = true \/ forall x, In x inputs -> is_canc (nodes (fw s)) x = true).
Proof.
  intros Hwf s Hh Hk. pose proof (confl_reach ns0 inputs sched Hwf) as HI. fold s in HI.
  pose proof HI as (_ & _ & _ & _ & _ & (K1 & K2 & _)).
  destruct (is_FRet (fpcv s)) eqn:Ef.
  - assert (E : fpcv s = FRet) by (destruct (fpcv s); try discriminate; reflexivity). split; [exact E|].
    destruct (K2 eq_refl (or_introl Hk)) as [Hu|Hd]; [left; exact Hu|right]. apply (lives_inputs ns0 inputs s HI E). exact Hd.
  - destruct (K1 eq_refl) as (_ & _ & Hc). rewrite (Hc Hh) in Hk. discriminate.
Qed.

Lemma sum_zero {A : Type} (g : A -> nat) (l : list A) :
  (forall k y, nth_error l k = Some y -> g y = 0) -> list_sum (map g l) = 0.
Proof.
  induction l as [|y t IH]; intros H; [reflexivity|]. cbn [map]. rewrite list_sum_cons.
  rewrite (H 0 y eq_refl). rewrite IH; [reflexivity|]. intros k z Hz. apply (H (S k) z Hz).
Qed.

Lemma confl_quiescent_inv s : confl_quiescent s = true ->
  fpcv s = FRet /\ no_running (fw s) = true /\ waiter_idle s = true.
Proof.
  unfold confl_quiescent. destruct (fpcv s); try discriminate. intros H. apply andb_prop in H. tauto.
Qed.

(* once every hook goroutine and the waiter have run: cancelled if the cancel function was called or all inputs are cancelled *)
Theorem confl_cancelled_when_all_dead ns0 inputs sched :
  wfi inputs (length ns0) ->
  let s := run (confl_step true true inputs (length ns0)) (confl_init ns0) sched in
  confl_quiescent s = true ->
  (fucancel s = true \/ forall x, In x inputs -> is_canc (nodes (fw s)) x = true) -> kR s = true.
Proof.
  intros Hwf s Hq Hsrc. pose proof (confl_reach ns0 inputs sched Hwf) as HI. fold s in HI.
  destruct (confl_quiescent_inv s Hq) as (E & Hnr & Hidle).
  pose proof HI as (HW & _ & [_ Hwg] & HFR & (_ & L2 & _) & (_ & _ & K3 & K4 & K5 & K6)).
  rewrite E in K5, K6. cbn [is_FRet] in K5, K6.
  destruct Hsrc as [Hu|Hall]; [apply K3; exact Hu|].
  destruct (fok s) eqn:Eok; [|apply (K5 eq_refl eq_refl)].
  specialize (K6 eq_refl eq_refl). unfold waiter_idle in Hidle.
  destruct (fwait s) eqn:Ew; try congruence; [|apply K4; reflexivity].
  exfalso. unfold guard, inflight in Hwg. rewrite E, Eok in Hwg.
  rewrite sum_zero in Hwg; [rewrite Hwg in Hidle; discriminate|].
  intros k y Hy. pose proof (proj1 (no_running_spec (fw s)) Hnr k y Hy) as Hny.
  destruct (HW k y Hy) as (_ & Hp & _).
  unfold tok. destruct (rst y) eqn:Er; try reflexivity; [|exfalso; apply (Hny f); reflexivity].
  destruct (HFR k y Hy) as [(Hf & Hin & _)|(a & Hf & _)]; [|rewrite Hf; reflexivity].
  specialize (Hp eq_refl). rewrite (Hall _ (L2 _ Hin)) in Hp. discriminate.
Qed.

(* the waiter goroutine never outlives the result: once the result is cancelled and everything has run, it has exited
   (or was never started because no input was live) *)
Theorem confl_waiter_exits ns0 inputs sched :
  wfi inputs (length ns0) ->
  let s := run (confl_step true true inputs (length ns0)) (confl_init ns0) sched in
  confl_quiescent s = true -> kR s = true ->
  (fok s = true /\ fwait s = WExit) \/ (fok s = false /\ fwait s = WNone).
Proof.
  intros Hwf s Hq Hk. pose proof (confl_reach ns0 inputs sched Hwf) as HI. fold s in HI.
  destruct (confl_quiescent_inv s Hq) as (E & Hnr & Hidle).
  pose proof HI as (HW & _ & [_ Hwg] & HFR & _ & (_ & _ & K3 & K4 & K5 & K6)).
  rewrite E in K5, K6. cbn [is_FRet] in K5, K6.
  destruct (fok s) eqn:Eok; [left|right; split; [reflexivity|apply (K5 eq_refl eq_refl)]].
  split; [reflexivity|]. specialize (K6 eq_refl eq_refl). unfold waiter_idle in Hidle.
  destruct (fwait s) eqn:Ew; try congruence.
  exfalso. unfold guard, inflight in Hwg. rewrite E, Eok in Hwg.
  rewrite sum_zero in Hwg; [rewrite Hwg in Hidle; discriminate|].
  assert (Hnr' : forall k y, nth_error (regs (fw s)) k = Some y -> forall f, rst y <> Run f)
    by (apply no_running_spec; exact Hnr).
  intros k y Hy. unfold tok. destruct (rst y) eqn:Er; try reflexivity; [|exfalso; apply (Hnr' k y Hy f); exact Er].
  destruct (HFR k y Hy) as [(Hf & _ & _ & _ & Hpart)|(a & Hf & _)]; [|rewrite Hf; reflexivity].
  exfalso. destruct Hpart as [(i & Hpc)|(b & yb & Hyb & Hybf)]; [congruence|].
  destruct (HFR b yb Hyb) as [(Hfb & _)|(a & Hfb & Hrn & Hns & _ & _ & Hfin)]; [congruence|].
  rewrite Hybf in Hfb. inversion Hfb; subst a.
  destruct (HW b yb Hyb) as (_ & Hpb & _). rewrite Hrn in Hpb. unfold kR in Hk.
  assert (Hd : rst yb = Done).
  { destruct (rst yb) eqn:Eb; [specialize (Hpb eq_refl); congruence|congruence|exfalso; apply (Hnr' b yb Hyb f); exact Eb|reflexivity]. }
  specialize (Hfin (or_intror Hd)).
  assert (is_pending (fw s) k = true) by (apply is_pending_spec; eauto). congruence.
Qed.

(* only the first input's values *)
Theorem confl_values ns0 inputs sched :
  wfi inputs (length ns0) ->
  let s := run (confl_step true true inputs (length ns0)) (confl_init ns0) sched in
  fpcv s = FRet -> forall c0, hd_error inputs = Some c0 -> vals_of (nodes (fw s)) (fR s) = vals_of ns0 c0.
Proof.
  intros Hwf s E c0 Hc. destruct (confl_reach ns0 inputs sched Hwf) as (_ & HN & _). fold s in HN.
  apply (FN_R_iff ns0 inputs s) in HN; [|rewrite E; reflexivity].
  destruct HN as (_ & _ & _ & HR & _ & _ & _ & Hv). rewrite HR. apply Hv. exact Hc.
Qed.

Definition two_roots : list node := build_env [ {| eparent := None; ekv := Some (1, 10) |}; {| eparent := None; ekv := Some (1, 11) |} ] [].

(* DEFECT variant (detach = false: WithCancel(contexts[0]) without WithoutCancel): the result dies with the first input
   although the second is live and cancel() was not called *)
Theorem confl_nodetach_refuted :
  exists sched,
    let s := run (confl_step false true [0; 1] 2) (confl_init two_roots) sched in
    fpcv s = FRet /\ kR s = true /\ fucancel s = false /\ In 1 (flives s) /\ is_canc (nodes (fw s)) 1 = false.
Proof.
  exists (repeat LMain 15 ++ [LCancel 0]). vm_compute. repeat split; auto.
Qed.

(* DEFECT variant (consult = false): ChainAfterFunc's primary hook calls wg.Done although stop() failed: double Done *)
Theorem confl_noconsult_refuted :
  exists sched, wgneg (fw (run (confl_step true false [0] 2) (confl_init two_roots) sched)) = true.
Proof.
  exists (repeat LMain 12 ++ [LCancel 0; LUser; LHook 0; LHook 1; LHook 1]). vm_compute. reflexivity.
Qed.

Example confl_stays_live_then_dies :
  let step := confl_step true true [0; 1] 2 in
  let s0 := confl_settle true true [0; 1] 2 60 (confl_init two_roots) in
  let s1 := confl_settle true true [0; 1] 2 60 (run step s0 [LCancel 0]) in
  let s2 := confl_settle true true [0; 1] 2 60 (run step s1 [LCancel 1]) in
  confl_quiescent s0 = true /\ kR s0 = false /\ confl_quiescent s1 = true /\ kR s1 = false /\
  confl_quiescent s2 = true /\ kR s2 = true /\ fwait s2 = WExit /\ wg (fw s2) = 0 /\
  lookup (vals_of (nodes (fw s2)) (fR s2)) 1 = Some 10.
Proof. vm_compute. repeat split; reflexivity. Qed.

(* an input cancelled between its Err() check and its AfterFunc registration is not lost *)
Example confl_cancel_during_construction :
  let step := confl_step true true [0] 2 in
  let s := confl_settle true true [0] 2 60 (run step (confl_init two_roots) [LMain; LMain; LMain; LMain; LCancel 0]) in
  confl_quiescent s = true /\ kR s = true /\ fwait s = WExit /\ wgneg (fw s) = false.
Proof. vm_compute. repeat split; reflexivity. Qed.

Example confl_user_cancel_releases_waiter :
  let step := confl_step true true [0; 1] 2 in
  let s0 := confl_settle true true [0; 1] 2 60 (confl_init two_roots) in
  let s1 := confl_settle true true [0; 1] 2 60 (run step s0 [LUser]) in
  kR s1 = true /\ confl_quiescent s1 = true /\ fwait s1 = WExit /\ map rst (regs (fw s1)) = [Stopped; Done; Stopped; Done].
Proof. vm_compute. repeat split; reflexivity. Qed.

Example wfi_example : wfi [0; 1] (length two_roots).
Proof. intros x [<-|[<-|[]]]; cbn; lia. Qed.

(* ------------------------------------------------------------------------------------------------------------ *)
(* H. progress: a lexicographic measure (steps left in the library function, work left in hook goroutines + waiter)   *)
(*    strictly decreases on every library/hook/waiter step and never increases on an environment step, so every     *)
(*    schedule reaches quiescence after finitely many non-environment steps                                         *)
(* ------------------------------------------------------------------------------------------------------------ *)
Definition wt (f : fn) : nat := match f with FAct _ => 1 | FChain _ _ _ => 2 | FStopAll rs => 1 + length rs end.
Definition regm (x : reg) : nat := match rst x with Pending => 1 + wt (rfn x) | Run f => wt f | _ => 0 end.
Definition Mw (w : world) : nat := list_sum (map regm (regs w)).

Definition lexlt (a b : nat * nat) : Prop := fst a < fst b \/ (fst a = fst b /\ snd a < snd b).
Definition lexle (a b : nat * nat) : Prop := fst a < fst b \/ (fst a = fst b /\ snd a <= snd b).

Lemma sum_map_le {A : Type} (g : A -> nat) (h : A -> A) (l : list A) :
  (forall x, g (h x) <= g x) -> list_sum (map g (map h l)) <= list_sum (map g l).
Proof.
  intros H. induction l as [|y t IH]; [cbn; lia|]. change (list_sum (g (h y) :: map g (map h t)) <= list_sum (g y :: map g t)).
  rewrite !list_sum_cons. specialize (H y). lia.
Qed.

Lemma regm_fire ns x : regm (fire ns x) <= regm x.
Proof.
  destruct (fire_cases ns x) as [(Ep & Ek & ->)|[(Ep & Ek & ->)|(Hnp & ->)]]; try lia.
  unfold regm. cbn [set_rst rst rfn]. rewrite Ep. lia.
Qed.

Lemma Mw_cancel w n : Mw (w_cancel w n) <= Mw w.
Proof. unfold Mw. cbn [w_cancel regs]. apply sum_map_le. intros x. apply regm_fire. Qed.

Lemma Mw_act w a : Mw (w_act w a) <= Mw w.
Proof. destruct a as [|n|]; cbn [w_act]; [unfold Mw; cbn [regs]; lia|apply Mw_cancel|destruct (wg w); unfold Mw; cbn [regs]; lia]. Qed.

Lemma Mw_setrst w r st x :
  nth_error (regs w) r = Some x -> Mw (w_setrst w r st) + regm x = Mw w + regm (set_rst x st).
Proof. intros Hx. unfold Mw. cbn [w_setrst w_setregs regs]. apply (sum_updf regm (fun y => set_rst y st) _ _ _ Hx). Qed.

Lemma Mw_stop w r0 : Mw (fst (w_stop w r0)) <= Mw w.
Proof.
  unfold w_stop. destruct (is_pending w r0) eqn:Ep; cbn [fst]; [|lia].
  apply is_pending_spec in Ep. destruct Ep as (x0 & Hx0 & Hp). pose proof (Mw_setrst w r0 Stopped x0 Hx0) as H.
  unfold regm at 2 in H. cbn [set_rst rst] in H. lia.
Qed.

Lemma Mw_hook w r w' : w_hook w r = Some w' -> Mw w' < Mw w.
Proof.
  intros Hh. apply w_hook_inv in Hh. destruct Hh as (x & Hx & Hc).
  destruct Hc as [(a & Ea & ->)|[(c & r0 & a & Ea & Ep & ->)|[(c & r0 & a & Ea & Ep & ->)|[(Ea & ->)|(r0 & rs & Ea & ->)]]]].
  - assert (Hx1 : nth_error (regs (w_act w a)) r = Some x).
    { destruct a as [|n|]; cbn [w_act]; [exact Hx| |destruct (wg w); exact Hx].
      rewrite (regs_cancel_fwd w n r x Hx). rewrite fire_rst_np by congruence. reflexivity. }
    pose proof (Mw_setrst _ r Done x Hx1) as H. pose proof (Mw_act w a) as H2.
    unfold regm in H at 1 2. cbn [set_rst rst] in H. rewrite Ea in H. cbn [wt] in H. lia.
  - apply is_pending_spec in Ep. destruct Ep as (x0 & Hx0 & Hp0).
    assert (Hne : r <> r0) by (intros ->; congruence).
    pose proof (Mw_setrst w r0 Stopped x0 Hx0) as H1.
    assert (Hx1 : nth_error (regs (w_setrst w r0 Stopped)) r = Some x).
    { rewrite (setrst_fwd w r0 Stopped r x Hx). destruct (Nat.eqb_spec r r0); [contradiction|reflexivity]. }
    pose proof (Mw_setrst _ r (Run (FAct a)) x Hx1) as H2.
    unfold regm in H1 at 2. unfold regm in H2 at 1 2. cbn [set_rst rst] in H1, H2. rewrite Ea in H2. cbn [wt] in H2. lia.
  - pose proof (Mw_setrst w r (if negb c then Run (FAct a) else Done) x Hx) as H.
    unfold regm in H at 1 2. cbn [set_rst rst] in H. rewrite Ea in H. cbn [wt] in H. destruct (negb c); cbn [wt] in H; lia.
  - pose proof (Mw_setrst w r Done x Hx) as H. unfold regm in H at 1 2. cbn [set_rst rst] in H. rewrite Ea in H. cbn [wt length] in H. lia.
  - pose proof (Mw_stop w r0) as H1.
    assert (Hx1 : nth_error (regs (fst (w_stop w r0))) r = Some x).
    { unfold w_stop. destruct (is_pending w r0) eqn:Ep; cbn [fst]; [|exact Hx].
      apply is_pending_spec in Ep. destruct Ep as (x0 & Hx0 & Hp0). assert (Hne : r <> r0) by (intros ->; congruence).
      rewrite (setrst_fwd w r0 Stopped r x Hx). destruct (Nat.eqb_spec r r0); [contradiction|reflexivity]. }
    pose proof (Mw_setrst _ r (Run (FStopAll rs)) x Hx1) as H2.
    unfold regm in H2 at 1 2. cbn [set_rst rst] in H2. rewrite Ea in H2. cbn [wt length] in H2. lia.
Qed.

Definition chain_mu (s : cst) : nat * nat := (2 - cpc s, Mw (cw s)).

Theorem chain_progress consult cx other nenv s l s' :
  chain_step consult cx other nenv s l = Some s' ->
  match l with LCancel _ => lexle (chain_mu s') (chain_mu s) | _ => lexlt (chain_mu s') (chain_mu s) end.
Proof.
  intros Hs. destruct l as [|r|n| |]; cbn [chain_step] in Hs; try discriminate.
  - left. destruct (cpc s) as [|[|pc]] eqn:E; try discriminate; inversion Hs; subst s'; unfold chain_mu; cbn [fst cpc]; rewrite E; lia.
  - destruct (w_hook (cw s) r) as [w'|] eqn:Eh; [|discriminate]. inversion Hs; subst s'. right. unfold chain_mu. cbn [fst snd cw cpc].
    split; [reflexivity|eapply Mw_hook; eauto].
  - destruct (n <? nenv); [|discriminate]. inversion Hs; subst s'. right. unfold chain_mu. cbn [fst snd cw cpc].
    split; [reflexivity|apply Mw_cancel].
Qed.

Definition combine_rem (L : nat) (pc : bpc) : nat :=
  match pc with
  | BStart => 2 * L + 8
  | BCheck i _ => (L - i) + L + 6
  | BEarlyNew => 2
  | BEarlyCancel => 1
  | BNew => L + 4
  | BReg i => (L - i) + 3
  | BStop => 2
  | _ => 0
  end.
Definition combine_mu (L : nat) (s : bst) : nat * nat := (combine_rem L (bpcv s), Mw (bw s)).

Theorem combine_progress regstop primary others nenv s l s' :
  combine_step regstop primary others nenv s l = Some s' ->
  match l with LCancel _ => lexle (combine_mu (length others) s') (combine_mu (length others) s)
             | _ => lexlt (combine_mu (length others) s') (combine_mu (length others) s) end.
Proof.
  intros Hs. destruct l as [|r|n| |]; cbn [combine_step] in Hs; try discriminate.
  - left. unfold combine_main in Hs. unfold combine_mu. cbn [fst].
    destruct (bpcv s) as [|i n| | | |i| |r|r|r] eqn:E; try discriminate.
    + destruct primary as [p|]; [destruct (is_canc (nodes (bw s)) p)|]; inversion Hs; subst s'; cbn [bset bpcv combine_rem]; lia.
    + destruct (nth_error others i) as [[o|]|] eqn:Eo.
      * apply nth_error_lt in Eo. destruct (is_canc (nodes (bw s)) o); inversion Hs; subst s'; cbn [bset bpcv combine_rem]; lia.
      * apply nth_error_lt in Eo. inversion Hs; subst s'; cbn [bset bpcv combine_rem]; lia.
      * destruct (n =? 0); inversion Hs; subst s'; cbn [bset bpcv combine_rem]; lia.
    + inversion Hs; subst s'; cbn [bpcv combine_rem]; lia.
    + inversion Hs; subst s'; cbn [bset bpcv combine_rem]; lia.
    + inversion Hs; subst s'; cbn [bpcv combine_rem]; lia.
    + destruct (nth_error others i) as [[o|]|] eqn:Eo; [apply nth_error_lt in Eo|apply nth_error_lt in Eo|];
        inversion Hs; subst s'; cbn [bset bpcv combine_rem]; lia.
    + inversion Hs; subst s'; cbn [bset bpcv combine_rem]; lia.
  - destruct (w_hook (bw s) r) as [w'|] eqn:Eh; [|discriminate]. inversion Hs; subst s'. right. unfold combine_mu. cbn [fst snd bset bw bpcv].
    split; [reflexivity|eapply Mw_hook; eauto].
  - destruct (n <? nenv); [|discriminate]. inversion Hs; subst s'. right. unfold combine_mu. cbn [fst snd bset bw bpcv].
    split; [reflexivity|apply Mw_cancel].
Qed.

Definition confl_rem (L : nat) (pc : fpc) : nat :=
  match pc with
  | F0 => 4 * L + 12 | F1 => 4 * L + 11 | F2 => 4 * L + 10
  | FLoop i => 4 * (L - i) + 9
  | FAdd i => 4 * (L - S i) + 12
  | FRegA i => 4 * (L - S i) + 11
  | FRegB i _ => 4 * (L - S i) + 10
  | FEnd => 4 | FDefer => 1 | FDoneG => 2 | FSpawn => 1
  | FRet | FPanic => 0
  end.
Definition wpot (p : wpc) : nat := match p with WWait => 2 | WCancel => 1 | _ => 0 end.
Definition confl_mu (L : nat) (s : fstate) : nat * nat := (confl_rem L (fpcv s), Mw (fw s) + wpot (fwait s)).

Theorem confl_progress detach consult inputs nenv s l s' :
  confl_step detach consult inputs nenv s l = Some s' ->
  match l with LCancel _ | LUser => lexle (confl_mu (length inputs) s') (confl_mu (length inputs) s)
             | _ => lexlt (confl_mu (length inputs) s') (confl_mu (length inputs) s) end.
Proof.
  intros Hs. destruct l as [|r|n| |]; cbn [confl_step] in Hs.
  - left. unfold confl_main in Hs. unfold confl_mu. cbn [fst].
    destruct (fpcv s) as [| | |i|i|i|i a| | | | | |] eqn:E; try discriminate.
    + destruct inputs as [|c0 rest]; [|destruct detach]; inversion Hs; subst s'; cbn [fset fpcv confl_rem length]; lia.
    + inversion Hs; subst s'; cbn [fpcv confl_rem]; lia.
    + inversion Hs; subst s'; cbn [fset fpcv confl_rem]; lia.
    + destruct (nth_error inputs i) as [x|] eqn:Ex.
      * apply nth_error_lt in Ex. destruct (is_canc (nodes (fw s)) x); inversion Hs; subst s'; cbn [fset fpcv confl_rem]; lia.
      * inversion Hs; subst s'; cbn [fset fpcv confl_rem]; lia.
    + inversion Hs; subst s'; cbn [fset fpcv confl_rem]; lia.
    + destruct (nth_error inputs i) as [x|] eqn:Ex; [|discriminate]. inversion Hs; subst s'; cbn [fset fpcv confl_rem]; lia.
    + inversion Hs; subst s'; cbn [fset fpcv confl_rem]; lia.
    + destruct (fok s); inversion Hs; subst s'; cbn [fset fpcv confl_rem]; lia.
    + inversion Hs; subst s'; cbn [fset fpcv confl_rem]; lia.
    + inversion Hs; subst s'; cbn [fset fpcv confl_rem]; lia.
    + inversion Hs; subst s'; cbn [fpcv confl_rem]; lia.
  - destruct (w_hook (fw s) r) as [w'|] eqn:Eh; [|discriminate]. inversion Hs; subst s'. right. unfold confl_mu. cbn [fst snd fset fw fpcv fwait].
    split; [reflexivity|]. pose proof (Mw_hook _ _ _ Eh). lia.
  - destruct (n <? nenv); [|discriminate]. inversion Hs; subst s'. right. unfold confl_mu. cbn [fst snd fset fw fpcv fwait].
    split; [reflexivity|]. pose proof (Mw_cancel (fw s) n). lia.
  - destruct (fpcv s) eqn:E; try discriminate. inversion Hs; subst s'. right. unfold confl_mu. cbn [fst snd fw fpcv fwait].
    rewrite E. split; [reflexivity|]. pose proof (Mw_cancel (fw s) (fR s)). lia.
  - destruct (fwait s) eqn:Ew; try discriminate.
    + destruct (wg (fw s) =? 0); [|discriminate]. inversion Hs; subst s'. right. unfold confl_mu. cbn [fst snd fw fpcv fwait wpot].
      rewrite Ew. cbn [wpot]. split; [reflexivity|lia].
    + inversion Hs; subst s'. right. unfold confl_mu. cbn [fst snd fw fpcv fwait wpot]. rewrite Ew. cbn [wpot].
      split; [reflexivity|]. pose proof (Mw_cancel (fw s) (fR s)). lia.
Qed.
