(* Facts about the fixed-width arithmetic of Model/GoFrag2.v, and the tactics with which Proofs/SanityGen.v and
   Proofs/RetryGen.v run a translated function symbolically. *)
From Coq Require Import List ZArith Bool String Lia.
From BB.Model Require Import GoFrag GoFrag2.
Import ListNotations.
Local Open Scope Z_scope.

Definition modulus (t : ity) : Z := match t with TUint32 | TInt32 => 2 ^ 32 | _ => 2 ^ 64 end.

Lemma modulus_pos t : 0 < modulus t.
Proof. destruct t; reflexivity. Qed.

(* wrapping changes a value by a multiple of the modulus ... *)
Lemma wrap_to_repr t z : exists k, wrap_to t z = z + k * modulus t.
Proof.
  destruct t; unfold wrap_to, modulus.
  - exists (- ((z + 2 ^ 63) / 2 ^ 64)). rewrite Z.mod_eq by (intro H; discriminate H). ring.
  - exists (- ((z + 2 ^ 31) / 2 ^ 32)). rewrite Z.mod_eq by (intro H; discriminate H). ring.
  - exists (- (z / 2 ^ 32)). rewrite Z.mod_eq by (intro H; discriminate H). ring.
  - exists (- ((z + 2 ^ 63) / 2 ^ 64)). rewrite Z.mod_eq by (intro H; discriminate H). ring.
Qed.

(* ... and does not see multiples of the modulus *)
Lemma wrap_to_cong t a b k : a = b + k * modulus t -> wrap_to t a = wrap_to t b.
Proof.
  intros ->. destruct t; unfold wrap_to, modulus.
  - replace (b + k * 2 ^ 64 + 2 ^ 63) with (b + 2 ^ 63 + k * 2 ^ 64) by ring. rewrite Z_mod_plus_full. reflexivity.
  - replace (b + k * 2 ^ 32 + 2 ^ 31) with (b + 2 ^ 31 + k * 2 ^ 32) by ring. rewrite Z_mod_plus_full. reflexivity.
  - rewrite Z_mod_plus_full. reflexivity.
  - replace (b + k * 2 ^ 64 + 2 ^ 63) with (b + 2 ^ 63 + k * 2 ^ 64) by ring. rewrite Z_mod_plus_full. reflexivity.
Qed.

Lemma wrap_to_in_range t z : in_range t (wrap_to t z) = true.
Proof.
  assert (S64 : forall x, - 2 ^ 63 <= (x + 2 ^ 63) mod 2 ^ 64 - 2 ^ 63 < 2 ^ 63).
  { intros x. pose proof (Z.mod_pos_bound (x + 2 ^ 63) (2 ^ 64) eq_refl) as B.
    change (2 ^ 64) with (2 ^ 63 + 2 ^ 63) in *. generalize dependent (2 ^ 63). intros; lia. }
  assert (S32 : forall x, - 2 ^ 31 <= (x + 2 ^ 31) mod 2 ^ 32 - 2 ^ 31 < 2 ^ 31).
  { intros x. pose proof (Z.mod_pos_bound (x + 2 ^ 31) (2 ^ 32) eq_refl) as B.
    change (2 ^ 32) with (2 ^ 31 + 2 ^ 31) in *. generalize dependent (2 ^ 31). intros; lia. }
  destruct t; unfold wrap_to, in_range; apply andb_true_iff; split; try apply Z.leb_le; try apply Z.ltb_lt;
    try apply S64; try apply S32; apply (Z.mod_pos_bound z (2 ^ 32) eq_refl).
Qed.

Lemma wrap_to_small t z : in_range t z = true -> wrap_to t z = z.
Proof.
  destruct t; unfold wrap_to, in_range; intros H; apply andb_true_iff in H; destruct H as [H1 H2];
    apply Z.leb_le in H1; apply Z.ltb_lt in H2.
  - rewrite Z.mod_small; [ring|]. change (2 ^ 64) with (2 ^ 63 + 2 ^ 63). generalize dependent (2 ^ 63). intros; lia.
  - rewrite Z.mod_small; [ring|]. change (2 ^ 32) with (2 ^ 31 + 2 ^ 31). generalize dependent (2 ^ 31). intros; lia.
  - rewrite Z.mod_small; [ring|]. lia.
  - rewrite Z.mod_small; [ring|]. change (2 ^ 64) with (2 ^ 63 + 2 ^ 63). generalize dependent (2 ^ 63). intros; lia.
Qed.

Lemma wrap_to_idem t z : wrap_to t (wrap_to t z) = wrap_to t z.
Proof. apply wrap_to_small, wrap_to_in_range. Qed.

(* a conversion to a type that contains the source type keeps the value *)
Definition widens (s t : ity) : bool :=
  match s, t with
  | TInt32, (TInt | TInt64 | TInt32) => true
  | TUint32, (TInt | TInt64 | TUint32) => true
  | (TInt | TInt64), (TInt | TInt64) => true
  | _, _ => false
  end.

Lemma in_range_widens s t z : widens s t = true -> in_range s z = true -> in_range t z = true.
Proof.
  destruct s, t; cbn [widens]; try discriminate; intros _; unfold in_range; intros H; try exact H;
    apply andb_true_iff in H; destruct H as [H1 H2]; apply Z.leb_le in H1; apply Z.ltb_lt in H2;
    apply andb_true_iff; split; try apply Z.leb_le; try apply Z.ltb_lt.
  all: change (2 ^ 63) with (2 ^ 31 * 2 ^ 32) in *; change (2 ^ 32) with (2 * 2 ^ 31) in *;
       assert (0 < 2 ^ 31) by reflexivity; generalize dependent (2 ^ 31); intros; nia.
Qed.

Lemma wrap_to_widen s t z : widens s t = true -> wrap_to t (wrap_to s z) = wrap_to s z.
Proof. intros W. apply wrap_to_small, (in_range_widens s t _ W), wrap_to_in_range. Qed.

(* a conversion to a type whose modulus divides the source type's forgets an earlier wrap into the source type:
   int32(int(z)) = int32(z), uint32(int32(z)) = uint32(z) *)
Definition narrows (s t : ity) : bool :=
  match s, t with
  | (TInt | TInt64), _ => true
  | (TInt32 | TUint32), (TInt32 | TUint32) => true
  | _, _ => false
  end.

Lemma wrap_to_narrow s t z : narrows s t = true -> wrap_to t (wrap_to s z) = wrap_to t z.
Proof.
  intros N. destruct (wrap_to_repr s z) as [k ->].
  assert (D : exists q, modulus s = q * modulus t).
  { destruct s, t; try discriminate N; first [ exists 1; reflexivity | exists (2 ^ 32); reflexivity ]. }
  destruct D as [q D]. apply (wrap_to_cong t _ _ (k * q)). rewrite D. ring.
Qed.

(* the arithmetic operations may be performed on wrapped or unwrapped operands *)
Lemma wrap_to_add_l t a b : wrap_to t (wrap_to t a + b) = wrap_to t (a + b).
Proof. destruct (wrap_to_repr t a) as [k ->]. apply (wrap_to_cong t _ _ k). ring. Qed.
Lemma wrap_to_add_r t a b : wrap_to t (a + wrap_to t b) = wrap_to t (a + b).
Proof. destruct (wrap_to_repr t b) as [k ->]. apply (wrap_to_cong t _ _ k). ring. Qed.
Lemma wrap_to_sub_l t a b : wrap_to t (wrap_to t a - b) = wrap_to t (a - b).
Proof. destruct (wrap_to_repr t a) as [k ->]. apply (wrap_to_cong t _ _ k). ring. Qed.
Lemma wrap_to_sub_r t a b : wrap_to t (a - wrap_to t b) = wrap_to t (a - b).
Proof. destruct (wrap_to_repr t b) as [k ->]. apply (wrap_to_cong t _ _ (- k)). ring. Qed.
Lemma wrap_to_mul_l t a b : wrap_to t (wrap_to t a * b) = wrap_to t (a * b).
Proof. destruct (wrap_to_repr t a) as [k ->]. apply (wrap_to_cong t _ _ (k * b)). ring. Qed.
Lemma wrap_to_mul_r t a b : wrap_to t (a * wrap_to t b) = wrap_to t (a * b).
Proof. destruct (wrap_to_repr t b) as [k ->]. apply (wrap_to_cong t _ _ (a * k)). ring. Qed.
Lemma wrap_to_neg t a : wrap_to t (- wrap_to t a) = wrap_to t (- a).
Proof. destruct (wrap_to_repr t a) as [k ->]. apply (wrap_to_cong t _ _ (- k)). ring. Qed.

(* int and int64 wrap alike *)
Lemma wrap_to_int z : wrap_to TInt z = wrap_to TInt64 z.
Proof. reflexivity. Qed.


Arguments wrap_to : simpl never.

Global Hint Rewrite wrap_to_int wrap_to_idem wrap_to_add_l wrap_to_add_r wrap_to_sub_l wrap_to_sub_r wrap_to_mul_l wrap_to_mul_r
  wrap_to_neg Z.mul_1_l Z.mul_1_r Z.add_0_l Z.add_0_r Z.sub_0_r : gowrap.
Global Hint Rewrite wrap_to_widen using reflexivity : gowrap.
Global Hint Rewrite wrap_to_narrow using reflexivity : gowrap.

(* ---- symbolic execution ---- *)

(* run the interpreter as far as it goes, leaving integer arithmetic and comparisons alone *)
Ltac go_eval :=
  cbn -[Z.eqb Z.ltb Z.leb Z.gtb Z.geb Z.add Z.sub Z.mul Z.opp Z.pow Z.modulo Z.div wrap_to].

(* decide a comparison from the context if linear arithmetic can, split on it otherwise *)
Ltac go_cmp_step :=
  match goal with
  | |- context [Z.gtb ?a ?b] => rewrite (Z.gtb_ltb a b)
  | |- context [Z.geb ?a ?b] => rewrite (Z.geb_leb a b)
  | |- context [Z.ltb ?a ?b] =>
      first [ rewrite (proj2 (Z.ltb_lt a b)) by lia | rewrite (proj2 (Z.ltb_ge a b)) by lia | destruct (Z.ltb_spec a b) ]
  | |- context [Z.leb ?a ?b] =>
      first [ rewrite (proj2 (Z.leb_le a b)) by lia | rewrite (proj2 (Z.leb_gt a b)) by lia | destruct (Z.leb_spec a b) ]
  | |- context [Z.eqb ?a ?b] =>
      first [ rewrite (proj2 (Z.eqb_eq a b)) by lia | rewrite (proj2 (Z.eqb_neq a b)) by lia | destruct (Z.eqb_spec a b) ]
  end.
